--------------------------- MODULE ReplyShapeOps ---------------------------
(***************************************************************************)
(* C14: the result types of RFC 1813 (NFSv3, MOUNT v3), RFC 1094 appendix A *)
(* (MOUNT v1) and the reply forms of RFC 1831 as TLA+ data, an XDR          *)
(* interpreter over 32-bit words, and the rule that decides whether a reply *)
(* is well formed for the call it answers.                                  *)
(*                                                                         *)
(* This module is the ONE source of the schema: ReplyShape dumps SchemaJson *)
(* for the harness's generic XDR interpreter (harness/vf_replyshape.go) and *)
(* ReplyShapeTrace applies ReplyBad to logged replies.                      *)
(*                                                                         *)
(* A type is a tuple: <<"u32">> <<"u64">> <<"bool">> <<"string">>           *)
(* <<"opaque">> <<"fh">> <<"verf8">> <<"fh32">> (fixed 32 bytes, MOUNT v1), *)
(* <<"struct", <<<<name, T>>, ...>>>>, <<"opt", T>>, <<"list", T>>,          *)
(* <<"array", T>>, <<"ref", name>>.                                         *)
(***************************************************************************)
EXTENDS Integers, Sequences, FiniteSets

-----------------------------------------------------------------------------
(* enumerations *)
Nfsstat3 == {0, 1, 2, 5, 6, 13, 17, 18, 19, 20, 21, 22, 27, 28, 30, 31, 63, 66, 69, 70, 71,
             10001, 10002, 10003, 10004, 10005, 10006, 10007, 10008}
Mountstat3 == {0, 1, 2, 5, 13, 20, 22, 63, 10004, 10006}
Mountstat1 == 0..255                     \* RFC 1094: a UNIX errno
AcceptStat == 0..5                       \* SUCCESS, PROG_UNAVAIL, PROG_MISMATCH, PROC_UNAVAIL, GARBAGE_ARGS, SYSTEM_ERR
AuthStat == 0..14                        \* RFC 1831 / 5531 auth_stat
SUCCESS == 0  PROG_UNAVAIL == 1  PROG_MISMATCH == 2  PROC_UNAVAIL == 3  GARBAGE_ARGS == 4  SYSTEM_ERR == 5
NFS_PROG == 100003
MOUNT_PROG == 100005
JUKEBOX == 10008

-----------------------------------------------------------------------------
(* type constructors *)
U32 == <<"u32">>  U64 == <<"u64">>  Bool == <<"bool">>  Str == <<"string">>  Opq == <<"opaque">>
FH == <<"fh">>  Verf == <<"verf8">>  FH32 == <<"fh32">>
St(fields) == <<"struct", fields>>
Opt(t) == <<"opt", t>>
Lst(t) == <<"list", t>>
Arr(t) == <<"array", t>>
Ref(n) == <<"ref", n>>
Empty == St(<< >>)
BaseKinds == {"u32", "u64", "bool", "string", "opaque", "fh", "verf8", "fh32"}

Types ==
  [nfstime3     |-> St(<< <<"sec", U32>>, <<"nsec", U32>> >>),
   fattr3       |-> St(<< <<"type", U32>>, <<"mode", U32>>, <<"nlink", U32>>, <<"uid", U32>>, <<"gid", U32>>,
                          <<"size", U64>>, <<"used", U64>>, <<"rdev1", U32>>, <<"rdev2", U32>>, <<"fsid", U64>>,
                          <<"fileid", U64>>, <<"atime", Ref("nfstime3")>>, <<"mtime", Ref("nfstime3")>>,
                          <<"ctime", Ref("nfstime3")>> >>),
   wcc_attr     |-> St(<< <<"size", U64>>, <<"mtime", Ref("nfstime3")>>, <<"ctime", Ref("nfstime3")>> >>),
   post_op_attr |-> Opt(Ref("fattr3")),
   pre_op_attr  |-> Opt(Ref("wcc_attr")),
   wcc_data     |-> St(<< <<"before", Ref("pre_op_attr")>>, <<"after", Ref("post_op_attr")>> >>),
   post_op_fh3  |-> Opt(FH)]

Poa == Ref("post_op_attr")
Wcc == Ref("wcc_data")
NewObj == St(<< <<"object", Ref("post_op_fh3")>>, <<"obj", Poa>>, <<"dir_wcc", Wcc>> >>)
DirWcc == St(<< <<"dir_wcc", Wcc>> >>)
ObjPoa == St(<< <<"obj", Poa>> >>)
DirPoa == St(<< <<"dir", Poa>> >>)
Entry == St(<< <<"fileid", U64>>, <<"name", Str>>, <<"cookie", U64>> >>)
EntryPlus == St(<< <<"fileid", U64>>, <<"name", Str>>, <<"cookie", U64>>, <<"attr", Poa>>, <<"fh", Ref("post_op_fh3")>> >>)

\* a procedure: form "void" (no result), "status" (union on the leading status word: 0 -> ok, else fail),
\* "plain" (a result without status)
Void == [form |-> "void", ok |-> Empty, fail |-> Empty]
Res(ok, fail) == [form |-> "status", ok |-> ok, fail |-> fail]
Plain(t) == [form |-> "plain", ok |-> t, fail |-> Empty]

MountList == Lst(St(<< <<"hostname", Str>>, <<"directory", Str>> >>))
Exports == Lst(St(<< <<"dir", Str>>, <<"groups", Lst(St(<< <<"name", Str>> >>))>> >>))

NfsProcs == <<"NULL", "GETATTR", "SETATTR", "LOOKUP", "ACCESS", "READLINK", "READ", "WRITE", "CREATE", "MKDIR", "SYMLINK",
              "MKNOD", "REMOVE", "RMDIR", "RENAME", "LINK", "READDIR", "READDIRPLUS", "FSSTAT", "FSINFO", "PATHCONF", "COMMIT">>
MountProcs == <<"NULL", "MNT", "DUMP", "UMNT", "UMNTALL", "EXPORT">>

ProcNames == {"NFS3." \o NfsProcs[i] : i \in DOMAIN NfsProcs} \cup {"MOUNT3." \o MountProcs[i] : i \in DOMAIN MountProcs}
             \cup {"MOUNT1." \o MountProcs[i] : i \in DOMAIN MountProcs}

Procs ==
  [p \in ProcNames |->
     CASE p = "NFS3.NULL"        -> Void
       [] p = "NFS3.GETATTR"     -> Res(St(<< <<"obj", Ref("fattr3")>> >>), Empty)
       [] p = "NFS3.SETATTR"     -> Res(St(<< <<"obj_wcc", Wcc>> >>), St(<< <<"obj_wcc", Wcc>> >>))
       [] p = "NFS3.LOOKUP"      -> Res(St(<< <<"object", FH>>, <<"obj", Poa>>, <<"dir", Poa>> >>), DirPoa)
       [] p = "NFS3.ACCESS"      -> Res(St(<< <<"obj", Poa>>, <<"access", U32>> >>), ObjPoa)
       [] p = "NFS3.READLINK"    -> Res(St(<< <<"obj", Poa>>, <<"data", Str>> >>), ObjPoa)
       [] p = "NFS3.READ"        -> Res(St(<< <<"obj", Poa>>, <<"count", U32>>, <<"eof", Bool>>, <<"data", Opq>> >>), ObjPoa)
       [] p = "NFS3.WRITE"       -> Res(St(<< <<"obj_wcc", Wcc>>, <<"count", U32>>, <<"committed", U32>>, <<"verf", Verf>> >>),
                                        St(<< <<"obj_wcc", Wcc>> >>))
       [] p \in {"NFS3.CREATE", "NFS3.MKDIR", "NFS3.SYMLINK", "NFS3.MKNOD"} -> Res(NewObj, DirWcc)
       [] p \in {"NFS3.REMOVE", "NFS3.RMDIR"} -> Res(DirWcc, DirWcc)
       [] p = "NFS3.RENAME"      -> Res(St(<< <<"fromdir_wcc", Wcc>>, <<"todir_wcc", Wcc>> >>),
                                        St(<< <<"fromdir_wcc", Wcc>>, <<"todir_wcc", Wcc>> >>))
       [] p = "NFS3.LINK"        -> Res(St(<< <<"obj", Poa>>, <<"linkdir_wcc", Wcc>> >>), St(<< <<"obj", Poa>>, <<"linkdir_wcc", Wcc>> >>))
       [] p = "NFS3.READDIR"     -> Res(St(<< <<"dir", Poa>>, <<"cookieverf", Verf>>, <<"entries", Lst(Entry)>>, <<"eof", Bool>> >>), DirPoa)
       [] p = "NFS3.READDIRPLUS" -> Res(St(<< <<"dir", Poa>>, <<"cookieverf", Verf>>, <<"entries", Lst(EntryPlus)>>, <<"eof", Bool>> >>), DirPoa)
       [] p = "NFS3.FSSTAT"      -> Res(St(<< <<"obj", Poa>>, <<"tbytes", U64>>, <<"fbytes", U64>>, <<"abytes", U64>>, <<"tfiles", U64>>,
                                              <<"ffiles", U64>>, <<"afiles", U64>>, <<"invarsec", U32>> >>), ObjPoa)
       [] p = "NFS3.FSINFO"      -> Res(St(<< <<"obj", Poa>>, <<"rtmax", U32>>, <<"rtpref", U32>>, <<"rtmult", U32>>, <<"wtmax", U32>>,
                                              <<"wtpref", U32>>, <<"wtmult", U32>>, <<"dtpref", U32>>, <<"maxfilesize", U64>>,
                                              <<"time_delta", Ref("nfstime3")>>, <<"properties", U32>> >>), ObjPoa)
       [] p = "NFS3.PATHCONF"    -> Res(St(<< <<"obj", Poa>>, <<"linkmax", U32>>, <<"name_max", U32>>, <<"no_trunc", Bool>>,
                                              <<"chown_restricted", Bool>>, <<"case_insensitive", Bool>>, <<"case_preserving", Bool>> >>), ObjPoa)
       [] p = "NFS3.COMMIT"      -> Res(St(<< <<"file_wcc", Wcc>>, <<"verf", Verf>> >>), St(<< <<"file_wcc", Wcc>> >>))
       [] p = "MOUNT3.MNT"       -> Res(St(<< <<"fhandle", FH>>, <<"auth_flavors", Arr(U32)>> >>), Empty)
       [] p = "MOUNT1.MNT"       -> Res(St(<< <<"fhandle", FH32>> >>), Empty)
       [] p \in {"MOUNT3.DUMP", "MOUNT1.DUMP"}     -> Plain(MountList)
       [] p \in {"MOUNT3.EXPORT", "MOUNT1.EXPORT"} -> Plain(Exports)
       [] OTHER -> Void]                 \* MOUNT NULL, UMNT, UMNTALL

StatusEnum(p) == IF SubSeq(p, 1, 5) = "NFS3." THEN Nfsstat3 ELSE IF SubSeq(p, 1, 7) = "MOUNT3." THEN Mountstat3 ELSE Mountstat1

\* program / version / procedure number -> name of the schema entry ("" if none)
ProcName(prog, vers, proc) ==
  IF prog = NFS_PROG /\ vers = 3 /\ proc \in 0..21 THEN "NFS3." \o NfsProcs[proc + 1]
  ELSE IF prog = MOUNT_PROG /\ vers = 3 /\ proc \in 0..5 THEN "MOUNT3." \o MountProcs[proc + 1]
  ELSE IF prog = MOUNT_PROG /\ vers = 1 /\ proc \in 0..5 THEN "MOUNT1." \o MountProcs[proc + 1]
  ELSE ""
KnownProg(prog) == prog \in {NFS_PROG, MOUNT_PROG}
KnownVers(prog, vers) == (prog = NFS_PROG /\ vers = 3) \/ (prog = MOUNT_PROG /\ vers \in {1, 3})

-----------------------------------------------------------------------------
(* well-formedness of the schema itself *)
RECURSIVE IsType(_, _)
IsType(t, depth) ==
  /\ depth > 0
  /\ CASE t[1] \in BaseKinds -> Len(t) = 1
       [] t[1] = "struct" -> /\ Len(t) = 2
                             /\ \A i \in DOMAIN t[2] : Len(t[2][i]) = 2 /\ IsType(t[2][i][2], depth - 1)
                             /\ \A i, j \in DOMAIN t[2] : i # j => t[2][i][1] # t[2][j][1]
       [] t[1] \in {"opt", "list", "array"} -> Len(t) = 2 /\ IsType(t[2], depth - 1)
       [] t[1] = "ref" -> Len(t) = 2 /\ t[2] \in DOMAIN Types /\ IsType(Types[t[2]], depth - 1)
       [] OTHER -> FALSE

\* exactly one shape for a procedure and a status
ShapeFor(p, status) == IF Procs[p].form = "void" THEN Empty
                       ELSE IF Procs[p].form = "plain" \/ status = 0 THEN Procs[p].ok ELSE Procs[p].fail

-----------------------------------------------------------------------------
(* XDR interpreter over words.  ws: sequence of integers, one per 32-bit    *)
(* word; a word >= 2^30 is logged as -1 (TLC integers are 32-bit) and is    *)
(* never a legal discriminant or length.  DecT returns the position after   *)
(* the value, or 0 when the words do not form a value of the type.          *)
Words(n) == (n + 3) \div 4
RECURSIVE DecT(_, _, _)
RECURSIVE DecFields(_, _, _, _)
RECURSIVE DecList(_, _, _, _)
RECURSIVE DecN(_, _, _, _)
DecVar(ws, p, max) ==
  IF p > Len(ws) \/ ws[p] < 0 \/ (max > 0 /\ ws[p] > max) THEN 0
  ELSE IF p + Words(ws[p]) > Len(ws) THEN 0 ELSE p + 1 + Words(ws[p])
DecT(t, ws, p) ==
  IF p = 0 THEN 0
  ELSE CASE t[1] = "u32"    -> IF p <= Len(ws) THEN p + 1 ELSE 0
         [] t[1] = "u64"    -> IF p + 1 <= Len(ws) THEN p + 2 ELSE 0
         [] t[1] = "verf8"  -> IF p + 1 <= Len(ws) THEN p + 2 ELSE 0
         [] t[1] = "fh32"   -> IF p + 7 <= Len(ws) THEN p + 8 ELSE 0
         [] t[1] = "bool"   -> IF p <= Len(ws) /\ ws[p] \in {0, 1} THEN p + 1 ELSE 0
         [] t[1] \in {"string", "opaque"} -> DecVar(ws, p, 0)
         [] t[1] = "fh"     -> DecVar(ws, p, 64)
         [] t[1] = "struct" -> DecFields(t[2], 1, ws, p)
         [] t[1] = "opt"    -> IF p > Len(ws) THEN 0
                               ELSE IF ws[p] = 0 THEN p + 1
                               ELSE IF ws[p] = 1 THEN DecT(t[2], ws, p + 1) ELSE 0
         [] t[1] = "list"   -> DecList(t[2], ws, p, 4096)
         [] t[1] = "array"  -> IF p > Len(ws) \/ ws[p] < 0 THEN 0 ELSE DecN(t[2], ws, p + 1, ws[p])
         [] t[1] = "ref"    -> DecT(Types[t[2]], ws, p)
DecFields(fs, i, ws, p) == IF p = 0 THEN 0 ELSE IF i > Len(fs) THEN p ELSE DecFields(fs, i + 1, ws, DecT(fs[i][2], ws, p))
DecList(t, ws, p, fuel) ==
  IF p = 0 \/ p > Len(ws) \/ fuel = 0 THEN 0
  ELSE IF ws[p] = 0 THEN p + 1
  ELSE IF ws[p] = 1 THEN DecList(t, ws, DecT(t, ws, p + 1), fuel - 1) ELSE 0
DecN(t, ws, p, n) == IF p = 0 THEN 0 ELSE IF n = 0 THEN p ELSE IF n > Len(ws) THEN 0 ELSE DecN(t, ws, DecT(t, ws, p), n - 1)

\* the words form exactly one value of t: nothing missing, nothing left over
Exactly(t, ws) == DecT(t, ws, 1) = Len(ws) + 1

\* the shortest encoding of a type (optionals absent, lists empty, strings empty) and one with everything present once
RECURSIVE MinEnc(_)
RECURSIVE FullEnc(_)
RECURSIVE CatMin(_, _)
RECURSIVE CatFull(_, _)
MinEnc(t) == CASE t[1] \in {"u32", "bool", "string", "opaque", "opt", "list", "array"} -> <<0>>
               [] t[1] \in {"u64", "verf8"} -> <<0, 0>>
               [] t[1] = "fh" -> <<8, 0, 1>>
               [] t[1] = "fh32" -> <<0, 0, 0, 0, 0, 0, 0, 1>>
               [] t[1] = "struct" -> CatMin(t[2], 1)
               [] t[1] = "ref" -> MinEnc(Types[t[2]])
CatMin(fs, i) == IF i > Len(fs) THEN << >> ELSE MinEnc(fs[i][2]) \o CatMin(fs, i + 1)
FullEnc(t) == CASE t[1] = "u32" -> <<7>> [] t[1] = "bool" -> <<1>>
                [] t[1] \in {"u64", "verf8"} -> <<-1, 5>>
                [] t[1] \in {"string", "opaque"} -> <<5, -1, 3>>
                [] t[1] = "fh" -> <<8, 0, 1>>
                [] t[1] = "fh32" -> <<0, 0, 0, 0, 0, 0, 0, 1>>
                [] t[1] = "struct" -> CatFull(t[2], 1)
                [] t[1] = "opt" -> <<1>> \o FullEnc(t[2])
                [] t[1] = "list" -> <<1>> \o FullEnc(t[2]) \o <<1>> \o FullEnc(t[2]) \o <<0>>
                [] t[1] = "array" -> <<2>> \o FullEnc(t[2]) \o FullEnc(t[2])
                [] t[1] = "ref" -> FullEnc(Types[t[2]])
CatFull(fs, i) == IF i > Len(fs) THEN << >> ELSE FullEnc(fs[i][2]) \o CatFull(fs, i + 1)

-----------------------------------------------------------------------------
(* A reply as the trace logs it (and as the design spec builds it):         *)
(*   [rpc : "accepted" | "denied", accept, rej, auth : Int,                 *)
(*    words : result words after accept_stat / reject_stat, tail : bytes    *)
(*    beyond the last whole word, hdr_ok : RFC 1831 reply header fields     *)
(*    (msg_type REPLY, reply_stat, verifier <= 400) are legal]              *)
(* and the call it answers: [prog, vers, proc, state, args].                *)
If(c, w) == IF c THEN {w} ELSE {}

ResultBad(p, ws) ==
  LET pr == Procs[p] IN
  IF pr.form = "void" THEN If(ws # << >>, "result bytes follow a void result (trailing bytes)")
  ELSE IF pr.form = "plain" THEN If(~Exactly(pr.ok, ws), "result does not decode exactly as the result type of its procedure")
  ELSE IF ws = << >> THEN {"result has no status word (missing bytes)"}
  ELSE If(ws[1] \notin StatusEnum(p),
          IF SubSeq(p, 1, 5) = "NFS3." THEN "status on the wire is not a member of nfsstat3" ELSE "MOUNT status is not a member of mountstat3")
       \cup If(~Exactly(ShapeFor(p, ws[1]), Tail(ws)),
               IF DecT(ShapeFor(p, ws[1]), Tail(ws), 1) = 0 THEN "result does not decode as the result type for its procedure and status (missing or malformed bytes)"
               ELSE "result has trailing bytes after the result type for its procedure and status")

\* MOUNT v1 is RFC 1094, not RFC 1813: the v1 or the v3 form of the same procedure is accepted
ResultBadEither(p, ws) ==
  IF SubSeq(p, 1, 7) = "MOUNT1." THEN
     IF ResultBad(p, ws) = {} \/ ResultBad("MOUNT3." \o SubSeq(p, 8, Len(p)), ws) = {} THEN {} ELSE ResultBad(p, ws)
  ELSE ResultBad(p, ws)

ReplyBad(c, r) ==
  LET p == ProcName(c.prog, c.vers, c.proc) IN
     If(~r.xid_ok, "reply does not echo the XID of the call")
  \cup If(~r.hdr_ok, "reply header is not an RFC 1831 reply (msg_type, reply_stat or verifier)")
  \cup If(r.tail # 0, "reply length is not a whole number of XDR units (trailing bytes)")
  \cup (IF ~r.hdr_ok THEN {}
        ELSE IF r.rpc = "denied" THEN
           IF r.rej = 0 THEN If(Len(r.words) # 2, "RPC_MISMATCH reply without exactly (low, high)")
           ELSE IF r.rej = 1 THEN If(Len(r.words) # 0 \/ r.auth \notin AuthStat, "AUTH_ERROR reply without exactly one auth_stat")
           ELSE {"reject_stat is not RPC_MISMATCH or AUTH_ERROR"}
        ELSE IF r.accept \notin AcceptStat THEN {"accept_stat is not a member of the RFC 1831 enumeration"}
        ELSE IF r.accept = SYSTEM_ERR THEN If(r.words # << >>, "bytes follow an accept_stat that carries no results")
        ELSE IF ~KnownProg(c.prog) THEN
             If(r.accept # PROG_UNAVAIL, "call to an unknown program not answered PROG_UNAVAIL")
             \cup If(r.accept = PROG_UNAVAIL /\ r.words # << >>, "bytes follow an accept_stat that carries no results")
        ELSE IF ~KnownVers(c.prog, c.vers) THEN
             If(r.accept # PROG_MISMATCH, "call to an unsupported version not answered PROG_MISMATCH")
             \cup If(r.accept = PROG_MISMATCH /\ Len(r.words) # 2, "PROG_MISMATCH without exactly (low, high)")
             \cup If(r.accept = PROG_MISMATCH /\ Len(r.words) = 2 /\
                       (r.words[1] < 0 \/ r.words[2] < r.words[1] \/ (c.vers >= r.words[1] /\ c.vers <= r.words[2])),
                     "PROG_MISMATCH range is empty or contains the version that was refused")
        ELSE IF p = "" THEN
             If(r.accept # PROC_UNAVAIL, "call to an unknown procedure not answered PROC_UNAVAIL")
             \cup If(r.accept = PROC_UNAVAIL /\ r.words # << >>, "bytes follow an accept_stat that carries no results")
        ELSE IF r.accept \in {PROG_UNAVAIL, PROG_MISMATCH, PROC_UNAVAIL} THEN
             {"existing program / version / procedure answered as unavailable"}
        ELSE IF r.accept = GARBAGE_ARGS THEN If(r.words # << >>, "bytes follow an accept_stat that carries no results")
        ELSE ResultBadEither(p, r.words))

(* Named deviations (known findings); each explains exactly one way the rule above fails. *)
FailTail(p, ws) == Procs[p].form = "status" /\ Len(ws) >= 1 /\ Exactly(Procs[p].fail, Tail(ws))

\* F09: arguments that do not decode are answered accept_stat SUCCESS with the number 4 (GARBAGE_ARGS)
\* in the nfsstat3 position, in the failure shape of the procedure
DevGarbage(c, r) ==
  LET p == ProcName(c.prog, c.vers, c.proc) IN
  /\ c.args \in {"trunc", "garbage"} /\ c.prog = NFS_PROG /\ p # ""
  /\ r.rpc = "accepted" /\ r.accept = SUCCESS /\ r.hdr_ok /\ r.xid_ok /\ r.tail = 0
  /\ Len(r.words) >= 1 /\ r.words[1] = 4 /\ FailTail(p, r.words)
\* F09b: during a policy drain every call is answered SUCCESS + the bare word 10008
DevDrain(c, r) ==
  /\ c.state = "drain"
  /\ r.rpc = "accepted" /\ r.accept = SUCCESS /\ r.hdr_ok /\ r.xid_ok /\ r.tail = 0 /\ r.words = <<JUKEBOX>>
\* F09c: the status 10013 (not in nfsstat3) in an otherwise well-formed failure result
DevDelay(c, r) ==
  LET p == ProcName(c.prog, c.vers, c.proc) IN
  /\ c.prog = NFS_PROG /\ p # ""
  /\ r.rpc = "accepted" /\ r.accept = SUCCESS /\ r.hdr_ok /\ r.xid_ok /\ r.tail = 0
  /\ Len(r.words) >= 1 /\ r.words[1] = 10013 /\ FailTail(p, r.words)

DevOf(c, r) == If(DevGarbage(c, r), "Dev_GarbageArgsAsNfsstat") \cup If(DevDrain(c, r), "Dev_DrainBareStatus")
               \cup If(DevDelay(c, r), "Dev_DelayStatusNotNfsstat3")
=============================================================================

----------------------------- MODULE ReplyShape -----------------------------
(***************************************************************************)
(* C14 design spec.  State: the server condition (normal, read-only, rate   *)
(* limited, policy drain), one call (program, version, procedure, class of  *)
(* its arguments) and the reply.  Impl level: Answer builds the reply the   *)
(* way HandleCall and the handlers do (nfs_handlers.go, nfs_proc_*.go,      *)
(* mount_handlers.go): which test comes first, which error helper a handler *)
(* uses.  Ideal level: ReplyBad of ReplyShapeOps (the property).            *)
(*                                                                         *)
(* FixGarbage / FixDrain / FixDelay = FALSE is the pinned code; TRUE the    *)
(* repaired behaviour.  AllowedDevs = deviations accepted as known.         *)
(*                                                                         *)
(* The module also checks the schema itself (ASSUME SchemaTotal) and dumps  *)
(* it for the harness (IOEnv.VF_SCHEMA) when it is model checked.           *)
(***************************************************************************)
EXTENDS ReplyShapeOps, TLC, Json, IOUtils

CONSTANTS FixGarbage, FixDrain, FixDelay, AllowedDevs

VARIABLES state, call, reply, phase
vars == <<state, call, reply, phase>>

-----------------------------------------------------------------------------
(* the schema is total and well formed *)
SchemaTotal ==
  /\ \A n \in DOMAIN Types : IsType(Types[n], 16)
  /\ \A p \in ProcNames :
       /\ Procs[p].form \in {"void", "status", "plain"}
       /\ IsType(Procs[p].ok, 16) /\ IsType(Procs[p].fail, 16)
       \* every status of the enumeration selects exactly one shape, and that shape is a type whose
       \* shortest and fullest encodings the interpreter accepts exactly (and rejects when one word is cut or added)
       /\ \A s \in StatusEnum(p) :
            LET t == ShapeFor(p, s) IN
            /\ IsType(t, 16)
            /\ Exactly(t, MinEnc(t)) /\ Exactly(t, FullEnc(t))
            /\ ~Exactly(t, MinEnc(t) \o <<0>>)
            /\ (MinEnc(t) # << >> => ~Exactly(t, SubSeq(MinEnc(t), 1, Len(MinEnc(t)) - 1)))
  \* every procedure number of the three programs has an entry
  /\ \A i \in 0..21 : ProcName(NFS_PROG, 3, i) \in ProcNames
  /\ \A i \in 0..5 : ProcName(MOUNT_PROG, 3, i) \in ProcNames /\ ProcName(MOUNT_PROG, 1, i) \in ProcNames
  /\ JUKEBOX \in Nfsstat3 /\ 4 \notin Nfsstat3 /\ 10013 \notin Nfsstat3 /\ 10006 \in Mountstat3

(* the schema in the format of the harness's XDR interpreter *)
RECURSIVE ToJ(_)
ToJ(t) == CASE t[1] \in BaseKinds -> t[1]
            [] t[1] = "struct" -> <<"struct", [i \in DOMAIN t[2] |-> <<t[2][i][1], ToJ(t[2][i][2])>>]>>
            [] t[1] = "ref" -> t
            [] OTHER -> <<t[1], ToJ(t[2])>>
SchemaJson ==
  [types |-> [n \in DOMAIN Types |-> ToJ(Types[n])],
   procs |-> [p \in ProcNames |-> CASE Procs[p].form = "void" -> [void |-> TRUE]
                                     [] Procs[p].form = "plain" -> [plain |-> ToJ(Procs[p].ok)]
                                     [] OTHER -> [ok |-> ToJ(Procs[p].ok), fail |-> ToJ(Procs[p].fail)]],
   nfsstat3 |-> Nfsstat3, mountstat3 |-> Mountstat3]

ASSUME SchemaTotal
ASSUME JsonSerialize(IOEnv.VF_SCHEMA, SchemaJson)

-----------------------------------------------------------------------------
(* impl level *)
Acc(a, ws) == [rpc |-> "accepted", accept |-> a, rej |-> 0, auth |-> 0, words |-> ws, tail |-> 0, hdr_ok |-> TRUE, xid_ok |-> TRUE]
Denied == [rpc |-> "denied", accept |-> 0, rej |-> 1, auth |-> 1, words |-> << >>, tail |-> 0, hdr_ok |-> TRUE, xid_ok |-> TRUE]

\* the error helper each handler uses: number of FALSE discriminants after the status
HelperZeros(p) ==
  CASE p = "NFS3.GETATTR" -> 0
    [] p \in {"NFS3.LOOKUP", "NFS3.ACCESS", "NFS3.READLINK", "NFS3.READ", "NFS3.READDIR", "NFS3.READDIRPLUS",
              "NFS3.FSSTAT", "NFS3.FSINFO", "NFS3.PATHCONF"} -> 1            \* nfsErrorWithPostOp
    [] p \in {"NFS3.SETATTR", "NFS3.WRITE", "NFS3.CREATE", "NFS3.MKDIR", "NFS3.SYMLINK", "NFS3.MKNOD", "NFS3.REMOVE",
              "NFS3.RMDIR", "NFS3.COMMIT"} -> 2                                \* nfsErrorWithWcc
    [] p = "NFS3.LINK" -> 3                                                    \* nfsErrorWithPostOpAndWcc
    [] p = "NFS3.RENAME" -> 4                                                  \* nfsErrorWithDoubleWcc
Helper(p, status) == <<status>> \o [i \in 1..HelperZeros(p) |-> 0]

ChecksReadOnlyFirst == {"NFS3.SETATTR", "NFS3.WRITE", "NFS3.CREATE", "NFS3.MKDIR", "NFS3.SYMLINK", "NFS3.REMOVE",
                        "NFS3.RMDIR", "NFS3.RENAME", "NFS3.COMMIT"}
IgnoresArgs == {"NFS3.NULL", "MOUNT3.NULL", "MOUNT1.NULL", "MOUNT3.DUMP", "MOUNT1.DUMP", "MOUNT3.UMNTALL", "MOUNT1.UMNTALL",
                "MOUNT3.EXPORT", "MOUNT1.EXPORT"}
RateLimitedOps == {"NFS3.READ", "NFS3.WRITE", "NFS3.READDIR", "NFS3.READDIRPLUS"}
SomeFailures == {2, 20, 22, 70, 10004}

Normal(p) ==
  IF Procs[p].form = "void" THEN {Acc(SUCCESS, << >>)}
  ELSE IF Procs[p].form = "plain" THEN {Acc(SUCCESS, MinEnc(Procs[p].ok)), Acc(SUCCESS, FullEnc(Procs[p].ok))}
  ELSE IF SubSeq(p, 1, 5) = "NFS3." THEN
       {Acc(SUCCESS, <<0>> \o MinEnc(Procs[p].ok)), Acc(SUCCESS, <<0>> \o FullEnc(Procs[p].ok))}
       \cup {Acc(SUCCESS, Helper(p, s)) : s \in SomeFailures} \cup {Acc(SUCCESS, <<70>> \o FullEnc(Procs[p].fail))}
  ELSE \* MOUNT MNT answers the v3 form for both versions
       {Acc(SUCCESS, <<0>> \o FullEnc(Procs["MOUNT3.MNT"].ok)), Acc(SUCCESS, <<2>>)}

DrainReply(p) ==
  IF ~FixDrain THEN {Acc(SUCCESS, <<JUKEBOX>>)}
  ELSE IF p = "" \/ Procs[p].form # "status" THEN {Acc(SYSTEM_ERR, << >>)}
  ELSE IF SubSeq(p, 1, 5) = "NFS3." THEN {Acc(SUCCESS, Helper(p, JUKEBOX))}
  ELSE IF p = "MOUNT3.MNT" THEN {Acc(SUCCESS, <<10006>>)}        \* MNT3ERR_SERVERFAULT, as the rate limiter answers
  ELSE {Acc(SYSTEM_ERR, << >>)}

Answers(st, c) ==
  LET p == ProcName(c.prog, c.vers, c.proc)
      badargs == c.args \in {"trunc", "garbage"} IN
  IF st = "drain" THEN DrainReply(p)                                   \* TryRLock fails: before anything else
  ELSE IF c.args = "badcred" THEN {Denied}                              \* ValidateAuthentication
  ELSE IF ~KnownProg(c.prog) THEN {Acc(PROG_UNAVAIL, << >>)}
  ELSE IF ~KnownVers(c.prog, c.vers) THEN {Acc(PROG_MISMATCH, <<3, 3>>)}
  ELSE IF p = "" THEN {Acc(PROC_UNAVAIL, << >>)}
  ELSE IF p \in IgnoresArgs THEN Normal(p)
  ELSE IF c.prog = MOUNT_PROG THEN
       IF SubSeq(p, 8, Len(p)) = "MNT" /\ st = "ratelimited" THEN {Acc(SUCCESS, <<10006>>)}      \* before the argument is decoded
       ELSE IF badargs THEN {Acc(GARBAGE_ARGS, << >>)}
       ELSE Normal(p)
  ELSE IF st = "readonly" /\ p \in ChecksReadOnlyFirst THEN {Acc(SUCCESS, Helper(p, 30))}
  ELSE IF badargs THEN
       IF p \in {"NFS3.MKNOD", "NFS3.LINK"} THEN {Acc(SUCCESS, Helper(p, 10004))}
       ELSE IF FixGarbage THEN {Acc(GARBAGE_ARGS, << >>)}
       ELSE {Acc(SUCCESS, Helper(p, 4))}
  ELSE IF st = "ratelimited" /\ p \in RateLimitedOps THEN
       {Acc(SUCCESS, Helper(p, IF FixDelay THEN JUKEBOX ELSE 10013))} \cup Normal(p)
  ELSE Normal(p)

-----------------------------------------------------------------------------
\* "faulty": the backend fails operations with arbitrary errnos; replies are built as in "normal" (failure results)
States == {"normal", "readonly", "ratelimited", "drain", "faulty"}
Calls == {[prog |-> NFS_PROG, vers |-> 3, proc |-> i, args |-> a] : i \in 0..23, a \in {"good", "trunc", "garbage", "badcred"}}
         \cup {[prog |-> MOUNT_PROG, vers |-> v, proc |-> i, args |-> a] : v \in {1, 3}, i \in 0..7, a \in {"good", "trunc", "garbage"}}
         \cup {[prog |-> pg, vers |-> v, proc |-> 1, args |-> "good"] : pg \in {NFS_PROG, MOUNT_PROG, 100000, 200000}, v \in {0, 2, 3, 4}}

NoReply == [rpc |-> "none", accept |-> 0, rej |-> 0, auth |-> 0, words |-> << >>, tail |-> 0, hdr_ok |-> TRUE, xid_ok |-> TRUE]

Init == /\ state \in States /\ call \in Calls /\ reply = NoReply /\ phase = "call"

Answer == /\ phase = "call"
          /\ reply' \in Answers(state, call)
          /\ phase' = "reply"
          /\ UNCHANGED <<state, call>>

Next == Answer
Spec == Init /\ [][Next]_vars

-----------------------------------------------------------------------------
Ctx == [prog |-> call.prog, vers |-> call.vers, proc |-> call.proc, state |-> state, args |-> call.args]

\* the property: every reply is well formed for its call, up to the deviations accepted as known
Conforms ==
  phase = "reply" => \/ ReplyBad(Ctx, reply) = {}
                     \/ DevOf(Ctx, reply) \cap AllowedDevs # {}

\* each deviation arises only where its finding says
DevsWhereExpected ==
  phase = "reply" /\ ReplyBad(Ctx, reply) # {} =>
     /\ ("Dev_DrainBareStatus" \in DevOf(Ctx, reply) => state = "drain")
     /\ ("Dev_GarbageArgsAsNfsstat" \in DevOf(Ctx, reply) => call.args \in {"trunc", "garbage"})
     /\ ("Dev_DelayStatusNotNfsstat3" \in DevOf(Ctx, reply) => state = "ratelimited")
=============================================================================

-------------------------- MODULE ReplyShapeTrace --------------------------
(***************************************************************************)
(* C14: validation of recorded replies of the real server (harness/         *)
(* vf_replyshape.go) against ReplyShapeOps.  One line = one call and the    *)
(* reply it got: RFC 1831 header fields as parsed by the harness's generic  *)
(* parser, the result as 32-bit words (a word >= 2^30 is logged as -1), and *)
(* the verdict of the harness's XDR interpreter (driven by the schema this  *)
(* specification dumped).                                                   *)
(*   bad     : the reply is not well formed for its call (verdict)          *)
(*   dev     : only a listed known deviation explains it                    *)
(*   harness : the Go interpreter and this specification disagree about the *)
(*             structure of a reply (a defect of the check, never a verdict)*)
(***************************************************************************)
EXTENDS ReplyShapeOps, TLC, Json, IOUtils

CONSTANTS KnownDeviations

TraceLog == ndJsonDeserialize(IOEnv.VF_TRACE)
N == Len(TraceLog)

VARIABLES l, bad, dev, drift, harness, stats
vars == <<l, bad, dev, drift, harness, stats>>

Cur == TraceLog[l]
Tag(S) == {[l |-> l, why |-> w] : w \in S}

C == [prog |-> Cur.prog, vers |-> Cur.vers, proc |-> Cur.proc, state |-> Cur.state, args |-> Cur.args]
R == [rpc |-> Cur.rpc, accept |-> Cur.accept, rej |-> Cur.rej, auth |-> Cur.auth, words |-> Cur.words, tail |-> Cur.tail,
      hdr_ok |-> Cur.hdr_ok, xid_ok |-> Cur.xid_ok]
P == ProcName(Cur.prog, Cur.vers, Cur.proc)
HasResult == Cur.rpc = "accepted" /\ Cur.hdr_ok /\ Cur.accept = SUCCESS /\ P # ""

\* structure only (what the Go interpreter reports)
StructOKAs(p, ws) ==
  CASE Procs[p].form = "void" -> ws = << >>
    [] Procs[p].form = "plain" -> Exactly(Procs[p].ok, ws)
    [] OTHER -> ws # << >> /\ Exactly(ShapeFor(p, ws[1]), Tail(ws))
StructOK(p, ws) == StructOKAs(p, ws) \/ (SubSeq(p, 1, 7) = "MOUNT1." /\ StructOKAs("MOUNT3." \o SubSeq(p, 8, Len(p)), ws))

\* replies too large to log as words: the Go interpreter's verdict stands in (it is validated on every smaller reply)
BigBad ==
  If(~Cur.xid_ok, "reply does not echo the XID of the call")
  \cup If(~Cur.hdr_ok, "reply header is not an RFC 1831 reply (msg_type, reply_stat or verifier)")
  \cup If(Cur.tail # 0, "reply length is not a whole number of XDR units (trailing bytes)")
  \cup If(~HasResult, "large reply that is not a successful result")
  \cup If(HasResult /\ ~Cur.go.ok, "result does not decode exactly as the result type for its procedure and status")
  \cup If(HasResult /\ Procs[P].form = "status" /\ Cur.go.status \notin StatusEnum(P), "status on the wire is not a member of nfsstat3")

Raw == IF ~Cur.answered THEN {} ELSE IF Cur.wl THEN ReplyBad(C, R) ELSE BigBad
Explained == IF Raw = {} \/ ~Cur.wl THEN {} ELSE DevOf(C, R) \cap KnownDeviations
Padding == Cur.answered /\ Cur.wl /\ HasResult /\ Cur.tail = 0 /\ StructOK(P, Cur.words) /\ ~Cur.go.ok /\ Cur.go.err = "non-zero XDR padding"
LineBad == (IF Explained # {} THEN {} ELSE Raw)
           \cup If(Padding, "opaque data is not padded with zero bytes")
LineHarness ==
  If(Cur.answered /\ Cur.wl /\ HasResult /\ Cur.tail = 0 /\ ~Padding /\ (StructOK(P, Cur.words) # Cur.go.ok),
     "Go interpreter and specification disagree about the structure of a reply")

Init == /\ l = 1 /\ bad = {} /\ dev = {} /\ drift = {} /\ harness = {}
        /\ stats = [calls |-> 0, unanswered |-> 0, denied |-> 0, accepted_error |-> 0, results |-> 0, big |-> 0]

Consume ==
  /\ l <= N
  /\ l' = l + 1
  /\ IF Cur.ev # "call" THEN UNCHANGED <<bad, dev, drift, harness, stats>>
     ELSE /\ bad' = bad \cup Tag(LineBad)
          /\ dev' = dev \cup {[l |-> l, name |-> d] : d \in Explained}
          /\ harness' = harness \cup Tag(LineHarness)
          /\ drift' = drift
          /\ stats' = [stats EXCEPT !.calls = @ + 1,
                                    !.unanswered = @ + (IF Cur.answered THEN 0 ELSE 1),
                                    !.denied = @ + (IF Cur.rpc = "denied" THEN 1 ELSE 0),
                                    !.accepted_error = @ + (IF Cur.rpc = "accepted" /\ Cur.accept # 0 THEN 1 ELSE 0),
                                    !.results = @ + (IF Cur.answered /\ HasResult THEN 1 ELSE 0),
                                    !.big = @ + (IF Cur.wl THEN 0 ELSE 1)]

Finish == /\ l = N + 1
          /\ l' = N + 2
          /\ JsonSerialize(IOEnv.VF_RESULT,
                [n |-> N, consumed |-> l - 1, bad |-> bad, dev |-> dev, drift |-> drift, harness |-> harness, stats |-> stats])
          /\ UNCHANGED <<bad, dev, drift, harness, stats>>

Next == Consume \/ Finish
Spec == Init /\ [][Next]_vars
=============================================================================

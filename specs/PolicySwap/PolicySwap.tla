---------------------------- MODULE PolicySwap ----------------------------
(***************************************************************************)
(* Drain-and-swap of the policy of an absnfs export (property C16).         *)
(*                                                                         *)
(* One action per critical section of the code:                             *)
(*   nfs_handlers.go HandleCall : Arrive (TryRLock), Snapshot, Deny,        *)
(*        GoCheck / OpStart / OpEnd / GoSend (the goroutine that owns the   *)
(*        read lock), Finish (RUnlock), Ret* (what the caller returns),     *)
(*        TimerFire (the context deadline of the request)                   *)
(*   options.go UpdatePolicyOptions : UpdBegin (policyMu), UpdReject,       *)
(*        UpdWait (Lock called), UpdAcquire (readers gone), UpdSwap         *)
(*        (policy.Store), UpdLimiter (rateLimiter = ...), UpdRelease        *)
(*        (Unlock), UpdReturn (policyMu released, call returns)             *)
(*   server.go handleConnectionLoop : ConnOpen (limiter captured once),     *)
(*        Judge (rate-limit decision before HandleCall)                     *)
(*                                                                         *)
(* A policy is a record [v, secure, en, deny]: v = number of swaps so far,  *)
(* secure = requests from unprivileged ports are denied, deny = the classes *)
(* of client addresses its AllowedIPs list refuses, en = rate limiting      *)
(* enabled.  A limiter is identified by the version that created it and is  *)
(* a bucket of `budget` tokens that never refills (rate 0), so that the     *)
(* decision is independent of time.                                         *)
(***************************************************************************)
EXTENDS Integers, FiniteSets, TLC

CONSTANTS Reqs,            \* request ids (positive integers)
          Upds,            \* update ids (positive integers)
          Conns,           \* connection ids (positive integers); 0 = request handed to HandleCall directly
          ConnChoice,      \* [Reqs -> SUBSET (Conns \cup {0})] where a request may arrive
          ShortSets,       \* set of subsets of Reqs: which requests have a short deadline (can time out)
          SecureSets,      \* set of subsets of Upds: which updates install a policy with Secure = TRUE
          LimOnSets,       \* set of subsets of Upds: which updates enable rate limiting (the others disable it)
          BadSquashSets,   \* set of subsets of Upds: which updates are rejected (Squash differs)
          Classes,         \* classes of client addresses (what an AllowedIPs list tells apart)
          ClassChoice,     \* [Reqs -> SUBSET Classes] where a request may come from
          AclChoices,      \* set of functions [Upds -> SUBSET Classes]: the classes the policy of an update refuses
          Acl0Choices,     \* set of subsets of Classes: the classes the policy given to New() refuses
          Budgets,         \* set of token budgets of a new limiter
          MaxOps,          \* backend operations per request (bound)
          MinOps,          \* backend operations a request performs at least (0: NULL-like requests exist)
          CaptureLimiter,  \* TRUE: the connection loop captures the limiter once (pinned code, finding F10)
          Mutant           \* "none" | "UnlockOnTimeout" | "SwapBeforeDrain" | "ReleaseBeforeLimiter" | "AliasedPolicy"

NoSnap == [v |-> -1, secure |-> FALSE, en |-> FALSE, deny |-> {}]
\* the policy refuses a request of class k (ValidateAuthentication: Secure port rule, AllowedIPs)
Refuses(p, k) == p.secure \/ k \in p.deny

VARIABLES cur,       \* live policy [v, secure, en]              (AbsfsNFS.policy)
          lim,       \* live limiter: 0 = nil, else version that created it (AbsfsNFS.rateLimiter)
          tokens,    \* tokens[id] remaining in limiter id
          readers,   \* requests holding policyRWMu for reading
          wWait,     \* a writer has called Lock and waits for the readers
          wHeld,     \* a writer holds policyRWMu
          muHolder,  \* update holding policyMu, 0 = free
          req,       \* req[r] = [ph, c, snap, timedOut, ops, sent, denied, reply, floor]
          upd,       \* upd[u] = [ph, ver]
          conn,      \* conn[c] = [ph, cap]   cap = limiter captured when the loop started
          seen,      \* ghost: seen[r] = versions of the live policy observed by r's backend operations
          limOK,     \* ghost: every rate-limit decision taken outside a swap used the limiter of the live policy
          short, usecure, ulimon, ubadsq, budget, uacl, acl0   \* configuration of this behaviour (chosen in Init, never changes)

cfgvars == <<short, usecure, ulimon, ubadsq, budget, uacl, acl0>>
vars == <<cur, lim, tokens, readers, wWait, wHeld, muHolder, req, upd, conn, seen, limOK, cfgvars>>

MaxVer == Cardinality(Upds)

ReqInit == [ph |-> "idle", c |-> 0, snap |-> NoSnap, timedOut |-> FALSE, ops |-> 0, sent |-> FALSE,
            denied |-> FALSE, reply |-> "none", floor |-> 0, cls |-> 0]

Init == /\ short \in ShortSets /\ usecure \in SecureSets /\ ulimon \in LimOnSets
        /\ ubadsq \in BadSquashSets /\ budget \in Budgets
        /\ uacl \in AclChoices /\ acl0 \in Acl0Choices
        /\ cur = [v |-> 0, secure |-> FALSE, en |-> FALSE, deny |-> acl0]
        /\ lim = 0
        /\ tokens = [i \in 1..MaxVer |-> 0]
        /\ readers = {} /\ wWait = FALSE /\ wHeld = FALSE /\ muHolder = 0
        /\ req = [r \in Reqs |-> ReqInit]
        /\ upd = [u \in Upds |-> [ph |-> "idle", ver |-> 0]]
        /\ conn = [c \in Conns |-> [ph |-> "closed", cap |-> 0]]
        /\ seen = [r \in Reqs |-> {}]
        /\ limOK = TRUE

\* highest version installed by an update that has returned
RetFloor == LET S == {upd[u].ver : u \in {x \in Upds : upd[x].ph = "returned"}} IN
            IF S = {} THEN 0 ELSE CHOOSE m \in S : \A x \in S : x <= m

-----------------------------------------------------------------------------
(* Connection loop (server.go handleConnectionLoop)                         *)

\* the loop starts: `connRateLimiter = s.handler.rateLimiter`, an unsynchronised read
ConnOpen(c) ==
  /\ conn[c].ph = "closed"
  /\ conn' = [conn EXCEPT ![c] = [ph |-> "open", cap |-> lim]]
  /\ UNCHANGED <<cur, lim, tokens, readers, wWait, wHeld, muHolder, req, upd, seen, limOK, cfgvars>>

\* environment: request r is handed to the server (on connection c, or directly to HandleCall)
Call(r, c, k) ==
  /\ req[r].ph = "idle"
  /\ c \in ConnChoice[r] /\ k \in ClassChoice[r]
  /\ c # 0 => /\ conn[c].ph = "open"
              \* the connection loop reads the next call only after it has answered the previous one
              /\ \A q \in Reqs \ {r} : (req[q].ph # "idle" /\ req[q].c = c) => req[q].reply # "none"
  /\ req' = [req EXCEPT ![r].ph = IF c = 0 THEN "judged" ELSE "arrived", ![r].c = c, ![r].cls = k]
  /\ UNCHANGED <<cur, lim, tokens, readers, wWait, wHeld, muHolder, upd, conn, seen, limOK, cfgvars>>

\* rate-limit decision of the connection loop, outside the read lock:
\*   if connRateLimiter != nil && policy.Load().EnableRateLimiting { AllowRequest(...) }
UsedLimiter(c) == IF CaptureLimiter THEN conn[c].cap ELSE lim
\* the limiter the live policy prescribes: the one created by the update that installed it, or none
PolLim == IF cur.en THEN cur.v ELSE 0
Judge(r) ==
  /\ req[r].ph = "arrived"
  /\ LET L       == UsedLimiter(req[r].c)
         applied == L # 0 /\ cur.en
     IN /\ limOK' = (limOK /\ (wHeld \/ (IF applied THEN L ELSE 0) = PolLim))
        /\ IF applied /\ tokens[L] = 0
           THEN /\ req' = [req EXCEPT ![r].ph = "limited", ![r].reply = "limited"]
                /\ UNCHANGED tokens
           ELSE /\ req' = [req EXCEPT ![r].ph = "judged"]
                /\ tokens' = IF applied THEN [tokens EXCEPT ![L] = @ - 1] ELSE tokens
  /\ UNCHANGED <<cur, lim, readers, wWait, wHeld, muHolder, upd, conn, seen, cfgvars>>

-----------------------------------------------------------------------------
(* HandleCall (nfs_handlers.go)                                             *)

\* policyRWMu.TryRLock(): fails iff a writer waits or holds
Arrive(r) ==
  /\ req[r].ph = "judged"
  /\ IF wWait \/ wHeld
     THEN /\ req' = [req EXCEPT ![r].ph = "jukebox"]
          /\ UNCHANGED readers
     ELSE /\ req' = [req EXCEPT ![r].ph = "locked"]
          /\ readers' = readers \cup {r}
  /\ UNCHANGED <<cur, lim, tokens, wWait, wHeld, muHolder, upd, conn, seen, limOK, cfgvars>>

\* opts := handler.snapshotOptions(); the context with the request deadline starts here
Snapshot(r) ==
  /\ req[r].ph = "locked"
  /\ req' = [req EXCEPT ![r].ph = "admitted", ![r].snap = cur, ![r].floor = RetFloor]
  /\ UNCHANGED <<cur, lim, tokens, readers, wWait, wHeld, muHolder, upd, conn, seen, limOK, cfgvars>>

\* ValidateAuthentication(authCtx, opts.Policy) refuses: the caller releases the read lock itself
Deny(r) ==
  /\ req[r].ph = "admitted" /\ Refuses(req[r].snap, req[r].cls)
  /\ req' = [req EXCEPT ![r].ph = "releasing", ![r].denied = TRUE]
  /\ UNCHANGED <<cur, lim, tokens, readers, wWait, wHeld, muHolder, upd, conn, seen, limOK, cfgvars>>

\* the goroutine that owns the read lock starts: first `select { case <-ctx.Done(): return; default: }`
GoCheck(r) ==
  /\ req[r].ph = "admitted" /\ ~Refuses(req[r].snap, req[r].cls)
  /\ req' = [req EXCEPT ![r].ph = IF req[r].timedOut THEN "releasing" ELSE "go"]
  /\ UNCHANGED <<cur, lim, tokens, readers, wWait, wHeld, muHolder, upd, conn, seen, limOK, cfgvars>>

\* a backend operation starts / is executed: it observes the live policy
OpStart(r) ==
  /\ req[r].ph = "go" /\ req[r].ops < MaxOps
  /\ req' = [req EXCEPT ![r].ph = "op"]
  /\ seen' = [seen EXCEPT ![r] = @ \cup {cur.v}]
  /\ UNCHANGED <<cur, lim, tokens, readers, wWait, wHeld, muHolder, upd, conn, limOK, cfgvars>>

OpEnd(r) ==
  /\ req[r].ph = "op"
  /\ req' = [req EXCEPT ![r].ph = "go", ![r].ops = @ + 1]
  /\ seen' = [seen EXCEPT ![r] = @ \cup {cur.v}]
  /\ UNCHANGED <<cur, lim, tokens, readers, wWait, wHeld, muHolder, upd, conn, limOK, cfgvars>>

\* final select of the goroutine: `case <-ctx.Done(): return` or `case replyChan <- result` (buffered);
\* when the deadline has passed (or the caller is gone) either branch may be taken
GoSend(r, deliver) ==
  /\ req[r].ph = "go" /\ req[r].ops >= MinOps
  /\ deliver \/ req[r].timedOut \/ req[r].reply # "none"
  /\ req' = [req EXCEPT ![r].ph = "releasing", ![r].sent = deliver]
  /\ UNCHANGED <<cur, lim, tokens, readers, wWait, wHeld, muHolder, upd, conn, seen, limOK, cfgvars>>

\* policyRWMu.RUnlock()  (deferred in the goroutine; inline on the deny path)
Finish(r) ==
  /\ req[r].ph = "releasing"
  /\ req' = [req EXCEPT ![r].ph = "finished"]
  /\ readers' = readers \ {r}
  /\ UNCHANGED <<cur, lim, tokens, wWait, wHeld, muHolder, upd, conn, seen, limOK, cfgvars>>

\* the request deadline passes (environment: real time)
TimerFire(r) ==
  /\ r \in short /\ ~req[r].timedOut /\ req[r].reply = "none"
  /\ req[r].ph \in {"admitted", "go", "op", "releasing", "finished"}
  /\ req' = [req EXCEPT ![r].timedOut = TRUE]
  /\ UNCHANGED <<cur, lim, tokens, readers, wWait, wHeld, muHolder, upd, conn, seen, limOK, cfgvars>>

\* what HandleCall returns to its caller
RetOk(r) ==
  /\ req[r].reply = "none" /\ req[r].sent
  /\ req' = [req EXCEPT ![r].reply = "ok"]
  /\ UNCHANGED <<cur, lim, tokens, readers, wWait, wHeld, muHolder, upd, conn, seen, limOK, cfgvars>>

\* `case <-ctx.Done(): return nil, "operation timed out"`: the caller leaves, the goroutine keeps the lock.
\* Mutant UnlockOnTimeout: the caller (not the goroutine) owns the read lock and releases it here.
RetTimeout(r) ==
  /\ req[r].reply = "none" /\ req[r].timedOut /\ ~req[r].denied
  /\ req[r].ph \in {"admitted", "go", "op", "releasing", "finished"}
  /\ req' = [req EXCEPT ![r].reply = "timeout"]
  /\ readers' = IF Mutant = "UnlockOnTimeout" THEN readers \ {r} ELSE readers
  /\ UNCHANGED <<cur, lim, tokens, wWait, wHeld, muHolder, upd, conn, seen, limOK, cfgvars>>

RetDenied(r) ==
  /\ req[r].reply = "none" /\ req[r].denied /\ req[r].ph = "finished"
  /\ req' = [req EXCEPT ![r].reply = "denied"]
  /\ UNCHANGED <<cur, lim, tokens, readers, wWait, wHeld, muHolder, upd, conn, seen, limOK, cfgvars>>

RetJukebox(r) ==
  /\ req[r].reply = "none" /\ req[r].ph = "jukebox"
  /\ req' = [req EXCEPT ![r].reply = "jukebox"]
  /\ UNCHANGED <<cur, lim, tokens, readers, wWait, wHeld, muHolder, upd, conn, seen, limOK, cfgvars>>

-----------------------------------------------------------------------------
(* UpdatePolicyOptions (options.go)                                         *)

\* environment: the update is called
UpdCall(u) ==
  /\ upd[u].ph = "idle"
  /\ upd' = [upd EXCEPT ![u].ph = "called"]
  /\ UNCHANGED <<cur, lim, tokens, readers, wWait, wHeld, muHolder, req, conn, seen, limOK, cfgvars>>

\* n.policyMu.Lock()
UpdBegin(u) ==
  /\ upd[u].ph = "called" /\ muHolder = 0
  /\ muHolder' = u
  /\ upd' = [upd EXCEPT ![u].ph = "mu"]
  /\ UNCHANGED <<cur, lim, tokens, readers, wWait, wHeld, req, conn, seen, limOK, cfgvars>>

\* old.Squash != newPolicy.Squash: error, nothing changes
UpdReject(u) ==
  /\ upd[u].ph = "mu" /\ u \in ubadsq
  /\ upd' = [upd EXCEPT ![u].ph = "released"]
  /\ UNCHANGED <<cur, lim, tokens, readers, wWait, wHeld, muHolder, req, conn, seen, limOK, cfgvars>>

NewPolicy(u) == [v |-> cur.v + 1, secure |-> u \in usecure, en |-> u \in ulimon, deny |-> uacl[u]]

\* n.policyRWMu.Lock() is called: from now on TryRLock fails.
\* Mutant SwapBeforeDrain: the new policy is stored before the lock is requested.
UpdWait(u) ==
  /\ upd[u].ph = "mu" /\ u \notin ubadsq
  /\ wWait' = TRUE
  /\ IF Mutant = "SwapBeforeDrain"
     THEN /\ cur' = NewPolicy(u)
          /\ upd' = [upd EXCEPT ![u].ph = "waiting", ![u].ver = cur.v + 1]
     ELSE /\ upd' = [upd EXCEPT ![u].ph = "waiting"]
          /\ UNCHANGED cur
  /\ UNCHANGED <<lim, tokens, readers, wHeld, muHolder, req, conn, seen, limOK, cfgvars>>

\* Lock() returns: every reader has released
UpdAcquire(u) ==
  /\ upd[u].ph = "waiting" /\ readers = {}
  /\ wWait' = FALSE /\ wHeld' = TRUE
  /\ upd' = [upd EXCEPT ![u].ph = "locked"]
  /\ UNCHANGED <<cur, lim, tokens, readers, muHolder, req, conn, seen, limOK, cfgvars>>

\* n.policy.Store(&snapshot)
UpdSwap(u) ==
  /\ upd[u].ph = "locked"
  /\ IF Mutant = "SwapBeforeDrain"
     THEN UNCHANGED cur /\ upd' = [upd EXCEPT ![u].ph = "swapped"]
     ELSE /\ cur' = NewPolicy(u)
          /\ upd' = [upd EXCEPT ![u].ph = "swapped", ![u].ver = cur.v + 1]
  /\ UNCHANGED <<lim, tokens, readers, wWait, wHeld, muHolder, req, conn, seen, limOK, cfgvars>>

SetLimiter(u) ==
  IF u \in ulimon
  THEN /\ lim' = upd[u].ver
       /\ tokens' = [tokens EXCEPT ![upd[u].ver] = budget]
  ELSE /\ lim' = 0
       /\ UNCHANGED tokens

\* n.rateLimiter = NewRateLimiter(...) / nil, still under the write lock.
\* Mutant ReleaseBeforeLimiter: the write lock is released first and the limiter replaced afterwards.
UpdLimiter(u) ==
  /\ upd[u].ph = "swapped"
  /\ IF Mutant = "ReleaseBeforeLimiter"
     THEN wHeld' = FALSE /\ UNCHANGED <<lim, tokens>>
     ELSE SetLimiter(u) /\ UNCHANGED wHeld
  /\ upd' = [upd EXCEPT ![u].ph = "limset"]
  /\ UNCHANGED <<cur, readers, wWait, muHolder, req, conn, seen, limOK, cfgvars>>

\* n.policyRWMu.Unlock()
UpdRelease(u) ==
  /\ upd[u].ph = "limset"
  /\ IF Mutant = "ReleaseBeforeLimiter"
     THEN SetLimiter(u) /\ UNCHANGED wHeld
     ELSE wHeld' = FALSE /\ UNCHANGED <<lim, tokens>>
  /\ upd' = [upd EXCEPT ![u].ph = "released"]
  /\ UNCHANGED <<cur, readers, wWait, muHolder, req, conn, seen, limOK, cfgvars>>

\* deferred n.policyMu.Unlock(); the call returns
UpdReturn(u) ==
  /\ upd[u].ph = "released"
  /\ muHolder' = 0
  /\ upd' = [upd EXCEPT ![u].ph = IF u \in ubadsq THEN "failed" ELSE "returned"]
  /\ UNCHANGED <<cur, lim, tokens, readers, wWait, wHeld, req, conn, seen, limOK, cfgvars>>

-----------------------------------------------------------------------------
\* The caller of New / UpdatePolicyOptions / UpdateExportOptions overwrites option values it still owns (a slice,
\* a struct behind a pointer).  The installed policy is a deep copy, so nothing happens - unless (mutant
\* AliasedPolicy) the policy in force shares memory with the caller: then it changes without any update.
Scribble(K) ==
  /\ Mutant = "AliasedPolicy"
  /\ cur.deny # K
  /\ cur' = [cur EXCEPT !.deny = K]
  /\ UNCHANGED <<lim, tokens, readers, wWait, wHeld, muHolder, req, upd, conn, seen, limOK, cfgvars>>

\* environment actions (what a client / administrator / the clock decides)
EnvNext == \/ \E r \in Reqs : (\E c \in Conns \cup {0}, k \in Classes : Call(r, c, k)) \/ TimerFire(r)
           \/ \E u \in Upds : UpdCall(u)
           \/ \E c \in Conns : ConnOpen(c)
           \/ \E K \in SUBSET Classes : Scribble(K)
\* the backend finishing an operation (gated by the harness)
BackendNext == \E r \in Reqs : OpEnd(r)
\* steps the server takes by itself
ReqStep(r) == \/ Judge(r) \/ Arrive(r) \/ Deny(r) \/ GoCheck(r) \/ OpStart(r)
              \/ GoSend(r, TRUE) \/ GoSend(r, FALSE) \/ Finish(r)
              \/ RetOk(r) \/ RetTimeout(r) \/ RetDenied(r) \/ RetJukebox(r)
UpdStep(u) == \/ UpdBegin(u) \/ UpdReject(u) \/ UpdWait(u) \/ UpdAcquire(u) \/ UpdSwap(u)
              \/ UpdLimiter(u) \/ UpdRelease(u) \/ UpdReturn(u)
ServerNext == \/ \E r \in Reqs : ReqStep(r) \/ Snapshot(r)
              \/ \E u \in Upds : UpdStep(u)

Next == EnvNext \/ BackendNext \/ ServerNext

Spec == Init /\ [][Next]_vars
\* "the update finishes once in-flight requests finish": the server's own steps and the backend are fair
FairSpec == Spec /\ WF_vars(ServerNext) /\ WF_vars(BackendNext)

-----------------------------------------------------------------------------
(* Properties (C16)                                                         *)

Phases == {"idle", "arrived", "judged", "limited", "jukebox", "locked", "admitted", "go", "op", "releasing", "finished"}
TypeOK ==
  /\ cur.v \in 0..MaxVer /\ lim \in 0..MaxVer
  /\ readers \subseteq Reqs /\ muHolder \in Upds \cup {0}
  /\ \A r \in Reqs : req[r].ph \in Phases /\ req[r].reply \in {"none", "ok", "denied", "jukebox", "timeout", "limited"}
  /\ \A u \in Upds : upd[u].ph \in {"idle", "called", "mu", "waiting", "locked", "swapped", "limset", "released", "returned", "failed"}
  /\ \A i \in 1..MaxVer : tokens[i] >= 0

Executing(r) == req[r].ph \in {"admitted", "go", "op"}

\* each request runs entirely under the policy in force when it was admitted
SamePolicy == \A r \in Reqs : seen[r] \subseteq {req[r].snap.v}
\* ... and the live policy does not change under it
StableWhileExecuting == \A r \in Reqs : Executing(r) => req[r].snap = cur

\* once an update returns no request admitted under an older policy is still executing
DrainedAtRet == \A u \in Upds : upd[u].ph = "returned" =>
                   \A r \in Reqs : Executing(r) => req[r].snap.v >= upd[u].ver

\* every request admitted after an update returned is judged under that policy or a newer one
FreshAfter == \A r \in Reqs : req[r].snap.v >= 0 => req[r].snap.v >= req[r].floor

\* ... including rate limiting on connections opened before the update
LimiterFresh == limOK
\* outside the write lock the limiter is the one the live policy prescribes
LimiterMatchesPolicy == ~wHeld => lim = PolLim

\* the reply is the one the admitted policy prescribes
JudgedBySnapshot == \A r \in Reqs : /\ req[r].reply = "denied" => Refuses(req[r].snap, req[r].cls)
                                   /\ req[r].reply = "ok" => (req[r].snap.v >= 0 /\ ~Refuses(req[r].snap, req[r].cls))

\* the read/write lock discipline itself
LockDiscipline == /\ wHeld => readers = {}
                  /\ \A r \in Reqs : req[r].ph \in {"locked", "admitted", "go", "op", "releasing"} => r \in readers
                  /\ (wWait \/ wHeld) => muHolder # 0

\* versions only grow (action property)
Monotone == [][cur'.v >= cur.v]_vars

\* the update finishes once in-flight requests finish (under FairSpec)
Progress == \A u \in Upds : (upd[u].ph = "mu") ~> (upd[u].ph \in {"returned", "failed"})

\* a request arriving while a writer waits or holds is not admitted (it gets retry-later)
MidDrainRetry == [][\A r \in Reqs : (req[r].ph = "judged" /\ req'[r].ph = "locked") => ~(wWait \/ wHeld)]_vars
=============================================================================

-------------------------- MODULE PolicySwapTrace --------------------------
(***************************************************************************)
(* Validation of recorded executions of the real HandleCall /               *)
(* UpdatePolicyOptions / connection loop against PolicySwap (property C16). *)
(*                                                                         *)
(* The log is one total order of events: vhook events emitted under the     *)
(* lock that protects the change (hc.admit, hc.release, up.begin,           *)
(* up.drained, up.swapped, up.limiter), events emitted after the fact       *)
(* (hc.jukebox, up.released, cl.start), the backend gate (op.start, op.end  *)
(* with the live policy it saw) and the driver's own call start / return.   *)
(*                                                                         *)
(* Mode "ideal" (verdict): a deterministic pass over the log that checks    *)
(*   only what C16 states, on what was observed; failures are collected in  *)
(*   `bad` (never stops at the first one), steps only a listed known        *)
(*   deviation explains in `dev`.                                           *)
(* Mode "impl" (binding, LV): the actions of PolicySwap are replayed;       *)
(*   events map to actions, the steps that leave no trace (TryRLock, the    *)
(*   goroutine's selects, RUnlock, Lock being requested, Unlock, the        *)
(*   request deadline, the limiter capture, the rate-limit decision) are    *)
(*   taken silently and TLC searches for an interleaving that explains the  *)
(*   whole log.  The high-water mark of consumed lines is kept in TLC       *)
(*   register 1 and written by the POSTCONDITION.                           *)
(***************************************************************************)
EXTENDS PolicySwap, Sequences, Json, IOUtils

CONSTANTS KnownDeviations,  \* subset of {"Dev_ConnLimiterCaptured"}
          Mode              \* "ideal" | "impl"

TraceLog == ndJsonDeserialize(IOEnv.VF_TRACE)
N == Len(TraceLog)

VARIABLES l,        \* next line to consume
          vlab,     \* labels of the installed policies in swap order (version k has label vlab[k])
          acc,      \* impl: connections registered by the accept loop whose loop has not yet reported its start
          relLog,   \* impl: requests whose hc.release has been logged (RUnlock follows the hook)
          hcfg,     \* the reset line of the current history
          o,        \* ideal: observed state (record, see ObsInit)
          bad, dev, drift, stats

tvars == <<l, vlab, acc, relLog, hcfg, o, bad, dev, drift, stats>>
allvars == <<vars, tvars>>

Cur == TraceLog[l]
Known(d) == d \in KnownDeviations
Tag(S) == {[l |-> l, hist |-> hcfg.hist, why |-> w] : w \in S}
Rng(s) == {s[i] : i \in DOMAIN s}

LabelOf(v) == IF v = 0 THEN 0 ELSE IF v \in DOMAIN vlab THEN vlab[v] ELSE -1
VerOf(lab) == IF lab = 0 THEN 0 ELSE IF \E k \in DOMAIN vlab : vlab[k] = lab THEN CHOOSE k \in DOMAIN vlab : vlab[k] = lab ELSE -1

UCfg(u) == CHOOSE x \in Rng(hcfg.upds) : x.u = u
SecureOfLabel(lab) == IF lab = 0 THEN FALSE ELSE UCfg(lab).secure
\* the classes of client addresses the policy with this label refuses (its AllowedIPs list), as it was installed
DenyOfLabel(lab) == IF lab = 0 THEN Rng(hcfg.deny0) ELSE Rng(UCfg(lab).deny)
RefusesLabel(lab, k) == SecureOfLabel(lab) \/ k \in DenyOfLabel(lab)

-----------------------------------------------------------------------------
(* ideal level: observed state                                              *)

ObsInit == [lab |-> 0,                       \* label of the live policy (last up.swapped)
            adm |-> [r \in Reqs |-> -1],     \* label the request was admitted under
            infl |-> {},                     \* admitted, hc.release not yet logged
            started |-> {}, done |-> {},
            c |-> [r \in Reqs |-> 0],
            cls |-> [r \in Reqs |-> 0],     \* class of the client address the request came from
            active |-> {},                   \* updates between up.start and up.ret
            win |-> {},                      \* updates between up.waiting (drain observed) and up.limiter
            mid |-> [r \in Reqs |-> {}],     \* updates whose drain had been observed when r started
            retVer |-> 0,                    \* highest version installed by an update that has returned
            en |-> FALSE, limId |-> 0,       \* rate limiting of the live policy; the limiter that policy prescribes (label of its update)
            mLim |-> 0,                      \* the limiter object the code has installed (label of the update that created it, 0 = nil)
            tokI |-> [k \in 0..MaxVer |-> 0],   \* tokens of limiter k if every request had been judged by the live limiter
            tokM |-> [k \in 0..MaxVer |-> 0],   \* tokens of limiter k as the pinned connection loop charges them
            cap |-> [c \in Conns |-> 0],     \* limiter in force when the loop of connection c started
            amb |-> {},                      \* connections whose loop started while a limiter was being replaced
            watch |-> {},                    \* connections between cn.accept and cl.start
            ovl |-> {},                      \* requests that overlapped an update
            unk |-> FALSE]                   \* token accounting no longer determined (concurrent history)

Bump(k) == [stats EXCEPT ![k] = @ + 1]

\* ---- one ideal step per event kind: (o', bad', dev', stats') ----
IdealReset ==
  /\ o' = ObsInit
  /\ UNCHANGED <<bad, dev, drift>>
  /\ stats' = Bump("hist")

IdealStep ==
  LET e == Cur IN
  CASE e.ev = "rq.start" ->
         /\ o' = [o EXCEPT !.started = @ \cup {e.r}, !.c[e.r] = e.c, !.cls[e.r] = e.cls, !.mid[e.r] = o.win,
                           !.ovl = IF o.active # {} THEN @ \cup {e.r} ELSE @,
                           \* two requests over TCP in flight together: the order of their rate-limit decisions is not observed
                           !.unk = @ \/ (e.c # 0 /\ \E q \in o.started \ o.done : o.c[q] # 0)]
         /\ UNCHANGED <<bad, dev, drift, stats>>
    [] e.ev = "hc.admit" ->
         LET lateFor == {u \in o.mid[e.r] : u \in o.win}
             w == (IF VerOf(e.lab) >= 0 /\ VerOf(e.lab) < o.retVer
                   THEN {"a request admitted after an update had returned was judged under an older policy"} ELSE {})
                  \cup (IF lateFor # {}
                        THEN {"a request that arrived while an update was draining was admitted instead of receiving retry-later"} ELSE {})
         IN /\ o' = [o EXCEPT !.adm[e.r] = e.lab, !.infl = @ \cup {e.r}]
            /\ bad' = bad \cup Tag(w)
            /\ drift' = drift \cup Tag(IF VerOf(e.lab) < 0 THEN {"hc.admit: unknown policy label"} ELSE {})
            /\ stats' = Bump("admits")
            /\ UNCHANGED dev
    [] e.ev = "hc.release" ->
         /\ o' = [o EXCEPT !.infl = @ \ {e.r}]
         /\ UNCHANGED <<bad, dev, drift, stats>>
    [] e.ev = "hc.jukebox" ->      \* TryRLock failed: the request holds no read lock
         /\ o' = [o EXCEPT !.infl = @ \ {e.r}]
         /\ drift' = drift \cup Tag(IF e.r \in o.infl THEN {"hc.jukebox after hc.admit: the snapshot was taken before the lock"} ELSE {})
         /\ UNCHANGED <<bad, dev, stats>>
    [] e.ev \in {"op.start", "op.end"} ->
         /\ bad' = bad \cup Tag(IF o.adm[e.r] # e.live
                                THEN {"a backend operation of a request ran under a different policy than the one the request was admitted under"}
                                ELSE {})
         /\ stats' = Bump("ops")
         /\ UNCHANGED <<o, dev, drift>>
    [] e.ev = "rq.ret" ->
         LET r == e.r
             c == o.c[r]
             direct == c = 0
             \* ---- the reply is the one the admitted policy prescribes (direct requests)
             judged == IF direct /\ e.kind = "ok" /\ o.adm[r] >= 0 /\ RefusesLabel(o.adm[r], o.cls[r])
                         THEN {"a request was served although the policy it was admitted under refuses it"}
                       ELSE IF direct /\ e.kind = "denied" /\ o.adm[r] >= 0 /\ ~RefusesLabel(o.adm[r], o.cls[r])
                         THEN {"a request was refused although the policy it was admitted under allows it"}
                       ELSE {}
             \* ---- rate limiting (requests over a connection)
             allowed == e.kind # "limited"
             iApplied == o.en
             iAllowed == ~iApplied \/ o.limId = 0 \/ o.tokI[o.limId] > 0
             used     == IF CaptureLimiter THEN o.cap[c] ELSE o.mLim
             mApplied == o.en /\ used # 0
             mAllowed == ~mApplied \/ o.tokM[used] > 0
             undecided == direct \/ o.unk \/ r \in o.ovl \/ c \in o.amb \/ e.kind \notin {"ok", "limited", "jukebox"}
             devOK == /\ Known("Dev_ConnLimiterCaptured") /\ CaptureLimiter
                      /\ allowed = mAllowed
                      /\ (o.cap[c] # o.limId \/ (o.limId # 0 /\ o.tokI[o.limId] # o.tokM[o.limId]))
             limBad == IF undecided \/ allowed = iAllowed \/ devOK THEN {}
                       ELSE {"a request on a connection was not judged by the rate limiter of the policy in force"}
             limDev == IF ~undecided /\ allowed # iAllowed /\ devOK THEN {"Dev_ConnLimiterCaptured"} ELSE {}
             tokI2 == IF ~direct /\ iApplied /\ o.limId # 0 /\ o.tokI[o.limId] > 0 THEN [o.tokI EXCEPT ![o.limId] = @ - 1] ELSE o.tokI
             tokM2 == IF ~direct /\ mApplied /\ allowed /\ o.tokM[used] > 0 THEN [o.tokM EXCEPT ![used] = @ - 1] ELSE o.tokM
         IN /\ o' = [o EXCEPT !.done = @ \cup {r}, !.tokI = tokI2, !.tokM = tokM2,
                              !.unk = @ \/ (~direct /\ (r \in o.ovl \/ c \in o.amb))]
            /\ bad' = bad \cup Tag(judged \cup limBad)
            /\ dev' = dev \cup {[l |-> l, hist |-> hcfg.hist, name |-> d] : d \in limDev}
            /\ stats' = [stats EXCEPT ![e.kind] = @ + 1]
            /\ UNCHANGED drift
    \* what GetExportOptions reports (read after the caller has overwritten every option value it still owned):
    \* it must be the policy that was installed last - label, address filter, rate limiting, limiter budget, TLS settings
    [] e.ev = "opt.report" ->
         LET want == [lab |-> o.lab, deny |-> DenyOfLabel(o.lab), secure |-> SecureOfLabel(o.lab),
                      en |-> IF o.lab = 0 THEN FALSE ELSE UCfg(o.lab).limon, budget |-> hcfg.budget,
                      tls |-> 100 + o.lab]       \* (each policy is installed with its own TLS cipher list)
             got  == [lab |-> e.lab, deny |-> Rng(e.deny), secure |-> e.secure, en |-> e.en, budget |-> e.budget, tls |-> e.tls]
         IN /\ bad' = bad \cup Tag(IF o.active = {} /\ got # want
                                   THEN {"GetExportOptions reports a policy that was never installed (the policy in force changed without an update)"}
                                   ELSE {})
            /\ stats' = Bump("reports")
            /\ UNCHANGED <<o, dev, drift>>
    [] e.ev = "rq.stuck" ->
         /\ bad' = bad \cup Tag({"[timed] a request that arrived while an update was draining was neither admitted nor given retry-later (it blocked)"})
         /\ UNCHANGED <<o, dev, drift, stats>>
    [] e.ev = "up.start" ->
         /\ o' = [o EXCEPT !.active = @ \cup {e.u}, !.ovl = @ \cup (o.started \ o.done)]
         /\ UNCHANGED <<bad, dev, drift, stats>>
    [] e.ev = "up.waiting" ->
         /\ o' = [o EXCEPT !.win = @ \cup {e.u}]
         /\ stats' = Bump("drains")
         /\ UNCHANGED <<bad, dev, drift>>
    [] e.ev = "up.drained" ->
         /\ o' = [o EXCEPT !.win = @ \cup {e.u}]
         /\ UNCHANGED <<bad, dev, drift, stats>>
    [] e.ev = "up.swapped" ->
         /\ bad' = bad \cup Tag(IF o.infl # {}
                                THEN {"the policy was swapped while a request admitted under the previous policy was still executing"}
                                ELSE {})
         /\ o' = [o EXCEPT !.lab = e.u, !.en = UCfg(e.u).limon,
                           !.limId = IF UCfg(e.u).limon THEN e.u ELSE 0,
                           !.tokI = IF UCfg(e.u).limon THEN [@ EXCEPT ![e.u] = hcfg.budget] ELSE @]
         /\ stats' = Bump("swaps")
         /\ UNCHANGED <<dev, drift>>
    [] e.ev = "up.limiter" ->
         /\ o' = [o EXCEPT !.win = @ \ {e.u},
                           !.mLim = IF e.on THEN e.u ELSE 0,
                           !.tokM = IF e.on THEN [@ EXCEPT ![e.u] = hcfg.budget] ELSE @,
                           !.amb = @ \cup o.watch]
         /\ UNCHANGED <<bad, dev, drift, stats>>
    [] e.ev = "up.ret" ->
         LET v == VerOf(e.u)
             old == {r \in o.infl : VerOf(o.adm[r]) < v}
         IN /\ bad' = bad \cup Tag(IF e.ok /\ v > 0 /\ old # {}
                                   THEN {"an update returned while a request admitted under an older policy was still executing"} ELSE {})
            /\ o' = [o EXCEPT !.active = @ \ {e.u}, !.win = @ \ {e.u},
                              !.retVer = IF e.ok /\ v > @ THEN v ELSE @]
            /\ drift' = drift \cup Tag(IF e.ok # ~UCfg(e.u).badsq THEN {"up.ret: outcome differs from the Squash rule"} ELSE {})
            /\ UNCHANGED <<dev, stats>>
    [] e.ev = "up.stuck" ->
         /\ bad' = bad \cup Tag({"[timed] an update did not finish although no request was in flight"})
         /\ UNCHANGED <<o, dev, drift, stats>>
    [] e.ev = "cn.accept" ->
         /\ o' = [o EXCEPT !.watch = @ \cup {e.c}]
         /\ UNCHANGED <<bad, dev, drift, stats>>
    [] e.ev = "cl.start" ->
         /\ o' = [o EXCEPT !.watch = @ \ {e.c}, !.cap[e.c] = o.mLim]
         /\ UNCHANGED <<bad, dev, drift, stats>>
    [] e.ev = "race" ->
         LET pair == {e.a, e.b}
             isF10 == pair = {"handleConnectionLoop", "UpdatePolicyOptions"}
         \* only races in which an update takes part are C16's business (e.upd: an Update*Options frame in either stack)
         IN /\ bad' = bad \cup Tag(IF (isF10 /\ Known("Dev_ConnLimiterCaptured")) \/ ~e.upd THEN {}
                                   ELSE {"data race between " \o e.a \o " and " \o e.b \o " (updates must never race with request processing)"})
            /\ dev' = dev \cup (IF isF10 /\ Known("Dev_ConnLimiterCaptured")
                                THEN {[l |-> l, hist |-> hcfg.hist, name |-> "Dev_ConnLimiterCaptured"]} ELSE {})
            /\ stats' = Bump("races")
            /\ UNCHANGED <<o, drift>>
    [] OTHER -> UNCHANGED <<o, bad, dev, drift, stats>>   \* up.begin, up.reject, up.released, cn.dial, cn.open

-----------------------------------------------------------------------------
(* impl level: the actions of PolicySwap                                    *)

\* a history starts: every variable of PolicySwap is re-initialised from the reset line
ImplReset ==
  /\ cur' = [v |-> 0, secure |-> FALSE, en |-> FALSE, deny |-> Rng(Cur.deny0)]
  /\ acl0' = Rng(Cur.deny0)
  /\ uacl' = [u \in Upds |-> IF \E x \in Rng(Cur.upds) : x.u = u THEN Rng((CHOOSE x \in Rng(Cur.upds) : x.u = u).deny) ELSE {}]
  /\ lim' = 0 /\ tokens' = [i \in 1..MaxVer |-> 0]
  /\ readers' = {} /\ wWait' = FALSE /\ wHeld' = FALSE /\ muHolder' = 0
  /\ req' = [r \in Reqs |-> ReqInit]
  /\ upd' = [u \in Upds |-> [ph |-> "idle", ver |-> 0]]
  /\ conn' = [c \in Conns |-> [ph |-> "closed", cap |-> 0]]
  /\ seen' = [r \in Reqs |-> {}]
  /\ limOK' = TRUE
  /\ short' = Reqs      \* any request may run into its deadline (the clock is the environment); TimerFire is lazy
  /\ usecure' = {x.u : x \in {y \in Rng(Cur.upds) : y.secure}}
  /\ ulimon' = {x.u : x \in {y \in Rng(Cur.upds) : y.limon}}
  /\ ubadsq' = {x.u : x \in {y \in Rng(Cur.upds) : y.badsq}}
  /\ budget' = Cur.budget

ImplEvent ==
  LET e == Cur IN
  CASE e.ev = "rq.start"   -> Call(e.r, e.c, e.cls) /\ UNCHANGED <<vlab, acc, relLog>>
    [] e.ev = "hc.jukebox" -> req[e.r].ph = "jukebox" /\ UNCHANGED <<vars, vlab, acc, relLog>>
    [] e.ev = "hc.admit"   -> Snapshot(e.r) /\ LabelOf(cur.v) = e.lab /\ UNCHANGED <<vlab, acc, relLog>>
    [] e.ev = "hc.release" -> /\ req[e.r].ph = "releasing" /\ e.r \notin relLog
                              /\ (e.why = "denied") = req[e.r].denied
                              /\ relLog' = relLog \cup {e.r}
                              /\ UNCHANGED <<vars, vlab, acc>>
    [] e.ev = "op.start"   -> OpStart(e.r) /\ LabelOf(cur.v) = e.live /\ UNCHANGED <<vlab, acc, relLog>>
    [] e.ev = "op.end"     -> OpEnd(e.r) /\ LabelOf(cur.v) = e.live /\ UNCHANGED <<vlab, acc, relLog>>
    [] e.ev = "rq.ret"     -> /\ CASE e.kind = "ok"      -> RetOk(e.r)
                                   [] e.kind = "timeout" -> RetTimeout(e.r)
                                   [] e.kind = "denied"  -> RetDenied(e.r)
                                   [] e.kind = "jukebox" -> RetJukebox(e.r)
                                   [] e.kind = "limited" -> req[e.r].reply = "limited" /\ UNCHANGED vars
                                   [] OTHER -> FALSE
                              /\ UNCHANGED <<vlab, acc, relLog>>
    [] e.ev = "up.start"   -> UpdCall(e.u) /\ UNCHANGED <<vlab, acc, relLog>>
    [] e.ev = "up.begin"   -> UpdBegin(e.u) /\ UNCHANGED <<vlab, acc, relLog>>
    [] e.ev = "up.reject"  -> UpdReject(e.u) /\ UNCHANGED <<vlab, acc, relLog>>
    [] e.ev = "up.waiting" -> upd[e.u].ph = "waiting" /\ UNCHANGED <<vars, vlab, acc, relLog>>
    [] e.ev = "up.drained" -> UpdAcquire(e.u) /\ UNCHANGED <<vlab, acc, relLog>>
    [] e.ev = "up.swapped" -> UpdSwap(e.u) /\ vlab' = Append(vlab, e.u) /\ UNCHANGED <<acc, relLog>>
    [] e.ev = "up.limiter" -> UpdLimiter(e.u) /\ e.on = (lim' # 0) /\ UNCHANGED <<vlab, acc, relLog>>
    [] e.ev = "up.released" -> upd[e.u].ph \in {"released", "returned"} /\ UNCHANGED <<vars, vlab, acc, relLog>>
    [] e.ev = "up.ret"     -> upd[e.u].ph = (IF e.ok THEN "returned" ELSE "failed") /\ UNCHANGED <<vars, vlab, acc, relLog>>
    [] e.ev = "cn.accept"  -> acc' = acc \cup {e.c} /\ UNCHANGED <<vars, vlab, relLog>>
    [] e.ev = "cl.start"   -> conn[e.c].ph = "open" /\ acc' = acc \ {e.c} /\ UNCHANGED <<vars, vlab, relLog>>
    [] e.ev \in {"cn.dial", "cn.open", "race", "opt.report"} -> UNCHANGED <<vars, vlab, acc, relLog>>
    [] OTHER -> FALSE      \* rq.stuck, up.stuck: no behaviour of the specification blocks there

\* Steps of the code that leave no event.  To keep the search small they are scheduled canonically
\* where that loses no behaviour:
\*  eager  (taken as soon as enabled, before anything else; they only ever enable other steps):
\*         Finish once hc.release is logged, UpdReturn after UpdRelease, the goroutine's first check
\*  lazy   (taken only when the next event needs them; their guards never become false):
\*         Deny, GoSend(deliver), TimerFire
\*  search (any moment): Arrive (TryRLock succeeds or fails), UpdWait, UpdRelease, ConnOpen, Judge
EagerReq(r) == \/ (r \in relLog /\ req[r].ph = "releasing")
               \/ (req[r].ph = "admitted" /\ ~Refuses(req[r].snap, req[r].cls))
EagerUpd(u) == upd[u].ph = "released"
EagerEnabled == (\E r \in Reqs : EagerReq(r)) \/ (\E u \in Upds : EagerUpd(u))
Eager ==
  /\ IF \E r \in Reqs : EagerReq(r)
     THEN LET r == CHOOSE x \in Reqs : EagerReq(x) /\ \A y \in Reqs : EagerReq(y) => x <= y
          IN Finish(r) \/ GoCheck(r)
     ELSE LET u == CHOOSE x \in Upds : EagerUpd(x) IN UpdReturn(u)
  /\ UNCHANGED tvars

Lazy ==
  /\ LET e == Cur IN
     \/ e.ev = "hc.release" /\ e.why = "denied" /\ Deny(e.r)
     \/ e.ev = "hc.release" /\ e.why # "denied" /\ GoSend(e.r, TRUE)
     \/ e.ev = "rq.ret" /\ e.kind = "ok" /\ GoSend(e.r, TRUE)
     \/ e.ev = "rq.ret" /\ e.kind = "timeout" /\ TimerFire(e.r)
  /\ UNCHANGED tvars

Search ==
  /\ \/ \E r \in Reqs : Judge(r) \/ Arrive(r)
     \/ \E u \in Upds : UpdWait(u) \/ UpdRelease(u)
     \/ \E c \in acc : ConnOpen(c)
  /\ UNCHANGED tvars

-----------------------------------------------------------------------------
TInit == /\ Init
         /\ l = 1 /\ vlab = <<>> /\ acc = {} /\ relLog = {}
         /\ hcfg = [hist |-> -1, budget |-> 0, upds |-> <<>>, deny0 |-> <<>>]
         /\ o = ObsInit
         /\ bad = {} /\ dev = {} /\ drift = {}
         /\ stats = [lines |-> 0, hist |-> 0, admits |-> 0, ops |-> 0, swaps |-> 0, drains |-> 0, races |-> 0, reports |-> 0,
                     ok |-> 0, denied |-> 0, jukebox |-> 0, timeout |-> 0, limited |-> 0, closed |-> 0, bad |-> 0]
         /\ TLCSet(1, 1)

IdealNext ==
  \/ /\ l <= N
     /\ l' = l + 1
     /\ IF Cur.ev = "reset"
        THEN IdealReset /\ hcfg' = Cur /\ vlab' = <<>>
        ELSE /\ IdealStep /\ hcfg' = hcfg
             /\ vlab' = IF Cur.ev = "up.swapped" THEN Append(vlab, Cur.u) ELSE vlab
     /\ UNCHANGED <<vars, acc, relLog>>
  \/ /\ l = N + 1
     /\ l' = N + 2
     /\ JsonSerialize(IOEnv.VF_RESULT, [n |-> N, consumed |-> l - 1, bad |-> bad, dev |-> dev, drift |-> drift,
                                        stats |-> [stats EXCEPT !.lines = N]])
     /\ UNCHANGED <<vars, vlab, acc, relLog, hcfg, o, bad, dev, drift, stats>>

ImplNext ==
  /\ l <= N
  /\ IF EagerEnabled /\ Cur.ev # "reset" THEN Eager ELSE
     \/ Lazy
     \/ Search
     \/ /\ l' = l + 1
        /\ UNCHANGED <<o, bad, dev, drift, stats>>
        /\ IF Cur.ev = "reset"
           THEN ImplReset /\ hcfg' = Cur /\ vlab' = <<>> /\ acc' = {} /\ relLog' = {}
           ELSE ImplEvent /\ hcfg' = hcfg

TNext == IF Mode = "ideal" THEN IdealNext ELSE ImplNext
TSpec == TInit /\ [][TNext]_allvars

\* high-water mark of consumed lines (impl mode; -workers 1)
HighWater == IF l > TLCGet(1) THEN TLCSet(1, l) ELSE TRUE

\* written once the search is complete: the log is explained iff consumed = n
ImplPost == JsonSerialize(IOEnv.VF_RESULT, [n |-> N, consumed |-> TLCGet(1) - 1, bad |-> {}, dev |-> {}, drift |-> {},
                                            stats |-> [lines |-> N]])
=============================================================================

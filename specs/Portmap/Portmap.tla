------------------------------ MODULE Portmap ------------------------------
(***************************************************************************)
(* C27: the portmapper is a map (program, version, protocol) -> port;      *)
(* queries report exactly the map; only loopback callers can change it,    *)
(* through any protocol version (portmap v2, rpcbind v3, v4).              *)
(*                                                                         *)
(* Impl level: one action per procedure handler of portmapper.go (each     *)
(* runs under pm.mu for its registry access), admission as coded.          *)
(* Ideal level: LoopbackOnly, AckedSetIsVisible, queries = registry.       *)
(***************************************************************************)
EXTENDS PortmapOps, TLC

CONSTANTS Progs, Vers, Ports,     \* small sets; protocols are {"tcp", "udp"}
          CallerSet,              \* subset of Callers
          NetidSet,               \* subset of Netids
          MaxHist,                \* bound on the history length; 0 = unbounded (the registry space is finite)
          FixLoopback,            \* TRUE: shared loopback test for v2/v3/v4 (repair of F19, F19b)
          FixUaddr                \* TRUE: rpcbind SET parses IPv6 universal addresses (repair of F23)

VARIABLES reg,   \* the registry
          n,     \* steps taken
          last   \* flags of the last step (observation): who called, what happened
vars == <<reg, n, last>>

Keys == {Key(g, v, t) : g \in Progs, v \in Vers, t \in {"tcp", "udp"}}
PVs  == {2, 3, 4}
\* only booleans are kept (anything richer multiplies the state space without adding a check)
NoFlags == [nonlb |-> FALSE, v2parsed |-> FALSE, changed |-> FALSE, ackLost |-> FALSE, qWrong |-> FALSE]

Init == reg = EmptyFn /\ n = 0 /\ last = NoFlags

\* acked: the reply was TRUE for a SET of want = <<key, port>> with port > 0
Step(r, c, pv, acked, want) ==
  /\ (MaxHist = 0 \/ n < MaxHist)
  /\ reg' = r.reg /\ n' = IF MaxHist = 0 THEN 0 ELSE n + 1
  /\ last' = [NoFlags EXCEPT !.nonlb = NonLoopback(c), !.changed = (r.reg # reg),
                             !.v2parsed = (pv = 2 /\ c \in {"remote4", "remote6"}),
                             !.ackLost = acked /\ ~(want[1] \in DOMAIN r.reg /\ r.reg[want[1]] = want[2])]

\* --- modifications over the wire
Set2(c, k, p) == LET r == SetV2(reg, c, k, p, FixLoopback) IN Step(r, c, 2, r.ok /\ p > 0, <<k, p>>)
Unset2(c, k)  == Step(UnsetV2(reg, c, k, FixLoopback), c, 2, FALSE, <<>>)
SetR(pv, c, g, v, nid, p) ==
  LET uak == IF nid \in {"tcp6", "udp6"} THEN "v6" ELSE "v4"
      r == SetRpcb(reg, pv, c, g, v, nid, uak, p, FixLoopback, FixUaddr) IN
  Step(r, c, pv, r.ok /\ p > 0, <<Key(g, v, ProtOfNetid(nid)), p>>)
UnsetR(pv, c, g, v, nid) == Step(UnsetRpcb(reg, pv, c, g, v, nid, FixLoopback), c, pv, FALSE, <<>>)
\* --- the Go API used by StartWithPortmapper (trusted, local)
ApiRegister(k, p) == Step([reg |-> With(reg, k, p)], "lo4", 0, FALSE, <<>>)
ApiUnregister(k)  == Step([reg |-> Without(reg, {k})], "lo4", 0, FALSE, <<>>)
\* --- queries (GETPORT, GETADDR; DUMP and rpcbind DUMP return Entries(reg))
Query(c, k, which) ==
  /\ (MaxHist = 0 \/ n < MaxHist)
  /\ UNCHANGED reg /\ n' = IF MaxHist = 0 THEN 0 ELSE n + 1
  /\ LET ans == Lookup(reg, k) IN      \* handleGetPort / handleGetAddr: pm.GetPort(prog, vers, prot)
     last' = [NoFlags EXCEPT !.nonlb = NonLoopback(c),
                             !.qWrong = (ans # (IF k \in DOMAIN reg THEN reg[k] ELSE 0))]

Next ==
  \/ \E c \in CallerSet, k \in Keys, p \in Ports : Set2(c, k, p)
  \/ \E c \in CallerSet, k \in Keys : Unset2(c, k)
  \/ \E pv \in {3, 4}, c \in CallerSet, g \in Progs, v \in Vers, nid \in NetidSet, p \in Ports : SetR(pv, c, g, v, nid, p)
  \/ \E pv \in {3, 4}, c \in CallerSet, g \in Progs, v \in Vers, nid \in NetidSet : UnsetR(pv, c, g, v, nid)
  \/ \E k \in Keys, p \in Ports : ApiRegister(k, p)
  \/ \E k \in Keys : ApiUnregister(k)
  \/ \E c \in CallerSet, k \in Keys, w \in {"GETPORT", "GETADDR"} : Query(c, k, w)

Spec == Init /\ [][Next]_vars

-----------------------------------------------------------------------------
(* Ideal level *)
\* C27: a client not on a loopback address can never change the map (any protocol version)
LoopbackOnly == ~(last.nonlb /\ last.changed)
\* what the pinned code does guarantee: portmap v2 refuses callers whose address parses as a
\* non-loopback IP
V2RefusesParsedRemote == ~(last.v2parsed /\ last.changed)
\* C27 "SET updates the map": a SET acknowledged with TRUE is in the map
AckedSetIsVisible == ~last.ackLost
\* C27 "GETPORT/GETADDR report the current registration"
QueryExact == ~last.qWrong
\* the registry is a function: one port per (program, version, protocol)
TypeOK == /\ DOMAIN reg \subseteq Keys /\ \A k \in DOMAIN reg : reg[k] \in Ports
          /\ n \in 0..MaxHist
=============================================================================

---------------------------- MODULE PortmapOps ----------------------------
(***************************************************************************)
(* Pure operators of the Portmap family (C27): the registry of             *)
(* portmapper.go as a function (program, version, protocol) -> port, the   *)
(* loopback admission rule of SET/UNSET per protocol version, and the      *)
(* transcription of each procedure as a function registry -> (registry,    *)
(* reply).  Shared by Portmap.tla and PortmapTrace.tla.                    *)
(***************************************************************************)
EXTENDS Integers, FiniteSets, Sequences

-----------------------------------------------------------------------------
(* helpers *)
Without(f, S) == [x \in (DOMAIN f) \ S |-> f[x]]
With(f, k, v) == [x \in (DOMAIN f) \cup {k} |-> IF x = k THEN v ELSE f[x]]
EmptyFn == [x \in {} |-> 0]

Key(g, v, t) == [g |-> g, v |-> v, t |-> t]
Lookup(reg, k) == IF k \in DOMAIN reg THEN reg[k] ELSE 0       \* GetPort: 0 = not registered
\* registrations as a set of <<key, port>>; a port-0 entry is "no registration" for a client
Entries(reg)    == {<<k, reg[k]>> : k \in DOMAIN reg}
PosEntries(reg) == {e \in Entries(reg) : e[2] > 0}

-----------------------------------------------------------------------------
(* Caller locality.  Classes of the address the request arrives from:      *)
(*   lo4 127.0.0.1   lo6 ::1                                   loopback     *)
(*   remote4 192.0.2.x   remote6 global IPv6   zoned fe80::x%ifc  not loopback *)
(*   garbage: a transport address that is no host:port at all (neither)    *)
Callers == {"lo4", "lo6", "remote4", "remote6", "zoned", "garbage"}
Loopback(c)    == c \in {"lo4", "lo6"}
NonLoopback(c) == c \in {"remote4", "remote6", "zoned"}

\* What the code admits to SET/UNSET (portmapper.go):
\*   v2 handleSet/handleUnset: refuse iff net.ParseIP(host) # nil and not loopback; a host that
\*      ParseIP cannot parse (zoned IPv6, garbage) passes                      (F19b)
\*   v3/v4 handleRpcbSet/handleRpcbUnset: no check at all                      (F19)
\*   repaired: one shared test, admitted iff the address parses and is loopback
Admits(pv, c, fixed) ==
  IF fixed THEN Loopback(c)
  ELSE IF pv = 2 THEN c \notin {"remote4", "remote6"}
  ELSE TRUE

-----------------------------------------------------------------------------
(* netid / universal address of rpcbind v3/v4 *)
Netids == {"tcp", "udp", "tcp6", "udp6"}
ProtOfNetid(n) == IF n \in {"udp", "udp6"} THEN "udp" ELSE "tcp"      \* handleRpcbSet / handleGetAddr
\* port the code extracts from the universal address of an rpcbind SET: fmt.Sscanf with an
\* IPv4-only pattern, so an IPv6 universal address ("::1.8.1") yields 0          (F23)
ParsedPort(uakind, port, fixedUaddr) == IF uakind = "v4" \/ fixedUaddr THEN port ELSE 0

-----------------------------------------------------------------------------
(* Procedures as functions.  Result: [reg, ok] *)
\* PMAPPROC_SET (v2): args (prog, vers, prot, port)
SetV2(reg, c, k, port, fixed) ==
  IF Admits(2, c, fixed) THEN [reg |-> With(reg, k, port), ok |-> TRUE]
  ELSE [reg |-> reg, ok |-> FALSE]
\* PMAPPROC_UNSET (v2)
UnsetV2(reg, c, k, fixed) ==
  IF Admits(2, c, fixed) THEN [reg |-> Without(reg, {k}), ok |-> TRUE]
  ELSE [reg |-> reg, ok |-> FALSE]
\* RPCBPROC_SET (v3/v4): args rpcb(prog, vers, netid, uaddr, owner); registers only a port > 0
SetRpcb(reg, pv, c, g, v, netid, uakind, port, fixed, fixedUaddr) ==
  IF ~Admits(pv, c, fixed) THEN [reg |-> reg, ok |-> FALSE]
  ELSE LET p == ParsedPort(uakind, port, fixedUaddr) k == Key(g, v, ProtOfNetid(netid)) IN
       [reg |-> IF p > 0 THEN With(reg, k, p) ELSE reg, ok |-> TRUE]
\* RPCBPROC_UNSET (v3/v4)
UnsetRpcb(reg, pv, c, g, v, netid, fixed) ==
  IF ~Admits(pv, c, fixed) THEN [reg |-> reg, ok |-> FALSE]
  ELSE [reg |-> Without(reg, {Key(g, v, ProtOfNetid(netid))}), ok |-> TRUE]
=============================================================================

---------------------------- MODULE PortmapTrace ----------------------------
(***************************************************************************)
(* Step validation of recorded portmapper behaviours (harness/vf_portmap.go)*)
(* against Portmap.  Every line carries the request, the decoded reply and  *)
(* the registry projection after the step; line l-1 supplies the pre-state. *)
(*   ideal level (verdict): replies well-formed, queries = registry,        *)
(*       loopback SET/UNSET take effect, a non-loopback caller never        *)
(*       changes the registry (C27 as stated);                              *)
(*   impl level (drift): post-registry and reply = SetV2/SetRpcb/... (pre). *)
(***************************************************************************)
EXTENDS PortmapOps, TLC, Json, IOUtils

CONSTANTS KnownDeviations,  \* subset of the four deviation names below
          FixLoopback,      \* impl-level model switches
          FixUaddr

TraceLog == ndJsonDeserialize(IOEnv.VF_TRACE)
N == Len(TraceLog)

VARIABLES l, bad, dev, drift, stats
vars == <<l, bad, dev, drift, stats>>

Rng(seq) == {seq[i] : i \in DOMAIN seq}
KeyOfE(e) == Key(e.g, e.v, e.t)
RegOf(arr) == [k \in {KeyOfE(e) : e \in Rng(arr)} |-> (CHOOSE e \in Rng(arr) : KeyOfE(e) = k).p]
DupKeys(arr) == Cardinality({KeyOfE(e) : e \in Rng(arr)}) # Len(arr)
EntSet(arr) == {<<KeyOfE(e), e.p>> : e \in Rng(arr)}
Pos(S) == {e \in S : e[2] > 0}

Cur  == TraceLog[l]
Pre  == RegOf(TraceLog[l - 1].reg)
Post == RegOf(Cur.reg)
Known(d) == d \in KnownDeviations
Tag(S) == {[l |-> l, why |-> w] : w \in S}
DevTag(S) == {[l |-> l, name |-> d] : d \in S}

SameExcept(a, b, k) == \A x \in ((DOMAIN a) \cup (DOMAIN b)) \ {k} :
                          x \in DOMAIN a /\ x \in DOMAIN b /\ a[x] = b[x]

\* RFC 1831 reply_body, RFC 1833 results
RpcHeaderOK(r) == r.got /\ r.xid_ok /\ r.mtype = 1
WellFormed(r) ==
  /\ RpcHeaderOK(r)
  /\ \/ /\ r.rstat = 0 /\ r.verf_ok
        /\ CASE r.astat = 0 -> r.shape_ok /\ r.trailing = 0
             [] r.astat = 2 -> r.bodylen = 8                      \* PROG_MISMATCH carries low, high
             [] r.astat \in {1, 3, 4, 5} -> r.bodylen = 0
             [] OTHER -> FALSE
     \/ r.rstat = 1 /\ r.rej_ok
MismatchNoRange(r) == RpcHeaderOK(r) /\ r.rstat = 0 /\ r.verf_ok /\ r.astat = 2 /\ r.bodylen = 0

RpcProcs   == {"NULL", "SET", "UNSET", "GETPORT", "GETADDR", "DUMP", "CALLIT", "BADPROC", "BADVERS", "BADPROG"}
QueryProcs == {"NULL", "GETPORT", "GETADDR", "DUMP", "CALLIT", "BADPROC", "BADVERS", "BADPROG"}

K == Key(Cur.g, Cur.v, IF Cur.pv = 2 THEN Cur.t ELSE ProtOfNetid(Cur.netid))
Succ0(r) == WellFormed(r) /\ r.rstat = 0 /\ r.astat = 0

-----------------------------------------------------------------------------
(* ideal level: sets of reasons / deviation names for the current line *)
LocalityDev ==
  IF ~(NonLoopback(Cur.c) /\ Post # Pre /\ Cur.proc \in {"SET", "UNSET"}) THEN {}
  ELSE IF Cur.pv \in {3, 4} /\ Known("Dev_RpcbindSetUnsetNoLoopbackCheck") THEN {"Dev_RpcbindSetUnsetNoLoopbackCheck"}
  ELSE IF Cur.pv = 2 /\ Cur.c = "zoned" /\ Known("Dev_PortmapV2UnparsedAddressBypass") THEN {"Dev_PortmapV2UnparsedAddressBypass"}
  ELSE {}
LocalityBad ==
  IF NonLoopback(Cur.c) /\ Post # Pre /\ LocalityDev = {}
  THEN {"registry changed by a caller that is not on a loopback address"} ELSE {}

ShapeDev == IF Cur.proc \in RpcProcs /\ ~WellFormed(Cur.r) /\ MismatchNoRange(Cur.r) /\ Known("Dev_PortmapProgMismatchNoRange")
            THEN {"Dev_PortmapProgMismatchNoRange"} ELSE {}
ShapeBad == IF Cur.proc \in RpcProcs /\ ~WellFormed(Cur.r) /\ ShapeDev = {}
            THEN {"portmapper reply is not well-formed"} ELSE {}

\* an rpcbind SET with an IPv6 universal address acknowledged TRUE but not registered (F23)
UaddrDev == IF /\ Cur.proc = "SET" /\ Cur.pv \in {3, 4} /\ Cur.ua = "v6" /\ Cur.port > 0
               /\ Succ0(Cur.r) /\ Cur.r.b = 1 /\ Post = Pre /\ With(Pre, K, Cur.port) # Pre
               /\ Known("Dev_RpcbSetIPv6UaddrNotRegistered")
            THEN {"Dev_RpcbSetIPv6UaddrNotRegistered"} ELSE {}

MapBad ==
  (IF DupKeys(Cur.reg) THEN {"two registrations for one (program, version, protocol)"} ELSE {})
  \cup (IF Cur.proc \in QueryProcs /\ Post # Pre THEN {"a query changed the registry"} ELSE {})
  \cup (IF Cur.proc = "GETPORT" /\ ~(Succ0(Cur.r) /\ Cur.r.port = Lookup(Pre, K))
        THEN {"GETPORT does not report the current registration"} ELSE {})
  \cup (IF Cur.proc = "GETADDR" /\ ~(Succ0(Cur.r) /\ Cur.r.uport = Lookup(Pre, K))
        THEN {"GETADDR does not report the current registration"} ELSE {})
  \cup (IF Cur.proc = "DUMP" /\ ~(Succ0(Cur.r) /\ Pos(EntSet(Cur.r.ents)) = PosEntries(Pre))
        THEN {"DUMP does not report exactly the current registrations"} ELSE {})
  \cup (IF Cur.proc \in {"SET", "UNSET"} /\ ~SameExcept(Pre, Post, K)
        THEN {"SET/UNSET changed a registration other than the one named"} ELSE {})
  \cup (IF Cur.proc = "SET" /\ Loopback(Cur.c) THEN
          (IF ~Succ0(Cur.r) \/ Cur.r.b = -1 THEN {"SET from a loopback caller was not answered with a boolean"}
           ELSE IF Cur.r.b = 1 THEN
                  (IF Cur.port > 0 /\ Post # With(Pre, K, Cur.port) /\ UaddrDev = {}
                   THEN {"SET acknowledged but the registry does not hold the mapping"} ELSE {})
           ELSE (IF Post # Pre THEN {"SET refused but the registry changed"} ELSE {})
                \cup (IF K \notin DOMAIN Pre /\ Cur.port > 0
                      THEN {"SET from a loopback caller for an unregistered service was refused"} ELSE {}))
        ELSE {})
  \cup (IF Cur.proc = "UNSET" /\ Loopback(Cur.c) THEN
          (IF ~Succ0(Cur.r) \/ Cur.r.b = -1 THEN {"UNSET from a loopback caller was not answered with a boolean"}
           ELSE IF K \in DOMAIN Pre /\ ~(Cur.r.b = 1 /\ Post = Without(Pre, {K}))
                THEN {"UNSET from a loopback caller did not remove the registration"}
           ELSE IF K \notin DOMAIN Pre /\ Post # Pre THEN {"UNSET of an unregistered service changed the registry"}
           ELSE {})
        ELSE {})
  \cup (IF Cur.proc = "API_REG" /\ Post # With(Pre, K, Cur.port) THEN {"RegisterService did not update the map"} ELSE {})
  \cup (IF Cur.proc = "API_UNREG" /\ Post # Without(Pre, {K}) THEN {"UnregisterService did not update the map"} ELSE {})

-----------------------------------------------------------------------------
(* impl level: the transcribed handlers *)
Model ==
  CASE Cur.proc = "SET" /\ Cur.pv = 2 -> SetV2(Pre, Cur.c, K, Cur.port, FixLoopback)
    [] Cur.proc = "UNSET" /\ Cur.pv = 2 -> UnsetV2(Pre, Cur.c, K, FixLoopback)
    [] Cur.proc = "SET" /\ Cur.pv \in {3, 4} ->
         SetRpcb(Pre, Cur.pv, Cur.c, Cur.g, Cur.v, Cur.netid, Cur.ua, Cur.port, FixLoopback, FixUaddr)
    [] Cur.proc = "UNSET" /\ Cur.pv \in {3, 4} -> UnsetRpcb(Pre, Cur.pv, Cur.c, Cur.g, Cur.v, Cur.netid, FixLoopback)
    [] Cur.proc = "API_REG" -> [reg |-> With(Pre, K, Cur.port), ok |-> TRUE]
    [] Cur.proc = "API_UNREG" -> [reg |-> Without(Pre, {K}), ok |-> TRUE]
    [] OTHER -> [reg |-> Pre, ok |-> TRUE]
Drift ==
  (IF Model.reg # Post THEN {"post-registry differs from the transcribed handler"} ELSE {})
  \cup (IF Cur.proc \in {"SET", "UNSET"} /\ Cur.r.got /\ Cur.r.b # (IF Model.ok THEN 1 ELSE 0)
        THEN {"SET/UNSET result differs from the transcribed handler"} ELSE {})

Bump(k) == [stats EXCEPT ![k] = @ + 1]

Init == /\ l = 1 /\ bad = {} /\ dev = {} /\ drift = {}
        /\ stats = [lines |-> 0, hist |-> 0, reqs |-> 0, mods |-> 0, changed |-> 0, refused |-> 0, nonlb |-> 0]

StepReset == /\ Cur.ev = "reset"
             /\ bad' = bad \cup Tag(IF DupKeys(Cur.reg) THEN {"two registrations for one (program, version, protocol)"} ELSE {})
             /\ UNCHANGED <<dev, drift>>
             /\ stats' = Bump("hist")

StepReq == /\ Cur.ev = "req"
           /\ bad' = bad \cup Tag(LocalityBad \cup ShapeBad \cup MapBad)
           /\ dev' = dev \cup DevTag(LocalityDev \cup ShapeDev \cup UaddrDev)
           /\ drift' = drift \cup Tag(Drift)
           /\ stats' = [stats EXCEPT !.reqs = @ + 1,
                                     !.mods = @ + (IF Cur.proc \in {"SET", "UNSET"} THEN 1 ELSE 0),
                                     !.changed = @ + (IF Post # Pre THEN 1 ELSE 0),
                                     !.refused = @ + (IF Cur.proc \in {"SET", "UNSET"} /\ Cur.r.b = 0 THEN 1 ELSE 0),
                                     !.nonlb = @ + (IF NonLoopback(Cur.c) THEN 1 ELSE 0)]

Consume == /\ l <= N
           /\ l' = l + 1
           /\ (StepReset \/ StepReq)

Finish == /\ l = N + 1
          /\ l' = N + 2
          /\ JsonSerialize(IOEnv.VF_RESULT,
                [n |-> N, consumed |-> l - 1, bad |-> bad, dev |-> dev, drift |-> drift,
                 stats |-> [stats EXCEPT !.lines = N]])
          /\ UNCHANGED <<bad, dev, drift, stats>>

Next == Consume \/ Finish
Spec == Init /\ [][Next]_vars
=============================================================================

--------------------------- MODULE ConnStreamTrace ---------------------------
(***************************************************************************)
(* C15: validation of recorded connections of the real server (harness/     *)
(* vf_connstream.go) against ConnStreamOps.  One `conn` line = one          *)
(* connection: the stream as the independent classifier saw it and what the *)
(* server did (reply XIDs until it closed, junk, close, logged panics,      *)
(* allocation in KiB, probe and bystander connections afterwards).  A       *)
(* `crash` line = the server process died while serving that stream.        *)
(***************************************************************************)
EXTENDS ConnStreamOps, TLC, Json, IOUtils

CONSTANTS KnownDeviations

TraceLog == ndJsonDeserialize(IOEnv.VF_TRACE)
N == Len(TraceLog)

VARIABLES l, bad, dev, drift, stats
vars == <<l, bad, dev, drift, stats>>

Cur == TraceLog[l]
Tag(S) == {[l |-> l, why |-> w] : w \in S}

Recs == [k \in DOMAIN Cur.recs |-> [cls |-> Cur.recs[k].cls, xid |-> Cur.recs[k].xid, kb |-> Cur.recs[k].kb]]
Obs == [replies |-> Cur.replies, junk |-> Cur.junk, closed |-> Cur.closed, panics |-> Cur.panics, contained |-> Cur.contained,
        alive |-> Cur.alive, other |-> Cur.other, allockb |-> Cur.allockb, judge_alloc |-> Cur.judge_alloc]

\* F22: the process died while serving a stream that holds, before its first undecodable record, a call of
\* the class known to make the memfs backend panic (WRITE with an offset beyond 2^62)
PoisonBeforeBad == \E k \in DOMAIN Recs : Recs[k].cls = "poison" /\ k < FirstBad(Recs)
CrashExplained == Cur.backend = "memfs" /\ PoisonBeforeBad /\ "Dev_BackendPanicKillsServer" \in KnownDeviations

LineBad ==
  CASE Cur.ev = "conn"  -> ConnBad(Recs, Obs)
    [] Cur.ev = "crash" -> IF CrashExplained THEN {}
                           ELSE {IF Cur.panic THEN "server process died of a panic while serving the connection"
                                 ELSE "server process died while serving the connection"}
    [] OTHER -> {}
LineDev == IF Cur.ev = "crash" /\ CrashExplained THEN {"Dev_BackendPanicKillsServer"} ELSE {}

Init == /\ l = 1 /\ bad = {} /\ dev = {} /\ drift = {}
        /\ stats = [conns |-> 0, crashes |-> 0, calls |-> 0, answered |-> 0, undecodable |-> 0, full |-> 0]

Consume ==
  /\ l <= N
  /\ l' = l + 1
  /\ bad' = bad \cup Tag(LineBad)
  /\ dev' = dev \cup {[l |-> l, name |-> d] : d \in LineDev}
  /\ drift' = drift
  /\ stats' = IF Cur.ev = "conn" THEN
                 [stats EXCEPT !.conns = @ + 1, !.calls = @ + Len(Expected(Recs)), !.answered = @ + Len(Cur.replies),
                               !.undecodable = @ + (IF FirstBad(Recs) <= Len(Recs) THEN 1 ELSE 0),
                               !.full = @ + (IF Cur.replies = Expected(Recs) THEN 1 ELSE 0)]
              ELSE IF Cur.ev = "crash" THEN [stats EXCEPT !.crashes = @ + 1] ELSE stats

Finish == /\ l = N + 1
          /\ l' = N + 2
          /\ JsonSerialize(IOEnv.VF_RESULT, [n |-> N, consumed |-> l - 1, bad |-> bad, dev |-> dev, drift |-> drift, stats |-> stats])
          /\ UNCHANGED <<bad, dev, drift, stats>>

Next == Consume \/ Finish
Spec == Init /\ [][Next]_vars
=============================================================================

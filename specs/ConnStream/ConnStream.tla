----------------------------- MODULE ConnStream -----------------------------
(***************************************************************************)
(* C15 design spec: one record-marking connection of the server             *)
(* (server.go handleConnectionLoop + recordMarkingConnIO, nfs_handlers.go   *)
(* HandleCall), fed an arbitrary stream; a probe connection afterwards.     *)
(* One action per step of the loop: read a record (framing), decode the     *)
(* call header, dispatch, write the reply, close.                           *)
(*                                                                         *)
(* Recover = FALSE is the pinned code: a panic of the backend inside the    *)
(* goroutine HandleCall spawns is not recovered and kills the process       *)
(* (F22).  Recover = TRUE: recovered there, the call is answered            *)
(* SYSTEM_ERR.  StopAtBadHeader / CheckLimitFirst = FALSE are mutants for   *)
(* the non-vacuity runs.                                                    *)
(***************************************************************************)
EXTENDS ConnStreamOps, TLC

CONSTANTS MaxRecords, Classes, Recover, StopAtBadHeader, CheckLimitFirst, AllowedDevs

VARIABLES recs,     \* the stream as the classifier sees it
          i,        \* next record
          open,     \* connection open on the server side
          alive,    \* server process alive
          replies, junk, panics, contained, allockb,
          probe     \* "none" | "served" | "refused"
vars == <<recs, i, open, alive, replies, junk, panics, contained, allockb, probe>>

Xids == {"x1", "x2"}
Rec(c) == IF c \in {"call", "poison"} THEN {[cls |-> c, xid |-> x, kb |-> 1] : x \in Xids}
          ELSE IF c = "oversize" THEN {[cls |-> c, xid |-> "", kb |-> 0]}     \* refused on the declared size: nothing let through
          ELSE {[cls |-> c, xid |-> "", kb |-> 1]}
AllRecs == UNION {Rec(c) : c \in Classes}

Init == /\ recs \in UNION {[1..n -> AllRecs] : n \in 0..MaxRecords}
        /\ i = 1 /\ open = TRUE /\ alive = TRUE /\ replies = << >> /\ junk = FALSE /\ panics = 0 /\ contained = 0 /\ allockb = 0
        /\ probe = "none"

Cur == recs[i]

\* ReadRecord + DecodeRPCCall + HandleCall + WriteReply for a decodable call
ServeCall ==
  /\ open /\ alive /\ i <= Len(recs) /\ Cur.cls = "call"
  /\ replies' = Append(replies, Cur.xid)
  /\ allockb' = allockb + 8 * Cur.kb + 64
  /\ i' = i + 1
  /\ UNCHANGED <<recs, open, alive, junk, panics, contained, probe>>

\* a call whose execution panics in the backend
ServePoison ==
  /\ open /\ alive /\ i <= Len(recs) /\ Cur.cls = "poison"
  /\ IF Recover
       THEN /\ replies' = Append(replies, Cur.xid)        \* SYSTEM_ERR
            /\ contained' = contained + 1                  \* recovered in the request goroutine, logged
            /\ UNCHANGED <<alive, open, panics>>
       ELSE /\ alive' = FALSE /\ open' = FALSE /\ panics' = panics + 1
            /\ UNCHANGED <<replies, contained>>
  /\ allockb' = allockb + 8 * Cur.kb + 64
  /\ i' = i + 1
  /\ UNCHANGED <<recs, junk, probe>>

\* ReadCall fails: undecodable header, record over the limit, stream cut -> the loop returns, conn.Close()
CloseOnUndecodable ==
  /\ open /\ alive /\ i <= Len(recs) /\ Cur.cls \in Undecodable
  /\ IF Cur.cls = "badhdr" /\ ~StopAtBadHeader
       THEN /\ i' = i + 1 /\ UNCHANGED <<open, allockb>>                  \* mutant: skips the record and goes on
       ELSE /\ open' = FALSE /\ i' = i
            /\ allockb' = allockb + (IF Cur.cls = "oversize" /\ ~CheckLimitFirst THEN 2097152 ELSE 8 * Cur.kb)
  /\ UNCHANGED <<recs, alive, replies, junk, panics, contained, probe>>

\* end of stream (client FIN) at a record boundary
CloseAtEOF ==
  /\ open /\ alive /\ i > Len(recs)
  /\ open' = FALSE
  /\ UNCHANGED <<recs, i, alive, replies, junk, panics, contained, allockb, probe>>

\* a new connection afterwards
Probe ==
  /\ ~open /\ probe = "none"
  /\ probe' = IF alive THEN "served" ELSE "refused"
  /\ UNCHANGED <<recs, i, open, alive, replies, junk, panics, contained, allockb>>

Next == ServeCall \/ ServePoison \/ CloseOnUndecodable \/ CloseAtEOF \/ Probe
Spec == Init /\ [][Next]_vars

-----------------------------------------------------------------------------
Obs == [replies |-> replies, junk |-> junk, closed |-> ~open, panics |-> panics, contained |-> contained,
        alive |-> probe # "refused", other |-> probe # "refused", allockb |-> allockb, judge_alloc |-> TRUE]

\* F22: the backend panic of a poison call is not contained
DevPanic == \E k \in DOMAIN recs : recs[k].cls = "poison" /\ k < FirstBad(recs)

\* at every moment the replies so far are answers to decodable calls before the first undecodable record
RepliesOK == IsSubseq(replies, Expected(recs))
\* when the connection is finished, everything the property states holds (up to allowed deviations)
Finished == ~open /\ probe # "none"
Conforms ==
  Finished => \/ ConnBad(recs, Obs) = {}
              \/ ("Dev_BackendPanicKillsServer" \in AllowedDevs /\ DevPanic /\ ~Recover)
NoReplyAfterClose == ~open => (i > Len(recs) \/ Cur.cls \in Undecodable \/ ~alive)
Bounded == allockb <= BoundKB(recs)
TypeOK == /\ i \in 1..(Len(recs) + 1) /\ probe \in {"none", "served", "refused"} /\ panics \in Nat
=============================================================================

--------------------------- MODULE ConnStreamOps ---------------------------
(***************************************************************************)
(* C15: what a record-marking connection may show for a given byte stream.  *)
(* A stream is seen through an independent classifier as a sequence of      *)
(* records, each                                                            *)
(*   [cls : "call" | "poison" | "badhdr" | "oversize" | "trunc",            *)
(*    xid : string (calls), kb : size in KiB that the framing let through]  *)
(* "call"    a record whose RPC call header decodes (RFC 1831, bodies <=400)*)
(* "poison"  such a call whose execution makes the backend panic            *)
(* "badhdr"  a complete record that is not a decodable call                 *)
(* "oversize" fragments whose declared sizes pass the 1 MiB record limit    *)
(* "trunc"   the stream ends inside a fragment header or body               *)
(* The first record that is not a call makes the stream undecodable.        *)
(***************************************************************************)
EXTENDS Integers, Sequences, FiniteSets

Undecodable == {"badhdr", "oversize", "trunc"}
IsCall(r) == r.cls \in {"call", "poison"}

\* index of the first undecodable record (Len + 1 if none)
RECURSIVE FirstBadFrom(_, _)
FirstBadFrom(recs, i) == IF i > Len(recs) THEN i ELSE IF recs[i].cls \in Undecodable THEN i ELSE FirstBadFrom(recs, i + 1)
FirstBad(recs) == FirstBadFrom(recs, 1)

\* XIDs of the decodable calls received before the stream became undecodable, in arrival order
Expected(recs) == [i \in 1..(FirstBad(recs) - 1) |-> recs[i].xid]

\* a is a subsequence of b (each call answered at most once, in arrival order)
RECURSIVE IsSubseqFrom(_, _, _, _)
IsSubseqFrom(a, i, b, j) ==
  IF i > Len(a) THEN TRUE
  ELSE IF j > Len(b) THEN FALSE
  ELSE IF a[i] = b[j] THEN IsSubseqFrom(a, i + 1, b, j + 1) ELSE IsSubseqFrom(a, i, b, j + 1)
IsSubseq(a, b) == IsSubseqFrom(a, 1, b, 1)

\* allocation (KiB) the documented bounds allow while a connection consumes the stream: per record that
\* passed the framing, a multiple of its size (fragment buffers, reassembly, copy) plus what one call may
\* need (transfer size, reply); nothing for what the limits refuse
BoundKB(recs) ==
  LET n == IF FirstBad(recs) > Len(recs) THEN Len(recs) ELSE FirstBad(recs)
      F[i \in 0..n] == IF i = 0 THEN 4096 ELSE F[i - 1] + 8 * recs[i].kb + (IF IsCall(recs[i]) THEN 2048 ELSE 64)
  IN F[n]

If(c, w) == IF c THEN {w} ELSE {}

(* The property on one observed connection:                                 *)
(*   replies  XIDs of the reply records read until the server closed        *)
(*   junk     the server sent bytes that are not RPC reply records          *)
(*   closed   the server closed the connection (after the client's FIN)     *)
(*   panics   panics recovered at connection level (the connection is lost) *)
(*   contained  panics recovered inside one request (answered SYSTEM_ERR):  *)
(*            tolerated only for a call of the class known to make the      *)
(*            backend itself panic ("poison"), never otherwise              *)
(*   alive    a connection opened afterwards was served                     *)
(*   other    a connection opened before was still served afterwards        *)
ConnBad(recs, o) ==
  If(~IsSubseq(o.replies, Expected(recs)),
     "replies are not, in order and at most once, the XIDs of the decodable calls received before the stream became undecodable")
  \cup If(o.junk, "server sent bytes that are not RPC reply records")
  \cup If(~o.closed, "connection whose stream ended or became undecodable was not closed")
  \cup If(o.panics > 0, "server code panicked while serving the connection")
  \cup If(o.contained > 0 /\ ~\E k \in DOMAIN recs : recs[k].cls = "poison" /\ k < FirstBad(recs),
          "a panic was recovered while serving a stream that holds no call of the class known to make the backend panic")
  \cup If(~o.alive, "server stopped serving new connections")
  \cup If(~o.other, "server stopped serving another connection")
  \* judged only where the backend itself allocates nothing for what a call names (the sparse vfs backend)
  \cup If(o.judge_alloc /\ o.allockb > BoundKB(recs), "more memory was allocated than the documented bounds allow for the stream")
=============================================================================

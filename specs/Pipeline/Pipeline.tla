------------------------------ MODULE Pipeline ------------------------------
(***************************************************************************)
(* The journey of a request through the whole absnfs server, as ONE         *)
(* specification.  It composes at a coarse grain what the family modules    *)
(* specify in detail (see specs/AbsNFS/AbsNFS.tla for the map):             *)
(*                                                                         *)
(*   stage (one action each)                     code                detail *)
(*   ClientOpen / ClientSend / ClientClose       (environment)              *)
(*   AcceptCheck   allow-list at connection lvl  server.go acceptLoop  Policy (C09)  *)
(*   Register      MaxConnections, connCount     registerConnection    ConnMgr (C17) *)
(*   ReadCall      record marking + RPC header   recordMarkingConnIO   Wire, ConnStream (C13, C15) *)
(*   RateLimit     per conn / per IP / global    handleConnectionLoop  RateLimiter (C18, C19) *)
(*   Submit / WorkerTake / PoolStop              ExecuteWithWorker     WorkerPool (C20) *)
(*   Admit         TryRLock + policy snapshot    HandleCall            PolicySwap (C16) *)
(*   Auth          allow-list, port, flavor      ValidateAuthentication Policy (C09, C10) *)
(*   Dispatch      program / version / procedure handleNFSCall, handleMountCall ReplyShape (C14) *)
(*   Guard         read-only guard, per-op limit nfs_proc_*.go         Core/ReadOnly (C08), RateLimiter *)
(*   BackendOp     backend calls of the handler  operations.go         Core (C01-C04) *)
(*   Release       goroutine drops the read lock HandleCall goroutine  PolicySwap (C16) *)
(*   Return        reply travels back            worker result channel WorkerPool (C20) *)
(*   WriteReply    reply encode + record write   WriteReply            ReplyShape, Wire (C14, C13) *)
(*   Timeout       HandleCall deadline           HandleCall select     PolicySwap *)
(*   LoopExit      EOF / closed socket / Stop    handleConnectionLoop  ConnMgr, ConnStream *)
(*   Tick / Reap   clock, idle reaper            cleanupIdleConnections ConnMgr (C17) *)
(*   UpdBegin .. UpdRelease   drain-and-swap     UpdatePolicyOptions   PolicySwap (C16) *)
(*   StopBegin / StopClose / StopReturn          Server.Stop           ConnMgr (C17) *)
(*                                                                         *)
(* A connection loop handles one call at a time (read, judge, run, write),  *)
(* so a connection is a queue of received-but-unread calls plus at most one *)
(* call in flight; different connections interleave freely.                 *)
(*                                                                         *)
(* Bug # "none" switches ONE realistic design error on (non-vacuity runs):  *)
(*   "RLNoContinue"    the rate-limit refusal writes MSG_DENIED and then    *)
(*                     falls through to the dispatch (missing `continue`)   *)
(*   "ROGuardLate"     the read-only guard of the large-WRITE path is       *)
(*                     evaluated after the first backend operation          *)
(*   "AuthBeforeAdmit" authentication is evaluated on the live policy       *)
(*                     before the read lock is taken                        *)
(*   "UnregTwice"      a reaped connection is uncounted by the reaper and   *)
(*                     again when its loop exits (no once-guard)            *)
(***************************************************************************)
EXTENDS PipelineOps, TLC

CONSTANTS Conns,        \* connection slots (positive integers), each used once
          Calls,        \* call ids = XIDs (positive integers), sent in increasing order
          MaxConn,      \* MaxConnections
          Classes,      \* classes of calls the client may send
          Flavors,      \* credential flavors the client may use: subset of {"NONE", "SYS", "BAD"}
          Addrs,        \* client addresses: subset of {"a", "b"}; only "a" is on the allow-list
          LowPorts,     \* subset of BOOLEAN: may the client use a privileged / unprivileged source port
          Pol0,         \* initial policy (v = 0)
          NewPolicies,  \* set of policies an update may install (v is assigned at the swap)
          Upds,         \* update ids
          B,            \* [cn, ip, g] burst sizes of a limiter
          OB,           \* burst of a per-operation bucket (the same for every operation type here)
          QCap, Workers,\* worker pool: queue capacity, number of workers
          MaxTicks,     \* clock ticks (each refills the buckets and ages the connections)
          WithTimeout, WithStop, WithReap, WithPoolStop,   \* which environment actions exist
          Bug

ASSUME Addrs \subseteq {"a", "b"} /\ Classes \subseteq AllClasses /\ MaxConn >= 1

VARIABLES pol,     \* policy in force (AbsfsNFS.policy)
          lim,     \* live limiter (AbsfsNFS.rateLimiter): [on, g, ip, cn, op]; on = FALSE: nil
          rw,      \* policyRWMu: [readers, wwait, wheld]
          upd,     \* upd[u] = [ph, new]
          srv,     \* "run" | "stopping" | "stopped"
          conn,    \* conn[c] = [st, addr, low, inq, cur, stale, eof]
          count,   \* Server.connCount
          req,     \* req[k]: stage and outcome of call k
          pool,    \* [on, queue, busy]
          out,     \* ghost: out[c] = sequence of [xid, form] written on connection c
          muts,    \* ghost: number of modifying backend operations so far
          passed,  \* ghost: calls that passed the connection-level limiter since it was created / refilled
          ticks
vars == <<pol, lim, rw, upd, srv, conn, count, req, pool, out, muts, passed, ticks>>

NoPol == [v |-> -1, acl |-> FALSE, allowed |-> {}, secure |-> FALSE, ro |-> FALSE, rl |-> FALSE]
ReqInit == [st |-> "new", c |-> 0, cls |-> "NULL", flav |-> "NONE", snap |-> NoPol, aok |-> FALSE, authv |-> -1,
            gate |-> "none", form |-> "none", g |-> "none", bops |-> 0, mops |-> 0, seen |-> {}, route |-> "none", runs |-> 0]
ConnInit == [st |-> "free", addr |-> "a", low |-> FALSE, inq |-> << >>, cur |-> 0, stale |-> FALSE, eof |-> FALSE]
OBf == [ot \in OpTypes |-> OB]
Fresh == FreshLimiter(B)

Init == /\ pol = Pol0
        /\ lim = IF Pol0.rl THEN Fresh ELSE NoLimiter
        /\ rw = [readers |-> {}, wwait |-> FALSE, wheld |-> FALSE]
        /\ upd = [u \in Upds |-> [ph |-> "idle", new |-> NoPol]]
        /\ srv = "run"
        /\ conn = [c \in Conns |-> ConnInit]
        /\ count = 0
        /\ req = [k \in Calls |-> ReqInit]
        /\ pool = [on |-> TRUE, queue |-> << >>, busy |-> {}]
        /\ out = [c \in Conns |-> << >>]
        /\ muts = 0 /\ passed = 0 /\ ticks = 0

\* backend operations a handler of this class performs (coarse: one, two on the large-WRITE path)
Ops(cls) == IF cls = "BIGWRITE" THEN 2 ELSE IF MayCallBackend(cls) THEN 1 ELSE 0
Served(c) == conn[c].st \in {"open", "dead"}      \* a connection loop is running for c
Counted(c) == conn[c].st = "open"                  \* c is in activeConns

\* the loop of connection c is gone: unread calls are lost, the call in flight (if any) gets no reply
ReqGone(c, rq) ==
  [k \in Calls |-> IF rq[k].c = c /\ rq[k].st = "sent" THEN [rq[k] EXCEPT !.st = "lost"]
                   ELSE IF k = conn[c].cur /\ rq[k].st # "done" THEN [rq[k] EXCEPT !.st = "dropped"]
                   ELSE rq[k]]
ConnGone(c) == [conn EXCEPT ![c].st = "closed", ![c].inq = << >>, ![c].cur = 0]
\* unregisterConnection (once per connection: a dead connection was uncounted by whoever closed it)
CountGone(c) == IF conn[c].st = "open" \/ (Bug = "UnregTwice" /\ conn[c].st = "dead") THEN count - 1 ELSE count

-----------------------------------------------------------------------------
(* Environment: clients                                                      *)

ClientOpen(c, a, lo) ==
  /\ conn[c].st = "free"
  /\ \A d \in Conns : d < c => conn[d].st # "free"          \* slots are used in order (symmetry)
  /\ conn' = [conn EXCEPT ![c].st = "syn", ![c].addr = a, ![c].low = lo]
  /\ UNCHANGED <<pol, lim, rw, upd, srv, count, req, pool, out, muts, passed, ticks>>

Unsent == {k \in Calls : req[k].st = "new"}
ClientSend(c, cls, fl) ==
  /\ Unsent # {}
  /\ conn[c].st \in {"syn", "checked", "open"} /\ ~conn[c].eof
  /\ LET k == CHOOSE x \in Unsent : \A y \in Unsent : x <= y IN
       /\ req' = [req EXCEPT ![k].st = "sent", ![k].c = c, ![k].cls = cls, ![k].flav = fl]
       /\ conn' = [conn EXCEPT ![c].inq = Append(@, k)]
  /\ UNCHANGED <<pol, lim, rw, upd, srv, count, pool, out, muts, passed, ticks>>

ClientClose(c) ==
  /\ conn[c].st \in {"syn", "checked", "open"} /\ ~conn[c].eof
  /\ conn' = [conn EXCEPT ![c].eof = TRUE]
  /\ UNCHANGED <<pol, lim, rw, upd, srv, count, req, pool, out, muts, passed, ticks>>

-----------------------------------------------------------------------------
(* Accept loop (server.go acceptLoop): one goroutine, so one connection at a *)
(* time is between the allow-list check and registerConnection              *)

AcceptCheck(c) ==
  /\ srv = "run" /\ conn[c].st = "syn"
  /\ \A d \in Conns : conn[d].st # "checked"
  /\ IF AddrAllowed(pol, conn[c].addr)                     \* live policy: s.handler.policy.Load()
     THEN /\ conn' = [conn EXCEPT ![c].st = "checked"]
          /\ req' = req
     ELSE /\ conn' = ConnGone(c)                          \* conn.Close(); continue
          /\ req' = ReqGone(c, req)
  /\ UNCHANGED <<pol, lim, rw, upd, srv, count, pool, out, muts, passed, ticks>>

Register(c) ==
  /\ conn[c].st = "checked"
  /\ IF count >= MaxConn
     THEN /\ conn' = ConnGone(c) /\ req' = ReqGone(c, req) /\ count' = count     \* cm.reject
     ELSE /\ conn' = [conn EXCEPT ![c].st = "open"] /\ req' = req /\ count' = count + 1   \* cm.accept
  /\ UNCHANGED <<pol, lim, rw, upd, srv, pool, out, muts, passed, ticks>>

-----------------------------------------------------------------------------
(* Connection loop (server.go handleConnectionLoop)                          *)

\* ReadCall: a whole record and an RPC call header, or the end of the connection
ReadCall(c) ==
  /\ srv = "run" /\ conn[c].st = "open" /\ conn[c].cur = 0 /\ conn[c].inq # << >>
  /\ LET k == Head(conn[c].inq) IN
       IF req[k].cls = "GARBAGE"
       THEN \* undecodable record: the loop returns, nothing is answered (C15: no desynchronisation)
            /\ req' = ReqGone(c, [req EXCEPT ![k].gate = "decode"])
            /\ conn' = ConnGone(c)
            /\ count' = CountGone(c)
       ELSE /\ req' = [req EXCEPT ![k].st = "decoded"]
            /\ conn' = [conn EXCEPT ![c].inq = Tail(@), ![c].cur = k, ![c].stale = FALSE]
            /\ count' = count
  /\ UNCHANGED <<pol, lim, rw, upd, srv, pool, out, muts, passed, ticks>>

\* the loop ends: EOF from the client, socket closed under it (reaper, Stop), or the server context is done
LoopExit(c) ==
  /\ Served(c) /\ conn[c].cur = 0
  /\ \/ conn[c].st = "dead"
     \/ srv # "run"
     \/ conn[c].inq = << >> /\ conn[c].eof
  /\ conn' = ConnGone(c) /\ req' = ReqGone(c, req) /\ count' = CountGone(c)
  /\ UNCHANGED <<pol, lim, rw, upd, srv, pool, out, muts, passed, ticks>>

\* connection-level rate limiting: `if rl != nil && policy.Load().EnableRateLimiting { AllowRequest }`
RateLimit(c) ==
  /\ conn[c].cur # 0
  /\ LET k == conn[c].cur IN
     /\ req[k].st = "decoded"
     /\ IF lim.on /\ pol.rl
        THEN LET d == AllowRequest(lim, B, conn[c].addr, c) IN
             /\ lim' = d.lim
             /\ IF d.ok
                THEN /\ req' = [req EXCEPT ![k].st = "submit"] /\ passed' = passed + 1
                ELSE /\ req' = [req EXCEPT ![k].st = IF Bug = "RLNoContinue" THEN "replyft" ELSE "reply",
                                           ![k].gate = "rl", ![k].form = FormOf("rl", req[k].cls)]
                     /\ passed' = passed
        ELSE /\ req' = [req EXCEPT ![k].st = "submit"] /\ UNCHANGED <<lim, passed>>
  /\ UNCHANGED <<pol, rw, upd, srv, conn, count, pool, out, muts, ticks>>

\* ExecuteWithWorker: queued for a worker, or run inline when the pool refuses (full or stopped)
Submit(k) ==
  /\ req[k].st = "submit"
  /\ IF pool.on /\ Len(pool.queue) < QCap
     THEN /\ pool' = [pool EXCEPT !.queue = Append(@, k)]
          /\ req' = [req EXCEPT ![k].st = "queued", ![k].route = "worker"]
     ELSE /\ pool' = pool
          /\ req' = [req EXCEPT ![k].st = "hc", ![k].route = "inline"]
  /\ UNCHANGED <<pol, lim, rw, upd, srv, conn, count, out, muts, passed, ticks>>

WorkerTake ==
  /\ pool.queue # << >> /\ Cardinality(pool.busy) < Workers
  /\ LET k == Head(pool.queue) IN
       /\ pool' = [pool EXCEPT !.queue = Tail(@), !.busy = @ \cup {k}]
       /\ req' = [req EXCEPT ![k].st = "hc"]
  /\ UNCHANGED <<pol, lim, rw, upd, srv, conn, count, out, muts, passed, ticks>>

\* operator stops the pool: tasks still queued are handed back and run by their submitters (F12 repaired)
PoolStop ==
  /\ WithPoolStop /\ pool.on
  /\ pool' = [pool EXCEPT !.on = FALSE, !.queue = << >>]
  /\ req' = [k \in Calls |-> IF req[k].st = "queued" THEN [req[k] EXCEPT !.st = "hc", !.route = "inline"] ELSE req[k]]
  /\ UNCHANGED <<pol, lim, rw, upd, srv, conn, count, out, muts, passed, ticks>>

-----------------------------------------------------------------------------
(* HandleCall (nfs_handlers.go)                                              *)

AddrOf(k) == conn[req[k].c].addr
LowOf(k)  == conn[req[k].c].low

\* design error "AuthBeforeAdmit": ValidateAuthentication on the live policy, before TryRLock
AuthEarly(k) ==
  /\ Bug = "AuthBeforeAdmit" /\ req[k].st = "hc"
  /\ req' = [req EXCEPT ![k].st = "hc2", ![k].aok = AuthOK(pol, AddrOf(k), LowOf(k), req[k].flav), ![k].authv = pol.v]
  /\ UNCHANGED <<pol, lim, rw, upd, srv, conn, count, pool, out, muts, passed, ticks>>

\* TryRLock + snapshotOptions; fails while an update waits for or holds the write lock
Admit(k) ==
  /\ req[k].st = IF Bug = "AuthBeforeAdmit" THEN "hc2" ELSE "hc"
  /\ IF rw.wwait \/ rw.wheld
     THEN /\ req' = [req EXCEPT ![k].st = "ret", ![k].gate = "drain", ![k].form = FormOf("drain", req[k].cls), ![k].runs = @ + 1]
          /\ rw' = rw
     ELSE /\ req' = [req EXCEPT ![k].st = "auth", ![k].snap = pol, ![k].runs = @ + 1]
          /\ rw' = [rw EXCEPT !.readers = @ \cup {k}]
  /\ UNCHANGED <<pol, lim, upd, srv, conn, count, pool, out, muts, passed, ticks>>

\* ValidateAuthentication(authCtx, opts.Policy) on the snapshot; refusal releases the read lock
Auth(k) ==
  /\ req[k].st = "auth"
  /\ LET ok == IF Bug = "AuthBeforeAdmit" THEN req[k].aok ELSE AuthOK(req[k].snap, AddrOf(k), LowOf(k), req[k].flav)
         av == IF Bug = "AuthBeforeAdmit" THEN req[k].authv ELSE req[k].snap.v IN
       IF ok
       THEN /\ req' = [req EXCEPT ![k].st = "wait", ![k].g = "dispatch", ![k].aok = TRUE, ![k].authv = av]
            /\ rw' = rw
       ELSE /\ req' = [req EXCEPT ![k].st = "ret", ![k].gate = "auth", ![k].form = FormOf("auth", req[k].cls), ![k].authv = av]
            /\ rw' = [rw EXCEPT !.readers = @ \ {k}]
  /\ UNCHANGED <<pol, lim, upd, srv, conn, count, pool, out, muts, passed, ticks>>

\* the goroutine that owns the read lock: program / version / procedure
Dispatch(k) ==
  /\ req[k].g = "dispatch"
  /\ LET gt == DispatchGate(req[k].cls) IN
       req' = IF gt = "handler" THEN [req EXCEPT ![k].g = "guard"]
              ELSE [req EXCEPT ![k].g = "sent", ![k].gate = gt, ![k].form = FormOf(gt, req[k].cls)]
  /\ UNCHANGED <<pol, lim, rw, upd, srv, conn, count, pool, out, muts, passed, ticks>>

Finished(k, gt) == [req EXCEPT ![k].g = "sent", ![k].gate = gt, ![k].form = FormOf(gt, req[k].cls)]

\* handler entry: read-only guard (live policy, which is the snapshot while the read lock is held), then
\* the per-operation limiter of large READ / WRITE, READDIR(PLUS), MNT
Guard(k) ==
  /\ req[k].g = "guard"
  /\ LET cls == req[k].cls   ot == OpType(cls) IN
     IF Mutating(cls) /\ pol.ro /\ ~(Bug = "ROGuardLate" /\ cls = "BIGWRITE")
     THEN req' = Finished(k, "ro") /\ lim' = lim
     ELSE IF ot # "none" /\ lim.on /\ pol.rl
          THEN LET d == AllowOperation(lim, OBf, AddrOf(k), ot) IN
               /\ lim' = d.lim
               /\ req' = IF ~d.ok THEN Finished(k, "oplimit")
                         ELSE IF Ops(cls) = 0 THEN Finished(k, "handler") ELSE [req EXCEPT ![k].g = "backend"]
          ELSE /\ lim' = lim
               /\ req' = IF Ops(cls) = 0 THEN Finished(k, "handler") ELSE [req EXCEPT ![k].g = "backend"]
  /\ UNCHANGED <<pol, rw, upd, srv, conn, count, pool, out, muts, passed, ticks>>

\* one backend call of the handler; the last one completes the result
BackendOp(k) ==
  /\ req[k].g = "backend" /\ req[k].bops < Ops(req[k].cls)
  /\ LET m == IF Mutating(req[k].cls) THEN 1 ELSE 0
         last == req[k].bops + 1 = Ops(req[k].cls)
         r1 == [req EXCEPT ![k].bops = @ + 1, ![k].mops = @ + m, ![k].seen = @ \cup {pol.v}] IN
       /\ muts' = muts + m
       /\ req' = IF Bug = "ROGuardLate" /\ req[k].cls = "BIGWRITE" /\ pol.ro
                 THEN [r1 EXCEPT ![k].g = "sent", ![k].gate = "ro", ![k].form = FormOf("ro", req[k].cls)]
                 ELSE IF last THEN [r1 EXCEPT ![k].g = "sent", ![k].gate = "handler", ![k].form = FormOf("handler", req[k].cls)]
                 ELSE r1
  /\ UNCHANGED <<pol, lim, rw, upd, srv, conn, count, pool, out, passed, ticks>>

\* the goroutine ends: deferred RUnlock
Release(k) ==
  /\ req[k].g = "sent"
  /\ req' = [req EXCEPT ![k].g = "gone"]
  /\ rw' = [rw EXCEPT !.readers = @ \ {k}]
  /\ UNCHANGED <<pol, lim, upd, srv, conn, count, pool, out, muts, passed, ticks>>

\* HandleCall returns the reply; a worker hands it to the connection loop
Return(k) ==
  /\ \/ req[k].st = "ret"
     \/ req[k].st = "wait" /\ req[k].g \in {"sent", "gone"}
  /\ req' = [req EXCEPT ![k].st = "reply"]
  /\ pool' = [pool EXCEPT !.busy = @ \ {k}]
  /\ UNCHANGED <<pol, lim, rw, upd, srv, conn, count, out, muts, passed, ticks>>

\* the deadline of HandleCall passes while the goroutine is still at work: HandleCall returns an
\* error, the connection loop returns (no reply), the goroutine keeps the read lock until it is done
Timeout(k) ==
  /\ WithTimeout /\ req[k].st = "wait" /\ req[k].g \in {"dispatch", "guard", "backend"}
  /\ LET c == req[k].c IN
       /\ req' = ReqGone(c, [req EXCEPT ![k].st = "dropped"])
       /\ conn' = ConnGone(c)
       /\ count' = CountGone(c)
  /\ pool' = [pool EXCEPT !.busy = @ \ {k}]
  /\ UNCHANGED <<pol, lim, rw, upd, srv, out, muts, passed, ticks>>

\* EncodeRPCReply + WriteRecord
WriteReply(c) ==
  /\ conn[c].cur # 0
  /\ LET k == conn[c].cur IN
     /\ req[k].st \in {"reply", "replyft"}
     /\ IF conn[c].st = "open"
        THEN /\ out' = [out EXCEPT ![c] = Append(@, [xid |-> k, form |-> req[k].form])]
             /\ IF req[k].st = "replyft"
                THEN /\ req' = [req EXCEPT ![k].st = "submit"]       \* design error: no `continue`
                     /\ conn' = [conn EXCEPT ![c].stale = FALSE]
                ELSE /\ req' = [req EXCEPT ![k].st = "done"]
                     /\ conn' = [conn EXCEPT ![c].cur = 0, ![c].stale = FALSE]
             /\ count' = count
        ELSE \* the socket was closed under the loop: the write fails, the loop returns
             /\ out' = out
             /\ req' = ReqGone(c, req) /\ conn' = ConnGone(c) /\ count' = CountGone(c)
  /\ UNCHANGED <<pol, lim, rw, upd, srv, pool, muts, passed, ticks>>

-----------------------------------------------------------------------------
(* Clock and idle reaper                                                     *)

Tick ==
  /\ ticks < MaxTicks
  /\ ticks' = ticks + 1
  /\ conn' = [c \in Conns |-> IF conn[c].st = "open" THEN [conn[c] EXCEPT !.stale = TRUE] ELSE conn[c]]
  /\ lim' = IF lim.on THEN Fresh ELSE NoLimiter
  /\ passed' = 0
  /\ UNCHANGED <<pol, rw, upd, srv, count, req, pool, out, muts>>

\* cleanupIdleConnections: close the socket, unregister; the loop notices at its next read or write
Reap(c) ==
  /\ WithReap /\ srv = "run" /\ conn[c].st = "open" /\ conn[c].stale
  /\ conn' = [conn EXCEPT ![c].st = "dead"]
  /\ count' = count - 1
  /\ UNCHANGED <<pol, lim, rw, upd, srv, req, pool, out, muts, passed, ticks>>

-----------------------------------------------------------------------------
(* Operator: policy update (options.go UpdatePolicyOptions, drain and swap)  *)

Updating == \E u \in Upds : upd[u].ph \notin {"idle", "returned"}

UpdBegin(u, np) ==      \* policyMu taken, policyRWMu.Lock() called: new readers are refused from now on
  /\ upd[u].ph = "idle" /\ ~Updating
  /\ \A w \in Upds : w < u => upd[w].ph = "returned"
  /\ upd' = [upd EXCEPT ![u] = [ph |-> "waiting", new |-> [np EXCEPT !.v = pol.v + 1]]]
  /\ rw' = [rw EXCEPT !.wwait = TRUE]
  /\ UNCHANGED <<pol, lim, srv, conn, count, req, pool, out, muts, passed, ticks>>

UpdAcquire(u) ==        \* the in-flight requests have drained
  /\ upd[u].ph = "waiting" /\ rw.readers = {}
  /\ rw' = [rw EXCEPT !.wwait = FALSE, !.wheld = TRUE]
  /\ upd' = [upd EXCEPT ![u].ph = "held"]
  /\ UNCHANGED <<pol, lim, srv, conn, count, req, pool, out, muts, passed, ticks>>

UpdSwap(u) ==           \* n.policy.Store(&snapshot)
  /\ upd[u].ph = "held"
  /\ pol' = upd[u].new
  /\ upd' = [upd EXCEPT ![u].ph = "swapped"]
  /\ UNCHANGED <<lim, rw, srv, conn, count, req, pool, out, muts, passed, ticks>>

UpdLimiter(u) ==        \* n.rateLimiter.Store(NewRateLimiter(...)) or nil
  /\ upd[u].ph = "swapped"
  /\ lim' = IF pol.rl THEN Fresh ELSE NoLimiter
  /\ passed' = 0
  /\ upd' = [upd EXCEPT ![u].ph = "limset"]
  /\ UNCHANGED <<pol, rw, srv, conn, count, req, pool, out, muts, ticks>>

UpdRelease(u) ==        \* policyRWMu.Unlock(); the call returns
  /\ upd[u].ph = "limset"
  /\ rw' = [rw EXCEPT !.wheld = FALSE]
  /\ upd' = [upd EXCEPT ![u].ph = "returned"]
  /\ UNCHANGED <<pol, lim, srv, conn, count, req, pool, out, muts, passed, ticks>>

-----------------------------------------------------------------------------
(* Operator: Server.Stop                                                     *)

StopBegin ==            \* cancel the context, close the listener: pending connections are never accepted
  /\ WithStop /\ srv = "run"
  /\ \A c \in Conns : conn[c].st # "checked"
  /\ srv' = "stopping"
  /\ conn' = [c \in Conns |-> IF conn[c].st = "syn" THEN [conn[c] EXCEPT !.st = "closed", !.inq = << >>] ELSE conn[c]]
  /\ req' = [k \in Calls |-> IF req[k].st = "sent" /\ conn[req[k].c].st = "syn" THEN [req[k] EXCEPT !.st = "lost"] ELSE req[k]]
  /\ UNCHANGED <<pol, lim, rw, upd, count, pool, out, muts, passed, ticks>>

StopClose(c) ==         \* closeAllConnections: close the socket, unregister
  /\ srv = "stopping" /\ conn[c].st = "open"
  /\ conn' = [conn EXCEPT ![c].st = "dead"]
  /\ count' = count - 1
  /\ UNCHANGED <<pol, lim, rw, upd, srv, req, pool, out, muts, passed, ticks>>

StopReturn ==           \* wg.Wait(): every connection loop has returned
  /\ srv = "stopping" /\ \A c \in Conns : ~Served(c)
  /\ srv' = "stopped"
  /\ UNCHANGED <<pol, lim, rw, upd, conn, count, req, pool, out, muts, passed, ticks>>

-----------------------------------------------------------------------------
ServerStep ==
  \/ \E c \in Conns : AcceptCheck(c) \/ Register(c) \/ ReadCall(c) \/ LoopExit(c) \/ RateLimit(c) \/ WriteReply(c)
                      \/ StopClose(c)
  \/ \E k \in Calls : Submit(k) \/ AuthEarly(k) \/ Admit(k) \/ Auth(k) \/ Dispatch(k) \/ Guard(k) \/ BackendOp(k)
                      \/ Release(k) \/ Return(k)
  \/ WorkerTake \/ StopReturn
  \/ \E u \in Upds : UpdAcquire(u) \/ UpdSwap(u) \/ UpdLimiter(u) \/ UpdRelease(u)
EnvStep ==
  \/ \E c \in Conns, a \in Addrs, lo \in LowPorts : ClientOpen(c, a, lo)
  \/ \E c \in Conns, cls \in Classes, fl \in Flavors : ClientSend(c, cls, fl)
  \/ \E c \in Conns : ClientClose(c) \/ Reap(c)
  \/ \E k \in Calls : Timeout(k)
  \/ \E u \in Upds, np \in NewPolicies : UpdBegin(u, np)
  \/ Tick \/ PoolStop \/ StopBegin
Next == ServerStep \/ EnvStep

Spec == Init /\ [][Next]_vars
\* every step of the server is eventually taken when it stays possible; the environment is free
FairSpec == /\ Spec
            /\ \A c \in Conns : WF_vars(AcceptCheck(c)) /\ WF_vars(Register(c)) /\ WF_vars(ReadCall(c)) /\ WF_vars(LoopExit(c))
                                /\ WF_vars(RateLimit(c)) /\ WF_vars(WriteReply(c)) /\ WF_vars(StopClose(c))
            /\ \A k \in Calls : WF_vars(Submit(k)) /\ WF_vars(AuthEarly(k)) /\ WF_vars(Admit(k)) /\ WF_vars(Auth(k))
                                /\ WF_vars(Dispatch(k)) /\ WF_vars(Guard(k)) /\ WF_vars(BackendOp(k)) /\ WF_vars(Release(k))
                                /\ WF_vars(Return(k))
            /\ WF_vars(WorkerTake) /\ WF_vars(StopReturn)
            /\ \A u \in Upds : WF_vars(UpdAcquire(u)) /\ WF_vars(UpdSwap(u)) /\ WF_vars(UpdLimiter(u)) /\ WF_vars(UpdRelease(u))

-----------------------------------------------------------------------------
(* End-to-end properties.  Each names the listed property it composes.       *)

Rng(s) == {s[i] : i \in DOMAIN s}
Stages == {"new", "sent", "decoded", "submit", "queued", "hc", "hc2", "auth", "wait", "ret", "reply", "replyft", "done", "lost", "dropped"}

TypeOK ==
  /\ count \in 0..Cardinality(Conns)
  /\ \A k \in Calls : req[k].st \in Stages /\ req[k].gate \in Gates \cup {"none", "decode"} /\ req[k].form \in Forms \cup {"none"}
  /\ \A c \in Conns : conn[c].cur \in Calls \cup {0}
  /\ rw.readers \subseteq Calls /\ ~(rw.wheld /\ rw.readers # {})

\* [C14 XID echo, C15 no desynchronisation, and beyond: at most one reply]  every call that got past framing and
\* header decode gets at most one reply, on its own connection, with its XID, and replies are in call order
OneReplyInOrder ==
  \A c \in Conns :
    /\ \A i, j \in DOMAIN out[c] : i < j => out[c][i].xid < out[c][j].xid
    /\ \A i \in DOMAIN out[c] : req[out[c][i].xid].c = c /\ req[out[c][i].xid].st \notin {"new", "sent", "lost"}
\* a call that was never decoded (refused connection, undecodable record, connection gone) is never answered
UndecodedUnanswered ==
  \A k \in Calls : req[k].st \in {"new", "sent", "lost"} => /\ \A c \in Conns : \A i \in DOMAIN out[c] : out[c][i].xid # k
                                                          /\ req[k].bops = 0 /\ req[k].runs = 0
\* [C20 composed] a call that passed the limiter enters HandleCall exactly once, queued or inline
RunsOnce == \A k \in Calls : req[k].runs <= 1 /\ (req[k].st \in {"auth", "wait", "ret"} => req[k].runs = 1)

\* [gate forms] the reply of a call is exactly the form of the gate that decided it
FormMatchesGate ==
  \A c \in Conns : \A i \in DOMAIN out[c] :
    LET k == out[c][i].xid IN req[k].gate \in Gates /\ out[c][i].form = FormOf(req[k].gate, req[k].cls)
\* a refused call causes no backend call at all
\*   [C18/C19: connection-level limiter] [C16: admission during a drain] [C09: authentication]
\*   [RFC 1831 dispatch] [per-operation limiter]
RefusedNoBackend ==
  \A k \in Calls : req[k].gate \in {"rl", "drain", "auth", "prog", "vers", "proc", "oplimit"} => req[k].bops = 0 /\ req[k].g \notin {"guard", "backend"}
\* [C09] whatever the route, backend work happens only for a call the policy it was admitted under lets in,
\* and such a call that is not let in is answered MSG_DENIED
AuthGatesBackend ==
  \A k \in Calls : req[k].snap.v >= 0 /\ ~AuthOK(req[k].snap, AddrOf(k), LowOf(k), req[k].flav)
                   => /\ req[k].bops = 0
                      /\ req[k].form \in {"none", "DENIED"}
\* [C09 connection level] a served connection passed the allow-list check; nothing of a refused one is decoded
\* (a connection is refused by the policy in force when it is accepted: later policies act per request)
\* [C08] no modifying backend call under a read-only policy
ReadOnlyNeverModified == \A k \in Calls : req[k].mops > 0 => ~req[k].snap.ro
ReadOnlyRefused == \A k \in Calls : req[k].gate = "ro" => req[k].mops = 0 /\ req[k].form = "ROFS"
\* [C16] a call admitted under version v performs all its backend calls under v ...
OneVersionPerCall == \A k \in Calls : req[k].seen \subseteq {req[k].snap.v} /\ (req[k].authv >= 0 /\ req[k].snap.v >= 0 => req[k].authv = req[k].snap.v)
\* ... and after the update returned no older-version call is still in the backend
NoStragglers ==
  \A u \in Upds : upd[u].ph = "returned" =>
    \A k \in Calls : req[k].g \in {"dispatch", "guard", "backend", "sent"} => req[k].snap.v >= upd[u].new.v
\* [C17] accounting: connections counted = connections registered and not yet closed, at most MaxConnections,
\* and only counted connections or ones whose socket is already closed are served
Accounting ==
  /\ count = Cardinality({c \in Conns : Counted(c)})
  /\ count <= MaxConn
  /\ srv = "stopped" => count = 0 /\ \A c \in Conns : ~Served(c)
\* [C19] refused traffic does not consume shared capacity: the global bucket is charged exactly by the calls let through
GlobalCharge == lim.on => lim.g + passed = B.g
\* the read lock is held exactly by the admitted calls whose goroutine (or authentication) is still at work
LockMatches == rw.readers = {k \in Calls : req[k].st = "auth" \/ req[k].g \in {"dispatch", "guard", "backend", "sent"}}

\* action properties
\* [C08/C16] the backend is modified only by a call in its handler whose admitted policy is not read-only
MutationsJustified ==
  [][muts' # muts => \E k \in Calls : req[k].g = "backend" /\ Mutating(req[k].cls) /\ (Bug = "ROGuardLate" \/ ~req[k].snap.ro)
                                       /\ req'[k].mops = req[k].mops + 1]_vars
\* beyond the listed properties: what was written on the wire is never taken back or reordered
RepliesAppendOnly == [][\A c \in Conns : Len(out'[c]) >= Len(out[c]) /\ SubSeq(out'[c], 1, Len(out[c])) = out[c]]_vars
\* beyond: the outcome of an answered call is final
AnsweredIsFinal == [][\A k \in Calls : req[k].st = "done" =>
                        /\ req'[k].st = "done" /\ req'[k].form = req[k].form /\ req'[k].gate = req[k].gate
                        /\ req'[k].bops = req[k].bops /\ req'[k].mops = req[k].mops]_vars

\* liveness under fairness
\* every decoded call is eventually answered, or its connection is closed
Answered == \A k \in Calls : (req[k].st = "decoded") ~> (req[k].st \in {"done", "dropped"})
\* an update that began eventually returns [C16 liveness]
UpdateReturns == \A u \in Upds : (upd[u].ph = "waiting") ~> (upd[u].ph = "returned")
\* Stop eventually returns [C17]
StopReturns == (srv = "stopping") ~> (srv = "stopped")
=============================================================================

---------------------------- MODULE PipelineOps ----------------------------
(***************************************************************************)
(* Pure operators of the end-to-end request pipeline of absnfs, shared by   *)
(* the design spec (Pipeline.tla) and the conformance spec                  *)
(* (PipelineTrace.tla):                                                     *)
(*   - classes of calls, derived from the RPC header (ClassOf)              *)
(*   - the decision of every gate as a function of the policy in force      *)
(*   - the reply form every gate prescribes (FormOf) and what that form is  *)
(*     on the wire (WireIs)                                                 *)
(* A policy is a record [v, acl, allowed, secure, ro, rl]:                  *)
(*   v version (number of swaps), acl: allow-list non-empty, allowed: the   *)
(*   set of client addresses on it, secure: privileged source port          *)
(*   required, ro: read-only export, rl: rate limiting enabled.             *)
(***************************************************************************)
EXTENDS Integers, Sequences, FiniteSets

-----------------------------------------------------------------------------
(* Classes of calls                                                          *)

NFS_PROG   == 100003
MOUNT_PROG == 100005

\* NFSv3 procedures that modify the export (every one of them carries the read-only guard, C08)
MutProcs  == {2, 7, 8, 9, 10, 11, 12, 13, 14, 15, 21}
\* NFSv3 procedures that only read
ReadProcs == {1, 3, 4, 5, 6, 16, 17, 18, 19, 20}

\* `large`: the count argument of READ / WRITE exceeds 64 KiB (the per-operation limiter applies)
ClassOf(prog, vers, proc, large) ==
  IF prog = NFS_PROG THEN
       IF vers # 3 THEN "BADVERS"
       ELSE IF proc = 0 THEN "NULL"
       ELSE IF proc = 6 /\ large THEN "BIGREAD"
       ELSE IF proc = 7 /\ large THEN "BIGWRITE"
       ELSE IF proc \in {16, 17} THEN "READDIR"
       ELSE IF proc \in ReadProcs THEN "GET"
       ELSE IF proc \in MutProcs THEN "MUT"
       ELSE "BADPROC"
  ELSE IF prog = MOUNT_PROG THEN
       IF vers \notin {1, 3} THEN "BADVERS"
       ELSE IF proc = 0 THEN "MNULL"
       ELSE IF proc = 1 THEN (IF vers = 3 THEN "MNT" ELSE "MNT1")
       ELSE IF proc \in {2, 3, 4, 5} THEN "MOTHER"
       ELSE "BADPROC"
  ELSE "BADPROG"

AllClasses == {"NULL", "GET", "MUT", "BIGREAD", "BIGWRITE", "READDIR", "MNT", "MNT1", "MNULL", "MOTHER",
               "BADPROG", "BADVERS", "BADPROC", "GARBAGE"}

Mutating(cls) == cls \in {"MUT", "BIGWRITE"}
\* the per-operation bucket a class is charged to ("none": not limited per operation)
OpType(cls) == CASE cls = "BIGREAD"  -> "read_large"
                 [] cls = "BIGWRITE" -> "write_large"
                 [] cls = "READDIR"  -> "readdir"
                 [] cls \in {"MNT", "MNT1"} -> "mount"
                 [] OTHER -> "none"
OpTypes == {"read_large", "write_large", "readdir", "mount"}
\* classes whose result starts with an nfsstat3 in the failure shape of the procedure
StatusNFS(cls) == cls \in {"GET", "MUT", "BIGREAD", "BIGWRITE", "READDIR"}
\* classes the dispatcher refuses
Undispatched(cls) == cls \in {"BADPROG", "BADVERS", "BADPROC"}
\* classes whose handler may call the backend at all
MayCallBackend(cls) == cls \in {"GET", "MUT", "BIGREAD", "BIGWRITE", "READDIR", "MNT", "MNT1"}

-----------------------------------------------------------------------------
(* Gates                                                                     *)

\* C09, connection level (server.go acceptLoop / isIPAllowed) and request level (auth.go step 1)
AddrAllowed(pol, addr) == ~pol.acl \/ addr \in pol.allowed
\* C09 + C10 entry: auth.go ValidateAuthentication steps 1-3 on the policy snapshot of the request
AuthOK(pol, addr, lowport, flav) ==
  /\ AddrAllowed(pol, addr)
  /\ (pol.secure => lowport)
  /\ flav \in {"NONE", "SYS"}

Gates == {"rl", "drain", "auth", "prog", "vers", "proc", "ro", "oplimit", "handler"}
\* the gates that refuse a call
Refusing == Gates \ {"handler"}

\* the reply form a gate prescribes for a call of class cls
\*   (C18/C19: rate-limit refusal = MSG_DENIED; C16: retry-later in the failure shape of the procedure;
\*    C09: MSG_DENIED; RFC 1831: PROG_UNAVAIL / PROG_MISMATCH / PROC_UNAVAIL; C08: NFS3ERR_ROFS)
FormOf(gate, cls) ==
  CASE gate \in {"rl", "auth"} -> "DENIED"
    [] gate = "drain"   -> IF StatusNFS(cls) THEN "JUKEBOX" ELSE IF cls = "MNT" THEN "SERVERFAULT" ELSE "SYSTEM_ERR"
    [] gate = "prog"    -> "PROG_UNAVAIL"
    [] gate = "vers"    -> "PROG_MISMATCH"
    [] gate = "proc"    -> "PROC_UNAVAIL"
    [] gate = "ro"      -> "ROFS"
    [] gate = "oplimit" -> IF cls \in {"MNT", "MNT1"} THEN "SERVERFAULT" ELSE "JUKEBOX"
    [] gate = "handler" -> IF cls \in {"NULL", "MNULL"} THEN "VOID" ELSE "RESULT"
Forms == {"DENIED", "JUKEBOX", "SERVERFAULT", "SYSTEM_ERR", "PROG_UNAVAIL", "PROG_MISMATCH", "PROC_UNAVAIL", "ROFS", "VOID", "RESULT"}

\* the gate of the dispatcher for a class (after authentication)
DispatchGate(cls) == CASE cls = "BADPROG" -> "prog" [] cls = "BADVERS" -> "vers" [] cls = "BADPROC" -> "proc" [] OTHER -> "handler"

-----------------------------------------------------------------------------
(* Reply forms on the wire.  rep = [kind, accept, status, shape]:           *)
(*   kind   "none" (no reply record) | "denied" (MSG_DENIED) | "accepted"   *)
(*   accept accept_stat (0 SUCCESS 1 PROG_UNAVAIL 2 PROG_MISMATCH           *)
(*          3 PROC_UNAVAIL 4 GARBAGE_ARGS 5 SYSTEM_ERR), -1 if not accepted *)
(*   status first word of the result (nfsstat3 / mountstat3), -1 if none    *)
(*   shape  the result decodes exactly as the result type of the procedure  *)
(*          for that status (harness's schema interpreter, see C14)         *)

NFS3ERR_ROFS == 30
NFS3ERR_JUKEBOX == 10008
MNT3ERR_SERVERFAULT == 10006

WireIs(form, rep) ==
  CASE form = "DENIED"        -> rep.kind = "denied"
    [] form = "PROG_UNAVAIL"  -> rep.kind = "accepted" /\ rep.accept = 1
    [] form = "PROG_MISMATCH" -> rep.kind = "accepted" /\ rep.accept = 2
    [] form = "PROC_UNAVAIL"  -> rep.kind = "accepted" /\ rep.accept = 3
    [] form = "SYSTEM_ERR"    -> rep.kind = "accepted" /\ rep.accept = 5
    [] form = "JUKEBOX"       -> rep.kind = "accepted" /\ rep.accept = 0 /\ rep.status = NFS3ERR_JUKEBOX /\ rep.shape
    [] form = "SERVERFAULT"   -> rep.kind = "accepted" /\ rep.accept = 0 /\ rep.status = MNT3ERR_SERVERFAULT /\ rep.shape
    [] form = "ROFS"          -> rep.kind = "accepted" /\ rep.accept = 0 /\ rep.status = NFS3ERR_ROFS /\ rep.shape
    [] form = "VOID"          -> rep.kind = "accepted" /\ rep.accept = 0 /\ rep.status = -1 /\ rep.shape
    [] form = "RESULT"        -> rep.kind = "accepted" /\ rep.accept = 0 /\ rep.shape
\* C08 states "the request fails and the export is not modified": any failure status is accepted at the
\* ideal level, NFS3ERR_ROFS is what the implementation is modelled to send (a difference is drift)
WireRefusesRO(rep) == rep.kind = "accepted" /\ rep.accept = 0 /\ rep.status > 0 /\ rep.shape

-----------------------------------------------------------------------------
(* Token buckets at the grain of the pipeline: integer tokens, no refill     *)
(* between clock ticks, a tick refills every bucket (specs/RateLimiter has  *)
(* the arithmetic).  A limiter is [on, g, ip, cn, op]: global bucket, per   *)
(* address, per connection, per (address, operation type).  A missing key   *)
(* of ip / cn / op is a full bucket.                                        *)

Get(f, k, full) == IF k \in DOMAIN f THEN f[k] ELSE full
Put(f, k, v) == [x \in DOMAIN f \cup {k} |-> IF x = k THEN v ELSE f[x]]

\* server.go handleConnectionLoop -> RateLimiter.AllowRequest(ip, connID): per connection, then per
\* address, then global; a refusing bucket is not charged, the buckets before it are (C19 after F11)
\* B = [cn, ip, g] burst sizes.  Result: [ok, lim].
AllowRequest(lim, B, addr, c) ==
  LET cn == Get(lim.cn, c, B.cn)   ip == Get(lim.ip, addr, B.ip) IN
  IF cn = 0 THEN [ok |-> FALSE, lim |-> lim]
  ELSE LET l1 == [lim EXCEPT !.cn = Put(lim.cn, c, cn - 1)] IN
       IF ip = 0 THEN [ok |-> FALSE, lim |-> l1]
       ELSE LET l2 == [l1 EXCEPT !.ip = Put(l1.ip, addr, ip - 1)] IN
            IF l2.g = 0 THEN [ok |-> FALSE, lim |-> l2]
            ELSE [ok |-> TRUE, lim |-> [l2 EXCEPT !.g = @ - 1]]

\* handlers -> RateLimiter.AllowOperation(ip, opType); OB[ot] = burst of the operation type
AllowOperation(lim, OB, addr, ot) ==
  LET k == <<addr, ot>>   n == Get(lim.op, k, OB[ot]) IN
  IF n = 0 THEN [ok |-> FALSE, lim |-> lim]
  ELSE [ok |-> TRUE, lim |-> [lim EXCEPT !.op = Put(lim.op, k, n - 1)]]

FreshLimiter(B) == [on |-> TRUE, g |-> B.g, ip |-> << >>, cn |-> << >>, op |-> << >>]
NoLimiter == [on |-> FALSE, g |-> 0, ip |-> << >>, cn |-> << >>, op |-> << >>]
=============================================================================

----------------------------- MODULE MCPipeline -----------------------------
(***************************************************************************)
(* Model values for the exhaustive runs of Pipeline.tla: a menu of policies *)
(* and bucket sizes the generated .cfg files choose from (checks/PIPELINE.py*)
(* writes the .cfg files; measured state counts are recorded there).        *)
(***************************************************************************)
EXTENDS Pipeline

Pol(acl, secure, ro, rl) == [v |-> 0, acl |-> acl, allowed |-> {"a"}, secure |-> secure, ro |-> ro, rl |-> rl]

\* initial policies
POpenRL   == Pol(FALSE, FALSE, FALSE, TRUE)    \* everybody, read-write, rate limiting on
POpen     == Pol(FALSE, FALSE, FALSE, FALSE)
PReadOnly == Pol(FALSE, FALSE, TRUE, TRUE)
PAclRL    == Pol(TRUE, FALSE, FALSE, TRUE)

\* sets of policies an update may install
NPStrict  == {Pol(TRUE, TRUE, TRUE, TRUE)}                      \* allow-list + secure port + read-only + fresh limiter
NPTwo     == {Pol(TRUE, TRUE, TRUE, TRUE), Pol(FALSE, FALSE, FALSE, FALSE)}
NPReadOnly == {Pol(FALSE, FALSE, TRUE, FALSE)}
NPNone    == {}

\* bucket sizes
BTiny  == [cn |-> 1, ip |-> 2, g |-> 2]
BSmall == [cn |-> 2, ip |-> 2, g |-> 3]
=============================================================================

--------------------------- MODULE PipelineTrace ---------------------------
(***************************************************************************)
(* Conformance of recorded executions of the REAL server (harness/          *)
(* vf_pipeline.go: Server.Listen, real TCP clients) with the stage rules of *)
(* specs/Pipeline.  One ndjson line per step of a history:                  *)
(*   reset   configuration: mode ("seq" one step at a time | "conc" clients *)
(*           and an updater running freely), MaxConnections, bucket sizes,  *)
(*           policy version 0                                               *)
(*   open    a client connected from addr / a privileged or unprivileged    *)
(*           port: accepted (cm.accept seen, with connCount), rejected      *)
(*           (cm.reject), or closed without either (allow-list)             *)
(*   call    one call: class (from program / version / procedure), the      *)
(*           credential class, the reply form, how many reply records       *)
(*           carried its XID and where, the backend calls made for it, the  *)
(*           vhook events of its XID, the admitted policy version           *)
(*   update  UpdatePolicyOptions: the new policy, whether it was accepted   *)
(*   tick / poolstop / stop / idle / close   environment steps              *)
(*   end     what was left over: replies nobody asked for, unattributed     *)
(*           backend calls, the whole sequence of cm.* events               *)
(* Every step carries invocation and response stamps (inv, res) of one      *)
(* global counter.  A policy version v can be in force from the invocation  *)
(* of the update that installs it to the response of the next update; a     *)
(* step is judged against the versions that can be in force during its      *)
(* interval (in a sequential history that is exactly one).  An admitted     *)
(* call carries its version (hc.admit) and is judged under exactly that.    *)
(*                                                                         *)
(*   bad    a step no stage rule explains (verdict; each reason names the   *)
(*          listed property it composes, or "beyond")                       *)
(*   dev    steps only a listed known deviation explains (none at present)  *)
(*   drift  differences at the level of the implementation model only       *)
(*          (exact status of a read-only refusal, bucket contents, order of *)
(*          update hooks); never a verdict                                  *)
(***************************************************************************)
EXTENDS PipelineOps, TLC, Json, IOUtils

CONSTANTS KnownDeviations

TraceLog == ndJsonDeserialize(IOEnv.VF_TRACE)
N == Len(TraceLog)

VARIABLES l,       \* next line
          hs, he,  \* first and last line of the current history
          lim,     \* sequential histories: reference limiter (ghost)
          bad, dev, drift, stats
vars == <<l, hs, he, lim, bad, dev, drift, stats>>

Rng(s) == {s[i] : i \in DOMAIN s}
Cur == TraceLog[l]
Hd == TraceLog[hs]                      \* the reset line of the current history
Hist == hs..he
IsSeq == Hd.mode = "seq"
BB == [cn |-> Hd.b.cn, ip |-> Hd.b.ip, g |-> Hd.b.g]
OBB == [ot \in OpTypes |-> Hd.ob[ot]]
Inf == 1000000000

PolRec(p, v) == [v |-> v, acl |-> Len(p.allowed) > 0, allowed |-> Rng(p.allowed), secure |-> p.secure, ro |-> p.ro, rl |-> p.rl]
OkUpd == {i \in Hist : TraceLog[i].ev = "update" /\ TraceLog[i].ok}
Versions == {0} \cup {TraceLog[i].pol.lab : i \in OkUpd}
UpdLine(v) == CHOOSE i \in OkUpd : TraceLog[i].pol.lab = v
PolOf(v) == IF v = 0 THEN PolRec(Hd.pol, 0) ELSE PolRec(TraceLog[UpdLine(v)].pol, v)
StartOf(v) == IF v = 0 THEN 0 ELSE TraceLog[UpdLine(v)].inv
EndOf(v) == IF v + 1 \in Versions THEN TraceLog[UpdLine(v + 1)].res ELSE Inf
\* the versions that can be in force at some moment of the interval [a, b]
Cands(a, b) == {v \in Versions : StartOf(v) <= b /\ a <= EndOf(v)}
CandsOf(e) == Cands(e.inv, e.res)
\* an accepted update whose drain can overlap the interval
DrainPossible(e) == \E i \in OkUpd : TraceLog[i].inv <= e.res /\ e.inv <= TraceLog[i].res

Calls == {i \in Hist : TraceLog[i].ev = "call"}
ClassOfLine(e) == IF e.garbage THEN "GARBAGE" ELSE ClassOf(e.prog, e.vers, e.proc, e.large)
OpenOf(c) == {i \in Hist : TraceLog[i].ev = "open" /\ TraceLog[i].c = c}
Accepted(c) == \E i \in OpenOf(c) : TraceLog[i].accepted
\* an undecodable record earlier on the same connection ended it
GarbageBefore(e) == \E i \in Calls : TraceLog[i].c = e.c /\ TraceLog[i].garbage /\ TraceLog[i].sidx < e.sidx
StoppedBefore(e) == \E i \in Hist : TraceLog[i].ev = "stop" /\ TraceLog[i].res < e.inv
ReapedAway(e) == e.reaped /\ e.rep.kind = "none"
\* the connection loop reads this call and decodes its header
Decoded(e) == Accepted(e.c) /\ ~e.garbage /\ ~GarbageBefore(e) /\ ~StoppedBefore(e) /\ ~ReapedAway(e)

Count(s, x) == Cardinality({i \in DOMAIN s : s[i] = x})
NAdm(e) == Count(e.hooks, "hc.admit")
NJuk(e) == Count(e.hooks, "hc.jukebox")
Passed(e) == NAdm(e) + NJuk(e) > 0                     \* went past the connection-level limiter
RetryCode(cls) == IF cls \in {"MNT", "MNT1"} THEN MNT3ERR_SERVERFAULT ELSE NFS3ERR_JUKEBOX
AuthOKLine(e, P) == AuthOK(P, e.addr, e.low, e.flav)
\* the call went past the per-operation limiter of its class (it was charged there)
ChargedOp(e) == LET cls == ClassOfLine(e) IN
  /\ Decoded(e) /\ NAdm(e) = 1 /\ e.admv \in Versions
  /\ AuthOKLine(e, PolOf(e.admv)) /\ ~(Mutating(cls) /\ PolOf(e.admv).ro)
  /\ e.rep.kind = "accepted" /\ e.rep.accept = 0 /\ e.rep.status # RetryCode(cls)

If(c, w) == IF c THEN {w} ELSE {}

-----------------------------------------------------------------------------
(* Connection-level limiter                                                  *)

\* sequential: the exact decision of the reference buckets under the policy in force
CurV(e) == CHOOSE v \in CandsOf(e) : TRUE
SeqRL(e) == IF lim.on /\ PolOf(CurV(e)).rl THEN AllowRequest(lim, BB, e.addr, e.c) ELSE [ok |-> TRUE, lim |-> lim]

\* concurrent: how many other calls can / must have been charged before this one under limiter v
Others(e, P(_)) == Cardinality({i \in Calls \ {l} : P(TraceLog[i])})
CanCharge(e, v, same(_)) == Others(e, LAMBDA d : Decoded(d) /\ same(d) /\ d.inv < e.res /\ v \in CandsOf(d))
MustCharge(e, v, same(_)) == Others(e, LAMBDA d : Decoded(d) /\ same(d) /\ Passed(d) /\ d.res < e.inv /\ CandsOf(d) = {v})
RefusalPossible(e) ==
  \E v \in CandsOf(e) : /\ PolOf(v).rl
                        /\ \/ CanCharge(e, v, LAMBDA d : d.c = e.c) >= BB.cn
                           \/ CanCharge(e, v, LAMBDA d : d.addr = e.addr) >= BB.ip
                           \/ CanCharge(e, v, LAMBDA d : TRUE) >= BB.g
RefusalCertain(e) ==
  /\ Cardinality(CandsOf(e)) = 1
  /\ LET v == CurV(e) IN
     /\ PolOf(v).rl
     /\ \/ MustCharge(e, v, LAMBDA d : d.c = e.c) >= BB.cn
        \/ MustCharge(e, v, LAMBDA d : d.addr = e.addr) >= BB.ip
        \/ MustCharge(e, v, LAMBDA d : TRUE) >= BB.g

\* per-operation limiter, concurrent histories: under the admitted version v exactly
OpCan(e, v, ot) == Others(e, LAMBDA d : Decoded(d) /\ d.addr = e.addr /\ OpType(ClassOfLine(d)) = ot /\ d.admv = v /\ d.inv < e.res)
OpMust(e, v, ot) == Others(e, LAMBDA d : ChargedOp(d) /\ d.addr = e.addr /\ OpType(ClassOfLine(d)) = ot /\ d.admv = v /\ d.res < e.inv)

-----------------------------------------------------------------------------
(* One call.  Result: [bad, drift, gate, lim] (lim: the reference limiter    *)
(* after the step; only meaningful in sequential histories)                 *)

R0(gate) == [bad |-> {}, drift |-> {}, gate |-> gate, lim |-> lim]

\* a call that is not decoded: nothing of it may be seen anywhere
Unread(e, gate, what) ==
  [R0(gate) EXCEPT !.bad =
     If(e.rep.kind # "none", "[C15/C09] " \o what \o " was answered")
     \cup If(e.hooks # << >>, "[C15/C09] " \o what \o " reached HandleCall")
     \cup If(e.bcalls.n > 0, "[C15/C09] " \o what \o " caused backend calls")
     \cup If(e.garbage /\ ~e.closed, "[C15] the connection was not closed after an undecodable record")]

Handler(e, cls, P, l0) ==
  \* l0: the reference limiter after the connection-level charge
  LET ot == OpType(cls)
      roRefuse == Mutating(cls) /\ P.ro
      opd == IF ot # "none" /\ P.rl /\ l0.on THEN AllowOperation(l0, OBB, e.addr, ot) ELSE [ok |-> TRUE, lim |-> l0]
      refusedOp == ot # "none" /\ WireIs(FormOf("oplimit", cls), e.rep)
      noBackend == If(e.bcalls.n > 0, "[C18] a call refused by the per-operation limiter caused backend calls")
      served == If(~WireIs(FormOf("handler", cls), e.rep), "[C14] the reply of a handler is not a successful RPC reply carrying a well-formed result of the procedure")
                \cup If(P.ro /\ e.bcalls.mut > 0, "[C08] modifying backend call under a read-only policy")
                \cup If(~MayCallBackend(cls) /\ e.bcalls.n > 0, "[beyond] a procedure that has no business with the backend called it")
  IN
  IF roRefuse
  THEN [bad |-> If(e.bcalls.mut > 0, "[C08] modifying backend call under a read-only policy")
                \cup If(~WireRefusesRO(e.rep), "[C08] a mutating procedure did not fail under a read-only policy"),
        drift |-> If(WireRefusesRO(e.rep) /\ ~WireIs("ROFS", e.rep), "read-only refusal with a status other than NFS3ERR_ROFS"),
        gate |-> "ro", lim |-> l0]
  ELSE IF IsSeq
  THEN IF ~opd.ok
       THEN [bad |-> If(~refusedOp, "[C18] a call beyond the per-operation budget was not refused with the retry-later form of its procedure") \cup noBackend,
             drift |-> {}, gate |-> "oplimit", lim |-> opd.lim]
       ELSE [bad |-> If(refusedOp, "[C18] a call within the per-operation budget (or with rate limiting off) was refused by the per-operation limiter") \cup served,
             drift |-> {}, gate |-> "handler", lim |-> opd.lim]
  ELSE IF refusedOp
       THEN [bad |-> If(~(P.rl /\ OpCan(e, e.admv, ot) >= OBB[ot]), "[C18] per-operation refusal that no possible charge of the bucket explains") \cup noBackend,
             drift |-> {}, gate |-> "oplimit", lim |-> l0]
       ELSE [bad |-> If(ot # "none" /\ P.rl /\ OpMust(e, e.admv, ot) >= OBB[ot], "[C18] a call was let through although its per-operation bucket was certainly empty") \cup served,
             drift |-> {}, gate |-> "handler", lim |-> l0]

Admitted(e, cls, l0) ==
  LET v == e.admv IN
  IF v \notin CandsOf(e)
  THEN [R0("admit") EXCEPT !.bad = {"[C16] admitted under a policy version that was not in force during the call"}, !.lim = l0]
  ELSE
  LET P == PolOf(v)
      common == If(Rng(e.bcalls.vers) \ {v} # {}, "[C16] a backend call of the request ran under another policy version than the one it was admitted under")
  IN
  IF ~AuthOKLine(e, P)
  THEN [bad |-> common \cup If(~WireIs("DENIED", e.rep), "[C09] a request the admitted policy refuses (address, port or flavor) was not answered MSG_DENIED")
                       \cup If(e.bcalls.n > 0, "[C09] a request the admitted policy refuses caused backend calls")
                       \cup If(Count(e.hooks, "hc.release.done") > 0, "[C09] a request the admitted policy refuses reached the dispatcher"),
        drift |-> {}, gate |-> "auth", lim |-> l0]
  ELSE IF e.rep.kind = "denied"
  THEN [bad |-> common \cup {"[C09] a request the admitted policy lets in was answered MSG_DENIED"}, drift |-> {}, gate |-> "auth", lim |-> l0]
  ELSE IF Undispatched(cls)
  THEN [bad |-> common \cup If(~WireIs(FormOf(DispatchGate(cls), cls), e.rep), "[C14] unknown program / version / procedure not answered PROG_UNAVAIL / PROG_MISMATCH / PROC_UNAVAIL")
                       \cup If(e.bcalls.n > 0, "[beyond] a call the dispatcher refuses caused backend calls"),
        drift |-> {}, gate |-> DispatchGate(cls), lim |-> l0]
  ELSE LET h == Handler(e, cls, P, l0) IN [h EXCEPT !.bad = @ \cup common]

Call(e) ==
  LET cls == ClassOfLine(e) IN
  IF e.garbage THEN Unread(e, "decode", "an undecodable record")
  ELSE IF ~Accepted(e.c) THEN Unread(e, "unserved", "a call on a connection that was refused")
  ELSE IF GarbageBefore(e) \/ StoppedBefore(e) \/ ReapedAway(e) THEN Unread(e, "gone", "a call on a connection whose loop has ended")
  ELSE
  LET struct ==
        If(e.nrep = 0, "[C15/beyond] a decodable call on a served connection was neither answered nor was its connection closed by a listed cause")
        \cup If(e.nrep > 1, "[C15] more than one reply for one call")
        \cup If(e.rep.kind = "malformed", "[C14] the reply is not an RFC 1831 reply")
        \cup If(NAdm(e) + NJuk(e) > 1, "[C20] HandleCall was entered more than once for one call")
        \cup If(e.bcalls.n > 0 /\ NAdm(e) = 0, "[C16] backend calls for a request that was never admitted")
        \cup If(\E i \in Calls : TraceLog[i].c = e.c /\ TraceLog[i].sidx < e.sidx /\ TraceLog[i].nrep > 0 /\ e.nrep > 0 /\ TraceLog[i].ridx > e.ridx,
                "[C15] replies on one connection are not in call order")
      rl == IF IsSeq THEN SeqRL(e) ELSE [ok |-> TRUE, lim |-> lim]
  IN
  IF e.nrep = 0 THEN [R0("none") EXCEPT !.bad = struct]
  ELSE IF ~Passed(e)
  THEN \* no HandleCall: only the connection-level limiter answers, with MSG_DENIED
       [bad |-> struct
                \cup If(~WireIs("DENIED", e.rep), "[C16/binding] a reply other than the limiter's MSG_DENIED although HandleCall was never entered")
                \cup If(IsSeq /\ rl.ok /\ WireIs("DENIED", e.rep), "[C18/C19] a call within its connection, address and global budgets was refused")
                \cup If(~IsSeq /\ WireIs("DENIED", e.rep) /\ ~RefusalPossible(e), "[C18/C19] rate-limit refusal that no possible charge of the buckets explains"),
        drift |-> {}, gate |-> "rl", lim |-> rl.lim]
  ELSE
  LET over == If(IsSeq /\ ~rl.ok, "[C18] a call beyond the connection-level budget was let through")
              \cup If(~IsSeq /\ RefusalCertain(e), "[C18] a call was let through although a connection-level bucket was certainly empty")
  IN
  IF NJuk(e) = 1 /\ NAdm(e) = 0
  THEN [bad |-> struct \cup over
                \cup If(~DrainPossible(e), "[C16] retry-later admission refusal while no policy update was in progress")
                \cup If(~WireIs(FormOf("drain", cls), e.rep), "[C16/C14] a call refused during a drain was not answered retry-later in the failure shape of its procedure")
                \cup If(e.bcalls.n > 0, "[C16] a call refused during a drain caused backend calls"),
        drift |-> {}, gate |-> "drain", lim |-> rl.lim]
  ELSE IF NAdm(e) = 1 /\ NJuk(e) = 0
  THEN LET a == Admitted(e, cls, rl.lim) IN [a EXCEPT !.bad = @ \cup struct \cup over]
  ELSE [R0("none") EXCEPT !.bad = struct \cup over, !.lim = rl.lim]

-----------------------------------------------------------------------------
(* The other steps                                                           *)

OpenBad(e) ==
  If(e.accepted /\ ~\E v \in CandsOf(e) : AddrAllowed(PolOf(v), e.addr), "[C09] a connection from an address that is not on the allow-list was accepted")
  \cup If(e.accepted /\ e.count > e.max, "[C17] more connections served than MaxConnections")
  \cup If(e.accepted /\ e.rejected, "[C17] a connection was both registered and rejected")
  \cup If(~e.accepted /\ ~e.closed, "[C17/C09] a connection that was turned away was not closed")
OpenDrift(e) ==
  If(e.rejected /\ e.count < e.max, "a connection was rejected below MaxConnections")
  \cup If(~e.accepted /\ ~e.rejected /\ \A v \in CandsOf(e) : AddrAllowed(PolOf(v), e.addr), "an allowed client was turned away without the limit being reached")

\* the sequence of cm.* events: every accepted connection counted exactly once and uncounted once
CmBad(cm) ==
  LET n == Len(cm)
      cntAfter(i) == cm[i].count
      prev(i) == IF \E j \in 1..(i - 1) : cm[j].ev \in {"cm.accept", "cm.unreg"}
                 THEN cm[CHOOSE j \in 1..(i - 1) : cm[j].ev \in {"cm.accept", "cm.unreg"} /\ \A k \in (j + 1)..(i - 1) : cm[k].ev \notin {"cm.accept", "cm.unreg"}].count
                 ELSE 0
  IN UNION {
       If(cm[i].ev = "cm.accept" /\ cm[i].count # prev(i) + 1, "[C17] an accepted connection was not counted exactly once")
       \cup If(cm[i].ev = "cm.accept" /\ cm[i].count > cm[i].max, "[C17] more connections counted than MaxConnections")
       \cup If(cm[i].ev = "cm.unreg" /\ cm[i].count # prev(i) - 1, "[C17] a connection that ended was not uncounted exactly once")
       \cup If(cm[i].ev = "cm.unreg" /\ \E j \in 1..(i - 1) : cm[j].ev = "cm.unreg" /\ cm[j].c = cm[i].c /\ cm[i].c # 0, "[C17] a connection was uncounted twice")
       \cup If(cm[i].ev = "cm.unreg" /\ cm[i].c # 0 /\ ~\E j \in 1..(i - 1) : cm[j].ev = "cm.accept" /\ cm[j].c = cm[i].c, "[C17] a connection that was never counted was uncounted")
       : i \in 1..n}
     \cup If(\E i \in 1..n : cm[i].ev = "cm.accept" /\ ~\E j \in (i + 1)..n : cm[j].ev = "cm.unreg" /\ cm[j].c = cm[i].c,
             "[C17] a connection that ended was never uncounted")

UpdHooks == <<"up.begin", "up.drained", "up.swapped", "up.limiter", "up.released">>

Keep == 6
Tagged(S) == {[l |-> l, hist |-> Hd.hist, why |-> w] : w \in S}
Fewer(set, w) == Cardinality({x \in set : x.why = w}) < Keep
AddTo(set, S) == set \cup {x \in Tagged(S) : Fewer(set, x.why)}

Counters == {"hist", "hist_seq", "hist_conc", "open", "accepted", "rejected", "turned_away", "call", "update", "tick", "poolstop", "stop", "idle", "close",
             "gate_decode", "gate_unserved", "gate_gone", "gate_rl", "gate_drain", "gate_auth", "gate_prog", "gate_vers", "gate_proc", "gate_ro",
             "gate_oplimit", "gate_handler", "gate_admit", "gate_none", "inline", "worker", "pipelined", "fragmented", "failing_steps", "conc_calls"}
Bump(S) == [k \in Counters |-> stats[k] + (IF k \in S THEN 1 ELSE 0)]

Init == /\ l = 1 /\ hs = 1 /\ he = 1 /\ lim = NoLimiter
        /\ bad = {} /\ dev = {} /\ drift = {}
        /\ stats = [k \in Counters |-> 0]

HistEnd(i) == IF \E j \in (i + 1)..N : TraceLog[j].ev = "reset"
              THEN (CHOOSE j \in (i + 1)..N : TraceLog[j].ev = "reset" /\ \A k \in (i + 1)..(j - 1) : TraceLog[k].ev # "reset") - 1
              ELSE N

StepReset ==
  /\ Cur.ev = "reset"
  /\ hs' = l /\ he' = HistEnd(l)
  /\ lim' = IF Cur.pol.rl THEN FreshLimiter([cn |-> Cur.b.cn, ip |-> Cur.b.ip, g |-> Cur.b.g]) ELSE NoLimiter
  /\ stats' = Bump({"hist", IF Cur.mode = "seq" THEN "hist_seq" ELSE "hist_conc"})
  /\ UNCHANGED <<bad, dev, drift>>

StepCall ==
  /\ Cur.ev = "call"
  /\ LET r == Call(Cur)
         tokDrift == IF IsSeq /\ r.lim.on /\ Decoded(Cur) /\ Cur.nrep > 0 /\ ~Cur.piped
                     THEN If(Cur.tok.g # r.lim.g, "global bucket differs from the reference bucket")
                          \cup If(Cur.tok.ip # -1 /\ Cur.tok.ip # Get(r.lim.ip, Cur.addr, BB.ip), "per-address bucket differs from the reference bucket")
                     ELSE {}
     IN /\ bad' = AddTo(bad, r.bad)
        /\ drift' = AddTo(drift, r.drift \cup tokDrift)
        /\ lim' = IF IsSeq THEN r.lim ELSE lim
        /\ stats' = Bump({"call", "gate_" \o r.gate}
                         \cup If(r.bad # {}, "failing_steps") \cup If(Cur.route = "inline", "inline") \cup If(Cur.route = "worker", "worker")
                         \cup If(Cur.frags > 1, "fragmented") \cup If(~IsSeq, "conc_calls")
                         \cup If(\E i \in Calls \ {l} : TraceLog[i].c = Cur.c /\ TraceLog[i].res > Cur.inv /\ TraceLog[i].inv < Cur.inv, "pipelined"))
  /\ UNCHANGED <<hs, he, dev>>

StepOpen ==
  /\ Cur.ev = "open"
  /\ bad' = AddTo(bad, OpenBad(Cur))
  /\ drift' = AddTo(drift, OpenDrift(Cur))
  /\ stats' = Bump({"open"} \cup If(Cur.accepted, "accepted") \cup If(Cur.rejected, "rejected") \cup If(~Cur.accepted /\ ~Cur.rejected, "turned_away")
                   \cup If(OpenBad(Cur) # {}, "failing_steps"))
  /\ UNCHANGED <<hs, he, lim, dev>>

StepUpdate ==
  /\ Cur.ev = "update"
  /\ LET b == If(Cur.ok /\ Cur.lab # Cur.pol.lab, "[C16] the update returned but the policy in force is not the new one")
              \cup If(~Cur.ok /\ Cur.lab = Cur.pol.lab, "[C16] a rejected update changed the policy in force")
     IN /\ bad' = AddTo(bad, b)
        /\ stats' = Bump({"update"} \cup If(b # {}, "failing_steps"))
  /\ drift' = AddTo(drift, If(Cur.ok /\ Cur.hooks # UpdHooks, "hook events of an accepted update are not begin, drained, swapped, limiter, released"))
  /\ lim' = IF ~Cur.ok THEN lim ELSE IF Cur.pol.rl THEN FreshLimiter(BB) ELSE NoLimiter
  /\ UNCHANGED <<hs, he, dev>>

StepTick ==
  /\ Cur.ev = "tick"
  /\ lim' = IF lim.on THEN FreshLimiter(BB) ELSE lim
  /\ stats' = Bump({"tick"})
  /\ UNCHANGED <<hs, he, bad, dev, drift>>

StepOther ==
  /\ Cur.ev \in {"poolstop", "stop", "idle", "close", "end"}
  /\ LET b == CASE Cur.ev = "stop"  -> If(~Cur.ok, "[C17] Stop did not return in time")
                                        \cup If(~Cur.allclosed, "[C17] a connection was still open after Stop returned")
                                        \cup If(Cur.cnt # 0, "[C17] connections still counted after Stop returned")
                [] Cur.ev = "idle"  -> If(~Cur.reaped \/ ~Cur.closed, "[C17] a connection idle longer than IdleTimeout was not closed")
                [] Cur.ev = "close" -> If(Cur.served /\ ~Cur.unreg, "[C17] a connection that ended was not uncounted")
                [] Cur.ev = "end"   -> If(\E i \in DOMAIN Cur.aliens : Cur.aliens[i].alien > 0, "[C14] a reply whose XID matches no call sent on its connection")
                                        \cup CmBad(Cur.cm)
                                        \cup If(Cur.cnt # 0, "[C17] connections still counted after every connection ended and the server stopped")
                [] OTHER -> {}
         d == IF Cur.ev = "end" THEN If(Cur.stray > 0, "backend calls that belong to no request") ELSE {}
     IN /\ bad' = AddTo(bad, b)
        /\ drift' = AddTo(drift, d)
        /\ stats' = Bump((IF Cur.ev = "end" THEN {} ELSE {Cur.ev}) \cup If(b # {}, "failing_steps"))
  /\ UNCHANGED <<hs, he, lim, dev>>

Step == /\ l <= N
        /\ l' = l + 1
        /\ StepReset \/ StepCall \/ StepOpen \/ StepUpdate \/ StepTick \/ StepOther

Finish == /\ l = N + 1
          /\ l' = N + 2
          /\ JsonSerialize(IOEnv.VF_RESULT, [n |-> N, consumed |-> l - 1, bad |-> bad, dev |-> dev, drift |-> drift, stats |-> stats])
          /\ UNCHANGED <<hs, he, lim, bad, dev, drift, stats>>

TInit == Init
TNext == Step \/ Finish
=============================================================================

-------------------------- MODULE WorkerPoolGen --------------------------
(***************************************************************************)
(* MBT: TLC generates environment schedules for the real WorkerPool.       *)
(*                                                                         *)
(* The harness (harness/vf_workerpool.go) controls                         *)
(*   - when a call is made (submit k, Stop, Resize),                       *)
(*   - when a goroutine that is parked inside a vhook pause point          *)
(*     (wp.chk; wp.stop.cas, wp.stop.cancelled; wp.rs.begin, wp.rs.drained,*)
(*     wp.rs.swapped, wp.rs.started) is released to run to its next pause  *)
(*     point, and                                                          *)
(*   - when the body of a running task returns (its gate),                 *)
(*   - when real time passes ("sleep": longer than every configured tuning *)
(*     timeout) while a submitter is waiting for its result - in the spec  *)
(*     the passing of time enables nothing but Submit's own 50 ms timer,   *)
(*     so a Tick is a step that changes no variable of WorkerPool; a       *)
(*     submitter that gives up, a task that is dropped or run twice after  *)
(*     such a pause shows in the recorded history,                         *)
(* and it waits for the pool to settle after every such step.  Everything  *)
(* else (workers, receives, released goroutines) happens by itself.  This  *)
(* module restricts WorkerPool to exactly those behaviours: spontaneous    *)
(* steps have priority, environment steps happen only when no spontaneous  *)
(* step is enabled, and `hist` records the environment steps.  With        *)
(* `tlc -simulate` every behaviour is written as one schedule file when it *)
(* reaches depth Depth; with the breadth-first search and DumpOn set the   *)
(* shortest schedule that reaches a violation of the named invariant is    *)
(* written (the directed reproducers of the findings register).            *)
(***************************************************************************)
EXTENDS WorkerPool, Json, IOUtils

CONSTANTS Depth,      \* simulate: dump `hist` at this level
          MinBefore,  \* Stop / Resize are called only after this many submit calls
          DumpOn,     \* "" | "Bounded" | "NoFakeResult" | "NoPanic" | "Resolved": BFS dump mode
          MaxTicks    \* at most this many "time passes" steps per behaviour

VARIABLES relS,   \* submitters released from the wp.chk pause point
          relT,   \* subset of {"stop", "resize"}: released caller goroutines
          hist,   \* environment steps so far
          pad,    \* idle steps after the behaviour has ended (simulate runs to a fixed depth)
          ticks   \* "time passes" steps so far

gvars == <<allvars, relS, relT, hist, pad, ticks>>

Step(a, k, who, n) == [a |-> a, k |-> k, who |-> who, n |-> n]

\* ------------------------------------------------------------ spontaneous steps
KeepS(k) == relS' = relS /\ UNCHANGED <<relT, hist, pad>>
SponSub(k) == \/ k \in relS /\ (SubmitSelect(k) \/ Enqueue(k) \/ SubmitTimeout(k) \/ SubmitPanic(k)) /\ KeepS(k)
              \/ SubRecv(k) /\ KeepS(k)

SponWorker(i) == (WorkerSelect(i) \/ WorkerTake(i) \/ WorkerExitCtx(i) \/ WorkerExitClosed(i) \/ Deliver(i))
                 /\ UNCHANGED <<relS, relT, hist, pad>>

Thread(c) == IF c = "S" THEN "stop" ELSE "resize"
Park(t)   == relT' = relT \ {t} /\ UNCHANGED <<relS, hist, pad>>   \* the step ends at a pause point
Stay      == UNCHANGED <<relS, relT, hist, pad>>

SponStop(c) ==
  /\ Thread(c) \in relT
  /\ \/ StopCancel(c) /\ Park(Thread(c))
     \/ (StopClose(c) \/ StopWait(c) \/ StopDrainOne(c) \/ StopDrainEnd(c)) /\ Stay

SponResize ==
  /\ "resize" \in relT
  /\ \/ StopCAS("R") /\ (IF running = 1 THEN Park("resize") ELSE Stay)
     \/ (ResizeCloseOld \/ ResizeDrainOne \/ ResizeRequeue \/ ResizeFailOne \/ ResizeEnd) /\ Stay
     \/ ResizeDrainEnd /\ Park("resize")
     \/ ResizeSwap /\ Park("resize")
     \/ ResizeRestart /\ Park("resize")

Spon == \/ \E k \in Tasks : SponSub(k)
        \/ \E i \in Workers : SponWorker(i)
        \/ \E c \in Callers : SponStop(c)
        \/ SponResize

\* ------------------------------------------------------------ environment steps
Submitted == Cardinality({k \in Tasks : sub[k] # "idle"})

PausedS(k) == sub[k] = "checked" /\ k \notin relS
PausedT(t) == /\ t \notin relT
              /\ IF t = "stop" THEN stp["S"] \in {"cas", "cancelled"}
                 ELSE rs.ph \notin {"idle", "done", "panic"}

Env ==
  \/ \E k \in Tasks : /\ \A j \in 1..(k - 1) : sub[j] # "idle"
                      /\ SubmitCheck(k)
                      /\ hist' = Append(hist, Step("submit", k, "", 0))
                      /\ UNCHANGED <<relS, relT, pad>>
  \/ /\ Submitted >= MinBefore /\ StopCAS("S")
     /\ hist' = Append(hist, Step("stop", 0, "", 0))
     /\ UNCHANGED <<relS, relT, pad>>
  \/ /\ Submitted >= MinBefore /\ ResizeBegin
     /\ hist' = Append(hist, Step("resize", 0, "", sz[2]))
     /\ UNCHANGED <<relS, relT, pad>>
  \/ \E i \in Workers : /\ ExecDone(i)
                        /\ hist' = Append(hist, Step("open", w[i].t, "", 0))
                        /\ UNCHANGED <<relS, relT, pad>>
  \/ \E k \in Tasks : /\ PausedS(k)
                      /\ relS' = relS \cup {k}
                      /\ hist' = Append(hist, Step("rel", k, "S", 0))
                      /\ UNCHANGED <<vars, relT, pad>>
  \/ \E t \in {"stop", "resize"} : /\ PausedT(t)
                                   /\ relT' = relT \cup {t}
                                   /\ hist' = Append(hist, Step("rel", 0, t, 0))
                                   /\ UNCHANGED <<vars, relS, pad>>

Idle == /\ pad' = pad + 1 /\ UNCHANGED <<vars, relS, relT, hist>>

\* real time passes while somebody waits for a result (a task queued or running behind busy workers)
Tick == /\ ticks < MaxTicks
        /\ \E k \in Tasks : sub[k] = "waiting"
        /\ ticks' = ticks + 1
        /\ hist' = Append(hist, Step("sleep", 0, "", 0))
        /\ UNCHANGED <<vars, relS, relT, pad>>

GenInit == Init /\ relS = {} /\ relT = {} /\ hist = << >> /\ pad = 0 /\ ticks = 0

GenNext == /\ IF ENABLED Spon THEN Spon /\ UNCHANGED ticks
              ELSE IF ENABLED (Env \/ Tick) THEN (Env /\ UNCHANGED ticks) \/ Tick
              ELSE Idle /\ UNCHANGED ticks
           /\ UNCHANGED sz

GenSpec == GenInit /\ [][GenNext]_gvars

\* ------------------------------------------------------------ dumping
Out(tag) == IOEnv.VF_GEN_DIR \o "/sched_" \o tag \o ".json"

\* simulate: every behaviour ends here
DumpAtDepth ==
  TLCGet("level") < Depth
  \/ JsonSerialize(Out(ToString(TLCGet("stats").traces)), [w0 |-> sz[1], w1 |-> sz[2], steps |-> hist])

Violated ==
  CASE DumpOn = "Bounded"      -> ~Bounded
    [] DumpOn = "NoFakeResult" -> ~NoFakeResult
    [] DumpOn = "NoPanic"      -> ~NoPanic
    [] DumpOn = "Resolved"     -> /\ ~Resolved                   \* and nothing is parked any more
                                  /\ \A k \in Tasks : ~PausedS(k)
                                  /\ \A t \in {"stop", "resize"} : ~PausedT(t)
    [] OTHER -> FALSE

\* breadth-first: the first (shortest) behaviour that violates DumpOn is written and TLC stops
DumpOnViolation ==
  ~Violated \/ ~JsonSerialize(Out("cex_" \o DumpOn), [w0 |-> sz[1], w1 |-> sz[2], steps |-> hist])

BoundPad == pad <= 1
\* exhaustive dump mode: states that differ only in the recorded history are the same state
NoHist == <<allvars, relS, relT, pad, ticks>>
=============================================================================

---------------------------- MODULE WorkerPool ----------------------------
(***************************************************************************)
(* The worker pool of absnfs (worker_pool.go) with its callers             *)
(* (absnfs.go ExecuteWithWorker, server.go handleConnectionLoop).          *)
(*                                                                         *)
(* Impl level: one action per critical section / channel operation of      *)
(* Submit, SubmitWait, worker, Stop, Resize and Start.  The pool's fields  *)
(* taskQueue/ctx/cancel/maxWorkers are replaced together by Resize; `cur`  *)
(* says which generation (1 = the pool as created, 2 = after the Resize)   *)
(* the fields refer to.  A goroutine blocked in a select has evaluated the *)
(* channel expressions when it entered the select, so workers (`sel`) and  *)
(* submitters (`sq`) carry the generation they latched.                    *)
(*                                                                         *)
(* Threads: one submitter per task (SubmitWait, as ExecuteWithWorker does),*)
(* the workers of both generations, at most one external Stop call ("S")   *)
(* and at most one Resize call, whose inner Stop is caller "R".            *)
(*                                                                         *)
(* Switches (TRUE = repaired behaviour of proposed/F12.patch):             *)
(*   FixDrain  Stop drains the queue it closed and closes the result       *)
(*             channel of every task that will not run           (F12)     *)
(*   FixClose  Resize closes the result channel of a task it cannot        *)
(*             re-enqueue instead of sending nil on it            (F12b)   *)
(*   FixExcl   Stop holds resizeMu, i.e. Stop and Resize exclude each      *)
(*             other                                              (F12c)   *)
(* Ideal level: the invariants and the liveness property at the end are    *)
(* what C20 states.                                                        *)
(***************************************************************************)
EXTENDS Integers, Sequences, FiniteSets, TLC

CONSTANTS NT,          \* number of tasks (= submit calls)
          Sizes,       \* pool sizes explored, coded 10 * (size at creation) + (size requested by Resize):
                       \* {12, 21} = 1 -> 2 and 2 -> 1 workers; every behaviour picks one (variable sz)
          MaxW,        \* at least the largest total number of workers of both generations
          EnvStop,     \* the environment may call Stop once
          EnvResize,   \* the environment may call Resize(sz[2]) once
          FixDrain, FixClose, FixExcl,
          StrictTimer  \* TRUE: Submit's 50 ms timer only fires while the queue is full

Tasks   == 1..NT
Gens    == {1, 2}
VARIABLE sz            \* <<pool size at creation, size requested by Resize>>, constant in a behaviour
Size(g) == sz[g]
Cap(g)  == 2 * Size(g)                 \* make(chan Task, maxWorkers*2)
Workers == 1..MaxW                     \* 1..sz[1] started by Start at creation, the next sz[2] by Resize
GenOf(i) == IF i <= sz[1] THEN 1 ELSE 2
Callers == {"S", "R"}
Max(a, b) == IF a >= b THEN a ELSE b

VARIABLES running,    \* p.running
          cur,        \* generation the fields taskQueue/ctx/cancel/maxWorkers refer to
          q,          \* q[g]: content of the task queue of generation g (task ids)
          closed,     \* closed[g]: that channel has been closed
          cancelled,  \* cancelled[g]: that context has been cancelled
          w,          \* w[i] = [ph, t, sel]: worker goroutines
          sub,        \* sub[k]: submitter of task k
          sq,         \* sq[k]: queue generation submitter k's send is (or was) bound to
          res,        \* res[k]: the task's result channel (capacity 1)
          runs,       \* runs[k]: how often the pool started task k's body
          stp,        \* stp[c]: phase of the Stop call of caller c
          stq,        \* stq[c]: the queue that Stop call closed
          rs,         \* the Resize call: [ph, was, oldq, pend, lost, cold]
          rmu         \* holder of resizeMu: "free" | "S" | "R"

vars == <<running, cur, q, closed, cancelled, w, sub, sq, res, runs, stp, stq, rs, rmu>>

WPhases  == {"none", "loop", "idle", "exec", "deliver", "gone"}
SubPh    == {"idle", "checked", "sending", "waiting", "result", "nil", "notrun", "panic"}
ResPh    == {"empty", "val", "nil", "closed"}
StopPh   == {"idle", "cas", "cancelled", "closed", "waited", "done"}
ResizePh == {"idle", "begun", "closeold", "draining", "drained", "swapped", "requeue", "failing", "done", "panic"}

TypeOK ==
  /\ sz \in [1..2 -> 1..MaxW] /\ sz[1] + sz[2] <= MaxW
  /\ running \in {0, 1} /\ cur \in Gens
  /\ q \in [Gens -> Seq(Tasks)] /\ \A g \in Gens : Len(q[g]) <= Cap(g)
  /\ closed \in [Gens -> BOOLEAN] /\ cancelled \in [Gens -> BOOLEAN]
  /\ w \in [Workers -> [ph : WPhases, t : Tasks \cup {0}, sel : Gens]]
  /\ sub \in [Tasks -> SubPh] /\ sq \in [Tasks -> Gens]
  /\ res \in [Tasks -> ResPh] /\ runs \in [Tasks -> 0..2]
  /\ stp \in [Callers -> StopPh] /\ stq \in [Callers -> Gens]
  /\ rs \in [ph : ResizePh, was : BOOLEAN, oldq : Gens, pend : Seq(Tasks), lost : BOOLEAN, cold : BOOLEAN]
  /\ rmu \in {"free", "S", "R"}

Init ==
  /\ sz \in {<<s \div 10, s % 10>> : s \in Sizes}
  /\ running = 1 /\ cur = 1          \* NewWorkerPool(sz[1]) + Start()
  /\ q = [g \in Gens |-> << >>]
  /\ closed = [g \in Gens |-> FALSE] /\ cancelled = [g \in Gens |-> FALSE]
  /\ w = [i \in Workers |-> IF GenOf(i) = 1 THEN [ph |-> "idle", t |-> 0, sel |-> 1]
                                             ELSE [ph |-> "none", t |-> 0, sel |-> 2]]
  /\ sub = [k \in Tasks |-> "idle"] /\ sq = [k \in Tasks |-> 1]
  /\ res = [k \in Tasks |-> "empty"] /\ runs = [k \in Tasks |-> 0]
  /\ stp = [c \in Callers |-> "idle"] /\ stq = [c \in Callers |-> 1]
  /\ rs = [ph |-> "idle", was |-> FALSE, oldq |-> 1, pend |-> << >>, lost |-> FALSE, cold |-> FALSE]
  /\ rmu = "free"

-----------------------------------------------------------------------------
(* Submit / SubmitWait (one goroutine per task)                            *)

NoSending == \A k \in Tasks : sub[k] \notin {"checked", "sending"}     \* nobody holds closeMu.RLock

\* closeMu.RLock(); atomic.LoadInt32(&p.running).  (Taking the read lock as late as the
\* load only removes behaviours in which the lock blocks somebody else, so one action
\* is enough.)
SubmitCheck(k) ==
  /\ sub[k] = "idle"
  /\ sub' = [sub EXCEPT ![k] = IF running = 0 THEN "notrun" ELSE "checked"]     \* "notrun": return nil
  /\ UNCHANGED <<running, cur, q, closed, cancelled, w, sq, res, runs, stp, stq, rs, rmu>>

\* the result channel, the task and the timer are made; entering the send/timer select
\* evaluates p.taskQueue: from here on the send is bound to that channel
SubmitSelect(k) ==
  /\ sub[k] = "checked"
  /\ sub' = [sub EXCEPT ![k] = "sending"] /\ sq' = [sq EXCEPT ![k] = cur]
  /\ UNCHANGED <<running, cur, q, closed, cancelled, w, res, runs, stp, stq, rs, rmu>>

\* case p.taskQueue <- task: return resultChan; SubmitWait then blocks on it
Enqueue(k) ==
  /\ sub[k] = "sending" /\ ~closed[sq[k]] /\ Len(q[sq[k]]) < Cap(sq[k])
  /\ q' = [q EXCEPT ![sq[k]] = Append(@, k)]
  /\ sub' = [sub EXCEPT ![k] = "waiting"]
  /\ UNCHANGED <<running, cur, closed, cancelled, w, sq, res, runs, stp, stq, rs, rmu>>

\* case <-timer.C: close(resultChan); return nil
SubmitTimeout(k) ==
  /\ sub[k] = "sending" /\ ~closed[sq[k]]
  /\ StrictTimer => Len(q[sq[k]]) = Cap(sq[k])
  /\ sub' = [sub EXCEPT ![k] = "notrun"]
  /\ UNCHANGED <<running, cur, q, closed, cancelled, w, sq, res, runs, stp, stq, rs, rmu>>

\* a send on a closed channel panics (also a send that is already blocked)
SubmitPanic(k) ==
  /\ sub[k] = "sending" /\ closed[sq[k]]
  /\ sub' = [sub EXCEPT ![k] = "panic"]
  /\ UNCHANGED <<running, cur, q, closed, cancelled, w, sq, res, runs, stp, stq, rs, rmu>>

\* result, ok := <-resultChan.  ok = FALSE ("notrun"): ExecuteWithWorker runs the task itself.
\* There is no other way out of the wait: no timer, no timeout of the tuning options; a submitter
\* that gave up while its task is still queued or running would make NotRunIsTrue false.
SubRecv(k) ==
  /\ sub[k] = "waiting" /\ res[k] # "empty"
  /\ sub' = [sub EXCEPT ![k] = CASE res[k] = "val" -> "result"
                                 [] res[k] = "nil" -> "nil"
                                 [] OTHER -> "notrun"]
  /\ UNCHANGED <<running, cur, q, closed, cancelled, w, sq, res, runs, stp, stq, rs, rmu>>

-----------------------------------------------------------------------------
(* worker(id)                                                              *)

\* top of the for loop: the select evaluates p.ctx.Done() and p.taskQueue
WorkerSelect(i) ==
  /\ w[i].ph = "loop"
  /\ w' = [w EXCEPT ![i] = [ph |-> "idle", t |-> 0, sel |-> cur]]
  /\ UNCHANGED <<running, cur, q, closed, cancelled, sub, sq, res, runs, stp, stq, rs, rmu>>

\* case task, ok := <-p.taskQueue (ok): activeWorkers++ and the body starts.
\* A closed channel still yields its buffered items; the select picks at random
\* when the context is cancelled as well.
WorkerTake(i) ==
  /\ w[i].ph = "idle" /\ q[w[i].sel] # << >>
  /\ LET k == Head(q[w[i].sel]) IN
       /\ q' = [q EXCEPT ![w[i].sel] = Tail(@)]
       /\ w' = [w EXCEPT ![i].ph = "exec", ![i].t = k]
       /\ runs' = [runs EXCEPT ![k] = IF @ < 2 THEN @ + 1 ELSE @]
  /\ UNCHANGED <<running, cur, closed, cancelled, sub, sq, res, stp, stq, rs, rmu>>

WorkerExitCtx(i) ==
  /\ w[i].ph = "idle" /\ cancelled[w[i].sel]
  /\ w' = [w EXCEPT ![i].ph = "gone"]
  /\ UNCHANGED <<running, cur, q, closed, cancelled, sub, sq, res, runs, stp, stq, rs, rmu>>

WorkerExitClosed(i) ==
  /\ w[i].ph = "idle" /\ closed[w[i].sel] /\ q[w[i].sel] = << >>
  /\ w' = [w EXCEPT ![i].ph = "gone"]
  /\ UNCHANGED <<running, cur, q, closed, cancelled, sub, sq, res, runs, stp, stq, rs, rmu>>

\* the task body returns (environment: the harness opens the task's gate); activeWorkers--
ExecDone(i) ==
  /\ w[i].ph = "exec"
  /\ w' = [w EXCEPT ![i].ph = "deliver"]
  /\ UNCHANGED <<running, cur, q, closed, cancelled, sub, sq, res, runs, stp, stq, rs, rmu>>

\* select { case task.ResultChan <- result: default: }
Deliver(i) ==
  /\ w[i].ph = "deliver"
  /\ res' = [res EXCEPT ![w[i].t] = IF @ = "empty" THEN "val" ELSE @]
  /\ w' = [w EXCEPT ![i].ph = "loop", ![i].t = 0]
  /\ UNCHANGED <<running, cur, q, closed, cancelled, sub, sq, runs, stp, stq, rs, rmu>>

-----------------------------------------------------------------------------
(* Stop, called by the environment (c = "S") or by Resize (c = "R")        *)

WgZero == \A i \in Workers : w[i].ph \in {"none", "gone"}

StopReturn(c) ==   \* effect of the Stop call of caller c returning
  /\ stp' = [stp EXCEPT ![c] = "done"]
  /\ rmu' = IF c = "S" /\ rmu = "S" THEN "free" ELSE rmu
  /\ rs' = IF c = "R" THEN [rs EXCEPT !.ph = "draining", !.lost = (stp["R"] = "idle")] ELSE rs

\* atomic.CompareAndSwapInt32(&p.running, 1, 0); the repaired Stop takes resizeMu first
StopCAS(c) ==
  /\ stp[c] = "idle"
  /\ IF c = "S" THEN EnvStop /\ (FixExcl => rmu = "free") ELSE rs.ph = "begun"
  /\ IF running = 1
       THEN /\ running' = 0
            /\ stp' = [stp EXCEPT ![c] = "cas"]
            /\ rmu' = IF c = "S" /\ FixExcl THEN "S" ELSE rmu
            /\ UNCHANGED rs
       ELSE StopReturn(c) /\ UNCHANGED running           \* "Not running": return at once
  /\ UNCHANGED <<cur, q, closed, cancelled, w, sub, sq, res, runs, stq>>

StopCancel(c) ==   \* p.cancel()
  /\ stp[c] = "cas"
  /\ cancelled' = [cancelled EXCEPT ![cur] = TRUE]
  /\ stp' = [stp EXCEPT ![c] = "cancelled"]
  /\ UNCHANGED <<running, cur, q, closed, w, sub, sq, res, runs, stq, rs, rmu>>

StopClose(c) ==    \* closeMu.Lock(); close(p.taskQueue) (recover); closeMu.Unlock()
  /\ stp[c] = "cancelled" /\ NoSending
  /\ closed' = [closed EXCEPT ![cur] = TRUE]
  /\ stq' = [stq EXCEPT ![c] = cur]
  /\ stp' = [stp EXCEPT ![c] = "closed"]
  /\ UNCHANGED <<running, cur, q, cancelled, w, sub, sq, res, runs, rs, rmu>>

StopWait(c) ==     \* p.wg.Wait()
  /\ stp[c] = "closed" /\ WgZero
  /\ IF FixDrain /\ c = "S"
       THEN stp' = [stp EXCEPT ![c] = "waited"] /\ UNCHANGED <<rs, rmu>>
       ELSE StopReturn(c)
  /\ UNCHANGED <<running, cur, q, closed, cancelled, w, sub, sq, res, runs, stq>>

\* repaired Stop only: for task := range queue { close(task.ResultChan) }
StopDrainOne(c) ==
  /\ stp[c] = "waited" /\ q[stq[c]] # << >>
  /\ LET k == Head(q[stq[c]]) IN
       /\ q' = [q EXCEPT ![stq[c]] = Tail(@)]
       /\ res' = [res EXCEPT ![k] = IF @ = "empty" THEN "closed" ELSE @]
  /\ UNCHANGED <<running, cur, closed, cancelled, w, sub, sq, runs, stp, stq, rs, rmu>>

StopDrainEnd(c) ==
  /\ stp[c] = "waited" /\ q[stq[c]] = << >>
  /\ StopReturn(c)
  /\ UNCHANGED <<running, cur, q, closed, cancelled, w, sub, sq, res, runs, stq>>

-----------------------------------------------------------------------------
(* Resize(sz[2])                                                           *)

FailValue == IF FixClose THEN "closed" ELSE "nil"    \* task.ResultChan <- nil

\* resizeMu.Lock(); wasRunning := running == 1; oldQueue := p.taskQueue
ResizeBegin ==
  /\ rs.ph = "idle" /\ EnvResize /\ rmu = "free"
  /\ rmu' = "R"
  /\ rs' = [ph |-> IF running = 1 THEN "begun" ELSE "closeold", was |-> (running = 1),
            oldq |-> cur, pend |-> << >>,
            lost |-> FALSE,     \* ghost: the inner Stop lost the CAS to a concurrent Stop (set by StopReturn)
            cold |-> running = 0 /\ stp["S"] \notin {"idle", "done"}]   \* ghost: not running because a Stop is in progress
  /\ UNCHANGED <<running, cur, q, closed, cancelled, w, sub, sq, res, runs, stp, stq>>

\* !wasRunning: close(oldQueue) under recover() -- without closeMu
ResizeCloseOld ==
  /\ rs.ph = "closeold"
  /\ closed' = [closed EXCEPT ![rs.oldq] = TRUE]
  /\ rs' = [rs EXCEPT !.ph = "draining"]
  /\ UNCHANGED <<running, cur, q, cancelled, w, sub, sq, res, runs, stp, stq, rmu>>

\* for task := range oldQueue { pendingTasks = append(pendingTasks, task) }
ResizeDrainOne ==
  /\ rs.ph = "draining" /\ q[rs.oldq] # << >>
  /\ rs' = [rs EXCEPT !.pend = Append(@, Head(q[rs.oldq]))]
  /\ q' = [q EXCEPT ![rs.oldq] = Tail(@)]
  /\ UNCHANGED <<running, cur, closed, cancelled, w, sub, sq, res, runs, stp, stq, rmu>>

ResizeDrainEnd ==     \* the range loop ends when the channel is closed and empty
  /\ rs.ph = "draining" /\ q[rs.oldq] = << >> /\ closed[rs.oldq]
  /\ rs' = [rs EXCEPT !.ph = "drained"]
  /\ UNCHANGED <<running, cur, q, closed, cancelled, w, sub, sq, res, runs, stp, stq, rmu>>

\* p.maxWorkers, p.taskQueue, p.ctx, p.cancel = new ones; activeWorkers = 0
ResizeSwap ==
  /\ rs.ph = "drained"
  /\ cur' = 2
  /\ rs' = [rs EXCEPT !.ph = IF rs.was THEN "swapped" ELSE "failing"]
  /\ UNCHANGED <<running, q, closed, cancelled, w, sub, sq, res, runs, stp, stq, rmu>>

\* p.Start(): CAS(&running, 0, 1), wg.Add, go p.worker(i)
ResizeRestart ==
  /\ rs.ph = "swapped"
  /\ IF running = 0
       THEN /\ running' = 1
            /\ w' = [i \in Workers |-> IF GenOf(i) = 2 /\ i <= sz[1] + sz[2] /\ w[i].ph = "none"
                                          THEN [ph |-> "idle", t |-> 0, sel |-> 2] ELSE w[i]]
       ELSE UNCHANGED <<running, w>>
  /\ rs' = [rs EXCEPT !.ph = "requeue"]
  /\ UNCHANGED <<cur, q, closed, cancelled, sub, sq, res, runs, stp, stq, rmu>>

\* select { case p.taskQueue <- task: default: task.ResultChan <- nil }
ResizeRequeue ==
  /\ rs.ph = "requeue" /\ rs.pend # << >>
  /\ LET k == Head(rs.pend) IN
       IF closed[cur]                      \* a concurrent Stop closed the new queue: panic
         THEN /\ rs' = [rs EXCEPT !.ph = "panic"] /\ rmu' = "free"
              /\ UNCHANGED <<q, res>>
       ELSE IF Len(q[cur]) < Cap(cur)
         THEN /\ q' = [q EXCEPT ![cur] = Append(@, k)]
              /\ rs' = [rs EXCEPT !.pend = Tail(@)]
              /\ UNCHANGED <<res, rmu>>
         ELSE /\ res' = [res EXCEPT ![k] = IF @ = "empty" THEN FailValue ELSE @]
              /\ rs' = [rs EXCEPT !.pend = Tail(@)]
              /\ UNCHANGED <<q, rmu>>
  /\ UNCHANGED <<running, cur, closed, cancelled, w, sub, sq, runs, stp, stq>>

\* pool was not running: every drained task is "notified" the same way
ResizeFailOne ==
  /\ rs.ph = "failing" /\ rs.pend # << >>
  /\ res' = [res EXCEPT ![Head(rs.pend)] = IF @ = "empty" THEN FailValue ELSE @]
  /\ rs' = [rs EXCEPT !.pend = Tail(@)]
  /\ UNCHANGED <<running, cur, q, closed, cancelled, w, sub, sq, runs, stp, stq, rmu>>

ResizeEnd ==
  /\ rs.ph \in {"requeue", "failing"} /\ rs.pend = << >>
  /\ rs' = [rs EXCEPT !.ph = "done"] /\ rmu' = "free"
  /\ UNCHANGED <<running, cur, q, closed, cancelled, w, sub, sq, res, runs, stp, stq>>

-----------------------------------------------------------------------------
SubAct(k)  == SubmitSelect(k) \/ Enqueue(k) \/ SubmitTimeout(k) \/ SubmitPanic(k) \/ SubRecv(k)
WorkAct(i) == WorkerSelect(i) \/ WorkerTake(i) \/ WorkerExitCtx(i) \/ WorkerExitClosed(i) \/ Deliver(i)
StopAct(c) == StopCancel(c) \/ StopClose(c) \/ StopWait(c) \/ StopDrainOne(c) \/ StopDrainEnd(c)
ResizeAct  == ResizeCloseOld \/ ResizeDrainOne \/ ResizeDrainEnd \/ ResizeSwap \/ ResizeRestart
              \/ ResizeRequeue \/ ResizeFailOne \/ ResizeEnd

\* everything the pool and the goroutines already inside it do by themselves
\* (StopCAS("R") is a step of the running Resize call)
Internal == \/ \E k \in Tasks : SubAct(k)
            \/ \E i \in Workers : WorkAct(i)
            \/ \E c \in Callers : StopAct(c)
            \/ StopCAS("R") \/ ResizeAct

\* the environment: new calls (tasks are numbered in the order of their calls) and the
\* task bodies, which return when the harness opens their gate
EnvCall == \/ \E k \in Tasks : (\A j \in 1..(k - 1) : sub[j] # "idle") /\ SubmitCheck(k)
           \/ StopCAS("S") \/ ResizeBegin
Gates == \E i \in Workers : ExecDone(i)

\* every action above leaves sz alone; `vars` is the pool's state proper
allvars == <<vars, sz>>
Next == (Internal \/ Gates \/ EnvCall) /\ UNCHANGED sz

Spec == Init /\ [][Next]_allvars

\* every step of a goroutine that is inside the pool is eventually taken (the Go scheduler,
\* and the harness opens every gate); new calls are never obliged to happen
Fair(A) == WF_allvars(A /\ UNCHANGED sz)
Fairness ==
  /\ \A k \in Tasks : Fair(SubmitSelect(k)) /\ Fair(Enqueue(k)) /\ Fair(SubmitTimeout(k)) /\ Fair(SubmitPanic(k)) /\ Fair(SubRecv(k))
  /\ \A i \in Workers : /\ Fair(WorkerSelect(i)) /\ Fair(WorkerTake(i)) /\ Fair(WorkerExitCtx(i))
                        /\ Fair(WorkerExitClosed(i)) /\ Fair(ExecDone(i)) /\ Fair(Deliver(i))
  /\ \A c \in Callers : /\ Fair(StopCancel(c)) /\ Fair(StopClose(c)) /\ Fair(StopWait(c))
                        /\ Fair(StopDrainOne(c)) /\ Fair(StopDrainEnd(c))
  /\ Fair(StopCAS("R")) /\ Fair(ResizeCloseOld) /\ Fair(ResizeDrainOne) /\ Fair(ResizeDrainEnd)
  /\ Fair(ResizeSwap) /\ Fair(ResizeRestart) /\ Fair(ResizeRequeue) /\ Fair(ResizeFailOne) /\ Fair(ResizeEnd)

FairSpec == Spec /\ Fairness

-----------------------------------------------------------------------------
(* Ideal level: property C20                                               *)

Executing == {i \in Workers : w[i].ph = "exec"}
InResize  == rs.ph \notin {"idle", "done", "panic"}
Bound     == IF InResize THEN Max(sz[1], sz[2]) ELSE Size(cur)

\* never more task bodies at once than the pool size (the larger size during a resize)
Bounded == Cardinality(Executing) <= Bound

\* the pool starts a task's body at most once
AtMostOnce == \A k \in Tasks : runs[k] <= 1

\* a result (ok = true) is only reported for a task whose body ran
NoFakeResult == \A k \in Tasks : sub[k] \in {"result", "nil"} => runs[k] = 1

\* "not executed" is only reported for a task the pool never runs (the submitter runs it itself)
NotRunIsTrue == \A k \in Tasks : sub[k] = "notrun" => runs[k] = 0

\* no goroutine of the pool or of a caller dies in a panic (every request would be dropped)
NoPanic == rs.ph # "panic" /\ \A k \in Tasks : sub[k] # "panic"

\* when nothing inside the pool can move any more, no submitter is still waiting
Quiescent == ~ENABLED (Internal \/ Gates)
Resolved  == Quiescent => \A k \in Tasks : sub[k] \notin {"checked", "sending", "waiting"}

\* no submitter waits forever (checked under FairSpec, no state constraint)
Liveness == \A k \in Tasks : (sub[k] = "waiting") ~> (sub[k] # "waiting")

-----------------------------------------------------------------------------
(* The guards of the known deviations (WorkerPoolTrace explains a failing step of a recorded   *)
(* history by a listed finding only under these conditions).  Checked on the pinned model:    *)
(* every way in which it violates C20 is covered by one of them.                              *)
InSomeClosedQueue(k) == \E g \in Gens : closed[g] /\ \E a \in 1..Len(q[g]) : q[g][a] = k
HeldByResize(k)      == \E a \in 1..Len(rs.pend) : rs.pend[a] = k
Unresolved(k)        == sub[k] \in {"checked", "sending", "waiting"}

Dev_StopAbandonsQueued(k) == InSomeClosedQueue(k)                      \* F12
Dev_ResizeNilResult(k)    == runs[k] = 0 /\ res[k] = "nil"             \* F12b
Dev_RaceBound             == rs.lost \/ rs.cold                        \* F12c (1)
Dev_RaceResizePanic       == stp["S"] # "idle"                         \* F12c (2)
Dev_RaceSubmitPanic(k)    == rs.ph # "idle" /\ ~rs.was                 \* F12c (3)

GuardsComplete ==
  /\ Bounded \/ Dev_RaceBound
  /\ \A k \in Tasks : sub[k] = "nil" => Dev_ResizeNilResult(k)
  /\ \A k \in Tasks : sub[k] = "panic" => Dev_RaceSubmitPanic(k)
  /\ rs.ph = "panic" => Dev_RaceResizePanic
  /\ Quiescent => \A k \in Tasks : Unresolved(k) =>
        \/ Dev_StopAbandonsQueued(k)
        \/ HeldByResize(k) /\ rs.ph = "panic"

\* useful structural facts of the impl level
QueueSane == /\ \A g \in Gens : \A a, b \in 1..Len(q[g]) : a # b => q[g][a] # q[g][b]
             /\ \A k \in Tasks : Cardinality({g \in Gens : \E a \in 1..Len(q[g]) : q[g][a] = k}) <= 1
=============================================================================

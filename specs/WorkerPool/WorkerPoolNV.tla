--------------------------- MODULE WorkerPoolNV ---------------------------
(***************************************************************************)
(* Non-vacuity observer for the exhaustive runs of WorkerPool.             *)
(*                                                                         *)
(* NonVacuous is an invariant that is always TRUE; whenever TLC reaches a  *)
(* state in which one of the C20 invariants is false it drops a marker     *)
(* file named after that invariant into $VF_NV_DIR.  One exhaustive run of *)
(* the pinned model thus shows, without stopping at the first              *)
(* counterexample, that each of the four defects of the findings register  *)
(* is reachable (the check requires all four markers), while the same run  *)
(* checks the invariants that do hold and GuardsComplete.                  *)
(***************************************************************************)
EXTENDS WorkerPool, Json, IOUtils

Mark(name) == JsonSerialize(IOEnv.VF_NV_DIR \o "/" \o name \o ".json", [violated |-> name])

NonVacuous ==
  /\ Bounded \/ Mark("Bounded")
  /\ NoFakeResult \/ Mark("NoFakeResult")
  /\ NoPanic \/ Mark("NoPanic")
  /\ Resolved \/ Mark("Resolved")
=============================================================================

------------------------- MODULE WorkerPoolTrace -------------------------
(***************************************************************************)
(* Ideal-level validation of recorded executions of the real WorkerPool    *)
(* (harness/vf_workerpool.go) against property C20.                        *)
(*                                                                         *)
(* The log is one totally ordered sequence of events per history (the      *)
(* harness appends under one mutex): calls and returns of the submitters,  *)
(* of Stop and of Resize, start and end of every task body, gate openings  *)
(* and the vhook events of worker_pool.go.  What C20 states is a function  *)
(* of the call/return and body events alone; the monitor below folds them  *)
(* into the observation record `m` and checks, event by event,             *)
(*   Bounded       bodies running at once <= pool size (max(old, new)      *)
(*                 between the call and the return of Resize)              *)
(*   AtMostOnce    the pool starts a body at most once, and never one      *)
(*                 whose submitter was told "not executed"                 *)
(*   NoFakeResult  ok = true only with the value the body returned, after  *)
(*                 the body ended                                          *)
(*   NoPanic       neither Submit nor Resize nor a worker dies in a panic  *)
(*   Resolved      at final quiescence every submitter has returned        *)
(* (the same predicates WorkerPool.tla states over its impl state).  The   *)
(* hook events are only used to guard the named deviations: a failing step *)
(* goes to `dev` when exactly the condition of a listed known finding      *)
(* holds, to `bad` otherwise.  Nothing stops at the first failure.         *)
(* The impl level (is the log a behaviour of WorkerPool.tla?) is decided   *)
(* by WorkerPoolLV.                                                        *)
(***************************************************************************)
EXTENDS Integers, Sequences, FiniteSets, TLC, Json, IOUtils

CONSTANTS KnownDeviations   \* subset of {"Dev_StopAbandonsQueued", "Dev_ResizeNilResult", "Dev_StopResizeRace"}

TraceLog == ndJsonDeserialize(IOEnv.VF_TRACE)
N == Len(TraceLog)

VARIABLES l, m, bad, dev, stats
vars == <<l, m, bad, dev, stats>>

Known(d) == d \in KnownDeviations
EmptyFn == [x \in {} |-> 0]
With(f, k, v) == [x \in (DOMAIN f) \cup {k} |-> IF x = k THEN v ELSE f[x]]
Get(f, k, d) == IF k \in DOMAIN f THEN f[k] ELSE d
Max(a, b) == IF a >= b THEN a ELSE b
Rng(s) == {s[i] : i \in DOMAIN s}

Fresh(size) ==
  [size |-> size,          \* pool size in force
   inRs |-> FALSE, rsOld |-> size, rsNew |-> size,   \* a Resize call is in progress
   exec |-> {},            \* tasks whose body is running on a pool worker
   runs |-> EmptyFn,       \* k -> number of body starts by the pool
   self |-> {},            \* tasks run by their own submitter (ExecuteWithWorker's fallback)
   ended |-> {},           \* tasks whose pool-run body has returned
   via |-> EmptyFn,        \* k -> "wait" | "exec"
   ret |-> EmptyFn,        \* k -> [s, b] as returned to the submitter
   \* shadow of the impl state kept from hook events, used by the deviation guards only.  Hook events
   \* of different goroutines may be logged in another order than their steps happened, so queue
   \* membership is kept as counters and generations as candidate sets.
   gen |-> 1,              \* generation of the pool's queue (number of wp.rs.swapped so far + 1)
   chk |-> EmptyFn,        \* k -> generation when submitter k passed the running check (no enq/rej yet)
   adds |-> EmptyFn,       \* k -> number of times task k was put into a queue (wp.enq, wp.rs.requeue)
   rems |-> EmptyFn,       \* k -> number of times it was taken out (wp.take, wp.rs.drain, wp.stop.drain)
   qg |-> EmptyFn,         \* k -> generations of the queue it was last put into (the send is bound to the
                           \*      queue at the select entry, somewhere between wp.chk and wp.enq)
   sgen |-> EmptyFn,       \* Stop goroutine -> generation when it logged wp.stop.cancelled
   closedByStop |-> {},    \* generations of the queues a Stop may have closed
   drained |-> EmptyFn, back |-> EmptyFn,   \* k -> times Resize drained it / re-enqueued or failed it
   failed |-> {},          \* tasks Resize "notified" (wp.rs.fail)
   lostCAS |-> FALSE,      \* Resize's inner Stop lost the CAS to a concurrent Stop
   extCas |-> FALSE,       \* an external Stop won a CAS
   stopOpen |-> FALSE,     \* an external Stop has been called and has not returned
   coldRace |-> FALSE,     \* Resize found the pool not running while that Stop was still in progress
   rsPanic |-> FALSE, coldClose |-> FALSE]

Cur == TraceLog[l]
Bound == IF m.inRs THEN Max(m.size, Max(m.rsOld, m.rsNew)) ELSE m.size
Runs(k) == Get(m.runs, k, 0)

\* last line of the current history; lookahead is only evaluated for a step that already failed
HHi == CHOOSE j \in l..N : TraceLog[j].ev = "end" /\ \A x \in l..(j - 1) : TraceLog[x].ev # "end"
Later(P(_)) == \E j \in l..HHi : P(TraceLog[j])
InQueue(k) == Get(m.adds, k, 0) > Get(m.rems, k, 0)
HeldByResize(k) == Get(m.drained, k, 0) > Get(m.back, k, 0)

Tag(S)  == {[l |-> l, why |-> w] : w \in S}
TagD(S) == {[l |-> l, name |-> d] : d \in S}

\* One verdict item: `why` fails unless `cond`; a listed deviation explains it when `devcond`
Judge(cond, why, devname, devcond) ==
  IF cond THEN [bad |-> {}, dev |-> {}]
  ELSE IF Known(devname) /\ devcond THEN [bad |-> {}, dev |-> {devname}]
  ELSE [bad |-> {why}, dev |-> {}]

Merge(a, b) == [bad |-> a.bad \cup b.bad, dev |-> a.dev \cup b.dev]
None == [bad |-> {}, dev |-> {}]

-----------------------------------------------------------------------------
(* the fold: Step(e) = [m |-> new observation, v |-> verdict items]        *)

OnBodyStart(e) ==
  LET k  == e.k
      m1 == [m EXCEPT !.exec = @ \cup {k}, !.runs = With(@, k, Runs(k) + 1)]
      told == k \in DOMAIN m.ret /\ ~m.ret[k].b
  IN [m |-> m1,
      v |-> Merge(Merge(
              Judge(Runs(k) = 0, "task body started more than once by the pool", "-", FALSE),
              Judge(~told /\ k \notin m.self,
                    "pool executed a task whose submitter had been told it was not executed", "-", FALSE)),
              Judge(Cardinality(m1.exec) <= Bound,
                    "more task bodies running at once than the pool size", "Dev_StopResizeRace",
                    m.lostCAS \/ m.coldRace))]

OnBodySelf(e) ==
  [m |-> [m EXCEPT !.self = @ \cup {e.k}],
   v |-> Judge(Runs(e.k) = 0, "task executed by the pool and again by its submitter", "-", FALSE)]

OnSubRet(e) ==
  LET k == e.k
      m1 == [m EXCEPT !.ret = With(@, k, [s |-> e.s, b |-> e.b])]
      ranInPool == Runs(k) = 1 /\ k \in m.ended
      isExec == Get(m.via, k, "wait") = "exec"
  IN [m |-> m1,
      v |-> IF e.s = "panic"
              THEN Judge(FALSE, "Submit panicked (send on closed channel): the request is lost",
                         "Dev_StopResizeRace", m.coldClose /\ k \in DOMAIN m.chk)
            ELSE IF ~e.b
              THEN Judge(Runs(k) = 0, "submitter was told the task was not executed, but the pool had started it", "-", FALSE)
            ELSE IF e.s = "tok"
              THEN Judge(ranInPool \/ (isExec /\ Runs(k) = 0 /\ k \in m.self),
                         "result reported before the task body had run to its end", "-", FALSE)
            ELSE LET IsFail(x) == x.ev = "wp.rs.fail" /\ x.k = k IN
                 Judge(FALSE, "a result (ok = true) was reported for a task that never ran",
                       "Dev_ResizeNilResult", e.s = "nil" /\ Runs(k) = 0 /\ (k \in m.failed \/ Later(IsFail)))]

OnResizeRet(e) ==
  LET pan == e.s = "panic" IN
  [m |-> [m EXCEPT !.inRs = FALSE, !.rsPanic = pan],
   v |-> LET ExtCas(x) == x.ev = "wp.stop.cas" /\ x.g = "stop" IN
         Judge(~pan, "Resize panicked (send on closed channel): pending tasks are lost",
               "Dev_StopResizeRace", m.extCas \/ Later(ExtCas))]

OnEnd(e) ==
  LET items == { Judge(FALSE, "submitter waits forever: its accepted task is neither executed nor reported as not executed",
                       IF HeldByResize(k) THEN "Dev_StopResizeRace" ELSE "Dev_StopAbandonsQueued",
                       IF HeldByResize(k) THEN m.rsPanic
                       ELSE InQueue(k) /\ Get(m.qg, k, {}) \cap m.closedByStop # {}) : k \in Rng(e.bl) }
  IN [m |-> m,
      v |-> [bad |-> UNION {i.bad : i \in items}, dev |-> UNION {i.dev : i \in items}]]

Norm(n) == IF n <= 0 THEN 1 ELSE n
Inc(f, k) == With(f, k, Get(f, k, 0) + 1)
Drop(f, k) == [x \in (DOMAIN f) \ {k} |-> f[x]]

Shadow(e) ==   \* hook events: bookkeeping for the deviation guards, no verdict
  CASE e.ev = "wp.chk"        -> [m EXCEPT !.chk = With(@, e.k, m.gen)]
    [] e.ev = "wp.rej"        -> [m EXCEPT !.chk = Drop(@, e.k)]
    [] e.ev = "wp.enq"        -> [m EXCEPT !.adds = Inc(@, e.k), !.qg = With(@, e.k, Get(m.chk, e.k, m.gen)..m.gen),
                                           !.chk = Drop(@, e.k)]
    [] e.ev = "wp.take"       -> [m EXCEPT !.rems = Inc(@, e.k)]
    [] e.ev = "wp.stop.cas"   -> IF e.g = "stop" THEN [m EXCEPT !.extCas = TRUE] ELSE m
    [] e.ev = "wp.stop.noop"  -> IF e.g = "resize" THEN [m EXCEPT !.lostCAS = TRUE] ELSE m
    [] e.ev = "wp.stop.cancelled" -> [m EXCEPT !.sgen = With(@, e.g, m.gen)]
    [] e.ev = "wp.stop.closed" -> [m EXCEPT !.closedByStop = @ \cup (Get(m.sgen, e.g, m.gen)..m.gen)]
    [] e.ev = "wp.stop.drain" -> [m EXCEPT !.rems = Inc(@, e.k)]
    [] e.ev = "wp.rs.begin"   -> IF e.b THEN m ELSE [m EXCEPT !.coldClose = TRUE, !.coldRace = m.stopOpen]
    [] e.ev = "stop.call"     -> [m EXCEPT !.stopOpen = TRUE]
    [] e.ev = "stop.ret"      -> [m EXCEPT !.stopOpen = FALSE]
    [] e.ev = "wp.rs.drain"   -> [m EXCEPT !.rems = Inc(@, e.k), !.drained = Inc(@, e.k)]
    [] e.ev = "wp.rs.swapped" -> [m EXCEPT !.size = e.n, !.gen = @ + 1]
    [] e.ev = "wp.rs.requeue" -> [m EXCEPT !.back = Inc(@, e.k), !.adds = Inc(@, e.k), !.qg = With(@, e.k, {m.gen})]
    [] e.ev = "wp.rs.fail"    -> [m EXCEPT !.back = Inc(@, e.k), !.failed = @ \cup {e.k}]
    [] OTHER -> m

Step(e) ==
  CASE e.ev = "reset"       -> [m |-> Fresh(e.n), v |-> None]
    [] e.ev = "sub.call"    -> [m |-> [m EXCEPT !.via = With(@, e.k, e.s)], v |-> None]
    [] e.ev = "body.start"  -> OnBodyStart(e)
    [] e.ev = "body.end"    -> [m |-> [m EXCEPT !.exec = @ \ {e.k}, !.ended = @ \cup {e.k}], v |-> None]
    [] e.ev = "body.self"   -> OnBodySelf(e)
    [] e.ev = "sub.ret"     -> OnSubRet(e)
    [] e.ev = "resize.call" -> [m |-> [m EXCEPT !.inRs = TRUE, !.rsOld = m.size, !.rsNew = Norm(e.n)], v |-> None]
    [] e.ev = "resize.ret"  -> OnResizeRet(e)
    [] e.ev = "end"         -> OnEnd(e)
    [] e.ev = "crash"       -> \* the harness process died in a panic of a goroutine of the pool itself
                               [m |-> m, v |-> Judge(FALSE, "a goroutine of the worker pool panicked: the process dies and every request is dropped", "-", FALSE)]
    [] OTHER                -> [m |-> Shadow(e), v |-> None]

Bump(e, r) ==
  [stats EXCEPT !.hist      = @ + (IF e.ev = "reset" THEN 1 ELSE 0),
                !.submits   = @ + (IF e.ev = "sub.call" THEN 1 ELSE 0),
                !.poolruns  = @ + (IF e.ev = "body.start" THEN 1 ELSE 0),
                !.selfruns  = @ + (IF e.ev = "body.self" THEN 1 ELSE 0),
                !.notrun    = @ + (IF e.ev = "sub.ret" /\ ~e.b /\ e.s # "panic" THEN 1 ELSE 0),
                !.timeouts  = @ + (IF e.ev = "wp.rej" /\ e.s = "timeout" THEN 1 ELSE 0),
                !.stops     = @ + (IF e.ev = "stop.call" THEN 1 ELSE 0),
                !.resizes   = @ + (IF e.ev = "resize.call" THEN 1 ELSE 0),
                !.requeued  = @ + (IF e.ev = "wp.rs.requeue" THEN 1 ELSE 0),
                !.blocked   = @ + (IF e.ev = "end" THEN Len(e.bl) ELSE 0),
                !.peak      = IF e.ev = "body.start" /\ Cardinality(r.m.exec) > @ THEN Cardinality(r.m.exec) ELSE @]

-----------------------------------------------------------------------------
Init == /\ l = 1 /\ m = Fresh(1) /\ bad = {} /\ dev = {}
        /\ stats = [lines |-> 0, hist |-> 0, submits |-> 0, poolruns |-> 0, selfruns |-> 0, notrun |-> 0,
                    timeouts |-> 0, stops |-> 0, resizes |-> 0, requeued |-> 0, blocked |-> 0, peak |-> 0]

Consume == /\ l <= N
           /\ LET r == Step(Cur) IN
                /\ m' = r.m
                /\ bad' = bad \cup Tag(r.v.bad)
                /\ dev' = dev \cup TagD(r.v.dev)
                /\ stats' = Bump(Cur, r)
           /\ l' = l + 1

Finish == /\ l = N + 1
          /\ l' = N + 2
          /\ JsonSerialize(IOEnv.VF_RESULT,
                [n |-> N, consumed |-> l - 1, bad |-> bad, dev |-> dev, drift |-> {},
                 stats |-> [stats EXCEPT !.lines = N]])
          /\ UNCHANGED <<m, bad, dev, stats>>

Next == Consume \/ Finish
Spec == Init /\ [][Next]_vars
=============================================================================

--------------------------- MODULE WorkerPoolLV ---------------------------
(***************************************************************************)
(* Impl-level validation (LV) of recorded executions of the real           *)
(* WorkerPool: is the event log of a history a behaviour of WorkerPool.tla?*)
(*                                                                         *)
(* An event is appended to the log by the goroutine that performed the     *)
(* step, *after* the step (the vhook call follows the channel operation or *)
(* sits inside the critical section).  So the log order of two events of   *)
(* different goroutines need not be the order of their steps; what is      *)
(* known is that a step happened after the previous event of its own       *)
(* goroutine was logged and before its own event was logged.  The search   *)
(* therefore lets every thread of the spec run ahead of the log by at most *)
(* one reported step (`ahead`), takes unreported steps (SubRecv,           *)
(* WorkerSelect, panics, ...) silently, and consumes a log line when the   *)
(* thread it belongs to has exactly that step pending.  Call events are    *)
(* logged before the call (a thread cannot move before them), return       *)
(* events after the return (the thread must have reached the matching      *)
(* state), gate.open before the harness opens the gate (ExecDone needs it).*)
(*                                                                         *)
(* One file holds many histories (separated by reset lines); every history *)
(* is an initial state.  The furthest line reached per history is kept in  *)
(* TLC registers (-workers 1) and written by the POSTCONDITION.  A history *)
(* whose last line was consumed is accepted.  A rejected history is model  *)
(* drift (the spec does not describe this code), never a verdict.          *)
(***************************************************************************)
EXTENDS WorkerPool, Json, IOUtils

TraceLog == ndJsonDeserialize(IOEnv.VF_TRACE)
N == Len(TraceLog)
Resets == {i \in 1..N : TraceLog[i].ev = "reset"}
EndOf(i) == CHOOSE j \in (i + 1)..N : TraceLog[j].ev = "end" /\ \A x \in (i + 1)..(j - 1) : TraceLog[x].ev # "end"

VARIABLES hid,     \* line of the reset event of this history
          endl,    \* line of its end event
          l,       \* next line to consume
          called,  \* submitters whose sub.call has been consumed
          act,     \* subset of {"stop", "resize"}: calls that have been made
          gateo,   \* tasks whose gate has been opened
          aS, aW, aC,  \* the reported step a submitter / worker / caller thread is ahead by
          bind     \* worker goroutine name -> worker of the spec

lvars == <<hid, endl, l, called, act, gateo, aS, aW, aC, bind>>
lvall == <<allvars, lvars>>

Lab(ev, k, s, b) == [ev |-> ev, k |-> k, s |-> s, b |-> b]
NoLab == Lab("", 0, "", FALSE)
Threads == {"stop", "resize"}
ThreadOf(c) == IF c = "S" THEN "stop" ELSE "resize"
Idx(i) == IF i <= sz[1] THEN i - 1 ELSE i - sz[1] - 1
EmptyFn == [x \in {} |-> 0]

KeepL == UNCHANGED <<hid, endl, l, called, act, gateo, bind>>

-----------------------------------------------------------------------------
(* steps of the spec, labelled with the event their goroutine will report  *)

LSub(k) ==
  /\ k \in called /\ aS[k] = NoLab
  /\ \/ SubmitCheck(k) /\ aS' = [aS EXCEPT ![k] = IF running = 0 THEN Lab("wp.rej", k, "stopped", FALSE)
                                                                  ELSE Lab("wp.chk", k, "", FALSE)]
     \/ SubmitSelect(k) /\ UNCHANGED aS
     \/ Enqueue(k) /\ aS' = [aS EXCEPT ![k] = Lab("wp.enq", k, "", FALSE)]
     \/ SubmitTimeout(k) /\ aS' = [aS EXCEPT ![k] = Lab("wp.rej", k, "timeout", FALSE)]
     \/ SubmitPanic(k) /\ UNCHANGED aS
     \/ SubRecv(k) /\ UNCHANGED aS
  /\ UNCHANGED <<aW, aC>> /\ KeepL

LWorker(i) ==
  /\ aW[i] = NoLab
  /\ \/ WorkerSelect(i) /\ UNCHANGED aW
     \/ WorkerTake(i) /\ aW' = [aW EXCEPT ![i] = Lab("wp.take", Head(q[w[i].sel]), "", FALSE)]
     \/ WorkerExitCtx(i) /\ aW' = [aW EXCEPT ![i] = Lab("wp.exit", 0, "ctx", FALSE)]
     \/ WorkerExitClosed(i) /\ aW' = [aW EXCEPT ![i] = Lab("wp.exit", 0, "closed", FALSE)]
     \/ w[i].t \in gateo /\ ExecDone(i) /\ aW' = [aW EXCEPT ![i] = Lab("wp.done", 0, "", FALSE)]
     \/ Deliver(i) /\ aW' = [aW EXCEPT ![i] = Lab("wp.deliver", 0, "", res[w[i].t] = "empty")]
  /\ UNCHANGED <<aS, aC>> /\ KeepL

LStop(c) ==
  LET t == ThreadOf(c) IN
  /\ t \in act /\ aC[t] = NoLab
  /\ \/ StopCAS(c) /\ aC' = [aC EXCEPT ![t] = Lab(IF running = 1 THEN "wp.stop.cas" ELSE "wp.stop.noop", 0, "", FALSE)]
     \/ StopCancel(c) /\ aC' = [aC EXCEPT ![t] = Lab("wp.stop.cancelled", 0, "", FALSE)]
     \/ StopClose(c) /\ aC' = [aC EXCEPT ![t] = Lab("wp.stop.closed", 0, "", FALSE)]
     \/ StopWait(c) /\ aC' = [aC EXCEPT ![t] = Lab("wp.stop.waited", 0, "", FALSE)]
     \/ StopDrainOne(c) /\ aC' = [aC EXCEPT ![t] = Lab("wp.stop.drain", Head(q[stq[c]]), "", FALSE)]
     \/ StopDrainEnd(c) /\ UNCHANGED aC
  /\ UNCHANGED <<aS, aW>> /\ KeepL

LResize ==
  /\ "resize" \in act /\ aC["resize"] = NoLab
  /\ \/ ResizeBegin /\ aC' = [aC EXCEPT !["resize"] = Lab("wp.rs.begin", 0, "", running = 1)]
     \/ ResizeCloseOld /\ UNCHANGED aC
     \/ ResizeDrainOne /\ aC' = [aC EXCEPT !["resize"] = Lab("wp.rs.drain", Head(q[rs.oldq]), "", FALSE)]
     \/ ResizeDrainEnd /\ aC' = [aC EXCEPT !["resize"] = Lab("wp.rs.drained", 0, "", FALSE)]
     \/ ResizeSwap /\ aC' = [aC EXCEPT !["resize"] = Lab("wp.rs.swapped", 0, "", FALSE)]
     \/ ResizeRestart /\ aC' = [aC EXCEPT !["resize"] = Lab("wp.rs.started", 0, "", FALSE)]
     \/ ResizeRequeue /\ aC' = [aC EXCEPT !["resize"] =
                                  IF closed[cur] THEN NoLab
                                  ELSE IF Len(q[cur]) < Cap(cur) THEN Lab("wp.rs.requeue", Head(rs.pend), "", FALSE)
                                  ELSE Lab("wp.rs.fail", Head(rs.pend), "", FALSE)]
     \/ ResizeFailOne /\ aC' = [aC EXCEPT !["resize"] = Lab("wp.rs.fail", Head(rs.pend), "", FALSE)]
     \/ ResizeEnd /\ aC' = [aC EXCEPT !["resize"] = Lab("wp.rs.done", 0, "", FALSE)]
  /\ UNCHANGED <<aS, aW>> /\ KeepL

Act == \/ \E k \in Tasks : LSub(k)
       \/ \E i \in Workers : LWorker(i)
       \/ \E c \in Callers : LStop(c)
       \/ LResize

-----------------------------------------------------------------------------
(* consuming one log line                                                  *)

e == TraceLog[l]
SubEv    == {"wp.chk", "wp.enq", "wp.rej"}
WorkerEv == {"wp.take", "wp.exit", "wp.done", "wp.deliver"}
CallerEv == {"wp.stop.cas", "wp.stop.noop", "wp.stop.cancelled", "wp.stop.closed", "wp.stop.waited", "wp.stop.drain",
             "wp.rs.begin", "wp.rs.drain", "wp.rs.drained", "wp.rs.swapped", "wp.rs.started", "wp.rs.requeue",
             "wp.rs.fail", "wp.rs.done"}
Ignored  == {"body.start", "body.end", "body.self", "skip", "wp.start", "tick"}

\* the label an event stands for (only the fields the step determines)
LabOf(x) ==
  Lab(x.ev,
      IF x.ev \in SubEv \cup {"wp.take", "wp.stop.drain", "wp.rs.drain", "wp.rs.requeue", "wp.rs.fail"} THEN x.k ELSE 0,
      IF x.ev \in {"wp.rej", "wp.exit"} THEN x.s ELSE "",
      IF x.ev \in {"wp.deliver", "wp.rs.begin"} THEN x.b ELSE FALSE)

Keep(S) == UNCHANGED S
StateKept == UNCHANGED vars

\* what the submitter got back must be what the spec's submitter has reached
RetMatches(x) ==
  LET st == sub[x.k] IN
  IF x.s = "panic" THEN st = "panic"
  ELSE IF x.via = "exec"          \* ExecuteWithWorker: value only; ok = false means it ran the task itself
    THEN (x.s = "tok" /\ st \in {"result", "notrun"}) \/ (x.s = "nil" /\ st = "nil")
  ELSE IF ~x.b THEN st = "notrun"
  ELSE (x.s = "tok" /\ st = "result") \/ (x.s = "nil" /\ st = "nil")

EndMatches(x) ==
  /\ \A k \in called : IF \E j \in DOMAIN x.bl : x.bl[j] = k
                         THEN sub[k] \in {"checked", "sending", "waiting"}
                         ELSE sub[k] \in {"result", "nil", "notrun", "panic"}
  /\ x.stop = "ret" => stp["S"] = "done"
  /\ x.resize = "ret" => rs.ph = "done"

Consume ==
  /\ l <= endl
  /\ l' = l + 1
  /\ StateKept /\ Keep(<<hid, endl>>)
  /\ CASE e.ev \in Ignored ->
            Keep(<<called, act, gateo, aS, aW, aC, bind>>)
       [] e.ev = "sub.call" ->
            /\ e.k \in Tasks /\ called' = called \cup {e.k}
            /\ Keep(<<act, gateo, aS, aW, aC, bind>>)
       [] e.ev \in {"stop.call", "resize.call"} ->
            /\ act' = act \cup {IF e.ev = "stop.call" THEN "stop" ELSE "resize"}
            /\ Keep(<<called, gateo, aS, aW, aC, bind>>)
       [] e.ev = "gate.open" ->
            /\ gateo' = gateo \cup {e.k}
            /\ Keep(<<called, act, aS, aW, aC, bind>>)
       [] e.ev \in SubEv ->
            /\ e.k \in Tasks /\ aS[e.k] = LabOf(e)
            /\ aS' = [aS EXCEPT ![e.k] = NoLab]
            /\ Keep(<<called, act, gateo, aW, aC, bind>>)
       [] e.ev \in WorkerEv ->
            /\ \E i \in Workers :
                 /\ Idx(i) = e.w /\ aW[i] = LabOf(e)
                 /\ IF e.g \in DOMAIN bind THEN bind[e.g] = i /\ bind' = bind
                    ELSE /\ \A g \in DOMAIN bind : bind[g] # i
                         /\ bind' = [g \in (DOMAIN bind) \cup {e.g} |-> IF g = e.g THEN i ELSE bind[g]]
                 /\ aW' = [aW EXCEPT ![i] = NoLab]
            /\ Keep(<<called, act, gateo, aS, aC>>)
       [] e.ev \in CallerEv ->
            /\ e.g \in Threads /\ aC[e.g] = LabOf(e)
            /\ aC' = [aC EXCEPT ![e.g] = NoLab]
            /\ Keep(<<called, act, gateo, aS, aW, bind>>)
       [] e.ev = "sub.ret" ->
            /\ e.k \in Tasks /\ aS[e.k] = NoLab /\ RetMatches(e)
            /\ Keep(<<called, act, gateo, aS, aW, aC, bind>>)
       [] e.ev = "stop.ret" ->
            /\ aC["stop"] = NoLab /\ stp["S"] = "done"
            /\ Keep(<<called, act, gateo, aS, aW, aC, bind>>)
       [] e.ev = "resize.ret" ->
            /\ aC["resize"] = NoLab /\ rs.ph = (IF e.s = "panic" THEN "panic" ELSE "done")
            /\ Keep(<<called, act, gateo, aS, aW, aC, bind>>)
       [] e.ev = "end" ->
            /\ EndMatches(e)
            /\ Keep(<<called, act, gateo, aS, aW, aC, bind>>)
       [] OTHER -> FALSE
  /\ TLCSet(hid, IF TLCGet(hid) < l' THEN l' ELSE TLCGet(hid))

-----------------------------------------------------------------------------
LVInit ==
  /\ Init
  /\ hid \in Resets /\ endl = EndOf(hid) /\ l = hid + 1
  /\ sz = <<TraceLog[hid].n, TraceLog[hid].w>>      \* the reset line carries both pool sizes
  /\ called = {} /\ act = {} /\ gateo = {}
  /\ aS = [k \in Tasks |-> NoLab] /\ aW = [i \in Workers |-> NoLab] /\ aC = [t \in Threads |-> NoLab]
  /\ bind = EmptyFn
  /\ TLCSet(hid, hid + 1)

LVNext == (Act \/ Consume) /\ UNCHANGED sz
LVSpec == LVInit /\ [][LVNext]_lvall

\* once a history has been accepted its remaining interleavings need not be explored
NotYetAccepted == TLCGet(hid) <= endl

Post == JsonSerialize(IOEnv.VF_RESULT,
          [n |-> N, hist |-> {[h |-> i, endl |-> EndOf(i), hw |-> TLCGet(i)] : i \in Resets}])
=============================================================================

---------------------------- MODULE WorkerPoolInd ----------------------------
(***************************************************************************)
(* Inductive invariant for the REPAIRED worker pool (property C20),        *)
(* checked with Apalache.  WorkerPool.tla is instantiated unchanged; this  *)
(* module adds the type annotations Apalache needs, the inductive          *)
(* invariant IndInv and a regrouping NextInd of WorkerPool's Next.         *)
(*                                                                         *)
(* Obligations (checks/proofs_workerpool.py):                              *)
(*   Init => IndInv                   --init=Init    --inv=IndInv --length=0 *)
(*   IndInv /\ NextInd => IndInv'     --init=IndInit --inv=IndInv --length=1 *)
(*   IndInv => listed invariants      syntactic: IndInv contains Bounded,  *)
(*       AtMostOnce, NoFakeResult, NotRunIsTrue, NoPanic literally and     *)
(*       TypeOK / QueueSane restated (TypeOKInd, QueueSaneInd, see there), *)
(*       and ResolvedInd => Resolved.                                      *)
(*                                                                         *)
(* Fixed:    NT = 4 tasks, MaxW = 6 workers, FixDrain = FixClose = FixExcl *)
(*           = TRUE, EnvStop = EnvResize = TRUE (INSTANCE ... WITH below). *)
(* Symbolic: StrictTimer \in BOOLEAN; sz = any <<a, b>> with a, b >= 1 and *)
(*           a + b <= 6 (15 pairs, i.e. every pool size 1..5 -> 1..5 the   *)
(*           six workers allow; TLC: {<<1,2>>, <<2,1>>}, MaxW = 3).        *)
(* Behaviours are of unbounded length (that is what induction buys).       *)
(*                                                                         *)
(* Resolved uses ENABLED, which Apalache does not support.  ResolvedInd     *)
(* below states it with the guards written out and implies it (see there). *)
(* Not covered: GuardsComplete (about the unrepaired code) and Liveness.    *)
(*                                                                         *)
(* Every group of the strengthening is needed: IndInv without it is        *)
(* rejected by the step obligation (counterexample to induction) --        *)
(*   without Lock      StopCAS("S") during a Resize breaks Phases          *)
(*   without NoBad     SubRecv of a "nil" result breaks NoFakeResult       *)
(*   without Phases    a submitter passes the running check after a Stop   *)
(*                     closed the queue: breaks Gate                       *)
(*   without Gate      ResizeCloseOld / StopClose close a queue somebody   *)
(*                     is sending on: breaks StopGate (then NoPanic)       *)
(*   without WorkersOK Deliver by a worker that holds no task: NoLostTask  *)
(*   without Where     a worker takes a task whose submitter was told      *)
(*                     "not run": breaks NotRunIsTrue                      *)
(*   without Progress  Stop returns with tasks in the closed queue: breaks *)
(*                     ResolvedInd                                         *)
(*                                                                         *)
(* One conjunct of WorkerPool!TypeOK, `sz \in [1..2 -> 1..MaxW]`, cannot be *)
(* typed by Apalache together with Init's `sz \in {<<s \div 10, s % 10>>..}` *)
(* (a tuple is a sequence or a tuple for Snowcat, never a function), and   *)
(* Snowcat types every definition of an instantiated module, used or not.  *)
(* The obligations therefore rewrite that one conjunct in their scratch    *)
(* copy of WorkerPool.tla to `DOMAIN sz = 1..2 /\ \A g \in 1..2 : sz[g] \in *)
(* 1..MaxW` (same meaning; TypeOK is not used by the proof).               *)
(***************************************************************************)
EXTENDS Integers, Sequences, FiniteSets
CONSTANTS
  \* @type: Set(Int);
  Sizes,
  \* @type: Bool;
  StrictTimer
VARIABLES
  \* @type: Seq(Int);
  sz,
  \* @type: Int;
  running,
  \* @type: Int;
  cur,
  \* @type: Int -> Seq(Int);
  q,
  \* @type: Int -> Bool;
  closed,
  \* @type: Int -> Bool;
  cancelled,
  \* @type: Int -> {ph: Str, t: Int, sel: Int};
  w,
  \* @type: Int -> Str;
  sub,
  \* @type: Int -> Int;
  sq,
  \* @type: Int -> Str;
  res,
  \* @type: Int -> Int;
  runs,
  \* @type: Str -> Str;
  stp,
  \* @type: Str -> Int;
  stq,
  \* @type: {ph: Str, was: Bool, oldq: Int, pend: Seq(Int), lost: Bool, cold: Bool};
  rs,
  \* @type: Str;
  rmu

\* Apalache needs literal bounds for 1..NT and 1..MaxW, hence WITH instead of --cinit.
INSTANCE WorkerPool WITH NT <- 4, MaxW <- 6, EnvStop <- TRUE, EnvResize <- TRUE,
                         FixDrain <- TRUE, FixClose <- TRUE, FixExcl <- TRUE

\* Sizes only occurs in Init: every pair the six workers allow
ConstInit == /\ Sizes = {11, 12, 21, 13, 31, 22, 14, 41, 23, 32, 15, 51, 24, 42, 33}
             /\ StrictTimer \in BOOLEAN

-----------------------------------------------------------------------------
(* WorkerPool's Next, regrouped.  Every disjunct of Internal, Gates and    *)
(* EnvCall occurs in exactly one group, each with UNCHANGED sz.  The only  *)
(* rewriting: EnvCall's `\A j \in 1..(k - 1)` (a range with a non-constant *)
(* bound, which Apalache rejects) is written `\A j \in Tasks : j < k =>`.  *)
NextSub    == (\E k \in Tasks : SubAct(k)) /\ UNCHANGED sz
NextWork   == ((\E i \in Workers : WorkAct(i)) \/ Gates) /\ UNCHANGED sz
NextStop   == ((\E c \in Callers : StopAct(c)) \/ StopCAS("R") \/ StopCAS("S")) /\ UNCHANGED sz
NextResize == (ResizeAct \/ ResizeBegin) /\ UNCHANGED sz
NextEnv    == (\E k \in Tasks : (\A j \in Tasks : j < k => sub[j] # "idle") /\ SubmitCheck(k)) /\ UNCHANGED sz
NextInd    == NextSub \/ NextWork \/ NextStop \/ NextResize \/ NextEnv

-----------------------------------------------------------------------------
Idx == 1..4                            \* positions in a queue: no task twice, so never more than NT
InQ(g, k)  == \E a \in Idx : a <= Len(q[g]) /\ q[g][a] = k
InPend(k)  == \E a \in Idx : a <= Len(rs.pend) /\ rs.pend[a] = k
Held(k)    == \E i \in Workers : w[i].t = k
SStopped   == stp["S"] \in {"closed", "waited", "done"}                               \* the external Stop has closed its queue
RStopped   == stp["R"] \in {"closed", "done"} /\ rs.ph \notin {"requeue", "done"}     \* Resize's Stop has, and Resize has not restarted yet

\* WorkerPool!TypeOK.  Sequences are written position by position (Apalache has no Seq(S)); a queue
\* holds no task twice, so Len <= NT is not a restriction (it is implied by QueueSaneInd).
TypeOKInd ==
  /\ sz \in {<<a, b>> : a \in 1..5, b \in 1..5} /\ sz[1] + sz[2] <= 6
  /\ running \in {0, 1} /\ cur \in Gens
  /\ DOMAIN q = Gens
  /\ \A g \in Gens : Len(q[g]) <= 4 /\ Len(q[g]) <= Cap(g) /\ \A a \in Idx : a <= Len(q[g]) => q[g][a] \in Tasks
  /\ closed \in [Gens -> BOOLEAN] /\ cancelled \in [Gens -> BOOLEAN]
  /\ w \in [Workers -> [ph : WPhases, t : Tasks \cup {0}, sel : Gens]]
  /\ sub \in [Tasks -> SubPh] /\ sq \in [Tasks -> Gens]
  /\ res \in [Tasks -> ResPh] /\ runs \in [Tasks -> 0..2]
  /\ stp \in [Callers -> StopPh] /\ stq \in [Callers -> Gens]
  /\ rs.ph \in ResizePh /\ rs.oldq \in Gens
  /\ Len(rs.pend) <= 4 /\ \A a \in Idx : a <= Len(rs.pend) => rs.pend[a] \in Tasks
  /\ rmu \in {"free", "S", "R"}

\* WorkerPool!QueueSane with `\A a \in 1..Len(s)` written `\A a \in Idx : a <= Len(s) =>`
QueueSaneInd ==
  /\ \A g \in Gens : \A a, b \in Idx : (a <= Len(q[g]) /\ b <= Len(q[g]) /\ a # b) => q[g][a] # q[g][b]
  /\ \A k \in Tasks : ~(InQ(1, k) /\ InQ(2, k))

\* the stop gate: a send is never bound to a closed channel (why SubmitPanic is never enabled)
StopGate == \A k \in Tasks : sub[k] = "sending" => ~closed[sq[k]]

-----------------------------------------------------------------------------
(* Strengthening.  None of the listed invariants is inductive by itself.   *)

\* resizeMu: Stop (between its CAS and its return) and Resize exclude each other      (FixExcl)
Lock ==
  /\ (rmu = "S") <=> (stp["S"] \in {"cas", "cancelled", "closed", "waited"})
  /\ (rmu = "R") <=> InResize

\* values that only the unrepaired code produces
NoBad ==
  /\ rs.ph # "panic" /\ ~rs.lost /\ ~rs.cold
  /\ \A k \in Tasks : res[k] # "nil" /\ sub[k] \notin {"nil", "panic"}

\* the phases of Resize against cur, its inner Stop ("R"), the external Stop ("S") and p.running
Phases ==
  /\ rs.oldq = 1
  /\ (cur = 2) <=> (rs.ph \in {"swapped", "requeue", "failing", "done"})
  /\ stp["R"] # "waited"
  /\ (stp["R"] = "done") <=> (rs.was /\ rs.ph \in {"draining", "drained", "swapped", "requeue", "done"})
  /\ stp["R"] \in {"cas", "cancelled", "closed"} => rs.ph = "begun"
  /\ rs.ph = "begun" => rs.was
  /\ rs.ph \in {"idle", "closeold", "failing"} => ~rs.was
  /\ rs.ph \in {"swapped", "requeue"} => rs.was
  /\ (~rs.was /\ rs.ph # "idle") => stp["S"] = "done"      \* Resize found the pool stopped: by a Stop that has returned
  /\ (rs.was /\ InResize) => stp["S"] = "idle"             \* Resize found it running: no Stop before Resize returns
  /\ (running = 1) <=> (stp["S"] = "idle" /\ (stp["R"] = "idle" \/ rs.ph \in {"requeue", "done"}))

\* who may still send, and into which queue
Gate ==
  /\ running = 1 => ~closed[cur]
  /\ closed[2] => rs.ph = "done" /\ SStopped
  /\ (SStopped \/ RStopped) => NoSending
  /\ \A k \in Tasks : sub[k] \in {"checked", "sending"} => ~closed[cur]
  /\ \A k \in Tasks : sub[k] = "sending" => sq[k] = cur

\* worker goroutines: generation 1 is 1..sz[1], generation 2 the next sz[2]
WorkersOK ==
  /\ \A i \in Workers : (w[i].ph \in {"exec", "deliver"}) <=> (w[i].t # 0)
  /\ \A i \in Workers : i <= sz[1] => w[i].ph # "none"
  /\ \A i \in Workers : (i > sz[1] /\ w[i].ph # "none") => (rs.was /\ rs.ph \in {"requeue", "done"} /\ i <= sz[1] + sz[2])
  /\ stp["R"] = "done" => \A i \in Workers : i <= sz[1] => w[i].ph = "gone"
  /\ stp["S"] \in {"waited", "done"} => WgZero

\* where task k is: at most once in a queue, in Resize's pending list or with a worker, and what
\* its submitter, its result channel and its run counter say there
Where ==
  /\ \A a, b \in Idx : (a <= Len(rs.pend) /\ b <= Len(rs.pend) /\ a # b) => rs.pend[a] # rs.pend[b]
  /\ \A k \in Tasks : InPend(k) => ~InQ(1, k) /\ ~InQ(2, k)
  /\ \A i, j \in Workers : (i # j /\ w[i].t # 0) => w[i].t # w[j].t
  /\ \A k \in Tasks : Held(k) => ~InQ(1, k) /\ ~InQ(2, k) /\ ~InPend(k)
  /\ \A k \in Tasks : (InQ(1, k) \/ InQ(2, k) \/ InPend(k)) => (sub[k] = "waiting" /\ res[k] = "empty" /\ runs[k] = 0)
  /\ \A k \in Tasks : Held(k) => (sub[k] = "waiting" /\ res[k] = "empty" /\ runs[k] = 1)
  /\ \A k \in Tasks : runs[k] = 1 => (Held(k) \/ res[k] = "val")
  /\ \A k \in Tasks : res[k] = "val" => runs[k] = 1
  /\ \A k \in Tasks : res[k] = "closed" => runs[k] = 0
  /\ \A k \in Tasks : sub[k] \in {"idle", "checked", "sending"} => (res[k] = "empty" /\ runs[k] = 0)
  /\ \A k \in Tasks : sub[k] = "notrun" => (res[k] \in {"empty", "closed"} /\ runs[k] = 0)
  /\ \A k \in Tasks : sub[k] = "result" => res[k] = "val"

\* not needed for the listed invariants (a bonus, the state part of Resolved): an accepted task whose
\* submitter still waits on an empty result channel is somewhere -- nobody drops it
NoLostTask ==
  /\ rs.ph \in {"idle", "begun", "closeold", "done"} => rs.pend = << >>
  /\ \A k \in Tasks : (sub[k] = "waiting" /\ res[k] = "empty") => (InQ(1, k) \/ InQ(2, k) \/ InPend(k) \/ Held(k))

-----------------------------------------------------------------------------
(* Resolved without ENABLED.  WorkerPool!Quiescent is ~ENABLED (Internal \/ Gates), i.e. the       *)
(* conjunction of ~ENABLED A over the actions A of Internal and Gates.  Every conjunct below is    *)
(* ~G for the guard G of the action(s) named next to it, and G => ENABLED A (the rest of A only    *)
(* assigns primed variables).  Hence Quiescent => QuiescentInd, and ResolvedInd => Resolved.       *)
QuiescentInd ==
  /\ \A k \in Tasks :
       /\ sub[k] # "checked"                                                                      \* SubmitSelect
       /\ ~(sub[k] = "sending" /\ ~closed[sq[k]] /\ Len(q[sq[k]]) < Cap(sq[k]))                    \* Enqueue
       /\ ~(sub[k] = "sending" /\ ~closed[sq[k]] /\ (StrictTimer => Len(q[sq[k]]) = Cap(sq[k])))   \* SubmitTimeout
       /\ ~(sub[k] = "waiting" /\ res[k] # "empty")                                               \* SubRecv
  /\ \A i \in Workers :
       /\ w[i].ph \notin {"loop", "exec", "deliver"}                                              \* WorkerSelect, ExecDone, Deliver
       /\ ~(w[i].ph = "idle" /\ q[w[i].sel] # << >>)                                               \* WorkerTake
       /\ ~(w[i].ph = "idle" /\ cancelled[w[i].sel])                                               \* WorkerExitCtx
  /\ \A c \in Callers :
       /\ stp[c] # "cas"                                                                           \* StopCancel
       /\ ~(stp[c] = "cancelled" /\ NoSending)                                                     \* StopClose
       /\ ~(stp[c] = "closed" /\ WgZero)                                                           \* StopWait
       /\ stp[c] # "waited"                                                                        \* StopDrainOne or StopDrainEnd
  /\ ~(stp["R"] = "idle" /\ rs.ph = "begun")                                                       \* StopCAS("R")
  /\ rs.ph \notin {"closeold", "drained", "swapped", "requeue", "failing"}     \* ResizeCloseOld, Swap, Restart, Requeue or End, FailOne or End
  /\ ~(rs.ph = "draining" /\ q[rs.oldq] # << >>)                                                   \* ResizeDrainOne
  /\ ~(rs.ph = "draining" /\ q[rs.oldq] = << >> /\ closed[rs.oldq])                                \* ResizeDrainEnd

ResolvedInd == QuiescentInd => \A k \in Tasks : sub[k] \notin {"checked", "sending", "waiting"}

\* what ResolvedInd needs: closed queues get drained and stay empty, and a running pool has live workers
\* that listen on the current queue
InGenCur(i) == IF cur = 1 THEN i <= sz[1] ELSE (i > sz[1] /\ i <= sz[1] + sz[2])
Progress ==
  /\ rs.ph = "draining" => closed[1]
  /\ rs.ph \in {"drained", "swapped", "requeue", "failing", "done"} => (q[1] = << >> /\ closed[1])
  /\ cur = 1 => q[2] = << >>
  /\ ~rs.was => q[2] = << >>
  /\ SStopped => stq["S"] = (IF rs.was THEN 2 ELSE 1)
  /\ stp["S"] = "done" => q[stq["S"]] = << >>
  /\ running = 1 => ~cancelled[cur]
  /\ cancelled[2] => (rs.ph = "done" /\ stp["S"] \in {"cancelled", "closed", "waited", "done"})
  /\ \A c \in Callers : stp[c] \in {"cancelled", "closed"} => cancelled[cur]
  /\ \A c \in Callers : stp[c] \in {"closed", "waited"} => closed[cur]
  /\ \A i \in Workers : (i <= sz[1] /\ w[i].ph # "gone") => cur = 1
  /\ \A i \in Workers : w[i].ph = "idle" => w[i].sel = (IF i <= sz[1] THEN 1 ELSE 2)
  /\ running = 1 => \A i \in Workers : InGenCur(i) => w[i].ph \in {"loop", "idle", "exec", "deliver"}

IndInv ==
  /\ TypeOKInd
  /\ QueueSaneInd
  /\ Bounded /\ AtMostOnce /\ NoFakeResult /\ NotRunIsTrue /\ NoPanic
  /\ StopGate /\ NoLostTask
  /\ Lock /\ NoBad /\ Phases /\ Gate /\ WorkersOK /\ Where
  /\ Progress /\ ResolvedInd

\* IndInv as an initial predicate.  Apalache must be told how to build q and rs.pend: every sequence
\* over Tasks of length <= 4 is a prefix of some <<a1, a2, a3, a4>>, so this is IndInv, no less.
IndInit ==
  \E a1, a2, a3, a4, b1, b2, b3, b4, p1, p2, p3, p4 \in Tasks : \E n1, n2, np \in 0..4 :
    /\ q = [g \in Gens |-> IF g = 1 THEN SubSeq(<<a1, a2, a3, a4>>, 1, n1) ELSE SubSeq(<<b1, b2, b3, b4>>, 1, n2)]
    /\ rs \in [ph : ResizePh, was : BOOLEAN, oldq : Gens, pend : {SubSeq(<<p1, p2, p3, p4>>, 1, np)}, lost : BOOLEAN, cold : BOOLEAN]
    /\ IndInv
=============================================================================

------------------------------ MODULE LimitsOps ------------------------------
(***************************************************************************)
(* Pure operators of the transfer-limit model (C23): sizes of an ONC RPC    *)
(* WRITE call record, what FSINFO advertises, and what the server does with *)
(* a READ / WRITE of a given count, for the pinned code and for the         *)
(* repaired one (proposed/F15.patch).  All sizes are bytes (< 2^31).        *)
(*                                                                         *)
(*   T  effective TransferSize (tuning snapshot; 65536 when configured <= 0)*)
(*   R  record limit of the record-marking reader (DefaultMaxRecordSize):   *)
(*      a call record larger than R makes ReadRecord fail and the           *)
(*      connection loop return, i.e. the connection is dropped without a    *)
(*      reply.                                                              *)
(***************************************************************************)
EXTENDS Integers, Sequences, FiniteSets

Max2(a, b) == IF a >= b THEN a ELSE b
Min2(a, b) == IF a <= b THEN a ELSE b
Pad4(n) == ((n + 3) \div 4) * 4

\* RFC 1831 call: xid, msg_type, rpcvers, prog, vers, proc; opaque_auth cred; opaque_auth verf
RpcCallHeader == 6 * 4
OpaqueAuth(bodylen) == 4 + 4 + Pad4(bodylen)
MaxAuthBody == 400
\* RFC 1813 WRITE3args before the data bytes: nfs_fh3 (length + 8 bytes here), offset, count, stable_how, opaque length
FhLen == 8
Write3Fixed == (4 + Pad4(FhLen)) + 8 + 4 + 4 + 4
WriteOverhead(cred, verf) == RpcCallHeader + OpaqueAuth(cred) + OpaqueAuth(verf) + Write3Fixed
WriteRecord(count, cred, verf) == WriteOverhead(cred, verf) + Pad4(count)
\* the largest overhead a conformant call can have (credential and verifier bodies of 400 bytes)
MaxWriteOverhead == WriteOverhead(MaxAuthBody, MaxAuthBody)        \* 872

-----------------------------------------------------------------------------
\* FSINFO as pinned: constants, whatever T is
CodeFsinfo(T, R) == [rtmax |-> 1048576, rtpref |-> 65536, rtmult |-> 4096,
                     wtmax |-> 1048576, wtpref |-> 65536, wtmult |-> 4096]

\* FSINFO as repaired: the maxima are what the server serves in one call - the effective
\* TransferSize, bounded by what fits into one record (R minus a call overhead of 1024 bytes,
\* rounded down to the transfer multiple); preferred sizes and multiples never exceed them
CallReserve == 1024
FixMax(T, R) == LET lim == R - CallReserve
                    m   == Min2(T, lim)
                IN IF m >= 4096 THEN (m \div 4096) * 4096 ELSE m
FixFsinfo(T, R) == LET m == FixMax(T, R) IN
                   [rtmax |-> m, rtpref |-> Min2(65536, m), rtmult |-> Min2(4096, m),
                    wtmax |-> m, wtpref |-> Min2(65536, m), wtmult |-> Min2(4096, m)]

LevelFsinfo(level, T, R) == IF level = "fixed" THEN FixFsinfo(T, R) ELSE CodeFsinfo(T, R)

\* WRITE of `count` bytes in a record of `rec` bytes (both levels: the repair changes FSINFO only).
\* The record limit is applied by the transport before the call is decoded; handleWrite refuses
\* count > T as invalid; WriteWithContext stores min(count, T) bytes.
ServerWrite(T, R, count, rec) ==
  IF rec > R THEN [st |-> "NOREPLY", n |-> 0, alive |-> FALSE]
  ELSE IF count > T THEN [st |-> "INVAL", n |-> 0, alive |-> TRUE]
  ELSE [st |-> "OK", n |-> count, alive |-> TRUE]

\* READ of `count` bytes at `off` of a file of `size` bytes: ReadWithContext clamps to T and to EOF
ServerRead(T, size, off, count) ==
  LET n == Max2(0, Min2(Min2(count, T), size - off)) IN
  [st |-> "OK", n |-> n, eof |-> (off + n >= size), alive |-> TRUE]

-----------------------------------------------------------------------------
(* The property, clause by clause (ideal level; nothing beyond the statement) *)

\* "a WRITE [with count <= wtmax] is accepted (possibly storing fewer bytes and saying so) rather
\*  than refused as invalid or dropped with the connection"
WriteBad(adv, count, w) ==
  IF count > adv.wtmax THEN {}
  ELSE (IF w.st = "NOREPLY" \/ ~w.alive
        THEN {"WRITE within the advertised wtmax got no reply: the connection was dropped"} ELSE {})
  \cup (IF w.st \notin {"OK", "NOREPLY"}
        THEN {"WRITE within the advertised wtmax was refused"} ELSE {})
  \cup (IF w.st = "OK" /\ (w.n < 0 \/ w.n > count)
        THEN {"WRITE reply reports more bytes than were sent"} ELSE {})

\* "a READ [with count <= rtmax] before EOF returns at least one byte"
ReadBad(adv, size, off, count, r) ==
  IF count > adv.rtmax \/ count < 1 \/ off >= size THEN {}
  ELSE (IF r.st # "OK" \/ ~r.alive THEN {"READ within the advertised rtmax before EOF was not served"} ELSE {})
  \cup (IF r.st = "OK" /\ r.n < 1 THEN {"READ within the advertised rtmax before EOF returned no data"} ELSE {})
  \cup (IF r.st = "OK" /\ r.n > count THEN {"READ returned more bytes than requested"} ELSE {})

\* "the advertised maxima and preferred sizes never exceed what the server ... actually accept[s]":
\* the preferred sizes are within the maxima (what is accepted up to the maxima is judged by the
\* probes above)
AdvBad(adv) ==
     (IF adv.rtpref > adv.rtmax THEN {"FSINFO rtpref exceeds rtmax"} ELSE {})
  \cup (IF adv.wtpref > adv.wtmax THEN {"FSINFO wtpref exceeds wtmax"} ELSE {})
  \cup (IF adv.rtmax < 1 \/ adv.wtmax < 1 THEN {"FSINFO advertises a zero transfer size"} ELSE {})

(* Finding F15, the one listed way in which the pinned code fails WriteBad:   *)
(* wtmax is the constant 1 MiB, so a WRITE within it is refused INVAL exactly *)
(* when its count exceeds the effective TransferSize, and is dropped exactly  *)
(* when its record exceeds the record limit.  Any other refusal or drop, a    *)
(* refusal of a count within TransferSize, a drop of a record within R, is    *)
(* not this deviation.                                                        *)
WriteDev(T, R, adv, count, rec, w) ==
  IF count > adv.wtmax THEN {}
  ELSE IF w.st = "NOREPLY" /\ ~w.alive /\ rec > R THEN {"Dev_AdvertisedWriteMaxNotAccepted"}
  ELSE IF w.st = "INVAL" /\ w.alive /\ count > T /\ rec <= R THEN {"Dev_AdvertisedWriteMaxNotAccepted"}
  ELSE {}
=============================================================================

----------------------------- MODULE LimitsTrace -----------------------------
(***************************************************************************)
(* Step validation of recorded FSINFO / WRITE / READ exchanges over a real  *)
(* record-marking TCP connection (harness/vf_limits.go) against LimitsOps   *)
(* (C23).                                                                   *)
(*                                                                         *)
(* Lines:  reset   new server: record limit R, size and fill pattern of the *)
(*                 file that is read                                        *)
(*         cfg     TransferSize set (how: new | tuning | export) and the    *)
(*                 effective value read back from the server                *)
(*         fsinfo  the advertised rtmax/rtpref/rtmult/wtmax/wtpref/wtmult   *)
(*         write   count, offset, credential size, bytes of the call        *)
(*                 record, fill byte; status ("NOREPLY" = no reply), count  *)
(*                 in the reply, whether the connection survived, and the   *)
(*                 first/last stored byte and file size read from the       *)
(*                 backend afterwards                                       *)
(*         read    count, offset; status, returned count, eof, first/last   *)
(*                 byte, whether the connection survived                    *)
(* State carried: T and R of the current server, the last advertisement.    *)
(* Ideal level = LimitsOps!WriteBad / ReadBad / AdvBad (verdict); the one   *)
(* listed deviation is LimitsOps!WriteDev.  Impl level (drift) = the        *)
(* FSINFO values, WRITE / READ outcomes and record sizes the model computes.*)
(***************************************************************************)
EXTENDS LimitsOps, TLC, Json, IOUtils

CONSTANTS KnownDeviations, ImplLevel     \* ImplLevel: "code" | "fixed"

TraceLog == ndJsonDeserialize(IOEnv.VF_TRACE)
N == Len(TraceLog)

VARIABLES l, T, R, file, adv, bad, dev, drift, stats
vars == <<l, T, R, file, adv, bad, dev, drift, stats>>

Cur == TraceLog[l]
Known(d) == d \in KnownDeviations
Tag(S) == {[l |-> l, why |-> w] : w \in S}
None == [rtmax |-> 0, rtpref |-> 0, rtmult |-> 0, wtmax |-> 0, wtpref |-> 0, wtmult |-> 0]
\* fill pattern of the file that is read: one byte value per block
Pat(pos) == ((pos \div file.blk) % file.mod) + 1

Init == /\ l = 1 /\ T = 0 /\ R = 0 /\ file = [size |-> 0, blk |-> 1, mod |-> 1] /\ adv = None
        /\ bad = {} /\ dev = {} /\ drift = {}
        /\ stats = [hist |-> 0, cfgs |-> 0, fsinfo |-> 0, writes |-> 0, reads |-> 0, inval |-> 0, dropped |-> 0,
                    wok |-> 0, rok |-> 0, short |-> 0, maxcount |-> 0]

StepReset ==
  /\ Cur.ev = "reset"
  /\ R' = Cur.R /\ file' = [size |-> Cur.size, blk |-> Cur.blk, mod |-> Cur.mod] /\ T' = 0 /\ adv' = None
  /\ UNCHANGED <<bad, dev, drift>>
  /\ stats' = [stats EXCEPT !.hist = @ + 1]

StepCfg ==
  /\ Cur.ev = "cfg"
  /\ T' = Cur.T /\ adv' = None
  /\ bad' = bad \cup Tag(IF Cur.T < 1 THEN {"effective TransferSize below 1 (outside the configurations C23 speaks about)"} ELSE {})
  /\ UNCHANGED <<R, file, dev, drift>>
  /\ stats' = [stats EXCEPT !.cfgs = @ + 1]

StepFsinfo ==
  /\ Cur.ev = "fsinfo"
  /\ LET a == [rtmax |-> Cur.rtmax, rtpref |-> Cur.rtpref, rtmult |-> Cur.rtmult,
               wtmax |-> Cur.wtmax, wtpref |-> Cur.wtpref, wtmult |-> Cur.wtmult] IN
     /\ adv' = IF Cur.st = "OK" THEN a ELSE None
     /\ bad' = bad \cup Tag(IF Cur.st # "OK" \/ ~Cur.alive THEN {"FSINFO failed"} ELSE AdvBad(a))
     /\ drift' = drift \cup Tag(IF Cur.st = "OK" /\ a # LevelFsinfo(ImplLevel, T, R)
                                THEN {"FSINFO values differ from the modelled ones"} ELSE {})
  /\ UNCHANGED <<T, R, file, dev>>
  /\ stats' = [stats EXCEPT !.fsinfo = @ + 1]

StepWrite ==
  /\ Cur.ev = "write"
  /\ LET w  == [st |-> Cur.st, n |-> Cur.n, alive |-> Cur.alive]
         wb == WriteBad(adv, Cur.count, w)
         wd == {d \in WriteDev(T, R, adv, Cur.count, Cur.rec, w) : Known(d)}
         stored == IF Cur.st = "OK" /\ Cur.n >= 1
                      /\ (Cur.fb # Cur.fill \/ Cur.lb # Cur.fill \/ Cur.size < Cur.off + Cur.n)
                   THEN {"WRITE reply count does not match what the backend stored"} ELSE {}
         m  == ServerWrite(T, R, Cur.count, Cur.rec)
     IN /\ bad' = bad \cup Tag((IF wd # {} THEN {} ELSE wb) \cup stored
                               \cup (IF adv = None THEN {"probe without a preceding FSINFO"} ELSE {}))
        /\ dev' = dev \cup {[l |-> l, name |-> d] : d \in {x \in (IF wb # {} THEN wd ELSE {}) : ~\E e \in dev : e.name = x}}
        /\ drift' = drift \cup Tag((IF m # w THEN {"WRITE outcome differs from the modelled one"} ELSE {})
                        \cup (IF Cur.rec # WriteRecord(Cur.count, Cur.cred, 0)
                              THEN {"WRITE record size differs from the RFC 1831 / RFC 1813 size formula"} ELSE {}))
        /\ stats' = [stats EXCEPT !.writes = @ + 1, !.inval = @ + (IF Cur.st = "INVAL" THEN 1 ELSE 0),
                                  !.dropped = @ + (IF ~Cur.alive THEN 1 ELSE 0),
                                  !.wok = @ + (IF Cur.st = "OK" THEN 1 ELSE 0),
                                  !.maxcount = Max2(@, IF Cur.st = "OK" THEN Cur.n ELSE 0)]
  /\ UNCHANGED <<T, R, file, adv>>

StepRead ==
  /\ Cur.ev = "read"
  /\ LET r  == [st |-> Cur.st, n |-> Cur.n, eof |-> Cur.eof, alive |-> Cur.alive]
         rb == ReadBad(adv, file.size, Cur.off, Cur.count, r)
         data == IF Cur.st = "OK" /\ Cur.n >= 1 /\ Cur.off + Cur.n <= file.size
                    /\ (Cur.fb # Pat(Cur.off) \/ Cur.lb # Pat(Cur.off + Cur.n - 1))
                 THEN {"READ returned bytes that are not the file's"} ELSE {}
         m  == ServerRead(T, file.size, Cur.off, Cur.count)
     IN /\ bad' = bad \cup Tag(rb \cup data \cup (IF adv = None THEN {"probe without a preceding FSINFO"} ELSE {}))
        /\ drift' = drift \cup Tag(IF m # r THEN {"READ outcome differs from the modelled one"} ELSE {})
        /\ stats' = [stats EXCEPT !.reads = @ + 1, !.rok = @ + (IF Cur.st = "OK" /\ Cur.n >= 1 THEN 1 ELSE 0),
                                  !.short = @ + (IF Cur.st = "OK" /\ Cur.n < Cur.count THEN 1 ELSE 0)]
  /\ UNCHANGED <<T, R, file, adv, dev>>

Consume == /\ l <= N
           /\ l' = l + 1
           /\ (StepReset \/ StepCfg \/ StepFsinfo \/ StepWrite \/ StepRead)

Finish == /\ l = N + 1
          /\ l' = N + 2
          /\ JsonSerialize(IOEnv.VF_RESULT,
                [n |-> N, consumed |-> l - 1, bad |-> bad, dev |-> dev, drift |-> drift, stats |-> stats])
          /\ UNCHANGED <<T, R, file, adv, bad, dev, drift, stats>>

Next == Consume \/ Finish
Spec == Init /\ [][Next]_vars
=============================================================================

------------------------------- MODULE Limits -------------------------------
(***************************************************************************)
(* Design spec of the advertised transfer limits (C23).                     *)
(*                                                                         *)
(* The server is configured with a TransferSize (at construction or at run  *)
(* time: Reconfigure), a client asks FSINFO and then issues READ and WRITE  *)
(* calls whose counts are 1, the preferred size, max-1 and max of what was  *)
(* advertised, over a record-marking connection with a credential of any    *)
(* legal size.  Level "code" is the pinned server (FSINFO constants),       *)
(* "fixed" the repaired one (proposed/F15.patch: maxima derived from the    *)
(* effective TransferSize and the record limit).                            *)
(*                                                                         *)
(* Invariants = the property:                                              *)
(*   WriteServed   every WRITE with count <= wtmax is accepted and its      *)
(*                 record fits the record limit                             *)
(*   ReadServed    every READ with count <= rtmax before EOF returns >= 1   *)
(*   Advertised    preferred <= maxima, maxima <= min(what T serves,        *)
(*                 R - overhead of the largest legal call)                  *)
(* plus Classified: every failing WRITE of the pinned server is the named   *)
(* deviation of finding F15 (so the trace spec's guard is exactly as wide   *)
(* as the code's behaviour).                                                *)
(***************************************************************************)
EXTENDS LimitsOps, TLC

CONSTANTS Ts,       \* TransferSize values, e.g. {1, 512, 65536, 1048576, 2097152}
          R,        \* record limit (1048576)
          Creds,    \* credential body sizes, e.g. {0, 24, 340, 400}
          FileSize, \* size of the file read from
          Level     \* "code" | "fixed"

VARIABLES T,     \* effective TransferSize
          adv,   \* what the last FSINFO advertised under the current T ("none" after a change)
          last   \* last probe and its outcome
vars == <<T, adv, last>>

None == [rtmax |-> 0, rtpref |-> 0, rtmult |-> 0, wtmax |-> 0, wtpref |-> 0, wtmult |-> 0]

Init == T \in Ts /\ adv = None /\ last = [op |-> "init"]

Reconfigure(t) == /\ t # T /\ T' = t /\ adv' = None /\ last' = [op |-> "cfg"]

Fsinfo == /\ adv' = LevelFsinfo(Level, T, R) /\ last' = [op |-> "fsinfo"] /\ UNCHANGED T

Counts(pref, max) == {c \in {1, pref, max - 1, max, T, T + 1} : c >= 0 /\ c <= max}

Write(count, cred) ==
  /\ adv # None
  /\ LET rec == WriteRecord(count, cred, 0) IN
     last' = [op |-> "write", count |-> count, cred |-> cred, rec |-> rec, w |-> ServerWrite(T, R, count, rec)]
  /\ UNCHANGED <<T, adv>>

Read(count, off) ==
  /\ adv # None
  /\ last' = [op |-> "read", count |-> count, off |-> off, r |-> ServerRead(T, FileSize, off, count)]
  /\ UNCHANGED <<T, adv>>

Next == \/ \E t \in Ts : Reconfigure(t)
        \/ Fsinfo
        \/ \E count \in Counts(adv.wtpref, adv.wtmax), cred \in Creds : Write(count, cred)
        \/ \E count \in Counts(adv.rtpref, adv.rtmax), off \in {0, FileSize \div 2, FileSize - 1, FileSize} : Read(count, off)
Spec == Init /\ [][Next]_vars

-----------------------------------------------------------------------------
WriteServed == last.op = "write" =>
   /\ WriteBad(adv, last.count, last.w) = {}
   /\ last.rec <= R
ReadServed == last.op = "read" => ReadBad(adv, FileSize, last.off, last.count, last.r) = {}
Advertised == adv # None =>
   /\ AdvBad(adv) = {}
   /\ adv.wtmax <= Min2(T, R - MaxWriteOverhead)
   /\ adv.rtmax <= Min2(T, R - MaxWriteOverhead)
   /\ adv.rtmult <= adv.rtmax /\ adv.wtmult <= adv.wtmax

\* the pinned server: every WRITE the property rejects is the listed deviation, and nothing else fails
Classified ==
  /\ (last.op = "write" /\ WriteBad(adv, last.count, last.w) # {})
        => WriteDev(T, R, adv, last.count, last.rec, last.w) = {"Dev_AdvertisedWriteMaxNotAccepted"}
  /\ (last.op = "write" /\ WriteBad(adv, last.count, last.w) = {})
        => WriteDev(T, R, adv, last.count, last.rec, last.w) = {}
PrefWithinMax == adv # None => AdvBad(adv) = {}
=============================================================================

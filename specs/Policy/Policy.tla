------------------------------- MODULE Policy -------------------------------
(***************************************************************************)
(* The three decision rules of the request path of absnfs, written from the *)
(* property statements C09, C10, C12 (not from the Go code):                *)
(*                                                                         *)
(*   A  host filter and secure-port rule   Member / HostVerdict / Admit     *)
(*   B  identity squashing                 Squash / AuthVerdict             *)
(*   C  ACCESS decision                    Access / AccessOK                *)
(*                                                                         *)
(* This module is pure (no variables).  It is the single oracle:            *)
(*   PolicyMC    checks the rules' algebra exhaustively and that the        *)
(*               transcriptions of the Go functions (section "impl level")  *)
(*               refine them, over small address widths / the id set /      *)
(*               the full ACCESS space;                                     *)
(*   PolicyGen   enumerates the test vectors together with these rules'     *)
(*               verdicts;                                                  *)
(*   PolicyTrace re-evaluates the same operators on what the real code was  *)
(*               recorded doing.                                            *)
(* Where a property leaves a choice the verdict is "either".                *)
(***************************************************************************)
EXTENDS Integers, Sequences, FiniteSets, TLC

CONSTANTS W4,   \* width of an IPv4 address in bits (32; smaller in exhaustive runs)
          PZ,   \* number of leading 0 bits of the IPv4-mapped IPv6 prefix (80)
          PO    \* number of 1 bits that follow them (16): ::ffff:0:0/96

ASSUME W4 \in Nat \ {0} /\ PZ \in Nat /\ PO \in Nat \ {0}

Rng(s) == {s[i] : i \in DOMAIN s}

-----------------------------------------------------------------------------
(* A.  Addresses are bit sequences; host filter (C09)                       *)

P  == PZ + PO          \* length of the mapped prefix (96)
W6 == P + W4           \* width of an IPv6 address (128)
Width(fam) == IF fam = "v4" THEN W4 ELSE W6

\* (TLC keeps [i \in S |-> e] lazy and re-evaluates e at every application; \o forces a tuple)
Force(q) == q \o <<>>
MappedPrefix == Force([i \in 1..P |-> IF i <= PZ THEN 0 ELSE 1])

\* an address: [fam |-> "v4" | "v6", bits |-> sequence of 0/1 of length Width(fam)]
WellFormedAddr(a) == /\ a.fam \in {"v4", "v6"}
                     /\ Len(a.bits) = Width(a.fam)
                     /\ \A i \in 1..Len(a.bits) : a.bits[i] \in {0, 1}

IsMapped(a) == a.fam = "v6" /\ SubSeq(a.bits, 1, P) = MappedPrefix
\* IPv4-mapped IPv6 normalisation: ::ffff:a.b.c.d denotes the IPv4 address a.b.c.d
Norm(a)  == IF IsMapped(a) THEN [fam |-> "v4", bits |-> SubSeq(a.bits, P + 1, W6)] ELSE a
\* the inverse embedding, used by the second reading below
Embed(a) == IF a.fam = "v4" THEN [fam |-> "v6", bits |-> MappedPrefix \o a.bits] ELSE a

PrefixEq(x, y, n) == SubSeq(x, 1, n) = SubSeq(y, 1, n)

(* A client:  [kind |-> "addr" | "zoned" | "bad", a |-> address]             *)
(*   "zoned" = a well-formed IPv6 address with a zone suffix (fe80::1%eth0), *)
(*   "bad"   = a string that denotes no address (field a is ignored).        *)
(* A list entry: [kind |-> "ip" | "cidr" | "zonedip" | "bad", a, len]        *)
(*   "cidr" with 0 <= len <= Width(a.fam); the base may have host bits set   *)
(*   (10.1.2.3/8 denotes 10.0.0.0/8); "bad" = unparseable text (bad prefix   *)
(*   length, garbage, ...), it matches nothing.                              *)

ValidEntry(e) == \/ e.kind \in {"ip", "zonedip"} /\ WellFormedAddr(e.a)
                 \/ e.kind = "cidr" /\ WellFormedAddr(e.a) /\ e.len \in 0..Width(e.a.fam)

(* Reading 1: both sides are normalised to their own family and compared    *)
(* inside that family (an IPv4-mapped CIDR of length >= 96 is the IPv4 CIDR  *)
(* of length len - 96).                                                      *)
NormEntry(e) ==
  IF e.kind = "cidr" /\ IsMapped(e.a) /\ e.len >= P
    THEN [e EXCEPT !.a = Norm(e.a), !.len = e.len - P]
  ELSE IF e.kind \in {"ip", "zonedip"} THEN [e EXCEPT !.a = Norm(e.a)]
  ELSE e

In1(ca, e) ==
  LET cn == Norm(ca)
      ne == NormEntry(e)
  IN  CASE e.kind \in {"ip", "zonedip"} -> ne.a = cn
        [] e.kind = "cidr" -> ne.a.fam = cn.fam /\ PrefixEq(ne.a.bits, cn.bits, ne.len)
        [] OTHER -> FALSE

(* Reading 2: everything is embedded into the 128-bit space (a.b.c.d is      *)
(* ::ffff:a.b.c.d, a.b.c.d/n is ::ffff:a.b.c.d/(96+n)) and compared there.   *)
In2(ca, e) ==
  LET c6 == Embed(ca)
      e6 == Embed(e.a)
      n  == IF e.a.fam = "v4" THEN e.len + P ELSE e.len
  IN  CASE e.kind \in {"ip", "zonedip"} -> e6 = c6
        [] e.kind = "cidr" -> PrefixEq(e6.bits, c6.bits, n)
        [] OTHER -> FALSE

(* The property says "after IPv4-mapped IPv6 normalisation" but not in which *)
(* family the comparison then happens; the two readings differ only for an   *)
(* IPv4 (or mapped) client against an IPv6 CIDR shorter than /96 that covers *)
(* the mapped range (checked: PolicyMC!EitherCharacterised).  There, and for *)
(* a positive match that involves a zone suffix, both answers are accepted.  *)
EntryVerdict(c, e) ==
  IF c.kind = "bad" \/ ~ValidEntry(e) THEN "no"
  ELSE LET r1 == In1(c.a, e)
           r2 == In2(c.a, e)
           zone == c.kind = "zoned" \/ e.kind = "zonedip"
       IN  IF r1 /\ r2 THEN (IF zone THEN "either" ELSE "yes")
           ELSE IF r1 \/ r2 THEN "either"
           ELSE "no"

\* list = sequence of entries
MemberVerdict(c, list) ==
  IF \E i \in DOMAIN list : EntryVerdict(c, list[i]) = "yes" THEN "yes"
  ELSE IF \E i \in DOMAIN list : EntryVerdict(c, list[i]) = "either" THEN "either"
  ELSE "no"

\* the definite membership relation (reading 1), for algebraic properties
Member(c, list) == c.kind = "addr" /\ \E i \in DOMAIN list : ValidEntry(list[i]) /\ list[i].kind # "zonedip" /\ In1(c.a, list[i])

\* AllowedIPs empty: no host filtering at all
HostVerdict(c, list) == IF Len(list) = 0 THEN "yes" ELSE MemberVerdict(c, list)

PortOK(secure, port) == ~secure \/ port < 1024

\* a request is processed only if ...
AdmitVerdict(c, port, list, secure) ==
  IF ~PortOK(secure, port) THEN "no" ELSE HostVerdict(c, list)

Agrees(verdict, b) == verdict = "either" \/ (verdict = "yes") = b

-----------------------------------------------------------------------------
(* A, impl level: isIPAllowed (auth.go) and Server.isIPAllowed (server.go),  *)
(* transcribed at the grain of the Go code: net.ParseIP, normalizeIP,        *)
(* net.ParseCIDR (network number = masked base, 4 or 16 bytes), and          *)
(* IPNet.Contains (To4 of the *masked* network number, mask tail m[12:],     *)
(* length comparison, masked byte comparison), IP.Equal.                     *)
(* Variant switches model realistic wrong implementations (non-vacuity).     *)

MaskBits(bits, n) == Force([i \in 1..Len(bits) |-> IF i <= n THEN bits[i] ELSE 0])
To4(a) == IF a.fam = "v4" THEN a ELSE IF IsMapped(a) THEN Norm(a) ELSE [fam |-> "nil", bits |-> <<>>]
Max0(n) == IF n < 0 THEN 0 ELSE n

GoParseIP(c) == IF c.kind = "addr" THEN c.a ELSE [fam |-> "nil", bits |-> <<>>]   \* zone suffix: ParseIP fails

GoContains(e, ip) ==        \* e: a valid "cidr" entry; ip: the normalised client
  LET netip == [fam |-> e.a.fam, bits |-> MaskBits(e.a.bits, e.len)]   \* ParseCIDR: IP.Mask(m)
      t4    == To4(netip)
      nn    == IF t4.fam # "nil" THEN t4 ELSE netip                   \* networkNumberAndMask
      mlen  == IF e.a.fam = "v6" /\ nn.fam = "v4" THEN Max0(e.len - P) ELSE e.len   \* m = m[12:]
      x4    == To4(ip)
      ipx   == IF x4.fam # "nil" THEN x4 ELSE ip
  IN  /\ Len(ipx.bits) = Len(nn.bits)
      /\ \A i \in 1..mlen : nn.bits[i] = ipx.bits[i]

GoEqual(a, b) == LET a4 == To4(a)  b4 == To4(b)
                 IN IF a4.fam # "nil" /\ b4.fam # "nil" THEN a4.bits = b4.bits
                    ELSE a.fam = b.fam /\ a.bits = b.bits

RECURSIVE GoLoop(_, _, _, _)
GoLoop(ip, list, i, variant) ==
  IF i > Len(list) THEN FALSE
  ELSE LET e == list[i] IN
       IF ~ValidEntry(e) \/ e.kind = "zonedip"       \* ParseCIDR / ParseIP fail: skip this entry
         THEN (IF variant = "badstops" THEN FALSE ELSE GoLoop(ip, list, i + 1, variant))
       ELSE IF e.kind = "cidr"
         THEN (IF GoContains(e, ip) THEN TRUE ELSE GoLoop(ip, list, i + 1, variant))
       ELSE IF (IF variant = "strictfam" THEN e.a = ip ELSE GoEqual(Norm(e.a), ip))
         THEN TRUE
       ELSE GoLoop(ip, list, i + 1, variant)

GoIsIPAllowed(c, list, variant) ==
  LET ip == GoParseIP(c) IN
  IF ip.fam = "nil" THEN FALSE
  ELSE GoLoop(IF variant = "strictfam" THEN ip ELSE Norm(ip), list, 1, variant)

\* ValidateAuthentication steps 1-2 and Server.isIPAllowed's leading emptiness test
GoHostStep(c, list, variant) == Len(list) = 0 \/ GoIsIPAllowed(c, list, variant)
GoPortStep(secure, port)     == ~(secure /\ port >= 1024)

-----------------------------------------------------------------------------
(* B.  Identity squashing (C10).  Ids are opaque tokens (decimal strings:    *)
(* TLC integers are 32-bit); the rule needs equality with 0 only.            *)

ROOT   == "0"
NOBODY == "65534"

\* the mode strings exercised and their lower-case forms (TLC has no string operations; a
\* string outside the table is taken as already lower-case)
LowerTab == [m \in {"all", "root", "none", "", "ROOT", "All", "nOnE", "Root", "NONE", "bogus", "rooty", "al"} |->
               CASE m = "ROOT" -> "root" [] m = "Root" -> "root" [] m = "All" -> "all"
                 [] m = "nOnE" -> "none" [] m = "NONE" -> "none" [] OTHER -> m]
Lower(m) == IF m \in DOMAIN LowerTab THEN LowerTab[m] ELSE m

\* recognised modes; the empty string is the documented default "none"
ModeClass(lower) == CASE lower = "all" -> "all" [] lower = "root" -> "root"
                      [] lower \in {"none", ""} -> "none" [] OTHER -> "unrecognised"

SquashIds(mc, uid, gid, aux) ==
  CASE mc = "all"  -> [uid |-> NOBODY, gid |-> NOBODY, aux |-> [i \in DOMAIN aux |-> NOBODY]]
    [] mc = "root" -> [uid |-> IF uid = ROOT THEN NOBODY ELSE uid,
                       gid |-> IF uid = ROOT \/ gid = ROOT THEN NOBODY ELSE gid,
                       aux |-> [i \in DOMAIN aux |-> IF aux[i] = ROOT THEN NOBODY ELSE aux[i]]]
    [] mc = "none" -> [uid |-> uid, gid |-> gid, aux |-> aux]
    [] OTHER       -> [uid |-> NOBODY, gid |-> NOBODY, aux |-> aux]   \* aux: see AuxFree

\* the statement constrains only uid and gid for an unrecognised mode
AuxFree(mc) == mc \notin {"all", "root", "none"}

(* Credential: [flavor, body, uid, gid, aux]                                 *)
(*  flavor "NONE" | "SYS" | "SHORT" | "DH" | "OTHER"                         *)
(*  body (AUTH_SYS only): "ok"; undecodable: "empty", "cut" (truncated       *)
(*  anywhere), "gids17" (count above the 16-entry limit), "count_lies"       *)
(*  (count larger than the gids present), "name_huge" (machine name length   *)
(*  beyond the body); a matter of taste: "trailing" (well-formed plus extra  *)
(*  bytes), "name256" (machine name longer than RFC 5531's 255 but present)  *)
Undecodable == {"empty", "cut", "gids17", "count_lies", "name_huge"}
Lenient     == {"trailing", "name256"}

\* [allow |-> "yes"|"no"|"either", uid, gid, aux, sys (an AUTH_SYS identity exists), auxfree]
AuthVerdict(mc, cred) ==
  CASE cred.flavor = "NONE" ->
         [allow |-> "yes", uid |-> NOBODY, gid |-> NOBODY, aux |-> <<>>, sys |-> FALSE, auxfree |-> FALSE]
    [] cred.flavor = "SYS" /\ cred.body \in {"ok"} \cup Lenient ->
         LET s == SquashIds(mc, cred.uid, cred.gid, cred.aux) IN
         [allow |-> IF cred.body = "ok" THEN "yes" ELSE "either",
          uid |-> s.uid, gid |-> s.gid, aux |-> s.aux, sys |-> TRUE, auxfree |-> AuxFree(mc)]
    [] OTHER ->
         [allow |-> "no", uid |-> NOBODY, gid |-> NOBODY, aux |-> <<>>, sys |-> FALSE, auxfree |-> FALSE]

\* does an observed outcome match the verdict?  obs = [allowed, uid, gid, aux]
AuthMatches(v, obs) ==
  /\ Agrees(v.allow, obs.allowed)
  /\ obs.allowed => /\ obs.uid = v.uid /\ obs.gid = v.gid
                    /\ (v.sys /\ ~v.auxfree) => obs.aux = v.aux

(* B, impl level: applySquashing transcribed (strings.ToLower is the         *)
(* caller-supplied lower-casing), with variants for non-vacuity.             *)
GoSquash(lower, uid, gid, aux, variant) ==
  CASE lower = "root" ->
         [uid |-> IF uid = ROOT THEN NOBODY ELSE uid,
          gid |-> IF uid = ROOT THEN NOBODY ELSE IF gid = ROOT THEN NOBODY ELSE gid,
          aux |-> IF variant = "root_keeps_aux" THEN aux
                  ELSE [i \in DOMAIN aux |-> IF aux[i] = ROOT THEN NOBODY ELSE aux[i]]]
    [] lower = "all" ->
         [uid |-> NOBODY, gid |-> NOBODY, aux |-> [i \in DOMAIN aux |-> NOBODY]]
    [] lower \in {"none", ""} -> [uid |-> uid, gid |-> gid, aux |-> aux]
    [] OTHER -> [uid |-> NOBODY, gid |-> NOBODY, aux |-> aux]

-----------------------------------------------------------------------------
(* C.  ACCESS (C12).  ACCESS3 bits: READ 1, LOOKUP 2, MODIFY 4, EXTEND 8,    *)
(* DELETE 16, EXECUTE 32; masks and results are integers 0..63.              *)

AccBits == <<1, 2, 4, 8, 16, 32>>
HasBit(m, b) == (m \div b) % 2 = 1
BitAnd6(m, a) == LET F[k \in 0..6] == IF k = 0 THEN 0
                                      ELSE F[k - 1] + (IF HasBit(m, AccBits[k]) /\ HasBit(a, AccBits[k]) THEN AccBits[k] ELSE 0)
                 IN F[6]
\* evaluated once by TLC (constant-level definition)
AndTab == [m \in 0..63 |-> [a \in 0..63 |-> BitAnd6(m, a)]]

\* AndRow[a] = the 64 results (mask 0..63, as a sequence) when exactly the bits a are permitted
AndRow == [a \in 0..63 |-> Force([m \in 1..64 |-> AndTab[m - 1][a]])]

\* who = [uid, gid, aux]; obj = [uid, gid]: the caller's permission class
Class(obj, who) == IF who.uid = obj.uid THEN "owner"
                   ELSE IF who.gid = obj.gid \/ obj.gid \in Rng(who.aux) THEN "group"
                   ELSE "other"

Triad(mode, class) == CASE class = "owner" -> (mode \div 64) % 8
                        [] class = "group" -> (mode \div 8) % 8
                        [] OTHER           -> mode % 8

\* rwx the caller holds: the class triad; root holds every permission
Rwx(mode, class, isRoot) == IF isRoot THEN 7 ELSE Triad(mode, class)

\* bits the rule grants when all 6 are requested
AccessAll(mode, isDir, class, isRoot, ro) ==
  LET p == Rwx(mode, class, isRoot)
      r == p \div 4 = 1
      w == (p \div 2) % 2 = 1 /\ ~ro         \* nothing that modifies on a read-only export
      x == p % 2 = 1
  IN  (IF r THEN 1 ELSE 0)
    + (IF isDir /\ x THEN 2 ELSE 0)          \* LOOKUP only on directories
    + (IF w THEN 4 + 8 ELSE 0)
    + (IF w /\ isDir THEN 16 ELSE 0)         \* DELETE only on directories
    + (IF ~isDir /\ x THEN 32 ELSE 0)        \* EXECUTE of a file
\* EXECUTE on a directory has no meaning in RFC 1813: granted-if-x or never, both accepted
AccessOptional(mode, isDir, class, isRoot) ==
  IF isDir /\ Rwx(mode, class, isRoot) % 2 = 1 THEN 32 ELSE 0

Access(mode, isDir, class, isRoot, ro, mask) == AndTab[mask][AccessAll(mode, isDir, class, isRoot, ro)]

AccessOK(mode, isDir, class, isRoot, ro, mask, granted) ==
  LET a == AccessAll(mode, isDir, class, isRoot, ro)
      o == AccessOptional(mode, isDir, class, isRoot)
  IN  granted = AndTab[mask][a] \/ granted = AndTab[mask][a + o]

(* C, impl level: handleAccess transcribed (if/else chain, auxiliary loop,   *)
(* root override after class selection), with variants for non-vacuity.      *)
GoAccess(mode, isDir, obj, who, ro, mask, variant) ==
  LET perm == IF who.uid = obj.uid THEN (mode \div 64) % 8
              ELSE IF who.gid = obj.gid THEN (mode \div 8) % 8
              ELSE IF variant # "no_aux" /\ \E i \in DOMAIN who.aux : who.aux[i] = obj.gid THEN (mode \div 8) % 8
              ELSE mode % 8
      pb   == IF who.uid = ROOT THEN 7 ELSE perm
      r == pb \div 4 = 1   w == (pb \div 2) % 2 = 1   x == pb % 2 = 1
      rw == ~ro \/ variant = "ro_ignored_for_extend"
  IN  (IF HasBit(mask, 1) /\ r THEN 1 ELSE 0)
    + (IF HasBit(mask, 2) /\ isDir /\ x THEN 2 ELSE 0)
    + (IF HasBit(mask, 32) /\ x THEN 32 ELSE 0)
    + (IF ~ro /\ HasBit(mask, 4) /\ w THEN 4 ELSE 0)
    + (IF rw /\ HasBit(mask, 8) /\ w THEN 8 ELSE 0)
    + (IF ~ro /\ HasBit(mask, 16) /\ isDir /\ w THEN 16 ELSE 0)
=============================================================================

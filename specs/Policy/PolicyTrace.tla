---------------------------- MODULE PolicyTrace ----------------------------
(***************************************************************************)
(* Validation of what the real code was recorded doing on the vectors of    *)
(* PolicyGen, against the operators of module Policy (W4 = 32, PZ = 80,     *)
(* PO = 16).  One ndjson line per vector / row:                              *)
(*                                                                         *)
(*  "c09"  client, allow-list (bit sequences), port, secure; the answers of  *)
(*         isIPAllowed (auth.go), Server.isIPAllowed, ValidateAuthentication;*)
(*         per request sent through HandleCall: reply status, whether a      *)
(*         procedure handler was dispatched, backend calls, handle-table     *)
(*         change; through acceptLoop: connection refused or served; the    *)
(*         same list given at construction (New): filter answer, one MNT     *)
(*  "c10"  squash mode, credential; AuthResult / AuthContext after           *)
(*         ValidateAuthentication (parsed inside, and with a pre-parsed      *)
(*         credential whose gid slice is shared with the caller: before and  *)
(*         after images); through HandleCall: effective ids and the probe    *)
(*         objects on which ACCESS granted READ                              *)
(*  "c09s" / "c10s"  sessions on one connection through the real connection   *)
(*         loop: policy replaced between requests (C09), credentials changing  *)
(*         between requests (C10)                                              *)
(*  "c12"  object mode/kind/owner as reported in the ACCESS replies, caller, *)
(*         read-only flag and the 64 granted values (one per request mask)   *)
(*                                                                         *)
(* Lines are independent (the rules are functions), so the spec walks the    *)
(* file once, never stops at a failure and collects                          *)
(*   bad   - ideal-level failures [l, why]  (the verdict)                    *)
(*   dev   - steps explained only by a listed known deviation (none so far)  *)
(*   drift - the recorded vector does not carry the rule's own verdict, or   *)
(*           an observation is unusable (never a verdict)                    *)
(***************************************************************************)
EXTENDS Policy, Json, IOUtils

CONSTANTS KnownDeviations

TraceLog == ndJsonDeserialize(IOEnv.VF_TRACE)
N == Len(TraceLog)

VARIABLES l, bad, dev, drift, stats
vars == <<l, bad, dev, drift, stats>>

Cur == TraceLog[l]
Tag(S) == {[l |-> l, why |-> w] : w \in S}
If(c, w) == IF c THEN {w} ELSE {}

-----------------------------------------------------------------------------
(* C09 *)
Cl09 == [kind |-> Cur.client.kind, a |-> Cur.client.a]
Li09 == [i \in 1..Len(Cur.list) |-> [kind |-> Cur.list[i].kind, a |-> Cur.list[i].a, len |-> Cur.list[i].len]]

CallBad(c, av) ==
     If(av = "no" /\ c.rpc # "DENIED", "a request the rule rejects was not answered MSG_DENIED")
  \cup If(c.rpc = "DENIED" /\ (c.dispatched \/ c.backend > 0 \/ c.hdelta # 0),
          "a rejected request reached a procedure handler or the backend")
  \cup If(av = "no" /\ c.rpc # "DENIED" /\ (c.dispatched \/ c.backend > 0),
          "a request the rule rejects reached a procedure handler or the backend")
  \cup If(av = "yes" /\ c.cred = "sys" /\ c.rpc = "DENIED", "an admissible request was answered MSG_DENIED")

\* mv = MemberVerdict(Cl09, Li09), computed once per line by the caller
HostOf(mv) == IF Len(Cur.list) = 0 THEN "yes" ELSE mv
AdmitOf(mv) == IF ~PortOK(Cur.secure, Cur.port) THEN "no" ELSE HostOf(mv)
Bad09(mv) ==
  LET hv == HostOf(mv)
      av == AdmitOf(mv)
  IN   If(Cur.pkg.run /\ ~Agrees(mv, Cur.pkg.allowed), "isIPAllowed (auth.go) disagrees with the membership rule")
    \cup If(~Agrees(hv, Cur.srv.allowed), "Server.isIPAllowed (connection-level filter) disagrees with the membership rule")
    \cup If(~Agrees(av, Cur.va.allowed), "ValidateAuthentication decides against the host and port rule")
    \cup UNION {CallBad(Cur.calls[i], av) : i \in 1..Len(Cur.calls)}
    \cup If(Cur.ctor.run /\ ~Agrees(hv, Cur.ctor.srv),
            "with the list given at construction, Server.isIPAllowed disagrees with the membership rule")
    \cup (IF Cur.ctor.run THEN CallBad(Cur.ctor, av) ELSE {})
    \cup If(Cur.conn.run /\ ~Agrees(hv, ~Cur.conn.refused), "acceptLoop accepts or refuses a connection against the membership rule")
    \cup If(Cur.conn.run /\ ~Cur.conn.refused /\ Cur.conn.rpc # "NONE" /\ ~Agrees(av, Cur.conn.rpc = "ACCEPTED"),
            "a request on an accepted connection is decided against the host and port rule")
\* HostVerdict / AdmitVerdict of module Policy are HostOf / AdmitOf of the member verdict (same definitions)
Drift09(mv) ==
  If(Cur.exp.host # HostOf(mv) \/ Cur.exp.admit # AdmitOf(mv), "c09: the vector does not carry the rule's verdict")

(* C09 sessions ("c09s"): one connection through the real acceptLoop / connection loop; step 1's  *)
(* policy is in force at connect time, each later step's policy is installed at run time before  *)
(* the step's request is sent on the same connection.                                             *)
LiOf(list) == [i \in 1..Len(list) |-> [kind |-> list[i].kind, a |-> list[i].a, len |-> list[i].len]]
StepBad(st, av) ==
     If(av = "no" /\ st.rpc # "DENIED",
        "a request on an open connection that the policy in force rejects was not answered MSG_DENIED")
  \cup If(st.rpc = "DENIED" /\ (st.dispatched \/ st.backend > 0 \/ st.hdelta # 0),
          "a rejected request reached a procedure handler or the backend")
  \cup If(av = "no" /\ st.rpc # "DENIED" /\ (st.dispatched \/ st.backend > 0),
          "a request on an open connection that the policy in force rejects reached a procedure handler or the backend")
  \cup If(av = "yes" /\ st.rpc # "ACCEPTED", "an admissible request on an open connection was not processed")
Bad09s ==
  LET hv0 == HostVerdict(Cl09, LiOf(Cur.steps[1].list))
  IN   If(~Agrees(hv0, ~Cur.refused), "acceptLoop accepts or refuses a connection against the membership rule")
    \cup UNION {IF Cur.steps[k].sent
                  THEN StepBad(Cur.steps[k], AdmitVerdict(Cl09, Cur.port, LiOf(Cur.steps[k].list), Cur.steps[k].secure))
                  ELSE {} : k \in 1..Len(Cur.steps)}
Drift09s ==
     If(Cur.exp_conn # HostVerdict(Cl09, LiOf(Cur.steps[1].list))
          \/ \E k \in 1..Len(Cur.steps) :
                Cur.steps[k].exp # AdmitVerdict(Cl09, Cur.port, LiOf(Cur.steps[k].list), Cur.steps[k].secure),
        "c09s: the session does not carry the rule's verdicts")
  \cup If(~Cur.refused /\ \E k \in 1..Len(Cur.steps) : ~Cur.steps[k].sent /\ \A j \in 1..(k - 1) : Cur.steps[j].rpc # "CLOSED",
          "c09s: a step of an open session was not driven")

-----------------------------------------------------------------------------
(* C10 *)
\* mode classes a mode string may act as: its lower-case reading; a mixed-case string that the
\* configuration layer (New) does not accept may also be treated as unrecognised
ModeClasses(mode, cfgOk) ==
  IF mode = Lower(mode) \/ cfgOk THEN {ModeClass(Lower(mode))}
  ELSE {ModeClass(Lower(mode)), "unrecognised"}

Cred10 == [flavor |-> Cur.cred.flavor, body |-> Cur.cred.body, uid |-> Cur.cred.uid, gid |-> Cur.cred.gid, aux |-> Cur.cred.aux]
Obs(o) == [allowed |-> o.allowed, uid |-> o.uid, gid |-> o.gid, aux |-> o.aux]

ProbeIds == {"0", "1", "1000", "65534", "65535", "2147483648", "4294967295"}
FarU == "777777"
FarG == "888888"
\* objects on which the rule lets identity `who` READ: files u:FarG mode 0400, files FarU:g mode 0040
OwnSet(who) == {u \in ProbeIds : Access(256, FALSE, Class([uid |-> u, gid |-> FarG], who), who.uid = ROOT, FALSE, 1) = 1}
GrpSet(who) == {g \in ProbeIds : Access(32, FALSE, Class([uid |-> FarU, gid |-> g], who), who.uid = ROOT, FALSE, 1) = 1}

ProbesOK(v) ==
  (Cur.hc.run /\ Cur.hc.allowed) =>
     LET who == [uid |-> v.uid, gid |-> v.gid, aux |-> IF v.sys /\ ~v.auxfree THEN v.aux ELSE Cur.hc.aux]
     IN  Rng(Cur.hc.own) = OwnSet(who) /\ Rng(Cur.hc.grp) = GrpSet(who)

Why10(v) ==
     If(~Agrees(v.allow, Cur.va.allowed) \/ (Cur.pre.run /\ ~Agrees(v.allow, Cur.pre.allowed))
          \/ (Cur.hc.run /\ ~Agrees(v.allow, Cur.hc.allowed)),
        "a credential is admitted or denied against the rule (flavor / decodability)")
  \cup If(\E o \in {Cur.va} \cup (IF Cur.pre.run THEN {Cur.pre} ELSE {}) \cup (IF Cur.hc.run THEN {Cur.hc} ELSE {}) :
             o.allowed /\ (o.uid # v.uid \/ o.gid # v.gid),
          "effective uid/gid differ from the squash rule")
  \cup If(\E o \in {Cur.va} \cup (IF Cur.pre.run THEN {Cur.pre} ELSE {}) \cup (IF Cur.hc.run THEN {Cur.hc} ELSE {}) :
             o.allowed /\ v.sys /\ ~v.auxfree /\ o.aux # v.aux,
          "auxiliary gids after squashing differ from the rule")
  \cup If(~ProbesOK(v), "the identity ACCESS acts on differs from the squashed identity")

Explains(v) == /\ AuthMatches(v, Obs(Cur.va))
               /\ Cur.pre.run => AuthMatches(v, Obs(Cur.pre))
               /\ Cur.hc.run => AuthMatches(v, Obs(Cur.hc))
               /\ ProbesOK(v)

Bad10 ==
  LET mcs == ModeClasses(Cur.mode, Cur.cfg_ok)
  IN  (IF \E mc \in mcs : Explains(AuthVerdict(mc, Cred10)) THEN {}
       ELSE Why10(AuthVerdict(ModeClass(Lower(Cur.mode)), Cred10)))
   \cup If(Cur.pre.run /\ (Cur.pre.shared_after # Cur.pre.shared_before \/ Cur.pre.spare_after # Cur.pre.spare_before),
           "squashing altered auxiliary-gid data shared with the caller")
Drift10 ==
  LET v == AuthVerdict(ModeClass(Lower(Cur.mode)), Cred10)
  IN  If(Cur.exp.allow # v.allow \/ Cur.exp.uid # v.uid \/ Cur.exp.gid # v.gid \/ Cur.exp.aux # v.aux
           \/ Cur.lower # Lower(Cur.mode),
         "c10: the vector does not carry the rule's verdict")

(* C10 sessions ("c10s"): requests with different credentials on one connection through the      *)
(* connection loop; per request the reply status and the probe objects on which ACCESS granted   *)
(* READ.  Each request must be served under its own squashed credential.                          *)
StepExplained(st, v) ==
  /\ Agrees(v.allow, st.allowed)
  /\ st.allowed =>
       LET who == [uid |-> v.uid, gid |-> v.gid, aux |-> IF v.sys THEN v.aux ELSE <<>>]
       IN  Rng(st.own) = OwnSet(who) /\ (v.auxfree \/ Rng(st.grp) = GrpSet(who))
Bad10s ==
  LET mcs == ModeClasses(Cur.mode, Cur.cfg_ok)
      StepCred(st) == [flavor |-> st.cred.flavor, body |-> st.cred.body, uid |-> st.cred.uid, gid |-> st.cred.gid, aux |-> st.cred.aux]
      Reqs     == {k \in 1..Len(Cur.steps) : Cur.steps[k].kind = "req"}
      \* the mode the export was created with governs every request, also after a run-time update that names no mode
      badAllow == \E k \in Reqs : \A mc \in mcs : ~Agrees(AuthVerdict(mc, StepCred(Cur.steps[k])).allow, Cur.steps[k].allowed)
      badWho   == \E k \in Reqs : \A mc \in mcs : ~StepExplained(Cur.steps[k], AuthVerdict(mc, StepCred(Cur.steps[k])))
      updated  == \E k \in 1..Len(Cur.steps) : Cur.steps[k].kind = "update"
  IN   If(badAllow, "a request on a connection is admitted or denied against its own credential")
    \cup If(~badAllow /\ badWho /\ ~updated, "a request on a connection is served under an identity other than its own squashed credential")
    \cup If(~badAllow /\ badWho /\ updated,
            "a request on a connection is served under an identity other than its own credential squashed by the mode the export was created with (run-time updates naming no mode in between)")
Drift10s ==
  If(\E k \in {j \in 1..Len(Cur.steps) : Cur.steps[j].kind = "req"} :
        LET c == Cur.steps[k].cred
            v == AuthVerdict(ModeClass(Lower(Cur.mode)), [flavor |-> c.flavor, body |-> c.body, uid |-> c.uid, gid |-> c.gid, aux |-> c.aux])
        IN  Cur.steps[k].exp.allow # v.allow \/ Cur.steps[k].exp.uid # v.uid \/ Cur.steps[k].exp.gid # v.gid \/ Cur.steps[k].exp.aux # v.aux
              \/ Cur.steps[k].rpc = "NONE",
     "c10s: the session does not carry the rule's verdicts or a step was not driven")

-----------------------------------------------------------------------------
(* C12 *)
Bad12 ==
  IF Cur.status # "OK" THEN {}
  ELSE
  LET isDir  == Cur.obj.type = "DIR"
      mode   == Cur.obj.mode % 512
      who    == Cur.who
      isRoot == who.uid = ROOT
      class  == Class([uid |-> Cur.obj.uid, gid |-> Cur.obj.gid], who)
      a      == AccessAll(mode, isDir, class, isRoot, Cur.ro)
      o      == AccessOptional(mode, isDir, class, isRoot)
      g      == Cur.granted
      fine   == \/ g = AndRow[a]              \* whole-row comparison first (fast path)
                \/ g = AndRow[a + o]
                \/ (o # 0 /\ Len(g) = 64 /\ \A m \in 0..63 : g[m + 1] = AndTab[m][a] \/ g[m + 1] = AndTab[m][a + o])
  IN  IF fine THEN {}
      ELSE LET in6(x) == x \in 0..63 IN
           If(\E m \in 0..63 : ~in6(g[m + 1]) \/ AndTab[m][g[m + 1]] # g[m + 1],
              "ACCESS grants a bit that was not requested")
        \cup If(~isDir /\ \E m \in 0..63 : in6(g[m + 1]) /\ (HasBit(g[m + 1], 2) \/ HasBit(g[m + 1], 16)),
              "ACCESS grants LOOKUP or DELETE on an object that is not a directory")
        \cup If(Cur.ro /\ \E m \in 0..63 : in6(g[m + 1]) /\ (HasBit(g[m + 1], 4) \/ HasBit(g[m + 1], 8) \/ HasBit(g[m + 1], 16)),
              "ACCESS grants MODIFY, EXTEND or DELETE on a read-only export")
        \cup If(\E m \in 0..63 : in6(g[m + 1]) /\ AndTab[g[m + 1]][a + o] # g[m + 1],
              "ACCESS grants a permission the caller's class does not hold")
        \cup If(\E m \in 0..63 : in6(g[m + 1]) /\ AndTab[AndTab[m][a]][g[m + 1]] # AndTab[m][a],
              "ACCESS withholds a permission the caller's class holds")
Drift12 ==
     If(Cur.status # "OK", "c12: ACCESS did not succeed")
  \cup If(Cur.status = "OK" /\ Cur.obj.mode % 512 # Cur.setmode % 512, "c12: reported mode differs from the mode set in the backend")
  \cup If(Cur.status = "OK" /\ (Cur.obj.type = "DIR") # (Cur.kind = "D"), "c12: reported type differs from the object's kind")

-----------------------------------------------------------------------------
Bump(k) == [stats EXCEPT ![k] = @ + 1]

Init == /\ l = 1 /\ bad = {} /\ dev = {} /\ drift = {}
        /\ stats = [lines |-> 0, c09 |-> 0, c09_yes |-> 0, c09_no |-> 0, c09_either |-> 0, c09_calls |-> 0, c09_denied |-> 0,
                    c09_conn |-> 0, c10 |-> 0, c10_denied |-> 0, c10_changed |-> 0, c10_probed |-> 0,
                    c12 |-> 0, c12_decisions |-> 0, other |-> 0,
                    c09s |-> 0, c09s_steps |-> 0, c09s_denied |-> 0, c10s |-> 0, c10s_steps |-> 0, c10s_updates |-> 0]

Step09 ==
  /\ Cur.ev = "c09"
  /\ LET mv == MemberVerdict(Cl09, Li09)
         av == AdmitOf(mv)
         nd == Cardinality({i \in 1..Len(Cur.calls) : Cur.calls[i].rpc = "DENIED"})
     IN /\ bad' = bad \cup Tag(Bad09(mv))
        /\ drift' = drift \cup Tag(Drift09(mv))
        /\ stats' = [stats EXCEPT !.c09 = @ + 1,
                               !.c09_yes = @ + (IF av = "yes" THEN 1 ELSE 0),
                               !.c09_no = @ + (IF av = "no" THEN 1 ELSE 0),
                               !.c09_either = @ + (IF av = "either" THEN 1 ELSE 0),
                               !.c09_calls = @ + Len(Cur.calls), !.c09_denied = @ + nd,
                               !.c09_conn = @ + (IF Cur.conn.run THEN 1 ELSE 0)]

Step10 ==
  /\ Cur.ev = "c10"
  /\ bad' = bad \cup Tag(Bad10)
  /\ drift' = drift \cup Tag(Drift10)
  /\ stats' = [stats EXCEPT !.c10 = @ + 1,
                            !.c10_denied = @ + (IF Cur.va.allowed THEN 0 ELSE 1),
                            !.c10_changed = @ + (IF Cur.va.allowed /\ (Cur.va.uid # Cur.cred.uid \/ Cur.va.gid # Cur.cred.gid
                                                                        \/ (Cur.va.sys /\ Cur.va.aux # Cur.cred.aux)) THEN 1 ELSE 0),
                            !.c10_probed = @ + (IF Cur.hc.run /\ Cur.hc.allowed THEN 1 ELSE 0)]

Step12 ==
  /\ Cur.ev = "c12"
  /\ bad' = bad \cup Tag(Bad12)
  /\ drift' = drift \cup Tag(Drift12)
  /\ stats' = [stats EXCEPT !.c12 = @ + 1, !.c12_decisions = @ + Len(Cur.granted)]

Step09s ==
  /\ Cur.ev = "c09s"
  /\ bad' = bad \cup Tag(Bad09s)
  /\ drift' = drift \cup Tag(Drift09s)
  /\ stats' = [stats EXCEPT !.c09s = @ + 1,
                            !.c09s_steps = @ + Cardinality({k \in 1..Len(Cur.steps) : Cur.steps[k].sent}),
                            !.c09s_denied = @ + Cardinality({k \in 1..Len(Cur.steps) : Cur.steps[k].rpc = "DENIED"})]

Step10s ==
  /\ Cur.ev = "c10s"
  /\ bad' = bad \cup Tag(Bad10s)
  /\ drift' = drift \cup Tag(Drift10s)
  /\ stats' = [stats EXCEPT !.c10s = @ + 1, !.c10s_steps = @ + Len(Cur.steps),
                            !.c10s_updates = @ + Cardinality({k \in 1..Len(Cur.steps) : Cur.steps[k].kind = "update"})]

StepOther ==
  /\ Cur.ev \notin {"c09", "c10", "c12", "c09s", "c10s"}
  /\ UNCHANGED <<bad, drift>>
  /\ stats' = Bump("other")

Consume == /\ l <= N
           /\ l' = l + 1
           /\ dev' = dev
           /\ (Step09 \/ Step10 \/ Step12 \/ Step09s \/ Step10s \/ StepOther)

Finish == /\ l = N + 1
          /\ l' = N + 2
          /\ JsonSerialize(IOEnv.VF_RESULT,
                [n |-> N, consumed |-> l - 1, bad |-> bad, dev |-> dev, drift |-> drift,
                 stats |-> [stats EXCEPT !.lines = N]])
          /\ UNCHANGED <<bad, dev, drift, stats>>

Next == Consume \/ Finish
Spec == Init /\ [][Next]_vars
=============================================================================

----------------------------- MODULE PolicyGen -----------------------------
(***************************************************************************)
(* Test-vector generation (MBT) for C09, C10, C12 at the real widths         *)
(* (W4 = 32, PZ = 80, PO = 16).  TLC enumerates the input classes below and  *)
(* writes one JSON object per vector *with the verdict of module Policy*, so *)
(* the Go side holds no copy of the rules: the harness turns a vector into   *)
(* text / XDR, runs the real functions and the real request path, and        *)
(* records what happened; PolicyTrace decides.                               *)
(*                                                                         *)
(*   Family = "C09": IOEnv.VF_VECTORS <- host-filter vectors                 *)
(*   Family = "C10": IOEnv.VF_VECTORS <- credential / squash vectors         *)
(*   Family = "C12": IOEnv.VF_VECTORS <- one plan record (relations, modes)  *)
(* Seed varies the address bit patterns, the sampled auxiliary lists and     *)
(* the mode stratum; Thorough selects the large sets.                        *)
(***************************************************************************)
EXTENDS Policy, Json, IOUtils

CONSTANTS Family, Seed, Thorough

VARIABLE done

-----------------------------------------------------------------------------
\* small deterministic pseudo-random source (all intermediate values < 2^31)
S1 == (Seed % 997) + 1
S2 == ((Seed \div 997) % 991) + 1
Rand(i) == (S1 * ((i % 4000) * 265 + 4051) + (i % 1000) * (i % 1000) * 97 + S2 * 7 + (i \div 4000) * 613) % 65521
RBit(i) == (Rand(i) \div 16) % 2
Flip(b) == 1 - b

Cat(ss) == LET F[k \in 0..Len(ss)] == IF k = 0 THEN <<>> ELSE F[k - 1] \o ss[k] IN F[Len(ss)]
Map(s, Op(_)) == [i \in 1..Len(s) |-> Op(s[i])]
Seq1toN(n, Op(_)) == [i \in 1..n |-> Op(i)]
Range0(n) == [i \in 1..(n + 1) |-> i - 1]               \* <<0, 1, ..., n>>
Filter(s, T(_)) == SelectSeq(s, T)

-----------------------------------------------------------------------------
(* C09 *)
NB == IF Thorough THEN 3 ELSE 1        \* base patterns per family

V4(bits) == [fam |-> "v4", bits |-> Force(bits)]
V6(bits) == [fam |-> "v6", bits |-> Force(bits)]
Base4(k) == V4([i \in 1..32 |-> RBit(k * 300 + i)])
\* a global-unicast looking IPv6 base: first bits 001, never IPv4-mapped
Base6(k) == V6([i \in 1..128 |-> IF i <= 2 THEN 0 ELSE IF i = 3 THEN 1 ELSE RBit(k * 300 + 100 + i)])
Mapped(a4) == Embed(a4)
FlipAt(a, n) == [a EXCEPT !.bits = Force([i \in 1..Len(a.bits) |-> IF i = n THEN Flip(a.bits[i]) ELSE a.bits[i]])]
FlipFrom(a, n) == [a EXCEPT !.bits = Force([i \in 1..Len(a.bits) |-> IF i >= n THEN Flip(a.bits[i]) ELSE a.bits[i]])]
ZeroAddr6 == V6([i \in 1..128 |-> 0])
Compat(a4) == V6([i \in 1..96 |-> 0] \o a4.bits)         \* deprecated ::a.b.c.d, not IPv4-mapped

Forms6 == <<"canon", "full", "upper">>
FormOf(a, k) == IF a.fam = "v4" THEN "dotted"
                ELSE IF IsMapped(a) THEN <<"canon", "mapped_hex", "full", "upper">>[(k % 4) + 1]
                ELSE Forms6[(k % 3) + 1]

Cl(a, k)        == [kind |-> "addr", a |-> a, form |-> FormOf(a, k), sub |-> ""]
ClZoned(a, k)   == [kind |-> "zoned", a |-> a, form |-> FormOf(a, k), sub |-> "eth0"]
ClBad(sub)      == [kind |-> "bad", a |-> ZeroAddr6, form |-> "", sub |-> sub]
EIp(a, k)       == [kind |-> "ip", a |-> a, len |-> 0, form |-> FormOf(a, k), sub |-> ""]
EZoned(a, k)    == [kind |-> "zonedip", a |-> a, len |-> 0, form |-> FormOf(a, k), sub |-> "eth0"]
ECidr(a, n, k)  == [kind |-> "cidr", a |-> a, len |-> n, form |-> FormOf(a, k), sub |-> ""]
EBad(sub)       == [kind |-> "bad", a |-> ZeroAddr6, len |-> 0, form |-> "", sub |-> sub]

\* (the member verdict is computed once; HostVerdict / AdmitVerdict are functions of it, see VerdictShape)
Vec(group, c, list, port, secure) ==
  LET mv == MemberVerdict(c, list)
      hv == IF Len(list) = 0 THEN "yes" ELSE mv
  IN  [group |-> group, client |-> c, list |-> list, port |-> port, secure |-> secure,
       exp |-> [host |-> hv, admit |-> IF ~PortOK(secure, port) THEN "no" ELSE hv]]

\* clients around the boundary of prefix length n of base b (width w)
Around(b, n, w, k) ==
     <<Cl(b, k)>>
  \o (IF n < w THEN <<Cl(FlipAt(b, n + 1), k + 1), Cl(FlipFrom(b, n + 1), k + 2)>> ELSE <<>>)
  \o (IF n >= 1 THEN <<Cl(FlipAt(b, n), k), Cl(FlipAt(b, 1), k + 1)>> ELSE <<>>)

PortOf(k) == <<700, 1023, 1024, 40000>>[(k % 4) + 1]

G_cidr(b, w, tag) ==
  Cat(Seq1toN(w + 1, LAMBDA j :
        Map(Around(b, j - 1, w, j), LAMBDA c : Vec(tag, c, <<ECidr(b, j - 1, j)>>, PortOf(j), FALSE))))

\* IPv4 CIDR entries, client in IPv4-mapped IPv6 form
G_cidr4_mappedclient(b) ==
  Cat(Seq1toN(33, LAMBDA j :
        <<Vec("cidr4_mappedclient", Cl(Mapped(b), j), <<ECidr(b, j - 1, j)>>, 900, FALSE)>>
     \o (IF j >= 2 THEN <<Vec("cidr4_mappedclient", Cl(Mapped(FlipAt(b, j - 1)), j), <<ECidr(b, j - 1, j)>>, 900, FALSE)>> ELSE <<>>)))

\* IPv4-mapped CIDR entries of length 96..128 against IPv4 and mapped clients
G_mappedcidr(b) ==
  Cat(Seq1toN(33, LAMBDA j :
        <<Vec("mappedcidr", Cl(FlipFrom(b, j), j), <<ECidr(Mapped(b), 95 + j, j)>>, 900, FALSE),
          Vec("mappedcidr", Cl(Mapped(b), j), <<ECidr(Mapped(b), 95 + j, j + 1)>>, 900, FALSE)>>
     \o (IF j >= 2 THEN <<Vec("mappedcidr", Cl(FlipAt(b, j - 1), j), <<ECidr(Mapped(b), 95 + j, j)>>, 900, FALSE)>> ELSE <<>>)))

\* IPv6 CIDRs shorter than /96: covering the mapped range ("either" for IPv4 clients) or not
G_v6short(b4, b6) ==
  Cat(Seq1toN(96, LAMBDA j :
        <<Vec("v6short_covering", Cl(b4, j), <<ECidr(Mapped(b4), j - 1, j)>>, 900, FALSE),
          Vec("v6short_covering", Cl(Mapped(b4), j), <<ECidr(Mapped(b4), j - 1, j)>>, 900, FALSE)>>
     \o (IF j >= 4 THEN <<Vec("v6short_elsewhere", Cl(b4, j), <<ECidr(b6, j - 1, j)>>, 900, FALSE)>> ELSE <<>>)))

G_single(b, w, tag) ==
     <<Vec(tag, Cl(b, 0), <<EIp(b, 1)>>, 900, FALSE), Vec(tag, Cl(b, 2), <<EIp(b, 0)>>, 900, FALSE)>>
  \o Seq1toN(w, LAMBDA j : Vec(tag, Cl(FlipAt(b, j), j), <<EIp(b, j + 1)>>, 900, FALSE))

G_single_mapped(b) ==
  <<Vec("single_mapped", Cl(b, 0), <<EIp(Mapped(b), 0)>>, 900, FALSE),
    Vec("single_mapped", Cl(b, 0), <<EIp(Mapped(b), 1)>>, 900, FALSE),
    Vec("single_mapped", Cl(Mapped(b), 0), <<EIp(b, 0)>>, 900, FALSE),
    Vec("single_mapped", Cl(Mapped(b), 1), <<EIp(b, 0)>>, 900, FALSE),
    Vec("single_mapped", Cl(Mapped(b), 2), <<EIp(Mapped(b), 3)>>, 900, FALSE),
    Vec("single_mapped", Cl(Mapped(FlipAt(b, 32)), 1), <<EIp(b, 0)>>, 900, FALSE),
    Vec("single_mapped", Cl(FlipAt(b, 17), 0), <<EIp(Mapped(b), 1)>>, 900, FALSE)>>

G_families(b4, b6) ==
  <<Vec("families", Cl(b6, 0), <<ECidr(b4, 0, 0)>>, 900, FALSE),
    Vec("families", Cl(b6, 1), <<EIp(b4, 0)>>, 900, FALSE),
    Vec("families", Cl(b4, 0), <<EIp(b6, 0)>>, 900, FALSE),
    Vec("families", Cl(b4, 0), <<ECidr(b6, 128, 1)>>, 900, FALSE),
    Vec("families", Cl(Compat(b4), 0), <<EIp(b4, 0)>>, 900, FALSE),
    Vec("families", Cl(Compat(b4), 1), <<ECidr(b4, 8, 0)>>, 900, FALSE),
    Vec("families", Cl(b4, 0), <<EIp(Compat(b4), 0)>>, 900, FALSE),
    Vec("families", Cl(b6, 0), <<ECidr(b4, 0, 0), ECidr(ZeroAddr6, 0, 0)>>, 900, FALSE),
    Vec("families", Cl(b4, 0), <<ECidr(b4, 0, 0), ECidr(ZeroAddr6, 0, 0)>>, 900, FALSE)>>

BadClientSubs == <<"empty", "word", "v4_5oct", "v4_300", "v4_3oct", "hostport", "bracket", "v6_triple", "v6_9grp", "slash">>
BadEntrySubs  == <<"empty", "word", "v4_5oct", "v4_300", "v4_3oct", "hostport", "bracket", "v6_triple", "v6_9grp",
                   "cidr_nolen", "cidr_word", "cidr_2slash", "cidr_lenword", "cidr_noaddr">>
AllOpen == <<ECidr(V4([i \in 1..32 |-> 0]), 0, 0), ECidr(ZeroAddr6, 0, 0)>>

G_malformed(b4, b6) ==
     Cat(Map(BadClientSubs, LAMBDA s : <<Vec("bad_client", ClBad(s), AllOpen, 900, FALSE),
                                          Vec("bad_client", ClBad(s), <<>>, 900, FALSE),
                                          Vec("bad_client", ClBad(s), <<>>, 2000, TRUE)>>))
  \o Cat(Map(BadEntrySubs, LAMBDA s : <<Vec("bad_entry", Cl(b4, 0), <<EBad(s)>>, 900, FALSE),
                                         Vec("bad_entry", Cl(b6, 0), <<EBad(s)>>, 900, FALSE),
                                         Vec("bad_entry_first", Cl(b4, 0), <<EBad(s), EIp(b4, 0)>>, 900, FALSE),
                                         Vec("bad_entry_first", Cl(b6, 0), <<EBad(s), ECidr(b6, 64, 0)>>, 900, FALSE),
                                         Vec("bad_entry_last", Cl(b4, 0), <<ECidr(b4, 24, 0), EBad(s)>>, 900, FALSE),
                                         Vec("bad_entry_mid", Cl(FlipAt(b4, 32), 0), <<EIp(b4, 0), EBad(s), ECidr(b4, 31, 0)>>, 900, FALSE)>>))
     \* prefix lengths outside the family's range: the entry is unparseable and matches nothing
  \o <<Vec("bad_prefixlen", Cl(b4, 0), <<ECidr(b4, 33, 0)>>, 900, FALSE),
       Vec("bad_prefixlen", Cl(b4, 0), <<ECidr(b4, 128, 0)>>, 900, FALSE),
       Vec("bad_prefixlen", Cl(b4, 0), <<ECidr(b4, -1, 0)>>, 900, FALSE),
       Vec("bad_prefixlen", Cl(b6, 0), <<ECidr(b6, 129, 0)>>, 900, FALSE),
       Vec("bad_prefixlen", Cl(b6, 0), <<ECidr(b6, -1, 0)>>, 900, FALSE),
       Vec("bad_prefixlen", Cl(Mapped(b4), 0), <<ECidr(Mapped(b4), 129, 0)>>, 900, FALSE),
       Vec("bad_prefixlen", Cl(b4, 0), <<ECidr(b4, 33, 0), ECidr(b4, 32, 0)>>, 900, FALSE)>>
     \* zone suffixes
  \o <<Vec("zoned", ClZoned(b6, 0), <<ECidr(b6, 10, 0)>>, 900, FALSE),
       Vec("zoned", ClZoned(b6, 1), <<EIp(b6, 0)>>, 900, FALSE),
       Vec("zoned", ClZoned(b6, 0), <<ECidr(FlipAt(b6, 3), 10, 0)>>, 900, FALSE),
       Vec("zoned", ClZoned(b6, 0), <<EIp(FlipAt(b6, 128), 0)>>, 900, FALSE),
       Vec("zoned", ClZoned(b6, 0), <<>>, 900, FALSE),
       Vec("zoned", Cl(b6, 0), <<EZoned(b6, 0)>>, 900, FALSE),
       Vec("zoned", Cl(FlipAt(b6, 77), 0), <<EZoned(b6, 0)>>, 900, FALSE),
       Vec("zoned", Cl(b6, 0), <<EZoned(b6, 0), EIp(b6, 1)>>, 900, FALSE)>>

G_lists(b4, b6) ==
  LET n1 == EIp(FlipAt(b4, 9), 0)  n2 == ECidr(FlipAt(b4, 1), 1, 0)  n3 == ECidr(FlipAt(b6, 3), 20, 0)
      y1 == ECidr(b4, 13, 0)       y2 == EIp(b4, 0)
  IN <<Vec("lists", Cl(b4, 0), <<n1, n2, y1>>, 900, FALSE),
       Vec("lists", Cl(b4, 0), <<y2, n1, n2>>, 900, FALSE),
       Vec("lists", Cl(b4, 0), <<n1, y1, n3>>, 900, FALSE),
       Vec("lists", Cl(b4, 0), <<n1, n2, n3>>, 900, FALSE),
       Vec("lists", Cl(b4, 0), <<n3, n2, n1, n3, n2, n1, y2>>, 900, FALSE),
       Vec("lists", Cl(b6, 0), <<n1, n2, n3>>, 900, FALSE),
       Vec("lists", Cl(b6, 0), <<n1, n2, ECidr(b6, 127, 0)>>, 900, FALSE),
       Vec("lists", Cl(Mapped(b4), 0), <<n3, y1>>, 900, FALSE)>>

Ports == <<0, 1, 1023, 1024, 1025, 2049, 65535>>
G_ports(b4) ==
  Cat(Map(Ports, LAMBDA p :
        Cat(Map(<<TRUE, FALSE>>, LAMBDA s :
              <<Vec("ports", Cl(b4, 0), <<>>, p, s),
                Vec("ports", Cl(b4, 0), <<ECidr(b4, 20, 0)>>, p, s),
                Vec("ports", Cl(FlipAt(b4, 2), 0), <<ECidr(b4, 20, 0)>>, p, s)>>))))

C09PerBase(k) ==
  LET b4 == Base4(k)  b6 == Base6(k) IN
     G_cidr(b4, 32, "cidr4") \o G_cidr(b6, 128, "cidr6")
  \o G_cidr4_mappedclient(b4) \o G_mappedcidr(b4) \o G_v6short(b4, b6)
  \o G_single(b4, 32, "single4") \o G_single(b6, 128, "single6") \o G_single_mapped(b4)
  \o G_families(b4, b6) \o G_malformed(b4, b6) \o G_lists(b4, b6) \o G_ports(b4)

Number(s) == [i \in 1..Len(s) |-> [ev |-> "vec", id |-> i] @@ s[i]]
NumberSess(s) == [i \in 1..Len(s) |-> [ev |-> "sess", id |-> i] @@ s[i]]

(* Sessions: one long-lived connection.  The policy of step 1 is in force when the client      *)
(* connects; before each later step the operator replaces allow-list / secure flag at run time *)
(* (UpdatePolicyOptions) and the client sends another request on the SAME connection.  Every   *)
(* request is judged by the policy in force when it arrives (PolicyMC!Reconfigure).            *)
SStep(c, port, list, secure) == [list |-> list, secure |-> secure, exp |-> AdmitVerdict(c, port, list, secure)]
Sess(c, port, specs) ==
  [group |-> "session", client |-> c, port |-> port,
   steps |-> [i \in 1..Len(specs) |-> SStep(c, port, specs[i][1], specs[i][2])],
   exp_conn |-> HostVerdict(c, specs[1][1])]
InOutIn(c, in, out) == Sess(c, 900, << <<in, FALSE>>, <<out, FALSE>>, <<in, FALSE>> >>)
G_sessions(b4, b6) ==
     Cat(Map(<<1, 8, 24, 32>>, LAMBDA n :
        <<InOutIn(Cl(b4, n), <<ECidr(b4, n, 0)>>, <<ECidr(FlipAt(b4, n), n, 0)>>),
          InOutIn(Cl(Mapped(b4), n), <<ECidr(b4, n, 0)>>, <<ECidr(FlipAt(b4, n), n, 0)>>)>>))
  \o Cat(Map(<<1, 64, 127, 128>>, LAMBDA n :
        <<InOutIn(Cl(b6, n), <<ECidr(b6, n, n)>>, <<ECidr(FlipAt(b6, n), n, n)>>)>>))
  \o <<InOutIn(Cl(b4, 0), <<>>, <<EIp(FlipAt(b4, 32), 0)>>),
       InOutIn(Cl(b6, 0), <<>>, <<ECidr(b4, 0, 0)>>),
       InOutIn(Cl(b4, 0), <<EIp(b4, 0)>>, <<EIp(FlipAt(b4, 7), 0), EBad("cidr_nolen")>>),
       InOutIn(Cl(Mapped(b4), 1), <<EIp(b4, 0)>>, <<EBad("word")>>),
       Sess(Cl(b4, 0), 900, << <<<<EIp(b4, 0)>>, FALSE>>, <<<<EIp(FlipAt(b4, 1), 0)>>, FALSE>>, <<<<>>, FALSE>>,
                              <<<<ECidr(b6, 3, 0)>>, FALSE>>, <<<<ECidr(b6, 3, 0), ECidr(b4, 31, 0)>>, FALSE>> >>),
       \* refused at connect time: no request is ever read
       Sess(Cl(b4, 0), 900, << <<<<ECidr(FlipAt(b4, 2), 2, 0)>>, FALSE>>, <<<<ECidr(b4, 2, 0)>>, FALSE>> >>),
       Sess(Cl(b6, 0), 900, << <<<<EIp(b4, 0)>>, FALSE>>, <<<<>>, FALSE>> >>),
       \* the secure flag switched at run time
       Sess(Cl(b4, 0), 2000, << <<<<>>, FALSE>>, <<<<>>, TRUE>>, <<<<>>, FALSE>> >>),
       Sess(Cl(b4, 0), 1024, << <<<<ECidr(b4, 16, 0)>>, FALSE>>, <<<<ECidr(b4, 16, 0)>>, TRUE>>,
                               <<<<ECidr(FlipAt(b4, 16), 16, 0)>>, FALSE>>, <<<<ECidr(b4, 16, 0)>>, FALSE>> >>),
       Sess(Cl(b6, 0), 1023, << <<<<>>, TRUE>>, <<<<EIp(b6, 1)>>, TRUE>>, <<<<EIp(FlipAt(b6, 128), 1)>>, TRUE>> >>)>>

C09Vectors(zz) == Number(Cat(Seq1toN(NB, LAMBDA k : C09PerBase(k))))
                  \o NumberSess(Cat(Seq1toN(NB, LAMBDA k : G_sessions(Base4(k), Base6(k)))))

-----------------------------------------------------------------------------
(* C10 *)
IdSeq == <<"0", "1", "1000", "65534", "65535", "2147483648", "4294967295">>
NI == Len(IdSeq)
ModeSeq == <<"all", "root", "none", "", "ROOT", "All", "nOnE", "bogus">>
Pick(i) == IdSeq[(Rand(i) % NI) + 1]

Cred(flavor, body, uid, gid, aux, nameLen, cut) ==
  [flavor |-> flavor, body |-> body, uid |-> uid, gid |-> gid, aux |-> aux, name_len |-> nameLen, cut |-> cut]
SysOk(uid, gid, aux) == Cred("SYS", "ok", uid, gid, aux, 2, 0)

CVec(group, mode, cred) ==
  [group |-> group, mode |-> mode, lower |-> Lower(mode), cred |-> cred,
   exp |-> AuthVerdict(ModeClass(Lower(mode)), cred)]

\* all auxiliary lists of length n over the id set, as a sequence
RECURSIVE AuxOfLen(_)
AuxOfLen(n) == IF n = 0 THEN << <<>> >>
               ELSE Cat(Map(AuxOfLen(n - 1), LAMBDA a : Map(IdSeq, LAMBDA g : a \o <<g>>)))
MaxExh == IF Thorough THEN 2 ELSE 1
ExhAux(zz) == Cat(Seq1toN(MaxExh + 1, LAMBDA j : AuxOfLen(j - 1)))

G_exhaustive(zz) ==
  Cat(Map(ModeSeq, LAMBDA m :
    Cat(Map(IdSeq, LAMBDA u :
      Cat(Map(IdSeq, LAMBDA g :
        Map(ExhAux(zz), LAMBDA a : CVec("exhaustive", m, SysOk(u, g, a)))))))))

\* longer lists, sampled: length 2..16, K samples per (mode, length); every second sample is forced to contain gid 0
KS == IF Thorough THEN 6 ELSE 2
SampleAux(n, salt) == [i \in 1..n |-> IF salt % 2 = 0 /\ i = ((salt \div 2) % n) + 1 THEN "0" ELSE Pick(salt * 37 + i)]
G_sampled(zz) ==
  Cat(Seq1toN(Len(ModeSeq), LAMBDA mi :
    Cat(Seq1toN(15, LAMBDA li :
      Seq1toN(KS, LAMBDA k :
        LET salt == mi * 1000 + li * 50 + k IN
        CVec("sampled", ModeSeq[mi], SysOk(Pick(salt * 3), Pick(salt * 3 + 1), SampleAux(li + 1, salt))))))))

G_flavors(zz) ==
  Cat(Map(ModeSeq, LAMBDA m :
    <<CVec("flavor", m, Cred("NONE", "ok", "0", "0", <<>>, 0, 0)),
      CVec("flavor", m, Cred("NONE", "junk", "0", "0", <<"0">>, 2, 0)),      \* AUTH_NONE carrying an AUTH_SYS-shaped body
      CVec("flavor", m, Cred("SHORT", "ok", "0", "0", <<"0">>, 2, 0)),
      CVec("flavor", m, Cred("DH", "ok", "1000", "1000", <<>>, 2, 0)),
      CVec("flavor", m, Cred("GSS", "ok", "0", "0", <<>>, 2, 0)),
      CVec("flavor", m, Cred("OTHER", "ok", "1000", "0", <<"0">>, 2, 0))>>))

\* body encodings.  A well-formed body with machine name of n bytes and k gids has
\* 4*(5 + k) + pad4(n) bytes; "cut" keeps the first `cut` bytes of it.
Pad4(n) == ((n + 3) \div 4) * 4
BodyLen(n, k) == 4 * (5 + k) + Pad4(n)
CutPoints(n, k) == LET L == BodyLen(n, k) IN
  Filter(Seq1toN(L - 1, LAMBDA c : c), LAMBDA c : c % 4 = 0 \/ c % 4 = 2 \/ c = L - 1 \/ c = 1)
BodyCreds ==
  <<[uid |-> "0", gid |-> "0", aux |-> <<>>], [uid |-> "1000", gid |-> "0", aux |-> <<"0", "1000">>],
    [uid |-> "0", gid |-> "1000", aux |-> <<"0", "0", "65535">>]>>
G_bodies(zz) ==
  Cat(Map(<<"root", "all", "none", "bogus", "ROOT">>, LAMBDA m :
    Cat(Map(BodyCreds, LAMBDA c :
         <<CVec("body", m, Cred("SYS", "empty", c.uid, c.gid, c.aux, 2, 0)),
           CVec("body", m, Cred("SYS", "gids17", c.uid, c.gid, [i \in 1..17 |-> IF i % 2 = 0 THEN "0" ELSE "1000"], 2, 0)),
           CVec("body", m, Cred("SYS", "ok", c.uid, c.gid, [i \in 1..16 |-> IF i % 3 = 0 THEN "0" ELSE "1000"], 2, 0)),
           CVec("body", m, Cred("SYS", "count_lies", c.uid, c.gid, c.aux, 2, 0)),
           CVec("body", m, Cred("SYS", "name_huge", c.uid, c.gid, c.aux, 2, 0)),
           CVec("body", m, Cred("SYS", "name256", c.uid, c.gid, c.aux, 256, 0)),
           CVec("body", m, Cred("SYS", "trailing", c.uid, c.gid, c.aux, 2, 0))>>
      \o Map(<<0, 1, 3, 4, 5, 255>>, LAMBDA n : CVec("body_name", m, Cred("SYS", "ok", c.uid, c.gid, c.aux, n, 0)))
      \o Map(CutPoints(2, Len(c.aux)), LAMBDA k : CVec("body_cut", m, Cred("SYS", "cut", c.uid, c.gid, c.aux, 2, k)))))))

(* Sessions: several requests with different credentials on ONE connection (a multi-user NFS   *)
(* client); each request is served under its own credential (PolicyMC!NextRequest).            *)
(* A step is a request ("req", with its credential) or a run-time reconfiguration ("update") that  *)
(* does not name a squash mode: "policy_ro" = UpdatePolicyOptions(PolicyOptions{ReadOnly: toggled}),*)
(* "policy_allow" = UpdatePolicyOptions with only an allow-list (containing the client),           *)
(* "policy_same" = UpdatePolicyOptions with a copy of the current policy, "export_ro" =            *)
(* UpdateExportOptions(ExportOptions{ReadOnly: toggled}).  The squash mode is fixed at New()       *)
(* (docs: immutable at run time), so whether such an update is accepted or refused, every later    *)
(* request is squashed by the mode the export was created with (PolicyMC!RuntimeUpdate).           *)
NoneCred == Cred("NONE", "ok", "0", "0", <<>>, 0, 0)
CStep(mode, cred) == [kind |-> "req", how |-> "", cred |-> cred, exp |-> AuthVerdict(ModeClass(Lower(mode)), cred)]
UStep(mode, how)  == [kind |-> "update", how |-> how, cred |-> NoneCred, exp |-> AuthVerdict(ModeClass(Lower(mode)), NoneCred)]
CSess(mode, creds) == [group |-> "session", mode |-> mode, lower |-> Lower(mode),
                       steps |-> [i \in 1..Len(creds) |-> CStep(mode, creds[i])]]
\* items: a credential record (has field "flavor") or an update name (a string)
USess(mode, items) == [group |-> "session_update", mode |-> mode, lower |-> Lower(mode),
                       steps |-> [i \in 1..Len(items) |-> IF items[i].u = "" THEN CStep(mode, items[i].c) ELSE UStep(mode, items[i].u)]]
RQ(c) == [u |-> "", c |-> c]
UP(how) == [u |-> how, c |-> NoneCred]
RandCred(salt) == SysOk(Pick(salt), Pick(salt + 1), [i \in 1..(Rand(salt + 2) % 4) |-> Pick(salt + 2 + i)])
G_csessions(zz) ==
  Cat(Seq1toN(5, LAMBDA mi :
    LET m == <<"all", "root", "none", "", "ROOT">>[mi] IN
    <<CSess(m, <<SysOk("0", "0", <<"0">>), SysOk("1000", "1000", <<>>), SysOk("1", "0", <<"65535", "0">>), SysOk("0", "0", <<"0">>)>>),
      CSess(m, <<SysOk("1000", "1000", <<"1">>), SysOk("0", "1", <<>>), NoneCred, SysOk("65535", "65534", <<"0">>)>>),
      CSess(m, <<NoneCred, SysOk("0", "0", <<>>), Cred("DH", "ok", "0", "0", <<>>, 2, 0), SysOk("4294967295", "2147483648", <<"1000">>)>>),
      CSess(m, <<Cred("SYS", "cut", "0", "0", <<"0">>, 2, 12), SysOk("1000", "0", <<"0">>), SysOk("0", "1000", <<"1000">>)>>),
      CSess(m, [i \in 1..4 |-> RandCred(mi * 100 + i * 10)]),
      CSess(m, [i \in 1..5 |-> RandCred(mi * 100 + 50 + i * 7)]),
      USess(m, <<RQ(SysOk("0", "0", <<"0">>)), UP("policy_ro"), RQ(SysOk("0", "0", <<"0">>)), RQ(SysOk("1000", "0", <<"0", "1000">>)),
                 UP("export_ro"), RQ(SysOk("0", "1", <<>>))>>),
      USess(m, <<UP("policy_allow"), RQ(SysOk("0", "1000", <<"0">>)), UP("policy_same"), RQ(SysOk("0", "0", <<"0">>)), RQ(NoneCred),
                 UP("policy_ro"), RQ(SysOk("1", "0", <<"0", "65535">>))>>)>>))

C10Vectors(zz) == Number(G_exhaustive(zz) \o G_sampled(zz) \o G_flavors(zz) \o G_bodies(zz))
                  \o NumberSess(G_csessions(zz))

-----------------------------------------------------------------------------
(* C12: the plan.  The full space is modes x kinds x relations x read-only x 64 masks; the  *)
(* stratum is the set of modes whose top three bits (setuid, setgid, sticky) are a function *)
(* of the nine permission bits and the seed: 512 of 4096, all 512 permission patterns       *)
(* present, every top-bit combination present.                                              *)
Rel(name, flavor, who, obj) == [name |-> name, flavor |-> flavor, who |-> who, obj |-> obj]
Who(u, g, aux) == [uid |-> u, gid |-> g, aux |-> aux]
Own(u, g) == [uid |-> u, gid |-> g]
C12Relations ==
  <<Rel("owner",        "SYS", Who("1000", "3000", <<>>),                 Own("1000", "2000")),
    Rel("owner_group",  "SYS", Who("1000", "2000", <<"2000">>),           Own("1000", "2000")),
    Rel("group",        "SYS", Who("1001", "2000", <<>>),                 Own("1000", "2000")),
    Rel("aux_group",    "SYS", Who("1001", "3000", <<"3001", "2000">>),   Own("1000", "2000")),
    Rel("aux_group16",  "SYS", Who("1001", "3000", [i \in 1..16 |-> IF i = 16 THEN "2000" ELSE "3001"]), Own("1000", "2000")),
    Rel("other",        "SYS", Who("1001", "3000", <<"3001">>),           Own("1000", "2000")),
    Rel("root",         "SYS", Who("0", "0", <<>>),                       Own("1000", "2000")),
    Rel("root_owner",   "SYS", Who("0", "0", <<>>),                       Own("0", "0")),
    Rel("gid0_other",   "SYS", Who("1001", "0", <<"0">>),                 Own("1000", "2000")),
    Rel("group_of_root","SYS", Who("1001", "0", <<>>),                    Own("0", "0")),
    Rel("big_owner",    "SYS", Who("4294967295", "1", <<>>),              Own("4294967295", "2147483648")),
    Rel("big_group",    "SYS", Who("1", "5", <<"2147483648">>),           Own("4294967295", "2147483648")),
    Rel("none_other",   "NONE", Who("65534", "65534", <<>>),              Own("1000", "2000")),
    Rel("none_owner",   "NONE", Who("65534", "65534", <<>>),              Own("65534", "2000")),
    Rel("none_group",   "NONE", Who("65534", "65534", <<>>),              Own("1000", "65534"))>>
TopOf(p) == (p + (p \div 8) + (p \div 64) + Seed) % 8
Stratum == [i \in 1..512 |-> (i - 1) + 512 * TopOf(i - 1)]
\* quick: nine of the fifteen relations on the stratum.  thorough: the six core relations on all 4096
\* modes (98 304 rows, 6.3 M decisions), the other nine on the stratum.
QuickRels == {"owner_group", "group", "aux_group16", "other", "root", "gid0_other", "big_group", "none_other", "none_owner"}
CoreRels  == {"owner", "owner_group", "group", "aux_group", "other", "root"}
WithModes(r) == r @@ [allmodes |-> Thorough /\ r.name \in CoreRels]
C12Plan(zz) == << [ev |-> "plan",
                   relations |-> LET rs == IF Thorough THEN C12Relations ELSE SelectSeq(C12Relations, LAMBDA r : r.name \in QuickRels)
                                 IN  [i \in 1..Len(rs) |-> WithModes(rs[i])],
                   modes |-> Stratum,
                   modes_all |-> IF Thorough THEN [i \in 1..4096 |-> i - 1] ELSE <<>>] >>

-----------------------------------------------------------------------------
\* (parametrised so that TLC does not evaluate all three families as constants at start-up)
Out(zz) == CASE Family = "C09" -> C09Vectors(zz) [] Family = "C10" -> C10Vectors(zz) [] Family = "C12" -> C12Plan(zz)

Init == done = FALSE
Next == /\ ~done
        /\ ndJsonSerialize(IOEnv.VF_VECTORS, Out(0))
        /\ done' = TRUE
Spec == Init /\ [][Next]_done
=============================================================================

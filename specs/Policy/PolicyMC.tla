------------------------------ MODULE PolicyMC ------------------------------
(***************************************************************************)
(* Exhaustive model of the gate every request passes, at the grain of the   *)
(* code (one action per step of acceptLoop / HandleCall /                    *)
(* ValidateAuthentication / applySquashing / handleAccess), over            *)
(*   Focus = "host"   : every client x every allow-list of a small address  *)
(*                      width (W4, PZ, PO), ports around 1024, secure on/off *)
(*   Focus = "cred"   : every credential over the id set, every squash mode  *)
(*   Focus = "access" : every mode x kind x caller relation x read-only,     *)
(*                      all 64 masks per state                               *)
(* Invariants: the ideal rules of module Policy (C09, C10, C12) hold of what *)
(* the transcribed code computes, a denied request reaches no handler and no *)
(* backend call, and the algebraic sanity properties of the rules.           *)
(* Variant # "code" switches one realistic defect on (non-vacuity runs).     *)
(***************************************************************************)
EXTENDS Policy

CONSTANTS Focus,     \* "host" | "cred" | "access"
          Variant,   \* "code" or the name of a defect variant
          Ids,       \* id tokens
          MaxAux,    \* longest auxiliary list enumerated
          ModeSet,   \* squash mode strings
          PermSet    \* permission modes (subset of 0..4095)

VARIABLES ph,       \* "accept" | "step1" | "step2" | "step3" | "squash" | "spawn" | "handler" | "done"
          rq,       \* the request: client, port, cred, object and mask-independent ACCESS arguments
          pol,      \* current policy: allowed, secure, squash, ro
          pol0,     \* policy when the connection was accepted
          eff,      \* effective identity [uid, gid, aux, sys] once established
          out,      \* "none" | "closed" | "DENIED" | "ACCEPTED"
          reached,  \* ghost: a procedure handler ran
          bcalls,   \* ghost: backend calls made
          granted,  \* ACCESS result per mask (function 0..63 -> 0..63) once computed
          ctxsys,   \* AuthContext.AuthSys of the request's context: the parsed credential, kept once parsed
          nreq      \* which request of the connection this is (1 or 2)
vars == <<ph, rq, pol, pol0, eff, out, reached, bcalls, granted, ctxsys, nreq>>

-----------------------------------------------------------------------------
BitSeqs(n) == [1..n -> {0, 1}]
Addrs4 == {[fam |-> "v4", bits |-> b] : b \in BitSeqs(W4)}
Addrs6 == {[fam |-> "v6", bits |-> b] : b \in BitSeqs(W6)}
NoAddr == [fam |-> "v6", bits |-> [i \in 1..W6 |-> 0]]

Clients == {[kind |-> "addr", a |-> a] : a \in Addrs4 \cup Addrs6}
      \cup {[kind |-> "zoned", a |-> a] : a \in Addrs6}
      \cup {[kind |-> "bad", a |-> NoAddr]}
BadE == [kind |-> "bad", a |-> NoAddr, len |-> 0]
Entries == {[kind |-> "ip", a |-> a, len |-> 0] : a \in Addrs4 \cup Addrs6}
      \cup {[kind |-> "zonedip", a |-> a, len |-> 0] : a \in Addrs6}
      \cup {[kind |-> "cidr", a |-> a, len |-> n] : a \in Addrs4, n \in 0..(W4 + 1)}   \* W+1: bad prefix length
      \cup {[kind |-> "cidr", a |-> a, len |-> n] : a \in Addrs6, n \in 0..(W6 + 1)}
      \cup {BadE}
Lists == {<<>>} \cup {<<e>> : e \in Entries} \cup {<<BadE, e>> : e \in Entries} \cup {<<e, BadE>> : e \in Entries}

AuxLists == UNION {[1..n -> Ids] : n \in 0..MaxAux}
OneId == CHOOSE i \in Ids : i # ROOT /\ i # NOBODY
PlainCred == [flavor |-> "SYS", body |-> "ok", uid |-> OneId, gid |-> OneId, aux |-> <<>>]
SysCreds == {[flavor |-> "SYS", body |-> "ok", uid |-> u, gid |-> g, aux |-> a] : u \in Ids, g \in Ids, a \in AuxLists}
OddCreds == {[flavor |-> f, body |-> "ok", uid |-> ROOT, gid |-> ROOT, aux |-> <<ROOT>>] : f \in {"NONE", "SHORT", "DH", "OTHER"}}
       \cup {[flavor |-> "SYS", body |-> b, uid |-> ROOT, gid |-> ROOT, aux |-> <<ROOT>>] : b \in Undecodable \cup Lenient}
PlainObj == [uid |-> ROOT, gid |-> ROOT, mode |-> 493, isDir |-> TRUE]
OpenPol(sq, ro) == [allowed |-> <<>>, secure |-> FALSE, squash |-> sq, ro |-> ro]

\* caller/object relations for the ACCESS focus: who against an object owned by u1:g1
U1 == "1000"  G1 == "2000"  U2 == "1001"  G2 == "3000"  G3 == "3001"
Relations ==
  { [who |-> [uid |-> U1, gid |-> G2, aux |-> <<>>],        obj |-> [uid |-> U1, gid |-> G1]],   \* owner
    [who |-> [uid |-> U1, gid |-> G1, aux |-> <<G1>>],      obj |-> [uid |-> U1, gid |-> G1]],   \* owner and group
    [who |-> [uid |-> U2, gid |-> G1, aux |-> <<>>],        obj |-> [uid |-> U1, gid |-> G1]],   \* primary group
    [who |-> [uid |-> U2, gid |-> G2, aux |-> <<G3, G1>>],  obj |-> [uid |-> U1, gid |-> G1]],   \* auxiliary group
    [who |-> [uid |-> U2, gid |-> G2, aux |-> <<G3>>],      obj |-> [uid |-> U1, gid |-> G1]],   \* other
    [who |-> [uid |-> ROOT, gid |-> ROOT, aux |-> <<>>],    obj |-> [uid |-> U1, gid |-> G1]],   \* uid 0, not owner
    [who |-> [uid |-> ROOT, gid |-> ROOT, aux |-> <<>>],    obj |-> [uid |-> ROOT, gid |-> ROOT]], \* uid 0, owner
    [who |-> [uid |-> U2, gid |-> ROOT, aux |-> <<>>],      obj |-> [uid |-> ROOT, gid |-> ROOT]] } \* gid 0 is no privilege

Requests ==
  CASE Focus = "host" ->
         {[client |-> c, port |-> p, cred |-> PlainCred, obj |-> PlainObj] : c \in Clients, p \in {1023, 1024}}
           \cup {[client |-> c, port |-> 1023, cred |-> [PlainCred EXCEPT !.flavor = "DH"], obj |-> PlainObj] : c \in Clients}
    [] Focus = "cred" ->
         {[client |-> [kind |-> "bad", a |-> NoAddr], port |-> 40000, cred |-> k, obj |-> PlainObj] :
             k \in SysCreds \cup OddCreds}
    [] Focus = "access" ->
         {[client |-> [kind |-> "bad", a |-> NoAddr], port |-> 40000,
           cred |-> [flavor |-> "SYS", body |-> "ok", uid |-> r.who.uid, gid |-> r.who.gid, aux |-> r.who.aux],
           obj |-> [uid |-> r.obj.uid, gid |-> r.obj.gid, mode |-> m, isDir |-> d]] :
             r \in Relations, m \in PermSet, d \in BOOLEAN}
Policies ==
  CASE Focus = "host" ->
         {[allowed |-> l, secure |-> FALSE, squash |-> "none", ro |-> FALSE] : l \in Lists}
           \cup {[allowed |-> l, secure |-> TRUE, squash |-> "none", ro |-> FALSE] : l \in {ll \in Lists : Len(ll) <= 1}}
    [] Focus = "cred"   -> {OpenPol(sq, FALSE) : sq \in ModeSet}
    [] Focus = "access" -> {OpenPol("none", ro) : ro \in BOOLEAN}

PermsBase == 0..511     \* the nine permission bits
PermsAll  == 0..4095    \* with setuid / setgid / sticky
PermsTiny == {0, 32, 56, 416, 420, 493, 511, 4095}   \* non-vacuity runs

NoEff == [uid |-> "-", gid |-> "-", aux |-> <<>>, sys |-> FALSE]
NoGrant == [m \in 0..63 |-> 0]
NoSys == [set |-> FALSE, uid |-> "-", gid |-> "-", aux |-> <<>>]
\* credentials of a second request on the same connection (cred focus)
SecondCreds == {[flavor |-> "SYS", body |-> "ok", uid |-> OneId, gid |-> OneId, aux |-> <<>>],
                [flavor |-> "SYS", body |-> "ok", uid |-> ROOT, gid |-> ROOT, aux |-> <<ROOT>>],
                [flavor |-> "NONE", body |-> "ok", uid |-> ROOT, gid |-> ROOT, aux |-> <<>>]}

-----------------------------------------------------------------------------
\* the host focus starts at the connection; the other two start where the credential is looked at
\* (their allow-list is empty and the port rule is off, so Accept, Step1, Step2 are the identity)
FirstPhase == IF Focus = "host" THEN "accept" ELSE "step3"
Init == /\ ph = FirstPhase /\ rq \in Requests /\ pol \in Policies /\ pol0 = pol
        /\ eff = NoEff /\ out = "none" /\ reached = FALSE /\ bcalls = 0 /\ granted = NoGrant
        /\ ctxsys = NoSys /\ nreq = 1

\* server.go acceptLoop: Server.isIPAllowed on the remote address, else Close
Accept ==
  /\ ph = "accept"
  /\ IF GoHostStep(rq.client, pol.allowed, Variant)
       THEN ph' = "step1" /\ out' = out
       ELSE ph' = "done" /\ out' = "closed"
  /\ UNCHANGED <<rq, pol, pol0, eff, reached, bcalls, granted, ctxsys, nreq>>

\* the allow-list is replaced while the connection is open (UpdatePolicyOptions); the
\* request that follows is judged by the list in force when it arrives
Reconfigure ==
  /\ ph = "step1" /\ Focus = "host" /\ pol = pol0
  /\ \E l \in {<<>>, <<BadE>>} : l # pol.allowed /\ pol' = [pol EXCEPT !.allowed = l]
  /\ UNCHANGED <<ph, rq, pol0, eff, out, reached, bcalls, granted, ctxsys, nreq>>

Deny == ph' = "done" /\ out' = "DENIED"

\* ValidateAuthentication step 1
Step1 ==
  /\ ph = "step1"
  /\ IF Variant = "conn_only" \/ GoHostStep(rq.client, pol.allowed, Variant)
       THEN ph' = "step2" /\ out' = out ELSE Deny
  /\ UNCHANGED <<rq, pol, pol0, eff, reached, bcalls, granted, ctxsys, nreq>>

\* step 2
Step2 ==
  /\ ph = "step2"
  /\ IF GoPortStep(pol.secure, rq.port) \/ (Variant = "port_le" /\ rq.port <= 1024)
       THEN ph' = "step3" /\ out' = out ELSE Deny
  /\ UNCHANGED <<rq, pol, pol0, eff, reached, bcalls, granted, ctxsys, nreq>>

\* step 3: flavor switch; "if ctx.AuthSys == nil { ParseAuthSysCredential }"
Step3 ==
  /\ ph = "step3"
  /\ CASE rq.cred.flavor = "NONE" ->
            /\ eff' = [uid |-> NOBODY, gid |-> NOBODY, aux |-> <<>>, sys |-> FALSE]
            /\ ph' = "spawn" /\ out' = out /\ ctxsys' = ctxsys
       [] rq.cred.flavor = "SYS" ->
            IF ctxsys.set      \* a credential is already attached to this context: it is used as it is
              THEN /\ eff' = [uid |-> ctxsys.uid, gid |-> ctxsys.gid, aux |-> ctxsys.aux, sys |-> TRUE]
                   /\ ph' = "squash" /\ out' = out /\ ctxsys' = ctxsys
            ELSE IF rq.cred.body \in Undecodable /\ ~(Variant = "gids17_ok" /\ rq.cred.body = "gids17")
              THEN Deny /\ eff' = eff /\ ctxsys' = ctxsys
              ELSE /\ eff' = [uid |-> rq.cred.uid, gid |-> rq.cred.gid, aux |-> rq.cred.aux, sys |-> TRUE]
                   /\ ctxsys' = [set |-> TRUE, uid |-> rq.cred.uid, gid |-> rq.cred.gid, aux |-> rq.cred.aux]
                   /\ ph' = "squash" /\ out' = out
       [] OTHER -> Deny /\ eff' = eff /\ ctxsys' = ctxsys
  /\ UNCHANGED <<rq, pol, pol0, reached, bcalls, granted, nreq>>

\* step 4: applySquashing (replaces the context's gid list by the squashed copy)
Squash ==
  /\ ph = "squash"
  /\ LET s == GoSquash(IF Variant = "case_sensitive" THEN pol.squash ELSE Lower(pol.squash),
                       eff.uid, eff.gid, eff.aux, Variant)
     IN /\ eff' = [uid |-> s.uid, gid |-> s.gid, aux |-> s.aux, sys |-> TRUE]
        /\ ctxsys' = [ctxsys EXCEPT !.aux = s.aux]
  /\ ph' = "spawn"
  /\ UNCHANGED <<rq, pol, pol0, out, reached, bcalls, granted, nreq>>

\* HandleCall: the goroutine dispatches to the procedure handler
Spawn ==
  /\ ph = "spawn"
  /\ reached' = TRUE /\ ph' = "handler"
  /\ UNCHANGED <<rq, pol, pol0, eff, out, bcalls, granted, ctxsys, nreq>>

\* handleAccess: GetAttr (one backend call), decision per mask, reply
Handler ==
  /\ ph = "handler"
  /\ bcalls' = bcalls + 1
  /\ granted' = [m \in 0..63 |-> GoAccess(rq.obj.mode % 512, rq.obj.isDir, rq.obj, eff, pol.ro, m, Variant)]
  /\ out' = "ACCEPTED" /\ ph' = "done"
  /\ UNCHANGED <<rq, pol, pol0, eff, reached, ctxsys, nreq>>

\* handleConnectionLoop: the next call on the same connection, with its own credential, gets a
\* fresh AuthContext (variant "ctx_hoisted": the context is built once per connection and only its
\* Credential field is replaced, so the parsed AUTH_SYS data of the first call stays attached)
NextRequest ==
  /\ ph = "done" /\ out \in {"ACCEPTED", "DENIED", "replied"} /\ nreq = 1 /\ Focus = "cred"
  /\ \E c2 \in SecondCreds : rq' = [rq EXCEPT !.cred = c2]
  /\ ph' = "step1" /\ out' = "none" /\ reached' = FALSE /\ bcalls' = 0 /\ granted' = NoGrant /\ nreq' = 2
  /\ eff' = NoEff
  /\ ctxsys' = IF Variant = "ctx_hoisted" THEN ctxsys ELSE NoSys
  /\ UNCHANGED <<pol, pol0>>

\* a run-time update that names no squash mode (UpdatePolicyOptions(PolicyOptions{ReadOnly: ..}),
\* UpdateExportOptions with Squash ""), between two requests of a connection: refused or accepted,
\* the mode stays (variant "update_clears_squash": the accepted snapshot is stored with Squash "")
RuntimeUpdate ==
  /\ ph = "done" /\ out \in {"ACCEPTED", "DENIED"} /\ nreq = 1 /\ Focus = "cred" /\ pol.ro = pol0.ro
  /\ pol' = [pol EXCEPT !.ro = ~@, !.squash = IF Variant = "update_clears_squash" THEN "" ELSE @]
  /\ out' = "replied" /\ granted' = NoGrant      \* the first request's reply is out of the picture
  /\ UNCHANGED <<ph, rq, pol0, eff, reached, bcalls, ctxsys, nreq>>

Next == Accept \/ Reconfigure \/ Step1 \/ Step2 \/ Step3 \/ Squash \/ Spawn \/ Handler \/ NextRequest \/ RuntimeUpdate
Spec == Init /\ [][Next]_vars

-----------------------------------------------------------------------------
(* C09 *)
AdmitNow == AdmitVerdict(rq.client, rq.port, pol.allowed, pol.secure)
\* a request reaches a handler only if the rule admits it
Gate == reached => AdmitNow # "no"
\* a rejected request is MSG_DENIED (or its connection was refused) and touched nothing
DeniedClean == out \in {"DENIED", "closed"} => ~reached /\ bcalls = 0
\* the connection-level filter applies the same membership rule
ConnSameRule == /\ out = "closed" => HostVerdict(rq.client, pol0.allowed) # "yes"
                /\ (ph # "accept" /\ out # "closed") => HostVerdict(rq.client, pol0.allowed) # "no"
\* an admissible request with a good credential is processed
Processed == (ph = "done" /\ out \notin {"closed", "replied"} /\ AdmitNow = "yes"
              /\ AuthVerdict(ModeClass(Lower(pol0.squash)), rq.cred).allow = "yes") => out = "ACCEPTED"
HostDecided == (ph = "done" /\ out \notin {"closed", "replied"} /\ AdmitNow = "no") => out = "DENIED"

\* algebra of the rule, evaluated on the initial states (every client x entry pair)
FirstE == pol.allowed[1]
OnPair == ph = "accept" /\ Focus = "host" /\ Len(pol.allowed) = 1 /\ ~pol.secure /\ rq.port = 1023 /\ rq.cred.flavor = "SYS"
MonotonePrefix ==
  (OnPair /\ FirstE.kind = "cidr" /\ ValidEntry(FirstE) /\ FirstE.len >= 1 /\ EntryVerdict(rq.client, FirstE) = "yes")
     => EntryVerdict(rq.client, [FirstE EXCEPT !.len = @ - 1]) # "no"
MappedInvariant ==
  (OnPair /\ rq.client.kind = "addr" /\ rq.client.a.fam = "v4")
     => EntryVerdict(rq.client, FirstE) = EntryVerdict([rq.client EXCEPT !.a = Embed(@)], FirstE)
FullLengthIsAddress ==
  (OnPair /\ FirstE.kind = "cidr" /\ FirstE.len = Width(FirstE.a.fam))
     => EntryVerdict(rq.client, FirstE) = EntryVerdict(rq.client, [FirstE EXCEPT !.kind = "ip"])
ZeroLengthIsFamily ==
  (OnPair /\ FirstE.kind = "cidr" /\ FirstE.len = 0 /\ rq.client.kind = "addr")
     => EntryVerdict(rq.client, FirstE) =
          (IF Norm(rq.client.a).fam = FirstE.a.fam THEN "yes"
           ELSE IF FirstE.a.fam = "v6" THEN "either" ELSE "no")
\* the two readings differ exactly for a v4/mapped client inside a v6 CIDR shorter than the mapped prefix
EitherCharacterised ==
  (OnPair /\ rq.client.kind = "addr" /\ ValidEntry(FirstE) /\ FirstE.kind # "zonedip")
     => ((EntryVerdict(rq.client, FirstE) = "either")
          <=> (/\ Norm(rq.client.a).fam = "v4" /\ FirstE.kind = "cidr" /\ FirstE.a.fam = "v6" /\ FirstE.len < P
               /\ PrefixEq(FirstE.a.bits, Embed(rq.client.a).bits, FirstE.len)))
\* unparseable entries are neutral wherever they stand in the list
BadNeutral ==
  (ph = "accept" /\ Focus = "host" /\ Len(pol.allowed) = 2)
     => MemberVerdict(rq.client, pol.allowed) =
          MemberVerdict(rq.client, SelectSeq(pol.allowed, LAMBDA e : e # BadE))
\* the definite relation is the "yes" verdict
MemberIsYes ==
  (ph = "accept" /\ Focus = "host" /\ Len(pol.allowed) >= 1 /\ rq.client.kind = "addr")
     => (MemberVerdict(rq.client, pol.allowed) = "yes" => Member(rq.client, pol.allowed))
        /\ (Member(rq.client, pol.allowed) => MemberVerdict(rq.client, pol.allowed) # "no")

(* C10.  The squash mode is the one the export was created with (pol0): it is immutable at run time *)
Established == ph \in {"spawn", "handler"} \/ (ph = "done" /\ out = "ACCEPTED")
EffIdeal ==
  Established => AuthMatches(AuthVerdict(ModeClass(Lower(pol0.squash)), rq.cred),
                             [allowed |-> TRUE, uid |-> eff.uid, gid |-> eff.gid, aux |-> eff.aux])
CredDecided ==
  (ph = "done" /\ out = "DENIED" /\ AdmitNow = "yes")
     => AuthVerdict(ModeClass(Lower(pol0.squash)), rq.cred).allow # "yes"
NoRootUnderRootSquash ==
  (Established /\ Lower(pol0.squash) = "root") => eff.uid # ROOT /\ eff.gid # ROOT /\ ROOT \notin Rng(eff.aux)
AllIsNobody ==
  (Established /\ Lower(pol0.squash) = "all") => eff.uid = NOBODY /\ eff.gid = NOBODY /\ Rng(eff.aux) \subseteq {NOBODY}
SquashIdempotent ==
  (ph = FirstPhase /\ Focus = "cred" /\ rq.cred.flavor = "SYS")
     => LET mc == ModeClass(Lower(pol0.squash))
            s  == SquashIds(mc, rq.cred.uid, rq.cred.gid, rq.cred.aux)
        IN  /\ SquashIds(mc, s.uid, s.gid, s.aux) = s
            /\ Len(s.aux) = Len(rq.cred.aux)
            /\ (mc = "none" => s = [uid |-> rq.cred.uid, gid |-> rq.cred.gid, aux |-> rq.cred.aux])

(* C12 *)
AccessIdeal ==
  out = "ACCEPTED" =>
    \A m \in 0..63 : AccessOK(rq.obj.mode % 512, rq.obj.isDir, Class(rq.obj, eff), eff.uid = ROOT, pol.ro, m, granted[m])
NeverOverGrant ==
  out = "ACCEPTED" => \A m \in 0..63 : AndTab[m][granted[m]] = granted[m]
DirectoryOnly ==
  (out = "ACCEPTED" /\ ~rq.obj.isDir) => \A m \in 0..63 : ~HasBit(granted[m], 2) /\ ~HasBit(granted[m], 16)
ReadOnlyClause ==
  (out = "ACCEPTED" /\ pol.ro) => \A m \in 0..63 : ~HasBit(granted[m], 4) /\ ~HasBit(granted[m], 8) /\ ~HasBit(granted[m], 16)
MaskDistributes ==
  out = "ACCEPTED" => \A m \in 0..63 : granted[m] = AndTab[m][granted[63]]

TypeOK == /\ ph \in {"accept", "step1", "step2", "step3", "squash", "spawn", "handler", "done"}
          /\ out \in {"none", "closed", "DENIED", "ACCEPTED", "replied"}
          /\ reached \in BOOLEAN /\ bcalls \in 0..1 /\ nreq \in 1..2
          /\ (out = "ACCEPTED") => reached
=============================================================================

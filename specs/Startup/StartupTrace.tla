---------------------------- MODULE StartupTrace ----------------------------
(***************************************************************************)
(* Step validation of recorded client sessions against servers started      *)
(* through every public start-up path (harness/vf_startup.go).              *)
(*                                                                         *)
(* One history = one started server:                                       *)
(*   reset    path, options, whether it started, the framing flag read      *)
(*            in-package (impl level)                                      *)
(*   rawprobe an un-framed NULL call on its own connection: does the server *)
(*            speak raw (header-less) RPC?                                  *)
(*   call     one record-marked call of the conformant session with the    *)
(*            decoded outcome                                              *)
(* ideal level (verdict): on a documented path every call of the session   *)
(*            is answered (StartupOps!ValidReply, field by field);          *)
(* impl level (drift): framing flag and raw-probe outcome = FramingOf(path).*)
(***************************************************************************)
EXTENDS StartupOps, TLC, Json, IOUtils

CONSTANTS KnownDeviations,   \* subset of {"Dev_ExportNoRecordMarking"}
          FixExport          \* impl-level model switch (TRUE after fix F20)

TraceLog == ndJsonDeserialize(IOEnv.VF_TRACE)
N == Len(TraceLog)

VARIABLES l, path, started, rawAns, bad, dev, drift, stats
vars == <<l, path, started, rawAns, bad, dev, drift, stats>>

Cur == TraceLog[l]
Known(d) == d \in KnownDeviations
Tag(S) == {[l |-> l, why |-> w] : w \in S}

\* a reply a conformant client accepts (the fields are what ValidReply tests on the words)
RpcAnswered(c) == /\ c.outcome = "reply" /\ c.r.framed /\ c.r.xid_ok
                  /\ c.r.mtype = REPLY /\ c.r.rstat = 0 /\ c.r.astat = 0
Answered(c) ==
  /\ RpcAnswered(c)
  /\ CASE c.proc = "NULL"         -> TRUE
       [] c.proc = "MNT"          -> c.r.status = 0 /\ c.r.fhlen >= 1 /\ c.r.fhlen <= 64
       [] c.proc = "GETATTR"      -> c.r.status = 0 /\ c.r.ftype = DIRTYPE
       [] c.proc = "PMAP_GETPORT" -> TRUE
       [] OTHER -> FALSE

WhyNot(c) ==
  CASE c.proc = "NULL"    -> "documented start-up path did not answer a record-marked NULL call"
    [] c.proc = "MNT"     -> "documented start-up path did not answer a record-marked MNT call"
    [] c.proc = "GETATTR" -> "documented start-up path did not answer a record-marked GETATTR of the mounted handle"
    [] OTHER              -> "documented start-up path did not answer a record-marked portmapper call"

Init == /\ l = 1 /\ path = "none" /\ started = FALSE /\ rawAns = FALSE
        /\ bad = {} /\ dev = {} /\ drift = {}
        /\ stats = [lines |-> 0, hist |-> 0, calls |-> 0, answered |-> 0, skipped |-> 0, rawprobes |-> 0]

StepReset ==
  /\ Cur.ev = "reset"
  /\ path' = Cur.path /\ started' = Cur.started /\ rawAns' = FALSE
  /\ bad' = bad \cup Tag(IF Documented(Cur.path) /\ ~Cur.started /\ ~Cur.skip
                         THEN {"documented start-up path failed to start"} ELSE {})
  /\ drift' = drift \cup Tag(IF Cur.started /\ (Cur.rm # (FramingOf(Cur.path, FixExport) = "rm"))
                             THEN {"UseRecordMarking of the started server differs from FramingOf(path)"} ELSE {})
  /\ UNCHANGED dev
  /\ stats' = [stats EXCEPT !.hist = @ + 1, !.skipped = @ + (IF Cur.skip THEN 1 ELSE 0)]

StepProbe ==
  /\ Cur.ev = "rawprobe"
  /\ LET ans == Cur.outcome = "reply" /\ ~Cur.r.framed /\ Cur.r.xid_ok /\ Cur.r.mtype = REPLY
                /\ Cur.r.rstat = 0 /\ Cur.r.astat = 0 IN
     /\ rawAns' = ans
     /\ drift' = drift \cup Tag(IF ans # (FramingOf(path, FixExport) = "raw")
                                THEN {"raw probe outcome differs from FramingOf(path)"} ELSE {})
  /\ UNCHANGED <<path, started, bad, dev>>
  /\ stats' = [stats EXCEPT !.rawprobes = @ + 1]

StepCall ==
  /\ Cur.ev = "call"
  /\ LET ok == Answered(Cur)
         \* F20: Export() leaves UseRecordMarking off; the server demonstrably speaks raw RPC
         isDev == ~ok /\ path = "Export" /\ rawAns /\ Known("Dev_ExportNoRecordMarking") IN
     /\ bad' = bad \cup Tag(IF Documented(path) /\ started /\ ~ok /\ ~isDev THEN {WhyNot(Cur)} ELSE {})
     /\ dev' = dev \cup (IF Documented(path) /\ started /\ isDev
                         THEN {[l |-> l, name |-> "Dev_ExportNoRecordMarking"]} ELSE {})
     /\ drift' = drift \cup Tag(IF started /\ (ok # (FramingOf(path, FixExport) = "rm"))
                                THEN {"call outcome differs from what FramingOf(path) predicts"} ELSE {})
     /\ stats' = [stats EXCEPT !.calls = @ + 1, !.answered = @ + (IF ok THEN 1 ELSE 0)]
  /\ UNCHANGED <<path, started, rawAns>>

Consume == /\ l <= N
           /\ l' = l + 1
           /\ (StepReset \/ StepProbe \/ StepCall)

Finish == /\ l = N + 1
          /\ l' = N + 2
          /\ JsonSerialize(IOEnv.VF_RESULT,
                [n |-> N, consumed |-> l - 1, bad |-> bad, dev |-> dev, drift |-> drift,
                 stats |-> [stats EXCEPT !.lines = N]])
          /\ UNCHANGED <<path, started, rawAns, bad, dev, drift, stats>>

Next == Consume \/ Finish
Spec == Init /\ [][Next]_vars
=============================================================================

---------------------------- MODULE StartupOps ----------------------------
(***************************************************************************)
(* Pure operators of the Startup family (C28): the ONC RPC wire at word     *)
(* granularity (one element = one XDR word), RFC 1831 section 10 record     *)
(* marking, the call decoder of rpc_types.go DecodeRPCCall, the dispatch    *)
(* of nfs_handlers.go HandleCall for the three procedures of the session,   *)
(* and the framing each public start-up path selects.                       *)
(* Shared by Startup.tla (design spec) and StartupTrace.tla (trace spec).   *)
(***************************************************************************)
EXTENDS Integers, Sequences, FiniteSets

-----------------------------------------------------------------------------
(* numbers of the protocol; LAST stands for bit 31 of a fragment header     *)
(* (TLC integers are 32-bit signed, the real 0x80000000 does not fit)       *)
LAST     == 1000000000
CALL     == 0
REPLY    == 1
RPCVERS  == 2
NFSPROG  == 100003
MNTPROG  == 100005
PMAPPROG == 100000
MAXAUTH  == 400          \* MAX_RPC_AUTH_LENGTH (bytes)
MAXREC   == 262144       \* DefaultMaxRecordSize in words (1 MiB)
SLASH    == 788529152    \* "/" padded to one word (0x2F000000)
ROOTHI   == 0            \* the root handle value (two words); MNT "/" allocates id 1 first
ROOTLO   == 1
DIRTYPE  == 2            \* NF3DIR
STALE    == 70

Words(bytes) == (bytes + 3) \div 4

-----------------------------------------------------------------------------
(* Start-up paths (the public ways of starting a server) *)
AllPaths == {"Export", "ListenRM", "ListenRaw", "SWP"}
\* the paths C28 quantifies over: Export, Listen with record marking, StartWithPortmapper
Documented(p) == p \in {"Export", "ListenRM", "SWP"}

\* Framing the started server applies to every accepted connection
\* (server.go acceptLoop: options.UseRecordMarking selects handleConnectionWithRecordMarking).
\*   operations.go Export builds ServerOptions without UseRecordMarking      -> raw   (F20)
\*   Listen uses the caller's ServerOptions                                   -> as given
\*   StartWithPortmapper sets options.UseRecordMarking = true before Listen  -> rm
FramingOf(p, fixExport) ==
  CASE p = "Export"    -> IF fixExport THEN "rm" ELSE "raw"
    [] p = "ListenRM"  -> "rm"
    [] p = "ListenRaw" -> "raw"
    [] p = "SWP"       -> "rm"

-----------------------------------------------------------------------------
(* Record marking *)
Mark(last, len) == (IF last THEN LAST ELSE 0) + len
IsLast(w) == w >= LAST
LenOf(w)  == w % LAST

\* a conformant writer: the whole message as one fragment, or split into two fragments
Frame(msg, nfrag) ==
  IF nfrag = 1 \/ Len(msg) < 2
  THEN <<Mark(TRUE, Len(msg))>> \o msg
  ELSE LET k == Len(msg) \div 2 IN
       <<Mark(FALSE, k)>> \o SubSeq(msg, 1, k) \o <<Mark(TRUE, Len(msg) - k)>> \o SubSeq(msg, k + 1, Len(msg))

\* RecordMarkingReader.ReadRecord over a word stream:
\*   st = "ok" (rec, rest) | "short" (blocks for more bytes) | "err" (record too large)
RECURSIVE ReadRec(_, _)
ReadRec(s, acc) ==
  IF Len(s) = 0 THEN [st |-> "short", rec |-> acc, rest |-> s]
  ELSE LET h == s[1] n == LenOf(s[1]) IN
       IF Len(acc) + n > MAXREC THEN [st |-> "err", rec |-> acc, rest |-> s]
       ELSE IF Len(s) - 1 < n THEN [st |-> "short", rec |-> acc, rest |-> s]
       ELSE LET acc2 == acc \o SubSeq(s, 2, n + 1)
                rest == SubSeq(s, n + 2, Len(s)) IN
            IF IsLast(h) THEN [st |-> "ok", rec |-> acc2, rest |-> rest]
            ELSE ReadRec(rest, acc2)
ReadRecord(s) == ReadRec(s, <<>>)

-----------------------------------------------------------------------------
(* Calls *)
Cred(auth) == IF auth = "SYS" THEN <<1, 20, 7, 0, 0, 0, 0>>   \* stamp, machine "", uid 0, gid 0, no aux gids
              ELSE <<0, 0>>                                    \* AUTH_NONE
\* c = [xid, prog, vers, proc, auth, args]
Enc(c) == <<c.xid, CALL, RPCVERS, c.prog, c.vers, c.proc>> \o Cred(c.auth) \o <<0, 0>> \o c.args

NullCall(x, a)    == [xid |-> x, prog |-> NFSPROG, vers |-> 3, proc |-> 0, auth |-> a, args |-> <<>>]
MntCall(x, a)     == [xid |-> x, prog |-> MNTPROG, vers |-> 3, proc |-> 1, auth |-> a, args |-> <<1, SLASH>>]
GetattrCall(x, a, hi, lo) == [xid |-> x, prog |-> NFSPROG, vers |-> 3, proc |-> 1, auth |-> a, args |-> <<8, hi, lo>>]

\* DecodeRPCCall (rpc_types.go) over a word stream.  st = "ok" | "short" | "err".
\* Only the message type and the two opaque_auth lengths are validated.
Decode(w) ==
  LET n == Len(w) IN
  IF n < 2 THEN [st |-> "short"]
  ELSE IF w[2] # CALL THEN [st |-> "err"]
  ELSE IF n < 8 THEN [st |-> "short"]
  ELSE IF w[8] > MAXAUTH \/ w[8] < 0 THEN [st |-> "err"]
  ELSE LET cw == Words(w[8]) IN
       IF n < 8 + cw + 2 THEN [st |-> "short"]
       ELSE IF w[8 + cw + 2] > MAXAUTH \/ w[8 + cw + 2] < 0 THEN [st |-> "err"]
       ELSE LET vw == Words(w[8 + cw + 2]) hdr == 8 + cw + 2 + vw IN
            IF n < hdr THEN [st |-> "short"]
            ELSE [st |-> "ok", xid |-> w[1], rpcvers |-> w[3], prog |-> w[4], vers |-> w[5], proc |-> w[6],
                  flavor |-> w[7], rest |-> SubSeq(w, hdr + 1, n)]

-----------------------------------------------------------------------------
(* Replies *)
Accepted(xid, astat, body) == <<xid, REPLY, 0, 0, 0, astat>> \o body
Denied(xid)                == <<xid, REPLY, 1, 1, 1>>
RootAttrs == <<DIRTYPE>> \o [i \in 1..20 |-> 0]     \* fattr3 = 21 words, type first

\* HandleCall + handleMountCall / handleNFSCall for the procedures of the session.
\* d = decoded call, args = the words the handler can read after the header.
\* Returns [reply, used] (used = argument words the handler consumed).
Dispatch(d, args) ==
  IF d.flavor \notin {0, 1} THEN [reply |-> Denied(d.xid), used |-> 0]
  ELSE IF d.prog = MNTPROG THEN
         IF d.vers \notin {1, 3} THEN [reply |-> Accepted(d.xid, 2, <<3, 3>>), used |-> 0]
         ELSE IF d.proc = 0 THEN [reply |-> Accepted(d.xid, 0, <<>>), used |-> 0]
         ELSE IF d.proc = 1 THEN
                IF Len(args) >= 2 /\ args[1] = 1 /\ args[2] = SLASH
                THEN [reply |-> Accepted(d.xid, 0, <<0, 8, ROOTHI, ROOTLO, 1, 1>>), used |-> 2]
                ELSE [reply |-> Accepted(d.xid, 0, <<2>>), used |-> Len(args)]
         ELSE [reply |-> Accepted(d.xid, 3, <<>>), used |-> 0]
  ELSE IF d.prog = NFSPROG THEN
         IF d.vers # 3 THEN [reply |-> Accepted(d.xid, 2, <<3, 3>>), used |-> 0]
         ELSE IF d.proc = 0 THEN [reply |-> Accepted(d.xid, 0, <<>>), used |-> 0]
         ELSE IF d.proc = 1 THEN
                IF Len(args) >= 3 /\ args[1] = 8 /\ args[2] = ROOTHI /\ args[3] = ROOTLO
                THEN [reply |-> Accepted(d.xid, 0, <<0>> \o RootAttrs), used |-> 3]
                ELSE [reply |-> Accepted(d.xid, 0, <<STALE>>), used |-> (IF Len(args) < 3 THEN Len(args) ELSE 3)]
         ELSE [reply |-> Accepted(d.xid, 3, <<>>), used |-> 0]
  ELSE [reply |-> Accepted(d.xid, 1, <<>>), used |-> 0]     \* PROG_UNAVAIL

\* What a conformant client accepts as the answer to call number k of the session
\* (1 = NULL, 2 = MNT, 3 = GETATTR): a reply message for its xid, MSG_ACCEPTED / SUCCESS, and
\* the procedure's OK result.
ValidReply(r, xid, k) ==
  /\ Len(r) >= 6 /\ r[1] = xid /\ r[2] = REPLY /\ r[3] = 0 /\ r[4] = 0 /\ r[5] = 0 /\ r[6] = 0
  /\ CASE k = 1 -> TRUE
       [] k = 2 -> Len(r) >= 10 /\ r[7] = 0 /\ r[8] = 8
       [] k = 3 -> Len(r) >= 8 /\ r[7] = 0 /\ r[8] = DIRTYPE
=============================================================================

------------------------------ MODULE Startup ------------------------------
(***************************************************************************)
(* C28: every documented way of starting a server speaks record-marked      *)
(* ONC RPC over TCP.                                                        *)
(*                                                                         *)
(* State: the start-up path that was used, the framing the started server  *)
(* applies to its connections, one TCP connection as two word streams      *)
(* (client->server, server->client) and the session of a conformant client *)
(* (NULL, MNT "/", GETATTR of the mounted handle; every call record-marked *)
(* in one or two fragments, any xid, AUTH_NONE or AUTH_SYS; what it writes  *)
(* reaches the server in TCP segments of any size).                         *)
(*                                                                         *)
(* Impl level: one action per pass of server.go handleConnectionLoop       *)
(*   ServeRM  = recordMarkingConnIO.ReadCall + HandleCall + WriteReply      *)
(*   ServeRaw = rawConnIO.ReadCall (DecodeRPCCall straight off the socket)  *)
(*              + HandleCall + WriteReply without a fragment header         *)
(* Ideal level: on a documented path the session completes.                *)
(***************************************************************************)
EXTENDS StartupOps, TLC

CONSTANTS Paths,      \* subset of AllPaths explored
          Xids,       \* xids the client may use (0 is interesting: a raw decoder then accepts the shifted header)
          Frags,      \* subset of {1, 2}: fragments per call record
          Auths,      \* subset of {"NONE", "SYS"}
          FixExport,  \* TRUE: Export starts its Server with UseRecordMarking (repair of F20)
          FullRead,   \* TRUE: a fragment body is read with io.ReadFull (the code); FALSE: with one Read (a defect class)
          SegSizes    \* sizes (in words) of the partial TCP segments explored, e.g. {1, 3}; a whole write is always possible

VARIABLES path,     \* start-up path in use
          framing,  \* "none" (not started) | "rm" | "raw"
          conn,     \* "none" | "open" | "closed" (closed or reset by the server)
          wire,     \* words the client has written that TCP has not delivered to the server yet
          c2s, s2c, \* word streams (c2s: delivered to the server, not yet consumed)
          step,     \* client: 1 = NULL, 2 = MNT, 3 = GETATTR, 4 = session complete
          await,    \* client has a call outstanding
          xid,      \* xid of the outstanding call
          fh,       \* handle the client obtained from MNT (<<hi, lo>>) or <<>>
          failed    \* client gave up: connection lost or no valid reply
vars == <<path, framing, conn, wire, c2s, s2c, step, await, xid, fh, failed>>

Init == /\ path \in Paths
        /\ framing = "none" /\ conn = "none" /\ wire = <<>> /\ c2s = <<>> /\ s2c = <<>>
        /\ step = 1 /\ await = FALSE /\ xid = 0 /\ fh = <<>> /\ failed = FALSE

\* Export / Listen / StartWithPortmapper return: the accept loop is running
Start == /\ framing = "none"
         /\ framing' = FramingOf(path, FixExport)
         /\ UNCHANGED <<path, conn, wire, c2s, s2c, step, await, xid, fh, failed>>

Connect == /\ framing # "none" /\ conn = "none"
           /\ conn' = "open"
           /\ UNCHANGED <<path, framing, wire, c2s, s2c, step, await, xid, fh, failed>>

CallOf(k, x, a) == CASE k = 1 -> NullCall(x, a)
                     [] k = 2 -> MntCall(x, a)
                     [] k = 3 -> GetattrCall(x, a, fh[1], fh[2])

ClientSend(x, a, nf) ==
  /\ conn = "open" /\ ~await /\ ~failed /\ step \in 1..3
  /\ wire' = wire \o Frame(Enc(CallOf(step, x, a)), nf)
  /\ await' = TRUE /\ xid' = x
  /\ UNCHANGED <<path, framing, conn, c2s, s2c, step, fh, failed>>

\* TCP is a byte stream: what the client wrote reaches the server in segments of any size
\* (one write may be split, the fragment header may arrive alone, a fragment may arrive in pieces)
Deliver(k) ==
  /\ conn = "open" /\ k \in SegSizes /\ k <= Len(wire)
  /\ c2s' = c2s \o SubSeq(wire, 1, k)
  /\ wire' = SubSeq(wire, k + 1, Len(wire))
  /\ UNCHANGED <<path, framing, conn, s2c, step, await, xid, fh, failed>>
DeliverAll ==
  /\ conn = "open" /\ wire # <<>>
  /\ c2s' = c2s \o wire /\ wire' = <<>>
  /\ UNCHANGED <<path, framing, conn, s2c, step, await, xid, fh, failed>>

\* one pass of handleConnectionLoop with recordMarkingConnIO
ServeRM ==
  /\ framing = "rm" /\ conn = "open" /\ c2s # <<>>
  /\ LET r == ReadRecord(c2s) IN
     /\ r.st # "short"                         \* blocks until the record is complete
     /\ IF r.st = "err" THEN conn' = "closed" /\ UNCHANGED <<c2s, s2c>>
        ELSE LET d == Decode(r.rec) IN
             IF d.st # "ok" THEN conn' = "closed" /\ UNCHANGED <<c2s, s2c>>
             ELSE /\ s2c' = s2c \o Frame(Dispatch(d, d.rest).reply, 1)
                  /\ c2s' = r.rest
                  /\ UNCHANGED conn
  /\ UNCHANGED <<path, framing, wire, step, await, xid, fh, failed>>

\* defect class (FullRead = FALSE): the fragment body is taken from a single Read; when only part of
\* the fragment has arrived the record is truncated, the stream loses framing, the connection ends
ServeRMTruncated ==
  /\ ~FullRead /\ framing = "rm" /\ conn = "open" /\ Len(c2s) >= 2
  /\ ReadRecord(c2s).st = "short"
  /\ conn' = "closed"
  /\ UNCHANGED <<path, framing, wire, c2s, s2c, step, await, xid, fh, failed>>

\* one pass of handleConnectionLoop with rawConnIO: the header is decoded straight off the
\* socket, the handler reads its arguments from the socket, the reply has no fragment header.
\* A decode error, or a header that never completes (5 s read deadline), ends the connection.
ServeRaw ==
  /\ framing = "raw" /\ conn = "open" /\ c2s # <<>>
  /\ LET d == Decode(c2s) IN
     /\ (d.st = "short" => wire = <<>>)     \* blocks for the rest of the header; gives up only when nothing more comes
     /\ IF d.st # "ok" THEN conn' = "closed" /\ UNCHANGED <<c2s, s2c>>
        ELSE LET x == Dispatch(d, d.rest) IN
             /\ s2c' = s2c \o x.reply
             /\ c2s' = SubSeq(d.rest, x.used + 1, Len(d.rest))
             /\ UNCHANGED conn
  /\ UNCHANGED <<path, framing, wire, step, await, xid, fh, failed>>

ServerCanAct == conn = "open" /\ c2s # <<>> /\
                (framing = "raw" \/ (framing = "rm" /\ ReadRecord(c2s).st # "short"))
InFlight == conn = "open" /\ wire # <<>>

\* the client reads one record-marked reply
ClientRecv ==
  /\ await /\ ~failed
  /\ LET r == ReadRecord(s2c) IN
     /\ r.st = "ok"
     /\ IF ValidReply(r.rec, xid, step)
        THEN /\ step' = step + 1 /\ await' = FALSE /\ s2c' = r.rest
             /\ fh' = IF step = 2 THEN <<r.rec[9], r.rec[10]>> ELSE fh
             /\ UNCHANGED failed
        ELSE failed' = TRUE /\ UNCHANGED <<step, await, s2c, fh>>
  /\ UNCHANGED <<path, framing, conn, wire, c2s, xid>>

\* the client gives up: connection closed/reset by the server, a reply that can never become
\* a record, or silence (the server has nothing left to do)
ClientGiveUp ==
  /\ await /\ ~failed
  /\ ReadRecord(s2c).st # "ok"
  /\ ~ServerCanAct /\ ~InFlight
  /\ failed' = TRUE
  /\ UNCHANGED <<path, framing, conn, wire, c2s, s2c, step, await, xid, fh>>

Idle == (step = 4 \/ failed) /\ UNCHANGED vars

Next == \/ Start \/ Connect \/ ServeRM \/ ServeRaw \/ ClientRecv \/ ClientGiveUp \/ Idle
        \/ DeliverAll \/ \E k \in SegSizes : Deliver(k) \/ ServeRMTruncated
        \/ \E x \in Xids, a \in Auths, nf \in Frags : ClientSend(x, a, nf)

Spec == Init /\ [][Next]_vars /\ WF_vars(Next)

-----------------------------------------------------------------------------
(* Ideal level: C28 *)
\* a conformant client never has to give up on a documented path ...
Serves    == Documented(path) => ~failed
\* ... and its session completes
Completes == Documented(path) => <>(step = 4)
\* what holds of the code as it is (F20 present): every path that frames with record marking serves
ServesRM    == framing = "rm" => ~failed
CompletesRM == (Documented(path) /\ FramingOf(path, FixExport) = "rm") => <>(step = 4)

\* impl-level facts TLC confirms on the way
TypeOK == /\ framing \in {"none", "rm", "raw"} /\ conn \in {"none", "open", "closed"}
          /\ step \in 1..4 /\ (fh = <<>> \/ Len(fh) = 2)
\* a raw server never produces something a record-marking client accepts as a reply record
\* for its call (this is why F20 is a total failure and not a degraded mode)
RawNeverAnswers == framing = "raw" => step = 1
\* replies of an rm server are single well-formed fragments
RmStreamFramed == framing = "rm" => (s2c = <<>> \/ ReadRecord(s2c).st = "ok")
=============================================================================

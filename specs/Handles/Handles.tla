------------------------------ MODULE Handles ------------------------------
(***************************************************************************)
(* File handle table of absnfs (filehandle.go, minheap.go).                *)
(*                                                                         *)
(* Abstract state: the live table id -> path, its reverse map, the free    *)
(* list (a min-heap = a set with pop-min), the next fresh id; ghost        *)
(* `first` remembers, for every id value ever given to a client, the path  *)
(* it was first given for (it survives eviction, release and ReleaseAll).  *)
(*                                                                         *)
(* Impl level: Allocate / Release / ReleaseAll transcribed from the code,  *)
(* one action per critical section (each holds fm.Lock for its whole       *)
(* body).  Ideal level: the properties C05 / C06 state.                    *)
(*                                                                         *)
(* The pure operators (AllocStep ...) take and return state records so     *)
(* that HandlesTrace can apply them to *logged* pre-states.                *)
(***************************************************************************)
EXTENDS HandlesOps, TLC

CONSTANTS Paths,         \* set of paths (model values or strings)
          MaxH,          \* configured maximum number of live handles (>= 1)
          IdBound,       \* exploration bound on the fresh-id counter
          SkipReturned,  \* TRUE: eviction never removes the id being returned (fix F06)
          Recycle        \* TRUE: ids released/evicted are reused through the free list (the code)

VARIABLES tab,     \* [live ids -> Paths]
          byPath,  \* [paths with a live handle -> id]
          free,    \* set of recyclable ids
          next,    \* next fresh id
          first,   \* ghost: [ids ever issued -> path first issued for]
          last     \* last operation and its result (observation only)

vars == <<tab, byPath, free, next, first, last>>

-----------------------------------------------------------------------------
(* The state machine *)
State == [tab |-> tab, byPath |-> byPath, free |-> free, next |-> next]

Init == /\ tab = EmptyFn /\ byPath = EmptyFn /\ free = {} /\ next = 1
        /\ first = EmptyFn
        /\ last = [op |-> "init", p |-> "-", id |-> 0, fromFree |-> FALSE]

Install(s) == /\ tab' = s.tab /\ byPath' = s.byPath /\ next' = s.next
              /\ free' = IF Recycle THEN s.free ELSE {}

Allocate(p) ==
  LET r == AllocStep(State, p, MaxH, SkipReturned) IN
    /\ Install(r.s)
    /\ first' = IF r.id \in DOMAIN first THEN first ELSE With(first, r.id, p)
    /\ last' = [op |-> "alloc", p |-> p, id |-> r.id, fromFree |-> r.fromFree]

Release(h) ==
  /\ h \in DOMAIN tab
  /\ Install(ReleaseStep(State, h))
  /\ UNCHANGED first
  /\ last' = [op |-> "release", p |-> "-", id |-> h, fromFree |-> FALSE]

ReleaseAll ==
  /\ Install(ReleaseAllStep(State))
  /\ UNCHANGED first
  /\ last' = [op |-> "releaseall", p |-> "-", id |-> 0, fromFree |-> FALSE]

Next == \/ \E p \in Paths : Allocate(p)
        \/ \E h \in DOMAIN tab : Release(h)
        \/ ReleaseAll

Spec == Init /\ [][Next]_vars

Bounded_Explore == next <= IdBound   \* state constraint for exhaustive runs

-----------------------------------------------------------------------------
(* Ideal level: what C05 and C06 require *)

\* C05: a handle is live, and names the path it was issued for, when it is returned
IssuedIsLive == last.op = "alloc" => (last.id \in DOMAIN tab /\ tab[last.id] = last.p)

\* C05: one handle per path while live (the reverse map is the inverse of the table)
OnePerPath == /\ \A h \in DOMAIN tab : tab[h] \in DOMAIN byPath /\ byPath[tab[h]] = h
              /\ \A p \in DOMAIN byPath : byPath[p] \in DOMAIN tab /\ tab[byPath[p]] = p

\* C05: the table is bounded
Bounded == Cardinality(DOMAIN tab) <= MaxH

\* C06: a live id still names the path its value was first given out for
NoRebind == \A h \in DOMAIN tab : h \in DOMAIN first => tab[h] = first[h]

\* C06 restricted to what the recycling deviation (F07) explains: a rebinding is only ever
\* produced by an Allocate that took its id from the free list.
RebindOnlyViaFreeList ==
  [][ (\E h \in DOMAIN tab' : h \in DOMAIN first' /\ tab'[h] # first'[h] /\
         ~(h \in DOMAIN tab /\ tab[h] = tab'[h]))
      => (last'.op = "alloc" /\ last'.fromFree) ]_vars

\* structural sanity of the impl level
TypeOK == /\ DOMAIN tab \subseteq 1..(next - 1)
          /\ free \subseteq 1..(next - 1)
          /\ free \cap DOMAIN tab = {}
          /\ DOMAIN first \subseteq 1..(next - 1)
=============================================================================

---------------------------- MODULE HandlesOps ----------------------------
(***************************************************************************)
(* Pure transcription of FileHandleMap.Allocate / Release / ReleaseAll      *)
(* (filehandle.go) as functions over state records                          *)
(*   s = [tab |-> id->path, byPath |-> path->id, free |-> set, next |-> n]. *)
(* Shared by the design spec (Handles) and the trace spec (HandlesTrace),   *)
(* which applies them to logged pre-states.                                 *)
(***************************************************************************)
EXTENDS Integers, FiniteSets, Sequences

-----------------------------------------------------------------------------
(* helpers *)
SetMin(S) == CHOOSE x \in S : \A y \in S : x <= y
Without(f, S) == [x \in (DOMAIN f) \ S |-> f[x]]
With(f, k, v) == [x \in (DOMAIN f) \cup {k} |-> IF x = k THEN v ELSE f[x]]
EmptyFn == [x \in {} |-> 0]

RECURSIVE Lowest(_, _)
Lowest(S, n) == IF n = 0 \/ S = {} THEN {}
                ELSE LET m == SetMin(S) IN {m} \cup Lowest(S \ {m}, n - 1)

EvictCount(maxh) == IF maxh \div 10 < 1 THEN 1 ELSE maxh \div 10

-----------------------------------------------------------------------------
(* Impl level as pure functions over state records                         *)
(*   s = [tab, byPath, free, next]                                         *)

\* Allocate(node with path p), filehandle.go Allocate
AllocStep(s, p, maxh, skip) ==
  IF p \in DOMAIN s.byPath
  THEN [id |-> s.byPath[p], s |-> s, evicted |-> {}, fromFree |-> FALSE]
  ELSE
    LET useFree == s.free # {}
        h     == IF useFree THEN SetMin(s.free) ELSE s.next
        free1 == IF useFree THEN s.free \ {h} ELSE s.free
        next1 == IF useFree THEN s.next ELSE s.next + 1
        tab1  == With(s.tab, h, p)
        byp1  == With(s.byPath, p, h)
        over  == Cardinality(DOMAIN tab1) > maxh
        cand  == IF skip THEN (DOMAIN tab1) \ {h} ELSE DOMAIN tab1
        vict  == IF over THEN Lowest(cand, EvictCount(maxh)) ELSE {}
        tab2  == Without(tab1, vict)
        byp2  == Without(byp1, {tab1[v] : v \in vict})
    IN [id |-> h,
        s  |-> [tab |-> tab2, byPath |-> byp2, free |-> free1 \cup vict, next |-> next1],
        evicted |-> vict, fromFree |-> useFree]

\* Release(h)
ReleaseStep(s, h) ==
  IF h \in DOMAIN s.tab
  THEN [tab |-> Without(s.tab, {h}), byPath |-> Without(s.byPath, {s.tab[h]}),
        free |-> s.free \cup {h}, next |-> s.next]
  ELSE s

\* ReleaseAll(): the table, the reverse map and the free list are emptied; next is kept
ReleaseAllStep(s) == [tab |-> EmptyFn, byPath |-> EmptyFn, free |-> {}, next |-> s.next]

=============================================================================

----------------------------- MODULE HandlesInd -----------------------------
(***************************************************************************)
(* Inductive invariant of Handles.tla (file handle table, C05 / C06),      *)
(* proved with TLAPS (tlapm) for EVERY value of the constants: any set of  *)
(* paths (finite or not), any limit MaxH >= 1, both values of SkipReturned *)
(* and Recycle, behaviours of any length (TLC: 4-5 paths, limit 2-3, at    *)
(* most 6-7 ids ever issued; IdBound only constrains TLC's exploration and *)
(* plays no role here).                                                    *)
(*                                                                         *)
(* Handles.tla is used as it is (EXTENDS).  HandlesOps.tla defines Lowest  *)
(* as a RECURSIVE operator, which tlapm cannot load at all, so             *)
(* checks/PROOFS.py runs tlapm on a scratch copy in which those three      *)
(* lines are replaced by `CONSTANT Lowest(_, _)`; the operator's defining  *)
(* equation is assumed below (LowestUnfold) and is all the proof knows     *)
(* about it.  HandlesIndMC.tla lets TLC confirm that the assumed equation  *)
(* is the recursive definition's on all subsets of 1..6.                   *)
(*                                                                         *)
(* What is proved                                                          *)
(*   InitInd, StepInd   Init => IndInv, IndInv /\ [Next]_vars => IndInv'   *)
(*   IndImpliesListed   IndInv => TypeOK /\ OnePerPath /\ Bounded          *)
(*                        /\ (SkipReturned => IssuedIsLive)                *)
(*                        /\ (~Recycle => NoRebind)                        *)
(*   StepProps          every step satisfies RebindOnlyViaFreeList's       *)
(*                      action formula, and Allocate of a path without a   *)
(*                      handle returns an id that is not live (ids are     *)
(*                      never reused while live)                           *)
(* i.e. for all parameters: live handles never exceed the limit, the table *)
(* and the reverse map are inverse (one handle per live path), free ids    *)
(* are never live; with the fix of F06 a returned handle is live and names *)
(* the path; without recycling a live id never names another path than the *)
(* one it was first issued for, and with recycling (the code, finding F07) *)
(* a rebinding can only come from the free list.                           *)
(*                                                                         *)
(* Strengthenings (the listed invariants are not inductive by themselves): *)
(*   S1 next is a positive natural number,                                 *)
(*   S2 DOMAIN tab is a finite set (Bounded's Cardinality means nothing    *)
(*      otherwise),                                                        *)
(*   S3 IssuedBefore: every live id is in DOMAIN first (needed by NoRebind *)
(*      and by the dedup branch leaving `first` alone),                    *)
(*   S4 ~Recycle => free = {}.                                             *)
(* Facts about Lowest the proof derives from its equation: Lowest(S, n) is *)
(* a subset of S (induction on n, with: a non-empty set of naturals has a  *)
(* minimum) and is non-empty when S is and n >= 1.  That it returns the n  *)
(* LOWEST ids is not needed for any listed property.                       *)
(***************************************************************************)
EXTENDS Handles, FiniteSetTheorems

ASSUME ConstAssm == MaxH \in Nat \ {0} /\ SkipReturned \in BOOLEAN /\ Recycle \in BOOLEAN

\* the defining equation of the RECURSIVE operator HandlesOps!Lowest
LowestRest(S, n) == Lowest(S \ {SetMin(S)}, n - 1)     \* (a name for the recursive call: keeps the provers from unfolding for ever)
ASSUME LowestUnfold ==
  \A S : \A n \in Nat : Lowest(S, n) = IF n = 0 \/ S = {} THEN {} ELSE {SetMin(S)} \cup LowestRest(S, n)

LEMMA MinExists ==
  ASSUME NEW S \in SUBSET Nat, S # {}
  PROVE  SetMin(S) \in S /\ \A y \in S : SetMin(S) <= y
<1> DEFINE P(k) == k \in S
<1>1. PICK n \in Nat : P(n)  OBVIOUS
<1>2. \E m \in Nat : /\ P(m)
                      /\ \A k \in 0 .. m-1 : ~ P(k)
  <2> HIDE DEF P
  <2> QED BY <1>1, SmallestNatural
<1>3. \E x \in S : \A y \in S : x <= y  BY <1>2
<1> QED BY <1>3 DEF SetMin

LEMMA LowestSub ==
  \A n \in Nat : \A S \in SUBSET Nat : Lowest(S, n) \subseteq S
<1> DEFINE P(n) == \A S \in SUBSET Nat : Lowest(S, n) \subseteq S
<1>1. P(0)  BY LowestUnfold
<1>2. ASSUME NEW n \in Nat, P(n) PROVE P(n + 1)
  <2> TAKE S \in SUBSET Nat
  <2>1. CASE S = {}  BY <2>1, LowestUnfold
  <2>2. CASE S # {}
    <3>1. SetMin(S) \in S  BY <2>2, MinExists
    <3>2. Lowest(S, n + 1) = {SetMin(S)} \cup Lowest(S \ {SetMin(S)}, n)  BY <2>2, LowestUnfold DEF LowestRest
    <3>3a. S \ {SetMin(S)} \in SUBSET Nat  OBVIOUS
    <3>3. Lowest(S \ {SetMin(S)}, n) \subseteq S \ {SetMin(S)}  BY <1>2, <3>3a
    <3> QED BY <3>1, <3>2, <3>3
  <2> QED BY <2>1, <2>2
<1> HIDE DEF P
<1>3. \A n \in Nat : P(n)  BY <1>1, <1>2, NatInduction
<1> QED BY <1>3 DEF P

LEMMA LowestNonEmpty ==
  ASSUME NEW S, S # {}, NEW n \in Nat \ {0}
  PROVE  Lowest(S, n) # {}
  BY LowestUnfold

LEMMA EvictCountPos == ASSUME NEW m \in Nat PROVE EvictCount(m) \in Nat \ {0}
  BY DEF EvictCount

-----------------------------------------------------------------------------
(* The table as HandlesOps keeps it: s = [tab, byPath, free, next] *)
InvMaps(t, b) == /\ \A h \in DOMAIN t : t[h] \in DOMAIN b /\ b[t[h]] = h
                 /\ \A p \in DOMAIN b : b[p] \in DOMAIN t /\ t[b[p]] = p

SOK(s, maxh) ==
  /\ s.next \in Nat \ {0}
  /\ DOMAIN s.tab \subseteq 1..(s.next - 1)
  /\ s.free \subseteq 1..(s.next - 1)
  /\ s.free \cap DOMAIN s.tab = {}
  /\ InvMaps(s.tab, s.byPath)
  /\ IsFiniteSet(DOMAIN s.tab) /\ Cardinality(DOMAIN s.tab) <= maxh

\* what Allocate(p) does, for a path that has no handle yet
LEMMA AllocNew ==
  ASSUME NEW s, NEW maxh \in Nat \ {0}, SOK(s, maxh), NEW p, p \notin DOMAIN s.byPath, NEW skip \in BOOLEAN
  PROVE  LET r == AllocStep(s, p, maxh, skip) IN
         /\ SOK(r.s, maxh)
         /\ r.id \notin DOMAIN s.tab
         /\ r.id \in 1..(r.s.next - 1)
         /\ r.fromFree = (s.free # {}) /\ (r.fromFree => r.id \in s.free) /\ (~r.fromFree => r.id = s.next)
         /\ r.s.next \in {s.next, s.next + 1}
         /\ skip => (r.id \in DOMAIN r.s.tab /\ r.s.tab[r.id] = p)
         /\ \A h \in DOMAIN r.s.tab : (h = r.id /\ r.s.tab[h] = p) \/ (h # r.id /\ h \in DOMAIN s.tab /\ r.s.tab[h] = s.tab[h])
<1> DEFINE useFree == s.free # {}
           h     == IF useFree THEN SetMin(s.free) ELSE s.next
           free1 == IF useFree THEN s.free \ {h} ELSE s.free
           next1 == IF useFree THEN s.next ELSE s.next + 1
           tab1  == With(s.tab, h, p)
           byp1  == With(s.byPath, p, h)
           over  == Cardinality(DOMAIN tab1) > maxh
           cand  == IF skip THEN (DOMAIN tab1) \ {h} ELSE DOMAIN tab1
           vict  == IF over THEN Lowest(cand, EvictCount(maxh)) ELSE {}
           tab2  == Without(tab1, vict)
           byp2  == Without(byp1, {tab1[v] : v \in vict})
           s2    == [tab |-> tab2, byPath |-> byp2, free |-> free1 \cup vict, next |-> next1]
<1>1. AllocStep(s, p, maxh, skip) = [id |-> h, s |-> s2, evicted |-> vict, fromFree |-> useFree]
  BY DEF AllocStep
<1>2. s.next \in Nat \ {0} /\ s.free \subseteq 1..(s.next - 1) /\ DOMAIN s.tab \subseteq 1..(s.next - 1)
      /\ s.free \cap DOMAIN s.tab = {} /\ IsFiniteSet(DOMAIN s.tab) /\ Cardinality(DOMAIN s.tab) <= maxh
  BY DEF SOK
<1>3. h \in Nat /\ h \notin DOMAIN s.tab /\ (useFree => h \in s.free) /\ (~useFree => h = s.next) /\ h \in 1..(next1 - 1)
  <2>1. CASE useFree
    <3>1. s.free \in SUBSET Nat  BY <1>2
    <3>2. SetMin(s.free) \in s.free  BY <2>1, <3>1, MinExists
    <3> QED BY <2>1, <3>2, <1>2
  <2>2. CASE ~useFree  BY <2>2, <1>2
  <2> QED BY <2>1, <2>2
<1>4. DOMAIN tab1 = DOMAIN s.tab \cup {h} /\ tab1[h] = p /\ \A x \in DOMAIN s.tab : tab1[x] = s.tab[x]
  BY <1>3 DEF With
<1>5. DOMAIN byp1 = DOMAIN s.byPath \cup {p} /\ byp1[p] = h /\ \A x \in DOMAIN s.byPath : byp1[x] = s.byPath[x]
  BY DEF With
<1>6. IsFiniteSet(DOMAIN tab1) /\ Cardinality(DOMAIN tab1) = Cardinality(DOMAIN s.tab) + 1
  BY <1>2, <1>3, <1>4, FS_AddElement
<1>7. InvMaps(tab1, byp1)
  BY <1>3, <1>4, <1>5 DEF InvMaps, SOK
<1>8. cand \subseteq DOMAIN tab1 /\ cand \in SUBSET Nat /\ (skip => h \notin cand)
  BY <1>2, <1>3, <1>4
<1>9. vict \subseteq cand /\ (over => vict # {})
  <2>1. CASE ~over  BY <2>1
  <2>2. CASE over
    <3>1. EvictCount(maxh) \in Nat \ {0}  BY EvictCountPos
    <3>2. Lowest(cand, EvictCount(maxh)) \subseteq cand  BY <3>1, <1>8, LowestSub
    <3>3. cand # {}
      <4>1. CASE ~skip  BY <4>1, <1>4
      <4>2. CASE skip
        <5>1. Cardinality(DOMAIN tab1) >= 2  BY <2>2, <1>6, <1>2, FS_CardinalityType
        <5>2. IsFiniteSet((DOMAIN tab1) \ {h}) /\ Cardinality((DOMAIN tab1) \ {h}) = Cardinality(DOMAIN tab1) - 1
          BY <1>4, <1>6, FS_RemoveElement
        <5>3. (DOMAIN tab1) \ {h} # {}  BY <5>1, <5>2, <1>6, FS_EmptySet, FS_CardinalityType
        <5> QED BY <4>2, <5>3
      <4> QED BY <4>1, <4>2
    <3>4. Lowest(cand, EvictCount(maxh)) # {}  BY <3>1, <3>3, LowestNonEmpty
    <3> QED BY <2>2, <3>2, <3>4
  <2> QED BY <2>1, <2>2
<1> HIDE DEF useFree, h, free1, next1, tab1, byp1, over, cand, vict
<1>10. DOMAIN tab2 = (DOMAIN tab1) \ vict /\ \A x \in DOMAIN tab2 : tab2[x] = tab1[x]
  BY DEF Without
<1>11. DOMAIN byp2 = (DOMAIN byp1) \ {tab1[v] : v \in vict} /\ \A x \in DOMAIN byp2 : byp2[x] = byp1[x]
  BY DEF Without
<1>12. InvMaps(tab2, byp2)
  BY <1>7, <1>8, <1>9, <1>10, <1>11 DEF InvMaps
<1>13. IsFiniteSet(DOMAIN tab2) /\ Cardinality(DOMAIN tab2) <= maxh
  <2>1. IsFiniteSet(DOMAIN tab2) /\ Cardinality(DOMAIN tab2) <= Cardinality(DOMAIN tab1)
    BY <1>6, <1>10, FS_Subset
  <2>2. CASE ~over  BY <2>1, <2>2, <1>6, FS_CardinalityType DEF over
  <2>3. CASE over
    <3>1. PICK v \in vict : v \in DOMAIN tab1  BY <2>3, <1>8, <1>9
    <3>2. DOMAIN tab2 \subseteq (DOMAIN tab1) \ {v}  BY <3>1, <1>10
    <3>3. IsFiniteSet((DOMAIN tab1) \ {v}) /\ Cardinality((DOMAIN tab1) \ {v}) = Cardinality(DOMAIN tab1) - 1
      BY <3>1, <1>6, FS_RemoveElement
    <3>4. Cardinality(DOMAIN tab2) <= Cardinality((DOMAIN tab1) \ {v})  BY <3>2, <3>3, FS_Subset
    <3> QED BY <2>1, <3>3, <3>4, <1>6, <1>2, FS_CardinalityType
  <2> QED BY <2>2, <2>3
<1>14. next1 \in Nat \ {0} /\ next1 \in {s.next, s.next + 1} /\ next1 >= s.next
       /\ DOMAIN tab1 \subseteq 1..(next1 - 1) /\ free1 \subseteq 1..(next1 - 1) /\ free1 \cap DOMAIN tab1 = {}
  BY <1>2, <1>3, <1>4 DEF next1, free1, useFree
<1>15. SOK(s2, maxh)
  <2>1. s2.tab = tab2 /\ s2.byPath = byp2 /\ s2.free = free1 \cup vict /\ s2.next = next1  OBVIOUS
  <2>2. DOMAIN tab2 \subseteq 1..(next1 - 1)  BY <1>10, <1>14
  <2>3. free1 \cup vict \subseteq 1..(next1 - 1)  BY <1>8, <1>9, <1>14
  <2>4. (free1 \cup vict) \cap DOMAIN tab2 = {}  BY <1>10, <1>14
  <2> HIDE DEF s2, tab2, byp2
  <2> QED BY <2>1, <2>2, <2>3, <2>4, <1>12, <1>13, <1>14 DEF SOK
<1>16. skip => (h \in DOMAIN tab2 /\ tab2[h] = p)
  BY <1>4, <1>8, <1>9, <1>10
<1>17. \A x \in DOMAIN tab2 : (x = h /\ tab2[x] = p) \/ (x # h /\ x \in DOMAIN s.tab /\ tab2[x] = s.tab[x])
  BY <1>4, <1>10
<1>18. s2.tab = tab2 /\ s2.next = next1  OBVIOUS
<1> HIDE DEF s2, tab2, byp2
<1> QED BY <1>1, <1>3, <1>14, <1>15, <1>16, <1>17, <1>18 DEF useFree

-----------------------------------------------------------------------------
(* The inductive invariant *)
IssuedBefore == DOMAIN tab \subseteq DOMAIN first      \* every live id has been given to a client

IndInv ==
  /\ SOK(State, MaxH)
  /\ DOMAIN first \subseteq 1..(next - 1)
  /\ IssuedBefore
  /\ SkipReturned => IssuedIsLive
  /\ ~Recycle => (free = {} /\ NoRebind)

LEMMA StateFields == State.tab = tab /\ State.byPath = byPath /\ State.free = free /\ State.next = next
  BY DEF State

THEOREM InitInd == Init => IndInv
<1> SUFFICES ASSUME Init PROVE IndInv  OBVIOUS
<1>1. tab = EmptyFn /\ byPath = EmptyFn /\ free = {} /\ next = 1 /\ first = EmptyFn /\ last.op = "init"  BY DEF Init
<1>2. DOMAIN EmptyFn = {}  BY DEF EmptyFn
<1>3. IsFiniteSet({}) /\ Cardinality({}) = 0  BY FS_EmptySet
<1>4. SOK(State, MaxH)  BY <1>1, <1>2, <1>3, ConstAssm, StateFields DEF SOK, InvMaps
<1> QED BY <1>1, <1>2, <1>4 DEF IndInv, IssuedBefore, IssuedIsLive, NoRebind

\* Install(x) with the free list kept or dropped (Recycle = FALSE) keeps SOK
LEMMA InstallOK ==
  ASSUME NEW x, SOK(x, MaxH), Install(x)
  PROVE  SOK(State', MaxH) /\ tab' = x.tab /\ byPath' = x.byPath /\ next' = x.next /\ free' \subseteq x.free /\ (~Recycle => free' = {})
         /\ (Recycle => free' = x.free)
<1>1. tab' = x.tab /\ byPath' = x.byPath /\ next' = x.next /\ free' = IF Recycle THEN x.free ELSE {}  BY DEF Install
<1>2. State' = [tab |-> tab', byPath |-> byPath', free |-> free', next |-> next']  BY DEF State
<1> QED BY <1>1, <1>2, ConstAssm DEF SOK

THEOREM StepInd == IndInv /\ [Next]_vars => IndInv'
<1> SUFFICES ASSUME IndInv, [Next]_vars PROVE IndInv'  OBVIOUS
<1>0. /\ SOK(State, MaxH) /\ DOMAIN first \subseteq 1..(next - 1) /\ IssuedBefore
      /\ (SkipReturned => IssuedIsLive) /\ (~Recycle => (free = {} /\ NoRebind))
      /\ MaxH \in Nat \ {0} /\ SkipReturned \in BOOLEAN /\ Recycle \in BOOLEAN
  BY ConstAssm DEF IndInv
<1>a. /\ next \in Nat \ {0} /\ DOMAIN tab \subseteq 1..(next - 1) /\ free \subseteq 1..(next - 1) /\ free \cap DOMAIN tab = {}
      /\ InvMaps(tab, byPath) /\ IsFiniteSet(DOMAIN tab) /\ Cardinality(DOMAIN tab) <= MaxH
  BY <1>0, StateFields DEF SOK
<1>1. ASSUME NEW p \in Paths, Allocate(p) PROVE IndInv'
  <2> DEFINE r == AllocStep(State, p, MaxH, SkipReturned)
  <2>1. /\ Install(r.s)
        /\ first' = IF r.id \in DOMAIN first THEN first ELSE With(first, r.id, p)
        /\ last' = [op |-> "alloc", p |-> p, id |-> r.id, fromFree |-> r.fromFree]
    BY <1>1 DEF Allocate
  <2>2. CASE p \in DOMAIN byPath
    <3>1. r.s = State /\ r.id = byPath[p]  BY <2>2, StateFields DEF AllocStep
    <3>2. r.id \in DOMAIN tab /\ tab[r.id] = p  BY <3>1, <2>2, <1>a DEF InvMaps
    <3>3. /\ SOK(State', MaxH) /\ tab' = tab /\ byPath' = byPath /\ next' = next /\ free' \subseteq free /\ (~Recycle => free' = {})
      BY <2>1, <3>1, <1>0, InstallOK, StateFields
    <3>4. first' = first  BY <2>1, <3>2, <1>0 DEF IssuedBefore
    <3>5. last'.op = "alloc" /\ last'.id = r.id /\ last'.p = p  BY <2>1
    <3> HIDE DEF r
    <3> QED BY <3>2, <3>3, <3>4, <3>5, <1>0 DEF IndInv, IssuedBefore, IssuedIsLive, NoRebind
  <2>3. CASE p \notin DOMAIN byPath
    <3>1. /\ SOK(r.s, MaxH)
          /\ r.id \notin DOMAIN tab
          /\ r.id \in 1..(r.s.next - 1)
          /\ r.fromFree = (free # {}) /\ (r.fromFree => r.id \in free) /\ (~r.fromFree => r.id = next)
          /\ r.s.next \in {next, next + 1}
          /\ SkipReturned => (r.id \in DOMAIN r.s.tab /\ r.s.tab[r.id] = p)
          /\ \A h \in DOMAIN r.s.tab : (h = r.id /\ r.s.tab[h] = p) \/ (h # r.id /\ h \in DOMAIN tab /\ r.s.tab[h] = tab[h])
      BY <2>3, <1>0, AllocNew, StateFields
    <3>2. /\ SOK(State', MaxH) /\ tab' = r.s.tab /\ byPath' = r.s.byPath /\ next' = r.s.next /\ (~Recycle => free' = {})
      BY <2>1, <3>1, InstallOK
    <3>3. last'.op = "alloc" /\ last'.id = r.id /\ last'.p = p  BY <2>1
    <3> HIDE DEF r
    <3>4. DOMAIN first' = DOMAIN first \cup {r.id}
          /\ (r.id \notin DOMAIN first => first'[r.id] = p)
          /\ \A h \in DOMAIN first : first'[h] = first[h]
      BY <2>1 DEF With
    <3>5. DOMAIN first' \subseteq 1..(next' - 1)  BY <3>1, <3>2, <3>4, <1>0, <1>a
    <3>6. IssuedBefore'  BY <3>1, <3>2, <3>4, <1>0 DEF IssuedBefore
    <3>7. SkipReturned => IssuedIsLive'  BY <3>1, <3>2, <3>3 DEF IssuedIsLive
    <3>8. ~Recycle => NoRebind'
      <4> HAVE ~Recycle
      <4>1. free = {} /\ NoRebind  BY <1>0
      <4>2. r.id = next /\ r.id \notin DOMAIN first  BY <4>1, <3>1, <1>0, <1>a
      <4> QED BY <4>1, <4>2, <3>1, <3>2, <3>4, <1>0 DEF NoRebind, IssuedBefore
    <3> QED BY <3>2, <3>5, <3>6, <3>7, <3>8 DEF IndInv
  <2> QED BY <2>2, <2>3
<1>2. ASSUME NEW h \in DOMAIN tab, Release(h) PROVE IndInv'
  <2> DEFINE x == [tab |-> Without(tab, {h}), byPath |-> Without(byPath, {tab[h]}), free |-> free \cup {h}, next |-> next]
  <2>1. Install(x) /\ first' = first /\ last'.op = "release"
    BY <1>2, StateFields DEF Release, ReleaseStep
  <2>2. DOMAIN x.tab = DOMAIN tab \ {h} /\ \A y \in DOMAIN x.tab : x.tab[y] = tab[y]  BY DEF Without
  <2>3. DOMAIN x.byPath = DOMAIN byPath \ {tab[h]} /\ \A y \in DOMAIN x.byPath : x.byPath[y] = byPath[y]  BY DEF Without
  <2>4. x.free = free \cup {h} /\ x.next = next  OBVIOUS
  <2>5. IsFiniteSet(DOMAIN x.tab) /\ Cardinality(DOMAIN x.tab) <= Cardinality(DOMAIN tab)
    BY <2>2, <1>a, FS_Subset
  <2>6. Cardinality(DOMAIN x.tab) \in Nat /\ Cardinality(DOMAIN tab) \in Nat  BY <2>5, <1>a, FS_CardinalityType
  <2> HIDE DEF x
  <2>7. InvMaps(x.tab, x.byPath)  BY <2>2, <2>3, <1>a DEF InvMaps
  <2>8. SOK(x, MaxH)  BY <2>2, <2>4, <2>5, <2>6, <2>7, <1>a, <1>0 DEF SOK
  <2>9. /\ SOK(State', MaxH) /\ tab' = x.tab /\ byPath' = x.byPath /\ next' = x.next /\ (~Recycle => free' = {})
    BY <2>1, <2>8, InstallOK
  <2> QED BY <2>1, <2>2, <2>4, <2>9, <1>0 DEF IndInv, IssuedBefore, IssuedIsLive, NoRebind
<1>3. CASE ReleaseAll
  <2> DEFINE x == [tab |-> EmptyFn, byPath |-> EmptyFn, free |-> {}, next |-> next]
  <2>1. Install(x) /\ first' = first /\ last'.op = "releaseall"
    BY <1>3, StateFields DEF ReleaseAll, ReleaseAllStep
  <2>2. DOMAIN EmptyFn = {}  BY DEF EmptyFn
  <2>3. IsFiniteSet({}) /\ Cardinality({}) = 0  BY FS_EmptySet
  <2>4. SOK(x, MaxH)  BY <2>2, <2>3, <1>a, <1>0 DEF SOK, InvMaps
  <2>5. x.tab = EmptyFn /\ x.next = next  OBVIOUS
  <2> HIDE DEF x
  <2>6. /\ SOK(State', MaxH) /\ tab' = x.tab /\ byPath' = x.byPath /\ next' = x.next /\ (~Recycle => free' = {})
    BY <2>1, <2>4, InstallOK
  <2> QED BY <2>1, <2>2, <2>5, <2>6, <1>0 DEF IndInv, IssuedBefore, IssuedIsLive, NoRebind
<1>4. CASE UNCHANGED vars
  <2>1. State' = State  BY <1>4 DEF vars, State
  <2> QED BY <1>4, <2>1 DEF vars, IndInv, IssuedBefore, IssuedIsLive, NoRebind
<1> QED BY <1>1, <1>2, <1>3, <1>4 DEF Next

-----------------------------------------------------------------------------
(* the listed invariants follow *)
THEOREM IndImpliesListed ==
  IndInv => /\ TypeOK /\ OnePerPath /\ Bounded
            /\ (SkipReturned => IssuedIsLive)
            /\ (~Recycle => NoRebind)
<1> SUFFICES ASSUME IndInv PROVE TypeOK /\ OnePerPath /\ Bounded /\ (SkipReturned => IssuedIsLive) /\ (~Recycle => NoRebind)
  OBVIOUS
<1>1. SOK(State, MaxH)  BY DEF IndInv
<1>2. /\ DOMAIN tab \subseteq 1..(next - 1) /\ free \subseteq 1..(next - 1) /\ free \cap DOMAIN tab = {}
      /\ InvMaps(tab, byPath) /\ Cardinality(DOMAIN tab) <= MaxH
  BY <1>1, StateFields DEF SOK
<1> QED BY <1>2 DEF IndInv, TypeOK, OnePerPath, Bounded, InvMaps

\* the action property of C06 and "an id is never given out while it is live"
THEOREM StepProps ==
  IndInv /\ [Next]_vars =>
    /\ (\E h \in DOMAIN tab' : h \in DOMAIN first' /\ tab'[h] # first'[h] /\ ~(h \in DOMAIN tab /\ tab[h] = tab'[h]))
          => (last'.op = "alloc" /\ last'.fromFree)
    /\ \A p \in Paths : (Allocate(p) /\ p \notin DOMAIN byPath) => last'.id \notin DOMAIN tab
<1> SUFFICES ASSUME IndInv, [Next]_vars
             PROVE /\ (\E h \in DOMAIN tab' : h \in DOMAIN first' /\ tab'[h] # first'[h] /\ ~(h \in DOMAIN tab /\ tab[h] = tab'[h]))
                         => (last'.op = "alloc" /\ last'.fromFree)
                   /\ \A p \in Paths : (Allocate(p) /\ p \notin DOMAIN byPath) => last'.id \notin DOMAIN tab
  OBVIOUS
<1>0. /\ SOK(State, MaxH) /\ DOMAIN first \subseteq 1..(next - 1) /\ IssuedBefore
      /\ MaxH \in Nat \ {0} /\ SkipReturned \in BOOLEAN /\ Recycle \in BOOLEAN
  BY ConstAssm DEF IndInv
<1>a. next \in Nat \ {0} /\ InvMaps(tab, byPath)  BY <1>0, StateFields DEF SOK
<1>1. ASSUME NEW p \in Paths, Allocate(p)
      PROVE  /\ (\E h \in DOMAIN tab' : h \in DOMAIN first' /\ tab'[h] # first'[h] /\ ~(h \in DOMAIN tab /\ tab[h] = tab'[h]))
                   => (last'.op = "alloc" /\ last'.fromFree)
             /\ p \notin DOMAIN byPath => last'.id \notin DOMAIN tab
  <2> DEFINE r == AllocStep(State, p, MaxH, SkipReturned)
  <2>1. /\ Install(r.s)
        /\ first' = IF r.id \in DOMAIN first THEN first ELSE With(first, r.id, p)
        /\ last' = [op |-> "alloc", p |-> p, id |-> r.id, fromFree |-> r.fromFree]
    BY <1>1 DEF Allocate
  <2>2. CASE p \in DOMAIN byPath
    <3>1. r.s = State  BY <2>2, StateFields DEF AllocStep
    <3>2. tab' = tab  BY <2>1, <3>1, StateFields DEF Install
    <3> QED BY <2>2, <3>2
  <2>3. CASE p \notin DOMAIN byPath
    <3>1. /\ r.id \notin DOMAIN tab
          /\ r.fromFree = (free # {}) /\ (~r.fromFree => r.id = next)
          /\ \A h \in DOMAIN r.s.tab : (h = r.id /\ r.s.tab[h] = p) \/ (h # r.id /\ h \in DOMAIN tab /\ r.s.tab[h] = tab[h])
      BY <2>3, <1>0, AllocNew, StateFields
    <3>2. tab' = r.s.tab  BY <2>1 DEF Install
    <3>3. last'.op = "alloc" /\ last'.id = r.id /\ last'.fromFree = r.fromFree  BY <2>1
    <3> HIDE DEF r
    <3>4. ~r.fromFree => (r.id \notin DOMAIN first /\ first' = With(first, r.id, p))
      BY <3>1, <2>1, <1>0, <1>a
    <3>5. r.fromFree \in BOOLEAN  BY <3>1
    <3>6. ~r.fromFree => \A h \in DOMAIN tab' : h \in DOMAIN first' => (tab'[h] = first'[h] \/ (h \in DOMAIN tab /\ tab[h] = tab'[h]))
      BY <3>1, <3>2, <3>4 DEF With
    <3> QED BY <3>1, <3>3, <3>5, <3>6
  <2> QED BY <2>2, <2>3
<1>2. ASSUME NEW h \in DOMAIN tab, Release(h)
      PROVE  \A y \in DOMAIN tab' : y \in DOMAIN tab /\ tab[y] = tab'[y]
  <2>1. tab' = Without(tab, {h})  BY <1>2, StateFields DEF Release, ReleaseStep, Install
  <2> QED BY <2>1 DEF Without
<1>3. ASSUME ReleaseAll PROVE DOMAIN tab' = {}
  BY <1>3 DEF ReleaseAll, ReleaseAllStep, Install, EmptyFn
<1>4. ASSUME UNCHANGED vars PROVE tab' = tab  BY <1>4 DEF vars
<1>5. \A p \in Paths : Allocate(p) => last'.op = "alloc"  BY DEF Allocate
<1>6. (\E h \in DOMAIN tab' : h \in DOMAIN first' /\ tab'[h] # first'[h] /\ ~(h \in DOMAIN tab /\ tab[h] = tab'[h]))
         => (last'.op = "alloc" /\ last'.fromFree)
  BY <1>1, <1>2, <1>3, <1>4 DEF Next
<1> QED BY <1>1, <1>6
=============================================================================

---------------------------- MODULE HandlesTrace ----------------------------
(***************************************************************************)
(* Step validation (SV) of recorded behaviours of the real FileHandleMap    *)
(* and of the real handlers against Handles.                                *)
(*                                                                         *)
(* Every line of the ndjson log carries the full projected state after the *)
(* step (table, reverse map, free list, next id).  Line l-1 is the         *)
(* pre-state of line l.  For each line the spec checks                      *)
(*   ideal level  - C05 / C06 as stated (verdict),                          *)
(*   impl level   - post = AllocStep/ReleaseStep/ReleaseAllStep(pre) (drift)*)
(* and carries the ghost `first` / `cur` across steps.  A step only a       *)
(* listed deviation explains goes to `dev`; any other failing step goes to  *)
(* `bad` and the run continues with the logged state.                      *)
(***************************************************************************)
EXTENDS HandlesOps, TLC, Json, IOUtils

CONSTANTS KnownDeviations,  \* subset of {"Dev_HandleIdReusedForOtherPath", "Dev_ReturnedHandleEvicted"}
          SkipReturned       \* impl-level model switch (TRUE after fix F06)

TraceLog == ndJsonDeserialize(IOEnv.VF_TRACE)
N == Len(TraceLog)

VARIABLES l,      \* next line to consume
          first,  \* ghost: id -> path its value was first issued for (per history)
          cur,    \* ghost: id -> path of the latest issue of that id value
          maxh,   \* limit of the current history
          bad,    \* set of [l, why]: steps that violate C05 / C06
          dev,    \* set of [l, name]: steps explained only by a known deviation
          drift,  \* set of [l, why]: impl-level mismatches (model drift, not a verdict)
          reqNo,  \* ghost: request number of the last issue event
          reqIss, \* ghost: ids issued so far by that request (READDIRPLUS issues several)
          stats   \* counters for the evidence
vars == <<l, first, cur, maxh, bad, dev, drift, reqNo, reqIss, stats>>

-----------------------------------------------------------------------------
Rng(seq) == {seq[i] : i \in DOMAIN seq}
TabOf(arr)  == [i \in {e.i : e \in Rng(arr)} |-> (CHOOSE e \in Rng(arr) : e.i = i).p]
BypOf(arr)  == [p \in {e.p : e \in Rng(arr)} |-> (CHOOSE e \in Rng(arr) : e.p = p).i]
StateOf(ln) == [tab |-> TabOf(ln.tab), byPath |-> BypOf(ln.byp), free |-> Rng(ln.free), next |-> ln.next]
EmptyState(nx) == [tab |-> EmptyFn, byPath |-> EmptyFn, free |-> {}, next |-> nx]

Pre  == IF l = 1 \/ TraceLog[l - 1].ev = "reset" THEN
           (IF l = 1 THEN EmptyState(1) ELSE EmptyState(TraceLog[l - 1].next))
        ELSE StateOf(TraceLog[l - 1])
Cur  == TraceLog[l]
Post == StateOf(Cur)

Inverse(s) == /\ \A h \in DOMAIN s.tab : s.tab[h] \in DOMAIN s.byPath /\ s.byPath[s.tab[h]] = h
              /\ \A p \in DOMAIN s.byPath : s.byPath[p] \in DOMAIN s.tab /\ s.tab[s.byPath[p]] = p

Known(d) == d \in KnownDeviations

\* ideal-level failures of an issue of `id` for path `p` (API alloc or handler issue).
\* pfree = free list before the request that issued it (one READDIRPLUS issues several).
PFree == Rng(Cur.pfree)
Live(p, id) == id \in DOMAIN Post.tab /\ Post.tab[id] = p
DeadDev(p, id) ==
  IF Live(p, id) THEN {}
  ELSE IF Known("Dev_ReturnedHandleEvicted") /\ id \in Post.free /\ id \in PFree
         THEN {"Dev_ReturnedHandleEvicted"}
  ELSE IF Known("Dev_ReaddirplusHandleEvictedInSameReply") /\ Cur.ev = "issue" /\ Cur.proc = "READDIRPLUS"
          /\ (\/ id \in Post.free        \* evicted by a later entry of the same reply ...
              \/ \E k \in (l + 1)..(IF N < l + 300 THEN N ELSE l + 300) :   \* ... and possibly recycled for one
                    /\ TraceLog[k].ev = "issue" /\ TraceLog[k].req = Cur.req /\ TraceLog[k].id = id)
         THEN {"Dev_ReaddirplusHandleEvictedInSameReply"}
  ELSE {}
\* the binding of an id value changes (compared with its latest issue, so that a rebinding is
\* reported once, when it happens, and not again at every dedup re-issue of the new binding)
Rebound(p, id) == id \in DOMAIN cur /\ cur[id] # p
\* the id value can only have come out of the free list: it was there before the request, or
\* (READDIRPLUS, several allocations in one request) it was live before / issued earlier in
\* this request and evicted by a later allocation of the same request
SameReq == Cur.ev = "issue" /\ Cur.req = reqNo
Recycled(id) == \/ id \in PFree
                \/ /\ Cur.ev = "issue" /\ Cur.proc = "READDIRPLUS"
                   /\ (id \in Rng(Cur.plive) \/ (SameReq /\ id \in reqIss))
RebindDev(p, id) ==
  IF Rebound(p, id) /\ Known("Dev_HandleIdReusedForOtherPath") /\ Recycled(id)
  THEN {"Dev_HandleIdReusedForOtherPath"} ELSE {}

IssueBad(p, id) ==
     (IF Live(p, id) \/ DeadDev(p, id) # {} THEN {}
      ELSE {"issued handle is not live for its path when returned"})
  \cup (IF p \in DOMAIN Pre.byPath /\ Pre.byPath[p] \in DOMAIN Pre.tab /\ Pre.tab[Pre.byPath[p]] = p
           /\ id # Pre.byPath[p]
        THEN {"path already had a live handle but a different value was issued"} ELSE {})
  \cup (IF Cardinality(DOMAIN Post.tab) > maxh THEN {"more live handles than the maximum"} ELSE {})
  \cup (IF \E h1, h2 \in DOMAIN Post.tab : h1 # h2 /\ Post.tab[h1] = Post.tab[h2]
        THEN {"two live handles for one path"} ELSE {})
  \cup (IF Rebound(p, id) /\ RebindDev(p, id) = {}
        THEN {"handle value reissued for a different path"} ELSE {})

IssueDev(p, id) == DeadDev(p, id) \cup RebindDev(p, id)

Tag(S) == {[l |-> l, why |-> w] : w \in S}

Bump(k) == [stats EXCEPT ![k] = @ + 1]

-----------------------------------------------------------------------------
Init == /\ l = 1 /\ first = EmptyFn /\ cur = EmptyFn /\ maxh = 0
        /\ bad = {} /\ dev = {} /\ drift = {} /\ reqNo = 0 /\ reqIss = {}
        /\ stats = [lines |-> 0, allocs |-> 0, evictions |-> 0, reuses |-> 0, uses |-> 0, stale |-> 0, hist |-> 0]

StepReset ==
  /\ Cur.ev = "reset"
  /\ first' = EmptyFn /\ cur' = EmptyFn /\ maxh' = Cur.maxh
  /\ UNCHANGED <<bad, dev, drift>>
  /\ reqNo' = 0 /\ reqIss' = {}
  /\ stats' = Bump("hist")

\* FileHandleMap API level: alloc / release / releaseall
StepApi ==
  /\ Cur.ev = "api"
  /\ UNCHANGED <<maxh, reqNo, reqIss>>
  /\ CASE Cur.op = "alloc" ->
            LET r == AllocStep(Pre, Cur.p, maxh, SkipReturned) IN
            /\ bad' = bad \cup Tag(IssueBad(Cur.p, Cur.id))
            /\ dev' = dev \cup {[l |-> l, name |-> d] : d \in IssueDev(Cur.p, Cur.id)}
            /\ drift' = drift \cup Tag(IF r.id = Cur.id /\ r.s = Post THEN {} ELSE {"alloc: post-state differs from AllocStep(pre)"})
            /\ first' = IF Cur.id \in DOMAIN first THEN first ELSE With(first, Cur.id, Cur.p)
            /\ cur' = With(cur, Cur.id, Cur.p)
            /\ stats' = [stats EXCEPT !.allocs = @ + 1,
                                      !.evictions = @ + Cardinality((DOMAIN Pre.tab) \ (DOMAIN Post.tab)),
                                      !.reuses = @ + (IF Cur.id \in PFree THEN 1 ELSE 0)]
       [] Cur.op = "release" ->
            /\ bad' = bad \cup Tag(IF Cur.id \in DOMAIN Post.tab THEN {"released handle still live"} ELSE {})
            /\ drift' = drift \cup Tag(IF ReleaseStep(Pre, Cur.id) = Post THEN {} ELSE {"release: post-state differs from ReleaseStep(pre)"})
            /\ UNCHANGED <<dev, first, cur, stats>>
       [] Cur.op \in {"releaseall", "unexport"} ->
            /\ bad' = bad \cup Tag(IF DOMAIN Post.tab # {} THEN {"handles remain after ReleaseAll/Unexport"} ELSE {})
            /\ drift' = drift \cup Tag(IF ReleaseAllStep(Pre) = Post THEN {} ELSE {"releaseall: post-state differs from ReleaseAllStep(pre)"})
            /\ UNCHANGED <<dev, first, cur, stats>>

\* handler level: a reply carried handle value `id` for path `p`
StepIssue ==
  /\ Cur.ev = "issue"
  /\ UNCHANGED <<maxh, drift>>
  /\ reqNo' = Cur.req
  /\ reqIss' = IF SameReq THEN reqIss \cup {Cur.id} ELSE {Cur.id}
  /\ bad' = bad \cup Tag(IssueBad(Cur.p, Cur.id))
  /\ dev' = dev \cup {[l |-> l, name |-> d] : d \in IssueDev(Cur.p, Cur.id)}
  /\ first' = IF Cur.id \in DOMAIN first THEN first ELSE With(first, Cur.id, Cur.p)
  /\ cur' = With(cur, Cur.id, Cur.p)
  /\ stats' = [stats EXCEPT !.allocs = @ + 1, !.reuses = @ + (IF Cur.id \in PFree THEN 1 ELSE 0)]

\* handler level: a request used handle value `id`; it was answered `status` and, when it
\* reached the backend, executed against path `served`
StepUse ==
  /\ Cur.ev = "use"
  /\ UNCHANGED <<maxh, drift, first, cur, dev, reqNo, reqIss>>
  /\ LET expect == IF Cur.id \in DOMAIN cur THEN cur[Cur.id] ELSE "?"
         orig   == IF Cur.id \in DOMAIN first THEN first[Cur.id] ELSE "?"
         rebound == expect # orig
         okServed == Cur.status = "OK" /\ Cur.served = expect
         w == (IF Cur.status = "STALE" /\ ~Cur.imm THEN {}
               ELSE IF okServed /\ (~rebound \/ Known("Dev_HandleIdReusedForOtherPath")) THEN {}
               ELSE IF Cur.status = "STALE" /\ Cur.imm /\ Known("Dev_ReturnedHandleEvicted") /\ Cur.id \in Post.free THEN {}
               ELSE IF Cur.imm THEN {"handle just issued does not resolve to its object"}
               ELSE {"request on an old handle value served against a different path (neither STALE nor the path it was issued for)"})
     IN bad' = bad \cup Tag(w)
  /\ stats' = [stats EXCEPT !.uses = @ + 1, !.stale = @ + (IF Cur.status = "STALE" THEN 1 ELSE 0)]

Consume == /\ l <= N
           /\ l' = l + 1
           /\ (StepReset \/ StepApi \/ StepIssue \/ StepUse)

Finish == /\ l = N + 1
          /\ l' = N + 2
          /\ JsonSerialize(IOEnv.VF_RESULT,
                [n |-> N, consumed |-> l - 1, bad |-> bad, dev |-> dev, drift |-> drift,
                 stats |-> [stats EXCEPT !.lines = N]])
          /\ UNCHANGED <<first, cur, maxh, bad, dev, drift, reqNo, reqIss, stats>>

Next == Consume \/ Finish
Spec == Init /\ [][Next]_vars
=============================================================================

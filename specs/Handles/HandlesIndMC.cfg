SPECIFICATION Spec

---------------------------- MODULE HandlesIndMC ----------------------------
(***************************************************************************)
(* TLC cross-check for HandlesInd: the equation HandlesInd assumes for the  *)
(* RECURSIVE operator Lowest (ASSUME LowestUnfold; tlapm cannot load a      *)
(* RECURSIVE definition) is evaluated against the definition itself on all  *)
(* subsets of 1..6 and n <= 7.  Keep the right-hand side textually equal    *)
(* to HandlesInd!LowestUnfold with LowestRest expanded.                     *)
(***************************************************************************)
EXTENDS HandlesOps

ASSUME LowestUnfoldSmall ==
  \A S \in SUBSET (1..6) : \A n \in 0..7 :
     Lowest(S, n) = IF n = 0 \/ S = {} THEN {} ELSE {SetMin(S)} \cup Lowest(S \ {SetMin(S)}, n - 1)

VARIABLE x
Spec == x = 0 /\ [][x' = x]_x
=============================================================================

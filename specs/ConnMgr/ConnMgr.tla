------------------------------ MODULE ConnMgr ------------------------------
(***************************************************************************)
(* Connection management and shutdown of an absnfs server (property C17).   *)
(*                                                                         *)
(* One action per critical section of server.go / absnfs.go / operations.go *)
(*   acceptLoop            : AccCheck (ctx.Done at loop top), AccTake       *)
(*                           (Accept returns a connection), AccErr (Accept  *)
(*                           fails on a closed listener), AclReject (the    *)
(*                           address is not in AllowedIPs: closed, never    *)
(*                           counted), Register / Reject                    *)
(*                           (registerConnection under connMutex)           *)
(*   handleConnectionLoop  : Serve (one request answered, activity stamped),*)
(*                           or, for requests that take time, ServeBegin    *)
(*                           (call read, activity stamped, handed to the    *)
(*                           worker pool) and ServeEnd (answered, activity  *)
(*                           stamped),                                      *)
(*                           ConnNotice (ctx cancelled / socket closed /    *)
(*                           peer gone: loop returns, conn.Close),          *)
(*                           ConnExit (deferred unregisterConnection,       *)
(*                           wg.Done)                                       *)
(*   unregisterConnection  : Unreg (sync.Once + re-check under connMutex)   *)
(*   cleanupIdleConnections: ReapPick (collect idle under the lock),        *)
(*                           ReapClose (conn.Close + unregister), IdleExit  *)
(*   Stop                  : StopCancel, StopCloseListener, StopCollect,    *)
(*                           StopCloseOne, StopWait, StopReturn             *)
(*   AbsfsNFS.Close/Unexport: NfsBegin (stops the server Export() created), *)
(*                           NfsPoolStop (Close only: workerPool.Stop waits *)
(*                           for the requests it is executing), NfsRelease  *)
(*                           (ReleaseAll), NfsClear (caches)                *)
(* Time is abstract: Tick ages every registered connection; a connection is *)
(* reapable when its age exceeds IdleT.                                     *)
(***************************************************************************)
EXTENDS Integers, FiniteSets, TLC

CONSTANTS Conns,      \* connection ids
          Max,        \* MaxConnections (0 = unlimited)
          IdleT,      \* IdleTimeout in ticks
          Stops,      \* ids of Server.Stop calls
          Nfs,        \* ids of AbsfsNFS.Close / Unexport calls
          Exported,   \* TRUE: the server was created by Export() (Close / Unexport stop it)
          Slow,       \* connections whose requests take time (ServeBegin / ServeEnd instead of the atomic Serve)
          Denied,     \* connections from addresses outside AllowedIPs
          Mutant      \* "none" | "DoubleUnreg" | "NoLimit" | "StopNoWait" | "CloseNoRelease" | "ReleaseBeforePoolStop" | "NoRefreshAtRead" | "RegisterBeforeAcl"

VARIABLES lst,      \* listener: "none" | "open" | "closed"
          ctxDone,  \* server context cancelled
          acc,      \* accept goroutine: "none" | "top" | "accepting" | "has" | "exited"
          accHas,   \* connection held by the accept goroutine between Accept and registerConnection ({} or {c})
          idleG,    \* idle-cleanup goroutine alive
          reap,     \* connections collected as idle by the current cleanup pass
          active,   \* activeConns
          count,    \* connCount
          conn,     \* conn[c] = [ph, sock, peer, age, gor, busy, dur, reaped]   busy: a request of c is executing; dur: for how
                    \* many ticks; reaped: closed by the cleanup pass
          stop,     \* stop[k] = [ph, snap]
          nfs,      \* nfs[j] = [ph, api]
          exportSrv,\* AbsfsNFS.exportServer # nil
          handles, caches,   \* some file handle is allocated / some cache entry exists
          regN, unregN       \* ghost: how often each connection was counted / uncounted

vars == <<lst, ctxDone, acc, accHas, idleG, reap, active, count, conn, stop, nfs, exportSrv, handles, caches, regN, unregN>>

Init == /\ lst = "none" /\ ctxDone = FALSE /\ acc = "none" /\ accHas = {} /\ idleG = FALSE /\ reap = {}
        /\ active = {} /\ count = 0
        /\ conn = [c \in Conns |-> [ph |-> "none", sock |-> "none", peer |-> "open", age |-> 0, gor |-> FALSE, busy |-> FALSE, dur |-> 0, reaped |-> FALSE]]
        /\ stop = [k \in Stops |-> [ph |-> "idle", snap |-> {}]]
        /\ nfs = [j \in Nfs |-> [ph |-> "idle", api |-> "close"]]
        /\ exportSrv = Exported
        /\ handles = FALSE /\ caches = FALSE
        /\ regN = [c \in Conns |-> 0] /\ unregN = [c \in Conns |-> 0]

-----------------------------------------------------------------------------
\* Server.Listen: listener bound, idle-cleanup and accept goroutines started
Listen ==
  /\ lst = "none" /\ ~ctxDone
  /\ \A j \in Nfs : nfs[j].ph = "idle"      \* (a handler that has been closed / unexported is not put behind a new listener)
  /\ lst' = "open" /\ acc' = "top" /\ idleG' = TRUE
  /\ UNCHANGED <<ctxDone, accHas, reap, active, count, conn, stop, nfs, exportSrv, handles, caches, regN, unregN>>

\* a client connects (the kernel completes the handshake while the listener is open)
Dial(c) ==
  /\ conn[c].ph = "none" /\ lst = "open"
  /\ conn' = [conn EXCEPT ![c].ph = "dialed", ![c].sock = "open"]
  /\ UNCHANGED <<lst, ctxDone, acc, accHas, idleG, reap, active, count, stop, nfs, exportSrv, handles, caches, regN, unregN>>

\* the client closes its end
PeerClose(c) ==
  /\ conn[c].ph \in {"dialed", "taken", "serving"} /\ conn[c].peer = "open"
  /\ conn' = [conn EXCEPT ![c].peer = "closed"]
  /\ UNCHANGED <<lst, ctxDone, acc, accHas, idleG, reap, active, count, stop, nfs, exportSrv, handles, caches, regN, unregN>>

\* ---- acceptLoop
AccCheck ==
  /\ acc = "top"
  /\ acc' = IF ctxDone THEN "exited" ELSE "accepting"
  /\ UNCHANGED <<lst, ctxDone, accHas, idleG, reap, active, count, conn, stop, nfs, exportSrv, handles, caches, regN, unregN>>

AccTake(c) ==
  /\ acc = "accepting" /\ lst = "open" /\ conn[c].ph = "dialed"
  /\ acc' = "has" /\ accHas' = {c}
  /\ conn' = [conn EXCEPT ![c].ph = "taken"]
  /\ UNCHANGED <<lst, ctxDone, idleG, reap, active, count, stop, nfs, exportSrv, handles, caches, regN, unregN>>

\* Accept fails (listener closed, or the 1 s accept deadline): back to the loop top / out when shutting down
AccErr ==
  /\ acc = "accepting"
  /\ acc' = IF ctxDone THEN "exited" ELSE "top"
  /\ UNCHANGED <<lst, ctxDone, accHas, idleG, reap, active, count, conn, stop, nfs, exportSrv, handles, caches, regN, unregN>>

AtLimit == Max > 0 /\ count >= Max /\ Mutant # "NoLimit"

\* isIPAllowed fails: the connection is closed; it has not been counted (the address test comes before
\* registerConnection).  Mutant RegisterBeforeAcl: registerConnection comes first and this branch does not undo it.
AclReject(c) ==
  /\ acc = "has" /\ accHas = {c} /\ c \in Denied
  /\ IF Mutant = "RegisterBeforeAcl" /\ ~AtLimit
     THEN /\ active' = active \cup {c} /\ count' = count + 1 /\ regN' = [regN EXCEPT ![c] = @ + 1]
     ELSE UNCHANGED <<active, count, regN>>
  /\ conn' = [conn EXCEPT ![c].ph = "rejected", ![c].sock = "closed"]
  /\ acc' = "top" /\ accHas' = {}
  /\ UNCHANGED <<lst, ctxDone, idleG, reap, stop, nfs, exportSrv, handles, caches, unregN>>

\* registerConnection under connMutex: counted, goroutine started (wg.Add before go)
Register(c) ==
  /\ acc = "has" /\ accHas = {c} /\ ~AtLimit /\ c \notin Denied
  /\ active' = active \cup {c} /\ count' = count + 1
  /\ conn' = [conn EXCEPT ![c].ph = "serving", ![c].age = 0, ![c].gor = TRUE]
  /\ regN' = [regN EXCEPT ![c] = @ + 1]
  /\ acc' = "top" /\ accHas' = {}
  /\ UNCHANGED <<lst, ctxDone, idleG, reap, stop, nfs, exportSrv, handles, caches, unregN>>

\* at the limit: the connection is closed and never counted
Reject(c) ==
  /\ acc = "has" /\ accHas = {c} /\ AtLimit /\ c \notin Denied
  /\ conn' = [conn EXCEPT ![c].ph = "rejected", ![c].sock = "closed"]
  /\ acc' = "top" /\ accHas' = {}
  /\ UNCHANGED <<lst, ctxDone, idleG, reap, active, count, stop, nfs, exportSrv, handles, caches, regN, unregN>>

\* ---- unregisterConnection: exactly once per connection (sync.Once, re-check under connMutex)
UnregEffect(c) ==
  IF Mutant = "DoubleUnreg"
  THEN /\ active' = active \ {c} /\ count' = count - 1
       /\ unregN' = [unregN EXCEPT ![c] = @ + 1]
  ELSE IF c \in active
       THEN /\ active' = active \ {c} /\ count' = count - 1
            /\ unregN' = [unregN EXCEPT ![c] = @ + 1]
       ELSE UNCHANGED <<active, count, unregN>>

\* ---- handleConnectionLoop
\* one request read, answered, activity stamped (updateConnectionActivity); it may allocate handles / fill caches
\* (environment: once Close / Unexport has been called the clients send nothing new; what is executing completes)
ClientsMaySend == \A j \in Nfs : nfs[j].ph = "idle"
CanRead(c) == conn[c].ph = "serving" /\ conn[c].gor /\ conn[c].sock = "open" /\ conn[c].peer = "open" /\ ~conn[c].busy

ServeFast(c) ==
  /\ CanRead(c) /\ ClientsMaySend
  /\ conn' = [conn EXCEPT ![c].age = 0]
  /\ \/ handles' = TRUE /\ caches' = TRUE      \* LOOKUP / READDIR / ...: a handle is allocated, attributes are cached
     \/ UNCHANGED <<handles, caches>>           \* NULL
  /\ UNCHANGED <<lst, ctxDone, acc, accHas, idleG, reap, active, count, stop, nfs, exportSrv, regN, unregN>>

\* a call is read: activity stamped (updateConnectionActivity), the request is handed to the worker pool and executes
\* (mutant NoRefreshAtRead: the stamp at this point is missing)
ServeBeginAny(c) ==
  /\ CanRead(c) /\ ClientsMaySend
  /\ conn' = [conn EXCEPT ![c].busy = TRUE, ![c].dur = 0, ![c].age = IF Mutant = "NoRefreshAtRead" THEN @ ELSE 0]
  /\ UNCHANGED <<lst, ctxDone, acc, accHas, idleG, reap, active, count, stop, nfs, exportSrv, handles, caches, regN, unregN>>

Serve(c) == c \notin Slow /\ ServeFast(c)
ServeBegin(c) == c \in Slow /\ ServeBeginAny(c)

\* the request has executed (it may allocate a handle / fill a cache), the reply is written (possibly to a socket that
\* has been closed meanwhile), activity stamped
ServeEnd(c) ==
  /\ conn[c].busy
  /\ conn' = [conn EXCEPT ![c].busy = FALSE, ![c].age = 0]
  /\ handles' = TRUE /\ caches' = TRUE
  /\ UNCHANGED <<lst, ctxDone, acc, accHas, idleG, reap, active, count, stop, nfs, exportSrv, regN, unregN>>

\* the loop returns: context cancelled (seen at the loop top), read failed on a closed socket, or the peer is gone;
\* deferred conn.Close().  While a request executes the loop is inside HandleCall and notices nothing.
ConnNotice(c) ==
  /\ conn[c].ph = "serving" /\ conn[c].gor /\ ~conn[c].busy
  /\ ctxDone \/ conn[c].sock = "closed" \/ conn[c].peer = "closed"
  /\ conn' = [conn EXCEPT ![c].ph = "exiting", ![c].sock = "closed"]
  /\ UNCHANGED <<lst, ctxDone, acc, accHas, idleG, reap, active, count, stop, nfs, exportSrv, handles, caches, regN, unregN>>

\* deferred unregisterConnection, then wg.Done
ConnExit(c) ==
  /\ conn[c].ph = "exiting"
  /\ UnregEffect(c)
  /\ conn' = [conn EXCEPT ![c].ph = "gone", ![c].gor = FALSE]
  /\ UNCHANGED <<lst, ctxDone, acc, accHas, idleG, reap, stop, nfs, exportSrv, handles, caches, regN>>

\* ---- time and idle cleanup
\* (environment: no call takes longer than IdleTimeout to be answered - time does not pass beyond that while one executes)
Tick ==
  /\ \E c \in active : conn[c].age <= IdleT
  /\ \A c \in Conns : conn[c].busy => conn[c].dur < IdleT
  /\ conn' = [c \in Conns |-> [conn[c] EXCEPT !.age = IF c \in active /\ @ <= IdleT THEN @ + 1 ELSE @,
                                                 !.dur = IF conn[c].busy THEN @ + 1 ELSE @]]
  /\ UNCHANGED <<lst, ctxDone, acc, accHas, idleG, reap, active, count, stop, nfs, exportSrv, handles, caches, regN, unregN>>

Idle(c) == c \in active /\ conn[c].age > IdleT

\* cleanupIdleConnections: collect under connMutex ...
ReapPick ==
  /\ idleG /\ reap = {} /\ \E c \in Conns : Idle(c)
  /\ reap' = {c \in Conns : Idle(c)}
  /\ UNCHANGED <<lst, ctxDone, acc, accHas, idleG, active, count, conn, stop, nfs, exportSrv, handles, caches, regN, unregN>>

\* ... then close and unregister each, outside the lock
ReapClose(c) ==
  /\ c \in reap
  /\ reap' = reap \ {c}
  /\ conn' = [conn EXCEPT ![c].sock = "closed", ![c].reaped = TRUE]
  /\ UnregEffect(c)
  /\ UNCHANGED <<lst, ctxDone, acc, accHas, idleG, stop, nfs, exportSrv, handles, caches, regN>>

IdleExit ==
  /\ idleG /\ ctxDone /\ reap = {}
  /\ idleG' = FALSE
  /\ UNCHANGED <<lst, ctxDone, acc, accHas, reap, active, count, conn, stop, nfs, exportSrv, handles, caches, regN, unregN>>

\* ---- Server.Stop (any number of calls, also concurrently)
StopCancel(k) ==
  /\ stop[k].ph = "idle"
  /\ ctxDone' = TRUE
  /\ stop' = [stop EXCEPT ![k].ph = "cancelled"]
  /\ UNCHANGED <<lst, acc, accHas, idleG, reap, active, count, conn, nfs, exportSrv, handles, caches, regN, unregN>>

StopCloseListener(k) ==
  /\ stop[k].ph = "cancelled"
  /\ lst' = IF lst = "open" THEN "closed" ELSE lst
  /\ stop' = [stop EXCEPT ![k].ph = "lclosed"]
  /\ UNCHANGED <<ctxDone, acc, accHas, idleG, reap, active, count, conn, nfs, exportSrv, handles, caches, regN, unregN>>

\* closeAllConnections: collect under connMutex ...
StopCollect(k) ==
  /\ stop[k].ph = "lclosed"
  /\ stop' = [stop EXCEPT ![k].ph = "closing", ![k].snap = active]
  /\ UNCHANGED <<lst, ctxDone, acc, accHas, idleG, reap, active, count, conn, nfs, exportSrv, handles, caches, regN, unregN>>

\* ... then close and unregister each
StopCloseOne(k, c) ==
  /\ stop[k].ph = "closing" /\ c \in stop[k].snap
  /\ stop' = [stop EXCEPT ![k].snap = @ \ {c}]
  /\ conn' = [conn EXCEPT ![c].sock = "closed"]
  /\ UnregEffect(c)
  /\ UNCHANGED <<lst, ctxDone, acc, accHas, idleG, reap, nfs, exportSrv, handles, caches, regN>>

StopWait(k) ==
  /\ stop[k].ph = "closing" /\ stop[k].snap = {}
  /\ stop' = [stop EXCEPT ![k].ph = "waiting"]
  /\ UNCHANGED <<lst, ctxDone, acc, accHas, idleG, reap, active, count, conn, nfs, exportSrv, handles, caches, regN, unregN>>

Quiesced == acc \in {"none", "exited"} /\ ~idleG /\ \A c \in Conns : ~conn[c].gor

\* wg.Wait() returned: accept loop, cleanup loop and every connection goroutine are gone
StopReturn(k) ==
  /\ stop[k].ph = "waiting"
  /\ Quiesced \/ Mutant = "StopNoWait"
  /\ stop' = [stop EXCEPT ![k].ph = "returned"]
  /\ UNCHANGED <<lst, ctxDone, acc, accHas, idleG, reap, active, count, conn, nfs, exportSrv, handles, caches, regN, unregN>>

\* ---- AbsfsNFS.Close / Unexport: stop the export server (if Export() made one), release handles, clear caches
\* (on a handler whose server the application manages itself the call is made once that server is stopped or was
\* never started; otherwise requests still being served may allocate handles again, which C17 does not exclude)
\* Close may also be called while the application's own server still executes requests in the worker pool (it waits
\* for them); Unexport has no such wait and is called when nothing executes
Busy == \E c \in Conns : conn[c].busy
NfsBegin(j, api) ==
  /\ nfs[j].ph = "idle"
  /\ exportSrv \/ lst = "none" \/ (\E k \in Stops : stop[k].ph = "returned") \/ api = "close"
  /\ (api = "unexport" /\ ~exportSrv) => ~Busy
  /\ nfs' = [nfs EXCEPT ![j].ph = IF exportSrv THEN "stopping" ELSE "stopped", ![j].api = api]
  /\ UNCHANGED <<lst, ctxDone, acc, accHas, idleG, reap, active, count, conn, stop, exportSrv, handles, caches, regN, unregN>>

\* exportServer.Stop() returned (some Stop call has completed); exportServer = nil
NfsStopped(j) ==
  /\ nfs[j].ph = "stopping"
  /\ \E k \in Stops : stop[k].ph = "returned"
  /\ exportSrv' = FALSE
  /\ nfs' = [nfs EXCEPT ![j].ph = "stopped"]
  /\ UNCHANGED <<lst, ctxDone, acc, accHas, idleG, reap, active, count, conn, stop, handles, caches, regN, unregN>>

\* Close: workerPool.Stop() returns once the requests the pool is executing have finished.
\* Mutant ReleaseBeforePoolStop: handles and caches are released first, the pool is stopped afterwards.
PoolFirst == Mutant # "ReleaseBeforePoolStop"
NfsPoolStop(j) ==
  /\ nfs[j].ph = (IF PoolFirst THEN "stopped" ELSE "cleared") /\ ~Busy
  /\ nfs' = [nfs EXCEPT ![j].ph = IF PoolFirst THEN "pooled" ELSE "returned"]
  /\ UNCHANGED <<lst, ctxDone, acc, accHas, idleG, reap, active, count, conn, stop, exportSrv, handles, caches, regN, unregN>>

NfsRelease(j) ==
  /\ nfs[j].ph = (IF nfs[j].api = "close" /\ PoolFirst THEN "pooled" ELSE "stopped")
  /\ handles' = IF Mutant = "CloseNoRelease" THEN handles ELSE FALSE
  /\ nfs' = [nfs EXCEPT ![j].ph = "released"]
  /\ UNCHANGED <<lst, ctxDone, acc, accHas, idleG, reap, active, count, conn, stop, exportSrv, caches, regN, unregN>>

NfsClear(j) ==
  /\ nfs[j].ph = "released"
  /\ caches' = FALSE
  /\ nfs' = [nfs EXCEPT ![j].ph = IF nfs[j].api = "close" /\ ~PoolFirst THEN "cleared" ELSE "returned"]
  /\ UNCHANGED <<lst, ctxDone, acc, accHas, idleG, reap, active, count, conn, stop, exportSrv, handles, regN, unregN>>

-----------------------------------------------------------------------------
EnvNext == \/ Listen \/ Tick
           \/ \E c \in Conns : Dial(c) \/ PeerClose(c) \/ Serve(c) \/ ServeBegin(c)
           \/ \E k \in Stops : StopCancel(k)
           \/ \E j \in Nfs : NfsBegin(j, "close") \/ NfsBegin(j, "unexport")
ServerNext == \/ AccCheck \/ AccErr \/ ReapPick \/ IdleExit
              \/ \E c \in Conns : AccTake(c) \/ AclReject(c) \/ Register(c) \/ Reject(c) \/ ServeEnd(c) \/ ConnNotice(c) \/ ConnExit(c) \/ ReapClose(c)
              \/ \E k \in Stops : StopCloseListener(k) \/ StopCollect(k) \/ StopWait(k) \/ StopReturn(k)
                                  \/ \E c \in Conns : StopCloseOne(k, c)
              \/ \E j \in Nfs : NfsStopped(j) \/ NfsPoolStop(j) \/ NfsRelease(j) \/ NfsClear(j)
Next == EnvNext \/ ServerNext
Spec == Init /\ [][Next]_vars
\* (strong fairness for ConnNotice: the loop looks at the context and at its socket between any two requests, so a
\* connection that keeps being sent requests still notices)
FairSpec == /\ Spec
            /\ WF_vars(AccCheck) /\ WF_vars(AccErr) /\ WF_vars(ReapPick) /\ WF_vars(IdleExit)
            /\ \A c \in Conns : WF_vars(Register(c) \/ Reject(c) \/ AclReject(c)) /\ WF_vars(ServeEnd(c)) /\ SF_vars(ConnNotice(c)) /\ WF_vars(ConnExit(c)) /\ WF_vars(ReapClose(c))
            /\ \A k \in Stops : WF_vars(StopCloseListener(k) \/ StopCollect(k) \/ StopWait(k) \/ StopReturn(k) \/ \E c \in Conns : StopCloseOne(k, c))

-----------------------------------------------------------------------------
(* Properties (C17)                                                         *)
TypeOK == /\ lst \in {"none", "open", "closed"} /\ acc \in {"none", "top", "accepting", "has", "exited"}
          /\ active \subseteq Conns /\ reap \subseteq Conns
          /\ \A c \in Conns : conn[c].ph \in {"none", "dialed", "taken", "serving", "rejected", "exiting", "gone"}

\* every accepted connection is counted exactly once and uncounted when it ends
CountMatches == count = Cardinality(active)
CountedOnce  == \A c \in Conns : regN[c] <= 1 /\ unregN[c] <= regN[c]
GoneUncounted == \A c \in Conns : conn[c].ph = "gone" => c \notin active
\* ... and a connection that was turned away (at the limit or by the address filter) is not counted at all
RefusedUncounted == \A c \in Conns : conn[c].ph = "rejected" => c \notin active

\* simultaneously served connections never exceed MaxConnections
\* (a connection whose request is executing is being served, whatever has happened to its socket; while the server
\* shuts down connections are being torn down and only the count is bounded)
\* (a connection the cleanup pass has found idle for longer than IdleTimeout is on its way out, even if a call
\* reaches it in that instant)
Served == {c \in Conns : conn[c].ph = "serving" /\ conn[c].gor /\ c \notin reap /\ ~conn[c].reaped
                          /\ (conn[c].sock = "open" \/ conn[c].busy)}
Bounded == Max > 0 => (count <= Max /\ (~ctxDone => Cardinality(Served) <= Max))
ServedAreCounted == ~ctxDone => Served \subseteq active

\* a connection with a request executing is not idle: the cleanup pass never collects it
NoReapMidCall == [][\A c \in Conns : (c \in reap' /\ c \notin reap) => ~conn[c].busy]_vars

\* after Server.Stop returns no connection is served and no accept or connection goroutine remains
Stopped == \E k \in Stops : stop[k].ph = "returned"
AfterStop == Stopped => /\ Served = {} /\ active = {} /\ count = 0
                        /\ acc \in {"none", "exited"} /\ ~idleG /\ \A c \in Conns : ~conn[c].gor
NothingAfterStop == [][Stopped => (active' = {} /\ \A c \in Conns : ~conn'[c].gor)]_vars

\* after Close / Unexport every handle is released and the caches are empty (with the server Export() made, nothing
\* can repopulate them: it is stopped)
AfterClose == \A j \in Nfs : nfs[j].ph = "returned" => (~caches /\ ~handles /\ (Exported => AfterStop))

\* connections idle longer than IdleTimeout are closed (under fairness)
Reaped == \A c \in Conns : (Idle(c) /\ idleG) ~> (c \notin active \/ ~Idle(c))
\* a Stop that was called returns (under fairness)
StopTerminates == \A k \in Stops : (stop[k].ph = "cancelled") ~> (stop[k].ph = "returned")
=============================================================================

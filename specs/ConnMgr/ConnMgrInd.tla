---------------------------- MODULE ConnMgrInd ----------------------------
(***************************************************************************)
(* Inductive invariant for ConnMgr (property C17), checked with Apalache.  *)
(* ConnMgr.tla is instantiated unchanged; this module only adds the type   *)
(* annotations Apalache needs, the inductive invariant IndInv and the      *)
(* action formulas of the two action properties.                           *)
(*                                                                         *)
(* Obligations (checks/proofs_connmgr.py):                                 *)
(*   Init => IndInv                        --init=Init    --length=0       *)
(*   IndInv /\ Next => IndInv'             --init=IndInit --length=1       *)
(*   IndInv /\ Next => NoReapMidCallAct, NothingAfterStopAct  (same run:   *)
(*        --inv=IndInv,NoReapMidCallAct,NothingAfterStopAct)               *)
(*   IndInv => every listed invariant      syntactic (IndInv contains them)*)
(* Symbolic (any value): Max, IdleT \in Nat, Exported, Slow, Denied.       *)
(* Fixed: Conns, Stops, Nfs (ConstInit), Mutant = "none".                  *)
(***************************************************************************)
EXTENDS Integers, FiniteSets
CONSTANTS
  \* @type: Set(Int);
  Conns,
  \* @type: Int;
  Max,
  \* @type: Int;
  IdleT,
  \* @type: Set(Int);
  Stops,
  \* @type: Set(Int);
  Nfs,
  \* @type: Bool;
  Exported,
  \* @type: Set(Int);
  Slow,
  \* @type: Set(Int);
  Denied,
  \* @type: Str;
  Mutant
VARIABLES
  \* @type: Str;
  lst,
  \* @type: Bool;
  ctxDone,
  \* @type: Str;
  acc,
  \* @type: Set(Int);
  accHas,
  \* @type: Bool;
  idleG,
  \* @type: Set(Int);
  reap,
  \* @type: Set(Int);
  active,
  \* @type: Int;
  count,
  \* @type: Int -> {ph: Str, sock: Str, peer: Str, age: Int, gor: Bool, busy: Bool, dur: Int, reaped: Bool};
  conn,
  \* @type: Int -> {ph: Str, snap: Set(Int)};
  stop,
  \* @type: Int -> {ph: Str, api: Str};
  nfs,
  \* @type: Bool;
  exportSrv,
  \* @type: Bool;
  handles,
  \* @type: Bool;
  caches,
  \* @type: Int -> Int;
  regN,
  \* @type: Int -> Int;
  unregN
INSTANCE ConnMgr

ConstInit ==
  /\ Conns = 1..3 /\ Max \in Nat /\ IdleT \in Nat /\ Stops = {1, 2} /\ Nfs = {1, 2}
  /\ Exported \in BOOLEAN /\ Slow \in SUBSET Conns /\ Denied \in SUBSET Conns /\ Mutant = "none"

-----------------------------------------------------------------------------
\* Shape of every variable (the integer fields are unbounded: Nat)
ConnPh == {"none", "dialed", "taken", "serving", "rejected", "exiting", "gone"}
StopPh == {"idle", "cancelled", "lclosed", "closing", "waiting", "returned"}
NfsPh  == {"idle", "stopping", "stopped", "pooled", "released", "returned"}   \* ("cleared" only exists under a mutant)

\* (Apalache has no record sets with an infinite field and needs every variable assigned in the initial predicate:
\* the shape of conn is given here, with the two unbounded integer fields drawn from function sets; used in IndInit only,
\* an existential over function sets cannot be checked as an invariant)
ConnShape ==
  \E fin \in [Conns -> [ph: ConnPh, sock: {"none", "open", "closed"}, peer: {"open", "closed"},
                        gor: BOOLEAN, busy: BOOLEAN, reaped: BOOLEAN]] :
    \E ages \in [Conns -> Nat] : \E durs \in [Conns -> Nat] :
       conn = [c \in Conns |-> [ph |-> fin[c].ph, sock |-> fin[c].sock, peer |-> fin[c].peer, age |-> ages[c],
                                gor |-> fin[c].gor, busy |-> fin[c].busy, dur |-> durs[c], reaped |-> fin[c].reaped]]

TypeOKInd ==
  /\ lst \in {"none", "open", "closed"}
  /\ ctxDone \in BOOLEAN
  /\ acc \in {"none", "top", "accepting", "has", "exited"}
  /\ accHas \in SUBSET Conns
  /\ idleG \in BOOLEAN
  /\ reap \in SUBSET Conns
  /\ active \in SUBSET Conns
  /\ count \in Nat
  /\ DOMAIN conn = Conns
  /\ \A c \in Conns : /\ conn[c].ph \in ConnPh /\ conn[c].sock \in {"none", "open", "closed"} /\ conn[c].peer \in {"open", "closed"}
                      /\ conn[c].age \in Nat /\ conn[c].dur \in Nat
                      /\ conn[c].gor \in BOOLEAN /\ conn[c].busy \in BOOLEAN /\ conn[c].reaped \in BOOLEAN
  /\ stop \in [Stops -> [ph: StopPh, snap: SUBSET Conns]]
  /\ nfs \in [Nfs -> [ph: NfsPh, api: {"close", "unexport"}]]
  /\ exportSrv \in BOOLEAN
  /\ handles \in BOOLEAN
  /\ caches \in BOOLEAN
  /\ regN \in [Conns -> 0..1]
  /\ unregN \in [Conns -> 0..1]

-----------------------------------------------------------------------------
\* Strengthening conjuncts (each with the counterexample to induction that demanded it, see checks/proofs_connmgr.py)
Registered(c) == conn[c].ph \in {"serving", "exiting", "gone"}

\* S1  only connections whose goroutine has not finished are counted (gives GoneUncounted, RefusedUncounted)
ActiveAreLive == \A c \in active : conn[c].ph \in {"serving", "exiting"}
\* S2  the accept goroutine holds a connection it has taken and not yet registered
HeldIsTaken == \A c \in accHas : conn[c].ph = "taken"
\* S3  the ghost counters follow the phase: counted at Register, uncounted at most once and only when no longer active
GhostExact == \A c \in Conns : /\ regN[c] = (IF Registered(c) THEN 1 ELSE 0)
                               /\ unregN[c] <= regN[c]
                               /\ c \in active => unregN[c] = 0
\* S4  the connection goroutine exists exactly between Register and ConnExit
GorIffLive == \A c \in Conns : conn[c].gor <=> conn[c].ph \in {"serving", "exiting"}
\* S5  a request executes only in a registered, serving connection
BusyIsServing == \A c \in Conns : conn[c].busy => conn[c].ph = "serving"
\* S6  every Stop call past its first step has cancelled the context
StopCancelled == \A k \in Stops : stop[k].ph # "idle" => ctxDone
\* S7  a request that executes was stamped when it was read and has not run for longer than IdleTimeout
BusyIsFresh == \A c \in Conns : conn[c].busy => (conn[c].age <= conn[c].dur /\ conn[c].dur <= IdleT)
\* S8  Close / Unexport past the point where the pool is drained (or, Unexport, entered with nothing executing): no request executes
NfsQuiet(j) == \/ nfs[j].ph \in {"pooled", "released", "returned"}
               \/ (nfs[j].ph = "stopped" /\ nfs[j].api = "unexport")
QuietAfterDrain == \A j \in Nfs : NfsQuiet(j) => ~Busy
\* S9  released handles / cleared caches stay so until the call returns
ReleasedStays == \A j \in Nfs : /\ nfs[j].ph \in {"released", "returned"} => ~handles
                                /\ nfs[j].ph = "returned" => ~caches
\* S10 (not needed for the listed invariants; it proves the reading of AfterClose its comment gives: with the server that
\* Export() made, a Close / Unexport that has got past stopping it implies that some Stop HAS returned.  As written,
\* AfterClose's conjunct "Exported => AfterStop" is implied by the invariant AfterStop alone.)
ClosedAfterStop == /\ exportSrv => Exported
                   /\ (Exported /\ ~exportSrv) => Stopped
                   /\ \A j \in Nfs : (Exported /\ nfs[j].ph \notin {"idle", "stopping"}) => Stopped

Strengthening ==
  /\ ActiveAreLive
  /\ HeldIsTaken
  /\ GhostExact
  /\ GorIffLive
  /\ BusyIsServing
  /\ StopCancelled
  /\ BusyIsFresh
  /\ QuietAfterDrain
  /\ ReleasedStays
  /\ ClosedAfterStop

Listed == /\ TypeOK /\ CountMatches /\ CountedOnce /\ GoneUncounted /\ RefusedUncounted /\ Bounded /\ ServedAreCounted
          /\ AfterStop /\ AfterClose

IndInv == TypeOKInd /\ Listed /\ Strengthening
IndInit == ConnShape /\ IndInv

\* the two action properties as one-step formulas (NoReapMidCall, NothingAfterStop are [][A]_vars of these)
NoReapMidCallAct == \A c \in Conns : (c \in reap' /\ c \notin reap) => ~conn[c].busy
NothingAfterStopAct == Stopped => (active' = {} /\ \A c \in Conns : ~conn'[c].gor)
=============================================================================

---------------------------- MODULE ConnMgrTrace ----------------------------
(***************************************************************************)
(* Validation of recorded executions of a real absnfs server over TCP       *)
(* against ConnMgr (property C17).                                          *)
(*                                                                         *)
(* Events: vhook call sites under connMutex (cm.accept / cm.reject /        *)
(* cm.unreg carry the count), cm.reap, cl.start, sv.stop.*; what the        *)
(* clients saw (cn.dial / cn.dialed, cl.send / cl.reply / cl.dead /         *)
(* cl.close, cl.probe / cl.newconn after Stop); the driver's calls          *)
(* (sv.listen, st.call / st.ret, cx.call / cx.ret with the handle and cache *)
(* counts read in-package, local.use); goroutine census lines.              *)
(*                                                                         *)
(* Mode "ideal" (verdict): deterministic pass, only what C17 states.        *)
(* Mode "impl"  (binding, LV): the actions of ConnMgr; the steps that leave *)
(*   no event (the kernel handshake, Accept returning, the loop noticing a  *)
(*   closed socket, the listener being closed, the snapshot taken by        *)
(*   closeAllConnections, unregister calls that find nothing to do, the     *)
(*   goroutines leaving) are silent and TLC searches for an interleaving.   *)
(***************************************************************************)
EXTENDS ConnMgr, Sequences, Json, IOUtils

CONSTANTS KnownDeviations, Mode

TraceLog == ndJsonDeserialize(IOEnv.VF_TRACE)
N == Len(TraceLog)

VARIABLES l,
          hcfg,     \* reset line of the current history
          called,   \* impl: Stop calls that have been issued
          cancLog,  \* impl: Stop calls whose sv.stop.cancel has been logged (the hook follows cancel(), outside any lock)
          aux,      \* impl: [slow: connections whose outstanding request will be seen in the backend (be.enter follows),
                    \*        bex: connections whose request has left the backend gate (be.exit logged) and is not answered yet]
          outst,    \* impl: connections with a request sent and not yet served
          outres,   \* impl: those of them whose request allocates a handle / fills a cache (LOOKUP)
          answ,     \* impl: connections with a request served whose reply the client has not logged yet
          reaping,  \* impl: connections for which cm.reap has been logged and the unregister not yet
          o,        \* ideal: observed state
          bad, dev, drift, stats

tvars == <<l, hcfg, called, cancLog, aux, outst, outres, answ, reaping, o, bad, dev, drift, stats>>
allvars == <<vars, tvars>>

Cur == TraceLog[l]
Tag(S) == {[l |-> l, hist |-> hcfg.hist, why |-> w] : w \in S}
Bump(k) == [stats EXCEPT ![k] = @ + 1]

-----------------------------------------------------------------------------
(* ideal level                                                              *)
ObsInit == [act |-> {},        \* registered according to the hook events
            ever |-> {},       \* ever counted
            served |-> {},     \* connections for which a client holds proof of being served right now
            inbe |-> {},       \* connections with a request inside the backend right now (seen by the backend gate)
            dead |-> {},       \* connections their client has found closed by the server
            stopped |-> FALSE, \* a Stop (or a Close / Unexport of an exported handler) has returned successfully
            late |-> {}]       \* connections on which a request was sent after that

\* (with a short IdleTimeout in play the observation depends on real time: it must reproduce before it counts)
TooMany == (IF hcfg.idle_ms < 300000 THEN "[timed] " ELSE "") \o
           "more connections were served simultaneously (answered, or with a request executing) than MaxConnections"

IdealStep ==
  LET e == Cur
      mx == hcfg.max IN
  CASE e.ev = "cm.accept" ->
         LET a2 == o.act \cup {e.c}
             w == (IF e.c \in o.ever THEN {"a connection was counted twice"} ELSE {})
                  \cup (IF e.count # Cardinality(a2) THEN {"the connection count does not match the set of registered connections"} ELSE {})
                  \cup (IF mx > 0 /\ e.count > mx THEN {"more connections were registered than MaxConnections"} ELSE {})
                  \cup (IF o.stopped THEN {"a connection was accepted after Stop had returned"} ELSE {})
         IN /\ o' = [o EXCEPT !.act = a2, !.ever = @ \cup {e.c}]
            /\ bad' = bad \cup Tag(w)
            /\ stats' = Bump("accepts")
            /\ UNCHANGED <<dev, drift>>
    \* (the server closes a connection and uncounts it a moment later: real time is involved, the observation must reproduce)
    [] e.ev = "cm.reject" ->
         /\ stats' = Bump("rejects")
         /\ bad' = bad \cup Tag(IF o.act \cap o.dead # {}
                                THEN {"[timed] a connection was turned away at the limit while a connection that had already ended (closed by the server) was still counted"}
                                ELSE {})
         /\ drift' = drift \cup Tag(IF mx > 0 /\ e.count < mx THEN {"a connection was rejected below the limit"} ELSE {})
         /\ UNCHANGED <<o, dev>>
    [] e.ev = "cl.dead" ->
         /\ o' = [o EXCEPT !.dead = @ \cup {e.c}]
         /\ UNCHANGED <<bad, dev, drift, stats>>
    [] e.ev = "cm.unreg" ->
         LET a2 == o.act \ {e.c}
             w == (IF e.c \notin o.act THEN {"a connection was uncounted twice, or without having been counted"} ELSE {})
                  \cup (IF e.count # Cardinality(a2) THEN {"the connection count does not match the set of registered connections"} ELSE {})
         IN /\ o' = [o EXCEPT !.act = a2]
            /\ bad' = bad \cup Tag(w)
            /\ stats' = Bump("unregs")
            /\ UNCHANGED <<dev, drift>>
    [] e.ev = "cm.reap" ->
         /\ stats' = Bump("reaps")
         /\ UNCHANGED <<o, bad, dev, drift>>
    [] e.ev = "cl.send" ->
         /\ o' = [o EXCEPT !.served = IF e.lastans THEN @ \ {e.c} ELSE @,
                           !.late = IF o.stopped THEN @ \cup {e.c} ELSE @ \ {e.c}]
         /\ UNCHANGED <<bad, dev, drift, stats>>
    [] e.ev = "cl.reply" ->
         LET s2 == IF e.first THEN o.served \cup {e.c} ELSE o.served
             w == (IF e.first /\ mx > 0 /\ Cardinality(s2 \cup o.inbe) > mx
                   THEN {TooMany} ELSE {})
                  \cup (IF e.c \in o.late THEN {"a request sent after Stop had returned was served"} ELSE {})
         IN /\ o' = [o EXCEPT !.served = s2]
            /\ bad' = bad \cup Tag(w)
            /\ stats' = Bump("replies")
            /\ UNCHANGED <<dev, drift>>
    \* a request of the connection is executing in the backend: the connection is being served
    [] e.ev = "be.enter" ->
         /\ o' = [o EXCEPT !.inbe = @ \cup {e.c}]
         /\ bad' = bad \cup Tag(IF mx > 0 /\ Cardinality(o.served \cup o.inbe \cup {e.c}) > mx THEN {TooMany} ELSE {})
         /\ UNCHANGED <<dev, drift, stats>>
    [] e.ev = "be.exit" ->
         /\ o' = [o EXCEPT !.inbe = @ \ {e.c}]
         /\ UNCHANGED <<bad, dev, drift, stats>>
    [] e.ev = "cl.probe" ->
         /\ bad' = bad \cup Tag(IF e.served /\ o.stopped THEN {"a connection was still served after Stop had returned"} ELSE {})
         /\ UNCHANGED <<o, dev, drift, stats>>
    \* a new dial to the old port that is answered is only noted: another process may have bound the port by then;
    \* a connection accepted by this server after Stop is caught by its cm.accept event
    [] e.ev = "cl.newconn" ->
         /\ drift' = drift \cup Tag(IF e.served /\ o.stopped THEN {"a new dial to the old port was answered after Stop had returned"} ELSE {})
         /\ UNCHANGED <<o, bad, dev, stats>>
    [] e.ev = "sv.listen" ->
         /\ o' = [o EXCEPT !.stopped = FALSE]
         /\ UNCHANGED <<bad, dev, drift, stats>>
    [] e.ev = "st.ret" ->
         \* "after Server.Stop returns": also when it returns the error of its expired 5 s wait
         /\ o' = [o EXCEPT !.stopped = TRUE]
         /\ bad' = bad \cup Tag(IF o.act # {} THEN {"connections were still counted when Stop returned"} ELSE {})
         /\ drift' = drift \cup Tag(IF ~e.ok THEN {"Stop returned an error (its 5 s wait expired)"} ELSE {})
         /\ stats' = Bump("stops")
         /\ UNCHANGED dev
    [] e.ev = "census" ->
         /\ bad' = bad \cup Tag(IF o.stopped /\ (e.acc > 0 \/ e.conn > 0)
                                THEN {"an accept or connection goroutine remained after Stop had returned"} ELSE {})
         /\ drift' = drift \cup Tag(IF o.stopped /\ e.idle > 0 THEN {"the idle-cleanup goroutine remained after Stop had returned"} ELSE {})
         /\ stats' = Bump("censuses")
         /\ UNCHANGED <<o, dev>>
    [] e.ev = "cx.ret" ->
         LET w == (IF e.handles > 0 \/ e.attr > 0 \/ e.dir > 0
                   THEN {"file handles or cache entries remained after Close / Unexport"} ELSE {})
                  \cup (IF e.panic THEN {"Close / Unexport panicked"} ELSE {})
                  \cup (IF e.err /\ e.j > 1 THEN {"repeating Close / Unexport returned an error"} ELSE {})
                  \cup (IF hcfg.exported /\ o.act # {} THEN {"connections were still counted after Close / Unexport of an exported handler"} ELSE {})
         IN /\ o' = [o EXCEPT !.stopped = @ \/ hcfg.exported]
            /\ bad' = bad \cup Tag(w)
            /\ stats' = Bump("closes")
            /\ UNCHANGED <<dev, drift>>
    [] e.ev = "idle.check" ->
         /\ bad' = bad \cup Tag(IF e.open /\ e.idle_ms >= 1000 /\ hcfg.idle_ms <= 100
                                THEN {"[timed] a connection that had been idle for more than a second (IdleTimeout 100 ms) was still served"} ELSE {})
         /\ stats' = Bump("idlechecks")
         /\ UNCHANGED <<o, dev, drift>>
    [] e.ev = "unreg.wait" ->
         /\ bad' = bad \cup Tag(IF ~e.seen THEN {"[timed] a connection that had ended was still counted two seconds later"} ELSE {})
         /\ UNCHANGED <<o, dev, drift, stats>>
    [] OTHER -> UNCHANGED <<o, bad, dev, drift, stats>>

-----------------------------------------------------------------------------
(* impl level                                                               *)
ImplReset ==
  /\ lst' = "none" /\ ctxDone' = FALSE /\ acc' = "none" /\ accHas' = {} /\ idleG' = FALSE /\ reap' = {}
  /\ active' = {} /\ count' = 0
  /\ conn' = [c \in Conns |-> [ph |-> "none", sock |-> "none", peer |-> "open", age |-> 0, gor |-> FALSE, busy |-> FALSE, dur |-> 0, reaped |-> FALSE]]
  /\ stop' = [k \in Stops |-> [ph |-> "idle", snap |-> {}]]
  /\ nfs' = [j \in Nfs |-> [ph |-> "idle", api |-> "close"]]
  /\ exportSrv' = Cur.exported
  /\ handles' = FALSE /\ caches' = FALSE
  /\ regN' = [c \in Conns |-> 0] /\ unregN' = [c \in Conns |-> 0]

Unchanged4 == UNCHANGED <<called, cancLog, aux, outst, outres, answ, reaping>>

MinOf(S) == CHOOSE x \in S : \A y \in S : x <= y
ByStop(c) == {k \in Stops : stop[k].ph = "closing" /\ c \in stop[k].snap}
\* AtLimit of the module uses the constant Max; the recorded histories carry their own limit
ImplEvent ==
  LET e == Cur IN
  CASE e.ev = "sv.listen" -> Listen /\ Unchanged4
    [] e.ev = "cn.dial" -> /\ IF lst = "open" THEN Dial(e.c) ELSE UNCHANGED vars
                           /\ Unchanged4
    [] e.ev = "cn.dialed" -> UNCHANGED vars /\ Unchanged4
    [] e.ev = "cm.accept" -> /\ acc = "has" /\ accHas = {e.c}
                             /\ (hcfg.max = 0 \/ count < hcfg.max)
                             /\ active' = active \cup {e.c} /\ count' = count + 1 /\ count' = e.count
                             /\ conn' = [conn EXCEPT ![e.c].ph = "serving", ![e.c].age = 0, ![e.c].gor = TRUE]
                             /\ regN' = [regN EXCEPT ![e.c] = @ + 1]
                             /\ acc' = "top" /\ accHas' = {}
                             /\ UNCHANGED <<lst, ctxDone, idleG, reap, stop, nfs, exportSrv, handles, caches, unregN>>
                             /\ Unchanged4
    [] e.ev = "cm.reject" -> /\ acc = "has" /\ accHas = {e.c}
                             /\ hcfg.max > 0 /\ count >= hcfg.max /\ count = e.count
                             /\ conn' = [conn EXCEPT ![e.c].ph = "rejected", ![e.c].sock = "closed"]
                             /\ acc' = "top" /\ accHas' = {}
                             /\ UNCHANGED <<lst, ctxDone, idleG, reap, active, count, stop, nfs, exportSrv, handles, caches, regN, unregN>>
                             /\ Unchanged4
    [] e.ev = "cl.start" -> conn[e.c].gor /\ UNCHANGED vars /\ Unchanged4
    [] e.ev = "cm.reap" -> /\ e.c \in reap /\ reaping' = reaping \cup {e.c}
                           /\ UNCHANGED <<vars, called, cancLog, aux, outst, outres, answ>>
    \* who uncounted it: the cleanup pass that announced it, else the closeAllConnections whose snapshot holds it,
    \* else its own goroutine (when several could have, the later silent steps of the others find nothing to do,
    \* so one canonical choice loses no behaviour)
    [] e.ev = "cm.unreg" -> /\ e.c \in active /\ e.count = count - 1
                            /\ IF e.c \in reaping THEN ReapClose(e.c) /\ reaping' = reaping \ {e.c}
                               ELSE IF ByStop(e.c) # {} THEN StopCloseOne(MinOf(ByStop(e.c)), e.c) /\ reaping' = reaping
                               ELSE ConnExit(e.c) /\ reaping' = reaping
                            /\ UNCHANGED <<called, cancLog, aux, outst, outres, answ>>
    [] e.ev = "cl.send" -> /\ outst' = outst \cup {e.c}
                           /\ outres' = IF e.res THEN outres \cup {e.c} ELSE outres
                           /\ aux' = IF e.slow THEN [aux EXCEPT !.slow = @ \cup {e.c}] ELSE aux
                           /\ UNCHANGED <<vars, called, cancLog, answ, reaping>>
    [] e.ev = "be.enter" -> /\ e.c \in outst /\ e.c \in aux.slow /\ ServeBeginAny(e.c)
                            /\ outst' = outst \ {e.c} /\ aux' = [aux EXCEPT !.slow = @ \ {e.c}]
                            /\ UNCHANGED <<called, cancLog, outres, answ, reaping>>
    [] e.ev = "be.exit" -> /\ conn[e.c].busy /\ aux' = [aux EXCEPT !.bex = @ \cup {e.c}]
                           /\ UNCHANGED <<vars, called, cancLog, outst, outres, answ, reaping>>
    [] e.ev = "cl.reply" -> e.c \in answ /\ answ' = answ \ {e.c} /\ UNCHANGED <<vars, called, cancLog, aux, outst, outres, reaping>>
    [] e.ev = "cl.dead" -> /\ outst' = outst \ {e.c} /\ outres' = outres \ {e.c} /\ aux' = [aux EXCEPT !.slow = @ \ {e.c}]
                           /\ UNCHANGED <<vars, called, cancLog, answ, reaping>>
    [] e.ev = "cl.close" -> /\ IF conn[e.c].ph \in {"dialed", "taken", "serving"} /\ conn[e.c].peer = "open"
                               THEN PeerClose(e.c) ELSE UNCHANGED vars
                            /\ Unchanged4
    [] e.ev = "st.call" -> called' = called \cup {e.k} /\ UNCHANGED <<vars, cancLog, aux, outst, outres, answ, reaping>>
    \* the hook follows s.cancel() outside any lock: connections may already have left by the time it is logged
    [] e.ev = "sv.stop.cancel" -> /\ \E k \in called \ cancLog : stop[k].ph # "idle" /\ cancLog' = cancLog \cup {k}
                                  /\ UNCHANGED <<vars, called, aux, outst, outres, answ, reaping>>
    [] e.ev = "sv.stop.closed" -> (\E k \in called : StopWait(k)) /\ Unchanged4
    [] e.ev = "sv.stop.returned" -> e.ok /\ (\E k \in called : StopReturn(k)) /\ Unchanged4
    [] e.ev = "st.ret" -> e.ok /\ stop[e.k].ph = "returned" /\ UNCHANGED vars /\ Unchanged4
    [] e.ev = "local.use" -> /\ handles' = TRUE /\ caches' = TRUE
                             /\ UNCHANGED <<lst, ctxDone, acc, accHas, idleG, reap, active, count, conn, stop, nfs, exportSrv, regN, unregN>>
                             /\ Unchanged4
    [] e.ev = "cx.call" -> NfsBegin(e.j, e.api) /\ Unchanged4
    [] e.ev = "cx.ret" -> /\ nfs[e.j].ph = "returned"
                          /\ (e.handles > 0) = handles /\ (e.attr > 0 \/ e.dir > 0) = caches
                          /\ ~e.panic
                          /\ UNCHANGED vars /\ Unchanged4
    [] e.ev \in {"census", "cl.probe", "cl.newconn", "idle.check", "unreg.wait"} -> UNCHANGED vars /\ Unchanged4
    [] OTHER -> FALSE

\* Steps of the code that leave no event, scheduled canonically where that loses no behaviour:
\*  eager  (before anything else): the accept loop's context check, Accept returning the connection that is
\*         registered / rejected next, closeAllConnections taking its snapshot, a request that can be served
\*  lazy   (only when the next event needs them; their guards never become false): the loop noticing a dead
\*         socket / the cancelled context, unregister calls that find nothing to do, goroutines leaving, the
\*         cleanup pass picking the connection whose cm.reap comes next, the steps of Close / Unexport
\*  search (any moment): Stop cancelling the context (between st.call and the sv.stop.cancel hook), the listener being closed
NextAcc == LET hi == IF N < l + 300 THEN N ELSE l + 300     \* a history is shorter than the window
               S == {k \in l..hi : TraceLog[k].ev \in {"cm.accept", "cm.reject", "reset"}} IN
           IF S = {} THEN 0
           ELSE LET k == CHOOSE x \in S : \A y \in S : x <= y IN
                IF TraceLog[k].ev = "reset" THEN 0 ELSE TraceLog[k].c

CanServe(c) == c \notin aux.slow /\ CanRead(c) /\ ClientsMaySend
CanEnd(c) == c \in aux.bex /\ conn[c].busy
CanTake == NextAcc # 0 /\ acc = "accepting" /\ lst = "open" /\ conn[NextAcc].ph = "dialed"
CanCollect(k) == k \in called /\ stop[k].ph = "lclosed"
EagerEnabled == acc = "top" \/ CanTake \/ (\E k \in Stops : CanCollect(k)) \/ (\E c \in Conns : CanEnd(c)) \/ \E c \in outst : CanServe(c)

\* (Accept returning early and an early snapshot of closeAllConnections lose no behaviour: a connection taken
\* early only waits for its cm.accept / cm.reject, and every connection of a later snapshot that an earlier one
\* misses leaves through its own goroutine once the context is cancelled)
Eager ==
  IF acc = "top" THEN AccCheck /\ UNCHANGED tvars
  ELSE IF CanTake THEN AccTake(NextAcc) /\ UNCHANGED tvars
  ELSE IF \E k \in Stops : CanCollect(k)
       THEN (LET k == CHOOSE x \in Stops : CanCollect(x) IN StopCollect(k)) /\ UNCHANGED tvars
  ELSE IF \E c \in Conns : CanEnd(c)
       THEN LET c == CHOOSE x \in Conns : CanEnd(x) IN       \* the request that left the backend gate is answered
            /\ ServeEnd(c)
            /\ aux' = [aux EXCEPT !.bex = @ \ {c}] /\ answ' = answ \cup {c}
            /\ UNCHANGED <<l, hcfg, called, cancLog, outst, outres, reaping, o, bad, dev, drift, stats>>
  ELSE LET c == CHOOSE x \in outst : CanServe(x) /\ \A y \in outst : CanServe(y) => x <= y IN
       /\ ServeFast(c)
       /\ (c \in outres) => (handles' = TRUE)      \* a LOOKUP allocates a handle and caches attributes, a NULL does not
       /\ (c \notin outres) => (handles' = handles /\ caches' = caches)
       /\ outst' = outst \ {c} /\ outres' = outres \ {c} /\ answ' = answ \cup {c}
       /\ UNCHANGED <<l, hcfg, called, cancLog, aux, reaping, o, bad, dev, drift, stats>>

\* the cleanup pass collects the connection whose cm.reap comes next (a subset of what ReapPick may collect)
ReapPickOne(c) ==
  /\ idleG /\ c \in active /\ c \notin reap
  /\ reap' = reap \cup {c}
  /\ UNCHANGED <<lst, ctxDone, acc, accHas, idleG, active, count, conn, stop, nfs, exportSrv, handles, caches, regN, unregN>>

\* connections that still have a silent step to take before Stop can return / before closeAllConnections is done;
\* they are processed in increasing order (the steps of different connections commute)
NeedsExit(c) == \/ (conn[c].ph = "serving" /\ conn[c].gor /\ ~conn[c].busy /\ (ctxDone \/ conn[c].sock = "closed" \/ conn[c].peer = "closed"))
                \/ (c \notin active /\ (conn[c].ph = "exiting" \/ c \in reap))
Leftover(k) == {c \in stop[k].snap : c \notin active}

Lazy ==
  /\ LET e == Cur IN
     \/ e.ev = "cm.unreg" /\ e.c \notin reaping /\ ByStop(e.c) = {} /\ ConnNotice(e.c)
     \/ e.ev = "cm.reap" /\ ReapPickOne(e.c)
     \/ e.ev = "sv.stop.closed" /\ \E k \in called : stop[k].ph = "closing" /\ Leftover(k) # {} /\ StopCloseOne(k, MinOf(Leftover(k)))
     \/ e.ev = "sv.stop.returned" /\
          \/ acc = "accepting" /\ ctxDone /\ AccErr
          \/ /\ {c \in Conns : NeedsExit(c)} # {}
             /\ LET c == MinOf({x \in Conns : NeedsExit(x)}) IN
                ConnNotice(c) \/ (c \notin active /\ (ConnExit(c) \/ (c \in reap /\ ReapClose(c))))
          \/ IdleExit
     \/ e.ev = "cx.ret" /\ (NfsStopped(e.j) \/ NfsPoolStop(e.j) \/ NfsRelease(e.j) \/ NfsClear(e.j))
  /\ UNCHANGED tvars

Search ==
  /\ \E k \in called : StopCancel(k) \/ StopCloseListener(k)
  /\ UNCHANGED tvars

Silent == IF EagerEnabled THEN Eager ELSE (Lazy \/ Search)

-----------------------------------------------------------------------------
TInit == /\ Init
         /\ l = 1 /\ hcfg = [hist |-> -1, max |-> 0, idle_ms |-> 0, exported |-> FALSE]
         /\ called = {} /\ cancLog = {} /\ aux = [slow |-> {}, bex |-> {}] /\ outst = {} /\ outres = {} /\ answ = {} /\ reaping = {}
         /\ o = ObsInit /\ bad = {} /\ dev = {} /\ drift = {}
         /\ stats = [lines |-> 0, hist |-> 0, accepts |-> 0, rejects |-> 0, unregs |-> 0, reaps |-> 0, replies |-> 0,
                     stops |-> 0, closes |-> 0, censuses |-> 0, idlechecks |-> 0]
         /\ TLCSet(1, 1)

IdealNext ==
  \/ /\ l <= N
     /\ l' = l + 1
     /\ IF Cur.ev = "reset"
        THEN /\ hcfg' = Cur /\ o' = ObsInit /\ stats' = Bump("hist") /\ UNCHANGED <<bad, dev, drift>>
        ELSE IdealStep /\ hcfg' = hcfg
     /\ UNCHANGED <<vars, called, cancLog, aux, outst, outres, answ, reaping>>
  \/ /\ l = N + 1
     /\ l' = N + 2
     /\ JsonSerialize(IOEnv.VF_RESULT, [n |-> N, consumed |-> l - 1, bad |-> bad, dev |-> dev, drift |-> drift,
                                        stats |-> [stats EXCEPT !.lines = N]])
     /\ UNCHANGED <<vars, hcfg, called, cancLog, aux, outst, outres, answ, reaping, o, bad, dev, drift, stats>>

ImplNext ==
  /\ l <= N
  /\ \/ Cur.ev # "reset" /\ Silent
     \/ /\ l' = l + 1
        /\ UNCHANGED <<o, bad, dev, drift, stats>>
        /\ IF Cur.ev = "reset"
           THEN ImplReset /\ hcfg' = Cur /\ called' = {} /\ cancLog' = {} /\ aux' = [slow |-> {}, bex |-> {}] /\ outst' = {} /\ outres' = {} /\ answ' = {} /\ reaping' = {}
           ELSE ImplEvent /\ hcfg' = hcfg

TNext == IF Mode = "ideal" THEN IdealNext ELSE ImplNext
TSpec == TInit /\ [][TNext]_allvars

HighWater == IF l > TLCGet(1) THEN TLCSet(1, l) ELSE TRUE
ImplPost == JsonSerialize(IOEnv.VF_RESULT, [n |-> N, consumed |-> TLCGet(1) - 1, bad |-> {}, dev |-> {}, drift |-> {},
                                            stats |-> [lines |-> N]])
=============================================================================

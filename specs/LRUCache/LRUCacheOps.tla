---------------------------- MODULE LRUCacheOps ----------------------------
(***************************************************************************)
(* AttrCache and DirCache of absnfs (cache.go) as pure operators over      *)
(* state records.  Shared by the design spec (LRUCache), the step-          *)
(* validation trace spec (LRUCacheTrace) and the linearization trace spec   *)
(* (LRUCacheLin).                                                           *)
(*                                                                         *)
(*   key    a path as the sequence of its components: <<>> is "/",          *)
(*          <<"a","b">> is "/a/b" (so "/ab" is <<"ab">>, never a child of   *)
(*          <<"a">>)                                                        *)
(*   entry  [v |-> value token, neg |-> BOOLEAN, exp |-> tick]              *)
(*          (a negative entry has v = "-")                                  *)
(*   state  [ent   |-> [cached keys -> entry],                              *)
(*           order |-> sequence of keys, most recently used first           *)
(*                     (container/list accessList, front to back),          *)
(*           cap   |-> maxSize / maxEntries,                                *)
(*           ttl   |-> ttl / timeout in ticks,                              *)
(*           nttl  |-> negativeTTL in ticks, negon |-> enableNegative]      *)
(*   op     [op |-> name, k |-> key, v |-> value token, n |-> int,          *)
(*           en |-> BOOLEAN]   (unused fields carry a neutral value)        *)
(*   result [hit |-> BOOLEAN, v |-> token, neg |-> BOOLEAN]                 *)
(*                                                                         *)
(* kind = "attr" | "dir" selects the differences between the two caches:    *)
(* AttrCache.Get serves an entry while now < exp (time.Before), DirCache    *)
(* while now <= exp (not time.After); only AttrCache has negative entries;  *)
(* only DirCache refuses oversized values (maxDirSize).                     *)
(*                                                                         *)
(* Impl level: one operator per critical section of the code.               *)
(* Ideal level: IdealReasons, the relation property C21 states.             *)
(***************************************************************************)
EXTENDS Integers, FiniteSets, Sequences

-----------------------------------------------------------------------------
(* helpers *)
Rng(q)           == {q[i] : i \in DOMAIN q}
Without(f, S)    == [x \in (DOMAIN f) \ S |-> f[x]]
With(f, k, v)    == [x \in (DOMAIN f) \cup {k} |-> IF x = k THEN v ELSE f[x]]
EmptyFn          == [x \in {} |-> 0]
SeqWithout(q, S) == SelectSeq(q, LAMBDA x : x \notin S)
SeqOnly(q, S)    == SelectSeq(q, LAMBDA x : x \in S)
Suffix(q, n)     == {q[i] : i \in {j \in DOMAIN q : j > Len(q) - n}}
Max0(n)          == IF n > 0 THEN n ELSE 0

\* p is a direct child of directory d (C21: "that directory's direct children")
IsChild(p, d) == Len(p) = Len(d) + 1 /\ SubSeq(p, 1, Len(d)) = d

\* p is d itself or lies anywhere below it (InvalidateTree, added to cache.go by the RENAME fix)
IsAtOrBelow(p, d) == Len(p) >= Len(d) /\ SubSeq(p, 1, Len(d)) = d

NoRes   == [hit |-> FALSE, v |-> "-", neg |-> FALSE]
NegVal  == "-"
Corrupt == "corrupt"   \* token the harness logs for a cached value that matches no value it stored

\* defaults the code substitutes for non-positive arguments (ticks of one second)
DefCap(kind) == IF kind = "attr" THEN 10000 ELSE 1000
DefTTL(kind) == IF kind = "attr" THEN 5 ELSE 10

Keys(s) == DOMAIN s.ent

-----------------------------------------------------------------------------
(* Impl level: the critical sections of cache.go                            *)

\* Get, first section (RLock): decide the result
Fresh(kind, e, now) == IF kind = "attr" THEN now < e.exp ELSE now <= e.exp
Stale(e, now)       == now > e.exp     \* both caches re-check with time.After before deleting

GetRead(kind, s, k, now) ==
  IF k \in Keys(s) /\ Fresh(kind, s.ent[k], now)
  THEN [r |-> [hit |-> TRUE, v |-> s.ent[k].v, neg |-> s.ent[k].neg], then |-> "touch"]
  ELSE [r |-> NoRes, then |-> IF k \in Keys(s) THEN "expire" ELSE "none"]

Remove(s, S) == [s EXCEPT !.ent = Without(@, S), !.order = SeqWithout(@, S)]

\* Get, second section (Lock) after a hit: "if still exists, move to front"
Touch(s, k) == IF k \in Keys(s) THEN [s EXCEPT !.order = <<k>> \o SeqWithout(@, {k})] ELSE s

\* Get, second section (Lock) after finding an expired entry: re-check, then delete
Expire(s, k, now) == IF k \in Keys(s) /\ Stale(s.ent[k], now) THEN Remove(s, {k}) ELSE s

\* eviction of the back of the access list
EvictOne(s) == IF s.order # <<>> THEN Remove(s, {s.order[Len(s.order)]}) ELSE s

\* the body shared by Put and PutNegative (one Lock section)
Store(s, k, e) ==
  LET s1 == IF Cardinality(Keys(s)) >= s.cap /\ k \notin Keys(s) THEN EvictOne(s) ELSE s
  IN [s1 EXCEPT !.ent = With(@, k, e), !.order = <<k>> \o SeqWithout(@, {k})]

Put(kind, s, k, v, now, big) ==
  IF kind = "dir" /\ v \in big THEN s     \* len(entries) > maxDirSize: silently not cached
  ELSE Store(s, k, [v |-> v, neg |-> FALSE, exp |-> now + s.ttl])

\* PutNegative: section 1 (RLock) reads enableNegative and negativeTTL, section 2 (Lock) stores.
\* recheck = the repaired code looks at enableNegative again under the write lock.
PutNegWrite(s, k, nttl, now, recheck) ==
  IF recheck /\ ~s.negon THEN s
  ELSE Store(s, k, [v |-> NegVal, neg |-> TRUE, exp |-> now + nttl])

Invalidate(s, k) == Remove(s, {k})
InvNegDir(s, d)  == Remove(s, {k \in Keys(s) : s.ent[k].neg /\ IsChild(k, d)})
InvTree(s, d)    == Remove(s, {k \in Keys(s) : IsAtOrBelow(k, d)})

RECURSIVE EvictDown(_)
EvictDown(s) == IF Cardinality(Keys(s)) > s.cap /\ s.order # <<>> THEN EvictDown(EvictOne(s)) ELSE s

Resize(kind, s, n) ==
  LET m == IF n <= 0 THEN DefCap(kind) ELSE n
  IN IF s.cap = m THEN s ELSE EvictDown([s EXCEPT !.cap = m])

UpdateTTL(kind, s, n) == [s EXCEPT !.ttl = IF n <= 0 THEN DefTTL(kind) ELSE n]

Clear(s) == [s EXCEPT !.ent = EmptyFn, !.order = <<>>]

\* purge = the repaired code (F13) drops the negative entries when negative caching is disabled
ConfigNeg(s, en, n, purge) ==
  LET s1 == [s EXCEPT !.negon = en, !.nttl = IF n > 0 THEN n ELSE @]
  IN IF purge /\ ~en THEN Remove(s1, {k \in Keys(s) : s.ent[k].neg}) ELSE s1

-----------------------------------------------------------------------------
(* A whole operation executed without interference (sequential use).        *)
(* fix = [purge |-> BOOLEAN, recheck |-> BOOLEAN]                           *)
ApplyOp(kind, s, o, now, big, fix) ==
  CASE o.op = "get" ->
         LET g == GetRead(kind, s, o.k, now)
         IN [s |-> CASE g.then = "touch"  -> Touch(s, o.k)
                     [] g.then = "expire" -> Expire(s, o.k, now)
                     [] OTHER             -> s,
             r |-> g.r]
    [] o.op = "put"       -> [s |-> Put(kind, s, o.k, o.v, now, big), r |-> NoRes]
    [] o.op = "putneg"    -> [s |-> IF s.negon THEN PutNegWrite(s, o.k, s.nttl, now, fix.recheck) ELSE s, r |-> NoRes]
    [] o.op = "inv"       -> [s |-> Invalidate(s, o.k), r |-> NoRes]
    [] o.op = "invneg"    -> [s |-> InvNegDir(s, o.k), r |-> NoRes]
    [] o.op = "invtree"   -> [s |-> InvTree(s, o.k), r |-> NoRes]
    [] o.op = "resize"    -> [s |-> Resize(kind, s, o.n), r |-> NoRes]
    [] o.op = "updatettl" -> [s |-> UpdateTTL(kind, s, o.n), r |-> NoRes]
    [] o.op = "clear"     -> [s |-> Clear(s), r |-> NoRes]
    [] o.op = "configneg" -> [s |-> ConfigNeg(s, o.en, o.n, fix.purge), r |-> NoRes]
    [] OTHER              -> [s |-> s, r |-> NoRes]       \* "tick": the clock is not part of s

-----------------------------------------------------------------------------
(* Concurrent use: a configuration is [s |-> state, pc |-> [g -> pcrec]],   *)
(*   pcrec = [st |-> "idle" | "called" | "mid" | "done", o |-> op,          *)
(*            r |-> result, then |-> next section, aux |-> value read]      *)
(* StepG executes the next critical section of goroutine g.                 *)
NoOp   == [op |-> "-", k |-> <<>>, v |-> "-", n |-> 0, en |-> FALSE]
IdlePc == [st |-> "idle", o |-> NoOp, r |-> NoRes, then |-> "-", aux |-> 0]
CalledPc(o) == [IdlePc EXCEPT !.st = "called", !.o = o]

CanStep(c, g) == c.pc[g].st \in {"called", "mid"}

StepG(kind, c, g, now, big, fix) ==
  LET p == c.pc[g]  o == p.o  s == c.s
      Fin(s2, r) == [s |-> s2, pc |-> [c.pc EXCEPT ![g] = [p EXCEPT !.st = "done", !.r = r, !.then = "-"]]]
      Mid(r, th, a) == [s |-> s, pc |-> [c.pc EXCEPT ![g] = [p EXCEPT !.st = "mid", !.r = r, !.then = th, !.aux = a]]]
  IN IF p.st = "called" THEN
        CASE o.op = "get" ->
               LET g1 == GetRead(kind, s, o.k, now)
               IN IF g1.then = "none" THEN Fin(s, g1.r) ELSE Mid(g1.r, g1.then, 0)
          [] o.op = "putneg" ->
               IF s.negon THEN Mid(NoRes, "write", s.nttl) ELSE Fin(s, NoRes)
          [] OTHER -> Fin(ApplyOp(kind, s, o, now, big, fix).s, NoRes)
     ELSE \* "mid"
        CASE p.then = "touch"  -> Fin(Touch(s, o.k), p.r)
          [] p.then = "expire" -> Fin(Expire(s, o.k, now), p.r)
          [] p.then = "write"  -> Fin(PutNegWrite(s, o.k, p.aux, now, fix.recheck), p.r)
          [] OTHER             -> Fin(s, p.r)

\* The same step as a set of successors: exactly at the expiry instant (now = exp) C21 leaves the
\* outcome open, so a Get may decide "hit" or "expired" there, and the section that drops the
\* expired entry may drop it or keep it.  Used by LRUCacheLin, so that a concurrent history of a
\* cache that treats the boundary the other way is still explained.
StepGSet(kind, c, g, now, big, fix) ==
  LET p  == c.pc[g]
      k  == p.o.k
      c1 == StepG(kind, c, g, now, big, fix)
      atB == k \in Keys(c.s) /\ c.s.ent[k].exp = now
      mid(r, th) == [s |-> c.s, pc |-> [c.pc EXCEPT ![g] = [p EXCEPT !.st = "mid", !.r = r, !.then = th]]]
  IN {c1}
     \cup (IF p.st = "called" /\ p.o.op = "get" /\ atB
           THEN {mid([hit |-> TRUE, v |-> c.s.ent[k].v, neg |-> c.s.ent[k].neg], "touch"), mid(NoRes, "expire")}
           ELSE {})
     \cup (IF p.st = "mid" /\ p.then = "expire" /\ atB
           THEN {[c1 EXCEPT !.s = Remove(c.s, {k})]}
           ELSE {})

-----------------------------------------------------------------------------
(* Ideal level: what property C21 requires of one operation that takes the  *)
(* cache from s to t at time now with result r.  The value is the set of    *)
(* reasons why the step is NOT allowed (empty = allowed).                   *)
(*                                                                         *)
(* Choices the property leaves open are accepted either way: a lookup       *)
(* exactly at the expiry instant; when an expired entry is physically       *)
(* dropped (any step may drop it); what a non-positive Resize / UpdateTTL   *)
(* argument is replaced with; whether an oversized directory listing that   *)
(* is refused leaves or drops the previous entry.                           *)

NegWhileDisabled == "negative entry exists while negative caching is disabled"

WFReasons(t) ==
     (IF Cardinality(Keys(t)) > t.cap THEN {"cache holds more entries than its capacity"} ELSE {})
  \cup (IF Len(t.order) # Cardinality(Keys(t)) \/ Rng(t.order) # Keys(t)
        THEN {"recency list is not a permutation of the cached keys"} ELSE {})
  \cup (IF ~t.negon /\ \E k \in Keys(t) : t.ent[k].neg THEN {NegWhileDisabled} ELSE {})

Refused(kind, o, big) == o.op = "put" /\ kind = "dir" /\ o.v \in big

\* keys the operation stores (at most one) and the entry it must then hold
StoredKeys(kind, s, o, big) ==
  IF o.op = "put" /\ ~Refused(kind, o, big) THEN {o.k}
  ELSE IF o.op = "putneg" /\ s.negon THEN {o.k} ELSE {}
StoredEntry(s, o, now) ==
  IF o.op = "put" THEN [v |-> o.v, neg |-> FALSE, exp |-> now + s.ttl]
  ELSE [v |-> NegVal, neg |-> TRUE, exp |-> now + s.nttl]

\* keys the operation must remove
MustRemove(s, o) ==
  CASE o.op = "inv"    -> {o.k} \cap Keys(s)
    [] o.op = "invneg" -> {k \in Keys(s) : s.ent[k].neg /\ IsChild(k, o.k)}
    [] o.op = "invtree" -> {k \in Keys(s) : IsAtOrBelow(k, o.k)}
    [] o.op = "clear"  -> Keys(s)
    [] OTHER           -> {}

\* keys that may disappear silently in this step
MayRemove(kind, s, o, now, big) ==
       {k \in Keys(s) : now >= s.ent[k].exp}
  \cup (IF o.op = "configneg" /\ ~o.en THEN {k \in Keys(s) : s.ent[k].neg} ELSE {})
  \cup (IF Refused(kind, o, big) THEN {o.k} \cap Keys(s) ELSE {})

MustReason(o) ==
  CASE o.op = "inv"    -> "invalidated entry is still cached"
    [] o.op = "invneg" -> "negative entry of a direct child survives the directory invalidation"
    [] o.op = "invtree" -> "entry at or below the invalidated directory is still cached"
    [] OTHER           -> "entries remain after Clear"

LostReason(o) ==
  IF o.op = "invneg" THEN "directory invalidation removed an entry that is not a negative entry of a direct child"
  ELSE IF o.op = "invtree" THEN "tree invalidation removed an entry that is not at or below the directory"
  ELSE "cached entry lost without expiry, invalidation or eviction"

GetReasons(kind, s, o, r, now) ==
  IF o.k \notin Keys(s) THEN
     (IF r.hit THEN {"lookup hit although the key is not cached"} ELSE {})
  ELSE LET e == s.ent[o.k] IN
     IF now > e.exp THEN (IF r.hit THEN {"lookup hit on an expired entry"} ELSE {})
     ELSE IF r.hit THEN
            (IF r.v = e.v /\ r.neg = e.neg THEN {}
             ELSE {"lookup returned something other than the most recent value stored for the key"})
     ELSE IF now < e.exp THEN {"lookup missed although the entry is cached and not expired"}
     ELSE {}      \* miss exactly at the expiry instant: either

IdealReasons(kind, s, t, o, r, now, big) ==
  LET stored == StoredKeys(kind, s, o, big)
      must   == MustRemove(s, o)
      gone   == Keys(s) \ Keys(t)
      extra  == gone \ must
      silent == extra \cap MayRemove(kind, s, o, now, big)
      ev     == extra \ silent                          \* must be explained as evictions
      base   == SeqWithout(s.order, must \cup silent)   \* recency of what competes for room
      fresh  == Cardinality(stored \ Keys(s))
      need   == Max0(Len(base) + fresh - t.cap)
      evOp   == (stored # {} /\ fresh = 1) \/ o.op = "resize"
      moved  == stored \cup (IF o.op = "get" /\ r.hit THEN {o.k} ELSE {})
      ord1   == IF moved = {} THEN s.order
                ELSE <<CHOOSE k \in moved : TRUE>> \o SeqWithout(s.order, moved)
  IN
     WFReasons(t)
  \cup (IF o.op = "get" THEN GetReasons(kind, s, o, r, now) ELSE {})
  \cup (IF must \subseteq gone THEN {} ELSE {MustReason(o)})
  \cup (IF ev = {} THEN {}
        ELSE IF ~evOp \/ need = 0 THEN {LostReason(o)}
        ELSE IF ev # Suffix(base, Cardinality(ev)) THEN {"evicted entry is not the least recently used"}
        ELSE IF Cardinality(ev) > need THEN {"more entries evicted than needed to make room"}
        ELSE {})
  \cup (IF \A k \in (Keys(s) \cap Keys(t)) \ stored : t.ent[k] = s.ent[k] THEN {}
        ELSE IF \E k \in (Keys(s) \cap Keys(t)) \ stored : t.ent[k].v = Corrupt /\ s.ent[k].v # Corrupt
             THEN {"cached value changed when the caller modified its own object (stored or returned value is not a copy)"}
        ELSE {"cached entry changed without a store (value, kind or expiry)"})
  \cup (IF (Keys(t) \ Keys(s)) \subseteq stored THEN {} ELSE {"entry appeared without a store"})
  \cup (IF \A k \in stored : k \in Keys(t) /\ t.ent[k] = StoredEntry(s, o, now) THEN {}
        ELSE IF \E k \in stored : k \in Keys(t) /\ t.ent[k].v = Corrupt
             THEN {"cached value changed when the caller modified its own object (stored or returned value is not a copy)"}
        ELSE {"stored entry is missing or differs from the value and expiry just stored"})
  \cup (IF t.order = SeqOnly(ord1, Keys(t)) THEN {} ELSE {"recency order after the step is not the order of last use"})
  \cup (IF o.op = "resize" THEN (IF (o.n > 0 /\ t.cap = o.n) \/ (o.n <= 0 /\ t.cap >= 1) THEN {} ELSE {"Resize did not set the capacity"})
        ELSE IF t.cap = s.cap THEN {} ELSE {"capacity changed by an operation other than Resize"})
  \cup (IF o.op = "updatettl" THEN (IF (o.n > 0 /\ t.ttl = o.n) \/ (o.n <= 0 /\ t.ttl >= 1) THEN {} ELSE {"UpdateTTL did not set the TTL"})
        ELSE IF t.ttl = s.ttl THEN {} ELSE {"TTL changed by an operation other than UpdateTTL"})
  \cup (IF o.op = "configneg"
        THEN (IF t.negon = o.en /\ t.nttl = (IF o.n > 0 THEN o.n ELSE s.nttl) THEN {} ELSE {"ConfigureNegativeCaching did not set the switch / negative TTL"})
        ELSE IF t.negon = s.negon /\ t.nttl = s.nttl THEN {} ELSE {"negative-caching configuration changed by another operation"})
=============================================================================

------------------------------ MODULE LRUCache ------------------------------
(***************************************************************************)
(* Attribute cache and directory cache of absnfs (cache.go) as bounded TTL  *)
(* LRU maps - property C21.                                                 *)
(*                                                                         *)
(* One module for both caches (constant Kind).  Two next-state relations    *)
(* over the same operators (LRUCacheOps):                                   *)
(*                                                                         *)
(*  SeqSpec   every API call is one step (sequential use).  TLC checks on   *)
(*            every reachable transition that the transcription of the      *)
(*            code (impl level, ApplyOp) is allowed by what C21 states      *)
(*            (ideal level, IdealReasons = {}), and the state invariants.   *)
(*  ConcSpec  one step per critical section, Procs goroutines: Get is       *)
(*            "decide under RLock" then "touch / expire under Lock",        *)
(*            PutNegative is "read the switch under RLock" then "store      *)
(*            under Lock"; everything else is one Lock section.  TLC checks *)
(*            the state invariants under every interleaving.                *)
(*                                                                         *)
(* Switches: FixPurge (ConfigureNegativeCaching(false) purges negative      *)
(* entries - repair of F13), FixRecheck (PutNegative re-reads the switch    *)
(* under the write lock - second half of the same repair), NoTouch (a spec  *)
(* mutant used only by the non-vacuity run: Get does not update recency).   *)
(***************************************************************************)
EXTENDS LRUCacheOps, TLC

CONSTANTS Kind,       \* "attr" | "dir"
          KeySet,     \* keys (paths as component sequences); directories for InvNegDir are the same set
          Vals,       \* value tokens
          Big,        \* value tokens DirCache refuses (longer than maxDirSize); subset of Vals
          Caps,       \* capacities: the initial one is InitCap, Resize chooses from Caps
          InitCap,
          TTLs,       \* arguments of UpdateTTL; the initial TTL is InitTTL
          InitTTL,
          NegTTL,     \* negative TTL (fixed; ConfigureNegativeCaching passes it)
          MaxClock,   \* exploration bound on the clock
          Procs,      \* goroutines of ConcSpec
          FixPurge, FixRecheck, NoTouch

\* key sets for the configurations (a .cfg file cannot write tuples)
Keys5 == {<<>>, <<"a">>, <<"a", "b">>, <<"ab">>, <<"b">>}
Keys4 == {<<>>, <<"a">>, <<"a", "b">>, <<"ab">>}
Keys3 == {<<"a">>, <<"a", "b">>, <<"ab">>}
Keys2 == {<<"a">>, <<"a", "b">>}

VARIABLES s,     \* the cache (state record of LRUCacheOps)
          now,   \* virtual clock, ticks
          pc,    \* ConcSpec: [Procs -> pcrec]
          last   \* last completed operation and its result (observation only)
vars == <<s, now, pc, last>>

Fix == [purge |-> FixPurge, recheck |-> FixRecheck]

Op(name, k, v, n, en) == [op |-> name, k |-> k, v |-> v, n |-> n, en |-> en]
OpSet ==
       {Op("get", k, "-", 0, FALSE) : k \in KeySet}
  \cup {Op("put", k, v, 0, FALSE) : k \in KeySet, v \in Vals}
  \cup {Op("inv", k, "-", 0, FALSE) : k \in KeySet}
  \cup {Op("invtree", k, "-", 0, FALSE) : k \in KeySet}
  \cup {Op("resize", <<>>, "-", n, FALSE) : n \in Caps}
  \cup {Op("updatettl", <<>>, "-", n, FALSE) : n \in TTLs}
  \cup {Op("clear", <<>>, "-", 0, FALSE)}
  \cup (IF Kind = "attr"
        THEN      {Op("putneg", k, "-", 0, FALSE) : k \in KeySet}
             \cup {Op("invneg", k, "-", 0, FALSE) : k \in KeySet}
             \cup {Op("configneg", <<>>, "-", n, en) : n \in {0, NegTTL}, en \in BOOLEAN}
        ELSE {})
TickOp == Op("tick", <<>>, "-", 1, FALSE)

Init == /\ s = [ent |-> EmptyFn, order |-> <<>>, cap |-> InitCap, ttl |-> InitTTL,
                nttl |-> NegTTL, negon |-> FALSE]
        /\ now = 0
        /\ pc = [g \in Procs |-> IdlePc]
        /\ last = [o |-> NoOp, r |-> NoRes]

Tick == /\ now < MaxClock
        /\ now' = now + 1
        /\ last' = [o |-> TickOp, r |-> NoRes]
        /\ UNCHANGED <<s, pc>>

-----------------------------------------------------------------------------
(* sequential use: one step per call *)
SeqCall(o) ==
  LET a  == ApplyOp(Kind, s, o, now, Big, Fix)
      s2 == IF NoTouch /\ o.op = "get" /\ a.r.hit THEN s ELSE a.s
  IN /\ s' = s2
     /\ last' = [o |-> o, r |-> a.r]
     /\ UNCHANGED <<now, pc>>

SeqNext == Tick \/ \E o \in OpSet : SeqCall(o)
SeqSpec == Init /\ [][SeqNext]_vars

-----------------------------------------------------------------------------
(* concurrent use: one step per critical section.  A call's first section   *)
(* is taken in the same step as the call, a finished call is idle at once   *)
(* (call and return events carry no state of their own here; LRUCacheLin    *)
(* keeps them apart because the recorded history does).                     *)
Cfg == [s |-> s, pc |-> pc]
Settle(c, g) == IF c.pc[g].st = "done" THEN [c EXCEPT !.pc[g] = IdlePc] ELSE c

Start(g, o) ==
  /\ pc[g].st = "idle"
  /\ LET c0 == [s |-> s, pc |-> [pc EXCEPT ![g] = CalledPc(o)]]
         c1 == StepG(Kind, c0, g, now, Big, Fix)
         c2 == Settle(c1, g)
     IN /\ s' = c2.s /\ pc' = c2.pc
  /\ UNCHANGED <<now, last>>

Continue(g) ==
  /\ pc[g].st = "mid"
  /\ LET c1 == StepG(Kind, Cfg, g, now, Big, Fix)
         c2 == Settle(c1, g)
     IN /\ s' = c2.s /\ pc' = c2.pc
  /\ UNCHANGED <<now, last>>

ConcNext == \/ Tick
            \/ \E g \in Procs : Continue(g) \/ \E o \in OpSet : Start(g, o)
ConcSpec == Init /\ [][ConcNext]_vars

-----------------------------------------------------------------------------
(* Ideal level: property C21 *)

\* "each cache holds at most its capacity"
Bounded == Cardinality(Keys(s)) <= s.cap

\* the recency list orders exactly the cached keys (what "least recently used" is read from)
OrderIsPermutation == Len(s.order) = Cardinality(Keys(s)) /\ Rng(s.order) = Keys(s)

\* "negative entries exist only while negative caching is enabled"
NegOnlyWhileEnabled == s.negon \/ \A k \in Keys(s) : ~s.ent[k].neg

\* every step of the sequential transcription is a step C21 allows: lookup result, what may
\* disappear and why, which entry an eviction removes, recency order, copies, configuration
StepReasons == IdealReasons(Kind, s, s', last'.o, last'.r, now, Big)
IdealOK          == [][StepReasons = {}]_vars
\* the same with the one listed deviation of the pinned code (F13) taken out
IdealOKExceptF13 == [][StepReasons \subseteq {NegWhileDisabled}]_vars

\* `last` only feeds the action property (which reads last' alone), so states are identified
\* without it: every transition is still generated and checked, from one copy of each state
View == <<s, now, pc>>

TypeOK == /\ Keys(s) \subseteq KeySet
          /\ \A k \in Keys(s) : /\ s.ent[k].exp \in 0..(MaxClock + 10)
                                /\ s.ent[k].neg = (s.ent[k].v = NegVal)
                                /\ (s.ent[k].neg => Kind = "attr")
          /\ s.cap \in Caps /\ s.ttl \in (TTLs \cup {InitTTL})
          /\ \A g \in Procs : pc[g].st \in {"idle", "mid"}
=============================================================================

---------------------------- MODULE LRUCacheLin ----------------------------
(***************************************************************************)
(* Linearization validation (LV) of recorded concurrent histories of the    *)
(* real AttrCache / DirCache (2-3 goroutines x 3 calls, run under -race).   *)
(*                                                                         *)
(* The log has call / ret events in the order the harness observed them     *)
(* (a call is logged before the method starts, a ret after it returned),    *)
(* atomic clock ticks, and the full projected cache before (reset) and      *)
(* after (final) the concurrent phase.  Between a goroutine's call and ret  *)
(* its critical sections (LRUCacheOps!StepG: Get = decide, then touch or    *)
(* expire; PutNegative = read the switch, then store; everything else one   *)
(* section) happen at unknown instants.  `front` is the set of ALL          *)
(* configurations (cache state + where every goroutine is) some             *)
(* interleaving of those sections can have reached while producing the      *)
(* log so far; an event first closes the set under silent section steps,    *)
(* then filters it.  The history is accepted iff the set is still not       *)
(* empty after the final line, which requires a configuration whose cache   *)
(* equals the recorded final cache: TLC has then found a linearization of   *)
(* the critical sections.  An empty set is recorded in `bad`, and the walk  *)
(* skips to the next history.                                               *)
(*                                                                         *)
(* Atomic = TRUE merges each call's sections into one step (an atomic Get / *)
(* PutNegative); used only to count how many recorded histories genuinely   *)
(* needed the section-level model.                                          *)
(***************************************************************************)
EXTENDS LRUCacheOps, TLC, Json, IOUtils

CONSTANTS KnownDeviations, FixPurge, FixRecheck, Atomic

TraceLog == ndJsonDeserialize(IOEnv.VF_TRACE)
N == Len(TraceLog)

VARIABLES l, kind, now, front, skipping, bad, dev, stats
vars == <<l, kind, now, front, skipping, bad, dev, stats>>

Procs == 1..3
Big == {"big"}
Fix == [purge |-> FixPurge, recheck |-> FixRecheck]
F13 == "Dev_NegativeEntriesSurviveDisable"

StateOf(st) ==
  [ent   |-> [k \in {e.k : e \in Rng(st.ent)} |->
                LET e == CHOOSE e \in Rng(st.ent) : e.k = k
                IN [v |-> e.v, neg |-> e.neg, exp |-> e.exp]],
   order |-> st.order, cap |-> st.cap, ttl |-> st.ttl, nttl |-> st.nttl, negon |-> st.negon]

Cur == TraceLog[l]

\* the silent steps of goroutine g (all of the call's sections when Atomic); a set, because the
\* exact expiry instant is accepted either way (LRUCacheOps!StepGSet)
Step1(c, g) ==
  LET S1 == StepGSet(kind, c, g, now, Big, Fix)
  IN IF Atomic
     THEN UNION {IF c1.pc[g].st = "mid" THEN StepGSet(kind, c1, g, now, Big, Fix) ELSE {c1} : c1 \in S1}
     ELSE S1

\* closure under silent steps, worklist form: Done is closed except for the steps of New
RECURSIVE Close(_, _)
Close(Done, New) ==
  IF New = {} THEN Done
  ELSE LET D2 == Done \cup New
           Nx == UNION {UNION {Step1(c, g) : g \in {h \in Procs : CanStep(c, h)}} : c \in New}
       IN Close(D2, Nx \ D2)
Closure(F) == Close({}, F)

Tag(S) == {[l |-> l, why |-> w] : w \in S}

-----------------------------------------------------------------------------
Init == /\ l = 1 /\ kind = "attr" /\ now = 0 /\ front = {} /\ skipping = TRUE
        /\ bad = {} /\ dev = {} 
        /\ stats = [hist |-> 0, accepted |-> 0, events |-> 0, maxfront |-> 0]

EvReset ==
  /\ Cur.ev = "reset"
  /\ kind' = Cur.c /\ now' = Cur.now /\ skipping' = FALSE
  /\ front' = {[s |-> StateOf(Cur.st), pc |-> [g \in Procs |-> IdlePc]]}
  /\ UNCHANGED <<bad, dev>>
  /\ stats' = [stats EXCEPT !.hist = @ + 1]

Skip == /\ Cur.ev # "reset" /\ skipping
        /\ UNCHANGED <<kind, now, front, skipping, bad, dev, stats>>

\* an event of a history that is still explained
Event ==
  /\ Cur.ev # "reset" /\ ~skipping
  /\ LET F0 == IF Cur.ev = "call" THEN front ELSE Closure(front)   \* a call changes no cache state: the
                                                                   \* silent steps before it can be taken after it
         F1 == CASE Cur.ev = "call" ->
                      {[c EXCEPT !.pc[Cur.g] = CalledPc(Cur.o)] : c \in {d \in F0 : d.pc[Cur.g].st = "idle"}}
                 [] Cur.ev = "ret" ->
                      {[c EXCEPT !.pc[Cur.g] = IdlePc] :
                          c \in {d \in F0 : d.pc[Cur.g].st = "done" /\ d.pc[Cur.g].r = Cur.r}}
                 [] Cur.ev = "tick" -> F0
                 [] Cur.ev = "final" ->
                      {c \in F0 : (\A g \in Procs : c.pc[g].st = "idle") /\ c.s = StateOf(Cur.st)}
                 [] OTHER -> {}
         wf   == IF Cur.ev = "final" THEN WFReasons(StateOf(Cur.st)) ELSE {}
         isdev == NegWhileDisabled \in wf /\ F13 \in KnownDeviations
     IN /\ front' = F1
        /\ skipping' = (F1 = {})
        /\ now' = IF Cur.ev = "tick" THEN now + Cur.n ELSE now
        /\ bad' = bad \cup Tag((IF isdev THEN wf \ {NegWhileDisabled} ELSE wf)
                     \cup (IF F1 # {} THEN {}
                           ELSE {"no interleaving of the cache's critical sections explains the recorded history (stuck at this " \o Cur.ev \o " event)"}))
        /\ dev' = dev \cup (IF isdev THEN {[l |-> l, name |-> F13]} ELSE {})
        /\ stats' = [stats EXCEPT !.events = @ + 1,
                                  !.accepted = @ + (IF Cur.ev = "final" /\ F1 # {} THEN 1 ELSE 0),
                                  !.maxfront = IF Cardinality(F0) > @ THEN Cardinality(F0) ELSE @]
  /\ UNCHANGED kind

Consume == /\ l <= N
           /\ l' = l + 1
           /\ (EvReset \/ Skip \/ Event)

Finish == /\ l = N + 1
          /\ l' = N + 2
          /\ JsonSerialize(IOEnv.VF_RESULT,
                [n |-> N, consumed |-> l - 1, bad |-> bad, dev |-> dev, drift |-> {}, stats |-> stats])
          /\ UNCHANGED <<kind, now, front, skipping, bad, dev, stats>>

Next == Consume \/ Finish
Spec == Init /\ [][Next]_vars
=============================================================================

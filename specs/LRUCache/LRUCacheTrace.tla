--------------------------- MODULE LRUCacheTrace ---------------------------
(***************************************************************************)
(* Step validation (SV) of recorded sequential behaviours of the real       *)
(* AttrCache / DirCache (cache.go, virtual clock) against LRUCache.         *)
(*                                                                         *)
(* Every line carries the operation, its result, the clock and the full     *)
(* projected cache after the step (entries with value token / negative /    *)
(* expiry tick, the access list front to back, capacity, TTLs, switch).     *)
(* Line l-1 is the pre-state of line l.  For each line:                     *)
(*   ideal level  IdealReasons(pre, post, op, result) = {}  (verdict: C21)  *)
(*   impl level   post = ApplyOp(pre, op) and the same result   (drift)     *)
(* A step that only the listed deviation explains goes to `dev`; the run    *)
(* never stops at a failing step (the next pre-state is the logged one).    *)
(***************************************************************************)
EXTENDS LRUCacheOps, TLC, Json, IOUtils

CONSTANTS KnownDeviations,     \* subset of {"Dev_NegativeEntriesSurviveDisable"}
          FixPurge, FixRecheck  \* impl-level model switches (TRUE once F13 is repaired)

TraceLog == ndJsonDeserialize(IOEnv.VF_TRACE)
N == Len(TraceLog)

VARIABLES l,      \* next line to consume
          kind,   \* cache kind of the current history
          bad,    \* set of [l, why]: steps C21 does not allow
          dev,    \* set of [l, name]: steps explained only by a known deviation
          drift,  \* set of [l, why]: impl-level mismatches (not a verdict)
          stats
vars == <<l, kind, bad, dev, drift, stats>>

Big == {"big"}
Fix == [purge |-> FixPurge, recheck |-> FixRecheck]
F13 == "Dev_NegativeEntriesSurviveDisable"

StateOf(st) ==
  [ent   |-> [k \in {e.k : e \in Rng(st.ent)} |->
                LET e == CHOOSE e \in Rng(st.ent) : e.k = k
                IN [v |-> e.v, neg |-> e.neg, exp |-> e.exp]],
   order |-> st.order, cap |-> st.cap, ttl |-> st.ttl, nttl |-> st.nttl, negon |-> st.negon]

Cur  == TraceLog[l]
Prev == TraceLog[l - 1]

Tag(S) == {[l |-> l, why |-> w] : w \in S}

-----------------------------------------------------------------------------
Init == /\ l = 1 /\ kind = "attr" /\ bad = {} /\ dev = {} /\ drift = {}
        /\ stats = [hist |-> 0, ops |-> 0, hits |-> 0, neghits |-> 0, misses |-> 0, boundary |-> 0,
                    evictions |-> 0, expired_dropped |-> 0, negserved_disabled |-> 0, stores |-> 0]

StepReset ==
  /\ Cur.ev = "reset"
  /\ kind' = Cur.c
  /\ bad' = bad \cup Tag(WFReasons(StateOf(Cur.st)) \ {NegWhileDisabled})
  /\ UNCHANGED <<dev, drift>>
  /\ stats' = [stats EXCEPT !.hist = @ + 1]

StepOp ==
  /\ Cur.ev = "op"
  /\ l > 1
  /\ LET Pre   == StateOf(Prev.st)          \* LET definitions are evaluated once per step
         Post  == StateOf(Cur.st)
         o     == Cur.o
         r     == Cur.r
         now   == Prev.now                 \* the clock the operation ran at
         why   == IdealReasons(kind, Pre, Post, o, r, IF o.op = "tick" THEN Cur.now ELSE now, Big)
         \* F13, exactly: negative caching is off and every negative entry now cached is one
         \* that was already cached, unchanged, before this step (it survived; it was not stored)
         surv  == /\ NegWhileDisabled \in why
                  /\ \A k \in Keys(Post) : Post.ent[k].neg => (k \in Keys(Pre) /\ Pre.ent[k] = Post.ent[k])
         isdev == surv /\ F13 \in KnownDeviations
         impl  == ApplyOp(kind, Pre, o, now, Big, Fix)
         clk   == Cur.now = Prev.now + (IF o.op = "tick" THEN o.n ELSE 0)
         gone  == Keys(Pre) \ Keys(Post)
         exp   == {k \in gone : now >= Pre.ent[k].exp}
     IN /\ bad' = bad \cup Tag(IF isdev THEN why \ {NegWhileDisabled} ELSE why)
        /\ dev' = dev \cup (IF isdev THEN {[l |-> l, name |-> F13]} ELSE {})
        /\ drift' = drift \cup Tag(
              (IF impl.s = Post THEN {} ELSE {"post-state differs from the transcribed " \o o.op})
         \cup (IF o.op # "get" \/ impl.r = r THEN {} ELSE {"get: result differs from the transcribed Get"})
         \cup (IF clk THEN {} ELSE {"harness clock is not continuous"}))
        /\ stats' = [stats EXCEPT
              !.ops = @ + 1,
              !.hits = @ + (IF o.op = "get" /\ r.hit THEN 1 ELSE 0),
              !.neghits = @ + (IF o.op = "get" /\ r.hit /\ r.neg THEN 1 ELSE 0),
              !.misses = @ + (IF o.op = "get" /\ ~r.hit THEN 1 ELSE 0),
              !.boundary = @ + (IF o.op = "get" /\ o.k \in Keys(Pre) /\ Pre.ent[o.k].exp = now THEN 1 ELSE 0),
              !.negserved_disabled = @ + (IF o.op = "get" /\ r.hit /\ r.neg /\ ~Pre.negon THEN 1 ELSE 0),
              !.stores = @ + Cardinality(StoredKeys(kind, Pre, o, Big)),
              !.expired_dropped = @ + Cardinality(exp),
              !.evictions = @ + (IF o.op \in {"put", "putneg", "resize"} THEN Cardinality(gone \ exp) ELSE 0)]
  /\ UNCHANGED kind

Consume == /\ l <= N
           /\ l' = l + 1
           /\ (StepReset \/ StepOp)

Finish == /\ l = N + 1
          /\ l' = N + 2
          /\ JsonSerialize(IOEnv.VF_RESULT,
                [n |-> N, consumed |-> l - 1, bad |-> bad, dev |-> dev, drift |-> drift, stats |-> stats])
          /\ UNCHANGED <<kind, bad, dev, drift, stats>>

Next == Consume \/ Finish
Spec == Init /\ [][Next]_vars
=============================================================================

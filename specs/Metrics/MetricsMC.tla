------------------------------ MODULE MetricsMC ------------------------------
(***************************************************************************)
(* Model values for the exhaustive runs of Metrics.tla (checks/METRICS.py   *)
(* writes the .cfg files and records the measured state counts).            *)
(***************************************************************************)
EXTENDS Metrics

Ok       == [e |-> FALSE, tr |-> {}]
Fail(tr) == [e |-> TRUE, tr |-> tr]

OutOk      == {Ok}
OutBasic   == {Ok, Fail({})}
OutClasses == {Ok, Fail({}), Fail({"stale"}), Fail({"auth"}), Fail({"resource"}), Fail({"stale", "auth"}), Fail({"auth", "resource"})}
OutTwo     == {Ok, Fail({"stale", "auth"})}

\* the closed forms used for batch lines of recorded histories agree with repeated single calls
S1 == OpCall(OpCall(MInit, "READ", FALSE, FALSE, {}, 9), "WRITE", TRUE, FALSE, {"auth"}, 1)
ASSUME \A st \in {MInit, S1} : \A t \in {"READ", "WRITE", "LOOKUP", "COMMIT"} : \A e \in BOOLEAN : \A ro \in BOOLEAN :
         \A tr \in {{}, {"stale", "auth"}, {"resource"}} : \A d \in {1, 9} : \A k \in 0..4 :
           OpCallK(st, t, e, ro, tr, d, k) = OpCallN(st, t, e, ro, tr, d, k)
ASSUME \A a \in 0..2 : \A b \in 0..2 :
         CacheAdd(MInit, "neg", a, b).rate["neg"] = (IF a + b = 0 THEN <<0, 1>> ELSE <<a, a + b>>)
=============================================================================

------------------------------- MODULE Metrics -------------------------------
(***************************************************************************)
(* The metrics / health subsystem of absnfs (metrics.go, metrics_api.go)   *)
(* with its feeders: threads that run the calls of the collector's API,    *)
(* one action per atomic instruction / critical section of the real code.  *)
(*                                                                         *)
(*   operation     RecordOperationStart(t): TotalOperations++ ; typed++    *)
(*                 ... the operation runs ...                               *)
(*                 done(err): RecordOperationResult (latencyMutex) ;        *)
(*                 RecordLatency (latencyMutex, READ / WRITE only) ;        *)
(*                 RecordError: ErrorCount++ ; category++                   *)
(*   connection    accept: register, TotalConnections++ ; Active++ (mutex) *)
(*                 close:  Active-- clamped (mutex) ; unregister            *)
(*                 reject: RejectedConnections++                            *)
(*   rate limit    RecordRateLimitExceeded: RateLimitExceeded++             *)
(*   error         RecordError(c): ErrorCount++ ; category++                *)
(*   timeout       RecordTimeout(t): TotalTimeouts++ ; typed++              *)
(*   cache         Record<C>Hit/Miss: counter++ ; load hits ; load misses ; *)
(*                 store the rate (mutex)                                   *)
(*   snapshot      GetMetrics: struct copy under mutex.RLock+latencyMutex;  *)
(*                 the atomically updated counters are read by plain loads  *)
(*                 while their writers go on (modelled: TotalOperations and *)
(*                 the lock-protected fields first, the other counters in a *)
(*                 second step)                                             *)
(*   health        IsHealthy: window verdict (latencyMutex) ; P95 verdict   *)
(*                 (latencyMutex again)                                     *)
(*                                                                         *)
(* The connection and operation feeders are the *intended* wiring (the call *)
(* sites the documentation describes); see FINDINGS.md for what the pinned  *)
(* tree actually calls.                                                     *)
(*                                                                         *)
(* Switches: AtomicRate (FALSE = as coded: the rate is computed outside the *)
(* mutex that stores it), RLInErr (FALSE = as coded: RecordRateLimitExceeded*)
(* leaves ErrorCount alone), Bug (seeded design errors, non-vacuity runs).  *)
(***************************************************************************)
EXTENDS MetricsOps, TLC

CONSTANTS Th,         \* threads
          OpTypes,    \* operation type strings the feeders pass (a string outside NamedOps only counts in the total)
          Outcomes,   \* set of [e |-> BOOLEAN, tr |-> SUBSET {"stale","auth","resource"}]
          LatVals,    \* durations
          Conns,      \* connection ids (each used once)
          MaxConn,    \* 0 = unlimited
          CacheSet,   \* subset of Caches
          ToTypes,    \* timeout type strings
          ErrCats,    \* category strings passed to RecordError
          Kinds,      \* which calls the threads may make
          Budget,     \* calls started in total
          ReadOnly,
          AtomicRate, RLInErr, Bug

VARIABLES s,        \* the collector's state (MetricsOps)
          thr,      \* per thread: program counter and locals
          open,     \* connections registered with the server
          counted,  \* connections whose RecordConnection has completed and RecordConnectionClosed has not
          used,     \* connection ids already dialled
          g,        \* ghost tallies of what was issued
          snap,     \* the last completed GetMetrics: [v, lo, hi]
          hv,       \* the last completed IsHealthy: [res, clean, at]
          budget
vars == <<s, thr, open, counted, used, g, snap, hv, budget>>

\* sv: what a GetMetrics / IsHealthy call in progress has saved (a small record; <<>> otherwise)
L0 == [pc |-> "idle", t |-> "", e |-> FALSE, tr |-> {}, d |-> 0, c |-> "", k |-> 0, h |-> 0, m |-> 0, sv |-> <<>>]
\* the atomically updated counters a snapshot is compared on, and the lock-protected part it copies in one piece
Ctr(x) == [total |-> x.total, op |-> x.op, err |-> x.err, cat |-> x.cat, tconn |-> x.tconn]
Locked(x) == [active |-> x.active, rate |-> x.rate, lat |-> x.lat]
HState(x) == [win |-> x.win, lat |-> x.lat]
Ctr0 == Ctr(MInit)
G0 == [other |-> 0, unk |-> 0, rlDirect |-> 0, rl |-> 0, results |-> 0, opsDone |-> 0, failed |-> 0, recerr |-> 0,
       accepted |-> 0, closed |-> 0, rejected |-> 0, otherTo |-> 0,
       hitN |-> [c \in Caches |-> 0], missN |-> [c \in Caches |-> 0]]
NoSnap == [v |-> Ctr0, lk |-> Locked(MInit), lo |-> Ctr0, hi |-> Ctr0, set |-> FALSE]
NoHv == [res |-> TRUE, clean |-> FALSE, at |-> HState(MInit), set |-> FALSE]

Init == /\ s = MInit /\ thr = [th \in Th |-> L0] /\ open = {} /\ counted = {} /\ used = {}
        /\ g = G0 /\ snap = NoSnap /\ hv = NoHv /\ budget = Budget

Pc(th) == thr[th].pc
Set(th, r) == thr' = [thr EXCEPT ![th] = r]
Goto(th, p) == thr' = [thr EXCEPT ![th].pc = p]
Start(th, k) == Pc(th) = "idle" /\ k \in Kinds /\ budget > 0 /\ budget' = budget - 1
Quiescent == \A th \in Th : Pc(th) = "idle"

-----------------------------------------------------------------------------
(* operation                                                                *)
OpBegin(th) == \E t \in OpTypes, o \in Outcomes, d \in LatVals :
  /\ Start(th, "op")
  /\ s' = IncTotal(s)
  /\ Set(th, [L0 EXCEPT !.pc = "op_t", !.t = t, !.e = o.e, !.tr = o.tr, !.d = d])
  /\ g' = [g EXCEPT !.other = @ + (IF t \in NamedOps THEN 0 ELSE 1)]
  /\ UNCHANGED <<open, counted, used, snap, hv>>

OpTyped(th) ==
  /\ Pc(th) = "op_t"
  /\ s' = IF Bug = "SkipTyped" /\ thr[th].t = "LOOKUP" THEN s ELSE IncOp(s, thr[th].t)
  /\ Goto(th, "op_run")
  /\ UNCHANGED <<open, counted, used, g, snap, hv, budget>>

\* the completion function: RecordOperationResult
OpResult(th) ==
  /\ Pc(th) = "op_run"
  /\ IF Bug = "SkipResult" /\ thr[th].e THEN UNCHANGED <<s, g>>     \* an error path that forgets the result
     ELSE s' = WinPush(s, thr[th].e) /\ g' = [g EXCEPT !.results = @ + 1]
  /\ Goto(th, "op_res")
  /\ UNCHANGED <<open, counted, used, snap, hv, budget>>

OpLatency(th) ==
  /\ Pc(th) = "op_res"
  /\ s' = IF Bug = "UnboundedWindow" /\ thr[th].t \in LatOps
          THEN [s EXCEPT !.lat[thr[th].t].w = Append(@, thr[th].d)]
          ELSE LatPush(s, thr[th].t, thr[th].d)
  /\ IF thr[th].e THEN Goto(th, "op_err") /\ g' = g
     ELSE Set(th, L0) /\ g' = [g EXCEPT !.opsDone = @ + 1]
  /\ UNCHANGED <<open, counted, used, snap, hv, budget>>

OpError(th) ==
  /\ Pc(th) = "op_err"
  /\ s' = IncErr(s)
  /\ Goto(th, "op_cat")
  /\ UNCHANGED <<open, counted, used, g, snap, hv, budget>>

OpCategory(th) ==
  /\ Pc(th) = "op_cat"
  /\ LET c == Category(ReadOnly, thr[th].t, thr[th].tr) IN
     /\ s' = IF Bug = "TwoCategories" /\ {"stale", "auth"} \subseteq thr[th].tr
             THEN IncCat(IncCat(s, "STALE"), "AUTH") ELSE IncCat(s, c)
     /\ g' = [g EXCEPT !.unk = @ + (IF c \in Cats THEN 0 ELSE 1), !.failed = @ + 1, !.opsDone = @ + 1]
  /\ Set(th, L0)
  /\ UNCHANGED <<open, counted, used, snap, hv, budget>>

-----------------------------------------------------------------------------
(* connections: the accept loop registers, then records; the connection's exit records, then unregisters   *)
AtLimit == MaxConn > 0 /\ Cardinality(open) >= MaxConn

Accept(th) == \E k \in Conns \ used :
  /\ Start(th, "conn")
  /\ used' = used \cup {k}
  /\ IF AtLimit
     THEN /\ s' = ConnReject(s) /\ g' = [g EXCEPT !.rejected = @ + 1]
          /\ UNCHANGED <<thr, open>>
     ELSE /\ open' = open \cup {k}
          /\ s' = IncTConn(s) /\ g' = [g EXCEPT !.accepted = @ + 1]
          /\ Set(th, [L0 EXCEPT !.pc = "acc", !.k = k])
  /\ UNCHANGED <<counted, snap, hv>>

AcceptActive(th) ==
  /\ Pc(th) = "acc"
  /\ s' = IncActive(s)
  /\ counted' = counted \cup {thr[th].k}
  /\ Set(th, L0)
  /\ UNCHANGED <<open, used, g, snap, hv, budget>>

\* close: metrics first, then the server's own count (Bug "UnregFirst": the other order)
CloseBegin(th) == \E k \in counted :
  /\ Pc(th) = "idle" /\ "conn" \in Kinds
  /\ \A o \in Th : ~(Pc(o) = "cls" /\ thr[o].k = k)
  /\ IF Bug = "UnregFirst"
     THEN open' = open \ {k} /\ UNCHANGED <<s, counted, g>>
     ELSE /\ s' = IF Bug = "ForgottenDecrement" /\ k = 2 THEN s ELSE ConnClose(s)
          /\ counted' = counted \ {k} /\ g' = [g EXCEPT !.closed = @ + 1] /\ open' = open
  /\ Set(th, [L0 EXCEPT !.pc = "cls", !.k = k])
  /\ UNCHANGED <<used, snap, hv, budget>>

CloseEnd(th) ==
  /\ Pc(th) = "cls"
  /\ IF Bug = "UnregFirst"
     THEN s' = ConnClose(s) /\ counted' = counted \ {thr[th].k} /\ g' = [g EXCEPT !.closed = @ + 1] /\ open' = open
     ELSE open' = open \ {thr[th].k} /\ UNCHANGED <<s, counted, g>>
  /\ Set(th, L0)
  /\ UNCHANGED <<used, snap, hv, budget>>

-----------------------------------------------------------------------------
(* rate-limit denial, RecordError, RecordTimeout                             *)
RateLimited(th) ==
  /\ Start(th, "rl")
  /\ s' = IF RLInErr THEN RecError(s, "RATELIMIT") ELSE RecRateLimit(s)
  /\ g' = [g EXCEPT !.rl = @ + 1, !.rlDirect = @ + (IF RLInErr THEN 0 ELSE 1)]
  /\ UNCHANGED <<thr, open, counted, used, snap, hv>>

RecErrBegin(th) == \E c \in ErrCats :
  /\ Start(th, "recerr")
  /\ s' = IncErr(s)
  /\ Set(th, [L0 EXCEPT !.pc = "re", !.c = c])
  /\ UNCHANGED <<open, counted, used, g, snap, hv>>

RecErrCat(th) ==
  /\ Pc(th) = "re"
  /\ s' = IncCat(s, thr[th].c)
  /\ g' = [g EXCEPT !.unk = @ + (IF thr[th].c \in Cats THEN 0 ELSE 1), !.recerr = @ + 1]
  /\ Set(th, L0)
  /\ UNCHANGED <<open, counted, used, snap, hv, budget>>

TimeoutBegin(th) == \E t \in ToTypes :
  /\ Start(th, "timeout")
  /\ s' = IncTot(s)
  /\ Set(th, [L0 EXCEPT !.pc = "to", !.t = t])
  /\ g' = [g EXCEPT !.otherTo = @ + (IF t \in TOps THEN 0 ELSE 1)]
  /\ UNCHANGED <<open, counted, used, snap, hv>>

TimeoutTyped(th) ==
  /\ Pc(th) = "to"
  /\ s' = IncTo(s, thr[th].t)
  /\ Set(th, L0)
  /\ UNCHANGED <<open, counted, used, g, snap, hv, budget>>

-----------------------------------------------------------------------------
(* cache hit / miss                                                          *)
CacheBegin(th) == \E c \in CacheSet, hit \in BOOLEAN :
  /\ Start(th, "cache")
  /\ s' = IF (Bug = "NegSwapped" /\ c = "neg") = hit THEN IncMiss(s, c) ELSE IncHit(s, c)
  /\ Set(th, [L0 EXCEPT !.pc = "c1", !.c = c, !.e = hit])
  /\ g' = IF hit THEN [g EXCEPT !.hitN[c] = @ + 1] ELSE [g EXCEPT !.missN[c] = @ + 1]
  /\ UNCHANGED <<open, counted, used, snap, hv>>

\* as coded: two atomic loads, then the store under the mutex
CacheLoadH(th) ==
  /\ Pc(th) = "c1" /\ ~AtomicRate
  /\ Set(th, [thr[th] EXCEPT !.pc = "c2", !.h = s.hits[thr[th].c]])
  /\ UNCHANGED <<s, open, counted, used, g, snap, hv, budget>>
CacheLoadM(th) ==
  /\ Pc(th) = "c2"
  /\ Set(th, [thr[th] EXCEPT !.pc = "c3", !.m = s.misses[thr[th].c]])
  /\ UNCHANGED <<s, open, counted, used, g, snap, hv, budget>>
CacheStore(th) ==
  /\ Pc(th) = "c3"
  /\ s' = StoreRate(s, thr[th].c, thr[th].h, thr[th].m)
  /\ Set(th, L0)
  /\ UNCHANGED <<open, counted, used, g, snap, hv, budget>>
\* repaired: loads and store in one critical section
CacheStoreAtomic(th) ==
  /\ Pc(th) = "c1" /\ AtomicRate
  /\ s' = StoreRate(s, thr[th].c, s.hits[thr[th].c], s.misses[thr[th].c])
  /\ Set(th, L0)
  /\ UNCHANGED <<open, counted, used, g, snap, hv, budget>>

-----------------------------------------------------------------------------
(* GetMetrics: the copy is made under both locks, so the lock-protected fields (active, rates, latency stats) *)
(* are read together; the atomically updated counters are plain loads that writers overtake                  *)
SnapBegin(th) ==
  /\ Start(th, "snap")
  /\ Set(th, [L0 EXCEPT !.pc = "g1", !.sv = [lo |-> Ctr(s), lk |-> Locked(s)]])
  /\ UNCHANGED <<s, open, counted, used, g, snap, hv>>

SnapEnd(th) ==
  /\ Pc(th) = "g1"
  /\ LET sv == thr[th].sv IN
     snap' = [v |-> [Ctr(s) EXCEPT !.total = sv.lo.total], lk |-> sv.lk, lo |-> sv.lo, hi |-> Ctr(s), set |-> TRUE]
  /\ Set(th, L0)
  /\ UNCHANGED <<s, open, counted, used, g, hv, budget>>

(* IsHealthy: two critical sections                                          *)
HealthBegin(th) ==
  /\ Start(th, "health")
  /\ IF WinHealthy(s.win)
     THEN Set(th, [L0 EXCEPT !.pc = "h1", !.sv = HState(s)]) /\ hv' = hv
     ELSE hv' = [res |-> FALSE, clean |-> TRUE, at |-> HState(s), set |-> TRUE] /\ thr' = thr
  /\ UNCHANGED <<s, open, counted, used, g, snap>>

HealthEnd(th) ==
  /\ Pc(th) = "h1"
  /\ hv' = [res |-> IF Bug = "HealthIgnoresLatency" THEN TRUE ELSE LatHealthy(s.lat),
            clean |-> (HState(s) = thr[th].sv), at |-> HState(s), set |-> TRUE]
  /\ Set(th, L0)
  /\ UNCHANGED <<s, open, counted, used, g, snap, budget>>

-----------------------------------------------------------------------------
Step(th) ==
  \/ OpBegin(th) \/ OpTyped(th) \/ OpResult(th) \/ OpLatency(th) \/ OpError(th) \/ OpCategory(th)
  \/ Accept(th) \/ AcceptActive(th) \/ CloseBegin(th) \/ CloseEnd(th)
  \/ RateLimited(th) \/ RecErrBegin(th) \/ RecErrCat(th) \/ TimeoutBegin(th) \/ TimeoutTyped(th)
  \/ CacheBegin(th) \/ CacheLoadH(th) \/ CacheLoadM(th) \/ CacheStore(th) \/ CacheStoreAtomic(th)
  \/ SnapBegin(th) \/ SnapEnd(th) \/ HealthBegin(th) \/ HealthEnd(th)

Next == \E th \in Th : Step(th)
Spec == Init /\ [][Next]_vars

-----------------------------------------------------------------------------
(* invariants                                                               *)
At(S) == Cardinality({th \in Th : Pc(th) \in S})
Min(a, b) == IF a < b THEN a ELSE b

TypeOK ==
  /\ s.total \in Nat /\ s.err \in Nat /\ s.tot \in Nat /\ s.tconn \in Nat /\ s.rej \in Nat /\ s.active \in Nat
  /\ \A t \in NamedOps : s.op[t] \in Nat
  /\ \A c \in Cats : s.cat[c] \in Nat
  /\ \A c \in Caches : s.hits[c] \in Nat /\ s.misses[c] \in Nat
  /\ counted \subseteq open /\ open \subseteq used /\ budget \in 0..Budget

\* TotalOperations = sum of the typed counters (+ calls with an unlisted type), up to the calls between the two adds
OpAccounting ==
  s.total = SumOp(s) + g.other + Cardinality({th \in Th : Pc(th) = "op_t" /\ thr[th].t \in NamedOps})
TotalsAgree == Quiescent => s.total = SumOp(s) + g.other

\* every failed operation / RecordError call counts once in ErrorCount and in at most one category;
\* as coded RecordRateLimitExceeded counts in its category without counting in ErrorCount
ErrAccounting == s.err + g.rlDirect = SumCat(s) + g.unk + At({"op_cat", "re"})
EveryFailureCounted == Quiescent => s.err = g.failed + g.recerr + (g.rl - g.rlDirect)
\* what a reader of the struct expects: ErrorCount is the total of the error section
ErrTotalsAgree == Quiescent => s.err = SumCat(s) + g.unk

TimeoutAccounting == s.tot = SumTo(s) + g.otherTo + Cardinality({th \in Th : Pc(th) = "to" /\ thr[th].t \in TOps})

\* one result per completed operation, rings bounded
WindowAccounting == /\ Len(s.win) = Min(Cap, g.results)
                    /\ g.results = g.opsDone + At({"op_res", "op_err", "op_cat"})
LatencyOK == \A t \in LatOps : LatConsistent(s.lat[t])

\* connections
ConnAccounting == /\ s.tconn = g.accepted /\ s.rej = g.rejected
                  /\ s.active = Cardinality(counted)
ActiveBound == /\ s.active <= Cardinality(open)
               /\ MaxConn > 0 => (Cardinality(open) <= MaxConn /\ s.active <= MaxConn)
ActiveQuiescent == Quiescent => (s.active = g.accepted - g.closed /\ s.active = Cardinality(open))

\* hit rates
RatesGenuineInv == RatesGenuine(s)
RatesQuiescent == Quiescent => RatesConsistent(s)         \* holds with AtomicRate only
HitMissMeaning == \A c \in Caches : s.hits[c] = g.hitN[c] /\ s.misses[c] = g.missN[c]

\* GetMetrics: every field lies between its value when the call began and its value when it returned;
\* the lock-protected groups are one cut
InRange(a, lo, hi) == lo <= a /\ a <= hi
SnapBounded == snap.set =>
  /\ InRange(snap.v.total, snap.lo.total, snap.hi.total) /\ InRange(snap.v.err, snap.lo.err, snap.hi.err)
  /\ \A t \in NamedOps : InRange(snap.v.op[t], snap.lo.op[t], snap.hi.op[t])
  /\ \A c \in Cats : InRange(snap.v.cat[c], snap.lo.cat[c], snap.hi.cat[c])
  /\ InRange(snap.v.tconn, snap.lo.tconn, snap.hi.tconn)
  /\ \A t \in LatOps : LatConsistent(snap.lk.lat[t])
\* ActiveConnections is copied before TotalConnections is loaded, and a connection counts in the total first
SnapConn == snap.set => (snap.lk.active <= snap.v.tconn /\ (MaxConn > 0 => snap.lk.active <= MaxConn))
\* what "a consistent snapshot" would mean for the operation counters: a cut has total >= sum of typed (the total is
\* added first).  NOT promised by the code (plain loads of atomics): used as a non-vacuity run
SnapIsCut == snap.set => snap.v.total >= SumOver(snap.v.op, NamedOps)

\* IsHealthy is the documented function of the state when nothing moved in between
HealthFn == (hv.set /\ hv.clean) => hv.res = (WinHealthy(hv.at.win) /\ LatHealthy(hv.at.lat))

\* counters never decrease
Mono(a, b) ==
  /\ a.total <= b.total /\ a.err <= b.err /\ a.tot <= b.tot /\ a.tconn <= b.tconn /\ a.rej <= b.rej
  /\ \A t \in NamedOps : a.op[t] <= b.op[t]
  /\ \A c \in Cats : a.cat[c] <= b.cat[c]
  /\ \A t \in TOps : a.to[t] <= b.to[t]
  /\ \A c \in Caches : a.hits[c] <= b.hits[c] /\ a.misses[c] <= b.misses[c]
  /\ \A t \in LatOps : a.lat[t].max <= b.lat[t].max
Monotone == [][Mono(s, s')]_vars
=============================================================================

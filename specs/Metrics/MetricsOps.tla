----------------------------- MODULE MetricsOps -----------------------------
(***************************************************************************)
(* Pure operators over the state of absnfs's MetricsCollector (metrics.go,  *)
(* metrics_api.go).  They take and return *state records*, so that the      *)
(* design spec (Metrics.tla: threads, one action per atomic instruction /   *)
(* critical section) and the trace spec (MetricsTrace.tla: one recorded     *)
(* real call per line) apply the same definitions.                          *)
(*                                                                         *)
(* A metrics state is a record                                              *)
(*   total, op[NamedOps]            TotalOperations and the eleven typed    *)
(*                                  operation counters      (atomics)       *)
(*   err, cat[Cats]                 ErrorCount and the five categories      *)
(*                                                          (atomics)       *)
(*   tot, to[TOps]                  TotalTimeouts and the eight per-type    *)
(*                                  timeout counters        (atomics)       *)
(*   tconn, rej                     TotalConnections, RejectedConnections   *)
(*                                                          (atomics)       *)
(*   active                         ActiveConnections       (mutex)         *)
(*   tls[TlsKeys]                   the eight TLS counters  (atomics)       *)
(*   hits[Caches], misses[Caches]   the collector's private hit / miss      *)
(*                                  counters                (atomics)       *)
(*   rate[Caches]                   the three hit-rate fields, kept as the  *)
(*                                  pair <<h, h+m>> they were computed from *)
(*                                  (<<0, 1>> = never written)   (mutex)    *)
(*   win                            the ring of recent results, oldest      *)
(*                                  first, TRUE = error   (latencyMutex)    *)
(*   lat[LatOps]                    [w, sum, max, p95]: ring of samples     *)
(*                                  (oldest first), their sum, the all-time *)
(*                                  maximum, the stored P95 (latencyMutex)  *)
(*                                                                         *)
(* Time is in abstract units (the trace spec uses milliseconds).            *)
(***************************************************************************)
EXTENDS Integers, Sequences, FiniteSets

CONSTANTS Cap,       \* capacity of the three rings (1000 in NewMetricsCollector)
          P95Min,    \* samples needed before P95 is computed (20)
          LatLimit   \* IsHealthy: P95 above this is unhealthy (5 s)

NamedOps == {"READ", "WRITE", "LOOKUP", "GETATTR", "CREATE", "REMOVE", "RENAME", "MKDIR", "RMDIR", "READDIR", "ACCESS"}
Cats     == {"AUTH", "ACCESS", "STALE", "RESOURCE", "RATELIMIT"}
TOps     == {"READ", "WRITE", "LOOKUP", "READDIR", "CREATE", "REMOVE", "RENAME", "HANDLE"}
Caches   == {"attr", "dir", "neg"}
LatOps   == {"READ", "WRITE"}
TlsKeys  == {"hs", "hsfail", "cert", "certok", "certrej", "reuse", "v12", "v13"}

LatInit == [w |-> <<>>, sum |-> 0, max |-> 0, p95 |-> 0]

MInit == [total |-> 0, op |-> [t \in NamedOps |-> 0],
          err |-> 0, cat |-> [c \in Cats |-> 0],
          tot |-> 0, to |-> [t \in TOps |-> 0],
          tconn |-> 0, rej |-> 0, active |-> 0,
          tls |-> [k \in TlsKeys |-> 0],
          hits |-> [c \in Caches |-> 0], misses |-> [c \in Caches |-> 0],
          rate |-> [c \in Caches |-> <<0, 1>>],
          win |-> <<>>,
          lat |-> [t \in LatOps |-> LatInit]]

-----------------------------------------------------------------------------
(* helpers                                                                  *)
RECURSIVE SumOver(_, _)
SumOver(f, S) == IF S = {} THEN 0 ELSE LET x == CHOOSE y \in S : TRUE IN f[x] + SumOver(f, S \ {x})

SumOp(s)  == SumOver(s.op, NamedOps)
SumCat(s) == SumOver(s.cat, Cats)
SumTo(s)  == SumOver(s.to, TOps)

\* a ring of capacity Cap seen as a FIFO: append, and drop the oldest entry when it overflows
Push(q, x) == LET a == Append(q, x) IN IF Len(a) > Cap THEN Tail(a) ELSE a
\* k copies of x pushed one after the other
PushN(q, x, k) ==
  IF k >= Cap THEN [i \in 1..Cap |-> x]
  ELSE LET a == q \o [i \in 1..k |-> x] IN
       IF Len(a) > Cap THEN SubSeq(a, Len(a) - Cap + 1, Len(a)) ELSE a

CountTrue(q) == Cardinality({i \in DOMAIN q : q[i]})
Rng(q) == {q[i] : i \in DOMAIN q}

\* metrics.go updateLatencyStats: sorted[int(float64(n-1) * 0.95)]; for n <= 1000 the float product
\* truncates to ((n-1)*19) div 20 (0.95 is 4.4e-17 below 19/20, less than half an ulp of the product)
P95Idx(n) == ((n - 1) * 19) \div 20
P95Of(w) ==
  LET idx == P95Idx(Len(w)) IN
  CHOOSE v \in Rng(w) : /\ Cardinality({i \in DOMAIN w : w[i] < v}) <= idx
                        /\ Cardinality({i \in DOMAIN w : w[i] <= v}) > idx

\* hit rate r = <<a, b>> equals h / (h + m)   (0 when there were no lookups)
RateEq(r, h, m) == IF h + m = 0 THEN r[1] = 0 ELSE r[1] * (h + m) = h * r[2]

-----------------------------------------------------------------------------
(* the atomic instructions and critical sections of metrics.go              *)

\* IncrementOperationCount: two separate atomic adds
IncTotal(s)   == [s EXCEPT !.total = @ + 1]
IncOp(s, t)   == IF t \in NamedOps THEN [s EXCEPT !.op[t] = @ + 1] ELSE s

\* RecordOperationResult (latencyMutex)
WinPush(s, isErr) == [s EXCEPT !.win = Push(@, isErr)]

\* RecordLatency (latencyMutex): maximum, ring, average and P95 in one critical section.
\* The maximum is all-time; average and P95 are over the ring; P95 is only written once P95Min samples exist.
LatPushRec(r, d) ==
  LET w2 == Push(r.w, d)
      ev == IF Len(r.w) = Cap THEN r.w[1] ELSE 0 IN
  [w |-> w2, sum |-> r.sum + d - ev, max |-> IF d > r.max THEN d ELSE r.max,
   p95 |-> IF Len(w2) >= P95Min THEN P95Of(w2) ELSE r.p95]
LatPush(s, t, d) == IF t \in LatOps THEN [s EXCEPT !.lat[t] = LatPushRec(@, d)] ELSE s

\* RecordError: ErrorCount, then the category (two atomic adds); an unlisted category only counts in ErrorCount
IncErr(s)     == [s EXCEPT !.err = @ + 1]
IncCat(s, c)  == IF c \in Cats THEN [s EXCEPT !.cat[c] = @ + 1] ELSE s

\* RecordTimeout: TotalTimeouts, then the per-type counter
IncTot(s)     == [s EXCEPT !.tot = @ + 1]
IncTo(s, t)   == IF t \in TOps THEN [s EXCEPT !.to[t] = @ + 1] ELSE s

\* RecordConnection: TotalConnections (atomic), then ActiveConnections under the mutex
IncTConn(s)   == [s EXCEPT !.tconn = @ + 1]
IncActive(s)  == [s EXCEPT !.active = @ + 1]
\* RecordConnectionClosed: clamped at zero
DecActive(s)  == [s EXCEPT !.active = IF @ > 0 THEN @ - 1 ELSE 0]
IncRej(s)     == [s EXCEPT !.rej = @ + 1]

IncTls(s, k)  == [s EXCEPT !.tls[k] = @ + 1]

\* Record<Cache>Hit / Miss: the atomic add; update<Cache>HitRate: load hits, load misses, store the rate under the mutex
IncHit(s, c)  == [s EXCEPT !.hits[c] = @ + 1]
IncMiss(s, c) == [s EXCEPT !.misses[c] = @ + 1]
StoreRate(s, c, h, m) == IF h + m > 0 THEN [s EXCEPT !.rate[c] = <<h, h + m>>] ELSE s

-----------------------------------------------------------------------------
(* metrics_api.go RecordOperationStart: classification of a failed operation.  traits = which of the three     *)
(* predicates isStaleFileHandle / isAuthError / isResourceError hold for the error; ro = policy.ReadOnly.       *)
Category(ro, t, traits) ==
  IF ro /\ t = "WRITE" THEN "ACCESS"
  ELSE IF "stale" \in traits THEN "STALE"
  ELSE IF "auth" \in traits THEN "AUTH"
  ELSE IF "resource" \in traits THEN "RESOURCE"
  ELSE "UNKNOWN"

-----------------------------------------------------------------------------
(* whole calls, run without interference (what one line of a sequential recorded history is)                  *)

OpStart(s, t) == IncOp(IncTotal(s), t)
\* the function RecordOperationStart returns: result ring, latency (READ / WRITE), error count and category
OpDone(s, t, isErr, ro, traits, d) ==
  LET s1 == LatPush(WinPush(s, isErr), t, d) IN
  IF isErr THEN IncCat(IncErr(s1), Category(ro, t, traits)) ELSE s1
OpCall(s, t, isErr, ro, traits, d) == OpDone(OpStart(s, t), t, isErr, ro, traits, d)

\* sum of a sequence
RECURSIVE SeqSumTo(_, _)
SeqSumTo(w, i) == IF i = 0 THEN 0 ELSE w[i] + SeqSumTo(w, i - 1)
SeqSum(w) == SeqSumTo(w, Len(w))

\* k identical calls in closed form (a batch line of a recorded history; MetricsMC checks it against OpCallN)
LatPushKRec(r, d, k) ==
  IF k = 0 THEN r
  ELSE LET w2 == PushN(r.w, d, k) IN
       [w |-> w2, sum |-> SeqSum(w2), max |-> IF d > r.max THEN d ELSE r.max,
        p95 |-> IF Len(w2) >= P95Min THEN P95Of(w2) ELSE r.p95]
LatPushK(s, t, d, k) == IF t \in LatOps THEN [s EXCEPT !.lat[t] = LatPushKRec(@, d, k)] ELSE s
OpCallK(s, t, isErr, ro, traits, d, k) ==
  LET s1 == [s EXCEPT !.total = @ + k]
      s2 == IF t \in NamedOps THEN [s1 EXCEPT !.op[t] = @ + k] ELSE s1
      s3 == LatPushK([s2 EXCEPT !.win = PushN(@, isErr, k)], t, d, k)
      c  == Category(ro, t, traits) IN
  IF ~isErr THEN s3
  ELSE LET s4 == [s3 EXCEPT !.err = @ + k] IN IF c \in Cats THEN [s4 EXCEPT !.cat[c] = @ + k] ELSE s4
\* a hits and b misses of cache c, the rate stored after the last of them
CacheAdd(s, c, a, b) ==
  LET s1 == [s EXCEPT !.hits[c] = @ + a, !.misses[c] = @ + b] IN
  IF a + b > 0 THEN StoreRate(s1, c, s1.hits[c], s1.misses[c]) ELSE s1

\* k identical calls (a batch line)
RECURSIVE OpCallN(_, _, _, _, _, _, _)
OpCallN(s, t, isErr, ro, traits, d, k) ==
  IF k = 0 THEN s ELSE OpCallN(OpCall(s, t, isErr, ro, traits, d), t, isErr, ro, traits, d, k - 1)

RecError(s, c)   == IncCat(IncErr(s), c)
RecRateLimit(s)  == IncCat(s, "RATELIMIT")          \* RecordRateLimitExceeded: the category only, NOT ErrorCount
RecTimeout(s, t) == IncTo(IncTot(s), t)
ConnOpen(s)      == IncActive(IncTConn(s))
ConnClose(s)     == DecActive(s)
ConnReject(s)    == IncRej(s)
TlsCert(s, ok)   == IncTls(IncTls(s, "cert"), IF ok THEN "certok" ELSE "certrej")
CacheRec(s, c, hit) ==
  LET s1 == IF hit THEN IncHit(s, c) ELSE IncMiss(s, c) IN StoreRate(s1, c, s1.hits[c], s1.misses[c])

-----------------------------------------------------------------------------
(* IsHealthy: the windowed error rate is at most one half and neither stored P95 exceeds the limit             *)
WinHealthy(q)  == ~(Len(q) > 0 /\ 2 * CountTrue(q) > Len(q))
LatHealthy(l)  == l["READ"].p95 <= LatLimit /\ l["WRITE"].p95 <= LatLimit
Healthy(s)     == WinHealthy(s.win) /\ LatHealthy(s.lat)

-----------------------------------------------------------------------------
(* what a reader of GetMetrics() / IsHealthy() relies on, as predicates of one state                           *)
LatConsistent(r) ==
  /\ Len(r.w) <= Cap
  /\ r.sum = SeqSum(r.w)
  /\ \A i \in DOMAIN r.w : r.w[i] <= r.max
  /\ r.p95 = IF Len(r.w) >= P95Min THEN P95Of(r.w) ELSE 0
  /\ r.p95 <= r.max
RatesConsistent(s) == \A c \in Caches : RateEq(s.rate[c], s.hits[c], s.misses[c])
\* a stored rate is always one that was true of some earlier pair of counter values
RatesGenuine(s) == \A c \in Caches : LET r == s.rate[c] IN
                     \/ r = <<0, 1>>
                     \/ r[1] <= s.hits[c] /\ r[2] - r[1] <= s.misses[c] /\ r[2] > 0 /\ r[1] >= 0
=============================================================================

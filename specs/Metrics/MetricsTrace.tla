---------------------------- MODULE MetricsTrace ----------------------------
(***************************************************************************)
(* Step validation (SV) of recorded executions of the real metrics         *)
(* collector, operations, handlers and accept loop of absnfs against        *)
(* MetricsOps (harness/vf_metrics.go writes the log).                       *)
(*                                                                         *)
(* Every line carries the call that was made, its arguments and outcome,    *)
(* and the full projection after it: "m" every scalar field of             *)
(* GetMetrics(), "healthy" IsHealthy(), "g" the collector's private hit /   *)
(* miss counters, the fill level and error count of the result ring, the    *)
(* fill levels of the latency rings, the caches' own sizes, the clock.      *)
(* The line before is the pre-state.  The contents of the three rings are   *)
(* carried by the spec itself (ghost `gs`, rebuilt from the calls) and      *)
(* compared with what the line shows of them: fill level, error count,      *)
(* average, maximum, P95 and the health verdict.                            *)
(*                                                                         *)
(* For each line: expected post-state X = <action of MetricsOps>(pre);      *)
(* every group of fields of the recorded post-state that differs from X     *)
(* goes to `bad` (with the group's name) unless a tolerated deviation,      *)
(* guarded by its exact condition, explains it (`dev`).  The run never      *)
(* stops at the first failure.                                              *)
(***************************************************************************)
EXTENDS MetricsOps, TLC, Json, IOUtils

CONSTANTS KnownDeviations   \* subset of {"OperationsNotRecorded", "ConnectionsNotRecorded", "RateLimitNotInErrorCount",
                            \*            "StaleHitRate", "SnapshotNotACut"}

TraceLog == ndJsonDeserialize(IOEnv.VF_TRACE)
N == Len(TraceLog)

VARIABLES l,      \* next line
          h,      \* reset line of the current history
          base,   \* last line that is not a sample (the pre-state of the next step)
          samp,   \* last line of any kind (samples are compared with it)
          gs,     \* ghost: [win, lw (latency rings), ls (their sums), other, otherTo, unk, rlDirect]
          bad, dev, stats
vars == <<l, h, base, samp, gs, bad, dev, stats>>

Cur == TraceLog[l]
Known(d) == d \in KnownDeviations
Tag(S) == {[l |-> l, hist |-> Cur.hist, why |-> w] : w \in S}
DevTag(S) == {[l |-> l, hist |-> Cur.hist, name |-> d] : d \in S}
Bump(k) == [stats EXCEPT ![k] = @ + 1]
SetOf(q) == {q[i] : i \in DOMAIN q}
MinOf2(a, b) == IF a < b THEN a ELSE b

GS0 == [win |-> <<>>, lw |-> [t \in LatOps |-> <<>>], ls |-> [t \in LatOps |-> 0], other |-> 0, otherTo |-> 0, unk |-> 0, rlDirect |-> 0]

\* the abstract state of a line: counters from the line, rings from the ghost
Abs(ln, g0) ==
  [total |-> ln.m.total, op |-> ln.m.op, err |-> ln.m.err, cat |-> ln.m.cat, tot |-> ln.m.tot, to |-> ln.m.to,
   tconn |-> ln.m.tconn, rej |-> ln.m.rej, active |-> ln.m.active, tls |-> ln.m.tls,
   hits |-> ln.g.hits, misses |-> ln.g.misses, rate |-> ln.m.rate,
   win |-> g0.win,
   lat |-> [t \in LatOps |-> [w |-> g0.lw[t], sum |-> g0.ls[t], max |-> ln.m.lat[t].max, p95 |-> ln.m.lat[t].p95]]]

Pre == Abs(base, gs)

FracEq(a, b) == a[1] * b[2] = b[1] * a[2]

-----------------------------------------------------------------------------
(* comparison of an expected state X with the recorded line, group by group  *)
LatShown(x, t, ln) ==
  LET n == Len(x.lat[t].w)
      sh == ln.m.lat[t] IN
  /\ ln.g.latn[t] = n
  /\ sh.max = x.lat[t].max /\ sh.maxr = 0
  /\ sh.p95 = x.lat[t].p95 /\ sh.p95r = 0
  /\ IF n = 0 THEN sh.avgq = 0 /\ sh.avgr = 0
     ELSE sh.avgq = x.lat[t].sum \div n /\ sh.avgr = ((x.lat[t].sum % n) * 1000000) \div n

HealthShown(x) == Healthy(x)

Diff(x, ln) ==
     (IF x.total # ln.m.total \/ x.op # ln.m.op THEN {"operation counters (TotalOperations / per-type) differ from the call's effect"} ELSE {})
  \cup (IF x.err # ln.m.err \/ x.cat # ln.m.cat THEN {"error counters (ErrorCount / categories) differ from the call's effect"} ELSE {})
  \cup (IF x.tot # ln.m.tot \/ x.to # ln.m.to THEN {"timeout counters differ from the call's effect"} ELSE {})
  \cup (IF x.tconn # ln.m.tconn \/ x.rej # ln.m.rej \/ x.active # ln.m.active THEN {"connection counters differ from the call's effect"} ELSE {})
  \cup (IF x.tls # ln.m.tls THEN {"TLS counters differ from the call's effect"} ELSE {})
  \cup (IF x.hits # ln.g.hits \/ x.misses # ln.g.misses THEN {"cache hit / miss counters differ from the call's effect"} ELSE {})
  \cup (IF \E c \in Caches : ~FracEq(ln.m.rate[c], x.rate[c]) THEN {"a hit-rate field differs from the call's effect"} ELSE {})
  \cup (IF Len(x.win) # ln.g.winlen \/ CountTrue(x.win) # ln.g.winerrs THEN {"the ring of recent results differs from the call's effect"} ELSE {})
  \cup (IF \E t \in LatOps : ~LatShown(x, t, ln) THEN {"latency statistics (samples / average / maximum / P95) differ from the call's effect"} ELSE {})
  \cup (IF ln.healthy # HealthShown(x) THEN {"IsHealthy is not the documented function of the window and the P95 values"} ELSE {})

\* groups of Diff a step may legitimately leave open (cache probes the step makes are not predicted)
CacheGroups == {"cache hit / miss counters differ from the call's effect", "a hit-rate field differs from the call's effect"}
OpGroup == "operation counters (TotalOperations / per-type) differ from the call's effect"
ErrGroup == "error counters (ErrorCount / categories) differ from the call's effect"
WinGroup == "the ring of recent results differs from the call's effect"
LatGroup == "latency statistics (samples / average / maximum / P95) differ from the call's effect"
ConnGroup == "connection counters differ from the call's effect"
HealthGroup == "IsHealthy is not the documented function of the window and the P95 values"

\* what every line must satisfy by itself (a quiescent moment): the relations a reader of GetMetrics() relies on
LineInv(ln, g1, maxconn) ==
     (IF ln.m.total # SumOver(ln.m.op, NamedOps) + g1.other THEN {"TotalOperations is not the sum of the per-type counters"} ELSE {})
  \cup (IF ln.m.err + g1.rlDirect # SumOver(ln.m.cat, Cats) + g1.unk THEN {"ErrorCount does not agree with the error categories"} ELSE {})
  \cup (IF ln.m.tot # SumOver(ln.m.to, TOps) + g1.otherTo THEN {"TotalTimeouts is not the sum of the per-type timeouts"} ELSE {})
  \cup (IF ln.m.active < 0 \/ ln.m.active > ln.m.tconn THEN {"ActiveConnections is negative or exceeds TotalConnections"} ELSE {})
  \cup (IF maxconn > 0 /\ ln.m.active > maxconn THEN {"ActiveConnections exceeds MaxConnections"} ELSE {})
  \cup (IF ln.g.winlen > ln.g.caps[1] \/ ln.g.winerrs > ln.g.winlen \/ ln.g.latn["READ"] > ln.g.caps[2] \/ ln.g.latn["WRITE"] > ln.g.caps[3]
           \/ ln.g.caps # <<Cap, Cap, Cap>>
        THEN {"a sample window is not bounded by its capacity"} ELSE {})
  \cup (IF ln.m.asize # ln.g.asize \/ ln.m.acap # ln.g.acap \/ ln.m.nsize # ln.g.nsize \/ ln.m.nsize > ln.m.asize \/ ln.m.asize > ln.m.acap
        THEN {"cache size fields do not match the cache"} ELSE {})
  \cup (IF ln.m.uptime # (ln.g.now - ln.g.start) \div 1000 THEN {"UptimeSeconds is not the time since StartTime"} ELSE {})

\* hit rates against the private counters, at a quiescent moment
RateBad(ln) == {c \in Caches : ~RateEq(ln.m.rate[c], ln.g.hits[c], ln.g.misses[c])}
\* ... stale but genuine: the value the counters had at some moment since the pre-state
RateWasTrue(ln, c) ==
  \E a \in base.g.hits[c]..ln.g.hits[c], b \in base.g.misses[c]..ln.g.misses[c] :
      a + b > 0 /\ ln.m.rate[c][1] * (a + b) = a * ln.m.rate[c][2]

\* counters never decrease
MonoBad(a, b) ==
  IF \/ b.m.total < a.m.total \/ b.m.err < a.m.err \/ b.m.tot < a.m.tot \/ b.m.tconn < a.m.tconn \/ b.m.rej < a.m.rej
     \/ \E t \in NamedOps : b.m.op[t] < a.m.op[t]
     \/ \E c \in Cats : b.m.cat[c] < a.m.cat[c]
     \/ \E t \in TOps : b.m.to[t] < a.m.to[t]
     \/ \E k \in TlsKeys : b.m.tls[k] < a.m.tls[k]
     \/ \E c \in Caches : b.g.hits[c] < a.g.hits[c] \/ b.g.misses[c] < a.g.misses[c]
     \/ \E t \in LatOps : b.m.lat[t].max < a.m.lat[t].max
     \/ b.m.uptime < a.m.uptime
  THEN {"a counter decreased"} ELSE {}

-----------------------------------------------------------------------------
(* expected effect of each kind of recorded call                             *)
TlsStep(s, k) == CASE k = "certok" -> TlsCert(s, TRUE)
                   [] k = "certrej" -> TlsCert(s, FALSE)
                   [] k = "vold" -> s
                   [] OTHER -> IncTls(s, k)

ApiX(e) ==
  CASE e.call = "op"      -> OpCallK(Pre, e.t, e.fail, h.ro, SetOf(e.traits), e.d, e.k)
    [] e.call = "opstart" -> OpStart(Pre, e.t)
    [] e.call = "opdone"  -> OpDone(Pre, e.t, e.fail, h.ro, SetOf(e.traits), e.d)
    [] e.call = "conn"    -> ConnOpen(Pre)
    [] e.call = "close"   -> ConnClose(Pre)
    [] e.call = "reject"  -> ConnReject(Pre)
    [] e.call = "rl"      -> RecRateLimit(Pre)
    [] e.call = "recerr"  -> RecError(Pre, e.c)
    [] e.call = "timeout" -> RecTimeout(Pre, e.t)
    [] e.call = "cache"   -> IF e.hit THEN CacheAdd(Pre, e.c, e.k, 0) ELSE CacheAdd(Pre, e.c, 0, e.k)
    [] e.call = "tls"     -> TlsStep(Pre, e.k)
    [] e.call = "lat"     -> LatPushK(Pre, e.t, e.d, e.k)
    [] e.call = "tick"    -> Pre

\* ghost tallies after an api call
ApiG(e, x) ==
  LET nOther == IF e.call = "op" /\ e.t \notin NamedOps THEN e.k
                ELSE IF e.call = "opstart" /\ e.t \notin NamedOps THEN 1 ELSE 0
      nFail  == IF e.call = "op" /\ e.fail THEN e.k ELSE IF e.call = "opdone" /\ e.fail THEN 1 ELSE 0
      nUnk   == IF e.call \in {"op", "opdone"} /\ e.fail /\ Category(h.ro, e.t, SetOf(e.traits)) \notin Cats THEN nFail
                ELSE IF e.call = "recerr" /\ e.c \notin Cats THEN 1 ELSE 0 IN
  [gs EXCEPT !.win = x.win, !.lw = [t \in LatOps |-> x.lat[t].w], !.ls = [t \in LatOps |-> x.lat[t].sum],
             !.other = @ + nOther, !.unk = @ + nUnk,
             !.otherTo = @ + (IF e.call = "timeout" /\ e.t \notin TOps THEN 1 ELSE 0)]

\* AbsfsNFS.Lookup / GetAttr / ReadDir / ReadDirPlus: which cache counters one call moves, from the status of the
\* entries it probes (read from the caches before the call)
OpsX(e) ==
  CASE e.call = "lookup" ->
         (CASE e.st = "pos" -> CacheAdd(Pre, "attr", 1, 0)
            [] e.st = "neg" -> CacheAdd(Pre, "neg", 1, 0)
            [] OTHER -> LET s1 == CacheAdd(Pre, "attr", 0, 1) IN IF e.enoent THEN CacheAdd(s1, "neg", 0, 1) ELSE s1)
    [] e.call = "getattr" ->
         (CASE e.st = "pos" -> CacheAdd(Pre, "attr", 1, 0)
            [] e.st = "neg" -> CacheAdd(Pre, "neg", 1, 0)
            [] OTHER -> CacheAdd(Pre, "attr", 0, 1))
    [] e.call = "readdir" ->
         LET s1 == CASE e.dst = "hit" -> CacheAdd(Pre, "dir", 1, 0) [] e.dst = "miss" -> CacheAdd(Pre, "dir", 0, 1) [] OTHER -> Pre
             s2 == CacheAdd(s1, "attr", e.npos, e.nmiss + e.ngone) IN
         CacheAdd(s2, "neg", e.nneg, e.ngone)
    \* ReadDirPlus probes every entry a second time after ReadDir has looked it up: an entry that was found is now
    \* cached (hit); one that is gone is now a negative entry when negative caching is on (negative hit), else a miss
    [] e.call = "readdirplus" ->
         LET s1 == CASE e.dst = "hit" -> CacheAdd(Pre, "dir", 1, 0) [] e.dst = "miss" -> CacheAdd(Pre, "dir", 0, 1) [] OTHER -> Pre
             s2 == CacheAdd(s1, "attr", 2 * e.npos + e.nmiss, e.nmiss + e.ngone + (IF h.negon THEN 0 ELSE e.ngone)) IN
         CacheAdd(s2, "neg", 2 * e.nneg + (IF h.negon THEN e.ngone ELSE 0), e.ngone)
    [] e.call = "timeout" -> IF e.timedout THEN RecTimeout(Pre, e.t) ELSE Pre
    [] OTHER -> Pre      \* backend, tick, mutate

\* hit rates at a sequential line whose probes are not predicted: consistent with the private counters
LooseCache(ln) == IF RateBad(ln) # {} THEN {"a hit-rate field is not hits / (hits + misses) of its counters"} ELSE {}

-----------------------------------------------------------------------------
Init == /\ l = 1 /\ h = [hist |-> -1, ro |-> FALSE, maxconn |-> 0, negon |-> FALSE, mode |-> "seq", kind |-> ""]
        /\ base = [m |-> <<>>] /\ samp = [m |-> <<>>] /\ gs = GS0
        /\ bad = {} /\ dev = {}
        /\ stats = [lines |-> 0, hist |-> 0, api |-> 0, ops |-> 0, srv |-> 0, conc |-> 0, samples |-> 0,
                    opsNotRecorded |-> 0, connsNotRecorded |-> 0, denied |-> 0, limited |-> 0, timedout |-> 0]

\* a history starts from a fresh collector
StepReset ==
  /\ Cur.ev = "reset"
  /\ h' = Cur /\ base' = Cur /\ samp' = Cur /\ gs' = GS0
  /\ bad' = bad \cup Tag(Diff(MInit, Cur) \cup LineInv(Cur, GS0, Cur.maxconn)
                         \cup (IF RateBad(Cur) # {} THEN {"a fresh collector shows a hit rate"} ELSE {}))
  /\ dev' = dev /\ stats' = Bump("hist")

\* a rate-limit rejection: documented as an error of category RATELIMIT (RecordError counts it in ErrorCount and in the
\* category); RecordRateLimitExceeded, which every refusal of the server uses, leaves ErrorCount alone.  ign = groups not predicted.
RLMsg == "a rate-limit rejection was counted in RateLimitExceeded but not in ErrorCount"
RLChoice(pre, ln, ign) ==
  LET di == Diff(RecError(pre, "RATELIMIT"), ln) \ ign
      dc == Diff(RecRateLimit(pre), ln) \ ign IN
  \* (decided on the error counters alone, so that another group that is wrong is reported as what it is)
  IF ErrGroup \notin di THEN [why |-> di, dev |-> {}, direct |-> 0]
  ELSE IF ErrGroup \notin dc THEN (IF Known("RateLimitNotInErrorCount") THEN [why |-> dc, dev |-> {"RateLimitNotInErrorCount"}, direct |-> 1]
                                    ELSE [why |-> dc \cup {RLMsg}, dev |-> {}, direct |-> 1])
  ELSE [why |-> di, dev |-> {}, direct |-> 0]

Finish(x, g1, why, d, k) ==
  /\ gs' = g1 /\ base' = Cur /\ samp' = Cur /\ h' = h
  /\ bad' = bad \cup Tag(why \cup LineInv(Cur, g1, h.maxconn) \cup MonoBad(base, Cur))
  /\ dev' = dev \cup DevTag(d)
  /\ stats' = Bump(k)

StepApi ==
  /\ Cur.ev = "step" /\ Cur.lvl = "api"
  /\ LET x == ApiX(Cur)
         r == IF Cur.call = "rl" THEN RLChoice(Pre, Cur, {}) ELSE [why |-> Diff(x, Cur), dev |-> {}, direct |-> 0] IN
     Finish(x, [ApiG(Cur, x) EXCEPT !.rlDirect = @ + r.direct], r.why \cup LooseCache(Cur), r.dev, "api")

StepOps ==
  /\ Cur.ev = "step" /\ Cur.lvl = "ops"
  /\ LET x == OpsX(Cur)
         d == Diff(x, Cur)
         why == (IF Cur.call = "mutate" THEN d \ CacheGroups ELSE d)
                \cup LooseCache(Cur)
                \cup (IF Cur.call = "timeout" /\ ~Cur.timedout THEN {"an operation on an expired context did not time out"} ELSE {})
         g1 == [gs EXCEPT !.otherTo = @ + (IF Cur.call = "timeout" /\ Cur.timedout /\ Cur.t \notin TOps THEN 1 ELSE 0)] IN
     Finish(x, g1, why, {}, "ops")

\* a procedure through HandleCall.  Wired in the pinned tree: a refused credential (RecordError AUTH), a rate-limit
\* refusal (RecordRateLimitExceeded); cache probes are not predicted.  Documented and not wired: the operation itself
\* (RecordOperationStart has no caller): one operation of its type, a result in the ring, and when it failed one
\* error in at most one category.
SrvNfs ==
  LET e == Cur
      wired == IF e.denied THEN RecError(Pre, "AUTH")
               ELSE IF e.limited THEN (IF e.m.err > Pre.err THEN RecError(Pre, "RATELIMIT") ELSE RecRateLimit(Pre))
               ELSE Pre
      counted == ~e.denied                   \* a call that reached its procedure
      d0 == Diff(wired, e) \ CacheGroups
      \* the documented effect on top of the wired one
      opOk == /\ e.m.total = Pre.total + 1 /\ e.m.op = IncOp(Pre, e.t).op
              /\ e.g.winlen = MinOf2(Cap, base.g.winlen + 1)
              /\ e.g.winerrs - base.g.winerrs = (IF e.fail THEN 1 ELSE 0)
              /\ e.m.err - wired.err = (IF e.fail THEN 1 ELSE 0)
              /\ SumOver(e.m.cat, Cats) - SumOver(wired.cat, Cats) \in (IF e.fail THEN {0, 1} ELSE {0})
      notRec == d0 = {}                      \* nothing but the wired effect
  IN IF ~counted THEN [why |-> d0, dev |-> {}, g |-> gs, k |-> "denied"]
     ELSE IF opOk THEN [why |-> d0 \ {OpGroup, ErrGroup, WinGroup, LatGroup, HealthGroup}, dev |-> {},
                        g |-> [gs EXCEPT !.win = Push(@, e.fail), !.other = @ + (IF e.t \in NamedOps THEN 0 ELSE 1),
                                         !.lw = [t \in LatOps |-> IF t = e.t THEN Push(@[t], 0) ELSE @[t]],   \* (the clock stands still during a call)
                                         !.unk = @ + (IF e.fail /\ SumOver(e.m.cat, Cats) = SumOver(wired.cat, Cats) THEN 1 ELSE 0)],
                        k |-> "srv"]
     ELSE IF notRec /\ Known("OperationsNotRecorded") THEN [why |-> {}, dev |-> {"OperationsNotRecorded"}, g |-> gs, k |-> "opsNotRecorded"]
     ELSE [why |-> d0 \cup {"an NFS procedure was served and no operation was recorded for it (TotalOperations, its per-type counter, the result ring and on failure ErrorCount)"},
           dev |-> {}, g |-> gs, k |-> "srv"]

\* connections through the real accept loop: accepted -> RecordConnection, rejected -> RecordRejectedConnection,
\* closed -> RecordConnectionClosed are documented and have no caller in the pinned tree
SrvConn ==
  LET e == Cur
      x == CASE e.call = "tcp.open" /\ e.accepted -> ConnOpen(Pre)
             [] e.call = "tcp.open" -> ConnReject(Pre)
             [] OTHER -> ConnClose(Pre)
      dx == Diff(x, e) \ CacheGroups
      d0 == Diff(Pre, e) \ CacheGroups
  IN IF dx = {} THEN [why |-> {}, dev |-> {}, g |-> gs, k |-> "srv"]
     ELSE IF d0 = {} /\ Known("ConnectionsNotRecorded") THEN [why |-> {}, dev |-> {"ConnectionsNotRecorded"}, g |-> gs, k |-> "connsNotRecorded"]
     ELSE [why |-> dx \cup {"the accept loop accepted, rejected or closed a connection and the connection metrics do not show it"},
           dev |-> {}, g |-> gs, k |-> "srv"]

StepSrv ==
  /\ Cur.ev = "step" /\ Cur.lvl = "srv"
  /\ LET r == CASE Cur.call = "nfs" -> SrvNfs
                [] Cur.call \in {"tcp.open", "tcp.close"} -> SrvConn
                \* MOUNT MNT and NULL over TCP: only a limiter refusal is recorded
                [] OTHER -> IF Cur.limited THEN LET c == RLChoice(Pre, Cur, CacheGroups) IN [why |-> c.why, dev |-> c.dev, g |-> gs, k |-> "limited"]
                            ELSE [why |-> Diff(Pre, Cur) \ CacheGroups, dev |-> {}, g |-> gs, k |-> "srv"]
         \* a refusal recorded the as-coded way (the category moved, ErrorCount did not)
         direct == IF Cur.call \in {"nfs", "mnt", "tcp.null"} /\ Cur.limited /\ Cur.m.err = base.m.err
                      /\ Cur.m.cat["RATELIMIT"] = base.m.cat["RATELIMIT"] + 1 THEN 1 ELSE 0
         rl == IF direct = 1 /\ Cur.call = "nfs"
               THEN (IF Known("RateLimitNotInErrorCount") THEN [why |-> {}, dev |-> {"RateLimitNotInErrorCount"}] ELSE [why |-> {RLMsg}, dev |-> {}])
               ELSE [why |-> {}, dev |-> {}]
         g1 == [r.g EXCEPT !.rlDirect = @ + direct] IN
     Finish(Pre, g1, r.why \cup rl.why \cup LooseCache(Cur), r.dev \cup rl.dev, r.k)

\* a GetMetrics() taken while the workers run: no field below the previous observation; what the locks promise
StepSample ==
  /\ Cur.ev = "sample"
  /\ LET cut == Cur.m.total >= SumOver(Cur.m.op, NamedOps)    \* the total is added before the per-type counter
         w == MonoBad(samp, Cur)
              \cup (IF Cur.m.active < 0 \/ Cur.m.active > Cur.m.tconn THEN {"a snapshot shows ActiveConnections negative or above TotalConnections"} ELSE {})
              \cup (IF Cur.g.winerrs > Cur.g.winlen \/ Cur.g.winlen > Cap THEN {"a sample window is not bounded by its capacity"} ELSE {})
              \cup (IF \E c \in Caches : Cur.m.rate[c][1] < 0 \/ Cur.m.rate[c][1] > Cur.m.rate[c][2] THEN {"a snapshot shows a hit rate outside [0, 1]"} ELSE {})
              \cup (IF ~cut /\ ~Known("SnapshotNotACut") THEN {"a snapshot shows more typed operations than TotalOperations (not a consistent cut)"} ELSE {})
     IN /\ bad' = bad \cup Tag(w)
        /\ dev' = dev \cup DevTag(IF ~cut /\ Known("SnapshotNotACut") THEN {"SnapshotNotACut"} ELSE {})
  /\ samp' = Cur /\ stats' = Bump("samples")
  /\ UNCHANGED <<h, base, gs>>

\* quiescence after a concurrent phase: every counter is its value before plus what the workers issued
StepConc ==
  /\ Cur.ev = "step" /\ Cur.lvl = "conc"
  /\ LET e == Cur
         i == e.issued
         P == e.probes
         addf(f, d, S) == [k \in S |-> f[k] + d[k]]
         cntBad ==
              (IF e.m.total # base.m.total + i.total \/ e.m.op # addf(base.m.op, i.op, NamedOps) THEN {"at quiescence the operation counters are not the sum of what was issued"} ELSE {})
           \cup (IF e.m.err \notin {base.m.err + i.err, base.m.err + i.err + i.rl} \/ e.m.cat # addf(base.m.cat, i.cat, Cats) THEN {"at quiescence the error counters are not the sum of what was issued"} ELSE {})
           \cup (IF e.m.tot # base.m.tot + i.tot \/ e.m.to # addf(base.m.to, i.to, TOps) THEN {"at quiescence the timeout counters are not the sum of what was issued"} ELSE {})
           \cup (IF e.m.tconn # base.m.tconn + i.opens \/ e.m.rej # base.m.rej + i.rejects \/ e.m.active # base.m.active + i.opens - i.closes
                 THEN {"at quiescence the connection counters are not opened - closed of what was issued"} ELSE {})
           \cup (IF \/ e.g.hits["dir"] # base.g.hits["dir"] + i.hits["dir"] \/ e.g.misses["dir"] # base.g.misses["dir"] + i.misses["dir"]
                    \/ (e.g.hits["attr"] + e.g.misses["attr"] + e.g.hits["neg"]) - (base.g.hits["attr"] + base.g.misses["attr"] + base.g.hits["neg"])
                         # i.hits["attr"] + i.misses["attr"] + i.hits["neg"] + P
                    \/ e.g.hits["attr"] < base.g.hits["attr"] + i.hits["attr"] \/ e.g.misses["attr"] < base.g.misses["attr"] + i.misses["attr"]
                    \/ e.g.hits["neg"] < base.g.hits["neg"] + i.hits["neg"]
                    \/ e.g.misses["neg"] < base.g.misses["neg"] + i.misses["neg"] \/ e.g.misses["neg"] > base.g.misses["neg"] + i.misses["neg"] + P
                 THEN {"at quiescence the cache hit / miss counters are not the sum of what was issued"} ELSE {})
         fits == base.g.winlen + i.results <= Cap
         winBad ==
              (IF e.g.winlen # MinOf2(Cap, base.g.winlen + i.results) \/ (fits /\ e.g.winerrs # base.g.winerrs + i.resulterrs)
               THEN {"at quiescence the ring of recent results does not hold one entry per completed operation"} ELSE {})
         latBad == IF \E t \in LatOps : \/ e.g.latn[t] # MinOf2(Cap, base.g.latn[t] + i.latn[t])
                                        \/ e.m.lat[t].max # base.m.lat[t].max
                                        \/ (base.g.latn[t] = 0 /\ (e.m.lat[t].avgq # 0 \/ e.m.lat[t].avgr # 0 \/ e.m.lat[t].p95 # 0))
                   THEN {"at quiescence the latency rings do not hold one sample per completed READ / WRITE"} ELSE {}
         hBad == IF e.healthy # (~(e.g.winlen > 0 /\ 2 * e.g.winerrs > e.g.winlen) /\ e.m.lat["READ"].p95 <= LatLimit /\ e.m.lat["WRITE"].p95 <= LatLimit)
                 THEN {HealthGroup} ELSE {}
         coded == i.rl > 0 /\ e.m.err = base.m.err + i.err       \* the direct rate-limit records are missing from ErrorCount
         stale == {c \in RateBad(e) : RateWasTrue(e, c)}
         rBad == IF RateBad(e) \ stale # {} THEN {"at quiescence a hit-rate field is not a value hits / (hits + misses) ever had"}
                 ELSE IF stale # {} /\ ~Known("StaleHitRate") THEN {"at quiescence a hit-rate field is stale: not hits / (hits + misses) of the final counters"}
                 ELSE {}
         g1 == [gs EXCEPT !.win = [k \in 1..e.g.winlen |-> k <= e.g.winerrs],
                          !.lw = [t \in LatOps |-> [k \in 1..e.g.latn[t] |-> 0]],
                          !.other = @ + i.otherops, !.otherTo = @ + i.otherto, !.unk = @ + i.unk,
                          !.rlDirect = @ + (IF coded THEN i.rl ELSE 0)]
     IN /\ gs' = g1 /\ base' = Cur /\ samp' = Cur /\ h' = h
        /\ bad' = bad \cup Tag(cntBad \cup winBad \cup latBad \cup hBad \cup rBad \cup LineInv(Cur, g1, h.maxconn) \cup MonoBad(samp, Cur)
                               \cup (IF coded /\ ~Known("RateLimitNotInErrorCount") THEN {RLMsg} ELSE {}))
        /\ dev' = dev \cup DevTag((IF stale # {} /\ (RateBad(e) \ stale = {}) /\ Known("StaleHitRate") THEN {"StaleHitRate"} ELSE {})
                                  \cup (IF coded /\ Known("RateLimitNotInErrorCount") THEN {"RateLimitNotInErrorCount"} ELSE {}))
        /\ stats' = Bump("conc")

Consume == /\ l <= N
           /\ l' = l + 1
           /\ (StepReset \/ StepApi \/ StepOps \/ StepSrv \/ StepSample \/ StepConc)

Done == /\ l = N + 1
        /\ l' = N + 2
        /\ JsonSerialize(IOEnv.VF_RESULT, [n |-> N, consumed |-> l - 1, bad |-> bad, dev |-> dev, drift |-> {},
                                           stats |-> [stats EXCEPT !.lines = N]])
        /\ UNCHANGED <<h, base, samp, gs, bad, dev, stats>>

Next == Consume \/ Done
Spec == Init /\ [][Next]_vars
=============================================================================

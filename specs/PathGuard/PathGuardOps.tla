---------------------------- MODULE PathGuardOps ----------------------------
(***************************************************************************)
(* C07: the backend only sees clean in-export paths; symlink targets stay   *)
(* contained.  Pure operators shared by the design spec (PathGuard) and the *)
(* trace spec (PathGuardTrace).                                            *)
(*                                                                         *)
(* A name or symlink target is a sequence of TOKENS; every token denotes a *)
(* fixed byte string (TokBytes).  All predicates of the property are       *)
(* defined on BYTE SEQUENCES, directly from the property statement:        *)
(*   ValidNameB   non-empty, at most 255 bytes, free of '/', '\' and NUL,   *)
(*                not "." and not "..";                                    *)
(*   TargetOKB    not absolute, no component (split at '/') equal to "..". *)
(* The second half transcribes what the Go code does (xdrDecodeString,     *)
(* validateFilename, sanitizePath, path.Clean / path.Join, the symlink     *)
(* target checks of handleSymlink and Readlink) on the same byte           *)
(* sequences; the design spec shows that the transcription implies the     *)
(* property, and which one-site mutations break it.                        *)
(* The recording harness never sees these definitions: it receives the     *)
(* token table (hex) dumped by TLC, sends the bytes, and logs what the      *)
(* backend was handed, hex-encoded.                                        *)
(*                                                                         *)
(* Representation.  A byte string is a sequence of SYMBOLS: an integer      *)
(* 0..255 is that byte; an integer 1000+n is a FILLER BLOCK, n consecutive   *)
(* bytes 'x' (so that names of 250, 255, 256, 4096, 8192, 8193 bytes stay   *)
(* a handful of symbols).  No predicate of the property and no step of the  *)
(* code tells one 'x' from another; only their number matters (BLen).       *)
(* Filler bytes only ever come in these blocks, so equal byte strings have  *)
(* equal representations.                                                  *)
(***************************************************************************)
EXTENDS Integers, Sequences, FiniteSets, SequencesExt

Rng(seq) == {seq[i] : i \in DOMAIN seq}

-----------------------------------------------------------------------------
(* Tokens *)
SL  == 47   \* '/'
BSL == 92   \* '\'
DOT == 46   \* '.'
FILL == 120 \* 'x', the filler byte

\* the adversarial core alphabet (enumerated exhaustively) ...
CoreTokens  == <<"a", "dot", "sl", "bs", "nul", "F250", "F5">>
\* ... and tokens used only by the long vectors and the seeded random vectors
ExtraTokens == <<"b", "sp", "ff", "uni", "col", "L4096">>
Tokens == Rng(CoreTokens) \cup Rng(ExtraTokens)

Fill(n) == <<1000 + n>>                       \* one block of n filler bytes
W(c) == IF c >= 1000 THEN c - 1000 ELSE 1      \* bytes a symbol stands for
RECURSIVE BLen(_)
BLen(b) == IF b = <<>> THEN 0 ELSE W(Head(b)) + BLen(Tail(b))   \* length in bytes

TokBytes == [t \in Tokens |->
   CASE t = "a"     -> <<97>>
     [] t = "dot"   -> <<DOT>>
     [] t = "sl"    -> <<SL>>
     [] t = "bs"    -> <<BSL>>
     [] t = "nul"   -> <<0>>
     [] t = "F250"  -> Fill(250)
     [] t = "F5"    -> Fill(5)
     [] t = "b"     -> <<98>>
     [] t = "sp"    -> <<32>>
     [] t = "ff"    -> <<255>>            \* not valid UTF-8
     [] t = "uni"   -> <<226, 136, 149>>  \* U+2215 DIVISION SLASH, a '/' look-alike
     [] t = "col"   -> <<58>>
     [] t = "L4096" -> Fill(4096)]

RECURSIVE Bytes(_)
Bytes(toks) == IF toks = <<>> THEN <<>> ELSE TokBytes[Head(toks)] \o Bytes(Tail(toks))

RECURSIVE ByteLen(_)
ByteLen(toks) == IF toks = <<>> THEN 0 ELSE BLen(TokBytes[Head(toks)]) + ByteLen(Tail(toks))

\* the vectors that reach the XDR string limit (8192 accepted, 8193 refused) and the name limit
LongVectors == << <<"L4096", "L4096">>, <<"L4096", "L4096", "a">>, <<"L4096">>,
                  <<"F250", "F5", "a">>, <<"F250", "F5">>, <<"F250", "a", "a", "a", "a">>,
                  <<"L4096", "sl", "dot", "dot">>, <<"dot", "dot", "sl", "L4096">>,
                  <<"L4096", "L4096", "nul">>, <<"F250", "F5", "bs">>, <<"F250", "dot", "dot", "sl", "a">> >>

-----------------------------------------------------------------------------
(* hex encoding (the log never carries raw bytes) *)
HexDigits == <<"0", "1", "2", "3", "4", "5", "6", "7", "8", "9", "a", "b", "c", "d", "e", "f">>
Hex2(b) == HexDigits[(b \div 16) + 1] \o HexDigits[(b % 16) + 1]

RECURSIVE RepHex(_, _)
RepHex(x, n) == IF n = 0 THEN "" ELSE IF n = 1 THEN x
                ELSE LET hlf == RepHex(x, n \div 2) IN hlf \o hlf \o (IF n % 2 = 1 THEN x ELSE "")
HexSym(c) == IF c >= 1000 THEN RepHex(Hex2(FILL), c - 1000) ELSE Hex2(c)
RECURSIVE HexB(_)
HexB(b) == IF b = <<>> THEN "" ELSE HexSym(Head(b)) \o HexB(Tail(b))

TokHex == [t \in Tokens |-> HexB(TokBytes[t])]

RECURSIVE HexOf(_)
HexOf(toks) == IF toks = <<>> THEN "" ELSE TokHex[Head(toks)] \o HexOf(Tail(toks))

-----------------------------------------------------------------------------
(* byte-string helpers *)
HasByte(b, x) == \E i \in 1..Len(b) : b[i] = x

ContainsSub2(b, x, y) == \E i \in 1..(Len(b) - 1) : b[i] = x /\ b[i + 1] = y

HasPrefixB(b, p) == Len(p) <= Len(b) /\ SubSeq(b, 1, Len(p)) = p

\* strings.Split(b, sep): "" gives one empty component
SplitB(b, sep) ==
  LET pos == <<0>> \o SetToSortSeq({i \in 1..Len(b) : b[i] = sep}, LAMBDA x, y : x < y) \o <<Len(b) + 1>>
  IN [k \in 1..(Len(pos) - 1) |-> SubSeq(b, pos[k] + 1, pos[k + 1] - 1)]

RECURSIVE JoinB(_, _)
JoinB(comps, sep) == IF comps = <<>> THEN <<>>
                     ELSE IF Len(comps) = 1 THEN comps[1]
                     ELSE comps[1] \o <<sep>> \o JoinB(Tail(comps), sep)

DOTB    == <<DOT>>
DOTDOTB == <<DOT, DOT>>

\* How the harness presents a recorded path string (and how the property reads it): one
\* leading '/' is the "absolute" flag, the rest is split at '/'; "" and "/" have no components.
SplitPath(b) ==
  LET abs  == Len(b) >= 1 /\ b[1] = SL
      rest == IF abs THEN SubSeq(b, 2, Len(b)) ELSE b
  IN [abs |-> abs, comps |-> IF rest = <<>> THEN <<>> ELSE SplitB(rest, SL)]

\* the raw string of an absolute path given by its components
PathBytes(comps) == <<SL>> \o JoinB(comps, SL)

-----------------------------------------------------------------------------
(* The property's own notions (ideal level) *)

ValidNameB(b) ==
  /\ BLen(b) >= 1
  /\ BLen(b) <= 255
  /\ \A i \in 1..Len(b) : b[i] # SL /\ b[i] # BSL /\ b[i] # 0
  /\ b # DOTB
  /\ b # DOTDOTB
ValidName(toks) == ValidNameB(Bytes(toks))

AbsoluteB(b) == Len(b) >= 1 /\ b[1] = SL
HasDotDotCompB(b) == \E c \in Rng(SplitB(b, SL)) : c = DOTDOTB
\* a symlink target the server may create: not absolute, no ".." component
TargetOKB(b) == ~AbsoluteB(b) /\ ~HasDotDotCompB(b)
TargetOK(toks) == TargetOKB(Bytes(toks))
\* a target READLINK must not hand out: relative and containing a ".." component
ReadlinkForbiddenB(b) == ~AbsoluteB(b) /\ HasDotDotCompB(b)

\* normalized components: none empty, "." or ".."
CleanCompsB(comps) == \A c \in Rng(comps) : c # <<>> /\ c # DOTB /\ c # DOTDOTB

\* what the backend may be handed in a request made with handle path h (a sequence of
\* components) and the name nm (bytes): the handle's path, or that path plus the validated name
AllowedB(h, nm) == {h} \cup (IF ValidNameB(nm) THEN {Append(h, nm)} ELSE {})

\* the same notions on hex-encoded components as they appear in the log
CleanCompsH(comps) == \A c \in Rng(comps) : c # "" /\ c # "2e" /\ c # "2e2e"
AllowedH(h, toks) == {h} \cup (IF ValidName(toks) THEN {Append(h, HexOf(toks))} ELSE {})
TargetOKH(abs, comps) == ~abs /\ \A c \in Rng(comps) : c # "2e2e"
ReadlinkForbiddenH(abs, comps) == ~abs /\ \E c \in Rng(comps) : c = "2e2e"

-----------------------------------------------------------------------------
(* Transcription of the Go code (impl level).  M is the set of switched-on   *)
(* one-site mutations (empty = the code as it is).                          *)

\* path.Clean on the components of a string (rooted or not)
RECURSIVE CleanFold(_, _, _, _)
CleanFold(rooted, comps, i, out) ==
  IF i > Len(comps) THEN out
  ELSE LET c == comps[i] IN
       IF c = <<>> \/ c = DOTB THEN CleanFold(rooted, comps, i + 1, out)
       ELSE IF c = DOTDOTB THEN
              IF out # <<>> /\ out[Len(out)] # DOTDOTB THEN CleanFold(rooted, comps, i + 1, SubSeq(out, 1, Len(out) - 1))
              ELSE IF rooted THEN CleanFold(rooted, comps, i + 1, out)
              ELSE CleanFold(rooted, comps, i + 1, Append(out, c))
       ELSE CleanFold(rooted, comps, i + 1, Append(out, c))

\* path.Clean(b) as a byte string
GoClean(b) ==
  IF b = <<>> THEN DOTB
  ELSE LET rooted == b[1] = SL
           out == CleanFold(rooted, SplitB(b, SL), 1, <<>>)
       IN IF rooted THEN <<SL>> \o JoinB(out, SL)
          ELSE IF out = <<>> THEN DOTB ELSE JoinB(out, SL)

\* path.Join(base, name): empty elements are dropped, the rest joined with '/' and cleaned
GoJoin(base, name) == IF name = <<>> THEN GoClean(base) ELSE GoClean(base \o <<SL>> \o name)

\* rpc_types.go xdrDecodeString: TRUE iff the string is delivered to the handler
XdrDecodes(b, M) == /\ BLen(b) <= 8192
                    /\ ("xdrNoNul" \in M \/ ~HasByte(b, 0))

\* nfs_operations.go validateFilename (linux): TRUE iff NFS_OK
ValidateFilename(b, M) ==
  /\ b # <<>>
  /\ BLen(b) <= (IF "limit256" \in M THEN 256 ELSE 255)
  /\ ("noNul" \in M \/ ~HasByte(b, 0))
  /\ ~HasByte(b, SL)
  /\ ("noBackslash" \in M \/ ~HasByte(b, BSL))
  /\ ("noDot" \in M \/ b # DOTB)
  /\ ("noDotDot" \in M \/ b # DOTDOTB)

\* operations.go sanitizePath(basePath, name): [ok, path]
SanitizePath(base, name) ==
  IF name = <<>> \/ HasByte(name, SL) \/ HasByte(name, BSL) \/ name = DOTB \/ name = DOTDOTB
  THEN [ok |-> FALSE, path |-> <<>>]
  ELSE LET p  == GoClean(GoJoin(base, name))
           cb == GoClean(base)
       IN IF ~HasPrefixB(p, cb) \/ ContainsSub2(p, DOT, DOT)
          THEN [ok |-> FALSE, path |-> <<>>]
          ELSE [ok |-> TRUE, path |-> p]

\* nfs_proc_create.go handleSymlink: TRUE iff the target passes the handler's checks
SymlinkTargetPasses(t, M) ==
  /\ t # <<>>
  /\ \/ "noTargetCheck" \in M
     \/ /\ ~HasPrefixB(t, <<SL>>)
        /\ IF "targetFirstCompOnly" \in M THEN SplitB(t, SL)[1] # DOTDOTB
           ELSE \A c \in Rng(SplitB(t, SL)) : c # DOTDOTB

\* operations.go Readlink: TRUE iff the stored target is returned
ReadlinkReturns(t, M) ==
  \/ "noReadlinkCheck" \in M
  \/ HasPrefixB(t, <<SL>>)
  \/ \A c \in Rng(SplitB(t, SL)) : c # DOTDOTB

=============================================================================

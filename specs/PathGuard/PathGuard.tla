------------------------------ MODULE PathGuard ------------------------------
(***************************************************************************)
(* C07 design spec: one name-taking request, from the bytes on the wire to  *)
(* the paths handed to the backend, at the grain of the code:              *)
(*                                                                         *)
(*   build     the adversary composes a token string s (all strings over    *)
(*             the core alphabet up to MaxLen are reachable)               *)
(*   Receive   s is placed in one argument slot of one procedure, with a    *)
(*             directory handle h (a clean absolute path) and, for the      *)
(*             two-string procedures, a second string from OtherNames       *)
(*   Decode    rpc_types.go xdrDecodeString on every string argument        *)
(*   Validate  nfs_operations.go validateFilename in the handler            *)
(*   Target    nfs_proc_create.go handleSymlink's target checks             *)
(*   Handler   backend calls the handler makes itself with                  *)
(*             path.Join(node.path, name)   (LOOKUP, CREATE, MKDIR, RMDIR)  *)
(*   Ops       operations.go Create / Remove / Rename / Symlink:            *)
(*             sanitizePath, then the backend call                          *)
(*   Mnt       mount_handlers.go MNT: path.Clean, prefix test, Lookup       *)
(*   Readlink  operations.go Readlink on a link whose stored target is s    *)
(*             (planted directly in the backend)                            *)
(*                                                                         *)
(* `calls` collects every raw path string handed to the backend.  The       *)
(* invariants are the property (ideal level: ValidNameB, TargetOKB from      *)
(* PathGuardOps, which know nothing of the Go code) plus the algebra the    *)
(* trace check relies on.  Mutants switches one-site mutations on; the      *)
(* non-vacuity runs show that TLC finds the violation for them.            *)
(***************************************************************************)
EXTENDS PathGuardOps, TLC, Json, IOUtils

CONSTANTS MaxLen,    \* longest token string composed
          Mutants    \* set of mutation names (see PathGuardOps); {} = the code as it is

VARIABLES s,        \* the adversarial token string
          pc,       \* stage of the request
          slot,     \* argument slot s was placed in
          h,        \* handle path (sequence of byte-string components)
          oth,      \* the other string of a two-string procedure (token string)
          calls,    \* set of [op, path]: raw path strings handed to the backend
          reply,    \* "none" | "ok" | "fail"
          created,  \* set of targets of symlinks created in the backend
          ret       \* target returned by READLINK (NoRet = none)
vars == <<s, pc, slot, h, oth, calls, reply, created, ret>>

A == <<97>>
HandlePaths == {<<>>, <<A>>, <<A, A>>, <<Fill(255), A>>}
OtherNames  == {<<"a">>, <<"dot", "dot">>, <<"a", "sl", "a">>, <<"a", "sl", "dot", "dot">>, <<>>}
NoRet == <<-1>>

NameSlots == {"LOOKUP", "CREATE", "MKDIR", "SYMLINK_NAME", "MKNOD", "REMOVE", "RMDIR", "RENAME_FROM", "LINK"}
Slots == NameSlots \cup {"SYMLINK_TARGET", "RENAME_TO", "MNT", "READLINK"}
TwoString(sl) == sl \in {"SYMLINK_NAME", "SYMLINK_TARGET", "RENAME_FROM", "RENAME_TO"}

Proc == CASE slot \in {"SYMLINK_NAME", "SYMLINK_TARGET"} -> "SYMLINK"
          [] slot \in {"RENAME_FROM", "RENAME_TO"} -> "RENAME"
          [] OTHER -> slot

S == Bytes(s)
O == Bytes(oth)
\* the name joined with h (for RENAME: the from-name), the to-name of RENAME, the target of SYMLINK
Name1  == IF slot \in {"SYMLINK_TARGET", "RENAME_TO"} THEN O ELSE S
Name2  == IF slot = "RENAME_TO" THEN S ELSE O
Target == IF slot = "SYMLINK_TARGET" THEN S ELSE O
HasName == slot \notin {"MNT", "READLINK"}

StringArgs == CASE Proc = "SYMLINK" -> {Name1, Target}
                [] Proc = "RENAME" -> {Name1, Name2}
                [] Proc = "READLINK" -> {}
                [] OTHER -> {S}

HP == PathBytes(h)
Call(op, p) == [op |-> op, path |-> p]

-----------------------------------------------------------------------------
Init == /\ s = <<>> /\ pc = "build" /\ slot = "none" /\ h = <<>> /\ oth = <<>>
        /\ calls = {} /\ reply = "none" /\ created = {} /\ ret = NoRet

Extend(t) == /\ pc = "build" /\ Len(s) < MaxLen
             /\ s' = Append(s, t)
             /\ UNCHANGED <<pc, slot, h, oth, calls, reply, created, ret>>

Receive(sl, hh, o) ==
  /\ pc = "build"
  /\ (TwoString(sl) \/ o = <<"a">>)
  /\ slot' = sl /\ h' = hh /\ oth' = o
  /\ pc' = IF sl = "READLINK" THEN "readlink" ELSE "decode"
  /\ UNCHANGED <<s, calls, reply, created, ret>>

Finish(r) == /\ reply' = r /\ pc' = "done"

\* every string argument goes through xdrDecodeString; a refused string ends the request
\* (GARBAGE_ARGS) before anything else happens.  (RENAME decodes and validates the from-name
\* before it decodes the to-name; the order only selects the error code.)
Decode ==
  /\ pc = "decode"
  /\ IF \A b \in StringArgs : XdrDecodes(b, Mutants)
     THEN /\ pc' = IF slot = "MNT" THEN "mnt" ELSE "validate"
          /\ UNCHANGED reply
     ELSE Finish("fail")
  /\ UNCHANGED <<s, slot, h, oth, calls, created, ret>>

\* the handler's validateFilename; MKNOD and LINK only consume their arguments (NOTSUPP)
Validate ==
  /\ pc = "validate"
  /\ IF Proc \in {"MKNOD", "LINK"} THEN Finish("fail")
     ELSE IF /\ (Proc = "LOOKUP" /\ "lookupNoValidate" \in Mutants) \/ ValidateFilename(Name1, Mutants)
             /\ (Proc # "RENAME" \/ ValidateFilename(Name2, Mutants))
          THEN /\ pc' = IF Proc = "SYMLINK" THEN "target" ELSE "handler"
               /\ UNCHANGED reply
          ELSE Finish("fail")
  /\ UNCHANGED <<s, slot, h, oth, calls, created, ret>>

TargetCheck ==
  /\ pc = "target"
  /\ IF SymlinkTargetPasses(Target, Mutants)
     THEN pc' = "handler" /\ UNCHANGED reply
     ELSE Finish("fail")
  /\ UNCHANGED <<s, slot, h, oth, calls, created, ret>>

\* backend calls made by the handler itself: GetAttr of the directory (Lstat of the handle's
\* path) and whatever it does with path.Join(node.path, name)
Handler ==
  /\ pc = "handler"
  /\ LET j == GoJoin(HP, Name1)
         own == CASE Proc = "LOOKUP" -> {Call("Lstat", j)}
                  [] Proc = "CREATE" -> {Call("Lstat", j), Call("Truncate", j)}
                  [] Proc = "MKDIR"  -> {Call("Mkdir", j), Call("Chown", j), Call("Lstat", j)}
                  [] Proc = "RMDIR"  -> {Call("Stat", j), Call("Remove", j)}
                  [] OTHER -> {}
     IN calls' = calls \cup {Call("Lstat", HP)} \cup own
  /\ IF Proc \in {"CREATE", "REMOVE", "RENAME", "SYMLINK"}
     THEN pc' = "ops" /\ UNCHANGED reply
     ELSE \E r \in {"ok", "fail"} : Finish(r)     \* depends on the tree
  /\ UNCHANGED <<s, slot, h, oth, created, ret>>

\* operations.go: sanitizePath, then the backend call(s)
Ops ==
  /\ pc = "ops"
  /\ LET p1 == IF "removeNoSanitize" \in Mutants /\ Proc = "REMOVE"
               THEN [ok |-> TRUE, path |-> HP \o <<SL>> \o Name1]
               ELSE SanitizePath(HP, Name1)
         p2 == SanitizePath(HP, Name2)
     IN IF ~p1.ok \/ (Proc = "RENAME" /\ ~p2.ok)
        THEN /\ Finish("fail") /\ UNCHANGED <<calls, created>>
        ELSE \/ /\ Finish("fail")      \* the backend refuses (exists, not found, ...)
                /\ calls' = calls \cup
                     (CASE Proc = "CREATE"  -> {Call("Create", p1.path)}
                        [] Proc = "REMOVE"  -> {Call("Remove", p1.path)}
                        [] Proc = "RENAME"  -> {Call("Rename", p1.path), Call("Rename", p2.path)}
                        [] Proc = "SYMLINK" -> {Call("Symlink", p1.path)})
                /\ UNCHANGED created
             \/ /\ Finish("ok")
                /\ calls' = calls \cup
                     (CASE Proc = "CREATE"  -> {Call("Create", p1.path), Call("Chmod", p1.path), Call("Chown", p1.path), Call("Lstat", p1.path)}
                        [] Proc = "REMOVE"  -> {Call("Remove", p1.path)}
                        [] Proc = "RENAME"  -> {Call("Rename", p1.path), Call("Rename", p2.path)}
                        [] Proc = "SYMLINK" -> {Call("Symlink", p1.path), Call("Lstat", p1.path), Call("Lchown", GoJoin(HP, Name1))})
                /\ created' = IF Proc = "SYMLINK" THEN created \cup {Target} ELSE created
  /\ UNCHANGED <<s, slot, h, oth, ret>>

\* MOUNT MNT: the argument is a path, not a component.  The name an export is published under
\* (AbsfsNFS.Export, here "/a") is not part of it; the code as it is does no mapping.  Mutation
\* "mntTrimExportPrefix": after the clean/absolute test the published name is stripped as a
\* STRING prefix and the remainder is looked up unvalidated ("/a../x" -> "../x", "/aa" -> "a").
ExportName == <<SL, 97>>
Mnt ==
  /\ pc = "mnt"
  /\ LET p0 == GoClean(S)
         p  == IF "mntTrimExportPrefix" \in Mutants /\ HasPrefixB(p0, ExportName)
               THEN (IF Len(p0) = Len(ExportName) THEN <<SL>> ELSE SubSeq(p0, Len(ExportName) + 1, Len(p0)))
               ELSE p0
     IN
       IF p0 # <<SL>> /\ ~HasPrefixB(p0, <<SL>>)
       THEN Finish("fail") /\ UNCHANGED calls
       ELSE /\ calls' = calls \cup {Call("Lstat", p)}
            /\ \E r \in {"ok", "fail"} : Finish(r)
  /\ UNCHANGED <<s, slot, h, oth, created, ret>>

\* READLINK on a link whose stored target is S (it did not come through the server)
Readlink ==
  /\ pc = "readlink"
  /\ calls' = calls \cup {Call("Readlink", HP)}
  /\ IF ReadlinkReturns(S, Mutants)
     THEN ret' = S /\ Finish("ok")
     ELSE Finish("fail") /\ UNCHANGED ret
  /\ UNCHANGED <<s, slot, h, oth, created>>

Done == pc = "done" /\ UNCHANGED vars

Next == \/ /\ pc = "build"      \* (guard first: the choices below are only enumerated while composing)
           /\ \/ \E t \in Rng(CoreTokens) : Extend(t)
              \/ \E sl \in Slots, hh \in HandlePaths, o \in OtherNames : Receive(sl, hh, o)
        \/ Decode \/ Validate \/ TargetCheck \/ Handler \/ Ops \/ Mnt \/ Readlink \/ Done

Spec == Init /\ [][Next]_vars

-----------------------------------------------------------------------------
(* The property *)

AllowedNow == AllowedB(h, Name1) \cup (IF Proc = "RENAME" THEN AllowedB(h, Name2) ELSE {})

\* every path handed to the backend is absolute, normalized, and the handle's path or that
\* path joined with one validated name (MNT: absolute and normalized)
PathsOK == \A c \in calls :
             LET sp == SplitPath(c.path) IN
             /\ sp.abs
             /\ CleanCompsB(sp.comps)
             /\ (slot = "MNT" \/ sp.comps \in AllowedNow)

MutatingOps == {"Create", "Mkdir", "Remove", "Rename", "Symlink", "Chown", "Lchown", "Chmod", "Truncate"}
InvalidName == HasName /\ (~ValidNameB(Name1) \/ (Proc = "RENAME" /\ ~ValidNameB(Name2)))
\* an invalid name never gets a request through
InvalidFails == (pc = "done" /\ slot # "none" /\ InvalidName) =>
                   (reply = "fail" /\ \A c \in calls : c.op \notin MutatingOps)

\* no symlink created through the server has an absolute target or a ".." component
LinksOK == \A t \in created : TargetOKB(t)

\* READLINK never returns a relative target containing ".."
ReadlinkOK == ret # NoRet => ~ReadlinkForbiddenB(ret)

(* The algebra the trace check relies on, for every composed string and every handle path *)
Algebra ==
  pc = "build" =>
    /\ \A hh \in HandlePaths :
         /\ ValidName(s) =>
              LET sp == SplitPath(GoJoin(PathBytes(hh), S)) IN
              sp.abs /\ sp.comps = Append(hh, S) /\ CleanCompsB(sp.comps)
         /\ LET r == SanitizePath(PathBytes(hh), S) IN
              r.ok => LET sp == SplitPath(r.path) IN sp.abs /\ sp.comps = Append(hh, S) /\ CleanCompsB(sp.comps)
    /\ (\E i \in DOMAIN s : s[i] \in {"sl", "bs", "nul"}) => ~ValidName(s)
    /\ (ByteLen(s) >= 256 \/ ByteLen(s) = 0) => ~ValidName(s)
    /\ (ByteLen(s) \in 1..255 /\ \A i \in DOMAIN s : s[i] \in {"a", "F250", "F5"}) => ValidName(s)
    /\ BLen(S) = ByteLen(s)
    /\ HexOf(s) = HexB(S)
    /\ ((\A i \in DOMAIN s : s[i] # "dot") /\ (s = <<>> \/ s[1] # "sl")) => TargetOK(s)
    /\ LET sp == SplitPath(GoClean(S)) IN sp.abs => CleanCompsB(sp.comps)

\* the code's validator admits nothing the property excludes (impl => ideal), ...
ValidatorSound == pc = "build" => (ValidateFilename(S, Mutants) => ValidName(s))
\* ... and on this platform it is exactly the property's notion (informative)
ValidatorExact == pc = "build" => (ValidateFilename(S, {}) <=> ValidName(s))
TargetCheckSound == pc = "build" => (SymlinkTargetPasses(S, Mutants) => TargetOKB(S))

TypeOK == /\ pc \in {"build", "decode", "validate", "target", "handler", "ops", "mnt", "readlink", "done"}
          /\ reply \in {"none", "ok", "fail"}
          /\ slot \in Slots \cup {"none"}
          /\ Len(s) <= MaxLen

-----------------------------------------------------------------------------
(* Token table for the harness: the bytes each token denotes (hex), the core alphabet in    *)
(* enumeration order, the tokens used only for long / random vectors, and the long vectors. *)
(* Written by a one-state TLC run (SPECIFICATION DumpSpec); the harness has no table of its *)
(* own.                                                                                     *)
DumpInit == /\ JsonSerialize(IOEnv.VF_PG_TOKENS,
                 [core |-> CoreTokens, extra |-> ExtraTokens, long |-> LongVectors,
                  hex |-> [t \in Tokens |-> TokHex[t]]])
            /\ Init
DumpSpec == DumpInit /\ [][UNCHANGED vars]_vars
=============================================================================

--------------------------- MODULE PathGuardTrace ---------------------------
(***************************************************************************)
(* C07: step validation of recorded requests (real handlers over the        *)
(* recording vfs backend) against the property as PathGuardOps states it.   *)
(*                                                                         *)
(* Lines of the ndjson log:                                                *)
(*   reset  a new history (fresh server, fresh backend); carries the tree   *)
(*   sync   the harness changed the backend directly (planted links,        *)
(*          restored the base tree); carries the tree                       *)
(*   req    one request: procedure, the argument slot the adversarial       *)
(*          string went into, the handle path(s) the client holds (hex      *)
(*          components), the names / target / mount path as TOKEN strings,   *)
(*          the reply status, every backend call with its path arguments    *)
(*          exactly as handed over (split at '/', hex), the READLINK result, *)
(*          and the backend tree after the request                          *)
(* Line l-1 supplies the pre-state.  Names are classified HERE (ValidName,  *)
(* TargetOK on the bytes the tokens denote); the log only says which tokens *)
(* were sent, and HexOf ties the tokens to the hex strings the backend saw. *)
(*                                                                         *)
(*   bad    ideal-level failures (the verdict)                              *)
(*   dev    steps only a listed known deviation explains (none listed)      *)
(*   drift  the recorded step differs from the transcribed code (impl       *)
(*          level; never a verdict)                                         *)
(***************************************************************************)
EXTENDS PathGuardOps, TLC, Json, IOUtils

CONSTANTS KnownDeviations

TraceLog == ndJsonDeserialize(IOEnv.VF_TRACE)
N == Len(TraceLog)

VARIABLES l, bad, dev, drift, slots, stats
vars == <<l, bad, dev, drift, slots, stats>>

Known(d) == d \in KnownDeviations

Cur      == TraceLog[l]
PreTree  == Rng(TraceLog[l - 1].tree)
PostTree == Rng(Cur.tree)
\* the snapshots list the tree in path order, so equal sequences are the common, cheap case
TreeChanged == Cur.tree # TraceLog[l - 1].tree /\ PostTree # PreTree

\* backend operations that take path arguments / operations on an already open file (their
\* "path" is the name recorded at open time, not an argument)
PathOps == {"OpenFile", "Mkdir", "Remove", "Rename", "Stat", "Lstat", "Chmod", "Chtimes", "Chown", "Lchown",
            "ReadDir", "RemoveAll", "Truncate", "Readlink", "Symlink"}
FileOps == {"ReadAt", "WriteAt", "Close", "Sync", "FStat", "Readdir", "FTruncate"}

-----------------------------------------------------------------------------
(* ideal level *)

AllowedFor(h, has, nm) == IF has THEN AllowedH(h, nm) ELSE {h}
AllowedSet == (IF Cur.hash  THEN AllowedFor(Cur.h,  Cur.hasnm,  Cur.nm)  ELSE {})
         \cup (IF Cur.hash2 THEN AllowedFor(Cur.h2, Cur.hasnm2, Cur.nm2) ELSE {})

PathBad(abs, comps) ==
       (IF ~abs THEN {"backend was handed a path that is not absolute"} ELSE {})
  \cup (IF ~CleanCompsH(comps) THEN {"backend was handed a path that is not normalized (empty, '.' or '..' component)"} ELSE {})
  \cup (IF Cur.proc # "MNT" /\ abs /\ comps \notin AllowedSet
        THEN {"backend was handed a path that is neither the handle's path nor that path joined with one validated name"} ELSE {})

CallBad(c) ==
  IF c.op \notin PathOps THEN {}
  ELSE PathBad(c.abs, c.c)
       \cup (IF c.op = "Rename" THEN PathBad(c.abs2, c.c2) ELSE {})
       \cup (IF c.op = "Symlink" /\ c.err = "" /\ ~TargetOKH(c.abs2, c.c2)
             THEN {"a symlink with an absolute target or a '..' component was created in the backend"} ELSE {})

CallsBad == UNION {CallBad(Cur.calls[i]) : i \in DOMAIN Cur.calls}

InvalidName == (Cur.hasnm /\ ~ValidName(Cur.nm)) \/ (Cur.hasnm2 /\ ~ValidName(Cur.nm2))
\* RFC 1813 lets a server treat "." in LOOKUP as the directory itself; that hands the backend
\* nothing but the handle's path, so it is accepted either way
DotLookup == Cur.proc = "LOOKUP" /\ Cur.hasnm /\ Bytes(Cur.nm) = DOTB
InvalidBad ==
  IF ~InvalidName THEN {}
  ELSE (IF Cur.ok /\ ~DotLookup THEN {"a request with an invalid name component succeeded"} ELSE {})
       \cup (IF TreeChanged THEN {"a request with an invalid name component changed the backend tree"} ELSE {})

SymlinkBad ==
  IF Cur.proc = "SYMLINK" /\ Cur.ok /\ ~TargetOK(Cur.tgt)
  THEN {"SYMLINK with an absolute target or a '..' component succeeded"} ELSE {}

\* every symbolic link that is in the backend after the request and was not there before
NewLinks == IF TreeChanged THEN {n \in PostTree : n.k = "L" /\ n \notin PreTree} ELSE {}
Moved(n) == Cur.proc = "RENAME" /\ \E m \in PreTree : m.k = "L" /\ m.th = n.th /\ m \notin PostTree
LinkBad ==
  IF \E n \in NewLinks : ~TargetOKH(n.ta, n.tc) /\ ~Moved(n)
  THEN {"a symlink with an absolute target or a '..' component appeared in the backend"} ELSE {}

ReadlinkBad ==
  IF Cur.proc = "READLINK" /\ Cur.ok /\ Cur.rl.has /\ ReadlinkForbiddenH(Cur.rl.abs, Cur.rl.c)
  THEN {"READLINK returned a relative target containing a '..' component"} ELSE {}

ReqBad == CallsBad \cup InvalidBad \cup SymlinkBad \cup LinkBad \cup ReadlinkBad

-----------------------------------------------------------------------------
(* impl level: what the transcribed code does (drift only) *)

LinkAt(tree, p) == {n \in tree : n.p = p /\ n.k = "L"}

ReqDrift ==
       (IF \E i \in DOMAIN Cur.calls : Cur.calls[i].op \notin PathOps \cup FileOps
        THEN {"unknown backend operation in the call log"} ELSE {})
  \cup (IF InvalidName /\ Cur.calls # <<>>
        THEN {"a request with an invalid name reached the backend (the code validates first)"} ELSE {})
  \cup (IF Cur.proc = "SYMLINK" /\ Cur.ok
           /\ ~\E n \in LinkAt(PostTree, Append(Cur.h, HexOf(Cur.nm))) : n.th = HexOf(Cur.tgt)
        THEN {"SYMLINK succeeded but the stored target is not the byte string sent"} ELSE {})
  \cup (IF Cur.proc = "READLINK" /\ Cur.hash /\ LinkAt(PreTree, Cur.h) # {}
        THEN LET n == CHOOSE x \in LinkAt(PreTree, Cur.h) : TRUE
                 returns == n.ta \/ \A c \in Rng(n.tc) : c # "2e2e"
             IN IF Cur.ok # returns \/ (Cur.ok /\ Cur.rl.hex # n.th)
                THEN {"READLINK outcome differs from operations.go Readlink applied to the stored target"} ELSE {}
        ELSE {})

Tag(S) == {[l |-> l, why |-> w] : w \in S}

-----------------------------------------------------------------------------
Init == /\ l = 1 /\ bad = {} /\ dev = {} /\ drift = {} /\ slots = {}
        /\ stats = [lines |-> 0, hist |-> 0, sync |-> 0, req |-> 0, calls |-> 0, pathargs |-> 0, invalid |-> 0, valid |-> 0,
                    ok |-> 0, okvalid |-> 0, newlinks |-> 0, badtgt |-> 0, rl_ok |-> 0, rl_refused |-> 0, mnt |-> 0,
                    joined |-> 0]

StepReset == /\ Cur.ev = "reset"
             /\ stats' = [stats EXCEPT !.hist = @ + 1]
             /\ UNCHANGED <<bad, dev, drift, slots>>

StepSync == /\ Cur.ev = "sync"
            /\ stats' = [stats EXCEPT !.sync = @ + 1]
            /\ UNCHANGED <<bad, dev, drift, slots>>

NPathArgs == Cardinality({i \in DOMAIN Cur.calls : Cur.calls[i].op \in PathOps})
\* backend path arguments that were a handle path joined with the validated name
NJoined == Cardinality({i \in DOMAIN Cur.calls : Cur.calls[i].op \in PathOps /\ Cur.hash
                            /\ Len(Cur.calls[i].c) = Len(Cur.h) + 1})

StepReq ==
  /\ Cur.ev = "req"
  /\ bad' = bad \cup Tag(ReqBad)
  /\ drift' = drift \cup Tag(ReqDrift)
  /\ UNCHANGED dev
  /\ slots' = slots \cup {Cur.slot}
  /\ LET named == Cur.hasnm \/ Cur.hasnm2
         inv   == InvalidName
         B(x)  == IF x THEN 1 ELSE 0
     IN stats' = [stats EXCEPT !.req = @ + 1,
                               !.calls = @ + Len(Cur.calls),
                               !.pathargs = @ + NPathArgs,
                               !.joined = @ + NJoined,
                               !.invalid = @ + B(inv),
                               !.valid = @ + B(named /\ ~inv),
                               !.ok = @ + B(Cur.ok),
                               !.okvalid = @ + B(Cur.ok /\ named /\ ~inv),
                               !.newlinks = @ + Cardinality(NewLinks),
                               !.badtgt = @ + B(Cur.proc = "SYMLINK" /\ ~TargetOK(Cur.tgt)),
                               !.rl_ok = @ + B(Cur.proc = "READLINK" /\ Cur.ok),
                               !.rl_refused = @ + B(Cur.proc = "READLINK" /\ ~Cur.ok),
                               !.mnt = @ + B(Cur.proc = "MNT")]

Consume == /\ l <= N
           /\ l' = l + 1
           /\ (StepReset \/ StepSync \/ StepReq)

Finish == /\ l = N + 1
          /\ l' = N + 2
          /\ JsonSerialize(IOEnv.VF_RESULT,
                [n |-> N, consumed |-> l - 1, bad |-> bad, dev |-> dev, drift |-> drift, slots |-> slots,
                 stats |-> [stats EXCEPT !.lines = N]])
          /\ UNCHANGED <<bad, dev, drift, slots, stats>>

Next == Consume \/ Finish
Spec == Init /\ [][Next]_vars
=============================================================================

------------------------------ MODULE Config ------------------------------
(***************************************************************************)
(* C24: runtime reconfiguration keeps the server serviceable and is        *)
(* all-or-nothing.                                                         *)
(*                                                                         *)
(* State: the configuration in force (what GetExportOptions reports),      *)
(* abstracted to classes (ConfigOps).  One action per public update call;   *)
(* the update is any record the caller can build.  The impl level is        *)
(* ApplyImpl (the code, parameterised by the set of repaired findings);     *)
(* the ideal level is Verdict on every step plus Serviceable on every       *)
(* reachable configuration.                                                *)
(***************************************************************************)
EXTENDS ConfigOps, TLC

CONSTANTS GV,     \* classes a caller can pass for a numeric field: subset of {"neg", "zero", "p1", "p2"}
          Fixed   \* set of repaired findings: subset of {"F16", "F16b", "F16c", "F16d"}

VARIABLES cfg,   \* configuration in force
          last   \* verdict of the last step (observation): [bad, dev, rejected, plain]
vars == <<cfg, last>>

NGiven == [NF -> GV]
NKeep  == [NF -> GV \cup {"keep"}]
TGiven == [TF -> GV]
TKeep  == [TF -> GV \cup {"keep"}]
NoT    == [f \in TF |-> "keep"]

ExportUpdates ==
  {[kind |-> "export", n |-> n, tp |-> tp, t |-> t, log |-> lg, rlc |-> rl, ro |-> ro, maxfs |-> mf, squash |-> sq] :
     n \in NGiven, tp \in {"nil", "set"}, t \in TGiven, lg \in {"nil", "l1"}, rl \in {"nil", "r1"},
     ro \in {"T", "F"}, mf \in {"zero", "pos"}, sq \in {"keep", "same", "other", "case"}}
TuningUpdates ==
  {[kind |-> "tuning", n |-> n, tp |-> tp, t |-> t, log |-> lg, rlc |-> "keep", ro |-> "keep", maxfs |-> "keep", squash |-> "keep"] :
     n \in NKeep, tp \in {"keep", "nil", "set"}, t \in TKeep, lg \in {"keep", "nil", "l1"}}
PolicyUpdates ==
  {[kind |-> "policy", n |-> [f \in NF |-> "keep"], tp |-> "keep", t |-> NoT, log |-> "keep", rlc |-> rl, ro |-> ro, maxfs |-> mf, squash |-> sq] :
     rl \in {"nil", "r1"}, ro \in {"T", "F"}, mf \in {"zero", "pos"}, sq \in {"same", "other", "empty", "case"}}
\* an export update with tp = "nil" carries no sub-fields: normalise so that equal updates are one
Norm(u) == IF u.tp = "set" THEN u ELSE [u EXCEPT !.t = NoT]
Updates == {Norm(u) : u \in ExportUpdates \cup TuningUpdates \cup PolicyUpdates}

Init == cfg = InitCfg /\ last = [bad |-> {}, dev |-> {}, rejected |-> FALSE, plain |-> TRUE]

\* an update of the kind the repository's tests use: every named numeric field positive, no nil
\* Timeouts from the tuning function, a RateLimitConfig where one is expected, no Squash change
Plain(u) == /\ \A f \in NF : u.n[f] \notin NonPos
            /\ \A f \in TF : u.t[f] \notin NonPos
            /\ ~(u.kind = "tuning" /\ u.tp = "nil")
            /\ u.rlc # "nil" /\ u.squash \notin {"other", "empty", "case"}

Update(u) ==
  LET post == ApplyImpl(cfg, u, Fixed)
      rej  == Rejects(cfg, u)
      v    == Verdict(cfg, u, rej, post, {}) IN     \* no deviation is excused in the design spec
  /\ cfg' = post
  /\ last' = [bad |-> v.bad, dev |-> v.dev, rejected |-> rej, plain |-> Plain(u) /\ last.plain]

Next == \E u \in Updates : Update(u)
Spec == Init /\ [][Next]_vars

-----------------------------------------------------------------------------
(* Ideal level *)
\* every step is one the property allows (defaults, all-or-nothing, report = given)
StepsConform == last.bad = {}
\* what the pinned code does guarantee: histories of plain updates conform and stay serviceable
PlainConforms == last.plain => (last.bad = {} /\ Serviceable(cfg))
\* the configuration in force always lets READ / WRITE / LOOKUP run
AlwaysServiceable == Serviceable(cfg)
\* a rejected update leaves the entire configuration unchanged
RejectedUnchanged == [][ last'.rejected => cfg' = cfg ]_vars

TypeOK == /\ \A f \in NF : cfg.n[f] \in {"def", "p1", "p2", "zero", "neg"}
          /\ \A f \in TF : cfg.t[f] \in {"def", "p1", "p2", "zero", "neg", "nilptr"}
          /\ cfg.log \in {"nil", "l1", "l2"} /\ cfg.rlc \in {"def", "r1", "r2", "nil"}
          /\ cfg.squash = "root"      \* Squash is never changed at runtime
=============================================================================

---------------------------- MODULE ConfigOps ----------------------------
(***************************************************************************)
(* Pure operators of the Config family (C24): the configuration of an      *)
(* AbsfsNFS abstracted to classes, updates (UpdateExportOptions,           *)
(* UpdateTuningOptions, UpdatePolicyOptions) as records, the transcription *)
(* of what the code does with an update (ApplyImpl) and the step rule the  *)
(* property states (Verdict).  Shared by Config.tla, ConfigGen.tla and     *)
(* ConfigTrace.tla.                                                        *)
(*                                                                         *)
(* Values.  A numeric/duration field holds one of                          *)
(*   "def"  the value New() installs when the caller passes <= 0           *)
(*   "p1", "p2"  two positive values different from the default            *)
(*   "zero", "neg"  a non-positive value (never in force in a sound server) *)
(* and a timeout sub-field may also be "nilptr" (Timeouts pointer nil).    *)
(* A caller passes "neg", "zero", "p1" or "p2"; "keep" = field not named.  *)
(***************************************************************************)
EXTENDS Integers, FiniteSets, Sequences

CONSTANTS NF,   \* names of the numeric / duration tuning fields (TransferSize, AttrCacheSize, ...)
          TF    \* names of the sub-fields of Timeouts (T_Read, ..., T_Default)

NonPos  == {"neg", "zero"}
Eff(g)  == IF g \in NonPos THEN "def" ELSE g        \* the defaulting rule of New()
IsPos(v) == v \in {"def", "p1", "p2"}

(***************************************************************************)
(* cfg = [n: NF -> value, t: TF -> value, log, rlc, ro, maxfs, squash]      *)
(*   log    "nil" | "l1" | "l2"            (construction default: nil)      *)
(*   rlc    "def" | "r1" | "r2" | "nil"    (RateLimitConfig; default: DefaultRateLimiterConfig; *)
(*          r2 = a partially filled struct, which New() keeps as given)    *)
(*   ro     "T" | "F"      maxfs "neg" | "zero" | "pos" (no default)        *)
(*   squash "root" | "all"                                                 *)
(* u = [kind, n: NF -> given|keep, tp: keep|nil|set, t: TF -> given|keep,   *)
(*      log: keep|nil|l1|l2, rlc: keep|nil|r1|r2, ro: keep|T|F,                *)
(*      maxfs: keep|neg|zero|pos, squash: keep|same|other|empty|case]       *)
(*   kind "export": every tuning and policy field is named (a whole struct),*)
(*        squash "keep" stands for Squash == "" (accepted, mode kept)        *)
(*   kind "tuning": the mutation function names a subset                    *)
(*   kind "policy": a whole PolicyOptions; squash "empty" = Squash == ""    *)
(*   squash "case" = the current mode spelled differently ("ROOT" for       *)
(*        "root"): every Squash comparison of the update path must treat it *)
(*        the same way, accepted everywhere or refused before anything is   *)
(*        applied                                                          *)
(***************************************************************************)
InitCfg == [n |-> [f \in NF |-> "def"], t |-> [f \in TF |-> "def"], log |-> "nil", rlc |-> "def",
            ro |-> "F", maxfs |-> "zero", squash |-> "root"]

\* absnfs.go UpdateExportOptions / options.go UpdatePolicyOptions: the Squash comparison
Rejects(cfg, u) ==
  CASE u.kind = "export" -> u.squash \in {"other", "case"}            \* exact string comparison: "ROOT" # "root"
    [] u.kind = "policy" -> u.squash \in {"other", "empty", "case"}   \* "" # "root"
    [] OTHER -> FALSE

Pick(keepv, g, v) == IF g = "keep" THEN keepv ELSE v

-----------------------------------------------------------------------------
(* What the code does.  fix = the set of repaired findings among            *)
(*   "F16"  zero/negative fields take the construction default,             *)
(*   "F16b" validation before any part of the update is applied,            *)
(*   "F16c" nil RateLimitConfig takes the construction default,             *)
(*   "F16d" a nil Timeouts pointer from the tuning function takes the default *)
Raw(g, fix) == IF "F16" \in fix THEN Eff(g) ELSE g

TuningPart(cfg, u, fix) ==
  [cfg EXCEPT
     !.n = [f \in NF |-> Pick(cfg.n[f], u.n[f], Raw(u.n[f], fix))],
     !.t = [f \in TF |->
              CASE u.tp = "keep" -> cfg.t[f]
                [] u.tp = "nil"  -> IF u.kind = "export" THEN cfg.t[f]      \* "preserve Timeouts ... when not provided"
                                    ELSE IF "F16d" \in fix THEN "def" ELSE "nilptr"
                [] OTHER         -> Pick((IF cfg.t[f] = "nilptr" THEN "zero" ELSE cfg.t[f]), u.t[f], Raw(u.t[f], fix))],
     !.log = CASE u.log = "keep" -> cfg.log
               [] u.log = "nil"  -> IF u.kind = "export" THEN cfg.log ELSE "nil"
               [] OTHER          -> u.log]

PolicyPart(cfg, u, fix) ==
  [cfg EXCEPT
     !.ro = Pick(cfg.ro, u.ro, u.ro),
     !.maxfs = Pick(cfg.maxfs, u.maxfs, u.maxfs),
     !.rlc = CASE u.rlc = "keep" -> cfg.rlc
               [] u.rlc = "nil"  -> IF "F16c" \in fix THEN "def" ELSE "nil"
               [] OTHER          -> u.rlc]

ApplyImpl(cfg, u, fix) ==
  CASE u.kind = "tuning" -> TuningPart(cfg, u, fix)
    [] u.kind = "policy" -> IF Rejects(cfg, u) THEN cfg ELSE PolicyPart(cfg, u, fix)
    [] OTHER -> \* export: tuning is applied first, the Squash check comes after (F16b)
       IF Rejects(cfg, u) THEN (IF "F16b" \in fix THEN cfg ELSE TuningPart(cfg, u, fix))
       ELSE PolicyPart(TuningPart(cfg, u, fix), u, fix)

-----------------------------------------------------------------------------
(* What C24 requires of one step pre --u--> post (rejected = the call returned an error). *)
(* Verdict returns [bad: set of reasons, dev: set of deviation names]; a mismatch that a    *)
(* listed deviation explains exactly goes to dev, anything else to bad.                     *)
D16  == "Dev_UpdateNonPositiveFieldStoredAsGiven"
D16b == "Dev_RejectedUpdateAppliedTuning"
D16c == "Dev_UpdateNilRateLimitConfigStored"
D16d == "Dev_TuningNilTimeoutsStored"

\* numeric field: pre value, what the update gave, post value
NumV(pre, g, post, known) ==
  IF g = "keep" THEN (IF post = pre THEN "ok" ELSE "a field the update did not name changed")
  ELSE IF g \notin NonPos THEN (IF post = g THEN "ok" ELSE "a positive value given in an update is not what GetExportOptions reports")
  ELSE IF post = "def" THEN "ok"
  ELSE IF post = g /\ D16 \in known THEN D16
  ELSE "a zero or negative field did not take the construction default"

\* timeout sub-field under the pointer mode tp
TimV(pre, tp, g, post, kind, known) ==
  CASE tp = "keep" -> (IF post = pre THEN "ok" ELSE "a field the update did not name changed")
    [] tp = "nil"  -> IF post = "def" \/ (post = pre /\ IsPos(pre)) THEN "ok"     \* default, or the value in force is kept: either
                      ELSE IF post = pre /\ post \in NonPos /\ D16 \in known THEN D16  \* a non-positive value left by F16 is kept
                      ELSE IF post = "nilptr" /\ (kind = "tuning" \/ pre = "nilptr") /\ D16d \in known THEN D16d  \* stored, or a stored nil preserved
                      ELSE "a nil Timeouts pointer did not take the construction defaults"
    [] OTHER       -> NumV((IF pre = "nilptr" THEN "zero" ELSE pre), g, post, known)

Verdict(pre, u, rejected, post, known) ==
  LET same == post = pre
      vs == IF rejected THEN
              (IF same THEN {"ok"}
               ELSE IF u.kind = "export" /\ D16b \in known
                       /\ post.ro = pre.ro /\ post.maxfs = pre.maxfs /\ post.rlc = pre.rlc /\ post.squash = pre.squash
                    THEN {D16b}       \* only tuning fields moved: the tuning half was applied before the Squash check
               ELSE {"a rejected update changed the configuration"})
            ELSE
              {NumV(pre.n[f], u.n[f], post.n[f], known) : f \in NF}
              \cup {TimV(pre.t[f], u.tp, u.t[f], post.t[f], u.kind, known) : f \in TF}
              \cup {CASE u.log = "keep" -> (IF post.log = pre.log THEN "ok" ELSE "a field the update did not name changed")
                      [] u.log = "nil"  -> (IF post.log \in {"nil", pre.log} THEN "ok" ELSE "a nil Log did not take the default")
                      [] OTHER          -> (IF post.log = u.log THEN "ok" ELSE "the Log configuration given is not what GetExportOptions reports")}
              \cup {CASE u.rlc = "keep" -> (IF post.rlc = pre.rlc THEN "ok" ELSE "a field the update did not name changed")
                      [] u.rlc = "nil"  -> (IF post.rlc = "def" THEN "ok"
                                            ELSE IF post.rlc = "nil" /\ D16c \in known THEN D16c
                                            ELSE "a nil RateLimitConfig did not take the construction default")
                      [] OTHER          -> (IF post.rlc = u.rlc THEN "ok" ELSE "the RateLimitConfig given is not what GetExportOptions reports")}
              \cup {IF post.ro = Pick(pre.ro, u.ro, u.ro) /\ post.maxfs = Pick(pre.maxfs, u.maxfs, u.maxfs)
                    THEN "ok" ELSE "ReadOnly / MaxFileSize given is not what GetExportOptions reports"}
              \cup {IF post.squash = (IF u.squash = "other" THEN "all" ELSE pre.squash)
                    THEN "ok" ELSE "Squash reported differs from the accepted update"}
      devs == vs \cap {D16, D16b, D16c, D16d}
  IN [bad |-> vs \ ({"ok"} \cup devs), dev |-> devs]

\* "the server keeps serving READ, WRITE and LOOKUP with a positive transfer size and positive timeouts"
Serviceable(cfg) == (\A f \in NF : IsPos(cfg.n[f])) /\ (\A f \in TF : IsPos(cfg.t[f]))
=============================================================================

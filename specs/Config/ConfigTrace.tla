---------------------------- MODULE ConfigTrace ----------------------------
(***************************************************************************)
(* Step validation of recorded reconfiguration histories                   *)
(* (harness/vf_config.go) against Config.                                  *)
(*                                                                         *)
(* One history = one AbsfsNFS:                                             *)
(*   reset  the options New() was called with (classes) and what           *)
(*          GetExportOptions() reports after construction                  *)
(*   upd    one UpdateExportOptions / UpdateTuningOptions /                *)
(*          UpdatePolicyOptions call: the update (classes), whether it was *)
(*          rejected, GetExportOptions() after it (classes), the sizes in  *)
(*          rejected or did not return at all (watchdog), GetExportOptions  *)
(*          force inside the attribute cache and the worker pool, and the  *)
(*          outcome of a LOOKUP, a READ of 16 KiB and a WRITE of 100 bytes *)
(* ideal level (verdict): ConfigOps!Verdict on (previous logged cfg,       *)
(*   update, this logged cfg); READ/WRITE/LOOKUP served with the reported  *)
(*   transfer size; report = in force.                                     *)
(* impl level (drift): logged cfg = ApplyImpl(previous logged cfg).        *)
(***************************************************************************)
EXTENDS ConfigOps, TLC, Json, IOUtils

CONSTANTS KnownDeviations,   \* subset of {D16, D16b, D16c, D16d}
          Fixed              \* impl-level model: set of repaired findings

TraceLog == ndJsonDeserialize(IOEnv.VF_TRACE)
N == Len(TraceLog)

VARIABLES l, bad, dev, drift, stats
vars == <<l, bad, dev, drift, stats>>

Cur == TraceLog[l]
CfgOf(c) == [n |-> [f \in NF |-> c.n[f]], t |-> [f \in TF |-> c.t[f]], log |-> c.log, rlc |-> c.rlc,
             ro |-> c.ro, maxfs |-> c.maxfs, squash |-> c.squash]
UpdOf(u) == [kind |-> u.kind, n |-> [f \in NF |-> u.n[f]], tp |-> u.tp, t |-> [f \in TF |-> u.t[f]],
             log |-> u.log, rlc |-> u.rlc, ro |-> u.ro, maxfs |-> u.maxfs, squash |-> u.squash]
Pre  == IF Cur.ev = "reset" THEN InitCfg ELSE CfgOf(TraceLog[l - 1].cfg)
Post == CfgOf(Cur.cfg)
U    == UpdOf(Cur.u)
Known(d) == d \in KnownDeviations
Tag(S) == {[l |-> l, why |-> w] : w \in S}
DevTag(S) == {[l |-> l, name |-> d] : d \in S}

-----------------------------------------------------------------------------
(* serviceability: what the probes must show for the configuration reported *)
Bad4(fields) == \E f \in fields : ~IsPos(Post.t[f])
NilT == \E f \in TF : Post.t[f] = "nilptr"
TS == Post.n["TransferSize"]
ReadCls == IF TS = "def" THEN "full" ELSE TS           \* 16 KiB asked: def (64 KiB) returns all of it, p1 / p2 clamp

\* reasons an operation may fail that the reported configuration itself shows (only under F16 / F16d)
ExplainedBy(tfields, needTS) ==
  IF NilT /\ Known(D16d) THEN {D16d}
  ELSE IF (Bad4(tfields) \/ (needTS /\ ~IsPos(TS))) /\ Known(D16) THEN {D16}
  ELSE {}

IoV ==
  LET io == Cur.io
      lookOK  == io.lookup = "OK"
      readOK  == io.read = "OK" /\ io.readcls = ReadCls
      writeOK == Post.ro = "T" \/ (io.write = "OK" /\ io.writen = 100)
      lookX  == ExplainedBy({"T_Lookup", "T_Default"}, FALSE)
      readX  == ExplainedBy({"T_Read", "T_Default"}, TRUE)
      writeX == ExplainedBy({"T_Write", "T_Default"}, TRUE)
  IN [bad |-> (IF ~lookOK /\ lookX = {} THEN {"LOOKUP is not served after the update although the reported timeouts are positive"} ELSE {})
              \cup (IF ~readOK /\ readX = {} THEN
                      (IF io.read = "OK" THEN {"READ is served with a transfer size different from the one GetExportOptions reports"}
                       ELSE {"READ is not served after the update although the reported transfer size and timeouts are positive"}) ELSE {})
              \cup (IF ~writeOK /\ writeX = {} THEN {"WRITE is not served in full after the update although the reported transfer size and timeouts are positive"} ELSE {}),
      dev |-> (IF ~lookOK THEN lookX ELSE {}) \cup (IF ~readOK THEN readX ELSE {}) \cup (IF ~writeOK THEN writeX ELSE {})]

\* "GetExportOptions reports the configuration in force": sizes read inside the components
ForceV ==
  LET chk(f, got) == IF got = Post.n[f] THEN "ok"
                     ELSE IF ~IsPos(Post.n[f]) /\ Known(D16) THEN D16     \* a non-positive size is reported, the component kept its old one
                     ELSE "GetExportOptions does not report the configuration in force"
      vs == {chk("AttrCacheSize", Cur.inforce.attr), chk("MaxWorkers", Cur.inforce.workers)}
  IN [bad |-> vs \ {"ok", D16}, dev |-> vs \cap {D16}]

Bump(k) == [stats EXCEPT ![k] = @ + 1]

Init == /\ l = 1 /\ bad = {} /\ dev = {} /\ drift = {}
        /\ stats = [lines |-> 0, hist |-> 0, updates |-> 0, rejected |-> 0, export |-> 0, tuning |-> 0, policy |-> 0, io_ok |-> 0]

Step ==
  /\ Cur.ev \in {"reset", "upd"}
  /\ LET v == Verdict(Pre, U, Cur.rejected, Post, KnownDeviations)
         io == IoV
         fc == ForceV
         model == IF Cur.ev = "reset" THEN ApplyImpl(InitCfg, U, {"F16", "F16b", "F16c", "F16d"})   \* New() defaults
                  ELSE ApplyImpl(Pre, U, Fixed)
         \* an update call that never returned (watchdog): whatever it was about to do, the server is no
         \* longer reconfigurable, and a rejected update before it did not leave things as they were
         hung == IF Cur.hung THEN {"an update call did not return: the server can no longer be reconfigured"} ELSE {} IN
     /\ bad' = bad \cup Tag((IF Cur.hung THEN {} ELSE v.bad) \cup io.bad \cup fc.bad \cup hung)
     /\ dev' = dev \cup DevTag((IF Cur.hung THEN {} ELSE v.dev) \cup io.dev \cup fc.dev)
     /\ drift' = drift \cup Tag((IF model # Post THEN {"configuration after the call differs from the transcribed update"} ELSE {})
                                \cup (IF Cur.ev = "upd" /\ Cur.rejected # Rejects(Pre, U) THEN {"rejection differs from the transcribed Squash rule"} ELSE {}))
     /\ stats' = [stats EXCEPT !.hist = @ + (IF Cur.ev = "reset" THEN 1 ELSE 0),
                               !.updates = @ + (IF Cur.ev = "upd" THEN 1 ELSE 0),
                               !.rejected = @ + (IF Cur.rejected THEN 1 ELSE 0),
                               !.export = @ + (IF Cur.ev = "upd" /\ U.kind = "export" THEN 1 ELSE 0),
                               !.tuning = @ + (IF U.kind = "tuning" THEN 1 ELSE 0),
                               !.policy = @ + (IF U.kind = "policy" THEN 1 ELSE 0),
                               !.io_ok = @ + (IF io.bad = {} /\ io.dev = {} THEN 1 ELSE 0)]

Consume == /\ l <= N
           /\ l' = l + 1
           /\ Step

Finish == /\ l = N + 1
          /\ l' = N + 2
          /\ JsonSerialize(IOEnv.VF_RESULT,
                [n |-> N, consumed |-> l - 1, bad |-> bad, dev |-> dev, drift |-> drift,
                 stats |-> [stats EXCEPT !.lines = N]])
          /\ UNCHANGED <<bad, dev, drift, stats>>

Next == Consume \/ Finish
Spec == Init /\ [][Next]_vars
=============================================================================

------------------------------ MODULE ConfigGen ------------------------------
(***************************************************************************)
(* Test-vector generation for C24 (MBT).  The update templates (a covering *)
(* array over the fields' classes, written by checks/C24.py) are read from  *)
(* IOEnv.VF_TEMPLATES; TLC enumerates every sequence of one and two         *)
(* templates and a residue class of the sequences of three, runs the        *)
(* repaired model over each and writes the sequences with the expected      *)
(* effective configuration after every step to IOEnv.VF_VECTORS.            *)
(* The harness replays them against the real AbsfsNFS.                      *)
(***************************************************************************)
EXTENDS ConfigOps, TLC, Json, IOUtils, SequencesExt

CONSTANTS MaxLen,      \* 1..3
          SampleMod,   \* sequences of three: those with (31 i + 17 j + 7 k) % SampleMod = SampleRes
          SampleRes

Templates == ndJsonDeserialize(IOEnv.VF_TEMPLATES)
NT == Len(Templates)
AllFixed == {"F16", "F16b", "F16c", "F16d"}

Seqs1 == {<<i>> : i \in 1..NT}
Seqs2 == IF MaxLen < 2 THEN {} ELSE {<<i, j>> : i \in 1..NT, j \in 1..NT}
Seqs3 == IF MaxLen < 3 THEN {} ELSE
         {s \in {<<i, j, k>> : i \in 1..NT, j \in 1..NT, k \in 1..NT} : (31 * s[1] + 17 * s[2] + 7 * s[3]) % SampleMod = SampleRes}

RECURSIVE Run(_, _, _)
Run(cfg, s, i) ==
  IF i > Len(s) THEN <<>>
  ELSE LET u == Templates[s[i]]
           post == ApplyImpl(cfg, u, AllFixed) IN
       <<[ti |-> s[i], u |-> u, rejected |-> Rejects(cfg, u), expect |-> post]>> \o Run(post, s, i + 1)

Vectors == {[seq |-> s, steps |-> Run(InitCfg, s, 1)] : s \in Seqs1 \cup Seqs2 \cup Seqs3}

ASSUME ndJsonSerialize(IOEnv.VF_VECTORS, SetToSeq(Vectors))

VARIABLE x
Init == x = 0
Next == x' = x
Spec == Init /\ [][Next]_x
=============================================================================

-------------------------------- MODULE Wire --------------------------------
(***************************************************************************)
(* C13, codec part: XDR opaque/string, file handle, RPC call header and     *)
(* AUTH_SYS body.  One behaviour = one value: it is encoded, the byte       *)
(* stream is handed to the decoder complete, cut at an arbitrary point, or  *)
(* followed by unrelated bytes, and decoded.                                *)
(*                                                                         *)
(* Layouts are the operators of WireOps (transcribed from rpc_types.go).    *)
(* The limit of the generic opaque kind is the model constant ModelLim so   *)
(* that limit-1, limit, limit+1 are reached with literal byte sequences;    *)
(* the real limits and the lengths 2^31, 2^32-1 are covered by the `cls`    *)
(* behaviours, which carry only the declared length word.                   *)
(*                                                                         *)
(* CheckLimit = FALSE models a decoder that allocates the declared length   *)
(* before testing it (the defect the bounded-allocation clause excludes);   *)
(* PadRule = "code" is the padding rule of the code, "none" a decoder that  *)
(* forgets padding (both only for the non-vacuity runs).                    *)
(***************************************************************************)
EXTENDS WireOps, TLC

CONSTANTS Alphabet,     \* byte values used for payloads, e.g. {0, 1}
          MaxLen,       \* payload lengths 0..MaxLen
          ModelLim,     \* limit of the generic opaque kind
          CheckLimit,   \* TRUE: the design / the code
          PadRule       \* "code" | "none"

VARIABLES phase,   \* "val" -> "enc" -> "inp" -> "dec"
          kind,    \* "opaque" | "str" | "fh" | "call" | "authsys" | "cls"
          val,     \* the value (for "cls": [w |-> word, avail |-> n, lim |-> n])
          bytes,   \* its encoding
          inp,     \* what the decoder is given
          res,     \* decoder result [out, used, val]
          alloc    \* ghost: size of the buffer the decoder allocates for the payload, as a word
vars == <<phase, kind, val, bytes, inp, res, alloc>>

-----------------------------------------------------------------------------
Payloads(n) == UNION {[1..m -> Alphabet] : m \in 0..n}
\* bodies inside composite values: every length with one pattern, every content up to length 3
Bodies(n) == {[i \in 1..m |-> i % 2] : m \in 0..n} \cup Payloads(IF n < 3 THEN n ELSE 3)
Word(n) == WBytes(WOf(n))

CallValues ==
  {[xid |-> x, mtype |-> Word(0), rpcvers |-> Word(2), prog |-> Word(100003), vers |-> Word(3), proc |-> pr,
    cflavor |-> Word(1), cbody |-> cb, vflavor |-> Word(0), vbody |-> vb] :
     x \in {<<255, 255, 255, 255>>}, pr \in {Word(0), Word(21)},
     cb \in Bodies(MaxLen), vb \in {<< >>, <<0, 1, 1, 0, 1>>}}
  \cup
  {[xid |-> Word(7), mtype |-> mt, rpcvers |-> Word(2), prog |-> Word(100005), vers |-> Word(1), proc |-> Word(1),
    cflavor |-> Word(0), cbody |-> << >>, vflavor |-> Word(0), vbody |-> vb] :
     mt \in {Word(0), Word(1)}, vb \in Bodies(MaxLen)}

AuthValues ==
  {[stamp |-> Word(1), machine |-> m, uid |-> u, gid |-> Word(100), gids |-> g] :
     m \in Bodies(MaxLen), u \in {Word(0), <<255, 255, 255, 254>>},
     g \in {[i \in 1..k |-> Word(i)] : k \in {0, 1, 2, 3}}}

Classes(lim) == {WOf(lim - 1), WOf(lim), WOf(lim + 1), W(32768, 0), W(65535, 65532), W(65535, 65533), W(65535, 65535)}
ClsValues ==
  UNION {{[w |-> w, avail |-> a, lim |-> lim] : w \in Classes(lim), a \in {0, lim + 3, lim + 8}} :
            lim \in {LimString, LimAuth, LimFH, LimGids, LimRecord}}

Values(k) == CASE k = "opaque"  -> Payloads(MaxLen)
               [] k = "str"     -> Payloads(MaxLen)
               [] k = "fh"      -> [1..8 -> Alphabet]
               [] k = "call"    -> CallValues
               [] k = "authsys" -> AuthValues
               [] k = "cls"     -> ClsValues

Enc(k, v) == CASE k = "opaque"  -> EncOpaque(v)
               [] k = "str"     -> EncOpaque(v)
               [] k = "fh"      -> EncFH(v)
               [] k = "call"    -> EncCall(v)
               [] k = "authsys" -> EncAuthSys(v)
               [] k = "cls"     -> WBytes(v.w)          \* only the length word is literal

\* a decoder that forgets padding consumes only the unpadded length
Unpad(r, b) == IF PadRule = "code" \/ r.out # "ok" THEN r
               ELSE [r EXCEPT !.used = 4 + Len(r.val)]

Dec(k, b) == CASE k = "opaque"  -> {Unpad(DecOpaque(b, ModelLim), b)}
               [] k = "str"     -> {Unpad(r, b) : r \in DecStringOutcomes(b)}
               [] k = "fh"      -> {DecFH(b)}
               [] k = "call"    -> {DecCall(b)}
               [] k = "authsys" -> {DecAuthSys(b)}

Lim(k) == CASE k = "opaque" -> ModelLim [] k = "str" -> LimString [] k = "fh" -> LimFH
            [] k = "call" -> LimAuth [] k = "authsys" -> LimString

\* impl level: the buffer make([]byte, n) is sized by the declared length once the limit test passed
AllocFor(w, lim) == IF CheckLimit /\ WGt(w, lim) THEN WOf(0) ELSE w

-----------------------------------------------------------------------------
Init == /\ phase = "val"
        /\ kind \in {"opaque", "str", "fh", "call", "authsys", "cls"}
        /\ val \in Values(kind)
        /\ bytes = << >> /\ inp = << >> /\ res = Fail("none") /\ alloc = WOf(0)

Encode == /\ phase = "val"
          /\ bytes' = Enc(kind, val)
          /\ phase' = "enc"
          /\ UNCHANGED <<kind, val, inp, res, alloc>>

Trailer == <<170, 85, 1>>

\* the environment: complete, cut anywhere, or followed by other bytes
Present == /\ phase = "enc" /\ kind # "cls"
           /\ \/ \E c \in 0..Len(bytes) : inp' = SubSeq(bytes, 1, c)
              \/ inp' = bytes \o Trailer
           /\ phase' = "inp"
           /\ UNCHANGED <<kind, val, bytes, res, alloc>>

Decode == /\ phase = "inp"
          /\ res' \in Dec(kind, inp)
          /\ alloc' = IF kind \in {"opaque", "str"} /\ Len(inp) >= 4 THEN AllocFor(WAt(inp, 1), Lim(kind)) ELSE WOf(0)
          /\ phase' = "dec"
          /\ UNCHANGED <<kind, val, bytes, inp>>

\* a declared length of one of the boundary classes meets a decoder with limit val.lim
DecodeCls == /\ phase = "enc" /\ kind = "cls"
             /\ res' = [out |-> Outcome(val.w, val.avail, val.lim), used |-> 0, val |-> << >>]
             /\ alloc' = AllocFor(val.w, val.lim)
             /\ inp' = bytes
             /\ phase' = "dec"
             /\ UNCHANGED <<kind, val, bytes>>

Next == Encode \/ Present \/ Decode \/ DecodeCls
Spec == Init /\ [][Next]_vars

-----------------------------------------------------------------------------
TypeOK == /\ phase \in {"val", "enc", "inp", "dec"}
          /\ \A i \in DOMAIN bytes : bytes[i] \in 0..255
          /\ IsW(alloc)

Done == phase = "dec"
Whole == inp = bytes
Extra == Len(inp) > Len(bytes)
Cut   == Len(inp) < Len(bytes)
OverLimit == kind = "opaque" /\ Len(val) > ModelLim
MaybeNul == kind = "str" /\ HasNul(val)
BadType == kind = "call" /\ val.mtype # <<0, 0, 0, 0>>

\* every encoding is a whole number of XDR units
Aligned == phase # "val" /\ kind # "cls" => Len(bytes) % 4 = 0

\* Dec(Enc(x)) = x, consuming exactly the padded length, also when other bytes follow
RoundTrip ==
  Done /\ kind # "cls" /\ (Whole \/ Extra) /\ ~OverLimit /\ ~BadType =>
     \/ res.out = "ok" /\ res.val = val /\ res.used = Len(bytes)
     \/ MaybeNul /\ res.out = "reject_nul"

\* a truncated input is never decoded to a value
NoValueFromPrefix ==
  Done /\ kind # "cls" /\ Cut /\ ~OverLimit /\ ~BadType => res.out = "short"

\* over the limit: refused whatever follows, and nothing of the declared size is allocated
LimitRefused ==
  Done /\ OverLimit /\ Len(inp) >= 4 => res.out = "reject_limit"
ClsDecision ==
  Done /\ kind = "cls" =>
     /\ (WGt(val.w, val.lim) <=> res.out = "reject_limit")
     /\ (res.out = "ok" => ~WGt(val.w, val.lim) /\ val.avail >= WVal(val.w) + Pad(WVal(val.w)))
AllocBounded ==
  Done => ~WGt(alloc, IF kind = "cls" THEN val.lim ELSE Lim(kind))

BadTypeRefused == Done /\ BadType /\ Len(inp) >= 8 => res.out = "reject_type"
=============================================================================

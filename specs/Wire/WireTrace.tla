----------------------------- MODULE WireTrace -----------------------------
(***************************************************************************)
(* C13: validation of what the real encoders / decoders / record-marking    *)
(* reader and writer did (harness/vf_wire.go) against the layout operators  *)
(* of WireOps.  One line = one call of one codec function; the expectation  *)
(* is recomputed here from the logged input, never taken from the harness.  *)
(*   bad   : the code contradicts the property (verdict)                    *)
(*   drift : the code differs from the transcription in a way the property  *)
(*           does not care about (error class, bytes consumed on failure)   *)
(***************************************************************************)
EXTENDS WireOps, TLC, Json, IOUtils

CONSTANTS KnownDeviations

TraceLog == ndJsonDeserialize(IOEnv.VF_TRACE)
N == Len(TraceLog)

VARIABLES l, bad, dev, drift, stats
vars == <<l, bad, dev, drift, stats>>

Cur == TraceLog[l]
Tag(S) == {[l |-> l, why |-> w] : w \in S}
If(c, w) == IF c THEN {w} ELSE {}

-----------------------------------------------------------------------------
(* enc *)
EncBad ==
  LET want == IF Cur.k = "str" THEN EncOpaque(Cur.val) ELSE EncFH(Cur.val) IN
  If(Cur.got # want, "encoder output differs from the XDR layout of the value")

(* dec *)
DecExp == CASE Cur.k = "str"     -> DecOpaque(Cur.in, LimString)
            [] Cur.k = "fh"      -> DecFH(Cur.in)
            [] Cur.k = "call"    -> DecCall(Cur.in)
            [] Cur.k = "authsys" -> DecAuthSys(Cur.in)
DecGot == CASE Cur.k \in {"str", "fh"} -> Cur.val
            [] Cur.k = "call"          -> Cur.cval
            [] Cur.k = "authsys"       -> Cur.aval
NulString(e) == Cur.k = "str" /\ e.out = "ok" /\ HasNul(e.val)
DecBad ==
  LET e == DecExp IN
     (IF e.out = "ok" THEN
         IF Cur.out = "ok" THEN
              If(DecGot # e.val, "decoded value differs from what was encoded")
              \cup If(Cur.usedk /\ Cur.used # e.used, "decoder did not consume exactly the padded length")
         ELSE If(~NulString(e), "well-formed input within the limits was refused")
      ELSE If(Cur.out = "ok", IF e.out = "reject_limit" THEN "length beyond the documented limit was accepted"
                              ELSE "a value was decoded from an input the layout does not accept (truncated or malformed)"))
  \* a well-formed handle (<= 64 bytes, all of it present) that is refused for its size: the decoder may stop after the
  \* length word or skip the whole padded handle, it must not stop inside the padded value (off the XDR unit boundary)
  \cup If(e.out = "reject_len" /\ Cur.out # "ok" /\ Cur.usedk /\ Cur.used \notin {4, e.used},
          "refused handle was not skipped by exactly its padded length (stream left inside the padded value)")
  \cup If(Cur.alloc > AllocBound(e.out, Len(Cur.in), 4), "decode allocated more than the documented bound allows")
DecDrift ==
  LET e == DecExp IN
  If(e.out # "ok" /\ Cur.out # "ok" /\ Cur.out # "reject" /\ Cur.out # e.out, "error class differs from the transcription")
  \cup If(e.out = "reject_len" /\ Cur.usedk /\ Cur.used = 4, "a wrong-length handle is refused without being skipped")

(* cls: declared length classes; only the length word is literal *)
ClsExp ==
  CASE Cur.k \in {"str", "machine", "cred", "verf"} -> Outcome(Cur.w, Cur.avail, Cur.lim)
    [] Cur.k = "fh"   -> IF WGt(Cur.w, LimFH) THEN "reject_limit"
                         ELSE IF WVal(Cur.w) # 8 THEN "reject_len"
                         ELSE IF Cur.avail < 8 THEN "short" ELSE "ok"
    [] Cur.k = "gids" -> IF WGt(Cur.w, LimGids) THEN "reject_limit"
                         ELSE IF Cur.avail < 4 * WVal(Cur.w) THEN "short" ELSE "ok"
ClsUsed == LET n == WVal(Cur.w) IN
           CASE Cur.k = "str" -> 4 + n + Pad(n) [] Cur.k = "fh" -> 12
             [] Cur.k \in {"cred", "verf"} -> n + Pad(n) [] OTHER -> 0
ClsUnit == IF Cur.k = "gids" THEN 4 ELSE 1
ClsBad ==
  LET e == ClsExp IN
     (IF e = "ok" THEN
         IF Cur.out = "ok" THEN
              If(~Cur.eq, "decoded contents differ from what was encoded")
              \cup If(Cur.k \in {"str", "fh", "cred", "verf"} /\ Cur.used # ClsUsed, "decoder did not consume exactly the padded length")
         ELSE {"well-formed input within the limits was refused"}
      ELSE If(Cur.out = "ok", IF e = "reject_limit" THEN "length beyond the documented limit was accepted"
                              ELSE "a value was decoded from an input the layout does not accept (truncated or malformed)"))
  \cup If(Cur.k = "fh" /\ e = "reject_len" /\ Cur.out # "ok" /\ Cur.avail >= WVal(Cur.w) + Pad(WVal(Cur.w))
            /\ Cur.used \notin {4, 4 + WVal(Cur.w) + Pad(WVal(Cur.w))},
          "refused handle was not skipped by exactly its padded length (stream left inside the padded value)")
  \cup If(Cur.alloc > AllocBound(e, IF e = "reject_limit" THEN 0 ELSE ClsUnit * WVal(Cur.w), 4),
          IF e = "reject_limit" THEN "length beyond the documented limit caused an allocation before it was rejected"
          ELSE "decode allocated more than the documented bound allows")

(* rml: record marking on lengths *)
RmlFrags == [i \in DOMAIN Cur.frags |-> [w |-> Cur.frags[i].w, d |-> Cur.frags[i].d]]
RmlBad ==
  LET e == ReadLens(RmlFrags, Cur.max) IN
     (IF e.out = "ok" THEN
         IF Cur.out = "ok" THEN If(Cur.reclen # e.reclen \/ ~Cur.eq, "reassembled record differs from the bytes of its fragments")
         ELSE {"record within the limit was not reassembled"}
      ELSE If(Cur.out = "ok", IF e.out = "reject_limit" THEN "record beyond the record limit was accepted"
                              ELSE "a record was delivered from a truncated stream"))
  \cup If(Cur.alloc > AllocOverhead + 6 * (e.alloc + 4),
          IF e.out = "reject_limit" THEN "fragment beyond the record limit caused an allocation before it was rejected"
          ELSE "reading a record allocated more than the documented bound allows")

(* rmb: record marking on literal bytes, possibly two records on one reader *)
RmbBad ==
  LET e  == ReadRecord(Cur.in, Cur.max)
      e2 == ReadRecAt(Cur.in, Cur.used + 1, << >>, 0, Cur.max, TRUE) IN
     (IF e.out = "ok" THEN
         IF Cur.out = "ok" THEN If(Cur.rec # e.rec, "reassembled record differs from the bytes of its fragments")
                                \cup If(Cur.used # e.used, "reader did not stop at the end of the record")
         ELSE {"record within the limit was not reassembled"}
      ELSE If(Cur.out = "ok", IF e.out = "reject_limit" THEN "record beyond the record limit was accepted"
                              ELSE "a record was delivered from a truncated stream"))
  \cup (IF Cur.has2 /\ e.out = "ok" /\ Cur.out = "ok" /\ Cur.used = e.used THEN
           (IF e2.out = "ok" THEN If(Cur.out2 # "ok" \/ Cur.rec2 # e2.rec \/ Cur.used2 # e2.used,
                                     "second record on the same reader differs from the bytes of its fragments")
            ELSE If(Cur.out2 = "ok", "a second record was delivered from a stream that does not contain one"))
        ELSE {})

(* rmw / rmwl: the writer *)
RmwBad ==
  If(Cur.werr, "writer failed on an in-memory stream")
  \cup If(Cur.got # WriterStream(Cur.data, Cur.mf), "writer output is not the fragmentation of the record")
  \cup If(~Cur.backok \/ Cur.back # Cur.data, "writing then reading a record is not the identity")
RmwlBad ==
  LET lens == WriterLens(Cur.len, Cur.mf)
      want == [i \in DOMAIN lens |-> Hdr(lens[i], i = Len(lens))]
      got  == [i \in DOMAIN Cur.hdrs |-> [h |-> Cur.hdrs[i].h, l |-> Cur.hdrs[i].l]] IN
  If(Cur.werr, "writer failed on an in-memory stream")
  \cup If(~Cur.framed \/ ~Cur.eq, "writer output is not a fragmentation of the record")
  \cup If(\E i \in DOMAIN got : WGt(HdrLen(got[i]), Cur.mf), "writer exceeded its maximum fragment size")
  \cup If(Len(got) = 0 \/ (Len(got) > 0 /\ (~HdrLast(got[Len(got)]) \/ \E i \in 1..(Len(got) - 1) : HdrLast(got[i]))),
          "last-fragment flag is not exactly on the final fragment")
  \cup If(~Cur.backok, "writing then reading a record is not the identity")
RmwlDrift == LET lens == WriterLens(Cur.len, Cur.mf)
                 want == [i \in DOMAIN lens |-> Hdr(lens[i], i = Len(lens))]
                 got  == [i \in DOMAIN Cur.hdrs |-> [h |-> Cur.hdrs[i].h, l |-> Cur.hdrs[i].l]] IN
             If(got # want, "writer splits differently from the transcription")

-----------------------------------------------------------------------------
\* a panic of a codec function is never a rejection
PanicBad == {"codec function panicked instead of rejecting its input"}

LineBad == CASE Cur.ev = "panic" -> PanicBad [] Cur.ev = "enc" -> EncBad [] Cur.ev = "dec" -> DecBad [] Cur.ev = "cls" -> ClsBad
             [] Cur.ev = "rml" -> RmlBad [] Cur.ev = "rmb" -> RmbBad [] Cur.ev = "rmw" -> RmwBad
             [] Cur.ev = "rmwl" -> RmwlBad [] OTHER -> {}
LineDrift == CASE Cur.ev = "dec" -> DecDrift [] Cur.ev = "rmwl" -> RmwlDrift [] OTHER -> {}

Init == /\ l = 1 /\ bad = {} /\ dev = {} /\ drift = {}
        /\ stats = [panic |-> 0, enc |-> 0, dec |-> 0, cls |-> 0, rml |-> 0, rmb |-> 0, rmw |-> 0, rmwl |-> 0, reset |-> 0,
                    dec_ok |-> 0, dec_refused |-> 0, lines |-> 0]

Consume == /\ l <= N
           /\ l' = l + 1
           /\ bad' = bad \cup Tag(LineBad)
           /\ drift' = drift \cup Tag(LineDrift)
           /\ dev' = dev
           /\ stats' = [stats EXCEPT ![Cur.ev] = @ + 1,
                                     !.dec_ok = @ + (IF Cur.ev \in {"dec", "cls", "rml", "rmb"} /\ Cur.out = "ok" THEN 1 ELSE 0),
                                     !.dec_refused = @ + (IF Cur.ev \in {"dec", "cls", "rml", "rmb"} /\ Cur.out # "ok" THEN 1 ELSE 0)]

Finish == /\ l = N + 1
          /\ l' = N + 2
          /\ JsonSerialize(IOEnv.VF_RESULT,
                [n |-> N, consumed |-> l - 1, bad |-> bad, dev |-> dev, drift |-> drift,
                 stats |-> [stats EXCEPT !.lines = N]])
          /\ UNCHANGED <<bad, dev, drift, stats>>

Next == Consume \/ Finish
Spec == Init /\ [][Next]_vars
=============================================================================

------------------------------- MODULE WireRM -------------------------------
(***************************************************************************)
(* C13, record-marking part (rpc_transport.go): RecordMarkingReader as a    *)
(* state machine over the fragments of a byte stream, RecordMarkingWriter   *)
(* as the producer of one particular fragmentation.                         *)
(*                                                                         *)
(* A behaviour: the environment fixes a plan = a sequence of records, each  *)
(* split into fragments in an arbitrary way (or by the writer with some     *)
(* maximum fragment size), possibly cuts the resulting byte stream, and the *)
(* reader consumes it: one action per read of the code (4-byte header,      *)
(* fragment body).                                                          *)
(*                                                                         *)
(* CheckFirst = TRUE is the code: the accumulated size is tested against    *)
(* MaxRec on the declared length, before the fragment buffer is allocated.  *)
(* ResetBuf = TRUE is the code: ReadRecord starts from an empty buffer.     *)
(***************************************************************************)
EXTENDS WireOps, TLC

CONSTANTS RecLenAll,    \* records: every byte sequence over {0, 1} up to this length ...
          RecLenPat,    \* ... and the prefixes of one irregular pattern up to this length
          MaxFrags,     \* a record is split into 1..MaxFrags fragments (empty ones allowed)
          MaxRec,       \* model value of MaxRecordSize
          MaxStream,    \* number of records in one stream (1 or 2)
          WriterSizes,  \* maximum fragment sizes given to the writer
          CheckFirst, ResetBuf

VARIABLES plan,     \* sequence of records, each a sequence of fragments (byte sequences)
          input,    \* the byte stream handed to the reader
          pos,      \* bytes consumed
          phase,    \* "hdr" | "body" | "eof" | "err"
          acc,      \* bytes accumulated for the current record
          flen, last,   \* current fragment header
          nfr,      \* fragments of the current record read so far
          alloc,    \* ghost: bytes allocated for the current record
          out,      \* records delivered
          why       \* reason of "err"
vars == <<plan, input, pos, phase, acc, flen, last, nfr, alloc, out, why>>

-----------------------------------------------------------------------------
Pattern == <<1, 0, 1, 1, 0, 0, 1, 0, 0, 0, 1, 1>>
Records == UNION {[1..m -> {0, 1}] : m \in 0..RecLenAll} \cup {SubSeq(Pattern, 1, m) : m \in 0..RecLenPat}

RECURSIVE Splits(_, _)
Splits(s, k) == IF k = 1 THEN {<<s>>}
                ELSE UNION {{<<SubSeq(s, 1, i)>> \o t : t \in Splits(SubSeq(s, i + 1, Len(s)), k - 1)} : i \in 0..Len(s)}
Fragmentations(s) == UNION {Splits(s, k) : k \in 1..MaxFrags}

RECURSIVE Chop(_, _)
Chop(s, mf) == IF Len(s) <= mf THEN <<s>> ELSE <<SubSeq(s, 1, mf)>> \o Chop(SubSeq(s, mf + 1, Len(s)), mf)
WriterFrags(s) == {Chop(s, mf) : mf \in WriterSizes}

RECURSIVE Join(_)
Join(frags) == IF frags = << >> THEN << >> ELSE Head(frags) \o Join(Tail(frags))

RECURSIVE StreamOf(_)
StreamOf(p) == IF p = << >> THEN << >> ELSE FragStream(Head(p)) \o StreamOf(Tail(p))

RecordsOf(p) == [i \in DOMAIN p |-> Join(p[i])]

Plans == UNION {[1..n -> UNION {Fragmentations(r) \cup WriterFrags(r) : r \in Records}] : n \in 1..MaxStream}

Init == /\ plan \in Plans
        /\ \E c \in 0..Len(StreamOf(plan)) : input = SubSeq(StreamOf(plan), 1, c)
        /\ pos = 0 /\ phase = "hdr" /\ acc = << >> /\ flen = 0 /\ last = FALSE /\ nfr = 0
        /\ alloc = 0 /\ out = << >> /\ why = ""

Remaining == Len(input) - pos

\* binary.Read of the 4-byte fragment header
ReadHeader ==
  /\ phase = "hdr"
  /\ IF Remaining < 4
       THEN /\ phase' = IF Remaining = 0 /\ nfr = 0 THEN "eof" ELSE "err"
            /\ why' = IF phase' = "err" THEN "short" ELSE ""
            /\ UNCHANGED <<pos, acc, flen, last, nfr, alloc, out>>
       ELSE LET w == WAt(input, pos + 1)
                n == WVal(HdrLen(w))                    \* model streams are small
            IN IF CheckFirst /\ Len(acc) + n > MaxRec
                 THEN /\ phase' = "err" /\ why' = "limit"
                      /\ UNCHANGED <<pos, acc, flen, last, nfr, alloc, out>>
                 ELSE /\ pos' = pos + 4 /\ flen' = n /\ last' = HdrLast(w)
                      /\ alloc' = alloc + n               \* make([]byte, fragmentLen)
                      /\ phase' = "body" /\ nfr' = nfr + 1 /\ UNCHANGED <<acc, out, why>>
  /\ UNCHANGED <<plan, input>>

\* io.ReadFull of the fragment, append, deliver on the last fragment
ReadBody ==
  /\ phase = "body"
  /\ IF Remaining < flen
       THEN /\ phase' = "err" /\ why' = "short" /\ UNCHANGED <<pos, acc, nfr, alloc, out>>
       ELSE LET acc2 == acc \o SubSeq(input, pos + 1, pos + flen) IN
            /\ pos' = pos + flen
            /\ IF ~CheckFirst /\ Len(acc2) > MaxRec
                 THEN /\ phase' = "err" /\ why' = "limit" /\ UNCHANGED <<acc, nfr, alloc, out>>
                 ELSE IF last
                   THEN /\ out' = Append(out, acc2)
                        /\ acc' = IF ResetBuf THEN << >> ELSE acc2
                        /\ alloc' = 0 /\ nfr' = 0 /\ phase' = "hdr" /\ why' = ""
                   ELSE /\ acc' = acc2 /\ phase' = "hdr" /\ UNCHANGED <<nfr, alloc, out, why>>
  /\ UNCHANGED <<plan, input, flen, last>>

Next == ReadHeader \/ ReadBody
Spec == Init /\ [][Next]_vars

-----------------------------------------------------------------------------
Want == RecordsOf(plan)
Complete == input = StreamOf(plan)
Fits(i) == Len(Want[i]) <= MaxRec

TypeOK == /\ phase \in {"hdr", "body", "eof", "err"} /\ pos \in 0..Len(input) /\ alloc \in Nat

\* what is delivered is always, record by record, what was written
DeliveredIsPrefix ==
  /\ Len(out) <= Len(Want)
  /\ \A i \in DOMAIN out : out[i] = Want[i]

\* any fragmentation of records within the bound is reassembled completely
Reassembled ==
  phase = "eof" /\ Complete /\ (\A i \in DOMAIN Want : Fits(i)) => out = Want

\* the reader stops with an error exactly at the first record over the bound, or on a cut stream
ErrIsJustified ==
  phase = "err" =>
     \/ why = "limit" /\ Len(out) < Len(Want) /\ ~Fits(Len(out) + 1)
     \/ why = "short" /\ ~Complete
OversizeNotDelivered == \A i \in DOMAIN out : Len(out[i]) <= MaxRec

\* never more than the bound is allocated for one record
AllocBounded == alloc <= MaxRec

\* the state machine and the closed-form reader of WireOps agree (the trace spec uses the latter)
AgreesWithClosedForm ==
  phase \in {"eof", "err"} /\ out = << >> /\ CheckFirst =>
     LET r == ReadRecord(input, MaxRec) IN
     IF phase = "eof" THEN input = << >> /\ r.out = "short"
     ELSE (why = "limit" <=> r.out = "reject_limit") /\ (why = "short" <=> r.out = "short")
FirstRecordClosedForm ==
  Len(out) >= 1 /\ CheckFirst => LET r == ReadRecord(input, MaxRec) IN r.out = "ok" /\ r.rec = out[1]

\* the writer's output is one of the legal fragmentations and is read back as the record
WriterIdentity ==
  \A r \in Records : \A mf \in WriterSizes :
     /\ Join(Chop(r, mf)) = r
     /\ WriterStream(r, mf) = FragStream(Chop(r, mf))
     /\ \A i \in DOMAIN Chop(r, mf) : Len(Chop(r, mf)[i]) <= mf
     /\ [i \in DOMAIN Chop(r, mf) |-> Len(Chop(r, mf)[i])] = WriterLens(Len(r), mf)
     /\ (Len(r) <= MaxRec => LET x == ReadRecord(WriterStream(r, mf), MaxRec) IN
                              x.out = "ok" /\ x.rec = r /\ x.used = Len(WriterStream(r, mf)))
ASSUME WriterIdentity
=============================================================================

------------------------------ MODULE WireGen ------------------------------
(***************************************************************************)
(* C13 binding (MBT): TLC writes the test vectors the harness replays on    *)
(* the real encoders/decoders (harness/vf_wire.go).  A vector carries the   *)
(* input and what the specification expects (`exp`), computed with the      *)
(* operators of WireOps; the harness adds what the code did and WireTrace   *)
(* re-derives the expectation from the input when it validates the log, so  *)
(* the Go side holds no copy of any rule.                                   *)
(*                                                                         *)
(* Payload bytes: StrAlpha for strings (default 'a','b'), {0,1} elsewhere.  *)
(* Contents are exhaustive up to FullLen, sampled (by Seed) above it.       *)
(***************************************************************************)
EXTENDS WireOps, TLC, Json, IOUtils, SequencesExt

CONSTANTS MaxLen, FullLen, Seed, SampleMod, StrAlpha, CutLen

VARIABLE done

-----------------------------------------------------------------------------
Word(n) == WBytes(WOf(n))
RECURSIVE Num(_)
Num(s) == IF s = << >> THEN 1 ELSE (Num(SubSeq(s, 1, Len(s) - 1)) * 2 + (IF s[Len(s)] = Head(s) THEN 0 ELSE 1)) % 100003
Sampled(s) == Len(s) <= FullLen \/ (Num(s) * 7 + Seed) % SampleMod = 0
Hi(A) == CHOOSE a \in A : \A b \in A : b <= a
Lo(A) == CHOOSE a \in A : \A b \in A : a <= b
Payloads(A, n) == {s \in UNION {[1..m -> A] : m \in 0..n} : Sampled(s)}
                  \cup {[i \in 1..m |-> IF i % 3 = 1 THEN Hi(A) ELSE Lo(A)] : m \in 0..n}     \* every length at least once
Bodies(n) == {[i \in 1..m |-> i % 2] : m \in 0..n} \cup UNION {[1..m -> {0, 1}] : m \in 0..2}

Trailer == <<170, 85, 1>>
Cuts(b) == {SubSeq(b, 1, c) : c \in 0..Len(b)} \cup {b \o Trailer}
\* all cut points for short inputs or sampled values, else only whole / whole+trailer / two cuts
CutsFor(v, b) == IF Len(b) <= CutLen THEN Cuts(b)
                 ELSE {b, b \o Trailer, SubSeq(b, 1, Len(b) - 1), SubSeq(b, 1, (Len(b) * ((Seed % 7) + 1)) \div 9)}

Exp(r) == [out |-> r.out, used |-> r.used]

-----------------------------------------------------------------------------
(* strings *)
StrVals == Payloads(StrAlpha, MaxLen) \cup UNION {[1..m -> {0, 97}] : m \in 0..3}
StrEnc == {[t |-> "enc", k |-> "str", val |-> v, bytes |-> EncOpaque(v)] : v \in StrVals}
StrDec == UNION {{[t |-> "dec", k |-> "str", in |-> b, exp |-> Exp(DecOpaque(b, LimString))] : b \in Cuts(EncOpaque(v))} : v \in StrVals}

(* file handles: values, and every declared length 0..12, 63..65 with and without enough data *)
FHVals == {v \in [1..8 -> {0, 1}] : (Num(v) * 7 + Seed) % 16 = 0} \cup {[i \in 1..8 |-> 255], [i \in 1..8 |-> 0]}
FHEnc == {[t |-> "enc", k |-> "fh", val |-> v, bytes |-> EncFH(v)] : v \in FHVals}
FHLenInputs == UNION {{Word(n) \o [i \in 1..a |-> 1] : a \in {0, n - 1, n, n + Pad(n), n + Pad(n) + 3} \cap Nat} : n \in (0..12) \cup {63, 64, 65, 68}}
FHDec == {[t |-> "dec", k |-> "fh", in |-> b, exp |-> Exp(DecFH(b))] :
            b \in (UNION {Cuts(EncFH(v)) : v \in FHVals}) \cup FHLenInputs}

(* RPC call headers *)
CallVals ==
  {[xid |-> x, mtype |-> Word(0), rpcvers |-> Word(2), prog |-> Word(100003), vers |-> Word(3), proc |-> Word(21),
    cflavor |-> Word(1), cbody |-> cb, vflavor |-> Word(0), vbody |-> vb] :
     x \in {<<0, 0, 0, 1>>, <<255, 255, 255, 255>>}, cb \in Bodies(MaxLen), vb \in {<< >>, <<0, 1, 1, 0, 1>>}}
  \cup
  {[xid |-> Word(7), mtype |-> mt, rpcvers |-> Word(2), prog |-> Word(100005), vers |-> Word(1), proc |-> Word(1),
    cflavor |-> Word(0), cbody |-> << >>, vflavor |-> <<128, 0, 0, 2>>, vbody |-> vb] :
     mt \in {Word(0), Word(1)}, vb \in Bodies(MaxLen)}
CallDec == UNION {{[t |-> "dec", k |-> "call", in |-> b, exp |-> Exp(DecCall(b))] : b \in CutsFor(v, EncCall(v))} : v \in CallVals}

(* AUTH_SYS bodies *)
AuthVals ==
  {[stamp |-> Word(1), machine |-> m, uid |-> u, gid |-> Word(100), gids |-> g] :
     m \in Bodies(MaxLen), u \in {Word(0), <<255, 255, 255, 254>>},
     g \in {[i \in 1..k |-> Word(i)] : k \in {0, 1, 3, 15, 16}}}
AuthDec == UNION {{[t |-> "dec", k |-> "authsys", in |-> b, exp |-> Exp(DecAuthSys(b))] : b \in CutsFor(v, EncAuthSys(v)) \ {<< >>}} : v \in AuthVals}

(* declared lengths around every documented limit, 2^31 and 2^32-1: only the word is literal *)
\* ... and the lengths whose padded size wraps around 2^32 (2^32-4 .. 2^32-1)
Classes(lim) == {WOf(lim - 1), WOf(lim), WOf(lim + 1), W(32768, 0), W(65535, 65532), W(65535, 65533), W(65535, 65534), W(65535, 65535)}
Avails(w, lim) == IF WGt(w, lim + 1) THEN {0, 64}
                  ELSE {0, WVal(w) + Pad(WVal(w)), WVal(w) + Pad(WVal(w)) - 1} \cap Nat
ClsFor(k, lim) == UNION {{[t |-> "cls", k |-> k, w |-> w, avail |-> a, lim |-> lim,
                           exp |-> [out |-> Outcome(w, a, lim), used |-> 0]] : a \in Avails(w, lim)} : w \in Classes(lim)}
GidAvails(w) == IF WGt(w, LimGids + 1) THEN {0, 64} ELSE {0, 4 * WVal(w), 4 * WVal(w) - 4} \cap Nat
ClsGids == UNION {{[t |-> "cls", k |-> "gids", w |-> w, avail |-> a, lim |-> LimGids,
                    exp |-> [out |-> IF WGt(w, LimGids) THEN "reject_limit" ELSE IF a < 4 * WVal(w) THEN "short" ELSE "ok", used |-> 0]] :
                      a \in GidAvails(w)} : w \in Classes(LimGids)}
Cls == ClsFor("str", LimString) \cup ClsFor("machine", LimString) \cup ClsFor("cred", LimAuth) \cup ClsFor("verf", LimAuth)
       \cup ClsFor("fh", LimFH) \cup ClsGids

(* record marking, on lengths: one or several fragments around the record limit *)
F(n, last, d) == [w |-> Hdr(n, last), d |-> d]
RmlPlans ==
  {<<F(LimRecord - 1, TRUE, LimRecord - 1)>>, <<F(LimRecord, TRUE, LimRecord)>>, <<F(LimRecord + 1, TRUE, 0)>>,
   <<F(LimRecord + 1, TRUE, 64)>>, <<F(LimRecord, TRUE, LimRecord - 1)>>,
   <<[w |-> W(49152, 0), d |-> 0]>>, <<[w |-> W(65535, 65535), d |-> 64]>>, <<[w |-> W(32767, 65535), d |-> 0]>>,
   <<F(524288, FALSE, 524288), F(524288, TRUE, 524288)>>,
   <<F(524288, FALSE, 524288), F(524288, FALSE, 524288), F(1, TRUE, 1)>>,
   <<F(524288, FALSE, 524288), F(524289, TRUE, 0)>>,
   <<F(1048576, FALSE, 1048576), F(0, FALSE, 0), F(0, TRUE, 0)>>,
   <<F(1000, FALSE, 1000), [w |-> W(32767, 65535), d |-> 0]>>,
   <<F(0, FALSE, 0), F(0, FALSE, 0), F(5, TRUE, 5)>>,
   <<F(300000, FALSE, 300000), F(300000, FALSE, 300000), F(300000, FALSE, 300000), F(148576, TRUE, 148576)>>,
   <<F(300000, FALSE, 300000), F(300000, FALSE, 300000), F(300000, FALSE, 300000), F(148577, TRUE, 148577)>>}
Rml == {[t |-> "rml", max |-> LimRecord, frags |-> p, exp |-> [out |-> ReadLens(p, LimRecord).out, used |-> ReadLens(p, LimRecord).reclen]] : p \in RmlPlans}

(* record marking, on bytes: every fragmentation of small records, cut anywhere; the writer *)
RECURSIVE Splits(_, _)
Splits(s, k) == IF k = 1 THEN {<<s>>}
                ELSE UNION {{<<SubSeq(s, 1, i)>> \o t : t \in Splits(SubSeq(s, i + 1, Len(s)), k - 1)} : i \in 0..Len(s)}
Pattern == <<1, 0, 255, 1, 0, 0, 7, 0>>
RmRecords == {SubSeq(Pattern, 1, m) : m \in 0..6}
RmMax == 5
RmStreams == UNION {UNION {{FragStream(f) : f \in Splits(r, k)} : k \in 1..3} : r \in RmRecords}
RmInputs == RmStreams \cup UNION {{SubSeq(s, 1, c) : c \in 0..Len(s)} : s \in {x \in RmStreams : (Len(x) + Seed) % 5 = 0}}
                      \cup {FragStream(<<<<1, 2>>, <<3>>>>) \o FragStream(<<<<4>>>>)}
Rmb == {[t |-> "rmb", max |-> RmMax, in |-> b,
         exp |-> [out |-> ReadRecord(b, RmMax).out, used |-> ReadRecord(b, RmMax).used]] : b \in RmInputs}
Rmw == {[t |-> "rmw", mf |-> mf, data |-> r, bytes |-> WriterStream(r, mf)] : r \in RmRecords, mf \in 1..7}

-----------------------------------------------------------------------------
All == SetToSeq(StrEnc) \o SetToSeq(StrDec) \o SetToSeq(FHEnc) \o SetToSeq(FHDec) \o SetToSeq(CallDec)
       \o SetToSeq(AuthDec) \o SetToSeq(Cls) \o SetToSeq(Rml) \o SetToSeq(Rmb) \o SetToSeq(Rmw)

Init == done = FALSE
Next == /\ done = FALSE
        /\ ndJsonSerialize(IOEnv.VF_VECTORS, All)
        /\ PrintT(<<"vectors", Len(All)>>)
        /\ done' = TRUE
Spec == Init /\ [][Next]_done
=============================================================================

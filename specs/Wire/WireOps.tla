------------------------------ MODULE WireOps ------------------------------
(***************************************************************************)
(* Pure layout functions of the XDR / ONC RPC / record-marking codecs of    *)
(* absnfs (rpc_types.go, rpc_transport.go) over abstract byte sequences.    *)
(* Shared by the design spec (Wire), the vector generator (WireGen) and the *)
(* trace spec (WireTrace), which applies them to logged inputs.             *)
(*                                                                         *)
(* A byte is a natural number < 256.  A 32-bit word is the pair of its two  *)
(* 16-bit halves [h, l], because TLC integers are 32-bit signed and the     *)
(* property speaks about declared lengths 2^31 and 2^32-1.                  *)
(***************************************************************************)
EXTENDS Integers, Sequences, FiniteSets

-----------------------------------------------------------------------------
(* 32-bit words *)
W(h, l)    == [h |-> h, l |-> l]
WOf(n)     == [h |-> n \div 65536, l |-> n % 65536]         \* 0 <= n < 2^31
WSmall(w)  == w.h < 16384                                   \* value < 2^30
WVal(w)    == w.h * 65536 + w.l                             \* only if WSmall(w)
WGt(w, n)  == \/ w.h > n \div 65536                         \* value > n, any w, 0 <= n < 2^31
              \/ (w.h = n \div 65536 /\ w.l > n % 65536)
WBytes(w)  == << w.h \div 256, w.h % 256, w.l \div 256, w.l % 256 >>
WAt(b, p)  == [h |-> b[p] * 256 + b[p + 1], l |-> b[p + 2] * 256 + b[p + 3]]   \* word at 1-based p
IsW(w)     == w.h \in 0..65535 /\ w.l \in 0..65535

Pad(n)     == (4 - (n % 4)) % 4
Zeros(k)   == [i \in 1..k |-> 0]
Min(a, b)  == IF a < b THEN a ELSE b

-----------------------------------------------------------------------------
(* documented limits (rpc_types.go, rpc_transport.go) *)
LimString == 8192        \* MAX_XDR_STRING_LENGTH
LimAuth   == 400         \* MAX_RPC_AUTH_LENGTH
LimFH     == 64          \* NFS3_FHSIZE
LimGids   == 16          \* AUTH_SYS auxiliary gids
LimRecord == 1048576     \* DefaultMaxRecordSize

(* Decision of a length-prefixed decode: declared length word w, `avail`    *)
(* bytes present after the length word, limit lim.                          *)
Outcome(w, avail, lim) ==
  IF WGt(w, lim) THEN "reject_limit"
  ELSE IF avail < WVal(w) + Pad(WVal(w)) THEN "short"
  ELSE "ok"

Fail(why) == [out |-> why, used |-> 0, val |-> << >>]

-----------------------------------------------------------------------------
(* opaque<lim> / string<lim> *)
EncOpaque(s) == WBytes(WOf(Len(s))) \o s \o Zeros(Pad(Len(s)))

\* decode at 1-based position p of b; `used` counts bytes from p
DecOpaqueAt(b, p, lim) ==
  IF Len(b) - (p - 1) < 4 THEN Fail("short")
  ELSE LET w == WAt(b, p)
           o == Outcome(w, Len(b) - (p - 1) - 4, lim)
       IN IF o # "ok" THEN Fail(o)
          ELSE LET n == WVal(w) IN
               [out |-> "ok", used |-> 4 + n + Pad(n), val |-> SubSeq(b, p + 4, p + 3 + n)]

DecOpaque(b, lim) == DecOpaqueAt(b, 1, lim)

HasNul(s) == \E i \in DOMAIN s : s[i] = 0

\* xdrDecodeString: a string with a NUL byte may be rejected (a server choice the property
\* does not exclude: what is decoded is never something else than what was encoded)
DecStringOutcomes(b) ==
  LET r == DecOpaque(b, LimString) IN
  IF r.out = "ok" /\ HasNul(r.val) THEN {r, Fail("reject_nul")} ELSE {r}

-----------------------------------------------------------------------------
(* nfs_fh3 as this server issues it: opaque<64> holding exactly 8 bytes *)
EncFH(v8) == WBytes(WOf(8)) \o v8

\* ideal: only an 8-byte handle is accepted; anything over 64 is refused by the limit
DecFH(b) ==
  IF Len(b) < 4 THEN Fail("short")
  ELSE LET w == WAt(b, 1) IN
       IF WGt(w, LimFH) THEN Fail("reject_limit")
       ELSE IF WVal(w) # 8 THEN
            \* impl: discards the padded body to stay in step, then refuses
            (IF Len(b) - 4 < WVal(w) + Pad(WVal(w)) THEN Fail("short")
             ELSE [out |-> "reject_len", used |-> 4 + WVal(w) + Pad(WVal(w)), val |-> << >>])
       ELSE IF Len(b) < 12 THEN Fail("short")
       ELSE [out |-> "ok", used |-> 12, val |-> SubSeq(b, 5, 12)]

-----------------------------------------------------------------------------
(* RPC call header (RFC 1831 call_body up to and including the verifier).   *)
(* value: [xid, rpcvers, prog, vers, proc, cflavor, vflavor : 4-byte seqs,  *)
(*         mtype : 4-byte seq, cbody, vbody : byte seqs]                    *)
EncCall(c) == c.xid \o c.mtype \o c.rpcvers \o c.prog \o c.vers \o c.proc
              \o c.cflavor \o EncOpaque(c.cbody) \o c.vflavor \o EncOpaque(c.vbody)

DecCall(b) ==
  IF Len(b) < 8 THEN Fail("short")
  ELSE IF SubSeq(b, 5, 8) # <<0, 0, 0, 0>> THEN Fail("reject_type")
  ELSE IF Len(b) < 28 THEN Fail("short")
  ELSE LET cr == DecOpaqueAt(b, 29, LimAuth) IN
       IF cr.out # "ok" THEN Fail(cr.out)
       ELSE LET vp == 29 + cr.used IN
            IF Len(b) - (vp - 1) < 4 THEN Fail("short")
            ELSE LET vr == DecOpaqueAt(b, vp + 4, LimAuth) IN
                 IF vr.out # "ok" THEN Fail(vr.out)
                 ELSE [out |-> "ok", used |-> (vp - 1) + 4 + vr.used,
                       val |-> [xid |-> SubSeq(b, 1, 4), mtype |-> SubSeq(b, 5, 8), rpcvers |-> SubSeq(b, 9, 12),
                                prog |-> SubSeq(b, 13, 16), vers |-> SubSeq(b, 17, 20), proc |-> SubSeq(b, 21, 24),
                                cflavor |-> SubSeq(b, 25, 28), cbody |-> cr.val,
                                vflavor |-> SubSeq(b, vp, vp + 3), vbody |-> vr.val]]

-----------------------------------------------------------------------------
(* AUTH_SYS body: stamp, machinename<>, uid, gid, gids<16>                  *)
(* value: [stamp, uid, gid : 4-byte seqs, machine : byte seq, gids : seq of 4-byte seqs] *)
RECURSIVE Concat(_)
Concat(ss) == IF ss = << >> THEN << >> ELSE Head(ss) \o Concat(Tail(ss))

EncAuthSys(a) == a.stamp \o EncOpaque(a.machine) \o a.uid \o a.gid
                 \o WBytes(WOf(Len(a.gids))) \o Concat(a.gids)

DecAuthSys(b) ==
  IF Len(b) < 4 THEN Fail("short")
  ELSE LET mr == DecOpaqueAt(b, 5, LimString) IN
       IF mr.out # "ok" THEN Fail(mr.out)
       ELSE LET p == 5 + mr.used IN             \* position of uid
            IF Len(b) - (p - 1) < 12 THEN Fail("short")
            ELSE LET gw == WAt(b, p + 8) IN
                 IF WGt(gw, LimGids) THEN Fail("reject_limit")
                 ELSE LET g == WVal(gw) IN
                      IF Len(b) - (p - 1) - 12 < 4 * g THEN Fail("short")
                      ELSE [out |-> "ok", used |-> (p - 1) + 12 + 4 * g,
                            val |-> [stamp |-> SubSeq(b, 1, 4), machine |-> mr.val,
                                     uid |-> SubSeq(b, p, p + 3), gid |-> SubSeq(b, p + 4, p + 7),
                                     gids |-> [i \in 1..g |-> SubSeq(b, p + 12 + 4 * (i - 1), p + 11 + 4 * i)]]]

-----------------------------------------------------------------------------
(* Record marking (RFC 1831 section 10).  A fragment header is a word whose *)
(* top bit is the last-fragment flag and whose low 31 bits are the length.  *)
HdrLast(w) == w.h >= 32768
HdrLen(w)  == [h |-> w.h % 32768, l |-> w.l]
Hdr(n, last) == [h |-> (n \div 65536) + (IF last THEN 32768 ELSE 0), l |-> n % 65536]

\* Writer: WriteRecord(data) with maximum fragment size mf >= 1 -> sequence of fragment lengths
WriterLens(n, mf) == LET k == IF n = 0 THEN 1 ELSE (n + mf - 1) \div mf IN
                     [i \in 1..k |-> IF i < k THEN mf ELSE n - (k - 1) * mf]

\* the byte stream the writer produces for record `data`
RECURSIVE WriterStreamFrom(_, _)
WriterStreamFrom(data, mf) ==
  IF Len(data) <= mf THEN WBytes(Hdr(Len(data), TRUE)) \o data
  ELSE WBytes(Hdr(mf, FALSE)) \o SubSeq(data, 1, mf) \o WriterStreamFrom(SubSeq(data, mf + 1, Len(data)), mf)
WriterStream(data, mf) == WriterStreamFrom(data, mf)

\* byte stream of an arbitrary fragmentation: frags = sequence of byte sequences, the last one flagged
RECURSIVE FragStream(_)
FragStream(frags) ==
  IF Len(frags) = 1 THEN WBytes(Hdr(Len(frags[1]), TRUE)) \o frags[1]
  ELSE WBytes(Hdr(Len(frags[1]), FALSE)) \o frags[1] \o FragStream(Tail(frags))

(* Reader: one ReadRecord over the byte stream b starting at 1-based p with *)
(* `acc` bytes already accumulated.  alloc = bytes allocated for fragments  *)
(* of this record (the quantity the 1 MiB bound is about).  checkFirst =    *)
(* TRUE is the design (and the code): the limit is tested on the declared   *)
(* length before the fragment buffer is allocated.                          *)
RECURSIVE ReadRecAt(_, _, _, _, _, _)
ReadRecAt(b, p, acc, alloc, max, checkFirst) ==
  IF Len(b) - (p - 1) < 4 THEN [out |-> "short", rec |-> << >>, used |-> 0, alloc |-> alloc]
  ELSE LET w  == WAt(b, p)
           lw == HdrLen(w)
           av == Len(b) - (p - 1) - 4
       IN IF checkFirst /\ WGt(lw, max - Len(acc))
            THEN [out |-> "reject_limit", rec |-> << >>, used |-> 0, alloc |-> alloc]
          ELSE IF ~WSmall(lw) \/ av < WVal(lw)
            THEN [out |-> "short", rec |-> << >>, used |-> 0,
                  alloc |-> IF WSmall(lw) THEN alloc + WVal(lw) ELSE alloc + 1073741823]
          ELSE LET n    == WVal(lw)
                   acc2 == acc \o SubSeq(b, p + 4, p + 3 + n)
               IN IF ~checkFirst /\ Len(acc2) > max
                    THEN [out |-> "reject_limit", rec |-> << >>, used |-> 0, alloc |-> alloc + n]
                  ELSE IF HdrLast(w)
                    THEN [out |-> "ok", rec |-> acc2, used |-> (p - 1) + 4 + n, alloc |-> alloc + n]
                  ELSE ReadRecAt(b, p + 4 + n, acc2, alloc + n, max, checkFirst)

ReadRecord(b, max) == ReadRecAt(b, 1, << >>, 0, max, TRUE)

(* The same decision on lengths only (for records too large to log):       *)
(* frags = sequence of [w : header word, d : data bytes present after it].  *)
RECURSIVE ReadLensAt(_, _, _, _, _)
ReadLensAt(frags, i, total, alloc, max) ==
  IF i > Len(frags) THEN [out |-> "short", reclen |-> 0, alloc |-> alloc]
  ELSE LET lw == HdrLen(frags[i].w) IN
       IF WGt(lw, max - total) THEN [out |-> "reject_limit", reclen |-> 0, alloc |-> alloc]
       ELSE IF frags[i].d < WVal(lw) THEN [out |-> "short", reclen |-> 0, alloc |-> alloc + WVal(lw)]
       ELSE IF HdrLast(frags[i].w) THEN [out |-> "ok", reclen |-> total + WVal(lw), alloc |-> alloc + WVal(lw)]
       ELSE ReadLensAt(frags, i + 1, total + WVal(lw), alloc + WVal(lw), max)
ReadLens(frags, max) == ReadLensAt(frags, 1, 0, 0, max)

-----------------------------------------------------------------------------
(* Allocation the documented bounds allow for one decode call: a constant   *)
(* overhead (reader objects, error values) plus, when the declared length   *)
(* passed the limit test, a small multiple of the padded length.            *)
AllocOverhead == 4096
AllocBound(outc, n, factor) ==
  IF outc = "reject_limit" THEN AllocOverhead ELSE AllocOverhead + factor * (n + 4)
=============================================================================

--------------------------- MODULE LinearizeTrace ---------------------------
(***************************************************************************)
(* TLC as a linearizability checker for recorded concurrent NFSv3          *)
(* histories (real handlers over the thread-safe vfs backend, harness      *)
(* vf_linearize.go), against the ideal sequential semantics of CoreOps.    *)
(*                                                                         *)
(* One line of the log = one history:                                      *)
(*   init    the backend tree before the concurrent phase                  *)
(*   ops     the requests, sorted by invocation; each carries inv / resp   *)
(*           (values of one global atomic counter: a precedes b in real    *)
(*           time iff a.resp < b.inv), the arguments and the decoded reply *)
(*   final   the backend tree after all clients joined                     *)
(*   tab/byp the handle table and its reverse map, attr/dirc the unexpired  *)
(*           entries of the attribute / directory cache at the end time,    *)
(*           events = data race / panic / deadlock observations of the Go   *)
(*           runtime attributed to this history                             *)
(*                                                                         *)
(* Search state = (h, done, t, seen, snap, dv): history, requests already   *)
(* linearized, the abstract tree, (caches enabled only) every state each    *)
(* observed object has been in on this path, and the bookkeeping of the     *)
(* listed deviations.  A request may be linearized next iff every request   *)
(* that responded before its invocation is already in done and its recorded *)
(* (ok, results) is an allowed outcome of CoreOps in t.  With caches at     *)
(* minimal TTL a read-type reply must be the ideal reply in t; with caches  *)
(* enabled it must be the ideal reply for SOME state the object was in on   *)
(* this path (stale, but never a state it was not in).  A history is        *)
(* accepted iff some path consumes all requests and ends in the recorded    *)
(* final tree.  Every history is an initial state of one TLC run (depth-    *)
(* first queue, one worker); the parsed log sits in TLC register 1, the     *)
(* verdict and diagnostics of history h in register 10+2h, its derived      *)
(* constants in 11+2h; CONSTRAINT Prune stops expanding a history once it   *)
(* is accepted without deviation or its state bound is reached; INVARIANT   *)
(* Observe does the bookkeeping; POSTCONDITION Finish writes the result.    *)
(* The final-state clause (FinalFails) and the runtime events (EventBad)    *)
(* do not depend on the search and are evaluated once per history.          *)
(***************************************************************************)
EXTENDS CoreOps, TLC, Json, IOUtils

CONSTANTS KnownDeviations,   \* names of listed findings whose exact failing condition is tolerated
          MaxStates          \* bound on the states explored per history

\* the log is parsed once and kept in TLC register 1 (a plain definition is re-evaluated, i.e. the file
\* re-read, at every reference)
ASSUME TLCSet(1, ndJsonDeserialize(IOEnv.VF_TRACE))
TraceLog == TLCGet(1)
NH == Len(TraceLog)

VARIABLES h,      \* the history this state belongs to
          done,   \* requests linearized so far
          t,      \* the abstract tree
          seen,   \* caches enabled: every state each observed object / listing has been in on this path
          snap,   \* Dev_ReaddirNotASnapshot: listings seen since each pending READDIR became ready
          dv,     \* deviations used on this path
          pass    \* 2: the search without deviations; 1: the search in which the listed deviations may be used
vars == <<h, done, t, seen, snap, dv, pass>>

Known(d) == d \in KnownDeviations
EmptyFn == [x \in {} |-> 0]
Reg(i) == 10 + 2 * i          \* verdict and diagnostics of history i
Pre(i) == 11 + 2 * i          \* derived constants of history i (final tree, real-time predecessors)

\* the log carries slim nodes (files {p,k,d,perm}, directories {p,k,perm}, links {p,k,t,tc}); NodeOf
\* rebuilds the node record of CoreOps (sizes stay below the logged window, so sz = Len(d); owners
\* are outside the comparison, see CoreOps!Norm)
NodeOf(e) ==
  CASE e.k = "F" -> [p |-> e.p, k |-> "F", d |-> e.d, sz |-> Len(e.d), szbig |-> FALSE, t |-> "", tc |-> << >>, tabs |-> FALSE,
                     perm |-> e.perm, uid |-> 0, gid |-> 0]
    [] e.k = "L" -> [p |-> e.p, k |-> "L", d |-> << >>, sz |-> 0, szbig |-> FALSE, t |-> e.t, tc |-> e.tc, tabs |-> FALSE,
                     perm |-> 0, uid |-> 0, gid |-> 0]
    [] OTHER     -> [p |-> e.p, k |-> "D", d |-> << >>, sz |-> 0, szbig |-> FALSE, t |-> "", tc |-> << >>, tabs |-> FALSE,
                     perm |-> e.perm, uid |-> 0, gid |-> 0]
TreeOf(arr) == LET R == Rng(arr) IN [p \in {e.p : e \in R} |-> NodeOf(CHOOSE e \in R : e.p = p)]
H(i) == TraceLog[i]
Ops(i) == H(i).ops
NOps(i) == Len(Ops(i))
InitT(i) == Norm(TreeOf(H(i).init))
FinalT(i) == Norm(TreeOf(H(i).final))
Stale(i) == H(i).cfg.ttl # "min"          \* caches enabled: stale read-type replies are allowed
Searched(i) == H(i).cfg.mode # "contend" /\ Len(H(i).events) = 0
TSize(i) == H(i).T

TypeName(k) == CASE k = "D" -> "DIR" [] k = "F" -> "REG" [] k = "L" -> "LNK" [] OTHER -> "?"
C(o) == Append(o.h, o.name)
Dst(o) == Append(o.h2, o.name2)

\* --------------------------------------------------------------- what a reply can observe of an object
SizeOf(n) == CASE n.k = "F" -> n.sz [] n.k = "L" -> Len(n.t) [] OTHER -> 4096
Missing == [k |-> "N", sz |-> 0, perm |-> 0]
ObsK(tr, p) == IF p \in DOMAIN tr THEN [k |-> tr[p].k, sz |-> SizeOf(tr[p]), perm |-> tr[p].perm] ELSE Missing
ObsL(tr, p) == IF IsDir(tr, p) THEN [dir |-> TRUE, names |-> {Last(q) : q \in Children(tr, p)}]
               ELSE [dir |-> FALSE, names |-> {}]

\* paths a read-type request of history i can observe
WatchK(i) == UNION {
    CASE o.proc = "LOOKUP" -> {C(o), o.h}
      [] o.proc \in {"GETATTR", "READ"} -> {o.h}
      [] o.proc \in {"READDIR", "READDIRPLUS"} -> {o.h} \cup {Append(o.h, o.rnames[j]) : j \in DOMAIN o.rnames}
      [] OTHER -> {}
    : o \in Rng(Ops(i))}
WatchL(i) == {o.h : o \in {x \in Rng(Ops(i)) : x.proc \in {"READDIR", "READDIRPLUS"}}}

Seen0(i) == IF Stale(i)
            THEN [k |-> [p \in WatchK(i) |-> {ObsK(InitT(i), p)}], l |-> [p \in WatchL(i) |-> {ObsL(InitT(i), p)}]]
            ELSE [k |-> EmptyFn, l |-> EmptyFn]
SeenAdd(s, tr) == [k |-> [p \in DOMAIN s.k |-> s.k[p] \cup {ObsK(tr, p)}],
                   l |-> [p \in DOMAIN s.l |-> s.l[p] \cup {ObsL(tr, p)}]]
\* the object states / listings a reply may reflect
KStates(i, s, tr, p) == IF Stale(i) THEN s.k[p] ELSE {ObsK(tr, p)}
LStates(i, s, tr, p) == IF Stale(i) THEN s.l[p] ELSE {ObsL(tr, p)}

\* --------------------------------------------------------------- mutating requests
MutProcs == {"CREATE", "MKDIR", "SYMLINK", "REMOVE", "RMDIR", "RENAME", "SETATTR", "WRITE"}

MutOuts(i, tr, o) ==
  \* (the harness only uses plain names, name class "ok", relative link targets, root credentials
  \* without uid/gid in sattr3, no size in CREATE)
  CASE o.proc = "CREATE" -> CreateOut(tr, o.h, o.name, "ok", o.how, o.hasmode, o.mode, FALSE, 0, "", "", 0, 0)
    [] o.proc = "MKDIR" -> MkdirOut(tr, o.h, o.name, "ok", TRUE, o.mode, 0, 0)
    [] o.proc = "SYMLINK" -> SymlinkOut(tr, o.h, o.name, "ok", o.tgt, o.tgtc, TRUE, 0, 0)
    [] o.proc = "REMOVE" -> RemoveOut(tr, o.h, o.name, "ok")
    [] o.proc = "RMDIR" -> RmdirOut(tr, o.h, o.name, "ok")
    [] o.proc = "RENAME" -> RenameOut(tr, o.h, o.name, "ok", o.h2, o.name2, "ok")
    [] o.proc = "SETATTR" -> SetattrOut(tr, o.h, o.hasmode, o.mode, o.hassize, o.size, FALSE, 0, 0, 0)
    [] o.proc = "WRITE" -> WriteOut(tr, o.h, o.off, o.data, o.rcount, 0, TSize(i))

\* the status a failing CREATE must carry
StatusOk(tr, o) ==
  ~(o.proc = "CREATE" /\ CreateMustSayExist(tr, o.h, o.name, "ok", o.how, "", "")) \/ o.st = "EXIST"

\* trees the mutating request o may leave, given its recorded reply
MutSucc(i, tr, o) ==
  {x.tree : x \in {y \in MutOuts(i, tr, o) : y.ok = o.ok /\ StatusOk(tr, o)}}
  \cup (IF o.hs /\ ~o.ok THEN {tr} ELSE {})   \* through a handle whose object was removed or replaced: may simply fail

\* --------------------------------------------------------------- read-type requests
ReadObj(tr, p) == IF Kind(tr, p) = "L" THEN Resolve(tr, p) ELSE p

LookupOk(i, s, tr, o) ==
  \E d \in KStates(i, s, tr, o.h), c \in KStates(i, s, tr, C(o)) :
     LET want == d.k = "D" /\ c.k # "N" IN
     /\ o.ok = want
     /\ o.ok => o.rkind = TypeName(c.k)

GetattrOk(i, s, tr, o) ==
  \E c \in KStates(i, s, tr, o.h) :
     /\ o.ok = (c.k # "N")
     /\ o.ok => /\ o.rkind = TypeName(c.k)
                /\ o.rsize = c.sz
                /\ (c.k # "L" => o.rperm = c.perm)

ReaddirOk(i, s, tr, o) ==
  \E l \in LStates(i, s, tr, o.h) :
     /\ o.ok = l.dir
     /\ (o.ok /\ o.rcomplete) =>
          /\ Rng(o.rnames) = l.names
          /\ Len(o.rnames) = Cardinality(l.names)
     /\ (o.ok /\ o.proc = "READDIRPLUS") =>
          \A j \in DOMAIN o.rnames :
             o.rtypes[j] = "" \/ \E c \in KStates(i, s, tr, Append(o.h, o.rnames[j])) : o.rtypes[j] = TypeName(c.k)

\* READ: the bytes come from the backend at the linearization point; with caches enabled the eof
\* flag is computed from attributes that may be stale
ReadOk(i, s, tr, o) ==
  LET r == ReadObj(tr, o.h) IN
  CASE Kind(tr, o.h) = "N" -> ~o.ok
    [] Kind(tr, r) = "F" /\ ~tr[r].szbig ->
         IF ~o.ok THEN Kind(tr, o.h) = "L"     \* READ through a link handle may be refused
         ELSE LET f == tr[r]
                  want == ReadCount(f.sz, o.off, o.cnt, TSize(i))
              IN /\ o.rcount = want
                 /\ o.rdlen = want
                 /\ o.rdata = ReadBytes(f.d, o.off, want)
                 \* (through the handle of a symbolic link the code follows the link for the bytes but
                 \* computes eof from the link's own attributes: a sequential matter of the READ rules
                 \* (C01, READ of a non-regular object: "either"), not constrained here)
                 /\ r = o.h => \E c \in KStates(i, s, tr, o.h) :
                                  c.k = "F" /\ o.reof = (o.off + o.rcount >= c.sz)
    [] OTHER -> TRUE                           \* READ of a directory / dangling link: either

ReadTypeOk(i, s, tr, o) ==
  \/ o.hs /\ ~o.ok
  \/ CASE o.proc = "LOOKUP" -> LookupOk(i, s, tr, o)
       [] o.proc = "GETATTR" -> GetattrOk(i, s, tr, o)
       [] o.proc \in {"READDIR", "READDIRPLUS"} -> ReaddirOk(i, s, tr, o)
       [] o.proc = "READ" -> ReadOk(i, s, tr, o)
       [] OTHER -> TRUE

\* --------------------------------------------------------------- the search
\* requests that responded before the invocation of request j
Before(i, j) == {a \in 1..NOps(i) : Ops(i)[a].resp < Ops(i)[j].inv}
Ready(i, d, j) == j \notin d /\ TLCGet(Pre(i)).bf[j] \subseteq d
Succ(i, s, tr, o) == IF o.proc \in MutProcs THEN MutSucc(i, tr, o)
                     ELSE IF ReadTypeOk(i, s, tr, o) THEN {tr} ELSE {}

\* --------------------------------------------------------------- listed findings (named deviations)
\* Dev_ReaddirNotASnapshot.  ReadDir reads the directory once (listing S) and then looks every
\* entry of S up again; an entry that has vanished by then is dropped, so the reply can be a set of
\* names the directory never had.  Exact condition: the reply is a listing S the directory had
\* while the request was in progress (snap[j]: every listing since the request became ready), or a
\* stale cached one when caches are enabled, minus entries that are missing now; everything else
\* (types, completeness, duplicates) as in the ideal rule.  Only tried where the ideal rule rejects.
DevRd == "Dev_ReaddirNotASnapshot"
NamesInD(tr, p) == {Last(q) : q \in Children(tr, p)}
RdOps(i) == {j \in 1..NOps(i) : Ops(i)[j].proc \in {"READDIR", "READDIRPLUS"}}
\* Dev_ReaddirplusAttrsNotASnapshot.  READDIRPLUS takes the names from one directory read but fetches
\* the attributes of every entry afterwards, one Lstat per entry: the reply can pair the type an entry
\* had early during the request with the type another entry got later (x REG, y LNK -> RENAME y x,
\* MKDIR y -> x LNK, y DIR; reply: x REG, y DIR).  Exact condition: the names are the listing of one
\* state and every reported type is the type that entry had in some state, all of these states lying
\* between the request becoming ready and its linearization point (which is then the last of the
\* observations).  Only tried where the ideal rule rejects.
DevRdAttr == "Dev_ReaddirplusAttrsNotASnapshot"
\* what a pending READDIR / READDIRPLUS could have seen of its directory: [dir, names, kinds] per state
ObsD(tr, p) == [dir |-> IsDir(tr, p), names |-> IF IsDir(tr, p) THEN NamesInD(tr, p) ELSE {},
                kinds |-> [n \in (IF IsDir(tr, p) THEN NamesInD(tr, p) ELSE {}) |-> Kind(tr, Append(p, n))]]
SnapUpd(i, sn, d2, t2) ==
  IF ~Known(DevRd) /\ ~Known(DevRdAttr) THEN EmptyFn
  ELSE [j \in {k \in RdOps(i) : Ready(i, d2, k) /\ (Known(DevRd) \/ Ops(i)[k].proc = "READDIRPLUS")} |->
          (IF j \in DOMAIN sn THEN sn[j] ELSE {}) \cup {ObsD(t2, Ops(i)[j].h)}]
ReaddirAttrDevOk(i, s, sn, tr, j) ==
  LET o == Ops(i)[j]
      got == Rng(o.rnames)
  IN /\ Known(DevRdAttr) /\ j \in DOMAIN sn /\ o.ok /\ o.rcomplete /\ o.proc = "READDIRPLUS"
     /\ ~ReadTypeOk(i, s, tr, o)
     /\ Len(o.rnames) = Cardinality(got)
     /\ \/ \E l \in LStates(i, s, tr, o.h) : l.dir /\ got = l.names
        \/ \E rec \in sn[j] : rec.dir /\ got = rec.names
     /\ \A x \in DOMAIN o.rnames :
          \/ o.rtypes[x] = ""
          \/ \E c \in KStates(i, s, tr, Append(o.h, o.rnames[x])) : o.rtypes[x] = TypeName(c.k)
          \/ \E rec \in sn[j] : o.rnames[x] \in rec.names /\ o.rtypes[x] = TypeName(rec.kinds[o.rnames[x]])
ReaddirDevOk(i, s, sn, tr, j) ==
  LET o == Ops(i)[j]
      got == Rng(o.rnames)
  IN /\ Known(DevRd) /\ j \in DOMAIN sn /\ o.ok /\ o.rcomplete
     /\ ~ReadTypeOk(i, s, tr, o)
     /\ Len(o.rnames) = Cardinality(got)
     /\ \E l \in sn[j] \cup (IF Stale(i) THEN s.l[o.h] ELSE {}) :
          /\ l.dir /\ got \subseteq l.names /\ got # l.names
          /\ \A n \in l.names \ got : Append(o.h, n) \notin DOMAIN tr
     /\ o.proc = "READDIRPLUS" =>
          \A x \in DOMAIN o.rnames :
             o.rtypes[x] = "" \/ \E c \in KStates(i, s, tr, Append(o.h, o.rnames[x])) : o.rtypes[x] = TypeName(c.k)

\* Dev_SetattrTrustsStaleHandleMode.  SETATTR changes the mode only if the requested mode differs from
\* the mode the handle's node believes the object to have; when the mode was changed through another
\* handle (a symbolic link to the object) the belief is stale and SETATTR back to the believed mode
\* replies OK without touching the backend.  Exact condition: a successful SETATTR(mode, no size) that
\* leaves the tree unchanged although the requested mode differs from the object's, the requested mode
\* being one the handle knew: the object's initial mode, or one set / created through this path by a
\* request already linearized.
DevSa == "Dev_SetattrTrustsStaleHandleMode"
KnownPerms(i, d, p) ==
  (IF p \in DOMAIN InitT(i) THEN {InitT(i)[p].perm} ELSE {})
  \cup {Perm(Ops(i)[x].mode) : x \in {y \in d : /\ Ops(i)[y].ok
                                               /\ \/ Ops(i)[y].proc = "SETATTR" /\ Ops(i)[y].hasmode /\ Ops(i)[y].h = p
                                                  \/ Ops(i)[y].proc = "MKDIR" /\ C(Ops(i)[y]) = p
                                                  \/ Ops(i)[y].proc = "CREATE" /\ Ops(i)[y].hasmode /\ C(Ops(i)[y]) = p}}
  \cup (IF \E y \in d : Ops(i)[y].ok /\ Ops(i)[y].proc = "CREATE" /\ ~Ops(i)[y].hasmode /\ C(Ops(i)[y]) = p THEN {420} ELSE {})
SetattrStaleDevOk(i, d, tr, j) ==
  LET o == Ops(i)[j] IN
  /\ Known(DevSa) /\ o.proc = "SETATTR" /\ o.ok /\ o.hasmode /\ ~o.hassize
  /\ Kind(tr, o.h) \in {"F", "D"}
  /\ Perm(o.mode) # tr[o.h].perm
  /\ Perm(o.mode) \in KnownPerms(i, d, o.h)

Accepting == done = 1..NOps(h) /\ t = TLCGet(Pre(h)).ft

\* --------------------------------------------------------------- final-state clause (independent of the search)
Tab(i) == Rng(H(i).tab)
Byp(i) == Rng(H(i).byp)
TabPairs(i) == {<<e.i, e.p>> : e \in Tab(i)}
BypPairs(i) == {<<e.i, e.p>> : e \in Byp(i)}
NamesIn(tr, p) == {Last(q) : q \in Children(tr, p)}
\* Dev_CachePutAfterInvalidate.  Lookup / GetAttr / ReadDir read the backend and then store what
\* they read in the attribute / directory cache; a mutation that completes (and invalidates) in
\* between is overtaken by the store, which leaves an unexpired entry describing the state before
\* the mutation.  Exact condition: the disagreeing entry concerns a path q that a successful
\* CREATE / MKDIR / SYMLINK / REMOVE / RMDIR / RENAME m of this history named (or that lies below
\* one), and another request r that reads q from the backend and caches it (LOOKUP / CREATE /
\* MKDIR / SYMLINK of that name, any request through the handle of q, READDIR of its parent; for a
\* cached listing: READDIR of that directory) overlaps m in real time.  A missing or misplaced
\* invalidation shows without such an overlap and is not explained.
DevPut == "Dev_CachePutAfterInvalidate"
Named == {"LOOKUP", "CREATE", "MKDIR", "SYMLINK", "REMOVE", "RMDIR", "RENAME"}
\* (a creating request whose own closing Lookup met the overtaking negative entry replies NOENT although
\* it created the object: it counts as the mutation when the object is in the final tree and was not in
\* the initial one)
OkMuts(i) == {x \in Rng(Ops(i)) : x.ok /\ x.proc \in {"CREATE", "MKDIR", "SYMLINK", "REMOVE", "RMDIR", "RENAME"}}
             \cup {x \in Rng(Ops(i)) : /\ ~x.ok /\ x.proc \in {"CREATE", "MKDIR", "SYMLINK"} /\ x.st = "NOENT"
                                      /\ C(x) \in DOMAIN FinalT(i) /\ C(x) \notin DOMAIN InitT(i)}
Touches(m, p) == IsPrefix(C(m), p) \/ (m.proc = "RENAME" /\ IsPrefix(Dst(m), p))
Overlap(a, b) == a.id # b.id /\ ~(a.resp < b.inv) /\ ~(b.resp < a.inv)
ReadsAttr(r, q) == \/ r.proc \in {"LOOKUP", "CREATE", "MKDIR", "SYMLINK"} /\ C(r) = q
                   \/ r.h = q
                   \/ r.proc \in {"READDIR", "READDIRPLUS"} /\ Len(q) > 0 /\ r.h = Parent(q)
TouchedAt(i, q) == \E m \in OkMuts(i) : Touches(m, q) /\ \E r \in Rng(Ops(i)) : ReadsAttr(r, q) /\ Overlap(r, m)
ListingRaced(i, p, n) == \E m \in OkMuts(i) : Touches(m, Append(p, n))
                            /\ \E r \in Rng(Ops(i)) : r.proc \in {"READDIR", "READDIRPLUS"} /\ r.h = p /\ Overlap(r, m)
SymDiff(A, B) == (A \ B) \cup (B \ A)
\* Dev_RemoveLeavesDirListing.  REMOVE (unlike RMDIR) does not drop the cached listing of the object
\* it removes; when the backend lets REMOVE take an empty directory away, the directory's own
\* (empty) listing stays cached.  Exact condition: the cached listing is that of a path which is no
\* directory any more and which a successful REMOVE of this history named.
DevRm == "Dev_RemoveLeavesDirListing"
RemovedByRemove(i, p) == \E m \in OkMuts(i) : m.proc = "REMOVE" /\ C(m) = p
\* each failure: [why, dev] with dev = the listed finding that explains it ("" = none)
FinalFails(i) ==
  LET ft == FinalT(i) IN
  (IF H(i).badnodes > 0 THEN {[why |-> "a handle table entry is not a node with a path", dev |-> ""]} ELSE {})
  \* (pathHandles is the inverse of handles iff both maps are the same set of (id, path) pairs)
  \cup (IF TabPairs(i) \ BypPairs(i) # {}
        THEN {[why |-> "handle table: pathHandles is not the inverse of handles (an id whose path maps to another id or to none)", dev |-> ""]} ELSE {})
  \cup (IF BypPairs(i) \ TabPairs(i) # {}
        THEN {[why |-> "handle table: pathHandles names an id that the table does not map to that path", dev |-> ""]} ELSE {})
  \* re-export rounds (Unexport, then all clients MNT + READDIRPLUS at once): after every round the two
  \* maps have the same size and no (id, path) pair is in one of them only
  \cup (IF \E r \in DOMAIN H(i).rounds.ntab : H(i).rounds.ntab[r] # H(i).rounds.nbyp[r] \/ H(i).rounds.nun[r] # 0
        THEN {[why |-> "handle table after a round of concurrent MNT + READDIRPLUS on a re-exported tree: pathHandles is not the inverse of handles (two handles for one path / an id the path index does not know)", dev |-> ""]} ELSE {})
  \* attr / dirc list the unexpired entries only (k = "N": negative entry)
  \cup {[why |-> "an unexpired attribute cache entry names an object that does not exist (or not with that type) in the backend",
         dev |-> IF TouchedAt(i, a.p) THEN DevPut ELSE ""] : a \in {x \in Rng(H(i).attr) : x.k # "N" /\ Kind(ft, x.p) # x.k}}
  \cup {[why |-> "an unexpired negative cache entry names a path that exists in the backend",
         dev |-> IF TouchedAt(i, a.p) THEN DevPut ELSE ""] : a \in {x \in Rng(H(i).attr) : x.k = "N" /\ Kind(ft, x.p) # "N"}}
  \cup {[why |-> "an unexpired cached directory listing differs from the directory in the backend",
         dev |-> IF IsDir(ft, c.p)
                 THEN (IF \A n \in SymDiff(Rng(c.names), NamesIn(ft, c.p)) : ListingRaced(i, c.p, n) THEN DevPut ELSE "")
                 ELSE IF RemovedByRemove(i, c.p) THEN DevRm
                 ELSE IF TouchedAt(i, c.p) THEN DevPut ELSE ""]
        : c \in {x \in Rng(H(i).dirc) : ~IsDir(ft, x.p) \/ Rng(x.names) # NamesIn(ft, x.p)}}
FinalBad(i) == {f.why : f \in {x \in FinalFails(i) : ~Known(x.dev)}}
FinalDev(i) == {f.dev : f \in {x \in FinalFails(i) : Known(x.dev)}}
EventBad(i) == {e.ev \o ": " \o e.what : e \in Rng(H(i).events)}

\* fileids: LOOKUP and GETATTR replies carry the object's fileid (logged as a token per value).  A
\* fileid is a function of the path the handle denotes: within one history two replies about the
\* same path carry the same fileid and replies about different paths different ones - a reply
\* carrying another object's identity reflects a state the object was never in.
FidPairs(i) == {<<IF o.proc = "LOOKUP" THEN C(o) ELSE o.h, o.rfid>> :
                  o \in {x \in Rng(Ops(i)) : x.proc \in {"LOOKUP", "GETATTR"} /\ x.ok /\ x.rfid # ""}}
FidBad(i) == IF \E a, b \in FidPairs(i) : (a[1] = b[1] /\ a[2] # b[2]) \/ (a[1] # b[1] /\ a[2] = b[2])
             THEN {"reply: a LOOKUP / GETATTR reply carries the fileid of another object (or two fileids for one path)"} ELSE {}

Diag0(i) == [acc |-> FALSE, accdev |-> {}, n |-> 0, n1 |-> 0, best |-> -1, bdone |-> {}, blocked |-> {}, full |-> FALSE,
             fbad |-> FinalBad(i), fdev |-> FinalDev(i), ebad |-> EventBad(i) \cup FidBad(i), searched |-> Searched(i), nops |-> NOps(i)]

\* Two searches per history. Every history gets an initial state for the search without deviations
\* (pass 2) and, when deviations of the search are listed, one for the search that may use them (pass
\* 1, which carries the extra bookkeeping `snap` and is therefore larger). TLC generates the initial
\* states in the order pass 1, pass 2 and the depth-first queue takes the last one first: pass 2 runs to
\* its end before pass 1 of the same history is taken up, and Prune drops pass 1 when pass 2 accepted.
\* (The order only matters for the cost: a history accepted in pass 2 is clean whichever ran first.)
SearchDevs == {DevRd, DevRdAttr, DevSa}
Init == /\ h \in 1..NH
        /\ pass \in (IF KnownDeviations \cap SearchDevs = {} THEN {2} ELSE {1, 2})
        /\ done = {}
        /\ t = InitT(h)
        /\ seen = Seen0(h)
        /\ dv = {}
        /\ TLCSet(Reg(h), Diag0(h))
        /\ TLCSet(Pre(h), [ft |-> FinalT(h), bf |-> [j \in 1..NOps(h) |-> Before(h, j)]])
        /\ snap = IF pass = 1 THEN SnapUpd(h, EmptyFn, {}, InitT(h)) ELSE EmptyFn

Step == /\ Searched(h)
        /\ \E j \in 1..NOps(h) :
             /\ Ready(h, done, j)
             /\ done' = done \cup {j}
             /\ \/ \E t2 \in Succ(h, seen, t, Ops(h)[j]) : t' = t2 /\ dv' = dv
                \/ pass = 1 /\ ReaddirDevOk(h, seen, snap, t, j) /\ t' = t /\ dv' = dv \cup {DevRd}
                \/ pass = 1 /\ ReaddirAttrDevOk(h, seen, snap, t, j) /\ t' = t /\ dv' = dv \cup {DevRdAttr}
                \/ pass = 1 /\ SetattrStaleDevOk(h, done, t, j) /\ t' = t /\ dv' = dv \cup {DevSa}
             /\ seen' = IF Stale(h) /\ t' # t THEN SeenAdd(seen, t') ELSE seen
             /\ snap' = IF pass = 1 THEN SnapUpd(h, snap, done', t') ELSE EmptyFn
        /\ UNCHANGED <<h, pass>>

Next == Step
Spec == Init /\ [][Next]_vars

\* evaluated on every new state admitted by Prune: bookkeeping in the registers
Blocked == {[id |-> j, proc |-> Ops(h)[j].proc, st |-> Ops(h)[j].st] :
              j \in {k \in 1..NOps(h) : Ready(h, done, k) /\ Succ(h, seen, t, Ops(h)[k]) = {}}}
Observe ==
  LET d == TLCGet(Reg(h))
      k == Cardinality(done)
      deeper == k > d.best
      d2 == [d EXCEPT !.acc = @ \/ (Accepting /\ dv = {}),
                      !.accdev = IF Accepting /\ dv # {} THEN @ \cup {dv} ELSE @,
                      !.n = IF pass = 2 THEN @ + 1 ELSE @,
                      !.n1 = IF pass = 1 THEN @ + 1 ELSE @,
                      !.best = IF deeper THEN k ELSE @,
                      !.bdone = IF deeper THEN done ELSE @,
                      !.blocked = IF deeper /\ Searched(h) THEN Blocked ELSE @,
                      !.full = @ \/ (done = 1..NOps(h))]
  IN TLCSet(Reg(h), d2)

\* stop expanding a history once it is accepted without any deviation, or its bound is exhausted
Prune == LET d == TLCGet(Reg(h)) IN ~d.acc /\ (IF pass = 2 THEN d.n ELSE d.n1) < MaxStates

Finish ==
  JsonSerialize(IOEnv.VF_RESULT,
    [n |-> NH, consumed |-> NH,
     diag |-> [i \in 1..NH |-> TLCGet(Reg(i))]])
=============================================================================

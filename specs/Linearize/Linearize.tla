----------------------------- MODULE Linearize -----------------------------
(***************************************************************************)
(* Design spec for C29: concurrent NFSv3 requests over one directory.      *)
(*                                                                         *)
(* A tiny exhaustive instance: clients issue OpsPerClient requests each on  *)
(* the names of one shared directory (the root).  The backend executes     *)
(* each of its operations atomically (it is thread-safe: Lstat, Create,    *)
(* Mkdir, Remove, Rename, Readdir on the CoreOps tree); a handler is a      *)
(* short sequence of backend operations and cache operations, one action    *)
(* per critical section, exactly in the order of operations.go /            *)
(* nfs_proc_*.go (the impl level of specs/Core/Namespace.tla split into     *)
(* per-backend-call steps):                                                 *)
(*   LOOKUP   cache get | Lstat | cache put                                 *)
(*   CREATE   Lstat (exists -> EXIST) | fs.Create | invalidate attr |       *)
(*            invalidate dir | LOOKUP of the new object                     *)
(*   MKDIR    fs.Mkdir | invalidations | LOOKUP                             *)
(*   REMOVE   fs.Remove | invalidations                                     *)
(*   RENAME   fs.Rename | invalidations                                     *)
(*   READDIR  dir-cache get | Readdir (listing S) | dir-cache put |         *)
(*            LOOKUP of every entry of S in turn                            *)
(* Invocations and responses stamp a global clock; completed requests are   *)
(* kept in hist with their replies.  When all clients are done:             *)
(*   Linearizable  some order of hist that respects real time replays on    *)
(*                 the CoreOps semantics with the same replies and ends in  *)
(*                 the backend tree; with MinTTL every reply is exact, with *)
(*                 caches a LOOKUP / READDIR reply may be the ideal reply   *)
(*                 of an earlier state of that replay (stale, never a       *)
(*                 state the object was not in);                            *)
(*   Coherent      the caches agree with the backend.                       *)
(* Switches: SnapshotReaddir (READDIR lists S itself instead of dropping    *)
(* entries whose later LOOKUP fails), GuardedPut (a cache put is skipped     *)
(* when an invalidation overtook the read), AtomicMkdir = FALSE is the       *)
(* non-vacuity variant (existence check and creation in two steps).         *)
(***************************************************************************)
EXTENDS CoreOps, TLC

CONSTANTS Clients,          \* e.g. {"c1", "c2"}
          Names,            \* e.g. {"a", "b"}
          OpsPerClient,     \* [Clients -> Nat]: requests per client
          Owner,            \* [Names -> Clients \cup {"any"}]: who may mutate / look up a name
          InitKinds,        \* kinds a name may have initially, subset of {"N", "F", "D"}
          Procs,            \* subset of {"LOOKUP","CREATE","MKDIR","REMOVE","RENAME","READDIR"}
          MinTTL,           \* TRUE: caches never hit (TTL 1 ns)
          NegCache,         \* negative-lookup caching enabled (only without MinTTL)
          DirCache,         \* directory cache enabled (only without MinTTL)
          SnapshotReaddir,  \* repaired READDIR (finding F29b)
          GuardedPut,       \* repaired cache puts (finding F29a)
          AtomicMkdir       \* FALSE: non-vacuity mutant

VARIABLES tree,   \* backend: CoreOps tree, root << >> with children <<n>>
          tree0,  \* the tree the history started from
          ac,     \* attribute cache: [Names -> "none" | "neg" | "F" | "D"]
          dc,     \* directory cache: [has, names]
          agen, dgen,   \* invalidation counters (GuardedPut)
          pc,     \* per client: the request in progress
          left,   \* per client: requests still to issue
          hist,   \* completed requests [c, op, n, m, inv, resp, res]
          clk     \* global event counter
vars == <<tree, tree0, ac, dc, agen, dgen, pc, left, hist, clk>>

Root == << >>
P(n) == <<n>>
FileNode(n) == Node(P(n), "F", 420, 0, 0, "", << >>, FALSE)
DirNode(n) == Node(P(n), "D", 493, 0, 0, "", << >>, FALSE)
RootNode == Node(Root, "D", 493, 0, 0, "", << >>, FALSE)
TreeWith(kinds) == [p \in {Root} \cup {P(n) : n \in {x \in Names : kinds[x] # "N"}} |->
                      IF p = Root THEN RootNode ELSE IF kinds[p[1]] = "F" THEN FileNode(p[1]) ELSE DirNode(p[1])]
NamesOf(tr) == {Last(q) : q \in Children(tr, Root)}
K(tr, n) == Kind(tr, P(n))

\* ownership maps for the configurations (a cfg file cannot write a function)
OwnerOne == [n \in Names |-> "c1"]                           \* c1 owns every name, the others only read
OwnerSplit == [n \in Names |-> IF n = "a" THEN "c1" ELSE "c2"]
OwnerAny == [n \in Names |-> "any"]                          \* names are shared (outside the property's premise)
Ops22 == [c \in Clients |-> 2]
Ops21 == [c \in Clients |-> IF c = "c1" THEN 2 ELSE 1]
Ops11 == [c \in Clients |-> 1]

Idle == [op |-> "idle"]
NoDC == [has |-> FALSE, names |-> {}]
Caching == ~MinTTL

May(c, n) == Owner[n] \in {c, "any"}
Menu(c) ==
  {[op |-> o, n |-> n, m |-> n] : o \in Procs \cap {"LOOKUP", "CREATE", "MKDIR", "REMOVE"}, n \in {x \in Names : May(c, x)}}
  \cup {[op |-> "RENAME", n |-> n, m |-> m] : n \in {x \in Names : May(c, x) /\ "RENAME" \in Procs}, m \in {x \in Names : May(c, x)}}
  \cup (IF "READDIR" \in Procs THEN {[op |-> "READDIR", n |-> "", m |-> ""]} ELSE {})

Init == /\ \E kinds \in [Names -> InitKinds] : tree = TreeWith(kinds)
        /\ tree0 = tree
        /\ ac = [n \in Names |-> "none"]
        /\ dc = NoDC
        /\ agen = 0 /\ dgen = 0
        /\ pc = [c \in Clients |-> Idle]
        /\ left = OpsPerClient
        /\ hist = {}
        /\ clk = 0

-----------------------------------------------------------------------------
(* Invocation: the client picks its next request.                          *)
First(o) == CASE o = "LOOKUP" -> IF Caching THEN "lk_get" ELSE "lk_stat"
              [] o = "CREATE" -> "cr_stat"
              [] o = "MKDIR" -> IF AtomicMkdir THEN "mk_do" ELSE "mk_chk"
              [] o = "REMOVE" -> "rm_do"
              [] o = "RENAME" -> "rn_do"
              [] o = "READDIR" -> IF Caching /\ DirCache THEN "rd_get" ELSE "rd_read"

Invoke(c) ==
  /\ pc[c] = Idle /\ left[c] > 0
  /\ \E r \in Menu(c) :
       pc' = [pc EXCEPT ![c] = [op |-> r.op, n |-> r.n, m |-> r.m, lbl |-> First(r.op), inv |-> clk + 1,
                                cur |-> r.n, cont |-> "reply", S |-> {}, found |-> {}, g |-> 0, lk |-> "", res |-> "", names |-> {}]]
  /\ clk' = clk + 1
  /\ UNCHANGED <<tree, tree0, ac, dc, agen, dgen, left, hist>>

Goto(c, l) == pc' = [pc EXCEPT ![c].lbl = l]

-----------------------------------------------------------------------------
(* LookupWithContext on name pc[c].cur (also used inside CREATE / MKDIR /   *)
(* READDIR; cont says where its result goes).                               *)
LkGet(c) ==
  LET s == pc[c] IN
  /\ s.op # "idle" /\ s.lbl = "lk_get"
  /\ IF ac[s.cur] = "neg" THEN pc' = [pc EXCEPT ![c].lk = "NOENT", ![c].lbl = "lk_done"]
     ELSE IF ac[s.cur] # "none" THEN pc' = [pc EXCEPT ![c].lk = ac[s.cur], ![c].lbl = "lk_done"]
     ELSE pc' = [pc EXCEPT ![c].g = agen, ![c].lbl = "lk_stat"]
  /\ UNCHANGED <<tree, tree0, ac, dc, agen, dgen, left, hist, clk>>

LkStat(c) ==
  LET s == pc[c] IN
  /\ s.op # "idle" /\ s.lbl = "lk_stat"
  /\ pc' = [pc EXCEPT ![c].lk = IF K(tree, s.cur) = "N" THEN "NOENT" ELSE K(tree, s.cur),
                      ![c].lbl = IF Caching THEN "lk_put" ELSE "lk_done"]
  /\ UNCHANGED <<tree, tree0, ac, dc, agen, dgen, left, hist, clk>>

LkPut(c) ==
  LET s == pc[c]
      skip == GuardedPut /\ agen # s.g
  IN /\ s.op # "idle" /\ s.lbl = "lk_put"
     /\ ac' = IF skip THEN ac
              ELSE IF s.lk = "NOENT" THEN (IF NegCache THEN [ac EXCEPT ![s.cur] = "neg"] ELSE ac)
              ELSE [ac EXCEPT ![s.cur] = s.lk]
     /\ Goto(c, "lk_done")
     /\ UNCHANGED <<tree, tree0, dc, agen, dgen, left, hist, clk>>

\* the lookup result goes where the handler wants it
LkDone(c) ==
  LET s == pc[c] IN
  /\ s.op # "idle" /\ s.lbl = "lk_done"
  /\ CASE s.cont = "reply" /\ s.op = "LOOKUP" -> pc' = [pc EXCEPT ![c].res = s.lk, ![c].lbl = "ret"]
       [] s.cont = "reply" -> \* CREATE / MKDIR: the reply carries the new object's attributes
            pc' = [pc EXCEPT ![c].res = IF s.lk = "NOENT" THEN "FAIL" ELSE "OK", ![c].lbl = "ret"]
       [] s.cont = "rd_next" ->
            pc' = [pc EXCEPT ![c].found = IF s.lk # "NOENT" \/ SnapshotReaddir THEN @ \cup {s.cur} ELSE @,
                             ![c].lbl = "rd_next"]
  /\ UNCHANGED <<tree, tree0, ac, dc, agen, dgen, left, hist, clk>>

-----------------------------------------------------------------------------
(* Invalidations after a successful mutation of names X (attribute cache:   *)
(* the paths, and the negative entries of the directory; then the listing). *)
InvAttr(c) ==
  LET s == pc[c] IN
  /\ s.op # "idle" /\ s.lbl = "inv_a"
  /\ ac' = [x \in Names |-> IF x \in {s.n, s.m} \/ ac[x] = "neg" THEN "none" ELSE ac[x]]
  /\ agen' = agen + 1
  /\ Goto(c, "inv_d")
  /\ UNCHANGED <<tree, tree0, dc, dgen, left, hist, clk>>

InvDir(c) ==
  LET s == pc[c] IN
  /\ s.op # "idle" /\ s.lbl = "inv_d"
  /\ dc' = NoDC /\ dgen' = dgen + 1
  /\ IF s.op \in {"CREATE", "MKDIR"}
     THEN pc' = [pc EXCEPT ![c].cur = s.n, ![c].cont = "reply", ![c].lbl = IF Caching THEN "lk_get" ELSE "lk_stat"]
     ELSE pc' = [pc EXCEPT ![c].res = "OK", ![c].lbl = "ret"]
  /\ UNCHANGED <<tree, tree0, ac, agen, left, hist, clk>>

AfterMutation(c) == IF Caching THEN Goto(c, "inv_a")
                    ELSE IF pc[c].op \in {"CREATE", "MKDIR"}
                         THEN pc' = [pc EXCEPT ![c].cur = pc[c].n, ![c].cont = "reply", ![c].lbl = "lk_stat"]
                         ELSE pc' = [pc EXCEPT ![c].res = "OK", ![c].lbl = "ret"]
Refuse(c) == pc' = [pc EXCEPT ![c].res = "FAIL", ![c].lbl = "ret"]

-----------------------------------------------------------------------------
(* CREATE (GUARDED): Lstat, then fs.Create (O_CREATE|O_TRUNC).               *)
CrStat(c) ==
  LET s == pc[c] IN
  /\ s.op # "idle" /\ s.lbl = "cr_stat"
  /\ IF K(tree, s.n) # "N" THEN Refuse(c) ELSE Goto(c, "cr_make")
  /\ UNCHANGED <<tree, tree0, ac, dc, agen, dgen, left, hist, clk>>

CrMake(c) ==
  LET s == pc[c] IN
  /\ s.op # "idle" /\ s.lbl = "cr_make"
  /\ CASE K(tree, s.n) = "D" -> Refuse(c) /\ UNCHANGED tree                        \* EISDIR
       [] K(tree, s.n) = "F" -> AfterMutation(c) /\ UNCHANGED tree               \* truncates (files carry no data here)
       [] OTHER -> AfterMutation(c) /\ tree' = Put(tree, P(s.n), FileNode(s.n))
  /\ UNCHANGED <<tree0, ac, dc, agen, dgen, left, hist, clk>>

(* MKDIR: the backend's Mkdir is atomic (EEXIST).  The mutant checks first. *)
MkDo(c) ==
  LET s == pc[c] IN
  /\ s.op # "idle" /\ s.lbl = "mk_do"
  /\ IF K(tree, s.n) # "N" THEN Refuse(c) /\ UNCHANGED tree
     ELSE AfterMutation(c) /\ tree' = Put(tree, P(s.n), DirNode(s.n))
  /\ UNCHANGED <<tree0, ac, dc, agen, dgen, left, hist, clk>>

MkChk(c) ==
  LET s == pc[c] IN
  /\ s.op # "idle" /\ s.lbl = "mk_chk"
  /\ IF K(tree, s.n) # "N" THEN Refuse(c) ELSE Goto(c, "mk_put")
  /\ UNCHANGED <<tree, tree0, ac, dc, agen, dgen, left, hist, clk>>

MkPut(c) ==
  LET s == pc[c] IN
  /\ s.op # "idle" /\ s.lbl = "mk_put"
  /\ AfterMutation(c) /\ tree' = Put(tree, P(s.n), DirNode(s.n))
  /\ UNCHANGED <<tree0, ac, dc, agen, dgen, left, hist, clk>>

(* REMOVE: fs.Remove (files and empty directories).                         *)
RmDo(c) ==
  LET s == pc[c] IN
  /\ s.op # "idle" /\ s.lbl = "rm_do"
  /\ IF K(tree, s.n) = "N" THEN Refuse(c) /\ UNCHANGED tree
     ELSE AfterMutation(c) /\ tree' = Without(tree, {P(s.n)})
  /\ UNCHANGED <<tree0, ac, dc, agen, dgen, left, hist, clk>>

(* RENAME: fs.Rename.                                                       *)
RnDo(c) ==
  LET s == pc[c]
      ks == K(tree, s.n)
      kd == K(tree, s.m)
  IN /\ s.op # "idle" /\ s.lbl = "rn_do"
     /\ CASE ks = "N" -> Refuse(c) /\ UNCHANGED tree
          [] s.n = s.m -> AfterMutation(c) /\ UNCHANGED tree
          [] kd = "N" \/ kd = ks -> AfterMutation(c) /\ tree' = Move(tree, P(s.n), P(s.m))
          [] OTHER -> Refuse(c) /\ UNCHANGED tree
     /\ UNCHANGED <<tree0, ac, dc, agen, dgen, left, hist, clk>>

-----------------------------------------------------------------------------
(* READDIR.                                                                 *)
RdGet(c) ==
  LET s == pc[c] IN
  /\ s.op # "idle" /\ s.lbl = "rd_get"
  /\ IF dc.has THEN pc' = [pc EXCEPT ![c].S = dc.names, ![c].lbl = "rd_next"]
     ELSE pc' = [pc EXCEPT ![c].g = dgen, ![c].lbl = "rd_read"]
  /\ UNCHANGED <<tree, tree0, ac, dc, agen, dgen, left, hist, clk>>

RdRead(c) ==
  LET s == pc[c] IN
  /\ s.op # "idle" /\ s.lbl = "rd_read"
  /\ pc' = [pc EXCEPT ![c].S = NamesOf(tree), ![c].lbl = IF Caching /\ DirCache THEN "rd_put" ELSE "rd_next"]
  /\ UNCHANGED <<tree, tree0, ac, dc, agen, dgen, left, hist, clk>>

RdPut(c) ==
  LET s == pc[c] IN
  /\ s.op # "idle" /\ s.lbl = "rd_put"
  /\ dc' = IF GuardedPut /\ dgen # s.g THEN dc ELSE [has |-> TRUE, names |-> s.S]
  /\ Goto(c, "rd_next")
  /\ UNCHANGED <<tree, tree0, ac, agen, dgen, left, hist, clk>>

\* entries are looked up one after the other (the backend's order is not fixed: any order)
RdNext(c) ==
  LET s == pc[c]
      todo == s.S \ s.names
  IN /\ s.op # "idle" /\ s.lbl = "rd_next"
     /\ IF todo = {} THEN pc' = [pc EXCEPT ![c].lbl = "ret"]
        ELSE \E x \in todo :
             pc' = [pc EXCEPT ![c].names = @ \cup {x}, ![c].cur = x, ![c].cont = "rd_next",
                              ![c].lbl = IF Caching THEN "lk_get" ELSE "lk_stat"]
     /\ UNCHANGED <<tree, tree0, ac, dc, agen, dgen, left, hist, clk>>

-----------------------------------------------------------------------------
(* Response.                                                                *)
Return(c) ==
  LET s == pc[c] IN
  /\ s.op # "idle" /\ s.lbl = "ret"
  /\ hist' = hist \cup {[c |-> c, op |-> s.op, n |-> s.n, m |-> s.m, inv |-> s.inv, resp |-> clk + 1,
                         res |-> s.res, names |-> IF s.op = "READDIR" THEN s.found ELSE {}]}
  /\ clk' = clk + 1
  /\ pc' = [pc EXCEPT ![c] = Idle]
  /\ left' = [left EXCEPT ![c] = @ - 1]
  /\ UNCHANGED <<tree, tree0, ac, dc, agen, dgen>>

Next == \E c \in Clients :
          \/ Invoke(c) \/ LkGet(c) \/ LkStat(c) \/ LkPut(c) \/ LkDone(c) \/ InvAttr(c) \/ InvDir(c)
          \/ CrStat(c) \/ CrMake(c) \/ MkDo(c) \/ MkChk(c) \/ MkPut(c) \/ RmDo(c) \/ RnDo(c)
          \/ RdGet(c) \/ RdRead(c) \/ RdPut(c) \/ RdNext(c) \/ Return(c)

Spec == Init /\ [][Next]_vars

-----------------------------------------------------------------------------
(* The property.                                                            *)
Quiescent == \A c \in Clients : pc[c] = Idle /\ left[c] = 0

\* allowed results of request o in tree tr (ideal level, CoreOps): the trees it may leave
MutOut(o, tr) ==
  CASE o.op = "CREATE" -> CreateOut(tr, Root, o.n, "ok", "GUARDED", TRUE, 420, FALSE, 0, "", "", 0, 0)
    [] o.op = "MKDIR" -> MkdirOut(tr, Root, o.n, "ok", TRUE, 493, 0, 0)
    [] o.op = "REMOVE" -> RemoveOut(tr, Root, o.n, "ok")
    [] o.op = "RENAME" -> RenameOut(tr, Root, o.n, "ok", Root, o.m, "ok")
IdealLookup(tr, n) == IF K(tr, n) = "N" THEN "NOENT" ELSE K(tr, n)
After(o, tr, past) ==
  CASE o.op = "LOOKUP" -> IF \E tp \in (IF MinTTL THEN {tr} ELSE past \cup {tr}) : o.res = IdealLookup(tp, o.n) THEN {tr} ELSE {}
    [] o.op = "READDIR" -> IF \E tp \in (IF MinTTL THEN {tr} ELSE past \cup {tr}) : o.names = NamesOf(tp) THEN {tr} ELSE {}
    [] OTHER -> {x.tree : x \in {y \in MutOut(o, tr) : y.ok = (o.res = "OK")}}

RECURSIVE Lin(_, _, _)
Lin(D, tr, past) ==
  IF D = hist THEN tr = tree
  ELSE \E o \in hist \ D :
         /\ \A p \in hist : p.resp < o.inv => p \in D
         /\ \E t2 \in After(o, tr, past) : Lin(D \cup {o}, t2, past \cup {t2})

Linearizable == Quiescent => Lin({}, tree0, {tree0})

\* afterwards the caches agree with the backend
Coherent ==
  Quiescent =>
    /\ \A n \in Names : ac[n] = "neg" => K(tree, n) = "N"
    /\ \A n \in Names : ac[n] \in {"F", "D"} => K(tree, n) = ac[n]
    /\ dc.has => dc.names = NamesOf(tree)

TypeOK == /\ \A c \in Clients : left[c] \in 0..OpsPerClient[c]
          /\ ac \in [Names -> {"none", "neg", "F", "D"}]
          /\ MinTTL => (\A n \in Names : ac[n] = "none") /\ ~dc.has
=============================================================================

------------------------------ MODULE FileData ------------------------------
(***************************************************************************)
(* Design spec of the data path (C01, C25): one file as                     *)
(*   d     the byte sequence maintained with the CoreOps operators Overlay  *)
(*         and Resize (the operators CoreTrace applies to recorded steps),  *)
(*   m,sz  an independent byte-array model: m[i] is byte i, sz the size,    *)
(*         updated pointwise (holes are zero).                              *)
(* TLC checks on every reachable state that both representations agree      *)
(* (so the operators used for conformance mean "byte-array model"), that    *)
(* the READ rule returns count = min(requested, T, size - offset), the      *)
(* bytes of the array model and eof exactly when offset + count reaches the *)
(* size, that a WRITE acknowledging n bytes stored exactly the first n, and *)
(* that with MaxFS > 0 the file never grows beyond it (FBIG, unchanged).    *)
(***************************************************************************)
EXTENDS CoreOps, TLC

CONSTANTS Bytes,   \* payload alphabet, e.g. {1, 2}
          MaxOff,  \* offsets 0..MaxOff
          MaxLen,  \* payload lengths 0..MaxLen
          T,       \* transfer size
          MaxFS    \* 0 = unlimited

Idx == 0..(MaxOff + MaxLen + 2)
VARIABLES d, m, sz, last
vars == <<d, m, sz, last>>

Payloads == UNION {[1..n -> Bytes] : n \in 0..MaxLen}

Init == d = << >> /\ m = [i \in Idx |-> 0] /\ sz = 0 /\ last = [op |-> "init"]

\* WRITE of w at off; the server stores the first n bytes (n <= Len(w), n <= T) and says so
Write(off, w, n) ==
  /\ n <= Len(w) /\ n <= T /\ (Len(w) <= T => n = Len(w))
  /\ IF MaxFS > 0 /\ off + Len(w) > MaxFS
     THEN UNCHANGED <<d, m, sz>> /\ last' = [op |-> "write", st |-> "FBIG", off |-> off, w |-> w, n |-> 0]
     ELSE /\ d' = Overlay(d, off, SubSeq(w, 1, n))
          /\ m' = [i \in Idx |-> IF i >= off /\ i < off + n THEN w[i - off + 1] ELSE m[i]]
          /\ sz' = IF n > 0 /\ off + n > sz THEN off + n ELSE sz
          /\ last' = [op |-> "write", st |-> "OK", off |-> off, w |-> w, n |-> n]

SetSize(n) ==
  IF MaxFS > 0 /\ n > MaxFS
  THEN UNCHANGED <<d, m, sz>> /\ last' = [op |-> "setsize", st |-> "FBIG", n |-> n]
  ELSE /\ d' = Resize(d, n)
       /\ m' = [i \in Idx |-> IF i >= n THEN 0 ELSE m[i]]
       /\ sz' = n
       /\ last' = [op |-> "setsize", st |-> "OK", n |-> n]

Read(off, cnt) ==
  LET c == ReadCount(Len(d), off, cnt, T) IN
  /\ UNCHANGED <<d, m, sz>>
  /\ last' = [op |-> "read", off |-> off, cnt |-> cnt, count |-> c, data |-> ReadBytes(d, off, c), eof |-> (off + c >= Len(d))]

Next == \/ \E off \in 0..MaxOff, w \in Payloads, n \in 0..MaxLen : Write(off, w, n)
        \/ \E n \in 0..(MaxOff + MaxLen) : SetSize(n)
        \/ \E off \in 0..(MaxOff + MaxLen + 1), cnt \in 0..(MaxLen + 2) : Read(off, cnt)
Spec == Init /\ [][Next]_vars

\* the sequence representation is the byte-array model
SameModel == /\ Len(d) = sz
             /\ \A i \in Idx : (i < sz => d[i + 1] = m[i]) /\ (i >= sz => m[i] = 0)

\* READ returns what the byte-array model holds
ReadRule == last.op = "read" =>
   /\ last.count = Min2(Min2(last.cnt, T), Max2(sz - last.off, 0))
   /\ Len(last.data) = last.count
   /\ \A j \in 1..last.count : last.data[j] = m[last.off + j - 1]
   /\ last.eof = (last.off + last.count >= sz)

\* a WRITE that says OK with count n stored exactly the first n bytes at its offset
WriteRule == (last.op = "write" /\ last.st = "OK") =>
   \A j \in 1..last.n : m[last.off + j - 1] = last.w[j]

\* MaxFileSize is never exceeded
Bounded == MaxFS > 0 => sz <= MaxFS

\* a refused request changes nothing
RefusedUnchanged == [][(last'.op \in {"write", "setsize"} /\ last'.st = "FBIG") => (d' = d /\ sz' = sz)]_vars
=============================================================================

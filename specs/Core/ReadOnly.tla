------------------------------ MODULE ReadOnly ------------------------------
(***************************************************************************)
(* Design spec for C08: a read-only export is never modified.               *)
(* State: ro (the policy in force; drain-and-swap, C16, makes a switch      *)
(* atomic with respect to requests), ver (how often the backend was         *)
(* modified), last.  A request of procedure p with arguments of kind k      *)
(* (wellformed, truncated before/after the handle, garbage) runs the        *)
(* handler's guards in the code's order: every mutating handler tests the   *)
(* policy before decoding anything; the operations layer tests it again;    *)
(* ACCESS masks MODIFY/EXTEND/DELETE.  GuardFirst = FALSE models a handler  *)
(* that decodes and acts before testing (non-vacuity).                      *)
(***************************************************************************)
EXTENDS Integers, TLC

CONSTANTS Procs, MutProcs, ArgKinds, GuardFirst
VARIABLES ro, ver, last
vars == <<ro, ver, last>>

Init == ro \in BOOLEAN /\ ver = 0 /\ last = [proc |-> "none", ok |-> FALSE, mut |-> 0, ro |-> FALSE, grant |-> FALSE]

Toggle == ro' = ~ro /\ UNCHANGED <<ver, last>>

Request(p, k) ==
  LET decodes == k = "wellformed"
      blocked == ro /\ p \in MutProcs /\ (GuardFirst \/ ~decodes)
      acts == p \in MutProcs /\ decodes /\ ~blocked /\ ~(ro /\ GuardFirst)
  IN /\ ver' = IF acts /\ ver < 3 THEN ver + 1 ELSE ver
     /\ last' = [proc |-> p, ok |-> (decodes /\ ~blocked), mut |-> (IF acts THEN 1 ELSE 0), ro |-> ro,
                 grant |-> (p = "ACCESS" /\ decodes /\ ~ro)]
     /\ UNCHANGED ro

Next == Toggle \/ \E p \in Procs, k \in ArgKinds : Request(p, k)
Spec == Init /\ [][Next]_vars

NeverModified == last.ro => (last.mut = 0 /\ (last.proc \in MutProcs => ~last.ok) /\ ~last.grant)
Unchanged == [][ro => ver' = ver]_vars
=============================================================================

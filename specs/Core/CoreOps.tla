------------------------------ MODULE CoreOps ------------------------------
(***************************************************************************)
(* Ideal semantics of the NFSv3 request path of absnfs over a POSIX tree,   *)
(* as pure operators over explicit state values.  Shared by the design      *)
(* specs (Namespace, FileData) and by CoreTrace, which applies them to      *)
(* logged pre-states.                                                       *)
(*                                                                         *)
(* A tree is a function from paths (sequences of names, root = << >>) to    *)
(* node records                                                             *)
(*   [p, k \in {"D","F","L"}, d (bytes), sz, szbig, t, tc, tabs, perm, uid, gid]. *)
(* A handle denotes the path it was issued for.  Only what the properties   *)
(* state is constrained: success/failure, the resulting tree, and the       *)
(* results a reply carries; where RFC 1813 or the property leaves a choice  *)
(* the set of allowed outcomes has several members.                         *)
(***************************************************************************)
EXTENDS Integers, Sequences, FiniteSets

Rng(s) == {s[i] : i \in DOMAIN s}
Min2(a, b) == IF a < b THEN a ELSE b
Max2(a, b) == IF a > b THEN a ELSE b

Parent(p) == SubSeq(p, 1, Len(p) - 1)
IsPrefix(p, q) == Len(p) <= Len(q) /\ SubSeq(q, 1, Len(p)) = p
Kind(t, p) == IF p \in DOMAIN t THEN t[p].k ELSE "N"
IsDir(t, p) == Kind(t, p) = "D"
Children(t, p) == {q \in DOMAIN t : Len(q) = Len(p) + 1 /\ IsPrefix(p, q)}
Subtree(t, p) == {q \in DOMAIN t : IsPrefix(p, q)}
Without(t, S) == [q \in (DOMAIN t) \ S |-> t[q]]
Put(t, p, n) == [q \in (DOMAIN t) \cup {p} |-> IF q = p THEN n ELSE t[q]]
Last(p) == p[Len(p)]

Node(p, k, perm, uid, gid, tgt, tc, tabs) ==
  [p |-> p, k |-> k, d |-> << >>, sz |-> 0, szbig |-> FALSE, t |-> tgt, tc |-> tc, tabs |-> tabs,
   perm |-> perm, uid |-> uid, gid |-> gid]

\* trees are compared up to what the tree properties do not fix: permission bits of symbolic
\* links, and ownership (which C11 states separately)
Norm(t) == [q \in DOMAIN t |-> IF t[q].k = "L" THEN [t[q] EXCEPT !.perm = 0, !.uid = 0, !.gid = 0]
                                ELSE [t[q] EXCEPT !.uid = 0, !.gid = 0]]

\* effective identity after squashing (C10 states the rule; C11 uses it)
Squash(mode, flavor, uid, gid) ==
  IF flavor = "NONE" THEN <<65534, 65534>>
  ELSE CASE mode = "all" -> <<65534, 65534>>
         [] mode = "root" -> IF uid = 0 THEN <<65534, 65534>> ELSE IF gid = 0 THEN <<uid, 65534>> ELSE <<uid, gid>>
         [] mode \in {"none", ""} -> <<uid, gid>>
         [] OTHER -> <<65534, 65534>>

\* move the subtree rooted at src to dst (dst and what is below it is replaced)
Move(t, src, dst) ==
  LET sub  == Subtree(t, src)
      rest == Without(t, sub \cup Subtree(t, dst))
      tgt(y) == dst \o SubSeq(y, Len(src) + 1, Len(y))
      moved == {tgt(y) : y \in sub}
  IN [x \in (DOMAIN rest) \cup moved |->
        IF x \in moved
        THEN LET y == src \o SubSeq(x, Len(dst) + 1, Len(x)) IN [t[y] EXCEPT !.p = x]
        ELSE rest[x]]

\* follow a symbolic link in the final component (the backend does; at most 8 hops)
RECURSIVE ResolveN(_, _, _)
ResolveN(t, p, n) ==
  IF Kind(t, p) # "L" \/ n = 0 THEN p
  ELSE ResolveN(t, IF t[p].tabs THEN t[p].tc ELSE Parent(p) \o t[p].tc, n - 1)
Resolve(t, p) == ResolveN(t, p, 8)

ValidName(cls) == cls = "ok"
Perm(mode) == mode % 512

\* ---------------------------------------------------------------- file data
Zeros(n) == [i \in 1..n |-> 0]
Resize(d, n) == IF n <= Len(d) THEN SubSeq(d, 1, n) ELSE d \o Zeros(n - Len(d))
Overlay(d, off, w) ==
  IF Len(w) = 0 THEN d ELSE     \* a zero-length write changes nothing, not even the size
  LET n == Max2(Len(d), off + Len(w)) IN
  [i \in 1..n |-> IF i > off /\ i <= off + Len(w) THEN w[i - off]
                  ELSE IF i <= Len(d) THEN d[i] ELSE 0]
ReadCount(sz, off, cnt, T) == Min2(Min2(cnt, T), Max2(sz - off, 0))
ReadBytes(d, off, n) == IF n = 0 THEN << >> ELSE SubSeq(d, off + 1, off + n)

\* ---------------------------------------------------------------- outcomes
\* An outcome is [ok |-> BOOLEAN, tree |-> tree].
Fail(t) == {[ok |-> FALSE, tree |-> t]}
Ok(t) == {[ok |-> TRUE, tree |-> t]}

DirOpReady(t, P, cls) == IsDir(t, P) /\ ValidName(cls)

\* CREATE.  verfOf = the verifier that created child (or "" when unknown / none)
CreateOut(t, P, name, cls, how, hasmode, mode, hassize, size, verf, verfOf, uid, gid) ==
  LET c == Append(P, name)
      perm == IF how = "EXCLUSIVE" \/ ~hasmode THEN 420 ELSE Perm(mode)
      new == Node(c, "F", perm, uid, gid, "", << >>, FALSE)
  IN IF ~DirOpReady(t, P, cls) THEN Fail(t)
     ELSE CASE Kind(t, c) = "N" -> Ok(Put(t, c, new))
            [] Kind(t, c) = "F" ->
                 IF how = "UNCHECKED"
                 THEN LET keep == IF hassize THEN [t[c] EXCEPT !.d = Resize(@, size), !.sz = size] ELSE t[c] IN
                      \* the server may or may not apply the mode to the existing file
                      Ok(Put(t, c, keep)) \cup (IF hasmode THEN Ok(Put(t, c, [keep EXCEPT !.perm = Perm(mode)])) ELSE {})
                 ELSE IF how = "EXCLUSIVE" /\ verfOf = verf /\ verf # "" THEN Ok(t)
                 ELSE Fail(t)
            [] Kind(t, c) = "D" -> Fail(t)
            [] Kind(t, c) = "L" ->
                 IF how # "UNCHECKED" THEN Fail(t)
                 ELSE LET r == Resolve(t, c) IN
                      \* follow or refuse; an existing target is never truncated
                      Fail(t) \cup Ok(t)
                      \cup (IF Kind(t, r) = "N" /\ IsDir(t, Parent(r)) /\ Len(r) > 0
                            THEN Ok(Put(t, r, Node(r, "F", perm, uid, gid, "", << >>, FALSE))) ELSE {})

\* CREATE on an existing name in GUARDED or EXCLUSIVE (other verifier) mode must say EXIST
CreateMustSayExist(t, P, name, cls, how, verf, verfOf) ==
  /\ DirOpReady(t, P, cls) /\ Kind(t, Append(P, name)) # "N"
  /\ how \in {"GUARDED", "EXCLUSIVE"}
  /\ ~(how = "EXCLUSIVE" /\ Kind(t, Append(P, name)) = "F" /\ verfOf = verf /\ verf # "")

MkdirOut(t, P, name, cls, hasmode, mode, uid, gid) ==
  LET c == Append(P, name) IN
  IF DirOpReady(t, P, cls) /\ Kind(t, c) = "N"
  THEN Ok(Put(t, c, Node(c, "D", IF hasmode THEN Perm(mode) ELSE 493, uid, gid, "", << >>, FALSE)))
  ELSE Fail(t)

SymlinkOut(t, P, name, cls, tgt, tc, tgtok, uid, gid) ==
  LET c == Append(P, name) IN
  IF DirOpReady(t, P, cls) /\ Kind(t, c) = "N" /\ tgtok
  THEN Ok(Put(t, c, Node(c, "L", 0, uid, gid, tgt, tc, FALSE)))
  ELSE Fail(t)

RemoveOut(t, P, name, cls) ==
  LET c == Append(P, name) IN
  IF ~DirOpReady(t, P, cls) THEN Fail(t)
  ELSE CASE Kind(t, c) \in {"F", "L"} -> Ok(Without(t, {c}))
         [] Kind(t, c) = "D" -> IF Children(t, c) = {} THEN Fail(t) \cup Ok(Without(t, {c})) ELSE Fail(t)
         [] OTHER -> Fail(t)

RmdirOut(t, P, name, cls) ==
  LET c == Append(P, name) IN
  IF ~DirOpReady(t, P, cls) THEN Fail(t)
  ELSE CASE Kind(t, c) = "D" -> IF Children(t, c) = {} THEN Ok(Without(t, {c})) ELSE Fail(t)
         [] Kind(t, c) = "L" -> IF IsDir(t, Resolve(t, c)) THEN Fail(t) \cup Ok(Without(t, {c})) ELSE Fail(t)
         [] OTHER -> Fail(t)

RenameOut(t, P1, n1, cls1, P2, n2, cls2) ==
  LET src == Append(P1, n1)
      dst == Append(P2, n2)
  IN IF ~(DirOpReady(t, P1, cls1) /\ DirOpReady(t, P2, cls2)) \/ Kind(t, src) = "N" THEN Fail(t)
     ELSE IF src = dst THEN Ok(t)
     ELSE IF Kind(t, src) = "D" /\ IsPrefix(src, dst) THEN Fail(t)
     ELSE CASE Kind(t, dst) = "N" -> Ok(Move(t, src, dst))
            [] Kind(t, src) = "D" /\ Kind(t, dst) = "D" /\ Children(t, dst) = {} -> Ok(Move(t, src, dst))
            [] Kind(t, src) # "D" /\ Kind(t, dst) # "D" -> Ok(Move(t, src, dst))
            [] OTHER -> Fail(t)

\* SETATTR: mode, size, uid, gid (times are not compared anywhere)
SetattrOut(t, P, hasmode, mode, hassize, size, chown, uid, gid, maxfs) ==
  \* (a mode3 with bits above 16 bits may also be refused: CoreTrace adds Fail for it)
  LET r == Resolve(t, P)
      app(n) == LET n1 == IF hasmode THEN [n EXCEPT !.perm = Perm(mode)] ELSE n
                    n2 == IF chown THEN [n1 EXCEPT !.uid = uid, !.gid = gid] ELSE n1
                IN n2
  IN IF Kind(t, P) = "N" THEN Fail(t)
     ELSE IF Kind(t, P) = "L"
          THEN \* through a link handle: refuse, leave everything but the link's own ownership and
               \* times alone (a mode is ignored on a link, as other NFS servers do), or act on what
               \* the backend resolved
               Fail(t) \cup (IF ~hassize THEN Ok(t) ELSE {})
                       \cup (IF Kind(t, r) \in {"F", "D"} /\ ~hassize THEN Ok(Put(t, r, app(t[r]))) ELSE {})
                       \cup (IF Kind(t, r) = "F" /\ hassize /\ (maxfs = 0 \/ size <= maxfs)
                             THEN Ok(Put(t, r, app([t[r] EXCEPT !.d = Resize(@, size), !.sz = size]))) ELSE {})
     ELSE IF Kind(t, P) = "D"
          THEN IF hassize THEN Fail(t) \cup Ok(Put(t, P, app(t[P]))) ELSE Ok(Put(t, P, app(t[P])))
     ELSE IF hassize /\ maxfs > 0 /\ size > maxfs THEN Fail(t)
     ELSE IF hassize THEN Ok(Put(t, P, app([t[P] EXCEPT !.d = Resize(@, size), !.sz = size])))
     ELSE Ok(Put(t, P, app(t[P])))

\* WRITE of `data` at a small offset; n = the count the reply reports
WriteOut(t, P, off, data, n, maxfs, T) ==
  LET r == Resolve(t, P)
      w == SubSeq(data, 1, n)
      upd(q) == Put(t, q, [t[q] EXCEPT !.d = Overlay(@, off, w), !.sz = IF Len(w) = 0 THEN @ ELSE Max2(@, off + Len(w))])
  IN IF Kind(t, P) = "F"
     THEN IF maxfs > 0 /\ off + Len(data) > maxfs THEN Fail(t)
          ELSE (IF Len(data) > T THEN Fail(t) ELSE {})   \* above the transfer size: refuse or store a prefix
               \cup (IF n >= 0 /\ n <= Len(data) THEN Ok(upd(P)) ELSE {})
     ELSE IF Kind(t, P) = "L" /\ Kind(t, r) = "F"
          THEN Fail(t) \cup (IF n >= 0 /\ n <= Len(data) /\ (maxfs = 0 \/ off + Len(data) <= maxfs) THEN Ok(upd(r)) ELSE {})
     ELSE Fail(t)
=============================================================================

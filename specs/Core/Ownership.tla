------------------------------ MODULE Ownership ------------------------------
(***************************************************************************)
(* Design spec for C11: only an effective root identity can assign          *)
(* ownership.  State: owner (uid, gid) of a few objects.  Actions: CREATE,  *)
(* MKDIR, SYMLINK and SETATTR by a caller with credential (uid, gid) under  *)
(* a squash mode, with any subset of sattr3 uid/gid set, at the grain of    *)
(* the handlers: the effective identity is computed first (CoreOps!Squash), *)
(* the sattr3 override applies only for an effective uid 0, then the        *)
(* backend records the owner (CreateChowns switches finding F08).           *)
(***************************************************************************)
EXTENDS CoreOps, TLC

CONSTANTS Ids, Objs, Modes, CreateChowns
VARIABLES owner, last
vars == <<owner, last>>
Server == <<0, 0>>      \* the identity the server process runs as: owner of what nobody chowns

Init == owner = [o \in Objs |-> <<-1, -1>>] /\ last = [op |-> "init"]   \* -1 = object does not exist

Who(mode, uid, gid, su, u, sg, g) ==
  LET e == Squash(mode, "SYS", uid, gid) IN
  <<IF su /\ e[1] = 0 THEN u ELSE e[1], IF sg /\ e[1] = 0 THEN g ELSE e[2]>>

New(proc, o, mode, uid, gid, su, u, sg, g) ==
  /\ owner[o] = <<-1, -1>>
  /\ LET w == Who(mode, uid, gid, su, u, sg, g)
         rec == IF proc = "CREATE" /\ ~CreateChowns THEN Server ELSE w
     IN /\ owner' = [owner EXCEPT ![o] = rec]
        /\ last' = [op |-> proc, o |-> o, eff |-> Squash(mode, "SYS", uid, gid), rec |-> rec]

Setattr(o, mode, uid, gid, su, u, sg, g) ==
  /\ owner[o] # <<-1, -1>>
  /\ LET e == Squash(mode, "SYS", uid, gid)
         rec == <<IF su /\ e[1] = 0 THEN u ELSE owner[o][1], IF sg /\ e[1] = 0 THEN g ELSE owner[o][2]>>
     IN /\ owner' = [owner EXCEPT ![o] = rec]
        /\ last' = [op |-> "SETATTR", o |-> o, eff |-> e, rec |-> rec]

Next == \E o \in Objs, mode \in Modes, uid \in Ids, gid \in Ids, su \in BOOLEAN, u \in Ids, sg \in BOOLEAN, g \in Ids :
          \/ \E proc \in {"CREATE", "MKDIR", "SYMLINK"} : New(proc, o, mode, uid, gid, su, u, sg, g)
          \/ Setattr(o, mode, uid, gid, su, u, sg, g)
Spec == Init /\ [][Next]_vars

\* a caller whose effective uid is not 0 never makes the backend record anything but its own ids
NonRootOnlyOwn ==
  [][ \A o \in Objs : (last'.op # "init" /\ last'.eff[1] # 0 /\ owner'[o] # owner[o]) => owner'[o] = last'.eff ]_vars
\* new objects get the caller's effective identity (an effective root may choose)
NewGetsCaller ==
  (last.op \in {"CREATE", "MKDIR", "SYMLINK"} /\ last.eff[1] # 0) => owner[last.o] = last.eff
=============================================================================

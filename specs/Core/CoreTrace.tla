----------------------------- MODULE CoreTrace -----------------------------
(***************************************************************************)
(* Step validation of recorded sequential NFSv3 histories (real handlers    *)
(* over the vfs backend) against the ideal semantics of CoreOps.            *)
(*                                                                         *)
(* One line per request: procedure, arguments, decoded result, every        *)
(* attribute-carrying position of the reply, the backend calls, and the     *)
(* full backend tree after the step.  Line l-1 supplies the pre-state.      *)
(* Failures are collected per property:  bad = {[l, prop, why]},            *)
(* dev = steps explained only by a listed known deviation.                  *)
(* Ghost state: fid (path -> fileid token first reported while the path is  *)
(* unchanged), cverf (path -> verifier of the exclusive create that made    *)
(* it).                                                                     *)
(***************************************************************************)
EXTENDS CoreOps, TLC, Json, IOUtils

CONSTANTS KnownDeviations

TraceLog == ndJsonDeserialize(IOEnv.VF_TRACE)
N == Len(TraceLog)

VARIABLES l, fid, cverf, stale, cfg, T, acked, hverf, seenverf, bad, dev, stats
vars == <<l, fid, cverf, stale, cfg, T, acked, hverf, seenverf, bad, dev, stats>>

Known(d) == d \in KnownDeviations
EmptyFn == [x \in {} |-> 0]

TreeOf(arr) == [p \in {e.p : e \in Rng(arr)} |-> CHOOSE e \in Rng(arr) : e.p = p]
Cur == TraceLog[l]
PreT == TreeOf(TraceLog[l - 1].tree)
PostT == TreeOf(Cur.tree)
R == Cur.res
P == Cur.h
C == Append(Cur.h, Cur.name)

Out == [ok |-> Cur.ok, tree |-> Norm(PostT)]
\* A handle denotes the path it was issued for.  When the object at that path was removed or
\* replaced after the handle was issued (ghost `stale`), a request through it may also simply
\* fail (NFS would say STALE); it must still never change anything when it fails.
HandleStale == P \in stale \/ (Cur.proc = "RENAME" /\ Cur.h2 \in stale)
\* a mode3 carrying bits outside the 12 permission bits may be refused or have its low bits applied
OddMode == Cur.hasmode /\ (Cur.modehi \/ Cur.mode >= 4096) /\ Cur.proc \in {"SETATTR", "CREATE", "MKDIR", "SYMLINK"}
NormOuts(S) == {[ok |-> o.ok, tree |-> Norm(o.tree)] : o \in S}
               \cup (IF HandleStale \/ OddMode THEN {[ok |-> FALSE, tree |-> Norm(PreT)]} ELSE {})

VerfOf(p) == IF p \in DOMAIN cverf THEN cverf[p] ELSE ""
MaxFS == cfg.maxfs
Eff == Squash(cfg.squash, Cur.cflavor, Cur.cuid, Cur.cgid)
EUid == Eff[1]
EGid == Eff[2]
Chown == EUid = 0 /\ (Cur.hasuid \/ Cur.hasgid)

\* --------------------------------------------------------------- allowed outcomes
Allowed ==
  CASE Cur.proc = "CREATE" ->
         CreateOut(PreT, P, Cur.name, Cur.ncls, Cur.how, Cur.hasmode, Cur.mode, Cur.hassize, Cur.size,
                   Cur.verf, VerfOf(C), EUid, EGid)
    [] Cur.proc = "MKDIR" -> MkdirOut(PreT, P, Cur.name, Cur.ncls, Cur.hasmode, Cur.mode, EUid, EGid)
    [] Cur.proc = "SYMLINK" -> SymlinkOut(PreT, P, Cur.name, Cur.ncls, Cur.tgt, Cur.tgtc, Cur.tgtok, EUid, EGid)
    [] Cur.proc = "REMOVE" -> RemoveOut(PreT, P, Cur.name, Cur.ncls)
    [] Cur.proc = "RMDIR" -> RmdirOut(PreT, P, Cur.name, Cur.ncls)
    [] Cur.proc = "RENAME" -> RenameOut(PreT, P, Cur.name, Cur.ncls, Cur.h2, Cur.name2, Cur.ncls2)
    [] Cur.proc \in {"SETATTR", "WRITE"} /\ Kind(PreT, P) = "F" /\ PreT[P].szbig /\ Kind(PostT, P) = "F" ->
         \* a file that an earlier write near 2^63 made huge is only known by a prefix window:
         \* nothing is required of its contents any more, only that nothing else changes
         Fail(PreT) \cup Ok(Put(PreT, P, PostT[P]))
    [] Cur.proc = "SETATTR" ->
         SetattrOut(PreT, P, Cur.hasmode, Cur.mode, Cur.hassize, Cur.size, Chown,
                    IF Cur.hasuid THEN Cur.uid ELSE (IF P \in DOMAIN PreT THEN PreT[Resolve(PreT, P)].uid ELSE 0),
                    IF Cur.hasgid THEN Cur.gid ELSE (IF P \in DOMAIN PreT THEN PreT[Resolve(PreT, P)].gid ELSE 0), MaxFS)
    [] Cur.proc = "WRITE" ->
         IF Cur.offc = "small" THEN WriteOut(PreT, P, Cur.off, Cur.data, R.count, MaxFS, T)
         ELSE IF MaxFS > 0 THEN Fail(PreT)      \* far beyond any MaxFileSize
         ELSE \* offsets near 2^63 and above: need not succeed; a failure changes nothing; a success
              \* leaves the existing bytes where they were (the file becomes huge)
              Fail(PreT) \cup (IF Kind(PreT, P) = "F" /\ Kind(PostT, P) = "F" /\ PostT[P].szbig
                                  /\ SubSeq(PostT[P].d, 1, Len(PreT[P].d)) = PreT[P].d
                                  /\ PostT = Put(PreT, P, PostT[P])
                               THEN Ok(PostT) ELSE {})
    [] Cur.proc = "LOOKUP" -> IF DirOpReady(PreT, P, Cur.ncls) /\ Kind(PreT, C) # "N" THEN Ok(PreT) ELSE Fail(PreT)
    [] Cur.proc \in {"GETATTR", "ACCESS", "FSSTAT", "FSINFO", "PATHCONF"} ->
         IF Kind(PreT, P) # "N" THEN Ok(PreT) ELSE Fail(PreT)
    [] Cur.proc = "READLINK" ->
         IF Kind(PreT, P) = "L" /\ (PreT[P].tabs \/ ".." \notin Rng(PreT[P].tc)) THEN Ok(PreT) ELSE Fail(PreT)
    [] Cur.proc = "READ" ->
         LET r == Resolve(PreT, P) IN
         IF Kind(PreT, P) = "F" THEN (IF Cur.offc \in {"p63", "m64"} THEN Ok(PreT) \cup Fail(PreT) ELSE Ok(PreT))
         ELSE IF Kind(PreT, P) = "L" /\ Kind(PreT, r) = "F" THEN Ok(PreT) \cup Fail(PreT)
         ELSE IF Kind(PreT, P) \in {"D", "L"} THEN Ok(PreT) \cup Fail(PreT)   \* READ of a non-file: either
         ELSE Fail(PreT)
    [] Cur.proc \in {"READDIR", "READDIRPLUS"} -> IF IsDir(PreT, P) THEN Ok(PreT) ELSE Fail(PreT)
    [] Cur.proc = "COMMIT" ->
         IF Kind(PreT, P) = "F" THEN Ok(PreT) ELSE IF Kind(PreT, P) = "N" THEN Fail(PreT) ELSE Ok(PreT) \cup Fail(PreT)
    [] OTHER -> Ok(PreT) \cup Fail(PreT)

PropOf == CASE cfg.profile = "data" -> "C01"
            [] Cur.proc = "CREATE" /\ Kind(PreT, C) # "N" -> "C03"
            [] Cur.proc \in {"READ", "WRITE"} -> "C01"
            [] Cur.proc = "SETATTR" /\ Cur.hassize -> "C01"
            [] Cur.proc \in {"LOOKUP", "CREATE", "MKDIR", "SYMLINK", "REMOVE", "RMDIR", "RENAME", "READDIR", "READDIRPLUS",
                             "GETATTR", "READLINK"} -> "C02"
            [] OTHER -> "other"     \* not stated by a listed property: reported as a note only

\* --------------------------------------------------------------- results of successful replies
TypeName(k) == CASE k = "D" -> "DIR" [] k = "F" -> "REG" [] k = "L" -> "LNK" [] OTHER -> "?"

ReadObj == IF Kind(PreT, P) = "L" THEN Resolve(PreT, P) ELSE P
ResultBad ==
  IF ~Cur.ok THEN {}
  ELSE CASE Cur.proc = "LOOKUP" ->
              IF R.kind # TypeName(Kind(PreT, C)) THEN {[prop |-> "C04", why |-> "LOOKUP reports a type different from the object's"]} ELSE {}
         [] Cur.proc = "READLINK" ->
              IF Kind(PreT, P) = "L" /\ R.target # PreT[P].t THEN {[prop |-> "C02", why |-> "READLINK returns a different target"]} ELSE {}
         [] Cur.proc \in {"READDIR", "READDIRPLUS"} ->
              LET want == {Last(q) : q \in Children(PreT, P)} IN
              (IF ~R.complete THEN {} ELSE
                 (IF Rng(R.names) # want THEN {[prop |-> "C02", why |-> "directory listing differs from the directory"]} ELSE {})
                 \cup (IF Len(R.names) # Cardinality(Rng(R.names)) THEN {[prop |-> "C02", why |-> "directory listing repeats an entry"]} ELSE {}))
              \cup (IF Cur.proc = "READDIRPLUS" /\
                       \E i \in DOMAIN R.names : R.types[i] # "" /\ Append(P, R.names[i]) \in DOMAIN PreT
                                                 /\ R.types[i] # TypeName(Kind(PreT, Append(P, R.names[i])))
                    THEN {[prop |-> "C04", why |-> "READDIRPLUS entry reports a type different from the object's"]} ELSE {})
         [] Cur.proc = "READ" /\ Cur.offc = "small" /\ Kind(PreT, ReadObj) = "F" /\ ~PreT[ReadObj].szbig ->
              LET f == PreT[ReadObj]
                  want == IF Cur.cntbig THEN Min2(T, Max2(f.sz - Cur.off, 0)) ELSE ReadCount(f.sz, Cur.off, Cur.cnt, T)
              IN (IF R.count # want THEN {[prop |-> "C01", why |-> "READ count is not min(requested, transfer size, size - offset)"]} ELSE {})
                 \cup (IF R.dlen # R.count THEN {[prop |-> "C01", why |-> "READ data length differs from count"]} ELSE {})
                 \cup (IF R.count = want /\ R.data # ReadBytes(f.d, Cur.off, want) THEN {[prop |-> "C01", why |-> "READ returns bytes different from the file's"]} ELSE {})
                 \* (through the handle of a symbolic link the reply's attributes, and with them eof,
                 \*  describe the link itself: READ of a non-regular object is "either", eof is left open)
                 \cup (IF Kind(PreT, P) = "F" /\ R.eof # (Cur.off + R.count >= f.sz) THEN {[prop |-> "C01", why |-> "READ eof flag wrong"]} ELSE {})
         [] Cur.proc = "READ" /\ Cur.offc # "small" /\ Kind(PreT, ReadObj) = "F" /\ ~PreT[ReadObj].szbig ->
              IF R.count # 0 \/ (Kind(PreT, P) = "F" /\ ~R.eof) THEN {[prop |-> "C01", why |-> "READ far beyond EOF must return no data and eof"]} ELSE {}
         [] OTHER -> {}

StatusBad ==
  IF Cur.proc = "CREATE" /\ CreateMustSayExist(PreT, P, Cur.name, Cur.ncls, Cur.how, Cur.verf, VerfOf(C)) /\ Cur.st # "EXIST"
     /\ ~OddMode      \* (a malformed mode word may be refused as such before the name is looked at)
  THEN {[prop |-> "C03", why |-> "GUARDED/EXCLUSIVE CREATE of an existing name must fail with NFS3ERR_EXIST"]}
  ELSE IF MaxFS > 0 /\ Cur.st # "FBIG" /\
          ((Cur.proc = "WRITE" /\ Cur.offc = "small" /\ Kind(PreT, P) = "F" /\ Cur.off + Len(Cur.data) > MaxFS)
           \/ (Cur.proc = "WRITE" /\ Cur.offc = "m63" /\ Kind(PreT, P) = "F")      \* a valid offset just below 2^63
           \/ (Cur.proc = "SETATTR" /\ Cur.hassize /\ Kind(PreT, P) = "F" /\ Cur.size > MaxFS))
  THEN {[prop |-> "C25", why |-> "request exceeding MaxFileSize must fail with NFS3ERR_FBIG"]}
  ELSE IF MaxFS > 0 /\ Cur.mut > 0 /\ Cur.proc = "WRITE" /\ Kind(PreT, P) = "F" /\
          ((Cur.offc = "small" /\ Cur.off + Len(Cur.data) > MaxFS) \/ Cur.offc # "small")
  THEN {[prop |-> "C25", why |-> "a WRITE beyond MaxFileSize reached the backend with a modifying operation"]}
  ELSE IF Cur.proc = "LOOKUP" /\ Cur.hknown /\ Cur.mangle = "ok" /\ ~HandleStale /\ Kind(PreT, P) = "D" /\ ValidName(Cur.ncls)
          /\ Kind(PreT, C) = "N" /\ Cur.st # "NOENT"
  THEN {[prop |-> "C02", why |-> "LOOKUP of a name that does not exist must answer NFS3ERR_NOENT whatever is cached (" \o Cur.st \o ")"]}
  ELSE {}

OutcomeBad ==
  IF Out \in NormOuts(Allowed) THEN {}
  ELSE IF ~Cur.ok /\ Norm(PostT) # Norm(PreT)
       THEN {[prop |-> (IF Cur.proc = "CREATE" /\ Kind(PreT, C) # "N" THEN "C03" ELSE "C02"),
              why |-> "a failed request changed the tree (" \o Cur.proc \o ")"]}
  ELSE IF Cur.ok /\ [ok |-> FALSE, tree |-> Norm(PreT)] \in NormOuts(Allowed) /\ Cardinality(Allowed) = 1
       THEN {[prop |-> PropOf, why |-> Cur.proc \o " succeeded where the model requires failure"]}
  ELSE IF ~Cur.ok THEN {[prop |-> PropOf, why |-> Cur.proc \o " failed (" \o Cur.st \o ") where the model requires success"]}
  ELSE {[prop |-> PropOf, why |-> Cur.proc \o " succeeded but the resulting tree is not the model's"]}

\* --------------------------------------------------------------- ghost: stale handle paths
Src == Append(Cur.h, Cur.name)
Dst == Append(Cur.h2, Cur.name2)
Changed == IF ~Cur.ok THEN {}
           ELSE CASE Cur.proc \in {"REMOVE", "RMDIR"} -> (DOMAIN PreT) \ (DOMAIN PostT)
                  [] Cur.proc = "RENAME" /\ Src # Dst -> Subtree(PreT, Src) \cup Subtree(PreT, Dst) \cup Subtree(PostT, Dst)
                  [] OTHER -> {}
NewStale == (stale \cup Changed) \ Rng(Cur.issued)

\* --------------------------------------------------------------- C04: attributes
Attrs == Cur.attrs
SizeOf(n) == CASE n.k = "F" -> n.sz [] n.k = "L" -> Len(n.t) [] OTHER -> 4096
\* which paths keep their identity across this step
Kept == {p \in DOMAIN fid : p \in DOMAIN PreT /\ p \in DOMAIN PostT /\ PreT[p].k = PostT[p].k
                            /\ ~(Cur.proc = "RENAME" /\ Cur.ok /\ (IsPrefix(Append(Cur.h, Cur.name), p) \/ IsPrefix(Append(Cur.h2, Cur.name2), p)))}
FidKept == [p \in Kept |-> fid[p]]
FidsFor(p) == {a.fid : a \in {x \in Rng(Attrs) : x.has /\ x.p = p /\ x.when = "post" /\ (x.full \/ x.role = "entryid")}}
AttrPaths == ({a.p : a \in {x \in Rng(Attrs) : x.has /\ x.when = "post" /\ (x.full \/ x.role = "entryid")}} \cap DOMAIN PostT) \ NewStale

AttrBad ==
  UNION {
    LET n == IF a.when = "pre" THEN (IF a.p \in DOMAIN PreT THEN PreT[a.p] ELSE [k |-> "N"])
             ELSE (IF a.p \in DOMAIN PostT THEN PostT[a.p] ELSE [k |-> "N"])
    IN IF ~a.has \/ n.k = "N" \/ a.p \in NewStale THEN {}   \* (a handle of a replaced object describes the old object)
       ELSE IF ~a.full
            THEN (IF a.role # "entryid" /\ n.k = "F" /\ ~n.szbig /\ ~a.szbig /\ a.size # n.sz
                  THEN {[prop |-> "C04", why |-> "wcc (pre-operation) size differs from the backend (" \o a.role \o ")"]} ELSE {})
       ELSE (IF a.type # TypeName(n.k)
             THEN {[prop |-> "C04", why |-> "reported type " \o a.type \o " differs from the backend's " \o TypeName(n.k) \o " (" \o Cur.proc \o " " \o a.role \o ")"]} ELSE {})
            \cup (IF ~n.szbig /\ ~a.szbig /\ a.size # SizeOf(n)
                  THEN {[prop |-> "C04", why |-> "reported size differs from the backend (" \o Cur.proc \o " " \o a.role \o ")"]} ELSE {})
            \cup (IF n.k # "L" /\ a.perm # n.perm
                  THEN {[prop |-> "C04", why |-> "reported permission bits differ from the backend (" \o Cur.proc \o " " \o a.role \o ")"]} ELSE {})
    : a \in Rng(Attrs)}
  \cup UNION {
    IF Cardinality(FidsFor(p) \cup (IF p \in Kept THEN {fid[p]} ELSE {})) > 1
    THEN {[prop |-> "C04", why |-> "fileid of an unchanged path differs between replies (" \o Cur.proc \o ")"]} ELSE {}
    : p \in AttrPaths}

NewFid == [p \in Kept \cup AttrPaths |-> IF p \in Kept THEN fid[p] ELSE CHOOSE x \in FidsFor(p) : TRUE]

\* --------------------------------------------------------------- ghost verifier
KeptV == {p \in DOMAIN cverf : p \in DOMAIN PostT /\ p \in DOMAIN PreT /\ PostT[p].k = "F"
                               /\ ~(Cur.proc = "RENAME" /\ Cur.ok /\ (IsPrefix(Append(Cur.h, Cur.name), p) \/ IsPrefix(Append(Cur.h2, Cur.name2), p)))}
NewVerf == LET base == [p \in KeptV |-> cverf[p]] IN
           IF Cur.proc = "CREATE" /\ Cur.ok /\ Cur.how = "EXCLUSIVE" /\ Kind(PreT, C) = "N" /\ Kind(PostT, C) = "F"
           THEN [p \in KeptV \cup {C} |-> IF p = C THEN Cur.verf ELSE base[p]] ELSE base

\* --------------------------------------------------------------- deviations (known findings)
\* DevFor(b) = the name of the listed deviation that explains failure record b of this step,
\* or "".  Every guard is the exact failing condition of one finding, so that a different
\* violation of the same property is still reported.
ExclIgnoresVerf == /\ Cur.proc = "CREATE" /\ Cur.how = "EXCLUSIVE" /\ Cur.ok /\ Kind(PreT, C) = "F"
                   /\ VerfOf(C) # Cur.verf /\ Norm(PostT) = Norm(PreT)
DevFor(b) ==
  IF b.prop = "C03" /\ Known("Dev_ExclusiveCreateIgnoresVerifier") /\ ExclIgnoresVerf
  THEN "Dev_ExclusiveCreateIgnoresVerifier" ELSE ""

\* --------------------------------------------------------------- C08: read-only export
MutProcs == {"SETATTR", "WRITE", "CREATE", "MKDIR", "SYMLINK", "MKNOD", "REMOVE", "RMDIR", "RENAME", "LINK", "COMMIT"}
ROBad ==
  IF ~cfg.ro THEN {}
  ELSE (IF Cur.mut > 0 THEN {[prop |-> "C08", why |-> "read-only export: " \o Cur.proc \o " issued a modifying backend operation"]} ELSE {})
       \cup (IF Norm(PostT) # Norm(PreT) \/ PostT # PreT THEN {[prop |-> "C08", why |-> "read-only export: the backend tree changed (" \o Cur.proc \o ")"]} ELSE {})
       \cup (IF Cur.proc \in MutProcs /\ Cur.ok THEN {[prop |-> "C08", why |-> "read-only export: mutating procedure " \o Cur.proc \o " replied NFS3_OK"]} ELSE {})
       \cup (IF Cur.proc = "ACCESS" /\ Cur.ok /\ (Cur.acc_mod \/ Cur.acc_ext \/ Cur.acc_del)
             THEN {[prop |-> "C08", why |-> "read-only export: ACCESS granted MODIFY, EXTEND or DELETE"]} ELSE {})

\* --------------------------------------------------------------- C11: ownership
OwnerU == IF Cur.hasuid /\ EUid = 0 /\ Cur.how # "EXCLUSIVE" THEN Cur.uid ELSE EUid
OwnerG == IF Cur.hasgid /\ EUid = 0 /\ Cur.how # "EXCLUSIVE" THEN Cur.gid ELSE EGid
OwnBad ==
  (IF Cur.proc \in {"CREATE", "MKDIR", "SYMLINK"} /\ Cur.ok /\ C \notin DOMAIN PreT /\ C \in DOMAIN PostT
      /\ (PostT[C].uid # OwnerU \/ PostT[C].gid # OwnerG)
   THEN {[prop |-> "C11", why |-> "new object from " \o Cur.proc \o " is not owned by the caller's effective identity"]} ELSE {})
  \cup (IF EUid # 0 /\ Cur.proc # "RENAME" /\
           \E p \in DOMAIN PostT : (p \notin DOMAIN PreT \/ PreT[p].uid # PostT[p].uid \/ PreT[p].gid # PostT[p].gid)
                                     /\ (PostT[p].uid # EUid \/ PostT[p].gid # EGid)
        THEN {[prop |-> "C11", why |-> "a caller whose effective uid is not 0 made the backend record another owner or group (" \o Cur.proc \o ")"]} ELSE {})
  \cup (IF EUid # 0 /\ \E i \in DOMAIN Cur.calls : Cur.calls[i].op \in {"Chown", "Lchown"} /\ Cur.calls[i].err = ""
                                                       /\ (Cur.calls[i].a # EUid \/ Cur.calls[i].b # EGid)
        THEN {[prop |-> "C11", why |-> "chown with ids other than the caller's effective identity (" \o Cur.proc \o ")"]} ELSE {})

FailedChanged == IF ~Cur.ok /\ PostT # PreT THEN {[prop |-> "C02", why |-> "a failed request changed the tree (" \o Cur.proc \o ")"]} ELSE {}

\* A namespace request during which one backend operation failed (injected fault, family 7 of the
\* directed probes): it may report the failure or not, but a reported failure leaves the tree
\* unchanged and a reported success is one of the model's outcomes.
FaultBad ==
  IF ~Cur.ok /\ Norm(PostT) # Norm(PreT)
  THEN {[prop |-> "C02", why |-> "a request that failed on a backend fault left a partial effect in the tree (" \o Cur.proc \o ")"]}
  ELSE IF Cur.ok /\ Out \notin NormOuts(Allowed)
  THEN {[prop |-> "C02", why |-> Cur.proc \o " reported success after a backend fault but the tree is not the model's"]}
  ELSE {}

AllBad == IF Cur.faulty THEN {}      \* an injected backend fault hit this request (crash profile)
          ELSE IF Cur.nsfault THEN FaultBad
          ELSE IF Cur.rocheck THEN ROBad \cup FailedChanged
          ELSE OutcomeBad \cup ResultBad \cup StatusBad \cup AttrBad \cup ROBad \cup OwnBad
Explained(b) == DevFor(b) # ""

Init == /\ l = 1 /\ fid = EmptyFn /\ cverf = EmptyFn /\ stale = {} /\ acked = EmptyFn /\ hverf = "" /\ seenverf = {} /\ cfg = [maxfs |-> 0, ro |-> FALSE, squash |-> "", profile |-> ""] /\ T = 65536
        /\ bad = {} /\ dev = {}
        /\ stats = [req |-> 0, ok |-> 0, fail |-> 0, hist |-> 0, attrs |-> 0, crash |-> 0]

StepReset ==
  /\ Cur.ev = "reset"
  /\ fid' = EmptyFn /\ cverf' = EmptyFn /\ stale' = {} /\ cfg' = Cur.cfg /\ T' = Cur.T
  /\ acked' = EmptyFn /\ hverf' = "" /\ seenverf' = seenverf \cup (IF hverf = "" THEN {} ELSE {hverf})
  /\ UNCHANGED <<bad, dev>>
  /\ stats' = [stats EXCEPT !.hist = @ + 1]

\* --------------------------------------------------------------- C22: stable data, write verifier
\* acked[p] = the bytes of p that a reply has acknowledged as stable (FILE_SYNC, or covered by a
\* successful COMMIT): the file's contents right after that reply.
StableNow == Cur.ok /\ ((Cur.proc = "WRITE" /\ R.committed = 2) \/ Cur.proc = "COMMIT") /\ Kind(PostT, P) = "F"
NewAcked == IF StableNow THEN [p \in (DOMAIN acked) \cup {P} |-> IF p = P THEN PostT[P].d ELSE acked[p]] ELSE acked
VerfBad == IF Cur.ok /\ Cur.proc \in {"WRITE", "COMMIT"} /\ R.verf # ""
           THEN (IF hverf # "" /\ R.verf # hverf THEN {[prop |-> "C22", why |-> "write verifier changed during the life of a server instance"]} ELSE {})
                \cup (IF hverf = "" /\ R.verf \in seenverf THEN {[prop |-> "C22", why |-> "write verifier repeated by a later server instance"]} ELSE {})
           ELSE {}
\* the request in flight when the crash hit (it failed): its range may hold old or new bytes
InFlight(p, i) == /\ l > 1 /\ TraceLog[l - 1].ev = "req" /\ ~TraceLog[l - 1].ok /\ TraceLog[l - 1].proc = "WRITE"
                  /\ TraceLog[l - 1].h = p /\ i > TraceLog[l - 1].off /\ i <= TraceLog[l - 1].off + Len(TraceLog[l - 1].data)
DurOf(p) == LET S == {e \in Rng(Cur.dur) : e.p = p} IN IF S = {} THEN << >> ELSE (CHOOSE e \in S : TRUE).d
CrashBad ==
  UNION {
    LET a == acked[p]
        d == DurOf(p)
    IN IF Len(d) < Len(a) \/ \E i \in 1..Len(a) : d[i] # a[i] /\ ~InFlight(p, i)
       THEN {[prop |-> "C22", why |-> "data acknowledged as stable (FILE_SYNC / COMMIT) is missing from the backing store after a crash"]} ELSE {}
    : p \in DOMAIN acked}

StepCrash ==
  /\ Cur.ev = "crash"
  /\ UNCHANGED <<fid, cverf, stale, cfg, T, acked, hverf, seenverf, dev>>
  /\ bad' = bad \cup {[l |-> l, prop |-> b.prop, why |-> b.why] : b \in CrashBad}
  /\ stats' = [stats EXCEPT !.crash = @ + 1]

\* a run-time configuration change: nothing else may change
StepCfg ==
  /\ Cur.ev = "cfg"
  /\ cfg' = Cur.cfg
  /\ UNCHANGED <<fid, cverf, stale, T, acked, hverf, seenverf, dev, stats>>
  /\ bad' = bad \cup (IF TreeOf(Cur.tree) # PreT THEN {[l |-> l, prop |-> "C02", why |-> "a configuration update changed the tree"]} ELSE {})

\* read-only switched on while an admitted request was still in the backend: once the update has
\* returned the backend must see no modifying operation
StepROSwitch ==
  /\ Cur.ev = "roswitch"
  /\ cfg' = Cur.cfg
  /\ UNCHANGED <<fid, cverf, stale, T, acked, hverf, seenverf, dev, stats>>
  /\ bad' = bad \cup (IF Cur.mut_after > 0
                      THEN {[l |-> l, prop |-> "C08", why |-> "read-only in force (update returned) but a request admitted earlier still modified the backend"]}
                      ELSE {})

StepReq ==
  /\ Cur.ev = "req"
  /\ UNCHANGED <<cfg, T, seenverf>>
  /\ acked' = NewAcked
  /\ hverf' = IF hverf = "" /\ Cur.ok /\ Cur.proc \in {"WRITE", "COMMIT"} THEN R.verf ELSE hverf
  /\ bad' = bad \cup {[l |-> l, prop |-> b.prop, why |-> b.why] : b \in {x \in (AllBad \cup VerfBad) : ~Explained(x)}}
  /\ dev' = dev \cup {[l |-> l, prop |-> b.prop, name |-> DevFor(b)] : b \in {x \in AllBad : Explained(x)}}
  /\ fid' = NewFid
  /\ cverf' = NewVerf
  /\ stale' = NewStale
  /\ stats' = [stats EXCEPT !.req = @ + 1, !.ok = @ + (IF Cur.ok THEN 1 ELSE 0), !.fail = @ + (IF Cur.ok THEN 0 ELSE 1),
                            !.attrs = @ + Len(Attrs)]

Consume == l <= N /\ l' = l + 1 /\ (StepReset \/ StepReq \/ StepCfg \/ StepCrash \/ StepROSwitch)

Finish == /\ l = N + 1 /\ l' = N + 2
          /\ JsonSerialize(IOEnv.VF_RESULT, [n |-> N, consumed |-> l - 1, bad |-> bad, dev |-> dev, drift |-> {}, stats |-> stats])
          /\ UNCHANGED <<fid, cverf, stale, cfg, T, acked, hverf, seenverf, bad, dev, stats>>

Next == Consume \/ Finish
Spec == Init /\ [][Next]_vars
=============================================================================

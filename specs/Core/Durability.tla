----------------------------- MODULE Durability -----------------------------
(***************************************************************************)
(* Design spec for C22: data acknowledged as stable survives a crash.       *)
(* One file; vol = volatile bytes (what the backend serves), dur = durable  *)
(* bytes (what survives a crash), a WRITE executes the backend operations   *)
(* of WriteWithContext in the code's order                                  *)
(*   open, writeat, [sync], close, chtimes, stat, reply(FILE_SYNC)          *)
(* one step at a time; Crash may happen between any two steps and discards  *)
(* everything not synced.  SyncInWrite switches the pinned behaviour (no    *)
(* sync anywhere, finding F14) and the repaired one.  COMMIT replies OK     *)
(* without touching the backend (as the code does): that is only sound      *)
(* because every WRITE is acknowledged FILE_SYNC after its own sync.        *)
(***************************************************************************)
EXTENDS Integers, Sequences, FiniteSets, TLC

CONSTANTS Vals,         \* byte values
          Len0,         \* file length (positions 1..Len0)
          MaxWrites,    \* bound on the number of WRITE requests
          SyncInWrite   \* TRUE: WriteWithContext syncs before acknowledging (fix F14)

Pos == 1..Len0
VARIABLES vol, dur, acked, pc, cur, nw, crashed
vars == <<vol, dur, acked, pc, cur, nw, crashed>>
\* pc: "idle" or the next backend step of the WRITE in progress; cur = [pos, val] of that WRITE
\* acked: positions whose latest value has been acknowledged as stable, with that value

Init == /\ vol = [i \in Pos |-> 0] /\ dur = [i \in Pos |-> 0]
        /\ acked = [i \in Pos |-> 0]
        /\ pc = "idle" /\ cur = [pos |-> 1, val |-> 0] /\ nw = 0 /\ crashed = FALSE

Start(i, v) == /\ pc = "idle" /\ ~crashed /\ nw < MaxWrites
               /\ pc' = "open" /\ cur' = [pos |-> i, val |-> v] /\ nw' = nw + 1
               /\ UNCHANGED <<vol, dur, acked, crashed>>

Step == /\ ~crashed /\ pc # "idle"
        /\ CASE pc = "open"    -> pc' = "writeat" /\ UNCHANGED <<vol, dur, acked>>
             [] pc = "writeat" -> /\ vol' = [vol EXCEPT ![cur.pos] = cur.val]
                                  /\ pc' = IF SyncInWrite THEN "sync" ELSE "close"
                                  /\ UNCHANGED <<dur, acked>>
             [] pc = "sync"    -> dur' = vol /\ pc' = "close" /\ UNCHANGED <<vol, acked>>
             [] pc = "close"   -> pc' = "chtimes" /\ UNCHANGED <<vol, dur, acked>>
             [] pc = "chtimes" -> pc' = "stat" /\ UNCHANGED <<vol, dur, acked>>
             [] pc = "stat"    -> pc' = "reply" /\ UNCHANGED <<vol, dur, acked>>
             [] pc = "reply"   -> \* the reply says committed = FILE_SYNC
                                  /\ acked' = [acked EXCEPT ![cur.pos] = cur.val]
                                  /\ pc' = "idle" /\ UNCHANGED <<vol, dur>>
        /\ UNCHANGED <<cur, nw, crashed>>

\* COMMIT: replies OK and covers every earlier write (nothing is done in the backend)
Commit == /\ pc = "idle" /\ ~crashed
          /\ acked' = vol
          /\ UNCHANGED <<vol, dur, pc, cur, nw, crashed>>

Crash == /\ ~crashed
         /\ crashed' = TRUE /\ vol' = dur
         /\ UNCHANGED <<dur, acked, pc, cur, nw>>

Next == (\E i \in Pos, v \in Vals : Start(i, v)) \/ Step \/ Commit \/ Crash
Spec == Init /\ [][Next]_vars

\* after a crash every acknowledged byte is in the backing store, except where the write in
\* flight (never acknowledged) may already have replaced it
Stable == crashed => \A i \in Pos : \/ dur[i] = acked[i]
                                      \/ (pc \notin {"idle", "open", "writeat"} /\ cur.pos = i /\ dur[i] = cur.val)
=============================================================================

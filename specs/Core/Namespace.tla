----------------------------- MODULE Namespace -----------------------------
(***************************************************************************)
(* Design spec of the namespace path of absnfs with its three caches, at    *)
(* the grain of the code (operations.go, nfs_proc_lookup/create/remove/dir, *)
(* cache.go):                                                               *)
(*   kind   the backend tree (path -> "N" missing / "F" / "D" / "L")        *)
(*   ac     attribute cache: path -> "none" / "neg" / cached kind           *)
(*   dc     directory cache: path -> "none" / cached set of names           *)
(*   hk     per-handle cached kind (a handle denotes the path it was        *)
(*          issued for; "none" = the client holds no handle for the path)   *)
(*          A handle whose object is removed or replaced is forgotten by    *)
(*          the modelled client (such a request may simply fail; the trace  *)
(*          spec CoreTrace treats it so), hence hk is kept for directories  *)
(*          only and reset to "none" on removal/replacement.                *)
(* Every mutator invalidates exactly what the code invalidates; Expire may  *)
(* drop any cache entry at any step (this covers every TTL).                *)
(* The property (C02): enabling the caches never changes any reply -        *)
(* invariant Transparent compares, in every reachable state, the reply the  *)
(* impl level computes for every possible LOOKUP / READDIR with the reply    *)
(* of the ideal level (the tree alone); MutationsAgree does the same for    *)
(* the mutators that were executed.                                         *)
(* FixMkdir / FixRename switch between the pinned behaviour (findings F02,  *)
(* F03) and the repaired one.                                               *)
(***************************************************************************)
EXTENDS Integers, Sequences, FiniteSets, TLC

CONSTANTS Names,      \* e.g. {"a", "b"}
          Kinds,      \* object kinds that can be created, subset of {"F", "D", "L"}
          Neg,        \* negative-lookup caching enabled
          DirC,       \* directory cache enabled
          FixMkdir,   \* MKDIR invalidates like CREATE (fix F02)
          FixRename   \* RENAME invalidates whole subtrees (fix F03)

Paths == {<< >>} \cup {<<n>> : n \in Names} \cup {<<n, m>> : n \in Names, m \in Names}
Dirs == {p \in Paths : Len(p) < 2}
Parent(p) == SubSeq(p, 1, Len(p) - 1)
IsPrefix(p, q) == Len(p) <= Len(q) /\ SubSeq(q, 1, Len(p)) = p
ChildPaths(p) == {q \in Paths : Len(q) = Len(p) + 1 /\ IsPrefix(p, q)}
Under(p) == {q \in Paths : IsPrefix(p, q)}

VARIABLES kind, ac, dc, hk, mism
vars == <<kind, ac, dc, hk, mism>>

ChildrenOf(k, p) == {q \in ChildPaths(p) : k[q] # "N"}
NamesOf(k, p) == {q[Len(q)] : q \in ChildrenOf(k, p)}

TypeOK == /\ kind \in [Paths -> {"N", "F", "D", "L"}]
          /\ kind[<< >>] = "D"
          /\ \A p \in Paths : Len(p) > 0 /\ kind[p] # "N" => kind[Parent(p)] = "D"

-----------------------------------------------------------------------------
(* Impl level: LookupWithContext on a path, as a function of (kind, ac).     *)
LkRes(k, a, p) == IF a[p] = "neg" THEN "NOENT"
                  ELSE IF a[p] # "none" THEN a[p]
                  ELSE IF k[p] = "N" THEN "NOENT" ELSE k[p]
LkAc(k, a, p) == IF a[p] # "none" THEN a
                 ELSE IF k[p] = "N" THEN (IF Neg THEN [a EXCEPT ![p] = "neg"] ELSE a)
                 ELSE [a EXCEPT ![p] = k[p]]

\* LOOKUP through the handle of P: reply as the impl computes it
ImplLookup(P, n) == IF hk[P] # "D" THEN "FAIL"
                    ELSE LET r == LkRes(kind, ac, Append(P, n)) IN IF r = "NOENT" THEN "FAIL" ELSE r
IdealLookup(P, n) == IF kind[P] = "D" /\ kind[Append(P, n)] # "N" THEN kind[Append(P, n)] ELSE "FAIL"

\* READDIR through the handle of P: the set of names listed, or "FAIL"
NoDC == [has |-> FALSE, names |-> {}]
NoList == [ok |-> FALSE, names |-> {}]
List(S) == [ok |-> TRUE, names |-> S]
ImplListing(P) ==
  IF hk[P] # "D" THEN NoList
  ELSE IF kind[P] = "N" THEN NoList       \* the handler's GetAttr(dir) always goes to the backend (Lstat)
  ELSE IF DirC /\ dc[P].has THEN List({n \in dc[P].names : LkRes(kind, ac, Append(P, n)) # "NOENT"})
  ELSE IF kind[P] = "D" THEN List({n \in NamesOf(kind, P) : LkRes(kind, ac, Append(P, n)) # "NOENT"})
  ELSE NoList
IdealListing(P) == IF kind[P] = "D" THEN List(NamesOf(kind, P)) ELSE NoList

Transparent ==
  \A P \in Dirs : hk[P] # "none" =>
     /\ \A n \in Names : ImplLookup(P, n) = IdealLookup(P, n)
     /\ ImplListing(P) = IdealListing(P)

MutationsAgree == ~mism

\* every unexpired positive entry names an existing object of that kind, every negative
\* entry a missing path, every cached listing equals the directory
CacheCoherent ==
  /\ \A p \in Paths : ac[p] = "neg" => kind[p] = "N"
  /\ \A p \in Paths : ac[p] \in {"F", "D", "L"} => kind[p] = ac[p]
  /\ \A p \in Dirs : dc[p].has => kind[p] = "D" /\ dc[p].names = NamesOf(kind, p)

-----------------------------------------------------------------------------
Init == /\ kind = [p \in Paths |-> IF p = << >> THEN "D" ELSE "N"]
        /\ ac = [p \in Paths |-> "none"]
        /\ dc = [p \in Paths |-> NoDC]
        /\ hk = [p \in Dirs |-> IF p = << >> THEN "D" ELSE "none"]
        /\ mism = FALSE

Held(P) == hk[P] # "none"

\* LOOKUP: fills the caches, (re)issues the handle of the child
Lookup(P, n) ==
  LET c == Append(P, n) IN
  /\ P \in Dirs /\ Held(P)
  /\ UNCHANGED <<kind, dc, mism>>
  /\ IF hk[P] # "D" THEN UNCHANGED <<ac, hk>>
     ELSE /\ ac' = LkAc(kind, ac, c)
          /\ LET r == LkRes(kind, ac, c) IN
             IF r = "NOENT" \/ c \notin Dirs THEN UNCHANGED hk
             ELSE hk' = [hk EXCEPT ![c] = r]

\* READDIR: fills the directory cache and the attribute cache of every entry
Readdir(P) ==
  /\ P \in Dirs /\ Held(P) /\ hk[P] = "D"
  /\ UNCHANGED <<kind, hk, mism>>
  /\ LET hit == DirC /\ dc[P].has IN
     IF ~hit /\ kind[P] # "D" THEN UNCHANGED <<ac, dc>>
     ELSE LET src == IF hit THEN dc[P].names ELSE NamesOf(kind, P) IN
          /\ dc' = IF DirC /\ ~hit THEN [dc EXCEPT ![P] = [has |-> TRUE, names |-> src]] ELSE dc
          /\ ac' = [q \in Paths |-> IF q \in ChildPaths(P) /\ q[Len(q)] \in src THEN LkAc(kind, ac, q)[q] ELSE ac[q]]

\* invalidations of CreateWithContext / Symlink (and of MKDIR when fixed)
InvCreate(a, P, c) == [q \in Paths |-> IF q = P \/ q = c THEN "none"
                                       ELSE IF q \in ChildPaths(P) /\ a[q] = "neg" THEN "none" ELSE a[q]]

\* CREATE / SYMLINK of a new object (an existing name is refused without touching anything)
Create(P, n, k) ==
  LET c == Append(P, n) IN
  /\ P \in Dirs /\ Held(P) /\ k \in Kinds \ {"D"}
  /\ IF kind[P] = "D" /\ kind[c] = "N"
     THEN /\ kind' = [kind EXCEPT ![c] = k]
          /\ dc' = [dc EXCEPT ![P] = NoDC]
          /\ LET a1 == InvCreate(ac, P, c) IN ac' = LkAc(kind', a1, c)   \* ... then Lookup(path)
          /\ hk' = IF c \in Dirs THEN [hk EXCEPT ![c] = k] ELSE hk
          /\ UNCHANGED mism
     ELSE UNCHANGED vars

\* MKDIR: the handler calls fs.Mkdir itself, then Lookup(dirPath)
Mkdir(P, n) ==
  LET c == Append(P, n) IN
  /\ P \in Dirs /\ Held(P) /\ "D" \in Kinds
  /\ IF kind[P] = "D" /\ kind[c] = "N"
     THEN /\ kind' = [kind EXCEPT ![c] = "D"]
          /\ LET a1 == IF FixMkdir THEN InvCreate(ac, P, c) ELSE ac
                 r  == LkRes(kind', a1, c)
             IN /\ ac' = LkAc(kind', a1, c)
                /\ dc' = IF FixMkdir THEN [dc EXCEPT ![P] = NoDC] ELSE dc
                /\ mism' = (mism \/ r = "NOENT")       \* the directory exists, the reply says NOENT
                /\ IF r = "NOENT" \/ c \notin Dirs THEN UNCHANGED hk
                   ELSE hk' = [hk EXCEPT ![c] = r]
     ELSE UNCHANGED vars

\* REMOVE (file, link or empty directory) and RMDIR share the backend operation
Remove(P, n, isRmdir) ==
  LET c == Append(P, n) IN
  /\ P \in Dirs /\ Held(P)
  /\ IF hk[P] # "D"
     THEN \* the handler refuses (NOTDIR) from the handle's cached kind
          /\ mism' = (mism \/ (kind[P] = "D" /\ kind[c] # "N"
                               /\ (IF isRmdir THEN kind[c] = "D" ELSE kind[c] # "D") /\ ChildrenOf(kind, c) = {}))
          /\ UNCHANGED <<kind, ac, dc, hk>>
     ELSE IF kind[P] = "D" /\ kind[c] # "N" /\ ChildrenOf(kind, c) = {} /\ (isRmdir => kind[c] = "D")
     THEN /\ kind' = [kind EXCEPT ![c] = "N"]
          /\ ac' = [ac EXCEPT ![c] = "none", ![P] = "none"]
          /\ dc' = IF isRmdir THEN [dc EXCEPT ![P] = NoDC, ![c] = NoDC] ELSE [dc EXCEPT ![P] = NoDC]
          /\ hk' = IF c \in Dirs THEN [hk EXCEPT ![c] = "none"] ELSE hk
          /\ UNCHANGED mism
     ELSE UNCHANGED vars

\* RENAME (POSIX rules of the backend), then the invalidations of RenameWithContext
RenameOK(src, dst) ==
  /\ kind[Parent(src)] = "D" /\ kind[Parent(dst)] = "D" /\ kind[src] # "N" /\ src # dst
  /\ ~(kind[src] = "D" /\ IsPrefix(src, dst))
  /\ (kind[src] = "D" => Len(dst) < 2)                     \* keep the moved subtree inside Paths
  /\ \/ kind[dst] = "N"
     \/ kind[src] = "D" /\ kind[dst] = "D" /\ ChildrenOf(kind, dst) = {}
     \/ kind[src] # "D" /\ kind[dst] # "D"

Moved(k, src, dst) ==
  [q \in Paths |->
     IF IsPrefix(dst, q) THEN LET y == src \o SubSeq(q, Len(dst) + 1, Len(q)) IN (IF y \in Paths THEN k[y] ELSE "N")
     ELSE IF IsPrefix(src, q) THEN "N" ELSE k[q]]

Rename(P1, n1, P2, n2) ==
  LET src == Append(P1, n1)
      dst == Append(P2, n2)
      gone == IF FixRename THEN Under(src) \cup Under(dst) ELSE {src, dst}
  IN /\ P1 \in Dirs /\ P2 \in Dirs /\ Held(P1) /\ Held(P2)
     /\ IF RenameOK(src, dst)
        THEN /\ kind' = Moved(kind, src, dst)
             /\ ac' = [q \in Paths |-> IF q \in gone \/ q = P1 \/ q = P2 THEN "none"
                                       ELSE IF (q \in ChildPaths(P1) \/ q \in ChildPaths(P2)) /\ ac[q] = "neg" THEN "none"
                                       ELSE ac[q]]
             /\ dc' = [q \in Paths |-> IF q = P1 \/ q = P2 \/ (FixRename /\ q \in gone) THEN NoDC ELSE dc[q]]
             /\ hk' = [q \in Dirs |-> IF IsPrefix(src, q) \/ IsPrefix(dst, q) THEN "none" ELSE hk[q]]
             /\ UNCHANGED mism
        ELSE UNCHANGED vars

\* any cache entry may expire at any step
Expire == \/ \E p \in Paths : ac[p] # "none" /\ ac' = [ac EXCEPT ![p] = "none"] /\ UNCHANGED <<kind, dc, hk, mism>>
          \/ \E p \in Paths : dc[p].has /\ dc' = [dc EXCEPT ![p] = NoDC] /\ UNCHANGED <<kind, ac, hk, mism>>

Next == \/ \E P \in Dirs, n \in Names : Lookup(P, n)
        \/ \E P \in Dirs : Readdir(P)
        \/ \E P \in Dirs, n \in Names, k \in Kinds : Create(P, n, k)
        \/ \E P \in Dirs, n \in Names : Mkdir(P, n)
        \/ \E P \in Dirs, n \in Names, b \in BOOLEAN : Remove(P, n, b)
        \/ \E P1 \in Dirs, P2 \in Dirs, n1 \in Names, n2 \in Names : Rename(P1, n1, P2, n2)
        \/ Expire

Spec == Init /\ [][Next]_vars

\* a failed request leaves the tree unchanged: by construction every ELSE branch is UNCHANGED vars
=============================================================================

------------------------- MODULE NaturalsInduction --------------------------
(***************************************************************************)
(* This module contains useful theorems for inductive proofs and recursive *)
(* definitions over the naturals.                                          *)
(*                                                                         *)
(* Some of the statements of the theorems are decomposed in terms of       *)
(* definitions.  This is done for two reasons:                             *)
(*                                                                         *)
(*  - It makes it easier for the backends to instantiate the theorems      *)
(*    when those definitions are not expanded.                             *)
(*                                                                         *)
(*  - It can be convenient when writing proofs to use those definitions    *)
(*    rather than having to write out their expansions.                    *)
(***************************************************************************)
EXTENDS Integers

(***************************************************************************)
(* The following is the simple statement of inductions over the naturals.  *)
(* For predicates P defined by a moderately complex operator, it is often  *)
(* useful to hide the operator definition before using this theorem. That  *)
(* is, you first define a suitable operator P (not necessarily by that     *)
(* name), prove the two hypotheses of the theorem, and then hide the       *)
(* definition of P when using the theorem.                                 *)
(***************************************************************************)
THEOREM NatInduction ==
  ASSUME NEW P(_),
         P(0),
         \A n \in Nat : P(n) => P(n+1)
  PROVE  \A n \in Nat : P(n)

(***************************************************************************)
(* A useful corollary of NatInduction                                      *)
(***************************************************************************)
THEOREM DownwardNatInduction ==
  ASSUME NEW P(_), NEW m \in Nat, P(m),
         \A n \in 1 .. m : P(n) => P(n-1)
  PROVE  P(0)

(***************************************************************************)
(* The following theorem expresses a stronger induction principle,         *)
(* also known as course-of-values induction, where the induction           *)
(* hypothesis is available for all strictly smaller natural numbers.       *)
(***************************************************************************)
THEOREM GeneralNatInduction ==
          ASSUME NEW P(_),
                 \A n \in Nat : (\A m \in 0..(n-1) : P(m)) => P(n)
          PROVE  \A n \in Nat : P(n)

(***************************************************************************)
(* The following theorem expresses the ``least-number principle'':         *)
(* if P(n) is true for some natural number n then there is a               *)
(* smallest natural number for which P is true. It could be derived in     *)
(* module WellFoundedInduction as a corollary of the fact that the natural *)
(* numbers are well ordered, but we give a direct proof.                   *)
(***************************************************************************)
THEOREM SmallestNatural ==
  ASSUME NEW P(_), NEW n \in Nat, P(n)
  PROVE  \E m \in Nat : /\ P(m)
                        /\ \A k \in 0 .. m-1 : ~ P(k)

(***************************************************************************)
(* The following theorem says that a recursively defined function f over   *)
(* the natural numbers is well-defined if for every n \in Nat the          *)
(* definition of f[n] depends only on arguments smaller than n.            *)
(***************************************************************************)
THEOREM RecursiveFcnOfNat ==
  ASSUME NEW Def(_,_),
         ASSUME NEW n \in Nat, NEW g, NEW h,
                \A i \in 0..(n-1) : g[i] = h[i]
         PROVE  Def(g, n) = Def(h, n)
  PROVE  LET f[n \in Nat] == Def(f, n)
         IN  f = [n \in Nat |-> Def(f, n)]

(***************************************************************************)
(* The following theorem NatInductiveDef is what you use to justify a      *)
(* function defined by primitive recursion over the naturals.              *)
(***************************************************************************)
NatInductiveDefHypothesis(f, f0, Def(_,_)) ==
   (f =  CHOOSE g : g = [i \in Nat |-> IF i = 0 THEN f0 ELSE Def(g[i-1], i)])
NatInductiveDefConclusion(f, f0, Def(_,_)) ==
     f = [i \in Nat |-> IF i = 0 THEN f0 ELSE Def(f[i-1], i)]

THEOREM NatInductiveDef ==
  ASSUME NEW Def(_,_), NEW f, NEW f0,
         NatInductiveDefHypothesis(f, f0, Def)
  PROVE  NatInductiveDefConclusion(f, f0, Def)

(***************************************************************************)
(* The following two theorems allow you to prove the type of a recursively *)
(* defined function over the natural numbers.                              *)
(***************************************************************************)
THEOREM RecursiveFcnOfNatType ==
  ASSUME NEW f, NEW S, NEW Def(_,_), f = [n \in Nat |-> Def(f,n)],
         ASSUME NEW n \in Nat, NEW g, \A i \in 0 .. n-1 : g[i] \in S
         PROVE  Def(g,n) \in S
  PROVE  f \in [Nat -> S]

THEOREM NatInductiveDefType ==
  ASSUME NEW Def(_,_), NEW S, NEW f, NEW f0 \in S,
         NatInductiveDefConclusion(f, f0, Def),
         f0 \in S,
         \A v \in S, n \in Nat \ {0} : Def(v, n) \in S
  PROVE  f \in [Nat -> S]

(***************************************************************************)
(* The following theorems show uniqueness of functions recursively defined *)
(* over Nat.                                                               *)
(***************************************************************************)
THEOREM RecursiveFcnOfNatUnique ==
  ASSUME NEW Def(_,_), NEW f, NEW g,
         f = [n \in Nat |-> Def(f,n)],
         g = [n \in Nat |-> Def(g,n)],
         ASSUME NEW n \in Nat, NEW ff, NEW gg,
                \A i \in 0..(n-1) : ff[i] = gg[i]
         PROVE  Def(ff, n) = Def(gg, n)
  PROVE  f = g

THEOREM NatInductiveUnique ==
  ASSUME NEW Def(_,_), NEW f, NEW g, NEW f0,
         NatInductiveDefConclusion(f, f0, Def),
         NatInductiveDefConclusion(g, f0, Def)
  PROVE  f = g

(***************************************************************************)
(* The following theorems are analogous to the preceding ones but for      *)
(* functions defined over intervals of natural numbers.                    *)
(***************************************************************************)

FiniteNatInductiveDefHypothesis(f, c, Def(_,_), m, n) ==
   (f =  CHOOSE g : g = [i \in m..n |-> IF i = m THEN c ELSE Def(g[i-1], i)])
FiniteNatInductiveDefConclusion(f, c, Def(_,_), m, n) ==
     f = [i \in m..n |-> IF i = m THEN c ELSE Def(f[i-1], i)]

THEOREM FiniteNatInductiveDef ==
  ASSUME NEW Def(_,_), NEW f, NEW c, NEW m \in Nat, NEW n \in Nat,
         FiniteNatInductiveDefHypothesis(f, c, Def, m, n)
  PROVE  FiniteNatInductiveDefConclusion(f, c, Def, m, n)

THEOREM FiniteNatInductiveDefType ==
  ASSUME NEW S, NEW Def(_,_), NEW f, NEW c \in S, NEW m \in Nat, NEW n \in Nat,
         FiniteNatInductiveDefConclusion(f, c, Def, m, n),
         \A v \in S, i \in (m+1) .. n : Def(v,i) \in S
  PROVE  f \in [m..n -> S]

THEOREM FiniteNatInductiveUnique ==
  ASSUME NEW Def(_,_), NEW f, NEW g, NEW c, NEW m \in Nat, NEW n \in Nat,
         FiniteNatInductiveDefConclusion(f, c, Def, m, n),
         FiniteNatInductiveDefConclusion(g, c, Def, m, n)
  PROVE  f = g

=============================================================================

(***************************************************************************)
(* The following example shows how this module is used.                    *)
(***************************************************************************)

factorial[n \in Nat] == IF n = 0 THEN 1 ELSE n * factorial[n-1]

THEOREM FactorialDefConclusion == NatInductiveDefConclusion(factorial, 1, LAMBDA v,n : n*v)
<1>1. NatInductiveDefHypothesis(factorial, 1, LAMBDA v,n : n*v)
  BY DEF NatInductiveDefHypothesis, factorial
<1>2. QED
  BY <1>1, NatInductiveDef

THEOREM FactorialDef == \A n \in Nat : factorial[n] = IF n = 0 THEN 1 ELSE n * factorial[n-1]
BY FactorialDefConclusion DEF NatInductiveDefConclusion

THEOREM FactorialType == factorial \in [Nat -> Nat]
<1>1. \A v \in Nat, n \in Nat \ {0} : n * v \in Nat
  OBVIOUS
<1>2. QED
  BY <1>1, NatInductiveDefType, FactorialDefConclusion, Isa


\* Modification History
\* Last modified Thu Aug 22 15:29:20 CEST 2019 by merz
\* Last modified Tue Oct 15 12:06:48 CEST 2013 by shaolin
\* Last modified Sat Nov 26 08:49:59 CET 2011 by merz
\* Last modified Mon Nov 07 08:58:05 PST 2011 by lamport
\* Created Mon Oct 31 02:52:05 PDT 2011 by lamport

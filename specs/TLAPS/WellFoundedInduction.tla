------------------------ MODULE WellFoundedInduction ------------------------
(***************************************************************************)
(* This module contains useful theorems for inductive proofs and recursive *)
(* definitions based on a well-founded ordering.                           *)
(*                                                                         *)
(* Most of the statements of the theorems are decomposed in terms of       *)
(* definitions.  This is done for two reasons:                             *)
(*                                                                         *)
(*  - It makes it easier for the backends to instantiate the theorems      *)
(*    when those definitions are not expanded.  In fact, at the moment     *)
(*    the provers can't prove any of those theorems from the theorem       *)
(*    itself if the definitions are made usable.                           *)
(*                                                                         *)
(*  - It can be convenient when writing proofs to use those definitions    *)
(*    rather than having to write out their expansions.                    *)
(*                                                                         *)
(* A relation is represented as a set of ordered pairs, where we write     *)
(* <<x, y>> \in R instead of x R y.  It is more convenient to represent    *)
(* relations this way rather than as operators such as < .                 *)
(***************************************************************************)
EXTENDS NaturalsInduction

(***************************************************************************)
(* The following defines what it means for a relation R to be transitively *)
(* closed on a set S.  In this and other definitions, we think of R as a   *)
(* relation on S, meaning that it is a subset of S \X S.  However, this is *)
(* not necessary.  Our results do not require this as a hypothesis, and it *)
(* is often convenient to apply them when R is a relation on a set         *)
(* containing S as a subset.  They're even true (though uninteresting) if  *)
(* R and S \X S are disjoint sets.                                         *)
(***************************************************************************)
IsTransitivelyClosedOn(R, S) ==
   \A i, j, k \in S : (<<i, j>> \in R)  /\ (<<j, k>> \in  R)
                         => (<<i, k>> \in R)
(***************************************************************************)
(* If we think of R as a less-than relation, then R is well founded on S   *)
(* iff there is no "infinitely descending" sequence of elements of S.  The *)
(* canonical example of a well founded relation is the ordinary less-than  *)
(* relation on the natural numbers.                                        *)
(*                                                                         *)
(* A S with a well-founded ordering is often called well-ordered.          *)
(***************************************************************************)
IsWellFoundedOn(R, S) ==
    ~ \E f \in [Nat -> S] : \A n \in Nat : <<f[n+1], f[n]>> \in R

LEMMA EmptyIsWellFounded == \A S : IsWellFoundedOn({}, S)


LEMMA IsWellFoundedOnSubset ==
        ASSUME NEW R, NEW S, NEW T \in SUBSET S,
               IsWellFoundedOn(R,S)
        PROVE  IsWellFoundedOn(R,T)


LEMMA IsWellFoundedOnSubrelation ==
       ASSUME NEW S, NEW R, NEW RR, RR \cap (S \X S) \subseteq R,
              IsWellFoundedOn(R,S)
       PROVE  IsWellFoundedOn(RR,S)

(***************************************************************************)
(* If we think of R as a less-than relation on S, then the following is    *)
(* the set of elements of S that are less than x.                          *)
(***************************************************************************)
SetLessThan(x, R, S) ==  {y \in S : <<y, x>> \in R}

(***************************************************************************)
(* If we think of R as a less-than relation on S, then R is well-founded   *)
(* iff every non-empty subset of S has a minimal element.                  *)
(***************************************************************************)

THEOREM WFMin ==
         ASSUME NEW R, NEW S,
                IsWellFoundedOn(R, S),
                NEW T, T \subseteq S, T # {}
         PROVE  \E x \in T : \A y \in T : ~ (<<y, x>> \in R)


THEOREM MinWF ==
         ASSUME NEW R, NEW S,
                \A T \in SUBSET S : T # {} => \E x \in T : \A y \in T : ~ (<<y, x>> \in R)
         PROVE  IsWellFoundedOn(R,S)

(***************************************************************************)
(* The two following lemmas are simple consequences of theorem WFMin.      *)
(***************************************************************************)
LEMMA WellFoundedIsIrreflexive ==
        ASSUME NEW R, NEW S, NEW x \in S,
               IsWellFoundedOn(R, S)
        PROVE  <<x, x>> \notin R

LEMMA WellFoundedIsAsymmetric ==
        ASSUME NEW R, NEW S, NEW x \in S, NEW y \in S,
               IsWellFoundedOn(R,S),
               <<x,y>> \in R, <<y,x>> \in R
        PROVE  FALSE

(***************************************************************************)
(* The following lemmas are simple facts about operator SetLessThan.       *)
(***************************************************************************)
LEMMA WFSetLessThanIrreflexive ==
        ASSUME NEW R, NEW S, NEW x \in S,
               IsWellFoundedOn(R,S)
        PROVE  x \notin SetLessThan(x,R,S)

LEMMA SetLessTransitive ==
        ASSUME NEW R, NEW S, NEW x \in S, NEW y \in SetLessThan(x,R,S),
               IsTransitivelyClosedOn(R, S)
        PROVE  SetLessThan(y, R, S) \subseteq SetLessThan(x, R, S)

----------------------------------------------------------------------------
(***************************************************************************)
(* The following theorem is the basis for proof by induction over a        *)
(* well-founded set.  It generalizes theorem GeneralNatInduction of module *)
(* NaturalsInduction.                                                      *)
(***************************************************************************)
THEOREM WFInduction ==
          ASSUME NEW P(_), NEW R, NEW S,
                 IsWellFoundedOn(R, S),
                 \A x \in S : (\A y \in SetLessThan(x, R, S) : P(y))
                    => P(x)
          PROVE  \A x \in S : P(x)

(***************************************************************************)
(* Theorem WFInductiveDef below justifies recursive definitions based on a *)
(* well-founded ordering.  We first prove it with the hypothesis that the  *)
(* ordering is transitively closed.  We prove the theorem for an arbitrary *)
(* well-founded relation by applying the special case to its transitive    *)
(* closure.                                                                *)
(***************************************************************************)
WFDefOn(R, S, Def(_,_)) ==
   \A g, h :
      \A x \in S :
         (\A y \in SetLessThan(x, R, S) : g[y] = h[y])
           => (Def(g,x) = Def(h,x))

OpDefinesFcn(f, S, Def(_,_)) ==
   f =  CHOOSE g : g = [x \in S |-> Def(g, x)]

WFInductiveDefines(f, S, Def(_,_)) ==
     f = [x \in S |-> Def(f, x)]

WFInductiveUnique(S, Def(_,_)) ==
  \A g, h : /\ WFInductiveDefines(g, S, Def)
            /\ WFInductiveDefines(h, S, Def)
            => (g = h)

THEOREM WFDefOnUnique ==
          ASSUME NEW Def(_,_), NEW R, NEW S,
                 IsWellFoundedOn(R, S), WFDefOn(R, S, Def)
          PROVE  WFInductiveUnique(S, Def)

LEMMA WFInductiveDefLemma ==
        ASSUME NEW Def(_,_), NEW R, NEW S, NEW f,
               IsWellFoundedOn(R, S),
               IsTransitivelyClosedOn(R, S),
               WFDefOn(R, S, Def),
               OpDefinesFcn(f, S, Def)
        PROVE  WFInductiveDefines(f, S, Def)

(***************************************************************************)
(* The following defines the transitive closure of the relation R on S.    *)
(* More precisely, it is the transitive closure of the restriction of R    *)
(* to S.  We give an abstract definition of transitive closure as the      *)
(* smallest relation that contains R (restricted to S \X S) and that is    *)
(* transitively closed, then prove some relevant properties.               *)
(***************************************************************************)
TransitiveClosureOn(R,S) ==
   { ss \in S \X S :
        \A U \in SUBSET (S \X S) :
           /\ R \cap S \X S \subseteq U
           /\ IsTransitivelyClosedOn(U, S)
           => ss \in U }

LEMMA TransitiveClosureThm ==
         \A R, S :
           /\ R \cap S \X S \subseteq TransitiveClosureOn(R, S)
           /\ IsTransitivelyClosedOn(TransitiveClosureOn(R, S), S)

LEMMA TransitiveClosureMinimal ==
        ASSUME NEW R, NEW S, NEW U \in SUBSET (S \X S),
               R \cap S \X S \subseteq U,
               IsTransitivelyClosedOn(U,S)
        PROVE  TransitiveClosureOn(R,S) \subseteq U

(***************************************************************************)
(* The following lemmas are consequences of the two previous ones. The     *)
(* first three state closure properties of transitive closure, the fourth  *)
(* lemma allows one to chop off a step in the underlying relation for any  *)
(* pair in the transitive closure.                                         *)
(***************************************************************************)

LEMMA TCTCTC ==
       ASSUME NEW R, NEW S, NEW i \in S, NEW j \in S, NEW k \in S,
              <<i,j>> \in TransitiveClosureOn(R,S),
              <<j,k>> \in TransitiveClosureOn(R,S)
       PROVE  <<i,k>> \in TransitiveClosureOn(R,S)

LEMMA TCRTC ==
       ASSUME NEW R, NEW S, NEW i \in S, NEW j \in S, NEW k \in S,
              <<i,j>> \in TransitiveClosureOn(R,S), <<j,k>> \in R
       PROVE  <<i,k>> \in TransitiveClosureOn(R,S)

LEMMA RTCTC ==
       ASSUME NEW R, NEW S, NEW i \in S, NEW j \in S, NEW k \in S,
              <<i,j>> \in R, <<j,k>> \in TransitiveClosureOn(R,S)
       PROVE  <<i,k>> \in TransitiveClosureOn(R,S)

LEMMA TransitiveClosureChopLast ==
        ASSUME NEW R, NEW S, NEW i \in S, NEW k \in S, <<i,k>> \in TransitiveClosureOn(R,S)
        PROVE  \E j \in S : /\ <<j,k>> \in R
                            /\ i = j \/ <<i,j>> \in TransitiveClosureOn(R,S)

(***************************************************************************)
(* NB: In a similar way to the preceding lemma, one could prove            *)
(*     ASSUME NEW R, NEW S, NEW x \in S, NEW y \in S,                      *)
(*            <<x,y>> \in TransitiveClosureOn(R,S)                         *)
(*     PROVE  \E n \in Nat : \E f \in [0..(n+1) -> S] :                    *)
(*               /\ \A i \in 0..n : <<f[i], f[i+1]>> \in R                 *)
(*               /\ x = f[0] /\ y = f[n+1]                                 *)
(* which provides a more constructive characterization of transitive       *)
(* closure. The converse theorem would be proved by induction on n,        *)
(* using the above closure properties.                                     *)
(***************************************************************************)

THEOREM TransitiveClosureWF ==
          ASSUME NEW R, NEW S, IsWellFoundedOn(R,S)
          PROVE  IsWellFoundedOn(TransitiveClosureOn(R, S), S)

THEOREM WFInductiveDef ==
          ASSUME NEW Def(_,_), NEW R, NEW S, NEW f,
                 IsWellFoundedOn(R, S),
                 WFDefOn(R, S, Def),
                 OpDefinesFcn(f, S, Def)
          PROVE  WFInductiveDefines(f, S, Def)

(***************************************************************************)
(* Theorem WFInductiveDef allows us to conclude that a recursively defined *)
(* function satisfies its recursion equation.  The following result allows *)
(* us to deduce the range of this function.                                *)
(***************************************************************************)
THEOREM WFInductiveDefType ==
          ASSUME NEW Def(_,_), NEW f, NEW R, NEW S, NEW T,
                 T # {},
                 IsWellFoundedOn(R, S),
                 WFDefOn(R, S, Def),
                 WFInductiveDefines(f, S, Def),
                 \A g \in [S -> T], s \in S : Def(g, s) \in T
          PROVE  f \in [S -> T]

 ----------------------------------------------------------------------------
(***************************************************************************)
(* Below are some theorems that allow us to derive some useful             *)
(* well-founded relations from a given well-founded relation.  First, we   *)
(* define the operator OpToRel that constructs a relation (a set of        *)
(* ordered pairs) from a relation expressed as an operator.                *)
(***************************************************************************)
OpToRel(_\prec_, S) == {ss \in S \X S : ss[1] \prec ss[2]}

(***************************************************************************)
(* To construct well-founded relations from the less-than relation on the  *)
(* natural numbers, we first prove that it is well-founded.                *)
(***************************************************************************)
THEOREM NatLessThanWellFounded == IsWellFoundedOn(OpToRel(<,Nat), Nat)

(***************************************************************************)
(* The next definition would be easier to read if we used the TLA+         *)
(* construct {<<x, y>> \in T : ...  }.  However, TLAPS does not suport     *)
(* that notation.  (It's meaning is rather complicated in the general case *)
(* when T is not a Cartesian product of sets.)                             *)
(***************************************************************************)
PreImage(f(_), S, R) == {ss \in S \X S : <<f(ss[1]), f(ss[2])>> \in R}

THEOREM PreImageWellFounded ==
          ASSUME NEW S, NEW T, NEW R, NEW f(_),
                 \A s \in S : f(s) \in T,
                 IsWellFoundedOn(R, T)
          PROVE  IsWellFoundedOn(PreImage(f, S, R), S)

(***************************************************************************)
(* We now prove that the lexicographical ordering on the Cartesian product *)
(* of two well-ordered sets is well-ordered.                               *)
(***************************************************************************)
LexPairOrdering(R1, R2, S1, S2) ==
     {ss \in (S1 \X S2) \X (S1 \X S2) :
         \/ <<ss[1][1], ss[2][1]>> \in R1
         \/ /\ ss[1][1] = ss[2][1]
            /\ <<ss[1][2], ss[2][2]>> \in R2}

THEOREM WFLexPairOrdering ==
          ASSUME NEW R1, NEW R2, NEW S1, NEW S2,
                 IsWellFoundedOn(R1, S1),
                 IsWellFoundedOn(R2, S2)
          PROVE  IsWellFoundedOn(LexPairOrdering(R1, R2, S1, S2), S1 \X S2)

(***************************************************************************)
(* The preceding theorem generalizes in the obvious way to the Cartesian   *)
(* product of a finite number of well-ordered sets.  However, the          *)
(* statement of the general theorem is rather complicated, so we state it  *)
(* for the most useful case: the Cartesian product of n copies of the same *)
(* set.                                                                    *)
(***************************************************************************)
LexProductOrdering(R, S, n) ==
   { ff \in [1..n -> S] \X [1..n -> S] :
       \E j \in 1..n :
          /\ \A i \in 1..(j-1) : ff[1][i] = ff[2][i]
          /\ <<ff[1][j], ff[2][j]>> \in R }

THEOREM WFLexProductOrdering ==
  ASSUME NEW R, NEW S, NEW n \in Nat,
         IsWellFoundedOn(R, S)
  PROVE  IsWellFoundedOn(LexProductOrdering(R, S, n), [1..n -> S])

=============================================================================
\* Modification History
\* Last modified Thu Aug 22 18:31:26 CEST 2019 by merz
\* Last modified Sun Jan 01 18:39:23 CET 2012 by merz
\* Last modified Wed Nov 23 10:13:18 PST 2011 by lamport

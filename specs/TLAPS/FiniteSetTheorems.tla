------------------------- MODULE FiniteSetTheorems --------------------------
(***************************************************************************)
(* `^{\large\bf \vspace{12pt}                                              *)
(*  Facts about finite sets and their cardinality.                         *)
(*  Originally contributed by Tom Rodeheffer, MSR.                         *)
(*  \vspace{12pt}}^'                                                       *)
(***************************************************************************)

EXTENDS FiniteSets, Integers, Functions, WellFoundedInduction

(***************************************************************************)
(* `.  .'                                                                  *)
(*                                                                         *)
(* A set S is finite iff there exists a natural number n such that there   *)
(* exist a surjection (or a bijection) from 1..n to S.                     *)
(*                                                                         *)
(* `.  .'                                                                  *)
(***************************************************************************)

LEMMA FS_NatSurjection ==
  ASSUME NEW S
  PROVE  IsFiniteSet(S) <=> \E n \in Nat : ExistsSurjection(1..n,S)

LEMMA FS_NatBijection ==
  ASSUME NEW S
  PROVE  IsFiniteSet(S) <=> \E n \in Nat : ExistsBijection(1..n,S)


(***************************************************************************)
(* `.  .'                                                                  *)
(*                                                                         *)
(* If there exists n \in Nat such that a bijection exists from 1..n to S,  *)
(* then Cardinality(S) = n.                                                *)
(*                                                                         *)
(* `.  .'                                                                  *)
(***************************************************************************)

LEMMA FS_CountingElements ==
  ASSUME NEW S, NEW n \in Nat, ExistsBijection(1..n,S)
  PROVE  Cardinality(S) = n


(***************************************************************************)
(* Corollary: a surjection from 1..n to S provides a cardinality bound.    *)
(***************************************************************************)
THEOREM FS_SurjCardinalityBound ==
  ASSUME NEW S, NEW n \in Nat, ExistsSurjection(1..n, S)
  PROVE  Cardinality(S) <= n


(***************************************************************************)
(* `.  .'                                                                  *)
(*                                                                         *)
(* For any finite set S, Cardinality(S) \in Nat. Moreover, there is a      *)
(* bijection from 1 .. Cardinality(S) to S.                                *)
(*                                                                         *)
(* `.  .'                                                                  *)
(***************************************************************************)
THEOREM FS_CardinalityType ==
  ASSUME NEW S, IsFiniteSet(S)
  PROVE  /\ Cardinality(S) \in Nat
         /\ ExistsBijection(1..Cardinality(S), S)


(***************************************************************************)
(* `.  .'                                                                  *)
(*                                                                         *)
(* The image of a finite set under a bijection is finite.                  *)
(*                                                                         *)
(* `.  .'                                                                  *)
(***************************************************************************)
THEOREM FS_Bijection ==
  ASSUME NEW S, NEW T, IsFiniteSet(S), ExistsBijection(S,T)
  PROVE  /\ IsFiniteSet(T)
         /\ Cardinality(T) = Cardinality(S)

THEOREM FS_SameCardinalityBij ==
  ASSUME NEW S, NEW T, IsFiniteSet(S), IsFiniteSet(T),
         Cardinality(S) = Cardinality(T)
  PROVE  ExistsBijection(S,T)


(***************************************************************************)
(* `.  .'                                                                  *)
(*                                                                         *)
(* Any surjection between two finite sets of equal cardinality is          *)
(* an injection.                                                           *)
(*                                                                         *)
(* `.  .'                                                                  *)
(***************************************************************************)
THEOREM FS_SurjSameCardinalityImpliesInj ==
  ASSUME NEW S, NEW T, IsFiniteSet(S), Cardinality(S) = Cardinality(T),
         NEW f \in Surjection(S,T)
  PROVE  f \in Injection(S,T)


(***************************************************************************)
(* `.  .'                                                                  *)
(*                                                                         *)
(* The image of a finite set is finite.                                    *)
(* NB: Note that any function is a surjection on its range by theorem      *)
(*     Fun_RangeProperties.                                                *)
(*                                                                         *)
(* `.  .'                                                                  *)
(***************************************************************************)
THEOREM FS_Surjection ==
  ASSUME NEW S, NEW T, NEW f \in Surjection(S,T), IsFiniteSet(S)
  PROVE  /\ IsFiniteSet(T)
         /\ Cardinality(T) <= Cardinality(S)
         /\ Cardinality(T) = Cardinality(S) <=> f \in Injection(S,T)

THEOREM FS_Image ==
  ASSUME NEW S, IsFiniteSet(S), NEW Op(_)
  PROVE  LET T == {Op(x) : x \in S}
         IN  /\ IsFiniteSet(T)
             /\ Cardinality(T) <= Cardinality(S)

(***************************************************************************)
(* `.  .'                                                                  *)
(*                                                                         *)
(* Symmetric theorem for injections and the pigeonhole principle.          *)
(*                                                                         *)
(* `.  .'                                                                  *)
(***************************************************************************)
THEOREM FS_Injection ==
  ASSUME NEW S, NEW T, NEW f \in Injection(S,T), IsFiniteSet(T)
  PROVE  /\ IsFiniteSet(S)
         /\ Cardinality(S) <= Cardinality(T)
         /\ Cardinality(S) = Cardinality(T) <=> f \in Surjection(S,T)

THEOREM FS_PigeonHole ==
  ASSUME NEW S, IsFiniteSet(S),
         NEW T, IsFiniteSet(T), Cardinality(T) < Cardinality(S),
         NEW f \in [S -> T]
  PROVE  \E x,y \in S : x # y /\ f[x] = f[y]


(***************************************************************************)
(* `.  .'                                                                  *)
(*                                                                         *)
(* The cardinality of a finite set S is 0 iff S is empty.                  *)
(*                                                                         *)
(* `.  .'                                                                  *)
(***************************************************************************)
THEOREM FS_EmptySet ==
  /\ IsFiniteSet({})
  /\ Cardinality({}) = 0
  /\ \A S : IsFiniteSet(S) => (Cardinality(S) = 0 <=> S = {})


(***************************************************************************)
(* `.  .'                                                                  *)
(*                                                                         *)
(* If S is finite, so are S \cup {x} and S \ {x}.                          *)
(*                                                                         *)
(* `.  .'                                                                  *)
(***************************************************************************)
THEOREM FS_AddElement ==
  ASSUME NEW S, NEW x, IsFiniteSet(S)
  PROVE  /\ IsFiniteSet(S \cup {x})
         /\ Cardinality(S \cup {x}) =
            IF x \in S THEN Cardinality(S) ELSE Cardinality(S)+1

THEOREM FS_RemoveElement ==
  ASSUME NEW S, NEW x, IsFiniteSet(S)
  PROVE  /\ IsFiniteSet(S \ {x})
         /\ Cardinality(S \ {x}) =
            IF x \in S THEN Cardinality(S)-1 ELSE Cardinality(S)


(***************************************************************************)
(* `.  .'                                                                  *)
(*                                                                         *)
(* In particular, a singleton set is finite.                               *)
(*                                                                         *)
(* `.  .'                                                                  *)
(***************************************************************************)
THEOREM FS_Singleton ==
  /\ \A x : IsFiniteSet({x}) /\ Cardinality({x}) = 1
  /\ \A S : IsFiniteSet(S) => (Cardinality(S) = 1 <=> \E x: S = {x})


(***************************************************************************)
(* `.  .'                                                                  *)
(*                                                                         *)
(* Any subset of a finite set is finite.                                   *)
(*                                                                         *)
(* `.  .'                                                                  *)
(***************************************************************************)
THEOREM FS_Subset ==
  ASSUME NEW S, IsFiniteSet(S), NEW T \in SUBSET S
  PROVE  /\ IsFiniteSet(T)
         /\ Cardinality(T) <= Cardinality(S)
         /\ Cardinality(S) = Cardinality(T) => S = T


(***************************************************************************)
(* `.  .'                                                                  *)
(*                                                                         *)
(* a..b is a finite set for any a,b \in Int.                               *)
(*                                                                         *)
(* `.  .'                                                                  *)
(***************************************************************************)
THEOREM FS_Interval ==
  ASSUME NEW a \in Int, NEW b \in Int
  PROVE  /\ IsFiniteSet(a..b)
         /\ Cardinality(a..b) = IF a > b THEN 0 ELSE b-a+1

THEOREM FS_BoundedSetOfNaturals ==
  ASSUME NEW S \in SUBSET Nat, NEW n \in Nat,
         \A s \in S : s <= n
  PROVE  /\ IsFiniteSet(S)
         /\ Cardinality(S) \leq n+1


(***************************************************************************)
(* `.  .'                                                                  *)
(*                                                                         *)
(* Induction for finite sets.                                              *)
(*                                                                         *)
(* `.  .'                                                                  *)
(***************************************************************************)

THEOREM FS_Induction ==
  ASSUME NEW S, IsFiniteSet(S),
         NEW P(_), P({}),
         ASSUME NEW T \in SUBSET S, IsFiniteSet(T), P(T), NEW x \in S \ T
         PROVE  P(T \cup {x})
  PROVE  P(S)


(***************************************************************************)
(* `.  .'                                                                  *)
(*                                                                         *)
(* The finite subsets form a well-founded ordering with respect to strict  *)
(* set inclusion.                                                          *)
(*                                                                         *)
(* `.  .'                                                                  *)
(***************************************************************************)

FiniteSubsetsOf(S) == { T \in SUBSET S : IsFiniteSet(T) }
StrictSubsetOrdering(S) == { ss \in (SUBSET S) \X (SUBSET S) :
                                ss[1] \subseteq ss[2] /\ ss[1] # ss[2] }

LEMMA FS_FiniteSubsetsOfFinite ==
  ASSUME NEW S, IsFiniteSet(S)
  PROVE  FiniteSubsetsOf(S) = SUBSET S


(*****************************************************************************)
(*  The formulation of the following theorem doesn't require S being finite. *)
(*  If S is finite, it implies                                               *)
(*       IsWellFoundedOn(StrictSubsetOrdering(S), SUBSET S)                  *)
(*  using lemma FS_FiniteSubsetsOfFinite.                                    *)
(*****************************************************************************)
THEOREM FS_StrictSubsetOrderingWellFounded ==
  ASSUME NEW S
  PROVE  IsWellFoundedOn(StrictSubsetOrdering(S), FiniteSubsetsOf(S))


(***************************************************************************)
(* `.  .'                                                                  *)
(*                                                                         *)
(* Well-founded induction for finite subsets.                              *)
(*                                                                         *)
(* `.  .'                                                                  *)
(***************************************************************************)

THEOREM FS_WFInduction ==
  ASSUME NEW P(_), NEW S, IsFiniteSet(S),
         ASSUME NEW T \in SUBSET S,
                \A U \in (SUBSET T) \ {T} : P(U)
         PROVE  P(T)
  PROVE  P(S)


(***************************************************************************)
(* `.  .'                                                                  *)
(*                                                                         *)
(* The union of two finite sets is finite.                                 *)
(*                                                                         *)
(* `.  .'                                                                  *)
(***************************************************************************)
THEOREM FS_Union ==
  ASSUME NEW S, IsFiniteSet(S),
         NEW T, IsFiniteSet(T)
  PROVE  /\ IsFiniteSet(S \cup T)
         /\ Cardinality(S \cup T) =
               Cardinality(S) + Cardinality(T) - Cardinality(S \cap T)


(***************************************************************************)
(* `.  .'                                                                  *)
(*                                                                         *)
(* Corollary: two majorities intersect. More precisely, any two subsets    *)
(* of a finite set U such that the sum of cardinalities of the subsets     *)
(* exceeds that of U must have non-empty intersection.                     *)
(*                                                                         *)
(* `.  .'                                                                  *)
(***************************************************************************)
THEOREM FS_MajoritiesIntersect ==
  ASSUME NEW U, NEW S, NEW T, IsFiniteSet(U),
         S \subseteq U, T \subseteq U,
         Cardinality(S) + Cardinality(T) > Cardinality(U)
  PROVE  S \cap T # {}


(***************************************************************************)
(* `.  .'                                                                  *)
(*                                                                         *)
(* The intersection of a finite set with an arbitrary set is finite.       *)
(*                                                                         *)
(* `.  .'                                                                  *)
(***************************************************************************)


THEOREM FS_Intersection ==
  ASSUME NEW S, IsFiniteSet(S), NEW T
  PROVE  /\ IsFiniteSet(S \cap T)
         /\ IsFiniteSet(T \cap S)
         /\ Cardinality(S \cap T) <= Cardinality(S)
         /\ Cardinality(T \cap S) <= Cardinality(S)


(***************************************************************************)
(* `.  .'                                                                  *)
(*                                                                         *)
(* The difference between a finite set and an arbitrary set is finite.     *)
(*                                                                         *)
(* `.  .'                                                                  *)
(***************************************************************************)
THEOREM FS_Difference ==
  ASSUME NEW S, NEW T, IsFiniteSet(S)
  PROVE /\ IsFiniteSet(S \ T)
        /\ Cardinality(S \ T) = Cardinality(S) - Cardinality(S \cap T)


(***************************************************************************)
(* `.  .'                                                                  *)
(*                                                                         *)
(* The union of a finite number of finite sets is finite.                  *)
(*                                                                         *)
(* `.  .'                                                                  *)
(***************************************************************************)
THEOREM FS_UNION ==
  ASSUME NEW S, IsFiniteSet(S), \A T \in S : IsFiniteSet(T)
  PROVE  IsFiniteSet(UNION S)


(***************************************************************************)
(* `.  .'                                                                  *)
(*                                                                         *)
(* The product of two finite sets is finite.                               *)
(*                                                                         *)
(* `.  .'                                                                  *)
(***************************************************************************)
THEOREM FS_Product ==
  ASSUME NEW S, IsFiniteSet(S),
         NEW T, IsFiniteSet(T)
  PROVE  /\ IsFiniteSet(S \X T)
         /\ Cardinality(S \X T) = Cardinality(S) * Cardinality(T)


(***************************************************************************)
(* `.  .'                                                                  *)
(*                                                                         *)
(* The powerset of a finite set is finite.                                 *)
(*                                                                         *)
(* `.  .'                                                                  *)
(***************************************************************************)
THEOREM FS_SUBSET ==
  ASSUME NEW S, IsFiniteSet(S)
  PROVE  /\ IsFiniteSet(SUBSET S)
         /\ Cardinality(SUBSET S) = 2^Cardinality(S)

=============================================================================
\* Modification History
\* Last modified Wed Jan 08 17:43:30 CET 2020 by merz
\* Last modified Thu Jul 04 15:15:07 CEST 2013 by bhargav
\* Last modified Tue Jun 04 11:44:51 CEST 2013 by bhargav
\* Last modified Fri May 03 12:02:51 PDT 2013 by tomr
\* Created Fri Oct 05 15:04:18 PDT 2012 by tomr

---------------------------- MODULE RateLimiterInd ----------------------------
(***************************************************************************)
(* Inductive invariants of RateLimiter.tla, proved with TLAPS (tlapm) for  *)
(* EVERY value of the constants: any sets of connections and operation     *)
(* types (finite or not), any rates / bursts / cleanup intervals / quotas  *)
(* that are natural numbers, any Horizon (the clock is unbounded in the    *)
(* proof: Tick's guard is never used), both AllowRequest orders.  TLC      *)
(* checks the same invariants exhaustively for two addresses, 1-2          *)
(* connections each, bursts <= 2 and a clock of a few ticks.               *)
(*                                                                         *)
(* RateLimiter.tla and RateLimiterOps.tla are used as they are (EXTENDS).  *)
(* Run:  tlapm --threads 8 RateLimiterInd.tla   (checks/PROOFS.py does it  *)
(* in a scratch copy; tlapm writes .tlacache/).                            *)
(*                                                                         *)
(* What is proved                                                          *)
(*   InitInd, StepInd    IndInv is inductive: Init => IndInv and           *)
(*                       IndInv /\ [Next]_vars => IndInv'                  *)
(*   InitInd2, StepInd2  the same for IndInv2 (IndInv, the ghost's rule    *)
(*                       (a) bookkeeping UbOK, and the step properties)    *)
(*   Ind2ImpliesListed   IndInv2 => TypeOK /\ FHBounded /\ AbsentIsFull    *)
(*                       /\ BurstPlusRate /\ CleanupInvisible              *)
(*                       /\ (FixOrder => RefusedIsFree)                    *)
(*   InitInd3, StepInd3, Ind3ImpliesListed   the same for IndInv3 =        *)
(*                       IndInv2 /\ FaithIsGlobal /\ FixedGlobalIsRef (the  *)
(*                       ghost's global bucket is the code's: `gfaith`     *)
(*                       under the pinned order - the guard of the listed  *)
(*                       deviation F11 is exact -, `gref` under the        *)
(*                       repaired order)                                   *)
(*   InitInd4, StepInd4, Ind4ImpliesListed   the same for IndInv4 =        *)
(*                       IndInv3, the reference-bucket bookkeeping RefOK   *)
(*                       and (FixOrder \/ DevGlobal \in KnownDeviations)   *)
(*                       => NoCollateral.  Ind4ImpliesListed has every     *)
(*                       invariant TLC checks for this module (ALL_INV in  *)
(*                       checks/ratelimit_common.py).                      *)
(* i.e. for all parameters and all behaviours: no bucket ever holds more   *)
(* than its burst or less than nothing; the file handle quota is never     *)
(* exceeded; an absent bucket is indistinguishable from a full one, so     *)
(* cleanup never changes a decision (C18 c); no limiter admits more than   *)
(* burst + rate x elapsed since its first use (C18 a); under the repaired  *)
(* order a refused request leaves the global bucket as it was (C19, first  *)
(* sentence).  The lemmas in between are the per-call facts: AllowChar (a  *)
(* denial consumes nothing, an admission exactly one token), IpStageChar / *)
(* ConnStageChar / OpStepChar / RequestChar (per-key independence: a call  *)
(* for one address / connection / operation type changes the view of no    *)
(* other key; timed cleanup changes no view at all).                       *)
(*                                                                         *)
(* NoCollateral (C18 b, C19 second sentence: a client within all its own   *)
(* limits is refused only when the global budget, charged with admitted    *)
(* requests, is empty) holds for the repaired order; for the pinned order  *)
(* it holds with the listed deviation F11 among the known ones - which is  *)
(* how TLC is configured for that order - and is false without (that is    *)
(* the finding).  The liveness-free, state-machine part of C18 / C19 is    *)
(* thereby proved completely; nothing of this module is left to TLC alone. *)
(*                                                                         *)
(* Strengthenings the proof needed (TypeOK as listed is NOT inductive):    *)
(*   S1 `last <= now` for per-connection and per-operation buckets too     *)
(*      (TypeOK states it only for the global and per-IP buckets; without  *)
(*      it a refill (now - last) * rate can be negative),                  *)
(*   S2 the configuration is well-formed (CfgOK: rates and bursts are      *)
(*      natural numbers) and the clock is a natural number,                *)
(*   S3 DOMAIN s.op[i] \subseteq OpTypes (TypeOK only says non-empty),     *)
(*   S4 the twin n satisfies the same typing as s (AbsentIsFull alone says *)
(*      nothing about n's buckets being within their bursts),              *)
(*   S5 closed \subseteq Conns and no bucket of a closed connection in     *)
(*      either instance,                                                   *)
(*   S6 the record shapes of s, n, c (EXCEPT on a record needs its domain),*)
(*   S7 for rule (a): UbOK - the ghost's uncapped budget of every limiter  *)
(*      is at least the content of the code's bucket, an absent entry      *)
(*      counting as a full bucket on both sides, restricted to connections *)
(*      that are not closed (CleanupConnection forgets the bucket, the     *)
(*      ghost keeps the budget; ids are never reused).                     *)
(*   S8 for the two global ghost buckets: they are well-formed buckets     *)
(*      (gref only under the repaired order: under the pinned order it is  *)
(*      not tied to the code's bucket and may go below zero),              *)
(*   S9 for rule (b): RefOK - while a limiter is clean, its reference      *)
(*      bucket (charged with everything sent) holds no more than the       *)
(*      code's bucket (charged with what reaches it), absent = full on     *)
(*      both sides, connections not closed; reference buckets well-formed. *)
(*                                                                         *)
(* Assumptions (ASSUME below): Horizon, OpHorizon are natural numbers; and *)
(* ConfigsOK: every element of Configs has natural-number fields.  The     *)
(* latter is immediate from the definition of Configs when the constant    *)
(* sets are sets of naturals, but no TLAPS back end supports set           *)
(* constructors with several bound variables ({e : a \in A, b \in B}), so  *)
(* it cannot be derived inside TLAPS; TLC evaluates it on its models       *)
(* (RateLimiterIndMC.cfg).                                                 *)
(*                                                                         *)
(* Layout hazard met while writing this: a bulleted conjunction that       *)
(* starts on the same line as a quantifier must have its bullets aligned,  *)
(* otherwise `/\ A /\ x => B` silently parses as `(A /\ x) => B`.          *)
(***************************************************************************)
EXTENDS RateLimiter

ASSUME ConstAssm ==
  /\ Horizon \in Nat /\ OpHorizon \in Nat

CfgOK(x) ==
  /\ x = [G |-> x.G, gB |-> x.gB, ipR4 |-> x.ipR4, ipB |-> x.ipB, connR4 |-> x.connR4, connB |-> x.connB,
          opR4 |-> x.opR4, opB |-> x.opB, ci |-> x.ci, fhIP |-> x.fhIP, fhG |-> x.fhG, fix |-> x.fix, mode |-> x.mode]
  /\ x.G \in Nat /\ x.gB \in Nat /\ x.ipR4 \in Nat /\ x.ipB \in Nat /\ x.connR4 \in Nat /\ x.connB \in Nat
  /\ x.opR4 \in [OpTypes -> Nat] /\ x.opB \in [OpTypes -> Nat]
  /\ x.ci \in Nat /\ x.fhIP \in Nat /\ x.fhG \in Nat /\ x.fix \in BOOLEAN

ASSUME ConfigsOK == \A x \in Configs : CfgOK(x)

BucketOK(b, B, t) == b.tok \in 0..(16 * B) /\ b.last \in 0..t

StateOK(st, x, t, cl) ==
  /\ st = [g |-> st.g, ip |-> st.ip, conn |-> st.conn, op |-> st.op, iplc |-> st.iplc, oplc |-> st.oplc, fh |-> st.fh]
  /\ BucketOK(st.g, x.gB, t)
  /\ DOMAIN st.ip \subseteq IPs /\ \A i \in DOMAIN st.ip : BucketOK(st.ip[i], x.ipB, t)
  /\ DOMAIN st.conn \subseteq Conns \ cl /\ \A k \in DOMAIN st.conn : BucketOK(st.conn[k], x.connB, t)
  /\ DOMAIN st.op \subseteq IPs
  /\ \A i \in DOMAIN st.op : /\ DOMAIN st.op[i] # {} /\ DOMAIN st.op[i] \subseteq OpTypes
                             /\ \A o \in DOMAIN st.op[i] : BucketOK(st.op[i][o], x.opB[o], t)
  /\ (x.connR4 = 0 => DOMAIN st.conn = {})
  /\ st.iplc \in Int /\ st.oplc \in Int
  /\ st.fh = [g |-> st.fh.g, ip |-> st.fh.ip] /\ st.fh.g \in Nat /\ \A i \in DOMAIN st.fh.ip : st.fh.ip[i] \in Nat
  /\ (x.fhG > 0 => st.fh.g <= x.fhG) /\ (x.fhIP > 0 => \A i \in DOMAIN st.fh.ip : st.fh.ip[i] <= x.fhIP)

\* what one stage does, as a function of the view alone
Take(v) == IF v >= 16 THEN v - 16 ELSE v

LEMMA AllowChar ==
  ASSUME NEW b, NEW t \in Nat, NEW r4 \in Nat, NEW B \in Nat, BucketOK(b, B, t)
  PROVE  LET a == Allow(b, t, r4, B) IN
         /\ BucketOK(a.b, B, t)
         /\ a.ok = (Peek(b, t, r4, B) >= 16)
         /\ Peek(a.b, t, r4, B) = Take(Peek(b, t, r4, B))
         /\ Peek(b, t, r4, B) \in 0..(16 * B)
  BY DEF Allow, Peek, Min, BucketOK, Take

LEMMA FullChar ==
  ASSUME NEW t \in Nat, NEW r4 \in Nat, NEW B \in Nat
  PROVE  BucketOK(Full(B, t), B, t) /\ Peek(Full(B, t), t, r4, B) = 16 * B
  BY DEF Full, Peek, Min, BucketOK

LEMMA GStageChar ==
  ASSUME NEW x, CfgOK(x), NEW t \in Nat, NEW cl, NEW st, StateOK(st, x, t, cl)
  PROVE  LET r == GStage(st, x, t) IN
         /\ StateOK(r.s, x, t, cl)
         /\ r.ok = (GTok(st, x, t) >= 16)
         /\ GTok(r.s, x, t) = Take(GTok(st, x, t))
         /\ r.s.ip = st.ip /\ r.s.conn = st.conn /\ r.s.op = st.op /\ r.s.fh = st.fh
<1> DEFINE a == Allow(st.g, t, 4 * x.G, x.gB)
<1>1. /\ BucketOK(a.b, x.gB, t)
      /\ a.ok = (Peek(st.g, t, 4 * x.G, x.gB) >= 16)
      /\ Peek(a.b, t, 4 * x.G, x.gB) = Take(Peek(st.g, t, 4 * x.G, x.gB))
  <2>1. 4 * x.G \in Nat /\ x.gB \in Nat  BY DEF CfgOK
  <2>2. BucketOK(st.g, x.gB, t)  BY DEF StateOK
  <2> QED BY <2>1, <2>2, AllowChar
<1> HIDE DEF a
<1>2. GStage(st, x, t) = [ok |-> a.ok, s |-> [st EXCEPT !.g = a.b]]  BY DEF GStage, a
<1> QED BY <1>1, <1>2 DEF StateOK, GTok

LEMMA IpCleanupChar ==
  ASSUME NEW x, CfgOK(x), NEW t \in Nat, NEW cl, NEW st, StateOK(st, x, t, cl)
  PROVE  LET s1 == IpTimedCleanup(st, x, t) IN
         /\ StateOK(s1, x, t, cl)
         /\ \A j \in IPs : IpTok(s1, x, t, j) = IpTok(st, x, t, j)
         /\ s1.g = st.g /\ s1.conn = st.conn /\ s1.op = st.op /\ s1.fh = st.fh
<1>1. \A j \in DOMAIN st.ip : Peek(st.ip[j], t, x.ipR4, x.ipB) \in 0..(16 * x.ipB)
  <2> TAKE j \in DOMAIN st.ip
  <2>1. BucketOK(st.ip[j], x.ipB, t) BY DEF StateOK
  <2>2. x.ipR4 \in Nat /\ x.ipB \in Nat BY DEF CfgOK
  <2> QED BY <2>1, <2>2, AllowChar
<1>2. CASE ~(t - st.iplc > x.ci)
  BY <1>2 DEF IpTimedCleanup
<1>3. CASE t - st.iplc > x.ci
  <2> DEFINE s1 == [st EXCEPT !.ip = Without(@, IpIdle(st, x, t)), !.iplc = t]
  <2>1. IpTimedCleanup(st, x, t) = s1  BY <1>3 DEF IpTimedCleanup
  <2>2. StateOK(s1, x, t, cl)  BY DEF StateOK, Without
  <2>3. \A j \in IPs : IpTok(s1, x, t, j) = IpTok(st, x, t, j)
    <3> TAKE j \in IPs
    <3>0. s1.ip = Without(st.ip, IpIdle(st, x, t))  BY DEF StateOK
    <3>1. CASE j \notin DOMAIN st.ip
      BY <3>0, <3>1 DEF Without, IpTok
    <3>2. CASE j \in DOMAIN st.ip /\ j \notin IpIdle(st, x, t)
      BY <3>0, <3>2 DEF Without, IpTok
    <3>3. CASE j \in DOMAIN st.ip /\ j \in IpIdle(st, x, t)
      <4>1. Peek(st.ip[j], t, x.ipR4, x.ipB) = 16 * x.ipB  BY <3>3, <1>1 DEF IpIdle, CfgOK
      <4>2. j \notin DOMAIN s1.ip  BY <3>0, <3>3 DEF Without
      <4> QED BY <4>1, <4>2, <3>3 DEF IpTok
    <3> QED BY <3>1, <3>2, <3>3
  <2>4. s1.g = st.g /\ s1.conn = st.conn /\ s1.op = st.op /\ s1.fh = st.fh  BY DEF StateOK
  <2> QED BY <2>1, <2>2, <2>3, <2>4
<1> QED BY <1>2, <1>3

LEMMA IpStageChar ==
  ASSUME NEW x, CfgOK(x), NEW t \in Nat, NEW cl, NEW st, StateOK(st, x, t, cl), NEW ip \in IPs
  PROVE  LET r == IpStage(st, x, t, ip) IN
         /\ StateOK(r.s, x, t, cl)
         /\ r.ok = (IpTok(st, x, t, ip) >= 16)
         /\ IpTok(r.s, x, t, ip) = Take(IpTok(st, x, t, ip))
         /\ \A j \in IPs \ {ip} : IpTok(r.s, x, t, j) = IpTok(st, x, t, j)
         /\ r.s.g = st.g /\ r.s.conn = st.conn /\ r.s.op = st.op /\ r.s.fh = st.fh
<1> DEFINE s1 == IpTimedCleanup(st, x, t)
           b  == IF ip \in DOMAIN s1.ip THEN s1.ip[ip] ELSE Full(x.ipB, t)
           a  == Allow(b, t, x.ipR4, x.ipB)
<1>0. x.ipR4 \in Nat /\ x.ipB \in Nat BY DEF CfgOK
<1>1. /\ StateOK(s1, x, t, cl)
      /\ \A j \in IPs : IpTok(s1, x, t, j) = IpTok(st, x, t, j)
      /\ s1.g = st.g /\ s1.conn = st.conn /\ s1.op = st.op /\ s1.fh = st.fh
  BY IpCleanupChar
<1>2. BucketOK(b, x.ipB, t) /\ Peek(b, t, x.ipR4, x.ipB) = IpTok(s1, x, t, ip)
  BY <1>0, <1>1, FullChar DEF StateOK, IpTok
<1>3. /\ BucketOK(a.b, x.ipB, t)
      /\ a.ok = (Peek(b, t, x.ipR4, x.ipB) >= 16)
      /\ Peek(a.b, t, x.ipR4, x.ipB) = Take(Peek(b, t, x.ipR4, x.ipB))
  BY <1>0, <1>2, AllowChar
<1>4. IpStage(st, x, t, ip) = [ok |-> a.ok, s |-> [s1 EXCEPT !.ip = With(@, ip, a.b)]]
  BY DEF IpStage
<1> HIDE DEF s1, b, a
<1> DEFINE s2 == [s1 EXCEPT !.ip = With(@, ip, a.b)]
<1>5. StateOK(s2, x, t, cl)  BY <1>1, <1>3 DEF StateOK, With
<1>6. IpTok(s2, x, t, ip) = Peek(a.b, t, x.ipR4, x.ipB)  BY <1>1 DEF StateOK, With, IpTok
<1>7. \A j \in IPs \ {ip} : IpTok(s2, x, t, j) = IpTok(s1, x, t, j)  BY <1>1 DEF StateOK, With, IpTok
<1>8. s2.g = s1.g /\ s2.conn = s1.conn /\ s2.op = s1.op /\ s2.fh = s1.fh  BY <1>1 DEF StateOK
<1> QED BY <1>1, <1>2, <1>3, <1>4, <1>5, <1>6, <1>7, <1>8

LEMMA ConnStageChar ==
  ASSUME NEW x, CfgOK(x), NEW t \in Nat, NEW cl, NEW st, StateOK(st, x, t, cl), NEW k \in Conns \ cl
  PROVE  LET r == ConnStage(st, x, t, k) IN
         /\ StateOK(r.s, x, t, cl)
         /\ r.ok = (x.connR4 = 0 \/ ConnTok(st, x, t, k) >= 16)
         /\ ConnTok(r.s, x, t, k) = IF x.connR4 = 0 THEN ConnTok(st, x, t, k) ELSE Take(ConnTok(st, x, t, k))
         /\ \A j \in Conns \ {k} : ConnTok(r.s, x, t, j) = ConnTok(st, x, t, j)
         /\ r.s.g = st.g /\ r.s.ip = st.ip /\ r.s.op = st.op /\ r.s.fh = st.fh
<1>0. x.connR4 \in Nat /\ x.connB \in Nat BY DEF CfgOK
<1>1. CASE x.connR4 = 0
  BY <1>1 DEF ConnStage
<1>2. CASE x.connR4 # 0
  <2> DEFINE b == IF k \in DOMAIN st.conn THEN st.conn[k] ELSE Full(x.connB, t)
             a == Allow(b, t, x.connR4, x.connB)
  <2>2. BucketOK(b, x.connB, t) /\ Peek(b, t, x.connR4, x.connB) = ConnTok(st, x, t, k)
    BY <1>0, FullChar DEF StateOK, ConnTok
  <2>3. /\ BucketOK(a.b, x.connB, t)
        /\ a.ok = (Peek(b, t, x.connR4, x.connB) >= 16)
        /\ Peek(a.b, t, x.connR4, x.connB) = Take(Peek(b, t, x.connR4, x.connB))
    BY <1>0, <2>2, AllowChar
  <2>4. ConnStage(st, x, t, k) = [ok |-> a.ok, s |-> [st EXCEPT !.conn = With(@, k, a.b)]]
    BY <1>0, <1>2 DEF ConnStage
  <2> HIDE DEF b, a
  <2> DEFINE s2 == [st EXCEPT !.conn = With(@, k, a.b)]
  <2>5. StateOK(s2, x, t, cl)  BY <2>3, <1>2 DEF StateOK, With
  <2>6. ConnTok(s2, x, t, k) = Peek(a.b, t, x.connR4, x.connB)  BY DEF StateOK, With, ConnTok
  <2>7. \A j \in Conns \ {k} : ConnTok(s2, x, t, j) = ConnTok(st, x, t, j)  BY DEF StateOK, With, ConnTok
  <2>8. s2.g = st.g /\ s2.ip = st.ip /\ s2.op = st.op /\ s2.fh = st.fh  BY DEF StateOK
  <2> QED BY <1>2, <2>2, <2>3, <2>4, <2>5, <2>6, <2>7, <2>8
<1> QED BY <1>1, <1>2

LEMMA OpCleanupChar ==
  ASSUME NEW x, CfgOK(x), NEW t \in Nat, NEW cl, NEW st, StateOK(st, x, t, cl)
  PROVE  LET s1 == OpTimedCleanup(st, x, t) IN
         /\ StateOK(s1, x, t, cl)
         /\ \A j \in IPs : \A o \in OpTypes : OpTok(s1, x, t, j, o) = OpTok(st, x, t, j, o)
         /\ s1.g = st.g /\ s1.conn = st.conn /\ s1.ip = st.ip /\ s1.fh = st.fh
<1>1. \A j \in DOMAIN st.op : \A o \in DOMAIN st.op[j] : Peek(st.op[j][o], t, x.opR4[o], x.opB[o]) \in 0..(16 * x.opB[o])
  <2> TAKE j \in DOMAIN st.op
  <2> TAKE o \in DOMAIN st.op[j]
  <2>1. BucketOK(st.op[j][o], x.opB[o], t) /\ o \in OpTypes BY DEF StateOK
  <2>2. x.opR4[o] \in Nat /\ x.opB[o] \in Nat BY <2>1 DEF CfgOK
  <2> QED BY <2>1, <2>2, AllowChar
<1>2. CASE ~(t - st.oplc > x.ci)
  BY <1>2 DEF OpTimedCleanup
<1>3. CASE t - st.oplc > x.ci
  <2> DEFINE s1 == [st EXCEPT !.op = Without(@, OpIdle(st, x, t)), !.oplc = t]
  <2>1. OpTimedCleanup(st, x, t) = s1  BY <1>3 DEF OpTimedCleanup
  <2>2. StateOK(s1, x, t, cl)  BY DEF StateOK, Without
  <2>3. \A j \in IPs : \A o \in OpTypes : OpTok(s1, x, t, j, o) = OpTok(st, x, t, j, o)
    <3> TAKE j \in IPs
    <3> TAKE o \in OpTypes
    <3>0. s1.op = Without(st.op, OpIdle(st, x, t))  BY DEF StateOK
    <3>1. CASE j \notin DOMAIN st.op
      BY <3>0, <3>1 DEF Without, OpTok
    <3>2. CASE j \in DOMAIN st.op /\ j \notin OpIdle(st, x, t)
      BY <3>0, <3>2 DEF Without, OpTok
    <3>3. CASE j \in DOMAIN st.op /\ j \in OpIdle(st, x, t)
      <4>2. j \notin DOMAIN s1.op  BY <3>0, <3>3 DEF Without
      <4>3. CASE o \notin DOMAIN st.op[j]
        BY <4>2, <4>3, <3>3 DEF OpTok
      <4>4. CASE o \in DOMAIN st.op[j]
        <5>1. Peek(st.op[j][o], t, x.opR4[o], x.opB[o]) = 16 * x.opB[o]  BY <3>3, <4>4, <1>1 DEF OpIdle, CfgOK
        <5> QED BY <5>1, <4>2, <4>4, <3>3 DEF OpTok
      <4> QED BY <4>3, <4>4
    <3> QED BY <3>1, <3>2, <3>3
  <2>4. s1.g = st.g /\ s1.conn = st.conn /\ s1.ip = st.ip /\ s1.fh = st.fh  BY DEF StateOK
  <2> QED BY <2>1, <2>2, <2>3, <2>4
<1> QED BY <1>2, <1>3

LEMMA OpStepChar ==
  ASSUME NEW x, CfgOK(x), NEW t \in Nat, NEW cl, NEW st, StateOK(st, x, t, cl), NEW ip \in IPs, NEW o \in OpTypes
  PROVE  LET r == AllowOperationStep(st, x, t, ip, o) IN
         /\ StateOK(r.s, x, t, cl)
         /\ r.ok = (OpTok(st, x, t, ip, o) >= 16)
         /\ OpTok(r.s, x, t, ip, o) = Take(OpTok(st, x, t, ip, o))
         /\ \A j \in IPs : \A p \in OpTypes : (j # ip \/ p # o) => OpTok(r.s, x, t, j, p) = OpTok(st, x, t, j, p)
         /\ r.s.g = st.g /\ r.s.conn = st.conn /\ r.s.ip = st.ip /\ r.s.fh = st.fh
<1> DEFINE s1 == OpTimedCleanup(st, x, t)
           m  == IF ip \in DOMAIN s1.op THEN s1.op[ip] ELSE EmptyFn
           b  == IF o \in DOMAIN m THEN m[o] ELSE Full(x.opB[o], t)
           a  == Allow(b, t, x.opR4[o], x.opB[o])
<1>0. x.opR4[o] \in Nat /\ x.opB[o] \in Nat BY DEF CfgOK
<1>1. /\ StateOK(s1, x, t, cl)
      /\ \A j \in IPs : \A p \in OpTypes : OpTok(s1, x, t, j, p) = OpTok(st, x, t, j, p)
      /\ s1.g = st.g /\ s1.conn = st.conn /\ s1.ip = st.ip /\ s1.fh = st.fh
  BY OpCleanupChar
<1>2a. DOMAIN m \subseteq OpTypes /\ \A p \in DOMAIN m : BucketOK(m[p], x.opB[p], t)
  BY <1>1 DEF StateOK, EmptyFn
<1>2. BucketOK(b, x.opB[o], t) /\ Peek(b, t, x.opR4[o], x.opB[o]) = OpTok(s1, x, t, ip, o)
  BY <1>0, <1>1, <1>2a, FullChar DEF StateOK, OpTok, EmptyFn
<1>3. /\ BucketOK(a.b, x.opB[o], t)
      /\ a.ok = (Peek(b, t, x.opR4[o], x.opB[o]) >= 16)
      /\ Peek(a.b, t, x.opR4[o], x.opB[o]) = Take(Peek(b, t, x.opR4[o], x.opB[o]))
  BY <1>0, <1>2, AllowChar
<1>4. AllowOperationStep(st, x, t, ip, o) = [ok |-> a.ok, s |-> [s1 EXCEPT !.op = With(@, ip, With(m, o, a.b))], stage |-> IF a.ok THEN "admit" ELSE "op"]
  BY DEF AllowOperationStep
<1>4a. \A j \in IPs : \A p \in OpTypes : (j # ip \/ p # o) => 
          OpTok(s1, x, t, j, p) = IF j = ip THEN (IF p \in DOMAIN m THEN Peek(m[p], t, x.opR4[p], x.opB[p]) ELSE 16 * x.opB[p])
                                   ELSE OpTok(s1, x, t, j, p)
  BY <1>1 DEF StateOK, OpTok, EmptyFn
<1> HIDE DEF s1, m, b, a
<1> DEFINE m2 == With(m, o, a.b)
           s2 == [s1 EXCEPT !.op = With(@, ip, m2)]
<1>5a. DOMAIN m2 = DOMAIN m \cup {o} /\ m2[o] = a.b /\ \A p \in DOMAIN m \ {o} : m2[p] = m[p]
  BY DEF With
<1>5b. s2.op = With(s1.op, ip, m2) /\ DOMAIN s2.op = DOMAIN s1.op \cup {ip} /\ s2.op[ip] = m2 /\ \A j \in DOMAIN s1.op \ {ip} : s2.op[j] = s1.op[j]
  BY <1>1 DEF With, StateOK
<1>5. StateOK(s2, x, t, cl)
  BY <1>1, <1>2a, <1>3, <1>5a, <1>5b DEF StateOK
<1>6. OpTok(s2, x, t, ip, o) = Peek(a.b, t, x.opR4[o], x.opB[o])  BY <1>5a, <1>5b DEF OpTok
<1>7. \A j \in IPs : \A p \in OpTypes : (j # ip \/ p # o) => OpTok(s2, x, t, j, p) = OpTok(s1, x, t, j, p)
  <2> TAKE j \in IPs
  <2> TAKE p \in OpTypes
  <2> HAVE j # ip \/ p # o
  <2>1. CASE j # ip  BY <2>1, <1>5b DEF OpTok
  <2>2. CASE j = ip /\ p # o  BY <2>2, <1>5a, <1>5b, <1>4a DEF OpTok
  <2> QED BY <2>1, <2>2
<1>8. s2.g = s1.g /\ s2.conn = s1.conn /\ s2.ip = s1.ip /\ s2.fh = s1.fh  BY <1>1 DEF StateOK
<1> QED BY <1>1, <1>2, <1>3, <1>4, <1>5, <1>6, <1>7, <1>8

-----------------------------------------------------------------------------
(* two instances that receive the same calls and differ only in their cleanup interval *)
SV(s1, s2, x, t) == SameView(s1, s2, x, t, IPs, Conns, OpTypes)
CfgSame(x, y) == /\ y.G = x.G /\ y.gB = x.gB /\ y.ipR4 = x.ipR4 /\ y.ipB = x.ipB /\ y.connR4 = x.connR4
                 /\ y.connB = x.connB /\ y.opR4 = x.opR4 /\ y.opB = x.opB /\ y.fhIP = x.fhIP /\ y.fhG = x.fhG
Pair(x, y, t, cl, s1, s2) ==
  /\ CfgOK(x) /\ CfgOK(y) /\ CfgSame(x, y) /\ t \in Nat
  /\ StateOK(s1, x, t, cl) /\ StateOK(s2, y, t, cl) /\ SV(s1, s2, x, t)

LEMMA ViewSame ==
  ASSUME NEW x, NEW y, CfgSame(x, y), NEW st, NEW t
  PROVE  /\ GTok(st, y, t) = GTok(st, x, t)
         /\ \A i : IpTok(st, y, t, i) = IpTok(st, x, t, i)
         /\ \A k : ConnTok(st, y, t, k) = ConnTok(st, x, t, k)
         /\ \A i, o : OpTok(st, y, t, i, o) = OpTok(st, x, t, i, o)
  BY DEF CfgSame, GTok, IpTok, ConnTok, OpTok

LEMMA GRel ==
  ASSUME NEW x, NEW y, NEW t, NEW cl, NEW s1, NEW s2, Pair(x, y, t, cl, s1, s2)
  PROVE  LET r1 == GStage(s1, x, t)  r2 == GStage(s2, y, t) IN
         r1.ok = r2.ok /\ Pair(x, y, t, cl, r1.s, r2.s)
<1> DEFINE r1 == GStage(s1, x, t)  r2 == GStage(s2, y, t)
<1>1. /\ StateOK(r1.s, x, t, cl) /\ r1.ok = (GTok(s1, x, t) >= 16) /\ GTok(r1.s, x, t) = Take(GTok(s1, x, t))
      /\ r1.s.ip = s1.ip /\ r1.s.conn = s1.conn /\ r1.s.op = s1.op /\ r1.s.fh = s1.fh
  BY GStageChar DEF Pair
<1>2. /\ StateOK(r2.s, y, t, cl) /\ r2.ok = (GTok(s2, y, t) >= 16) /\ GTok(r2.s, y, t) = Take(GTok(s2, y, t))
      /\ r2.s.ip = s2.ip /\ r2.s.conn = s2.conn /\ r2.s.op = s2.op /\ r2.s.fh = s2.fh
  BY GStageChar DEF Pair
<1>3. GTok(s2, y, t) = GTok(s2, x, t) /\ GTok(r2.s, y, t) = GTok(r2.s, x, t)  BY ViewSame DEF Pair
<1> HIDE DEF r1, r2
<1>4. SV(r1.s, r2.s, x, t)
  BY <1>1, <1>2, <1>3 DEF Pair, SV, SameView, IpTok, ConnTok, OpTok
<1> QED BY <1>1, <1>2, <1>3, <1>4 DEF Pair, SV, SameView, r1, r2

LEMMA IpRel ==
  ASSUME NEW x, NEW y, NEW t, NEW cl, NEW s1, NEW s2, Pair(x, y, t, cl, s1, s2), NEW ip \in IPs
  PROVE  LET r1 == IpStage(s1, x, t, ip)  r2 == IpStage(s2, y, t, ip) IN
         r1.ok = r2.ok /\ Pair(x, y, t, cl, r1.s, r2.s)
<1> DEFINE r1 == IpStage(s1, x, t, ip)  r2 == IpStage(s2, y, t, ip)
<1>1. /\ StateOK(r1.s, x, t, cl) /\ r1.ok = (IpTok(s1, x, t, ip) >= 16) /\ IpTok(r1.s, x, t, ip) = Take(IpTok(s1, x, t, ip))
      /\ \A j \in IPs \ {ip} : IpTok(r1.s, x, t, j) = IpTok(s1, x, t, j)
      /\ r1.s.g = s1.g /\ r1.s.conn = s1.conn /\ r1.s.op = s1.op /\ r1.s.fh = s1.fh
  BY IpStageChar DEF Pair
<1>2. /\ StateOK(r2.s, y, t, cl) /\ r2.ok = (IpTok(s2, y, t, ip) >= 16) /\ IpTok(r2.s, y, t, ip) = Take(IpTok(s2, y, t, ip))
      /\ \A j \in IPs \ {ip} : IpTok(r2.s, y, t, j) = IpTok(s2, y, t, j)
      /\ r2.s.g = s2.g /\ r2.s.conn = s2.conn /\ r2.s.op = s2.op /\ r2.s.fh = s2.fh
  BY IpStageChar DEF Pair
<1>3. \A i : IpTok(s2, y, t, i) = IpTok(s2, x, t, i) /\ IpTok(r2.s, y, t, i) = IpTok(r2.s, x, t, i)  BY ViewSame DEF Pair
<1> HIDE DEF r1, r2
<1>4. SV(r1.s, r2.s, x, t)
  <2>1. GTok(r1.s, x, t) = GTok(r2.s, x, t)  BY <1>1, <1>2 DEF Pair, SV, SameView, GTok
  <2>2. \A i \in IPs : IpTok(r1.s, x, t, i) = IpTok(r2.s, x, t, i)  BY <1>1, <1>2, <1>3 DEF Pair, SV, SameView
  <2>3. \A k \in Conns : ConnTok(r1.s, x, t, k) = ConnTok(r2.s, x, t, k)  BY <1>1, <1>2 DEF Pair, SV, SameView, ConnTok
  <2>4. \A i \in IPs : \A o \in OpTypes : OpTok(r1.s, x, t, i, o) = OpTok(r2.s, x, t, i, o)  BY <1>1, <1>2 DEF Pair, SV, SameView, OpTok
  <2> QED BY <2>1, <2>2, <2>3, <2>4 DEF SV, SameView
<1> QED BY <1>1, <1>2, <1>3, <1>4 DEF Pair, SV, SameView, r1, r2

LEMMA ConnRel ==
  ASSUME NEW x, NEW y, NEW t, NEW cl, NEW s1, NEW s2, Pair(x, y, t, cl, s1, s2), NEW k \in Conns \ cl
  PROVE  LET r1 == ConnStage(s1, x, t, k)  r2 == ConnStage(s2, y, t, k) IN
         r1.ok = r2.ok /\ Pair(x, y, t, cl, r1.s, r2.s)
<1> DEFINE r1 == ConnStage(s1, x, t, k)  r2 == ConnStage(s2, y, t, k)
<1>1. /\ StateOK(r1.s, x, t, cl) /\ r1.ok = (x.connR4 = 0 \/ ConnTok(s1, x, t, k) >= 16)
      /\ ConnTok(r1.s, x, t, k) = IF x.connR4 = 0 THEN ConnTok(s1, x, t, k) ELSE Take(ConnTok(s1, x, t, k))
      /\ \A j \in Conns \ {k} : ConnTok(r1.s, x, t, j) = ConnTok(s1, x, t, j)
      /\ r1.s.g = s1.g /\ r1.s.ip = s1.ip /\ r1.s.op = s1.op /\ r1.s.fh = s1.fh
  BY ConnStageChar DEF Pair
<1>2. /\ StateOK(r2.s, y, t, cl) /\ r2.ok = (y.connR4 = 0 \/ ConnTok(s2, y, t, k) >= 16)
      /\ ConnTok(r2.s, y, t, k) = IF y.connR4 = 0 THEN ConnTok(s2, y, t, k) ELSE Take(ConnTok(s2, y, t, k))
      /\ \A j \in Conns \ {k} : ConnTok(r2.s, y, t, j) = ConnTok(s2, y, t, j)
      /\ r2.s.g = s2.g /\ r2.s.ip = s2.ip /\ r2.s.op = s2.op /\ r2.s.fh = s2.fh
  BY ConnStageChar DEF Pair
<1>3. \A i : ConnTok(s2, y, t, i) = ConnTok(s2, x, t, i) /\ ConnTok(r2.s, y, t, i) = ConnTok(r2.s, x, t, i)  BY ViewSame DEF Pair
<1>3a. y.connR4 = x.connR4 BY DEF Pair, CfgSame
<1> HIDE DEF r1, r2
<1>4. SV(r1.s, r2.s, x, t)
  <2>1. GTok(r1.s, x, t) = GTok(r2.s, x, t)  BY <1>1, <1>2 DEF Pair, SV, SameView, GTok
  <2>2. \A i \in IPs : IpTok(r1.s, x, t, i) = IpTok(r2.s, x, t, i)  BY <1>1, <1>2 DEF Pair, SV, SameView, IpTok
  <2>3. \A j \in Conns : ConnTok(r1.s, x, t, j) = ConnTok(r2.s, x, t, j)  BY <1>1, <1>2, <1>3, <1>3a DEF Pair, SV, SameView
  <2>4. \A i \in IPs : \A o \in OpTypes : OpTok(r1.s, x, t, i, o) = OpTok(r2.s, x, t, i, o)  BY <1>1, <1>2 DEF Pair, SV, SameView, OpTok
  <2> QED BY <2>1, <2>2, <2>3, <2>4 DEF SV, SameView
<1> QED BY <1>1, <1>2, <1>3, <1>3a, <1>4 DEF Pair, SV, SameView, r1, r2

LEMMA OpRel ==
  ASSUME NEW x, NEW y, NEW t, NEW cl, NEW s1, NEW s2, Pair(x, y, t, cl, s1, s2), NEW ip \in IPs, NEW o \in OpTypes
  PROVE  LET r1 == AllowOperationStep(s1, x, t, ip, o)  r2 == AllowOperationStep(s2, y, t, ip, o) IN
         r1.ok = r2.ok /\ Pair(x, y, t, cl, r1.s, r2.s)
<1> DEFINE r1 == AllowOperationStep(s1, x, t, ip, o)  r2 == AllowOperationStep(s2, y, t, ip, o)
<1>1. /\ StateOK(r1.s, x, t, cl) /\ r1.ok = (OpTok(s1, x, t, ip, o) >= 16) /\ OpTok(r1.s, x, t, ip, o) = Take(OpTok(s1, x, t, ip, o))
      /\ \A j \in IPs : \A p \in OpTypes : (j # ip \/ p # o) => OpTok(r1.s, x, t, j, p) = OpTok(s1, x, t, j, p)
      /\ r1.s.g = s1.g /\ r1.s.conn = s1.conn /\ r1.s.ip = s1.ip /\ r1.s.fh = s1.fh
  BY OpStepChar DEF Pair
<1>2. /\ StateOK(r2.s, y, t, cl) /\ r2.ok = (OpTok(s2, y, t, ip, o) >= 16) /\ OpTok(r2.s, y, t, ip, o) = Take(OpTok(s2, y, t, ip, o))
      /\ \A j \in IPs : \A p \in OpTypes : (j # ip \/ p # o) => OpTok(r2.s, y, t, j, p) = OpTok(s2, y, t, j, p)
      /\ r2.s.g = s2.g /\ r2.s.conn = s2.conn /\ r2.s.ip = s2.ip /\ r2.s.fh = s2.fh
  BY OpStepChar DEF Pair
<1>3. \A i, p : OpTok(s2, y, t, i, p) = OpTok(s2, x, t, i, p) /\ OpTok(r2.s, y, t, i, p) = OpTok(r2.s, x, t, i, p)  BY ViewSame DEF Pair
<1> HIDE DEF r1, r2
<1>4. SV(r1.s, r2.s, x, t)
  <2>1. GTok(r1.s, x, t) = GTok(r2.s, x, t)  BY <1>1, <1>2 DEF Pair, SV, SameView, GTok
  <2>2. \A i \in IPs : IpTok(r1.s, x, t, i) = IpTok(r2.s, x, t, i)  BY <1>1, <1>2 DEF Pair, SV, SameView, IpTok
  <2>3. \A j \in Conns : ConnTok(r1.s, x, t, j) = ConnTok(r2.s, x, t, j)  BY <1>1, <1>2 DEF Pair, SV, SameView, ConnTok
  <2>4. \A i \in IPs : \A p \in OpTypes : OpTok(r1.s, x, t, i, p) = OpTok(r2.s, x, t, i, p)
    <3> TAKE i \in IPs
    <3> TAKE p \in OpTypes
    <3>0. OpTok(s1, x, t, i, p) = OpTok(s2, x, t, i, p)  BY DEF Pair, SV, SameView
    <3>1. CASE i = ip /\ p = o  BY <3>0, <3>1, <1>1, <1>2, <1>3
    <3>2. CASE i # ip \/ p # o  BY <3>0, <3>2, <1>1, <1>2, <1>3
    <3> QED BY <3>1, <3>2
  <2> QED BY <2>1, <2>2, <2>3, <2>4 DEF SV, SameView
<1> QED BY <1>1, <1>2, <1>3, <1>4 DEF Pair, SV, SameView, r1, r2

LEMMA RequestRel ==
  ASSUME NEW x, NEW y, NEW t, NEW cl, NEW s1, NEW s2, Pair(x, y, t, cl, s1, s2), NEW ip \in IPs, NEW k \in Conns \ cl, NEW fix \in BOOLEAN
  PROVE  LET r1 == AllowRequestStep(s1, x, t, ip, k, fix)  r2 == AllowRequestStep(s2, y, t, ip, k, fix) IN
         r1.ok = r2.ok /\ Pair(x, y, t, cl, r1.s, r2.s)
<1>1. CASE ~fix
  <2> DEFINE g1 == GStage(s1, x, t)  g2 == GStage(s2, y, t)
  <2>1. g1.ok = g2.ok /\ Pair(x, y, t, cl, g1.s, g2.s)  BY GRel
  <2> DEFINE i1 == IpStage(g1.s, x, t, ip)  i2 == IpStage(g2.s, y, t, ip)
  <2>2. i1.ok = i2.ok /\ Pair(x, y, t, cl, i1.s, i2.s)  BY <2>1, IpRel
  <2> DEFINE k1 == ConnStage(i1.s, x, t, k)  k2 == ConnStage(i2.s, y, t, k)
  <2>3. k1.ok = k2.ok /\ Pair(x, y, t, cl, k1.s, k2.s)  BY <2>2, ConnRel
  <2>4. AllowRequestStep(s1, x, t, ip, k, fix) =
          IF ~g1.ok THEN [ok |-> FALSE, s |-> g1.s, stage |-> "global"] ELSE
          IF ~i1.ok THEN [ok |-> FALSE, s |-> i1.s, stage |-> "ip"] ELSE
          [ok |-> k1.ok, s |-> k1.s, stage |-> IF k1.ok THEN "admit" ELSE "conn"]
    BY <1>1 DEF AllowRequestStep
  <2>5. AllowRequestStep(s2, y, t, ip, k, fix) =
          IF ~g2.ok THEN [ok |-> FALSE, s |-> g2.s, stage |-> "global"] ELSE
          IF ~i2.ok THEN [ok |-> FALSE, s |-> i2.s, stage |-> "ip"] ELSE
          [ok |-> k2.ok, s |-> k2.s, stage |-> IF k2.ok THEN "admit" ELSE "conn"]
    BY <1>1 DEF AllowRequestStep
  <2> HIDE DEF g1, g2, i1, i2, k1, k2
  <2> QED BY <2>1, <2>2, <2>3, <2>4, <2>5
<1>2. CASE fix
  <2> DEFINE k1 == ConnStage(s1, x, t, k)  k2 == ConnStage(s2, y, t, k)
  <2>1. k1.ok = k2.ok /\ Pair(x, y, t, cl, k1.s, k2.s)  BY ConnRel
  <2> DEFINE i1 == IpStage(k1.s, x, t, ip)  i2 == IpStage(k2.s, y, t, ip)
  <2>2. i1.ok = i2.ok /\ Pair(x, y, t, cl, i1.s, i2.s)  BY <2>1, IpRel
  <2> DEFINE g1 == GStage(i1.s, x, t)  g2 == GStage(i2.s, y, t)
  <2>3. g1.ok = g2.ok /\ Pair(x, y, t, cl, g1.s, g2.s)  BY <2>2, GRel
  <2>4. AllowRequestStep(s1, x, t, ip, k, fix) =
          IF ~k1.ok THEN [ok |-> FALSE, s |-> k1.s, stage |-> "conn"] ELSE
          IF ~i1.ok THEN [ok |-> FALSE, s |-> i1.s, stage |-> "ip"] ELSE
          [ok |-> g1.ok, s |-> g1.s, stage |-> IF g1.ok THEN "admit" ELSE "global"]
    BY <1>2 DEF AllowRequestStep
  <2>5. AllowRequestStep(s2, y, t, ip, k, fix) =
          IF ~k2.ok THEN [ok |-> FALSE, s |-> k2.s, stage |-> "conn"] ELSE
          IF ~i2.ok THEN [ok |-> FALSE, s |-> i2.s, stage |-> "ip"] ELSE
          [ok |-> g2.ok, s |-> g2.s, stage |-> IF g2.ok THEN "admit" ELSE "global"]
    BY <1>2 DEF AllowRequestStep
  <2> HIDE DEF g1, g2, i1, i2, k1, k2
  <2> QED BY <2>1, <2>2, <2>3, <2>4, <2>5
<1> QED BY <1>1, <1>2

-----------------------------------------------------------------------------
(* the clock advances: every bucket, present or absent, refills by its rate up to its burst *)
LEMMA PeekTick ==
  ASSUME NEW b, NEW t \in Nat, NEW r4 \in Nat, NEW B \in Nat, BucketOK(b, B, t)
  PROVE  Peek(b, t + 1, r4, B) = Min(Peek(b, t, r4, B) + r4, 16 * B) /\ BucketOK(b, B, t + 1)
  BY DEF Peek, Min, BucketOK

LEMMA TickOne ==
  ASSUME NEW x, CfgOK(x), NEW t \in Nat, NEW cl, NEW st, StateOK(st, x, t, cl)
  PROVE  /\ StateOK(st, x, t + 1, cl)
         /\ GTok(st, x, t + 1) = Min(GTok(st, x, t) + 4 * x.G, 16 * x.gB)
         /\ \A i \in IPs : IpTok(st, x, t + 1, i) = Min(IpTok(st, x, t, i) + x.ipR4, 16 * x.ipB)
         /\ \A k \in Conns : ConnTok(st, x, t + 1, k) = Min(ConnTok(st, x, t, k) + x.connR4, 16 * x.connB)
         /\ \A i \in IPs : \A o \in OpTypes : OpTok(st, x, t + 1, i, o) = Min(OpTok(st, x, t, i, o) + x.opR4[o], 16 * x.opB[o])
<1>0. /\ 4 * x.G \in Nat /\ x.gB \in Nat /\ x.ipR4 \in Nat /\ x.ipB \in Nat /\ x.connR4 \in Nat /\ x.connB \in Nat
      /\ \A o \in OpTypes : x.opR4[o] \in Nat /\ x.opB[o] \in Nat
  BY DEF CfgOK
<1>1. BucketOK(st.g, x.gB, t + 1) /\ GTok(st, x, t + 1) = Min(GTok(st, x, t) + 4 * x.G, 16 * x.gB)
  BY <1>0, PeekTick DEF StateOK, GTok
<1>2. \A i \in IPs : IpTok(st, x, t + 1, i) = Min(IpTok(st, x, t, i) + x.ipR4, 16 * x.ipB)
  <2> TAKE i \in IPs
  <2>1. CASE i \in DOMAIN st.ip
    <3>1. BucketOK(st.ip[i], x.ipB, t)  BY <2>1 DEF StateOK
    <3> QED BY <2>1, <3>1, <1>0, PeekTick DEF IpTok
  <2>2. CASE i \notin DOMAIN st.ip  BY <2>2, <1>0 DEF IpTok, Min
  <2> QED BY <2>1, <2>2
<1>3. \A k \in Conns : ConnTok(st, x, t + 1, k) = Min(ConnTok(st, x, t, k) + x.connR4, 16 * x.connB)
  <2> TAKE k \in Conns
  <2>1. CASE k \in DOMAIN st.conn
    <3>1. BucketOK(st.conn[k], x.connB, t)  BY <2>1 DEF StateOK
    <3> QED BY <2>1, <3>1, <1>0, PeekTick DEF ConnTok
  <2>2. CASE k \notin DOMAIN st.conn  BY <2>2, <1>0 DEF ConnTok, Min
  <2> QED BY <2>1, <2>2
<1>4. \A i \in IPs : \A o \in OpTypes :
         OpTok(st, x, t + 1, i, o) = Min(OpTok(st, x, t, i, o) + x.opR4[o], 16 * x.opB[o])
  <2> TAKE i \in IPs
  <2> TAKE o \in OpTypes
  <2>1. CASE i \in DOMAIN st.op /\ o \in DOMAIN st.op[i]
    <3>1. BucketOK(st.op[i][o], x.opB[o], t)  BY <2>1 DEF StateOK
    <3> QED BY <2>1, <3>1, <1>0, PeekTick DEF OpTok
  <2>2. CASE ~(i \in DOMAIN st.op /\ o \in DOMAIN st.op[i])  BY <2>2, <1>0 DEF OpTok, Min
  <2> QED BY <2>1, <2>2
<1>5. StateOK(st, x, t + 1, cl)
  <2>1. \A b, B : BucketOK(b, B, t) => BucketOK(b, B, t + 1)  BY DEF BucketOK
  <2> QED BY <2>1 DEF StateOK
<1>6. \A i \in IPs : IpTok(st, x, t + 1, i) = Min(IpTok(st, x, t, i) + x.ipR4, 16 * x.ipB)  BY <1>2
<1>7. \A k \in Conns : ConnTok(st, x, t + 1, k) = Min(ConnTok(st, x, t, k) + x.connR4, 16 * x.connB)  BY <1>3
<1>8. \A i \in IPs : \A o \in OpTypes : OpTok(st, x, t + 1, i, o) = Min(OpTok(st, x, t, i, o) + x.opR4[o], 16 * x.opB[o])  BY <1>4
<1> QED BY <1>1, <1>5, <1>6, <1>7, <1>8

LEMMA TickRel ==
  ASSUME NEW x, NEW y, NEW t, NEW cl, NEW s1, NEW s2, Pair(x, y, t, cl, s1, s2)
  PROVE  Pair(x, y, t + 1, cl, s1, s2)
<1>0. t \in Nat /\ t + 1 \in Nat  BY DEF Pair
<1>1. /\ StateOK(s1, x, t + 1, cl)
      /\ GTok(s1, x, t + 1) = Min(GTok(s1, x, t) + 4 * x.G, 16 * x.gB)
      /\ \A i \in IPs : IpTok(s1, x, t + 1, i) = Min(IpTok(s1, x, t, i) + x.ipR4, 16 * x.ipB)
      /\ \A k \in Conns : ConnTok(s1, x, t + 1, k) = Min(ConnTok(s1, x, t, k) + x.connR4, 16 * x.connB)
      /\ \A i \in IPs : \A o \in OpTypes : OpTok(s1, x, t + 1, i, o) = Min(OpTok(s1, x, t, i, o) + x.opR4[o], 16 * x.opB[o])
  BY <1>0, TickOne DEF Pair
<1>2. /\ StateOK(s2, y, t + 1, cl)
      /\ GTok(s2, y, t + 1) = Min(GTok(s2, y, t) + 4 * y.G, 16 * y.gB)
      /\ \A i \in IPs : IpTok(s2, y, t + 1, i) = Min(IpTok(s2, y, t, i) + y.ipR4, 16 * y.ipB)
      /\ \A k \in Conns : ConnTok(s2, y, t + 1, k) = Min(ConnTok(s2, y, t, k) + y.connR4, 16 * y.connB)
      /\ \A i \in IPs : \A o \in OpTypes : OpTok(s2, y, t + 1, i, o) = Min(OpTok(s2, y, t, i, o) + y.opR4[o], 16 * y.opB[o])
  BY <1>0, TickOne DEF Pair
<1>3. /\ GTok(s2, y, t) = GTok(s2, x, t) /\ GTok(s2, y, t + 1) = GTok(s2, x, t + 1)
      /\ \A i : IpTok(s2, y, t, i) = IpTok(s2, x, t, i) /\ IpTok(s2, y, t + 1, i) = IpTok(s2, x, t + 1, i)
      /\ \A k : ConnTok(s2, y, t, k) = ConnTok(s2, x, t, k) /\ ConnTok(s2, y, t + 1, k) = ConnTok(s2, x, t + 1, k)
      /\ \A i, o : OpTok(s2, y, t, i, o) = OpTok(s2, x, t, i, o) /\ OpTok(s2, y, t + 1, i, o) = OpTok(s2, x, t + 1, i, o)
  BY ViewSame DEF Pair
<1>4. SV(s1, s2, x, t + 1)
  BY <1>1, <1>2, <1>3 DEF Pair, SV, SameView, CfgSame
<1> QED BY <1>0, <1>1, <1>2, <1>4 DEF Pair

-----------------------------------------------------------------------------
(* The inductive invariant *)
IndInv ==
  /\ CfgOK(c) /\ now \in Nat /\ closed \subseteq Conns
  /\ StateOK(s, c, now, closed) /\ StateOK(n, c, now, closed)
  /\ SV(s, n, c, now)

LEMMA CfgNOK == ASSUME CfgOK(c) PROVE CfgOK(CfgN) /\ CfgSame(c, CfgN)
  BY ConstAssm DEF CfgOK, CfgN, CfgSame

LEMMA PairOfInv == ASSUME IndInv PROVE Pair(c, CfgN, now, closed, s, n)
<1>1. CfgOK(CfgN) /\ CfgSame(c, CfgN)  BY CfgNOK DEF IndInv
<1>2. StateOK(n, CfgN, now, closed)  BY <1>1 DEF IndInv, StateOK, CfgSame
<1> QED BY <1>1, <1>2 DEF IndInv, Pair

LEMMA InvOfPair ==
  ASSUME NEW t, NEW cl, NEW s1, NEW s2, CfgOK(c), cl \subseteq Conns, Pair(c, CfgN, t, cl, s1, s2)
  PROVE  /\ t \in Nat /\ StateOK(s1, c, t, cl) /\ StateOK(s2, c, t, cl) /\ SV(s1, s2, c, t)
<1>1. CfgOK(CfgN) /\ CfgSame(c, CfgN)  BY CfgNOK
<1>2. StateOK(s2, CfgN, t, cl)  BY DEF Pair
<1>3. StateOK(s2, c, t, cl)  BY <1>1, <1>2 DEF StateOK, CfgSame
<1> QED BY <1>3 DEF Pair

THEOREM InitInd == Init => IndInv
<1> SUFFICES ASSUME Init PROVE IndInv  OBVIOUS
<1>1. CfgOK(c)  BY ConfigsOK DEF Init
<1>2. now = 0 /\ closed = {}  BY DEF Init
<1>3. s = InitState(c, 0) /\ n = s  BY DEF Init
<1>4. StateOK(InitState(c, 0), c, 0, {})
  <2> DEFINE st == InitState(c, 0)
  <2>1. st = [g |-> Full(c.gB, 0), ip |-> EmptyFn, conn |-> EmptyFn, op |-> EmptyFn,
              iplc |-> 0, oplc |-> 0, fh |-> [g |-> 0, ip |-> EmptyFn]]
    BY DEF InitState
  <2>2. DOMAIN EmptyFn = {}  BY DEF EmptyFn
  <2>3. BucketOK(Full(c.gB, 0), c.gB, 0)  BY <1>1, FullChar DEF CfgOK
  <2>4. c.fhG \in Nat /\ c.fhIP \in Nat  BY <1>1 DEF CfgOK
  <2> HIDE DEF st
  <2>5. StateOK(st, c, 0, {})  BY <2>1, <2>2, <2>3, <2>4 DEF StateOK
  <2> QED BY <2>5 DEF st
<1>5. SV(s, s, c, 0)  BY DEF SV, SameView
<1> QED BY <1>1, <1>2, <1>3, <1>4, <1>5 DEF IndInv

LEMMA FromPair ==
  ASSUME IndInv, NEW t, NEW cl, NEW s1, NEW s2, cl \subseteq Conns, Pair(c, CfgN, t, cl, s1, s2),
         c' = c, now' = t, closed' = cl, s' = s1, n' = s2
  PROVE  IndInv'
<1>1. CfgOK(c)  BY DEF IndInv
<1>2. t \in Nat /\ StateOK(s1, c, t, cl) /\ StateOK(s2, c, t, cl) /\ SV(s1, s2, c, t)  BY <1>1, InvOfPair
<1> QED BY <1>1, <1>2 DEF IndInv

\* removing idle per-IP / per-operation buckets from one instance changes no view
LEMMA DropIdleIp ==
  ASSUME NEW x, CfgOK(x), NEW t \in Nat, NEW cl, NEW st, StateOK(st, x, t, cl), NEW S \in SUBSET IpIdle(st, x, t)
  PROVE  LET s1 == [st EXCEPT !.ip = Without(@, S)] IN
         /\ StateOK(s1, x, t, cl)
         /\ \A j \in IPs : IpTok(s1, x, t, j) = IpTok(st, x, t, j)
         /\ s1.g = st.g /\ s1.conn = st.conn /\ s1.op = st.op /\ s1.fh = st.fh
<1> DEFINE s1 == [st EXCEPT !.ip = Without(@, S)]
<1>1. \A j \in DOMAIN st.ip : Peek(st.ip[j], t, x.ipR4, x.ipB) \in 0..(16 * x.ipB)
  <2> TAKE j \in DOMAIN st.ip
  <2>1. BucketOK(st.ip[j], x.ipB, t) BY DEF StateOK
  <2>2. x.ipR4 \in Nat /\ x.ipB \in Nat BY DEF CfgOK
  <2> QED BY <2>1, <2>2, AllowChar
<1>2. StateOK(s1, x, t, cl)  BY DEF StateOK, Without
<1>3. \A j \in IPs : IpTok(s1, x, t, j) = IpTok(st, x, t, j)
  <2> TAKE j \in IPs
  <2>0. s1.ip = Without(st.ip, S)  BY DEF StateOK
  <2>1. CASE j \notin DOMAIN st.ip
    BY <2>0, <2>1 DEF Without, IpTok
  <2>2. CASE j \in DOMAIN st.ip /\ j \notin S
    BY <2>0, <2>2 DEF Without, IpTok
  <2>3. CASE j \in DOMAIN st.ip /\ j \in S
    <3>1. Peek(st.ip[j], t, x.ipR4, x.ipB) = 16 * x.ipB  BY <2>3, <1>1 DEF IpIdle, CfgOK
    <3>2. j \notin DOMAIN s1.ip  BY <2>0, <2>3 DEF Without
    <3> QED BY <3>1, <3>2, <2>3 DEF IpTok
  <2> QED BY <2>1, <2>2, <2>3
<1>4. s1.g = st.g /\ s1.conn = st.conn /\ s1.op = st.op /\ s1.fh = st.fh  BY DEF StateOK
<1> QED BY <1>2, <1>3, <1>4

LEMMA DropIdleOp ==
  ASSUME NEW x, CfgOK(x), NEW t \in Nat, NEW cl, NEW st, StateOK(st, x, t, cl), NEW S \in SUBSET OpIdle(st, x, t)
  PROVE  LET s1 == [st EXCEPT !.op = Without(@, S)] IN
         /\ StateOK(s1, x, t, cl)
         /\ \A j \in IPs : \A o \in OpTypes : OpTok(s1, x, t, j, o) = OpTok(st, x, t, j, o)
         /\ s1.g = st.g /\ s1.conn = st.conn /\ s1.ip = st.ip /\ s1.fh = st.fh
<1> DEFINE s1 == [st EXCEPT !.op = Without(@, S)]
<1>1. \A j \in DOMAIN st.op : \A o \in DOMAIN st.op[j] : Peek(st.op[j][o], t, x.opR4[o], x.opB[o]) \in 0..(16 * x.opB[o])
  <2> TAKE j \in DOMAIN st.op
  <2> TAKE o \in DOMAIN st.op[j]
  <2>1. BucketOK(st.op[j][o], x.opB[o], t) /\ o \in OpTypes BY DEF StateOK
  <2>2. x.opR4[o] \in Nat /\ x.opB[o] \in Nat BY <2>1 DEF CfgOK
  <2> QED BY <2>1, <2>2, AllowChar
<1>2. StateOK(s1, x, t, cl)  BY DEF StateOK, Without
<1>3. \A j \in IPs : \A o \in OpTypes : OpTok(s1, x, t, j, o) = OpTok(st, x, t, j, o)
  <2> TAKE j \in IPs
  <2> TAKE o \in OpTypes
  <2>0. s1.op = Without(st.op, S)  BY DEF StateOK
  <2>1. CASE j \notin DOMAIN st.op
    BY <2>0, <2>1 DEF Without, OpTok
  <2>2. CASE j \in DOMAIN st.op /\ j \notin S
    BY <2>0, <2>2 DEF Without, OpTok
  <2>3. CASE j \in DOMAIN st.op /\ j \in S
    <3>2. j \notin DOMAIN s1.op  BY <2>0, <2>3 DEF Without
    <3>3. CASE o \notin DOMAIN st.op[j]
      BY <3>2, <3>3, <2>3 DEF OpTok
    <3>4. CASE o \in DOMAIN st.op[j]
      <4>1. Peek(st.op[j][o], t, x.opR4[o], x.opB[o]) = 16 * x.opB[o]  BY <2>3, <3>4, <1>1 DEF OpIdle, CfgOK
      <4> QED BY <4>1, <3>2, <3>4, <2>3 DEF OpTok
    <3> QED BY <3>3, <3>4
  <2> QED BY <2>1, <2>2, <2>3
<1>4. s1.g = st.g /\ s1.conn = st.conn /\ s1.ip = st.ip /\ s1.fh = st.fh  BY DEF StateOK
<1> QED BY <1>2, <1>3, <1>4

\* the file handle quota (one critical section each)
LEMMA AllocFHChar ==
  ASSUME NEW x, CfgOK(x), NEW t \in Nat, NEW cl, NEW st, StateOK(st, x, t, cl), NEW ip
  PROVE  LET r == AllocFHStep(st, x, ip) IN
         /\ StateOK(r.s, x, t, cl)
         /\ r.s.g = st.g /\ r.s.ip = st.ip /\ r.s.conn = st.conn /\ r.s.op = st.op
<1>0. x.fhG \in Nat /\ x.fhIP \in Nat  BY DEF CfgOK
<1> DEFINE cnt == IF ip \in DOMAIN st.fh.ip THEN st.fh.ip[ip] ELSE 0
<1>1. cnt \in Nat  BY DEF StateOK
<1>2. CASE x.fhG > 0 /\ st.fh.g >= x.fhG
  BY <1>2 DEF AllocFHStep
<1>3. CASE ~(x.fhG > 0 /\ st.fh.g >= x.fhG) /\ x.fhIP > 0 /\ cnt >= x.fhIP
  <2> DEFINE s1 == [st EXCEPT !.fh.ip = With(@, ip, cnt)]
  <2>1. AllocFHStep(st, x, ip) = [ok |-> FALSE, s |-> s1]  BY <1>3 DEF AllocFHStep
  <2>2. s1.fh = [g |-> st.fh.g, ip |-> With(st.fh.ip, ip, cnt)]  BY DEF StateOK
  <2>3. s1.g = st.g /\ s1.ip = st.ip /\ s1.conn = st.conn /\ s1.op = st.op /\ s1.iplc = st.iplc /\ s1.oplc = st.oplc
        /\ s1 = [g |-> s1.g, ip |-> s1.ip, conn |-> s1.conn, op |-> s1.op, iplc |-> s1.iplc, oplc |-> s1.oplc, fh |-> s1.fh]
    BY DEF StateOK
  <2>4. \A i \in DOMAIN With(st.fh.ip, ip, cnt) : With(st.fh.ip, ip, cnt)[i] \in Nat /\ (x.fhIP > 0 => With(st.fh.ip, ip, cnt)[i] <= x.fhIP)
    BY <1>1, <1>0 DEF With, StateOK
  <2> HIDE DEF s1, cnt
  <2>5. StateOK(s1, x, t, cl)  BY <2>2, <2>3, <2>4 DEF StateOK
  <2> QED BY <2>1, <2>3, <2>5
<1>4. CASE ~(x.fhG > 0 /\ st.fh.g >= x.fhG) /\ x.fhIP > 0 /\ ~(cnt >= x.fhIP)
  <2> DEFINE s1 == [st EXCEPT !.fh = [g |-> @.g + 1, ip |-> With(@.ip, ip, cnt + 1)]]
  <2>1. AllocFHStep(st, x, ip) = [ok |-> TRUE, s |-> s1]  BY <1>4 DEF AllocFHStep
  <2>2. s1.fh = [g |-> st.fh.g + 1, ip |-> With(st.fh.ip, ip, cnt + 1)]  BY DEF StateOK
  <2>3. s1.g = st.g /\ s1.ip = st.ip /\ s1.conn = st.conn /\ s1.op = st.op /\ s1.iplc = st.iplc /\ s1.oplc = st.oplc
        /\ s1 = [g |-> s1.g, ip |-> s1.ip, conn |-> s1.conn, op |-> s1.op, iplc |-> s1.iplc, oplc |-> s1.oplc, fh |-> s1.fh]
    BY DEF StateOK
  <2>4. \A i \in DOMAIN With(st.fh.ip, ip, cnt + 1) : With(st.fh.ip, ip, cnt + 1)[i] \in Nat /\ (x.fhIP > 0 => With(st.fh.ip, ip, cnt + 1)[i] <= x.fhIP)
    BY <1>1, <1>0, <1>4 DEF With, StateOK
  <2>6. st.fh.g + 1 \in Nat /\ (x.fhG > 0 => st.fh.g + 1 <= x.fhG)  BY <1>0, <1>4 DEF StateOK
  <2> HIDE DEF s1, cnt
  <2>5. StateOK(s1, x, t, cl)  BY <2>2, <2>3, <2>4, <2>6 DEF StateOK
  <2> QED BY <2>1, <2>3, <2>5
<1>5. CASE ~(x.fhG > 0 /\ st.fh.g >= x.fhG) /\ ~(x.fhIP > 0)
  <2> DEFINE s1 == [st EXCEPT !.fh.g = @ + 1]
  <2>1. AllocFHStep(st, x, ip) = [ok |-> TRUE, s |-> s1]  BY <1>5 DEF AllocFHStep
  <2>2. s1.fh = [g |-> st.fh.g + 1, ip |-> st.fh.ip]  BY DEF StateOK
  <2>3. s1.g = st.g /\ s1.ip = st.ip /\ s1.conn = st.conn /\ s1.op = st.op /\ s1.iplc = st.iplc /\ s1.oplc = st.oplc
        /\ s1 = [g |-> s1.g, ip |-> s1.ip, conn |-> s1.conn, op |-> s1.op, iplc |-> s1.iplc, oplc |-> s1.oplc, fh |-> s1.fh]
    BY DEF StateOK
  <2>6. st.fh.g + 1 \in Nat /\ (x.fhG > 0 => st.fh.g + 1 <= x.fhG)  BY <1>0, <1>5 DEF StateOK
  <2> HIDE DEF s1, cnt
  <2>5. StateOK(s1, x, t, cl)  BY <1>0, <1>5, <2>2, <2>3, <2>6 DEF StateOK
  <2> QED BY <2>1, <2>3, <2>5
<1> QED BY <1>2, <1>3, <1>4, <1>5

LEMMA ReleaseFHChar ==
  ASSUME NEW x, CfgOK(x), NEW t \in Nat, NEW cl, NEW st, StateOK(st, x, t, cl), NEW ip
  PROVE  LET s1 == ReleaseFHStep(st, ip) IN
         /\ StateOK(s1, x, t, cl)
         /\ s1.g = st.g /\ s1.ip = st.ip /\ s1.conn = st.conn /\ s1.op = st.op
<1>0. x.fhG \in Nat /\ x.fhIP \in Nat  BY DEF CfgOK
<1> DEFINE g1 == IF st.fh.g > 0 THEN st.fh.g - 1 ELSE 0
           m1 == IF ip \in DOMAIN st.fh.ip /\ st.fh.ip[ip] > 0 THEN With(st.fh.ip, ip, st.fh.ip[ip] - 1) ELSE st.fh.ip
           s1 == [st EXCEPT !.fh = [g |-> g1, ip |-> m1]]
<1>1. ReleaseFHStep(st, ip) = s1  BY DEF ReleaseFHStep
<1>2. g1 \in Nat /\ (x.fhG > 0 => g1 <= x.fhG)  BY <1>0 DEF StateOK
<1>3. \A i \in DOMAIN m1 : m1[i] \in Nat /\ (x.fhIP > 0 => m1[i] <= x.fhIP)  BY <1>0 DEF StateOK, With
<1>4. s1.fh = [g |-> g1, ip |-> m1]  BY DEF StateOK
<1>5. s1.g = st.g /\ s1.ip = st.ip /\ s1.conn = st.conn /\ s1.op = st.op /\ s1.iplc = st.iplc /\ s1.oplc = st.oplc
      /\ s1 = [g |-> s1.g, ip |-> s1.ip, conn |-> s1.conn, op |-> s1.op, iplc |-> s1.iplc, oplc |-> s1.oplc, fh |-> s1.fh]
  BY DEF StateOK
<1> HIDE DEF g1, m1, s1
<1>6. StateOK(s1, x, t, cl)  BY <1>2, <1>3, <1>4, <1>5 DEF StateOK
<1> QED BY <1>1, <1>5, <1>6

-----------------------------------------------------------------------------
THEOREM StepInd == IndInv /\ [Next]_vars => IndInv'
<1> SUFFICES ASSUME IndInv, [Next]_vars PROVE IndInv'  OBVIOUS
<1>0. Pair(c, CfgN, now, closed, s, n)  BY PairOfInv
<1>a. CfgOK(c) /\ closed \subseteq Conns /\ now \in Nat /\ CfgOK(CfgN)  BY CfgNOK DEF IndInv
<1>1. CASE Tick
  <2>1. c' = c /\ s' = s /\ n' = n /\ closed' = closed /\ now' = now + 1  BY <1>1 DEF Tick
  <2>2. Pair(c, CfgN, now + 1, closed, s, n)  BY <1>0, TickRel
  <2> QED BY <1>a, <2>1, <2>2, FromPair
<1>2. ASSUME NEW k \in Conns, Request(k) PROVE IndInv'
  <2> DEFINE ip == ConnIP(k)
             r  == AllowRequestStep(s, c, now, ip, k, c.fix)
             rn == AllowRequestStep(n, CfgN, now, ip, k, c.fix)
  <2>1. k \in Conns \ closed /\ ip \in IPs /\ c.fix \in BOOLEAN  BY <1>2, <1>a DEF Request, ConnIP, IPs, CfgOK
  <2>2. s' = r.s /\ n' = rn.s /\ c' = c /\ now' = now /\ closed' = closed
    BY <1>2 DEF Request, Cfg, FixOrder
  <2>3. r.ok = rn.ok /\ Pair(c, CfgN, now, closed, r.s, rn.s)  BY <1>0, <2>1, RequestRel
  <2> HIDE DEF r, rn, ip
  <2> QED BY <1>a, <2>2, <2>3, FromPair
<1>3. ASSUME NEW i \in IPs, NEW o \in OpTypes, Operation(i, o) PROVE IndInv'
  <2> DEFINE r  == AllowOperationStep(s, c, now, i, o)
             rn == AllowOperationStep(n, CfgN, now, i, o)
  <2>2. s' = r.s /\ n' = rn.s /\ c' = c /\ now' = now /\ closed' = closed
    BY <1>3 DEF Operation, Cfg
  <2>3. r.ok = rn.ok /\ Pair(c, CfgN, now, closed, r.s, rn.s)  BY <1>0, OpRel
  <2> HIDE DEF r, rn
  <2> QED BY <1>a, <2>2, <2>3, FromPair
<1>4. ASSUME NEW k \in Conns, CloseConn(k) PROVE IndInv'
  <2> DEFINE s1 == [s EXCEPT !.conn = Without(@, {k})]
             s2 == [n EXCEPT !.conn = Without(@, {k})]
             cl == closed \cup {k}
  <2>1. s' = s1 /\ n' = s2 /\ closed' = cl /\ c' = c /\ now' = now  BY <1>4 DEF CloseConn, CloseConnStep
  <2>2. StateOK(s1, c, now, cl) /\ StateOK(s2, CfgN, now, cl)  BY <1>0 DEF Pair, StateOK, Without
  <2>3. SV(s1, s2, c, now)
    <3>0. SV(s, n, c, now)  BY DEF IndInv
    <3>1. s1.g = s.g /\ s1.ip = s.ip /\ s1.op = s.op /\ s1.conn = Without(s.conn, {k})  BY <1>0 DEF Pair, StateOK
    <3>2. s2.g = n.g /\ s2.ip = n.ip /\ s2.op = n.op /\ s2.conn = Without(n.conn, {k})  BY <1>0 DEF Pair, StateOK
    <3> HIDE DEF s1, s2
    <3>3. GTok(s1, c, now) = GTok(s2, c, now)  BY <3>0, <3>1, <3>2 DEF SV, SameView, GTok
    <3>4. \A j \in IPs : IpTok(s1, c, now, j) = IpTok(s2, c, now, j)  BY <3>0, <3>1, <3>2 DEF SV, SameView, IpTok
    <3>5. \A j \in IPs : \A p \in OpTypes : OpTok(s1, c, now, j, p) = OpTok(s2, c, now, j, p)  BY <3>0, <3>1, <3>2 DEF SV, SameView, OpTok
    <3>6. \A j \in Conns : ConnTok(s1, c, now, j) = ConnTok(s2, c, now, j)
      <4> TAKE j \in Conns
      <4>0. ConnTok(s, c, now, j) = ConnTok(n, c, now, j)  BY <3>0 DEF SV, SameView
      <4>1. CASE j = k  BY <4>1, <3>1, <3>2 DEF ConnTok, Without
      <4>2. CASE j # k  BY <4>0, <4>2, <3>1, <3>2 DEF ConnTok, Without
      <4> QED BY <4>1, <4>2
    <3> QED BY <3>3, <3>4, <3>5, <3>6 DEF SV, SameView
  <2> HIDE DEF s1, s2, cl
  <2>4. Pair(c, CfgN, now, cl, s1, s2)  BY <1>0, <2>2, <2>3 DEF Pair
  <2>5. cl \subseteq Conns  BY <1>a DEF cl
  <2> QED BY <2>1, <2>4, <2>5, FromPair
<1>5. ASSUME NEW i \in IPs, AllocFH(i) PROVE IndInv'
  <2> DEFINE r == AllocFHStep(s, c, i)  rn == AllocFHStep(n, CfgN, i)
  <2>1. s' = r.s /\ n' = rn.s /\ c' = c /\ now' = now /\ closed' = closed  BY <1>5 DEF AllocFH, Cfg
  <2>2. StateOK(r.s, c, now, closed) /\ r.s.g = s.g /\ r.s.ip = s.ip /\ r.s.conn = s.conn /\ r.s.op = s.op
    BY <1>0, <1>a, AllocFHChar DEF Pair
  <2>3. StateOK(rn.s, CfgN, now, closed) /\ rn.s.g = n.g /\ rn.s.ip = n.ip /\ rn.s.conn = n.conn /\ rn.s.op = n.op
    BY <1>0, <1>a, AllocFHChar DEF Pair
  <2> HIDE DEF r, rn
  <2>4. SV(r.s, rn.s, c, now)
    BY <1>0, <2>2, <2>3 DEF Pair, SV, SameView, GTok, IpTok, ConnTok, OpTok
  <2>5. Pair(c, CfgN, now, closed, r.s, rn.s)  BY <1>0, <2>2, <2>3, <2>4 DEF Pair
  <2> QED BY <1>a, <2>1, <2>5, FromPair
<1>6. ASSUME NEW i \in IPs, ReleaseFH(i) PROVE IndInv'
  <2> DEFINE r == ReleaseFHStep(s, i)  rn == ReleaseFHStep(n, i)
  <2>1. s' = r /\ n' = rn /\ c' = c /\ now' = now /\ closed' = closed  BY <1>6 DEF ReleaseFH
  <2>2. StateOK(r, c, now, closed) /\ r.g = s.g /\ r.ip = s.ip /\ r.conn = s.conn /\ r.op = s.op
    BY <1>0, <1>a, ReleaseFHChar DEF Pair
  <2>3. StateOK(rn, CfgN, now, closed) /\ rn.g = n.g /\ rn.ip = n.ip /\ rn.conn = n.conn /\ rn.op = n.op
    BY <1>0, <1>a, ReleaseFHChar DEF Pair
  <2> HIDE DEF r, rn
  <2>4. SV(r, rn, c, now)
    BY <1>0, <2>2, <2>3 DEF Pair, SV, SameView, GTok, IpTok, ConnTok, OpTok
  <2>5. Pair(c, CfgN, now, closed, r, rn)  BY <1>0, <2>2, <2>3, <2>4 DEF Pair
  <2> QED BY <1>a, <2>1, <2>5, FromPair
<1>7. ASSUME NEW S \in SUBSET IPs, CleanupIP(S) PROVE IndInv'
  <2> DEFINE s1 == [s EXCEPT !.ip = Without(@, S)]
  <2>1. s' = s1 /\ n' = n /\ c' = c /\ now' = now /\ closed' = closed /\ S \in SUBSET IpIdle(s, c, now)
    BY <1>7 DEF CleanupIP, Cfg
  <2>2. /\ StateOK(s1, c, now, closed)
        /\ \A j \in IPs : IpTok(s1, c, now, j) = IpTok(s, c, now, j)
        /\ s1.g = s.g /\ s1.conn = s.conn /\ s1.op = s.op /\ s1.fh = s.fh
    BY <1>0, <1>a, <2>1, DropIdleIp DEF Pair
  <2> HIDE DEF s1
  <2>3. SV(s1, n, c, now)  BY <1>0, <2>2 DEF Pair, SV, SameView, GTok, ConnTok, OpTok
  <2>4. Pair(c, CfgN, now, closed, s1, n)  BY <1>0, <2>2, <2>3 DEF Pair
  <2> QED BY <1>a, <2>1, <2>4, FromPair
<1>8. ASSUME NEW S \in SUBSET IPs, CleanupOp(S) PROVE IndInv'
  <2> DEFINE s1 == [s EXCEPT !.op = Without(@, S)]
  <2>1. s' = s1 /\ n' = n /\ c' = c /\ now' = now /\ closed' = closed /\ S \in SUBSET OpIdle(s, c, now)
    BY <1>8 DEF CleanupOp, Cfg
  <2>2. /\ StateOK(s1, c, now, closed)
        /\ \A j \in IPs : \A o \in OpTypes : OpTok(s1, c, now, j, o) = OpTok(s, c, now, j, o)
        /\ s1.g = s.g /\ s1.conn = s.conn /\ s1.ip = s.ip /\ s1.fh = s.fh
    BY <1>0, <1>a, <2>1, DropIdleOp DEF Pair
  <2> HIDE DEF s1
  <2>3. SV(s1, n, c, now)  BY <1>0, <2>2 DEF Pair, SV, SameView, GTok, ConnTok, IpTok
  <2>4. Pair(c, CfgN, now, closed, s1, n)  BY <1>0, <2>2, <2>3 DEF Pair
  <2> QED BY <1>a, <2>1, <2>4, FromPair
<1>9. CASE UNCHANGED vars
  BY <1>9 DEF vars, IndInv, CfgN
<1> QED BY <1>1, <1>2, <1>3, <1>4, <1>5, <1>6, <1>7, <1>8, <1>9 DEF Next

-----------------------------------------------------------------------------
(* the listed state invariants follow *)
THEOREM IndImpliesTypeOK == IndInv => TypeOK
  BY DEF IndInv, StateOK, BucketOK, TypeOK

THEOREM IndImpliesFHBounded == IndInv => FHBounded
  BY DEF IndInv, StateOK, FHBounded

THEOREM IndImpliesAbsentIsFull == IndInv => AbsentIsFull
  BY DEF IndInv, SV, AbsentIsFull, Cfg

-----------------------------------------------------------------------------
(* What one AllowRequest call does to the views: never a refill, exactly one token from every stage *)
(* when it admits, other keys untouched, and (repaired order) a refusal leaves the global bucket.  *)
LEMMA TokRange ==
  ASSUME NEW x, CfgOK(x), NEW t \in Nat, NEW cl, NEW st, StateOK(st, x, t, cl)
  PROVE  /\ GTok(st, x, t) \in 0..(16 * x.gB)
         /\ \A i \in IPs : IpTok(st, x, t, i) \in 0..(16 * x.ipB)
         /\ \A k \in Conns : ConnTok(st, x, t, k) \in 0..(16 * x.connB)
         /\ \A i \in IPs : \A o \in OpTypes : OpTok(st, x, t, i, o) \in 0..(16 * x.opB[o])
<1>0. /\ 4 * x.G \in Nat /\ x.gB \in Nat /\ x.ipR4 \in Nat /\ x.ipB \in Nat /\ x.connR4 \in Nat /\ x.connB \in Nat
      /\ \A o \in OpTypes : x.opR4[o] \in Nat /\ x.opB[o] \in Nat
  BY DEF CfgOK
<1>1. GTok(st, x, t) \in 0..(16 * x.gB)
  BY <1>0, AllowChar DEF StateOK, GTok
<1>2. \A i \in IPs : IpTok(st, x, t, i) \in 0..(16 * x.ipB)
  <2> TAKE i \in IPs
  <2>1. CASE i \in DOMAIN st.ip
    <3>1. BucketOK(st.ip[i], x.ipB, t)  BY <2>1 DEF StateOK
    <3> QED BY <2>1, <3>1, <1>0, AllowChar DEF IpTok
  <2>2. CASE i \notin DOMAIN st.ip  BY <2>2, <1>0 DEF IpTok
  <2> QED BY <2>1, <2>2
<1>3. \A k \in Conns : ConnTok(st, x, t, k) \in 0..(16 * x.connB)
  <2> TAKE k \in Conns
  <2>1. CASE k \in DOMAIN st.conn
    <3>1. BucketOK(st.conn[k], x.connB, t)  BY <2>1 DEF StateOK
    <3> QED BY <2>1, <3>1, <1>0, AllowChar DEF ConnTok
  <2>2. CASE k \notin DOMAIN st.conn  BY <2>2, <1>0 DEF ConnTok
  <2> QED BY <2>1, <2>2
<1>4. \A i \in IPs : \A o \in OpTypes : OpTok(st, x, t, i, o) \in 0..(16 * x.opB[o])
  <2> TAKE i \in IPs
  <2> TAKE o \in OpTypes
  <2>1. CASE i \in DOMAIN st.op /\ o \in DOMAIN st.op[i]
    <3>1. BucketOK(st.op[i][o], x.opB[o], t)  BY <2>1 DEF StateOK
    <3> QED BY <2>1, <3>1, <1>0, AllowChar DEF OpTok
  <2>2. CASE ~(i \in DOMAIN st.op /\ o \in DOMAIN st.op[i])  BY <2>2, <1>0 DEF OpTok
  <2> QED BY <2>1, <2>2
<1> QED BY <1>1, <1>2, <1>3, <1>4

\* s2 is s1 after some stages: no view grew, operation buckets untouched
Leq(s1, s2, x, t) ==
  /\ GTok(s2, x, t) <= GTok(s1, x, t)
  /\ \A i \in IPs : IpTok(s2, x, t, i) <= IpTok(s1, x, t, i)
  /\ \A k \in Conns : ConnTok(s2, x, t, k) <= ConnTok(s1, x, t, k)
  /\ \A i \in IPs : \A o \in OpTypes : OpTok(s2, x, t, i, o) = OpTok(s1, x, t, i, o)
\* ... and everything but the three buckets of (ip, k) kept its content
Others(s1, s2, x, t, ip, k) ==
  /\ \A i \in IPs \ {ip} : IpTok(s2, x, t, i) = IpTok(s1, x, t, i)
  /\ \A j \in Conns \ {k} : ConnTok(s2, x, t, j) = ConnTok(s1, x, t, j)

LEMMA GStageStep ==
  ASSUME NEW x, CfgOK(x), NEW t \in Nat, NEW cl, NEW st, StateOK(st, x, t, cl), NEW ip, NEW k
  PROVE  LET r == GStage(st, x, t) IN
         /\ StateOK(r.s, x, t, cl) /\ Leq(st, r.s, x, t) /\ Others(st, r.s, x, t, ip, k)
         /\ r.ok = (GTok(st, x, t) >= 16) /\ GTok(r.s, x, t) = Take(GTok(st, x, t))
         /\ IpTok(r.s, x, t, ip) = IpTok(st, x, t, ip) /\ ConnTok(r.s, x, t, k) = ConnTok(st, x, t, k)
<1> DEFINE r == GStage(st, x, t)
<1>1. /\ StateOK(r.s, x, t, cl) /\ r.ok = (GTok(st, x, t) >= 16) /\ GTok(r.s, x, t) = Take(GTok(st, x, t))
      /\ r.s.ip = st.ip /\ r.s.conn = st.conn /\ r.s.op = st.op /\ r.s.fh = st.fh
  BY GStageChar
<1>2. GTok(st, x, t) \in 0..(16 * x.gB) /\ x.gB \in Nat  BY TokRange DEF CfgOK
<1> HIDE DEF r
<1>3. \A i : IpTok(r.s, x, t, i) = IpTok(st, x, t, i)  BY <1>1 DEF IpTok
<1>4. \A j : ConnTok(r.s, x, t, j) = ConnTok(st, x, t, j)  BY <1>1 DEF ConnTok
<1>5. \A i, o : OpTok(r.s, x, t, i, o) = OpTok(st, x, t, i, o)  BY <1>1 DEF OpTok
<1>6. GTok(r.s, x, t) <= GTok(st, x, t)  BY <1>1, <1>2 DEF Take
<1>7. \A i \in IPs : IpTok(st, x, t, i) \in Int  BY TokRange
<1>8. \A j \in Conns : ConnTok(st, x, t, j) \in Int  BY TokRange
<1> QED BY <1>1, <1>3, <1>4, <1>5, <1>6, <1>7, <1>8 DEF Leq, Others, r

LEMMA IpStageStep ==
  ASSUME NEW x, CfgOK(x), NEW t \in Nat, NEW cl, NEW st, StateOK(st, x, t, cl), NEW ip \in IPs, NEW k
  PROVE  LET r == IpStage(st, x, t, ip) IN
         /\ StateOK(r.s, x, t, cl) /\ Leq(st, r.s, x, t) /\ Others(st, r.s, x, t, ip, k)
         /\ r.ok = (IpTok(st, x, t, ip) >= 16) /\ IpTok(r.s, x, t, ip) = Take(IpTok(st, x, t, ip))
         /\ GTok(r.s, x, t) = GTok(st, x, t) /\ ConnTok(r.s, x, t, k) = ConnTok(st, x, t, k)
<1> DEFINE r == IpStage(st, x, t, ip)
<1>1. /\ StateOK(r.s, x, t, cl) /\ r.ok = (IpTok(st, x, t, ip) >= 16) /\ IpTok(r.s, x, t, ip) = Take(IpTok(st, x, t, ip))
      /\ \A j \in IPs \ {ip} : IpTok(r.s, x, t, j) = IpTok(st, x, t, j)
      /\ r.s.g = st.g /\ r.s.conn = st.conn /\ r.s.op = st.op /\ r.s.fh = st.fh
  BY IpStageChar
<1>2. \A i \in IPs : IpTok(st, x, t, i) \in 0..(16 * x.ipB)  BY TokRange
<1>2a. x.ipB \in Nat  BY DEF CfgOK
<1> HIDE DEF r
<1>3. GTok(r.s, x, t) = GTok(st, x, t)  BY <1>1 DEF GTok
<1>4. \A j : ConnTok(r.s, x, t, j) = ConnTok(st, x, t, j)  BY <1>1 DEF ConnTok
<1>5. \A i, o : OpTok(r.s, x, t, i, o) = OpTok(st, x, t, i, o)  BY <1>1 DEF OpTok
<1>6. \A i \in IPs : IpTok(r.s, x, t, i) <= IpTok(st, x, t, i)  BY <1>1, <1>2, <1>2a DEF Take
<1>7. GTok(st, x, t) \in Int  BY TokRange
<1>8. \A j \in Conns : ConnTok(st, x, t, j) \in Int  BY TokRange
<1> QED BY <1>1, <1>3, <1>4, <1>5, <1>6, <1>7, <1>8 DEF Leq, Others, r

LEMMA ConnStageStep ==
  ASSUME NEW x, CfgOK(x), NEW t \in Nat, NEW cl, NEW st, StateOK(st, x, t, cl), NEW ip, NEW k \in Conns \ cl
  PROVE  LET r == ConnStage(st, x, t, k) IN
         /\ StateOK(r.s, x, t, cl) /\ Leq(st, r.s, x, t) /\ Others(st, r.s, x, t, ip, k)
         /\ r.ok = (x.connR4 = 0 \/ ConnTok(st, x, t, k) >= 16)
         /\ ConnTok(r.s, x, t, k) = IF x.connR4 = 0 THEN ConnTok(st, x, t, k) ELSE Take(ConnTok(st, x, t, k))
         /\ GTok(r.s, x, t) = GTok(st, x, t) /\ IpTok(r.s, x, t, ip) = IpTok(st, x, t, ip)
<1> DEFINE r == ConnStage(st, x, t, k)
<1>1. /\ StateOK(r.s, x, t, cl) /\ r.ok = (x.connR4 = 0 \/ ConnTok(st, x, t, k) >= 16)
      /\ ConnTok(r.s, x, t, k) = IF x.connR4 = 0 THEN ConnTok(st, x, t, k) ELSE Take(ConnTok(st, x, t, k))
      /\ \A j \in Conns \ {k} : ConnTok(r.s, x, t, j) = ConnTok(st, x, t, j)
      /\ r.s.g = st.g /\ r.s.ip = st.ip /\ r.s.op = st.op /\ r.s.fh = st.fh
  BY ConnStageChar
<1>2. \A j \in Conns : ConnTok(st, x, t, j) \in 0..(16 * x.connB)  BY TokRange
<1>2a. x.connB \in Nat  BY DEF CfgOK
<1> HIDE DEF r
<1>3. GTok(r.s, x, t) = GTok(st, x, t)  BY <1>1 DEF GTok
<1>4. \A i : IpTok(r.s, x, t, i) = IpTok(st, x, t, i)  BY <1>1 DEF IpTok
<1>5. \A i, o : OpTok(r.s, x, t, i, o) = OpTok(st, x, t, i, o)  BY <1>1 DEF OpTok
<1>6. \A j \in Conns : ConnTok(r.s, x, t, j) <= ConnTok(st, x, t, j)  BY <1>1, <1>2, <1>2a DEF Take
<1>7. GTok(st, x, t) \in Int  BY TokRange
<1>8. \A i \in IPs : IpTok(st, x, t, i) \in Int  BY TokRange
<1> QED BY <1>1, <1>3, <1>4, <1>5, <1>6, <1>7, <1>8 DEF Leq, Others, r

InRange(st, x, t) ==
  /\ GTok(st, x, t) \in Int
  /\ \A i \in IPs : IpTok(st, x, t, i) \in Int
  /\ \A j \in Conns : ConnTok(st, x, t, j) \in Int

LEMMA ChainLeq ==
  ASSUME NEW x, NEW t, NEW a, NEW b, NEW d, NEW ip, NEW k,
         InRange(a, x, t), InRange(b, x, t), InRange(d, x, t),
         Leq(a, b, x, t), Leq(b, d, x, t), Others(a, b, x, t, ip, k), Others(b, d, x, t, ip, k)
  PROVE  Leq(a, d, x, t) /\ Others(a, d, x, t, ip, k)
  BY DEF Leq, Others, InRange

LEMMA RangeOf ==
  ASSUME NEW x, CfgOK(x), NEW t \in Nat, NEW cl, NEW st, StateOK(st, x, t, cl)
  PROVE  InRange(st, x, t)
  BY TokRange DEF InRange

RequestEffect(st, x, t, ip, k, fix, r) ==
  /\ Leq(st, r.s, x, t) /\ Others(st, r.s, x, t, ip, k)
  /\ r.ok => /\ GTok(st, x, t) >= 16 /\ GTok(r.s, x, t) = GTok(st, x, t) - 16
             /\ IpTok(st, x, t, ip) >= 16 /\ IpTok(r.s, x, t, ip) = IpTok(st, x, t, ip) - 16
             /\ x.connR4 # 0 => (ConnTok(st, x, t, k) >= 16 /\ ConnTok(r.s, x, t, k) = ConnTok(st, x, t, k) - 16)
  /\ (fix /\ ~r.ok) => GTok(r.s, x, t) = GTok(st, x, t)
  /\ ~r.ok => (GTok(r.s, x, t) = GTok(st, x, t) \/ GTok(r.s, x, t) = GTok(st, x, t) - 16)
  /\ ~fix => GTok(r.s, x, t) = Take(GTok(st, x, t))
  /\ r.ok = (GTok(st, x, t) >= 16 /\ IpTok(st, x, t, ip) >= 16 /\ (x.connR4 = 0 \/ ConnTok(st, x, t, k) >= 16))
  /\ IpTok(r.s, x, t, ip) >= IpTok(st, x, t, ip) - 16 /\ ConnTok(r.s, x, t, k) >= ConnTok(st, x, t, k) - 16
  /\ x.connR4 = 0 => ConnTok(r.s, x, t, k) = ConnTok(st, x, t, k)

LEMMA RequestChar ==
  ASSUME NEW x, CfgOK(x), NEW t \in Nat, NEW cl, NEW st, StateOK(st, x, t, cl),
         NEW ip \in IPs, NEW k \in Conns \ cl, NEW fix \in BOOLEAN
  PROVE  LET r == AllowRequestStep(st, x, t, ip, k, fix) IN
         StateOK(r.s, x, t, cl) /\ r.ok \in BOOLEAN /\ RequestEffect(st, x, t, ip, k, fix, r)
<1>0. InRange(st, x, t)  BY RangeOf
<1>1. CASE ~fix
  <2> DEFINE g == GStage(st, x, t)
  <2>1. /\ StateOK(g.s, x, t, cl) /\ Leq(st, g.s, x, t) /\ Others(st, g.s, x, t, ip, k)
        /\ g.ok = (GTok(st, x, t) >= 16) /\ GTok(g.s, x, t) = Take(GTok(st, x, t))
        /\ IpTok(g.s, x, t, ip) = IpTok(st, x, t, ip) /\ ConnTok(g.s, x, t, k) = ConnTok(st, x, t, k)
    BY GStageStep
  <2> DEFINE i == IpStage(g.s, x, t, ip)
  <2>2. /\ StateOK(i.s, x, t, cl) /\ Leq(g.s, i.s, x, t) /\ Others(g.s, i.s, x, t, ip, k)
        /\ i.ok = (IpTok(g.s, x, t, ip) >= 16) /\ IpTok(i.s, x, t, ip) = Take(IpTok(g.s, x, t, ip))
        /\ GTok(i.s, x, t) = GTok(g.s, x, t) /\ ConnTok(i.s, x, t, k) = ConnTok(g.s, x, t, k)
    BY <2>1, IpStageStep
  <2> DEFINE c3 == ConnStage(i.s, x, t, k)
  <2>3. /\ StateOK(c3.s, x, t, cl) /\ Leq(i.s, c3.s, x, t) /\ Others(i.s, c3.s, x, t, ip, k)
        /\ c3.ok = (x.connR4 = 0 \/ ConnTok(i.s, x, t, k) >= 16)
        /\ ConnTok(c3.s, x, t, k) = IF x.connR4 = 0 THEN ConnTok(i.s, x, t, k) ELSE Take(ConnTok(i.s, x, t, k))
        /\ GTok(c3.s, x, t) = GTok(i.s, x, t) /\ IpTok(c3.s, x, t, ip) = IpTok(i.s, x, t, ip)
    BY <2>2, ConnStageStep
  <2>4. AllowRequestStep(st, x, t, ip, k, fix) =
          IF ~g.ok THEN [ok |-> FALSE, s |-> g.s, stage |-> "global"] ELSE
          IF ~i.ok THEN [ok |-> FALSE, s |-> i.s, stage |-> "ip"] ELSE
          [ok |-> c3.ok, s |-> c3.s, stage |-> IF c3.ok THEN "admit" ELSE "conn"]
    BY <1>1 DEF AllowRequestStep
  <2>5. InRange(g.s, x, t) /\ InRange(i.s, x, t) /\ InRange(c3.s, x, t)  BY <2>1, <2>2, <2>3, RangeOf
  <2> HIDE DEF g, i, c3
  <2>6. Leq(st, i.s, x, t) /\ Others(st, i.s, x, t, ip, k)  BY <1>0, <2>1, <2>2, <2>5, ChainLeq
  <2>7. Leq(st, c3.s, x, t) /\ Others(st, c3.s, x, t, ip, k)  BY <1>0, <2>3, <2>5, <2>6, ChainLeq
  <2>8. CASE ~g.ok
    BY <2>8, <2>4, <2>1, <1>0, <1>1 DEF RequestEffect, Take, InRange
  <2>9. CASE g.ok /\ ~i.ok
    BY <2>9, <2>4, <2>1, <2>2, <2>6, <1>0, <1>1 DEF RequestEffect, Take, InRange
  <2>10. CASE g.ok /\ i.ok
    BY <2>10, <2>4, <2>1, <2>2, <2>3, <2>7, <1>0, <1>1 DEF RequestEffect, Take, InRange
  <2> QED BY <2>8, <2>9, <2>10
<1>2. CASE fix
  <2> DEFINE c3 == ConnStage(st, x, t, k)
  <2>1. /\ StateOK(c3.s, x, t, cl) /\ Leq(st, c3.s, x, t) /\ Others(st, c3.s, x, t, ip, k)
        /\ c3.ok = (x.connR4 = 0 \/ ConnTok(st, x, t, k) >= 16)
        /\ ConnTok(c3.s, x, t, k) = IF x.connR4 = 0 THEN ConnTok(st, x, t, k) ELSE Take(ConnTok(st, x, t, k))
        /\ GTok(c3.s, x, t) = GTok(st, x, t) /\ IpTok(c3.s, x, t, ip) = IpTok(st, x, t, ip)
    BY ConnStageStep
  <2> DEFINE i == IpStage(c3.s, x, t, ip)
  <2>2. /\ StateOK(i.s, x, t, cl) /\ Leq(c3.s, i.s, x, t) /\ Others(c3.s, i.s, x, t, ip, k)
        /\ i.ok = (IpTok(c3.s, x, t, ip) >= 16) /\ IpTok(i.s, x, t, ip) = Take(IpTok(c3.s, x, t, ip))
        /\ GTok(i.s, x, t) = GTok(c3.s, x, t) /\ ConnTok(i.s, x, t, k) = ConnTok(c3.s, x, t, k)
    BY <2>1, IpStageStep
  <2> DEFINE g == GStage(i.s, x, t)
  <2>3. /\ StateOK(g.s, x, t, cl) /\ Leq(i.s, g.s, x, t) /\ Others(i.s, g.s, x, t, ip, k)
        /\ g.ok = (GTok(i.s, x, t) >= 16) /\ GTok(g.s, x, t) = Take(GTok(i.s, x, t))
        /\ IpTok(g.s, x, t, ip) = IpTok(i.s, x, t, ip) /\ ConnTok(g.s, x, t, k) = ConnTok(i.s, x, t, k)
    BY <2>2, GStageStep
  <2>4. AllowRequestStep(st, x, t, ip, k, fix) =
          IF ~c3.ok THEN [ok |-> FALSE, s |-> c3.s, stage |-> "conn"] ELSE
          IF ~i.ok THEN [ok |-> FALSE, s |-> i.s, stage |-> "ip"] ELSE
          [ok |-> g.ok, s |-> g.s, stage |-> IF g.ok THEN "admit" ELSE "global"]
    BY <1>2 DEF AllowRequestStep
  <2>5. InRange(g.s, x, t) /\ InRange(i.s, x, t) /\ InRange(c3.s, x, t)  BY <2>1, <2>2, <2>3, RangeOf
  <2> HIDE DEF g, i, c3
  <2>6. Leq(st, i.s, x, t) /\ Others(st, i.s, x, t, ip, k)  BY <1>0, <2>1, <2>2, <2>5, ChainLeq
  <2>7. Leq(st, g.s, x, t) /\ Others(st, g.s, x, t, ip, k)  BY <1>0, <2>3, <2>5, <2>6, ChainLeq
  <2>8. CASE ~c3.ok
    BY <2>8, <2>4, <2>1, <1>0, <1>2 DEF RequestEffect, Take, InRange
  <2>9. CASE c3.ok /\ ~i.ok
    BY <2>9, <2>4, <2>1, <2>2, <2>6, <1>0, <1>2 DEF RequestEffect, Take, InRange
  <2>10. CASE c3.ok /\ i.ok
    BY <2>10, <2>4, <2>1, <2>2, <2>3, <2>7, <1>0, <1>2 DEF RequestEffect, Take, InRange
  <2> QED BY <2>8, <2>9, <2>10
<1> QED BY <1>1, <1>2

-----------------------------------------------------------------------------
(* The ghost: when it reports which failure *)
LEMMA GhostFails ==
  ASSUME NEW gh0, NEW x, NEW t, NEW kind, NEW ip, NEW conn, NEW o, NEW dec, NEW decn, NEW gPre, NEW gPost, NEW known
  PROVE  LET g == GhostStep(gh0, x, t, kind, ip, conn, o, dec, decn, gPre, gPost, known) IN
         /\ (\E f \in g.fails : f.why = WhyC) => dec # decn
         /\ (\E f \in g.fails : f.why = WhyD) =>
               /\ kind = "req" /\ ~dec
               /\ Peek(gPost, t, 4 * x.G, x.gB) < Peek(gPre, t, 4 * x.G, x.gB)
               /\ ~(DevGlobal \in known /\ Peek(gPost, t, 4 * x.G, x.gB) = Peek(gPre, t, 4 * x.G, x.gB) - 16)
  BY DEF GhostStep, WhyA, WhyB, WhyBop, WhyFree, WhyC, WhyD

\* the limiters one call is counted against (GhostStep's allL) and the ghost's uncapped budget of a limiter
AllL(x, kind, ip, conn, o) ==
  (CASE kind = "req" -> {LIp(ip)} \cup (IF x.connR4 > 0 THEN {LConn(conn)} ELSE {})
     [] kind = "op"  -> {LOp(ip, o)}
     [] OTHER        -> {})
  \cup (IF kind = "req" THEN {LG} ELSE {})
UbT(ub, x, t, L) == PeekU(IF L \in DOMAIN ub THEN ub[L] ELSE Full(BOf(x, L), t), t, R4Of(x, L))

\* the ghost's table after a step that charges the limiters in A with d sixteenths each
UbNext(ub, x, t, A, d) ==
  [L \in (DOMAIN ub) \cup A |-> IF L \in A THEN [tok |-> UbT(ub, x, t, L) - d, last |-> t] ELSE ub[L]]

LEMMA GhostUb ==
  ASSUME NEW gh0, NEW x, NEW t, NEW kind, NEW ip, NEW conn, NEW o, NEW dec, NEW decn, NEW gPre, NEW gPost, NEW known
  PROVE  /\ (\E f \in GhostStep(gh0, x, t, kind, ip, conn, o, dec, decn, gPre, gPost, known).fails : f.why = WhyA)
               => (dec /\ \E L \in AllL(x, kind, ip, conn, o) : UbT(gh0.ub, x, t, L) < 16)
         /\ GhostStep(gh0, x, t, kind, ip, conn, o, dec, decn, gPre, gPost, known).gh.ub
               = UbNext(gh0.ub, x, t, AllL(x, kind, ip, conn, o), IF dec THEN 16 ELSE 0)
<1> DEFINE A == AllL(x, kind, ip, conn, o)
           g == GhostStep(gh0, x, t, kind, ip, conn, o, dec, decn, gPre, gPost, known)
           B(L) == IF L \in DOMAIN gh0.ub THEN gh0.ub[L] ELSE Full(BOf(x, L), t)
<1>2. g.gh.ub = [L \in (DOMAIN gh0.ub) \cup A |->
                  IF L \in A THEN [tok |-> PeekU(B(L), t, R4Of(x, L)) - (IF dec THEN 16 ELSE 0), last |-> t] ELSE gh0.ub[L]]
  BY DEF GhostStep, AllL
<1>3. (\E f \in g.fails : f.why = WhyA) => (dec /\ \E L \in A : PeekU(B(L), t, R4Of(x, L)) < 16)
  BY DEF GhostStep, AllL, WhyA, WhyB, WhyBop, WhyFree, WhyC, WhyD
<1> HIDE DEF A, g
<1>4. g.gh.ub = UbNext(gh0.ub, x, t, A, IF dec THEN 16 ELSE 0)
  BY <1>2 DEF UbNext, UbT
<1>5. (\E f \in g.fails : f.why = WhyA) => (dec /\ \E L \in A : UbT(gh0.ub, x, t, L) < 16)
  BY <1>3 DEF UbT
<1> QED BY <1>4, <1>5 DEF A, g

-----------------------------------------------------------------------------
(* Rule (a) of C18, inductive form: the ghost's uncapped budget of a limiter (burst + rate x elapsed  *)
(* since first use - admitted) is never below what the code's bucket holds, an absent one counting   *)
(* as full on both sides; so whenever the code admits, the ghost has a whole token left.             *)
UbOK(ub, x, t, cl, st) ==
  /\ \A L \in DOMAIN ub : ub[L].tok \in Int /\ ub[L].last \in Int
  /\ UbT(ub, x, t, LG) >= GTok(st, x, t)
  /\ \A i \in IPs : UbT(ub, x, t, LIp(i)) >= IpTok(st, x, t, i)
  /\ \A k \in Conns \ cl : UbT(ub, x, t, LConn(k)) >= ConnTok(st, x, t, k)
  /\ \A i \in IPs : \A o \in OpTypes : UbT(ub, x, t, LOp(i, o)) >= OpTok(st, x, t, i, o)

LEMMA LimiterNames ==
  ASSUME NEW x
  PROVE  /\ R4Of(x, LG) = 4 * x.G /\ BOf(x, LG) = x.gB
         /\ \A i : R4Of(x, LIp(i)) = x.ipR4 /\ BOf(x, LIp(i)) = x.ipB
         /\ \A k : R4Of(x, LConn(k)) = x.connR4 /\ BOf(x, LConn(k)) = x.connB
         /\ \A i, o : R4Of(x, LOp(i, o)) = x.opR4[o] /\ BOf(x, LOp(i, o)) = x.opB[o]
         /\ \A i, j : LIp(i) = LIp(j) => i = j
         /\ \A i, j : LConn(i) = LConn(j) => i = j
         /\ \A i, j, o, p : LOp(i, o) = LOp(j, p) => (i = j /\ o = p)
         /\ \A i, j : LIp(i) # LG /\ LConn(i) # LG /\ LIp(i) # LConn(j)
         /\ \A i, o, j : LOp(i, o) # LG /\ LOp(i, o) # LIp(j) /\ LOp(i, o) # LConn(j)
  BY DEF R4Of, BOf, LG, LIp, LConn, LOp


LEMMA UbRequest ==
  ASSUME NEW x, CfgOK(x), NEW t \in Nat, NEW cl, NEW st, StateOK(st, x, t, cl),
         NEW ip \in IPs, NEW k \in Conns \ cl, NEW fix \in BOOLEAN, NEW ub, UbOK(ub, x, t, cl, st)
  PROVE  LET r == AllowRequestStep(st, x, t, ip, k, fix)
             A == AllL(x, "req", ip, k, "-") IN
         /\ UbOK(UbNext(ub, x, t, A, IF r.ok THEN 16 ELSE 0), x, t, cl, r.s)
         /\ r.ok => \A L \in A : UbT(ub, x, t, L) >= 16
         /\ \A L \in A : R4Of(x, L) \in Int /\ BOf(x, L) \in Int
<1> DEFINE r == AllowRequestStep(st, x, t, ip, k, fix)
           A == AllL(x, "req", ip, k, "-")
           d == IF r.ok THEN 16 ELSE 0
           u1 == UbNext(ub, x, t, A, d)
<1>1. StateOK(r.s, x, t, cl) /\ r.ok \in BOOLEAN /\ RequestEffect(st, x, t, ip, k, fix, r)  BY RequestChar
<1>2. A = {LIp(ip), LG} \cup (IF x.connR4 > 0 THEN {LConn(k)} ELSE {})  BY DEF AllL
<1>3. /\ x.G \in Nat /\ x.gB \in Nat /\ x.ipR4 \in Nat /\ x.ipB \in Nat /\ x.connR4 \in Nat /\ x.connB \in Nat  BY DEF CfgOK
<1>4. \A L \in A : R4Of(x, L) \in Int /\ BOf(x, L) \in Int  BY <1>2, <1>3, LimiterNames
<1>5. d \in Int  BY <1>1
<1>6. /\ \A L \in DOMAIN u1 : u1[L].tok \in Int /\ u1[L].last \in Int
      /\ \A L \in A : UbT(u1, x, t, L) = UbT(ub, x, t, L) - d
      /\ \A L : L \notin A => UbT(u1, x, t, L) = UbT(ub, x, t, L)
  <2>a. t \in Int  OBVIOUS
  <2>b. \A L \in DOMAIN ub : ub[L].tok \in Int /\ ub[L].last \in Int  BY DEF UbOK
  <2> HIDE DEF A, d, r
  <2>0. \A L \in A : UbT(ub, x, t, L) \in Int  BY <2>a, <2>b, <1>4 DEF UbT, PeekU, Full
  <2>1. DOMAIN u1 = (DOMAIN ub) \cup A  BY DEF UbNext
  <2>2. \A L \in A : u1[L] = [tok |-> UbT(ub, x, t, L) - d, last |-> t]  BY DEF UbNext
  <2>3. \A L \in (DOMAIN ub) \ A : u1[L] = ub[L]  BY DEF UbNext
  <2> HIDE DEF u1
  <2>4. \A L \in DOMAIN u1 : u1[L].tok \in Int /\ u1[L].last \in Int  BY <2>a, <2>b, <1>5, <2>0, <2>1, <2>2, <2>3
  <2>5. \A L \in A : UbT(u1, x, t, L) = UbT(ub, x, t, L) - d
    <3> TAKE L \in A
    <3>1. UbT(u1, x, t, L) = PeekU(u1[L], t, R4Of(x, L))  BY <2>1 DEF UbT
    <3> QED BY <3>1, <2>a, <1>4, <1>5, <2>0, <2>2 DEF PeekU
  <2>6. \A L : L \notin A => UbT(u1, x, t, L) = UbT(ub, x, t, L)
    BY <2>1, <2>3 DEF UbT, PeekU, Full
  <2> QED BY <2>4, <2>5, <2>6
<1>7. InRange(st, x, t) /\ InRange(r.s, x, t)  BY <1>1, RangeOf
<1>8. \A i \in IPs : \A o \in OpTypes : OpTok(st, x, t, i, o) \in Int  BY TokRange
<1> HIDE DEF r, A, d, u1
<1>9. r.ok => \A L \in A : UbT(ub, x, t, L) >= 16
  <2> HAVE r.ok
  <2>1. /\ GTok(st, x, t) >= 16 /\ IpTok(st, x, t, ip) >= 16 /\ (x.connR4 # 0 => ConnTok(st, x, t, k) >= 16)
    BY <1>1 DEF RequestEffect
  <2>2. UbT(ub, x, t, LG) >= GTok(st, x, t) /\ UbT(ub, x, t, LIp(ip)) >= IpTok(st, x, t, ip) /\ UbT(ub, x, t, LConn(k)) >= ConnTok(st, x, t, k)
    BY DEF UbOK
  <2>3. /\ UbT(ub, x, t, LG) \in Int /\ UbT(ub, x, t, LIp(ip)) \in Int /\ UbT(ub, x, t, LConn(k)) \in Int
    BY <1>3, LimiterNames DEF UbT, PeekU, Full, UbOK
  <2> QED BY <2>1, <2>2, <2>3, <1>2, <1>3, <1>7 DEF InRange
<1>10. UbT(u1, x, t, LG) >= GTok(r.s, x, t)
  <2>1. LG \in A  BY <1>2
  <2>2. UbT(u1, x, t, LG) = UbT(ub, x, t, LG) - d  BY <2>1, <1>6
  <2>3. UbT(ub, x, t, LG) >= GTok(st, x, t) /\ UbT(ub, x, t, LG) \in Int  BY <1>3, LimiterNames DEF UbOK, UbT, PeekU, Full
  <2>4. CASE r.ok   BY <2>4, <2>2, <2>3, <1>1, <1>7 DEF RequestEffect, InRange, d
  <2>5. CASE ~r.ok  BY <2>5, <2>2, <2>3, <1>1, <1>7 DEF RequestEffect, InRange, d, Leq
  <2> QED BY <2>4, <2>5
<1>11. \A i \in IPs : UbT(u1, x, t, LIp(i)) >= IpTok(r.s, x, t, i)
  <2> TAKE i \in IPs
  <2>3. UbT(ub, x, t, LIp(i)) >= IpTok(st, x, t, i) /\ UbT(ub, x, t, LIp(i)) \in Int  BY <1>3, LimiterNames DEF UbOK, UbT, PeekU, Full
  <2>a. IpTok(r.s, x, t, i) <= IpTok(st, x, t, i) /\ IpTok(r.s, x, t, i) \in Int /\ IpTok(st, x, t, i) \in Int
    BY <1>1, <1>7 DEF RequestEffect, Leq, InRange
  <2>1. CASE i = ip
    <3>1. LIp(i) \in A  BY <2>1, <1>2
    <3>2. UbT(u1, x, t, LIp(i)) = UbT(ub, x, t, LIp(i)) - d  BY <3>1, <1>6
    <3>4. CASE r.ok   BY <3>4, <3>2, <2>3, <2>1, <1>1, <1>7 DEF RequestEffect, InRange, d
    <3>5. CASE ~r.ok  BY <3>5, <3>2, <2>3, <2>a DEF d
    <3> QED BY <3>4, <3>5
  <2>2. CASE i # ip
    <3>1. LIp(i) \notin A  BY <2>2, <1>2, LimiterNames
    <3>2. UbT(u1, x, t, LIp(i)) = UbT(ub, x, t, LIp(i))  BY <3>1, <1>6
    <3> QED BY <3>2, <2>3, <2>a
  <2> QED BY <2>1, <2>2
<1>12. \A j \in Conns \ cl : UbT(u1, x, t, LConn(j)) >= ConnTok(r.s, x, t, j)
  <2> TAKE j \in Conns \ cl
  <2>3. UbT(ub, x, t, LConn(j)) >= ConnTok(st, x, t, j) /\ UbT(ub, x, t, LConn(j)) \in Int  BY <1>3, LimiterNames DEF UbOK, UbT, PeekU, Full
  <2>a. ConnTok(r.s, x, t, j) <= ConnTok(st, x, t, j) /\ ConnTok(r.s, x, t, j) \in Int /\ ConnTok(st, x, t, j) \in Int
    BY <1>1, <1>7 DEF RequestEffect, Leq, InRange
  <2>1. CASE j = k /\ x.connR4 > 0
    <3>1. LConn(j) \in A  BY <2>1, <1>2
    <3>2. UbT(u1, x, t, LConn(j)) = UbT(ub, x, t, LConn(j)) - d  BY <3>1, <1>6
    <3>4. CASE r.ok   BY <3>4, <3>2, <2>3, <2>1, <1>1, <1>3, <1>7 DEF RequestEffect, InRange, d
    <3>5. CASE ~r.ok  BY <3>5, <3>2, <2>3, <2>a DEF d
    <3> QED BY <3>4, <3>5
  <2>2. CASE ~(j = k /\ x.connR4 > 0)
    <3>1. LConn(j) \notin A  BY <2>2, <1>2, LimiterNames
    <3>2. UbT(u1, x, t, LConn(j)) = UbT(ub, x, t, LConn(j))  BY <3>1, <1>6
    <3> QED BY <3>2, <2>3, <2>a
  <2> QED BY <2>1, <2>2
<1>13. \A i \in IPs : \A o \in OpTypes : UbT(u1, x, t, LOp(i, o)) >= OpTok(r.s, x, t, i, o)
  <2> TAKE i \in IPs
  <2> TAKE o \in OpTypes
  <2>1. LOp(i, o) \notin A  BY <1>2, LimiterNames
  <2>2. UbT(u1, x, t, LOp(i, o)) = UbT(ub, x, t, LOp(i, o))  BY <2>1, <1>6
  <2>3. OpTok(r.s, x, t, i, o) = OpTok(st, x, t, i, o)  BY <1>1 DEF RequestEffect, Leq
  <2> QED BY <2>2, <2>3 DEF UbOK
<1>14. UbOK(u1, x, t, cl, r.s)  BY <1>6, <1>10, <1>11, <1>12, <1>13 DEF UbOK
<1> QED BY <1>4, <1>9, <1>14 DEF r, A, d, u1

LEMMA UbOperation ==
  ASSUME NEW x, CfgOK(x), NEW t \in Nat, NEW cl, NEW st, StateOK(st, x, t, cl),
         NEW ip \in IPs, NEW o \in OpTypes, NEW ub, UbOK(ub, x, t, cl, st), NEW kk
  PROVE  LET r == AllowOperationStep(st, x, t, ip, o)
             A == AllL(x, "op", ip, kk, o) IN
         /\ UbOK(UbNext(ub, x, t, A, IF r.ok THEN 16 ELSE 0), x, t, cl, r.s)
         /\ r.ok => \A L \in A : UbT(ub, x, t, L) >= 16
         /\ \A L \in A : R4Of(x, L) \in Int /\ BOf(x, L) \in Int
<1> DEFINE r == AllowOperationStep(st, x, t, ip, o)
           A == AllL(x, "op", ip, kk, o)
           d == IF r.ok THEN 16 ELSE 0
           u1 == UbNext(ub, x, t, A, d)
<1>1. /\ StateOK(r.s, x, t, cl)
      /\ r.ok = (OpTok(st, x, t, ip, o) >= 16)
      /\ OpTok(r.s, x, t, ip, o) = Take(OpTok(st, x, t, ip, o))
      /\ \A j \in IPs : \A p \in OpTypes : (j # ip \/ p # o) => OpTok(r.s, x, t, j, p) = OpTok(st, x, t, j, p)
      /\ r.s.g = st.g /\ r.s.conn = st.conn /\ r.s.ip = st.ip /\ r.s.fh = st.fh
  BY OpStepChar
<1>2. A = {LOp(ip, o)}  BY DEF AllL
<1>3. x.opR4[o] \in Nat /\ x.opB[o] \in Nat  BY DEF CfgOK
<1>4. \A L \in A : R4Of(x, L) \in Int /\ BOf(x, L) \in Int  BY <1>2, <1>3, LimiterNames
<1>5. d \in Int  BY <1>1
<1>6. /\ \A L \in DOMAIN u1 : u1[L].tok \in Int /\ u1[L].last \in Int
      /\ \A L \in A : UbT(u1, x, t, L) = UbT(ub, x, t, L) - d
      /\ \A L : L \notin A => UbT(u1, x, t, L) = UbT(ub, x, t, L)
  <2>a. t \in Int  OBVIOUS
  <2>b. \A L \in DOMAIN ub : ub[L].tok \in Int /\ ub[L].last \in Int  BY DEF UbOK
  <2> HIDE DEF A, d, r
  <2>0. \A L \in A : UbT(ub, x, t, L) \in Int  BY <2>a, <2>b, <1>4 DEF UbT, PeekU, Full
  <2>1. DOMAIN u1 = (DOMAIN ub) \cup A  BY DEF UbNext
  <2>2. \A L \in A : u1[L] = [tok |-> UbT(ub, x, t, L) - d, last |-> t]  BY DEF UbNext
  <2>3. \A L \in (DOMAIN ub) \ A : u1[L] = ub[L]  BY DEF UbNext
  <2> HIDE DEF u1
  <2>4. \A L \in DOMAIN u1 : u1[L].tok \in Int /\ u1[L].last \in Int  BY <2>a, <2>b, <1>5, <2>0, <2>1, <2>2, <2>3
  <2>5. \A L \in A : UbT(u1, x, t, L) = UbT(ub, x, t, L) - d
    <3> TAKE L \in A
    <3>1. UbT(u1, x, t, L) = PeekU(u1[L], t, R4Of(x, L))  BY <2>1 DEF UbT
    <3> QED BY <3>1, <2>a, <1>4, <1>5, <2>0, <2>2 DEF PeekU
  <2>6. \A L : L \notin A => UbT(u1, x, t, L) = UbT(ub, x, t, L)
    BY <2>1, <2>3 DEF UbT, PeekU, Full
  <2> QED BY <2>4, <2>5, <2>6
<1>7. \A i \in IPs : \A p \in OpTypes : OpTok(st, x, t, i, p) \in 0..(16 * x.opB[p])  BY TokRange
<1>7a. \A p \in OpTypes : x.opB[p] \in Nat  BY DEF CfgOK
<1> HIDE DEF r, A, d, u1
<1>8. UbT(ub, x, t, LOp(ip, o)) >= OpTok(st, x, t, ip, o) /\ UbT(ub, x, t, LOp(ip, o)) \in Int
  BY <1>3, LimiterNames DEF UbOK, UbT, PeekU, Full
<1>9. r.ok => \A L \in A : UbT(ub, x, t, L) >= 16
  BY <1>1, <1>2, <1>7, <1>7a, <1>8
<1>10. UbT(u1, x, t, LG) >= GTok(r.s, x, t)
  <2>1. LG \notin A  BY <1>2, LimiterNames
  <2>2. GTok(r.s, x, t) = GTok(st, x, t)  BY <1>1 DEF GTok
  <2> QED BY <2>1, <2>2, <1>6 DEF UbOK
<1>11. \A i \in IPs : UbT(u1, x, t, LIp(i)) >= IpTok(r.s, x, t, i)
  <2> TAKE i \in IPs
  <2>1. LIp(i) \notin A  BY <1>2, LimiterNames
  <2>2. IpTok(r.s, x, t, i) = IpTok(st, x, t, i)  BY <1>1 DEF IpTok
  <2> QED BY <2>1, <2>2, <1>6 DEF UbOK
<1>12. \A j \in Conns \ cl : UbT(u1, x, t, LConn(j)) >= ConnTok(r.s, x, t, j)
  <2> TAKE j \in Conns \ cl
  <2>1. LConn(j) \notin A  BY <1>2, LimiterNames
  <2>2. ConnTok(r.s, x, t, j) = ConnTok(st, x, t, j)  BY <1>1 DEF ConnTok
  <2> QED BY <2>1, <2>2, <1>6 DEF UbOK
<1>13. \A i \in IPs : \A p \in OpTypes : UbT(u1, x, t, LOp(i, p)) >= OpTok(r.s, x, t, i, p)
  <2> TAKE i \in IPs
  <2> TAKE p \in OpTypes
  <2>0. UbT(ub, x, t, LOp(i, p)) >= OpTok(st, x, t, i, p)  BY DEF UbOK
  <2>1. CASE i = ip /\ p = o
    <3>1. LOp(i, p) \in A  BY <2>1, <1>2
    <3>2. UbT(u1, x, t, LOp(i, p)) = UbT(ub, x, t, LOp(i, p)) - d  BY <3>1, <1>6
    <3> QED BY <3>2, <2>1, <1>1, <1>7, <1>7a, <1>8 DEF Take, d
  <2>2. CASE ~(i = ip /\ p = o)
    <3>1. LOp(i, p) \notin A  BY <2>2, <1>2, LimiterNames
    <3>2. UbT(u1, x, t, LOp(i, p)) = UbT(ub, x, t, LOp(i, p))  BY <3>1, <1>6
    <3>3. OpTok(r.s, x, t, i, p) = OpTok(st, x, t, i, p)  BY <2>2, <1>1
    <3> QED BY <3>2, <3>3, <2>0
  <2> QED BY <2>1, <2>2
<1>14. UbOK(u1, x, t, cl, r.s)  BY <1>6, <1>10, <1>11, <1>12, <1>13 DEF UbOK
<1> QED BY <1>4, <1>9, <1>14 DEF r, A, d, u1

\* time passes: the uncapped budget grows by the rate, the bucket by at most the rate
LEMMA UbTick ==
  ASSUME NEW x, CfgOK(x), NEW t \in Nat, NEW cl, NEW st, StateOK(st, x, t, cl), NEW ub, UbOK(ub, x, t, cl, st)
  PROVE  UbOK(ub, x, t + 1, cl, st)
<1>0. /\ x.G \in Nat /\ x.gB \in Nat /\ x.ipR4 \in Nat /\ x.ipB \in Nat /\ x.connR4 \in Nat /\ x.connB \in Nat
      /\ \A o \in OpTypes : x.opR4[o] \in Nat /\ x.opB[o] \in Nat
  BY DEF CfgOK
<1>1. /\ GTok(st, x, t + 1) = Min(GTok(st, x, t) + 4 * x.G, 16 * x.gB)
      /\ \A i \in IPs : IpTok(st, x, t + 1, i) = Min(IpTok(st, x, t, i) + x.ipR4, 16 * x.ipB)
      /\ \A k \in Conns : ConnTok(st, x, t + 1, k) = Min(ConnTok(st, x, t, k) + x.connR4, 16 * x.connB)
      /\ \A i \in IPs : \A o \in OpTypes : OpTok(st, x, t + 1, i, o) = Min(OpTok(st, x, t, i, o) + x.opR4[o], 16 * x.opB[o])
  BY TickOne
<1>2. /\ GTok(st, x, t) \in 0..(16 * x.gB)
      /\ \A i \in IPs : IpTok(st, x, t, i) \in 0..(16 * x.ipB)
      /\ \A k \in Conns : ConnTok(st, x, t, k) \in 0..(16 * x.connB)
      /\ \A i \in IPs : \A o \in OpTypes : OpTok(st, x, t, i, o) \in 0..(16 * x.opB[o])
  BY TokRange
<1>3. \A L, r4, B : (r4 \in Nat /\ B \in Nat /\ R4Of(x, L) = r4 /\ BOf(x, L) = B) =>
         /\ UbT(ub, x, t, L) \in Int
         /\ UbT(ub, x, t + 1, L) = IF L \in DOMAIN ub THEN UbT(ub, x, t, L) + r4 ELSE 16 * B
         /\ L \notin DOMAIN ub => UbT(ub, x, t, L) = 16 * B
  BY DEF UbT, PeekU, Full, UbOK
<1>4. UbT(ub, x, t + 1, LG) >= GTok(st, x, t + 1)
  <2>1. R4Of(x, LG) = 4 * x.G /\ BOf(x, LG) = x.gB /\ 4 * x.G \in Nat  BY <1>0, LimiterNames
  <2>2. UbT(ub, x, t, LG) >= GTok(st, x, t)  BY DEF UbOK
  <2> QED BY <1>0, <1>1, <1>2, <1>3, <2>1, <2>2 DEF Min
<1>5. \A i \in IPs : UbT(ub, x, t + 1, LIp(i)) >= IpTok(st, x, t + 1, i)
  <2> TAKE i \in IPs
  <2>1. R4Of(x, LIp(i)) = x.ipR4 /\ BOf(x, LIp(i)) = x.ipB  BY LimiterNames
  <2>2. UbT(ub, x, t, LIp(i)) >= IpTok(st, x, t, i)  BY DEF UbOK
  <2> QED BY <1>0, <1>1, <1>2, <1>3, <2>1, <2>2 DEF Min
<1>6. \A k \in Conns \ cl : UbT(ub, x, t + 1, LConn(k)) >= ConnTok(st, x, t + 1, k)
  <2> TAKE k \in Conns \ cl
  <2>1. R4Of(x, LConn(k)) = x.connR4 /\ BOf(x, LConn(k)) = x.connB  BY LimiterNames
  <2>2. UbT(ub, x, t, LConn(k)) >= ConnTok(st, x, t, k)  BY DEF UbOK
  <2> QED BY <1>0, <1>1, <1>2, <1>3, <2>1, <2>2 DEF Min
<1>7. \A i \in IPs : \A o \in OpTypes : UbT(ub, x, t + 1, LOp(i, o)) >= OpTok(st, x, t + 1, i, o)
  <2> TAKE i \in IPs
  <2> TAKE o \in OpTypes
  <2>1. R4Of(x, LOp(i, o)) = x.opR4[o] /\ BOf(x, LOp(i, o)) = x.opB[o]  BY LimiterNames
  <2>2. UbT(ub, x, t, LOp(i, o)) >= OpTok(st, x, t, i, o)  BY DEF UbOK
  <2> QED BY <1>0, <1>1, <1>2, <1>3, <2>1, <2>2 DEF Min
<1> QED BY <1>4, <1>5, <1>6, <1>7 DEF UbOK

\* a step of the code that leaves every view as it was (cleanup, file handle quota) or only forgets a closed connection
LEMMA UbSameViews ==
  ASSUME NEW x, NEW t, NEW cl, NEW cl2, NEW st, NEW st2, NEW ub, UbOK(ub, x, t, cl, st), cl \subseteq cl2,
         GTok(st2, x, t) = GTok(st, x, t),
         \A i \in IPs : IpTok(st2, x, t, i) = IpTok(st, x, t, i),
         \A k \in Conns \ cl2 : ConnTok(st2, x, t, k) = ConnTok(st, x, t, k),
         \A i \in IPs : \A o \in OpTypes : OpTok(st2, x, t, i, o) = OpTok(st, x, t, i, o)
  PROVE  UbOK(ub, x, t, cl2, st2)
  BY DEF UbOK

-----------------------------------------------------------------------------
(* The second invariant: the first one, the ghost's rule (a) bookkeeping, and the step properties *)
IndInv2 ==
  /\ IndInv
  /\ UbOK(gh.ub, c, now, closed, s)
  /\ BurstPlusRate /\ CleanupInvisible /\ (c.fix => RefusedIsFree)

THEOREM InitInd2 == Init => IndInv2
<1> SUFFICES ASSUME Init PROVE IndInv2  OBVIOUS
<1>1. IndInv  BY InitInd
<1>2. viol = {}  BY DEF Init
<1>3. BurstPlusRate /\ CleanupInvisible /\ RefusedIsFree  BY <1>2 DEF BurstPlusRate, CleanupInvisible, RefusedIsFree, Fails
<1>4. now = 0 /\ closed = {} /\ gh.ub = With(EmptyFn, LG, Full(c.gB, 0))  BY DEF Init, GhostInit
<1>5. CfgOK(c) /\ StateOK(s, c, 0, {})  BY <1>1, <1>4 DEF IndInv
<1>6. /\ GTok(s, c, 0) \in 0..(16 * c.gB)
      /\ \A i \in IPs : IpTok(s, c, 0, i) \in 0..(16 * c.ipB)
      /\ \A k \in Conns : ConnTok(s, c, 0, k) \in 0..(16 * c.connB)
      /\ \A i \in IPs : \A o \in OpTypes : OpTok(s, c, 0, i, o) \in 0..(16 * c.opB[o])
  BY <1>5, TokRange
<1> DEFINE ub == With(EmptyFn, LG, Full(c.gB, 0))
<1>7. DOMAIN ub = {LG} /\ ub[LG] = [tok |-> 16 * c.gB, last |-> 0]  BY DEF With, EmptyFn, Full
<1>8. c.gB \in Nat  BY <1>5 DEF CfgOK
<1> HIDE DEF ub
<1>9. UbT(ub, c, 0, LG) = 16 * c.gB  BY <1>5, <1>7, <1>8, LimiterNames DEF UbT, PeekU, Full, CfgOK
<1>10. \A i : UbT(ub, c, 0, LIp(i)) = 16 * c.ipB  BY <1>5, <1>7, LimiterNames DEF UbT, PeekU, Full, CfgOK
<1>11. \A k : UbT(ub, c, 0, LConn(k)) = 16 * c.connB  BY <1>5, <1>7, LimiterNames DEF UbT, PeekU, Full, CfgOK
<1>12. \A i : \A o \in OpTypes : UbT(ub, c, 0, LOp(i, o)) = 16 * c.opB[o]  BY <1>5, <1>7, LimiterNames DEF UbT, PeekU, Full, CfgOK
<1>13. UbOK(ub, c, 0, {}, s)  BY <1>6, <1>7, <1>8, <1>9, <1>10, <1>11, <1>12 DEF UbOK
<1> QED BY <1>1, <1>3, <1>4, <1>13 DEF IndInv2, ub

LEMMA NoViol ==
  ASSUME viol' = {}
  PROVE  BurstPlusRate' /\ CleanupInvisible' /\ RefusedIsFree'
  BY DEF BurstPlusRate, CleanupInvisible, RefusedIsFree, Fails

THEOREM StepInd2 == IndInv2 /\ [Next]_vars => IndInv2'
<1> SUFFICES ASSUME IndInv2, [Next]_vars PROVE IndInv2'  OBVIOUS
<1>i. IndInv /\ IndInv'  BY StepInd DEF IndInv2
<1>0. Pair(c, CfgN, now, closed, s, n)  BY <1>i, PairOfInv
<1>a. /\ CfgOK(c) /\ closed \subseteq Conns /\ now \in Nat /\ CfgOK(CfgN) /\ StateOK(s, c, now, closed)
      /\ UbOK(gh.ub, c, now, closed, s)
  BY <1>i, CfgNOK DEF IndInv, IndInv2
<1>1. CASE Tick
  <2>1. c' = c /\ s' = s /\ closed' = closed /\ now' = now + 1 /\ gh' = gh /\ viol' = {}  BY <1>1 DEF Tick
  <2>2. UbOK(gh.ub, c, now + 1, closed, s)  BY <1>a, UbTick
  <2> QED BY <1>i, <2>1, <2>2, NoViol DEF IndInv2
<1>2. ASSUME NEW k \in Conns, Request(k) PROVE IndInv2'
  <2> DEFINE ip == ConnIP(k)
             r  == AllowRequestStep(s, c, now, ip, k, c.fix)
             rn == AllowRequestStep(n, CfgN, now, ip, k, c.fix)
             g  == GhostStep(gh, c, now, "req", ip, k, "-", r.ok, rn.ok, s.g, r.s.g, Known)
             A  == AllL(c, "req", ip, k, "-")
  <2>1. k \in Conns \ closed /\ ip \in IPs /\ c.fix \in BOOLEAN  BY <1>2, <1>a DEF Request, ConnIP, IPs, CfgOK
  <2>2. s' = r.s /\ c' = c /\ now' = now /\ closed' = closed /\ gh' = g.gh /\ viol' = g.fails
    BY <1>2 DEF Request, Cfg, FixOrder
  <2>3. r.ok = rn.ok  BY <1>0, <2>1, RequestRel
  <2>4. StateOK(r.s, c, now, closed) /\ r.ok \in BOOLEAN /\ RequestEffect(s, c, now, ip, k, c.fix, r)
    BY <1>a, <2>1, RequestChar
  <2>5. /\ UbOK(UbNext(gh.ub, c, now, A, IF r.ok THEN 16 ELSE 0), c, now, closed, r.s)
        /\ r.ok => \A L \in A : UbT(gh.ub, c, now, L) >= 16
        /\ \A L \in A : R4Of(c, L) \in Int /\ BOf(c, L) \in Int
    BY <1>a, <2>1, UbRequest
  <2>6. /\ (\E f \in g.fails : f.why = WhyA) => (r.ok /\ \E L \in A : UbT(gh.ub, c, now, L) < 16)
        /\ g.gh.ub = UbNext(gh.ub, c, now, A, IF r.ok THEN 16 ELSE 0)
    <3> HIDE DEF r, rn, ip
    <3> QED BY GhostUb
  <2>7. /\ (\E f \in g.fails : f.why = WhyC) => r.ok # rn.ok
        /\ (\E f \in g.fails : f.why = WhyD) =>
              (~r.ok /\ Peek(r.s.g, now, 4 * c.G, c.gB) < Peek(s.g, now, 4 * c.G, c.gB))
    <3> HIDE DEF r, rn, ip
    <3> QED BY GhostFails
  <2>8. c.fix /\ ~r.ok => GTok(r.s, c, now) = GTok(s, c, now)  BY <2>4 DEF RequestEffect
  <2>9. \A L \in A : UbT(gh.ub, c, now, L) \in Int
    BY <1>a, <2>5 DEF UbT, PeekU, Full, UbOK
  <2> HIDE DEF r, rn, ip, g, A
  <2>10. UbOK(g.gh.ub, c, now, closed, r.s)  BY <2>5, <2>6
  <2>11. ~(\E f \in g.fails : f.why = WhyA)  BY <2>5, <2>6, <2>9
  <2>12. ~(\E f \in g.fails : f.why = WhyC)  BY <2>3, <2>7
  <2>13. c.fix => ~(\E f \in g.fails : f.why = WhyD)  BY <2>7, <2>8 DEF GTok
  <2> QED BY <1>i, <2>2, <2>10, <2>11, <2>12, <2>13 DEF IndInv2, BurstPlusRate, CleanupInvisible, RefusedIsFree, Fails
<1>3. ASSUME NEW i \in IPs, NEW o \in OpTypes, Operation(i, o) PROVE IndInv2'
  <2> DEFINE r  == AllowOperationStep(s, c, now, i, o)
             rn == AllowOperationStep(n, CfgN, now, i, o)
             g  == GhostStep(gh, c, now, "op", i, "-", o, r.ok, rn.ok, s.g, r.s.g, Known)
             A  == AllL(c, "op", i, "-", o)
  <2>2. s' = r.s /\ c' = c /\ now' = now /\ closed' = closed /\ gh' = g.gh /\ viol' = g.fails
    BY <1>3 DEF Operation, Cfg
  <2>3. r.ok = rn.ok  BY <1>0, OpRel
  <2>5. /\ UbOK(UbNext(gh.ub, c, now, A, IF r.ok THEN 16 ELSE 0), c, now, closed, r.s)
        /\ r.ok => \A L \in A : UbT(gh.ub, c, now, L) >= 16
        /\ \A L \in A : R4Of(c, L) \in Int /\ BOf(c, L) \in Int
    BY <1>a, UbOperation
  <2>6. /\ (\E f \in g.fails : f.why = WhyA) => (r.ok /\ \E L \in A : UbT(gh.ub, c, now, L) < 16)
        /\ g.gh.ub = UbNext(gh.ub, c, now, A, IF r.ok THEN 16 ELSE 0)
    <3> HIDE DEF r, rn
    <3> QED BY GhostUb
  <2>7. /\ (\E f \in g.fails : f.why = WhyC) => r.ok # rn.ok
        /\ (\E f \in g.fails : f.why = WhyD) => "op" = "req"
    <3> HIDE DEF r, rn
    <3> QED BY GhostFails
  <2>9. \A L \in A : UbT(gh.ub, c, now, L) \in Int
    BY <1>a, <2>5 DEF UbT, PeekU, Full, UbOK
  <2> HIDE DEF r, rn, g, A
  <2>10. UbOK(g.gh.ub, c, now, closed, r.s)  BY <2>5, <2>6
  <2>11. ~(\E f \in g.fails : f.why = WhyA)  BY <2>5, <2>6, <2>9
  <2>12. ~(\E f \in g.fails : f.why = WhyC)  BY <2>3, <2>7
  <2>13. ~(\E f \in g.fails : f.why = WhyD)  BY <2>7
  <2> QED BY <1>i, <2>2, <2>10, <2>11, <2>12, <2>13 DEF IndInv2, BurstPlusRate, CleanupInvisible, RefusedIsFree, Fails
<1>4. ASSUME NEW k \in Conns, CloseConn(k) PROVE IndInv2'
  <2> DEFINE s1 == [s EXCEPT !.conn = Without(@, {k})]
             cl == closed \cup {k}
  <2>1. s' = s1 /\ closed' = cl /\ c' = c /\ now' = now /\ gh' = gh /\ viol' = {}  BY <1>4 DEF CloseConn, CloseConnStep
  <2>2. s1.g = s.g /\ s1.ip = s.ip /\ s1.op = s.op /\ s1.conn = Without(s.conn, {k})  BY <1>a DEF StateOK
  <2> HIDE DEF s1
  <2>3. GTok(s1, c, now) = GTok(s, c, now)  BY <2>2 DEF GTok
  <2>4. \A j \in IPs : IpTok(s1, c, now, j) = IpTok(s, c, now, j)  BY <2>2 DEF IpTok
  <2>5. \A j \in IPs : \A p \in OpTypes : OpTok(s1, c, now, j, p) = OpTok(s, c, now, j, p)  BY <2>2 DEF OpTok
  <2>6. \A j \in Conns \ cl : ConnTok(s1, c, now, j) = ConnTok(s, c, now, j)  BY <2>2 DEF ConnTok, Without
  <2>7. UbOK(gh.ub, c, now, cl, s1)  BY <1>a, <2>3, <2>4, <2>5, <2>6, UbSameViews
  <2> QED BY <1>i, <2>1, <2>7, NoViol DEF IndInv2
<1>5. ASSUME NEW i \in IPs, AllocFH(i) PROVE IndInv2'
  <2> DEFINE r == AllocFHStep(s, c, i)
  <2>1. s' = r.s /\ c' = c /\ now' = now /\ closed' = closed /\ gh' = gh /\ viol' = {}  BY <1>5 DEF AllocFH, Cfg
  <2>2. r.s.g = s.g /\ r.s.ip = s.ip /\ r.s.conn = s.conn /\ r.s.op = s.op  BY <1>a, AllocFHChar
  <2> HIDE DEF r
  <2>3. UbOK(gh.ub, c, now, closed, r.s)
    BY <1>a, <2>2, UbSameViews DEF GTok, IpTok, ConnTok, OpTok
  <2> QED BY <1>i, <2>1, <2>3, NoViol DEF IndInv2
<1>6. ASSUME NEW i \in IPs, ReleaseFH(i) PROVE IndInv2'
  <2> DEFINE r == ReleaseFHStep(s, i)
  <2>1. s' = r /\ c' = c /\ now' = now /\ closed' = closed /\ gh' = gh /\ viol' = {}  BY <1>6 DEF ReleaseFH
  <2>2. r.g = s.g /\ r.ip = s.ip /\ r.conn = s.conn /\ r.op = s.op  BY <1>a, ReleaseFHChar
  <2> HIDE DEF r
  <2>3. UbOK(gh.ub, c, now, closed, r)
    BY <1>a, <2>2, UbSameViews DEF GTok, IpTok, ConnTok, OpTok
  <2> QED BY <1>i, <2>1, <2>3, NoViol DEF IndInv2
<1>7. ASSUME NEW S \in SUBSET IPs, CleanupIP(S) PROVE IndInv2'
  <2> DEFINE s1 == [s EXCEPT !.ip = Without(@, S)]
  <2>1. s' = s1 /\ c' = c /\ now' = now /\ closed' = closed /\ gh' = gh /\ viol' = {} /\ S \in SUBSET IpIdle(s, c, now)
    BY <1>7 DEF CleanupIP, Cfg
  <2>2. /\ \A j \in IPs : IpTok(s1, c, now, j) = IpTok(s, c, now, j)
        /\ s1.g = s.g /\ s1.conn = s.conn /\ s1.op = s.op
    BY <1>a, <2>1, DropIdleIp
  <2> HIDE DEF s1
  <2>3. UbOK(gh.ub, c, now, closed, s1)
    BY <1>a, <2>2, UbSameViews DEF GTok, ConnTok, OpTok
  <2> QED BY <1>i, <2>1, <2>3, NoViol DEF IndInv2
<1>8. ASSUME NEW S \in SUBSET IPs, CleanupOp(S) PROVE IndInv2'
  <2> DEFINE s1 == [s EXCEPT !.op = Without(@, S)]
  <2>1. s' = s1 /\ c' = c /\ now' = now /\ closed' = closed /\ gh' = gh /\ viol' = {} /\ S \in SUBSET OpIdle(s, c, now)
    BY <1>8 DEF CleanupOp, Cfg
  <2>2. /\ \A j \in IPs : \A o \in OpTypes : OpTok(s1, c, now, j, o) = OpTok(s, c, now, j, o)
        /\ s1.g = s.g /\ s1.conn = s.conn /\ s1.ip = s.ip
    BY <1>a, <2>1, DropIdleOp
  <2> HIDE DEF s1
  <2>3. UbOK(gh.ub, c, now, closed, s1)
    BY <1>a, <2>2, UbSameViews DEF GTok, ConnTok, IpTok
  <2> QED BY <1>i, <2>1, <2>3, NoViol DEF IndInv2
<1>9. CASE UNCHANGED vars
  BY <1>i, <1>9 DEF vars, IndInv2, BurstPlusRate, CleanupInvisible, RefusedIsFree, Fails
<1> QED BY <1>1, <1>2, <1>3, <1>4, <1>5, <1>6, <1>7, <1>8, <1>9 DEF Next

THEOREM Ind2ImpliesListed ==
  IndInv2 => /\ TypeOK /\ FHBounded /\ AbsentIsFull
             /\ BurstPlusRate /\ CleanupInvisible /\ (FixOrder => RefusedIsFree)
  BY IndImpliesTypeOK, IndImpliesFHBounded, IndImpliesAbsentIsFull DEF IndInv2, FixOrder

-----------------------------------------------------------------------------
(* The third invariant: the ghost's two global buckets are the code's global bucket - `gfaith` under *)
(* the pinned order (so the guard of the listed deviation F11 is exact), `gref` under the repaired.  *)
LEMMA GhostGlobal ==
  ASSUME NEW gh0, NEW x, NEW t, NEW kind, NEW ip, NEW conn, NEW o, NEW dec, NEW decn, NEW gPre, NEW gPost, NEW known
  PROVE  LET g == GhostStep(gh0, x, t, kind, ip, conn, o, dec, decn, gPre, gPost, known)
             gfT == Peek(gh0.gfaith, t, 4 * x.G, x.gB)
             grT == Peek(gh0.gref, t, 4 * x.G, x.gB) IN
         /\ g.gh.gfaith = IF kind = "req" THEN [tok |-> gfT - (IF gfT >= 16 THEN 16 ELSE 0), last |-> t] ELSE gh0.gfaith
         /\ g.gh.gref = IF kind = "req" THEN [tok |-> grT - (IF dec THEN 16 ELSE 0), last |-> t] ELSE gh0.gref
  BY DEF GhostStep

GhOK(g0, x, t) == BucketOK(g0.gfaith, x.gB, t) /\ (x.fix => BucketOK(g0.gref, x.gB, t))

IndInv3 == IndInv2 /\ GhOK(gh, c, now) /\ FaithIsGlobal /\ FixedGlobalIsRef

\* a bucket stamped now holds what was put into it (when that is within the burst)
LEMMA PeekNow ==
  ASSUME NEW v \in Int, NEW t \in Nat, NEW r4 \in Nat, NEW B \in Nat, v >= 0, v <= 16 * B
  PROVE  Peek([tok |-> v, last |-> t], t, r4, B) = v /\ BucketOK([tok |-> v, last |-> t], B, t)
  BY DEF Peek, Min, BucketOK

THEOREM InitInd3 == Init => IndInv3
<1> SUFFICES ASSUME Init PROVE IndInv3  OBVIOUS
<1>1. IndInv2  BY InitInd2
<1>2. CfgOK(c) /\ now = 0  BY <1>1 DEF IndInv2, IndInv, Init
<1>3. gh.gfaith = Full(c.gB, 0) /\ gh.gref = Full(c.gB, 0) /\ s.g = Full(c.gB, 0)  BY DEF Init, GhostInit, InitState
<1>4. BucketOK(Full(c.gB, 0), c.gB, 0)  BY <1>2, FullChar DEF CfgOK
<1> QED BY <1>1, <1>2, <1>3, <1>4 DEF IndInv3, GhOK, FaithIsGlobal, FixedGlobalIsRef, GTok, Cfg

THEOREM StepInd3 == IndInv3 /\ [Next]_vars => IndInv3'
<1> SUFFICES ASSUME IndInv3, [Next]_vars PROVE IndInv3'  OBVIOUS
<1>i. IndInv2 /\ IndInv2' /\ IndInv /\ IndInv'  BY StepInd2, StepInd DEF IndInv3, IndInv2
<1>a. /\ CfgOK(c) /\ closed \subseteq Conns /\ now \in Nat /\ StateOK(s, c, now, closed)
      /\ c.G \in Nat /\ c.gB \in Nat /\ 4 * c.G \in Nat /\ c.fix \in BOOLEAN
  BY <1>i DEF IndInv, CfgOK
<1>b. /\ BucketOK(gh.gfaith, c.gB, now) /\ (c.fix => BucketOK(gh.gref, c.gB, now))
      /\ (~c.fix => Peek(gh.gfaith, now, 4 * c.G, c.gB) = GTok(s, c, now))
      /\ (c.fix => Peek(gh.gref, now, 4 * c.G, c.gB) = GTok(s, c, now))
  BY DEF IndInv3, GhOK, FaithIsGlobal, FixedGlobalIsRef, FixOrder, Cfg
\* what has to be shown, in terms of the new values
<1>g. ASSUME NEW s1, NEW gf, NEW gr, NEW t1 \in Nat,
             s' = s1, gh'.gfaith = gf, gh'.gref = gr, now' = t1, c' = c,
             BucketOK(gf, c.gB, t1), c.fix => BucketOK(gr, c.gB, t1),
             ~c.fix => Peek(gf, t1, 4 * c.G, c.gB) = GTok(s1, c, t1),
             c.fix => Peek(gr, t1, 4 * c.G, c.gB) = GTok(s1, c, t1)
      PROVE  IndInv3'
  BY <1>g, <1>i DEF IndInv3, GhOK, FaithIsGlobal, FixedGlobalIsRef, FixOrder, Cfg
\* a step that leaves the ghost, the clock and the code's global bucket alone
<1>h. ASSUME gh' = gh, now' = now, c' = c, s'.g = s.g PROVE IndInv3'
  <2>1. GTok(s', c, now) = GTok(s, c, now)  BY <1>h DEF GTok
  <2> QED BY <1>h, <2>1, <1>a, <1>b, <1>g
<1>1. CASE Tick
  <2>1. c' = c /\ s' = s /\ now' = now + 1 /\ gh' = gh  BY <1>1 DEF Tick
  <2>2. /\ Peek(gh.gfaith, now + 1, 4 * c.G, c.gB) = Min(Peek(gh.gfaith, now, 4 * c.G, c.gB) + 4 * c.G, 16 * c.gB)
        /\ BucketOK(gh.gfaith, c.gB, now + 1)
    BY <1>a, <1>b, PeekTick
  <2>3. c.fix => /\ Peek(gh.gref, now + 1, 4 * c.G, c.gB) = Min(Peek(gh.gref, now, 4 * c.G, c.gB) + 4 * c.G, 16 * c.gB)
                 /\ BucketOK(gh.gref, c.gB, now + 1)
    BY <1>a, <1>b, PeekTick
  <2>4. GTok(s, c, now + 1) = Min(GTok(s, c, now) + 4 * c.G, 16 * c.gB)  BY <1>a, TickOne
  <2>5. now + 1 \in Nat  BY <1>a
  <2> QED BY <2>1, <2>2, <2>3, <2>4, <2>5, <1>b, <1>g
<1>2. ASSUME NEW k \in Conns, Request(k) PROVE IndInv3'
  <2> DEFINE ip == ConnIP(k)
             r  == AllowRequestStep(s, c, now, ip, k, c.fix)
             rn == AllowRequestStep(n, CfgN, now, ip, k, c.fix)
             g  == GhostStep(gh, c, now, "req", ip, k, "-", r.ok, rn.ok, s.g, r.s.g, Known)
             gfT == Peek(gh.gfaith, now, 4 * c.G, c.gB)
             grT == Peek(gh.gref, now, 4 * c.G, c.gB)
  <2>1. k \in Conns \ closed /\ ip \in IPs  BY <1>2, <1>a DEF Request, ConnIP, IPs
  <2>2. s' = r.s /\ c' = c /\ now' = now /\ gh' = g.gh
    BY <1>2 DEF Request, Cfg, FixOrder
  <2>3. StateOK(r.s, c, now, closed) /\ r.ok \in BOOLEAN /\ RequestEffect(s, c, now, ip, k, c.fix, r)
    BY <1>a, <2>1, RequestChar
  <2>4. /\ g.gh.gfaith = [tok |-> gfT - (IF gfT >= 16 THEN 16 ELSE 0), last |-> now]
        /\ g.gh.gref = [tok |-> grT - (IF r.ok THEN 16 ELSE 0), last |-> now]
    <3> HIDE DEF r, rn, ip
    <3> QED BY GhostGlobal
  <2>5. gfT \in 0..(16 * c.gB)  BY <1>a, <1>b, AllowChar
  <2>6. GTok(r.s, c, now) \in 0..(16 * c.gB) /\ GTok(s, c, now) \in 0..(16 * c.gB)  BY <1>a, <2>3, TokRange
  <2> HIDE DEF r, rn, ip, g, gfT, grT
  <2>7. gfT - (IF gfT >= 16 THEN 16 ELSE 0) = Take(gfT) /\ Take(gfT) \in Int /\ Take(gfT) >= 0 /\ Take(gfT) <= 16 * c.gB
    BY <2>5, <1>a DEF Take
  <2>8. Peek(g.gh.gfaith, now, 4 * c.G, c.gB) = Take(gfT) /\ BucketOK(g.gh.gfaith, c.gB, now)
    BY <2>4, <2>7, <1>a, PeekNow
  <2>9. ~c.fix => Peek(g.gh.gfaith, now, 4 * c.G, c.gB) = GTok(r.s, c, now)
    <3> HAVE ~c.fix
    <3>1. gfT = GTok(s, c, now) /\ GTok(r.s, c, now) = Take(GTok(s, c, now))  BY <1>b, <2>3 DEF RequestEffect, gfT
    <3> QED BY <3>1, <2>8
  <2>10. c.fix => (Peek(g.gh.gref, now, 4 * c.G, c.gB) = GTok(r.s, c, now) /\ BucketOK(g.gh.gref, c.gB, now))
    <3> HAVE c.fix
    <3>1. grT = GTok(s, c, now)  BY <1>b DEF grT
    <3>2. GTok(r.s, c, now) = grT - (IF r.ok THEN 16 ELSE 0)  BY <3>1, <2>3, <2>6 DEF RequestEffect
    <3> QED BY <3>2, <2>4, <2>6, <1>a, PeekNow
  <2> QED BY <2>2, <2>8, <2>9, <2>10, <1>a, <1>g
<1>3. ASSUME NEW i \in IPs, NEW o \in OpTypes, Operation(i, o) PROVE IndInv3'
  <2> DEFINE r  == AllowOperationStep(s, c, now, i, o)
             rn == AllowOperationStep(n, CfgN, now, i, o)
             g  == GhostStep(gh, c, now, "op", i, "-", o, r.ok, rn.ok, s.g, r.s.g, Known)
  <2>1. s' = r.s /\ c' = c /\ now' = now /\ gh' = g.gh  BY <1>3 DEF Operation, Cfg
  <2>2. r.s.g = s.g  BY <1>a, OpStepChar
  <2>3. g.gh.gfaith = gh.gfaith /\ g.gh.gref = gh.gref
    <3> HIDE DEF r, rn
    <3> QED BY GhostGlobal
  <2> HIDE DEF r, rn, g
  <2>4. GTok(r.s, c, now) = GTok(s, c, now)  BY <2>2 DEF GTok
  <2> QED BY <2>1, <2>3, <2>4, <1>a, <1>b, <1>g
<1>4. ASSUME NEW k \in Conns, CloseConn(k) PROVE IndInv3'
  <2>1. gh' = gh /\ now' = now /\ c' = c /\ s' = [s EXCEPT !.conn = Without(@, {k})]  BY <1>4 DEF CloseConn, CloseConnStep
  <2>2. s'.g = s.g  BY <2>1, <1>a DEF StateOK
  <2> QED BY <2>1, <2>2, <1>h
<1>5. ASSUME NEW i \in IPs, AllocFH(i) PROVE IndInv3'
  <2>1. gh' = gh /\ now' = now /\ c' = c /\ s' = AllocFHStep(s, c, i).s  BY <1>5 DEF AllocFH, Cfg
  <2>2. AllocFHStep(s, c, i).s.g = s.g  BY <1>a, AllocFHChar
  <2> QED BY <2>1, <2>2, <1>h
<1>6. ASSUME NEW i \in IPs, ReleaseFH(i) PROVE IndInv3'
  <2>1. gh' = gh /\ now' = now /\ c' = c /\ s' = ReleaseFHStep(s, i)  BY <1>6 DEF ReleaseFH
  <2>2. ReleaseFHStep(s, i).g = s.g  BY <1>a, ReleaseFHChar
  <2> QED BY <2>1, <2>2, <1>h
<1>7. ASSUME NEW S \in SUBSET IPs, CleanupIP(S) PROVE IndInv3'
  <2>1. gh' = gh /\ now' = now /\ c' = c /\ s' = [s EXCEPT !.ip = Without(@, S)]  BY <1>7 DEF CleanupIP
  <2>2. s'.g = s.g  BY <2>1, <1>a DEF StateOK
  <2> QED BY <2>1, <2>2, <1>h
<1>8. ASSUME NEW S \in SUBSET IPs, CleanupOp(S) PROVE IndInv3'
  <2>1. gh' = gh /\ now' = now /\ c' = c /\ s' = [s EXCEPT !.op = Without(@, S)]  BY <1>8 DEF CleanupOp
  <2>2. s'.g = s.g  BY <2>1, <1>a DEF StateOK
  <2> QED BY <2>1, <2>2, <1>h
<1>9. CASE UNCHANGED vars
  <2>1. gh' = gh /\ now' = now /\ c' = c /\ s' = s  BY <1>9 DEF vars
  <2> QED BY <2>1, <1>h
<1> QED BY <1>1, <1>2, <1>3, <1>4, <1>5, <1>6, <1>7, <1>8, <1>9 DEF Next

THEOREM Ind3ImpliesListed ==
  IndInv3 => /\ TypeOK /\ FHBounded /\ AbsentIsFull
             /\ BurstPlusRate /\ CleanupInvisible /\ (FixOrder => RefusedIsFree)
             /\ FaithIsGlobal /\ FixedGlobalIsRef
  BY Ind2ImpliesListed DEF IndInv3


-----------------------------------------------------------------------------
(* Rule (b) of C18 / second sentence of C19, inductive form: as long as a limiter is clean (every      *)
(* request ever sent under it found a token in its reference bucket), the reference bucket - charged   *)
(* with everything sent - holds no more than the code's bucket - charged only with what reaches it.    *)
(* So a client within its own limits passes its own stages; it can only be refused by the global one.  *)
Own(x, kind, ip, conn, o) ==
  CASE kind = "req" -> {LIp(ip)} \cup (IF x.connR4 > 0 THEN {LConn(conn)} ELSE {})
    [] kind = "op"  -> {LOp(ip, o)}
    [] OTHER        -> {}
RefB(ref, x, t, L) == IF L \in DOMAIN ref THEN ref[L] ELSE Full(BOf(x, L), t)
RefA(ref, x, t, L) == Allow(RefB(ref, x, t, L), t, R4Of(x, L), BOf(x, L))
RefT(ref, x, t, L) == Peek(RefB(ref, x, t, L), t, R4Of(x, L), BOf(x, L))
DirtyNext(ref, dirty, x, t, O) == dirty \cup {L \in O \ dirty : ~RefA(ref, x, t, L).ok}
RefNext(ref, dirty, x, t, O) ==
  [L \in ((DOMAIN ref) \cup (O \ dirty)) \ DirtyNext(ref, dirty, x, t, O) |->
      IF L \in O \ dirty THEN RefA(ref, x, t, L).b ELSE ref[L]]

LEMMA GhostRef ==
  ASSUME NEW gh0, NEW x, NEW t, NEW kind, NEW ip, NEW conn, NEW o, NEW dec, NEW decn, NEW gPre, NEW gPost, NEW known
  PROVE  LET g == GhostStep(gh0, x, t, kind, ip, conn, o, dec, decn, gPre, gPost, known)
             O == Own(x, kind, ip, conn, o) IN
         /\ g.gh.dirty = DirtyNext(gh0.ref, gh0.dirty, x, t, O)
         /\ g.gh.ref = RefNext(gh0.ref, gh0.dirty, x, t, O)
         /\ (\E f \in g.fails : f.why = WhyB) =>
               /\ kind = "req" /\ ~dec /\ O \cap DirtyNext(gh0.ref, gh0.dirty, x, t, O) = {}
               /\ Peek(gh0.gref, t, 4 * x.G, x.gB) >= 16
               /\ ~(DevGlobal \in known /\ Peek(gh0.gfaith, t, 4 * x.G, x.gB) < 16)
         /\ (\E f \in g.fails : f.why = WhyBop) =>
               (kind = "op" /\ ~dec /\ O \cap DirtyNext(gh0.ref, gh0.dirty, x, t, O) = {})
<1> DEFINE g == GhostStep(gh0, x, t, kind, ip, conn, o, dec, decn, gPre, gPost, known)
           O == Own(x, kind, ip, conn, o)
<1>1. g.gh.dirty = DirtyNext(gh0.ref, gh0.dirty, x, t, O)
  BY DEF GhostStep, Own, DirtyNext, RefA, RefB
<1>2. g.gh.ref = RefNext(gh0.ref, gh0.dirty, x, t, O)
  BY DEF GhostStep, Own, RefNext, DirtyNext, RefA, RefB
<1>3. (\E f \in g.fails : f.why = WhyB) =>
               /\ kind = "req" /\ ~dec /\ O \cap DirtyNext(gh0.ref, gh0.dirty, x, t, O) = {}
               /\ Peek(gh0.gref, t, 4 * x.G, x.gB) >= 16
               /\ ~(DevGlobal \in known /\ Peek(gh0.gfaith, t, 4 * x.G, x.gB) < 16)
  BY DEF GhostStep, Own, DirtyNext, RefA, RefB, WhyA, WhyB, WhyBop, WhyFree, WhyC, WhyD
<1>4. (\E f \in g.fails : f.why = WhyBop) =>
               (kind = "op" /\ ~dec /\ O \cap DirtyNext(gh0.ref, gh0.dirty, x, t, O) = {})
  BY DEF GhostStep, Own, DirtyNext, RefA, RefB, WhyA, WhyB, WhyBop, WhyFree, WhyC, WhyD
<1> QED BY <1>1, <1>2, <1>3, <1>4

RefOK(ref, dirty, x, t, cl, st) ==
  /\ \A i \in IPs : LIp(i) \in DOMAIN ref => BucketOK(ref[LIp(i)], x.ipB, t)
  /\ \A k \in Conns : LConn(k) \in DOMAIN ref => BucketOK(ref[LConn(k)], x.connB, t)
  /\ \A i \in IPs : \A o \in OpTypes : LOp(i, o) \in DOMAIN ref => BucketOK(ref[LOp(i, o)], x.opB[o], t)
  /\ \A i \in IPs : LIp(i) \notin dirty => RefT(ref, x, t, LIp(i)) <= IpTok(st, x, t, i)
  /\ \A k \in Conns \ cl : LConn(k) \notin dirty => RefT(ref, x, t, LConn(k)) <= ConnTok(st, x, t, k)
  /\ \A i \in IPs : \A o \in OpTypes : LOp(i, o) \notin dirty => RefT(ref, x, t, LOp(i, o)) <= OpTok(st, x, t, i, o)

\* one limiter L through one ghost step that sends a request under the limiters in O
LEMMA RefNextChar ==
  ASSUME NEW ref, NEW dirty, NEW x, NEW t \in Nat, NEW O, NEW L,
         BOf(x, L) \in Nat, R4Of(x, L) \in Nat,
         L \in DOMAIN ref => BucketOK(ref[L], BOf(x, L), t)
  PROVE  /\ RefT(ref, x, t, L) \in 0..(16 * BOf(x, L))
         /\ L \in DOMAIN RefNext(ref, dirty, x, t, O) => BucketOK(RefNext(ref, dirty, x, t, O)[L], BOf(x, L), t)
         /\ L \in O => /\ (L \notin DirtyNext(ref, dirty, x, t, O)) <=> (L \notin dirty /\ RefT(ref, x, t, L) >= 16)
                       /\ L \notin DirtyNext(ref, dirty, x, t, O) =>
                             RefT(RefNext(ref, dirty, x, t, O), x, t, L) = RefT(ref, x, t, L) - 16
         /\ L \notin O => /\ (L \in DirtyNext(ref, dirty, x, t, O)) <=> (L \in dirty)
                          /\ L \notin dirty => RefT(RefNext(ref, dirty, x, t, O), x, t, L) = RefT(ref, x, t, L)
<1> DEFINE B == BOf(x, L)  r4 == R4Of(x, L)
           rb == RefB(ref, x, t, L)
           ra == RefA(ref, x, t, L)
           D1 == DirtyNext(ref, dirty, x, t, O)
           R1 == RefNext(ref, dirty, x, t, O)
<1>1. BucketOK(rb, B, t)  BY FullChar DEF RefB
<1>2. /\ BucketOK(ra.b, B, t) /\ ra.ok = (Peek(rb, t, r4, B) >= 16)
      /\ Peek(ra.b, t, r4, B) = Take(Peek(rb, t, r4, B)) /\ Peek(rb, t, r4, B) \in 0..(16 * B)
  BY <1>1, AllowChar DEF RefA
<1>3. RefT(ref, x, t, L) = Peek(rb, t, r4, B)  BY DEF RefT
<1>4. (L \in D1) <=> (L \in dirty \/ (L \in O /\ ~ra.ok))  BY DEF DirtyNext
<1>5. DOMAIN R1 = ((DOMAIN ref) \cup (O \ dirty)) \ D1  BY DEF RefNext
<1>6. L \in DOMAIN R1 => R1[L] = IF L \in O \ dirty THEN ra.b ELSE ref[L]  BY DEF RefNext
<1> HIDE DEF rb, ra, D1, R1
<1>7. L \in DOMAIN R1 => BucketOK(R1[L], B, t)  BY <1>2, <1>5, <1>6
<1>8. ASSUME L \in O, L \notin D1 PROVE RefT(R1, x, t, L) = RefT(ref, x, t, L) - 16
  <2>1. L \notin dirty /\ ra.ok  BY <1>8, <1>4
  <2>2. L \in DOMAIN R1 /\ R1[L] = ra.b  BY <1>8, <2>1, <1>5, <1>6
  <2>3. RefT(R1, x, t, L) = Peek(ra.b, t, r4, B)  BY <2>2 DEF RefT, RefB
  <2> QED BY <2>1, <2>3, <1>2, <1>3 DEF Take
<1>9. ASSUME L \notin O, L \notin dirty PROVE RefT(R1, x, t, L) = RefT(ref, x, t, L)
  <2>1. L \notin D1  BY <1>9, <1>4
  <2>2. (L \in DOMAIN R1) <=> (L \in DOMAIN ref)  BY <1>9, <2>1, <1>5
  <2>3. L \in DOMAIN R1 => R1[L] = ref[L]  BY <1>9, <1>6
  <2> QED BY <2>2, <2>3 DEF RefT, RefB
<1> QED BY <1>2, <1>3, <1>4, <1>7, <1>8, <1>9 DEF B, r4, D1, R1

LEMMA RefRequest ==
  ASSUME NEW x, CfgOK(x), NEW t \in Nat, NEW cl, NEW st, StateOK(st, x, t, cl),
         NEW ip \in IPs, NEW k \in Conns \ cl, NEW fix \in BOOLEAN, NEW ref, NEW dirty, RefOK(ref, dirty, x, t, cl, st)
  PROVE  LET r == AllowRequestStep(st, x, t, ip, k, fix)
             O == Own(x, "req", ip, k, "-") IN
         /\ RefOK(RefNext(ref, dirty, x, t, O), DirtyNext(ref, dirty, x, t, O), x, t, cl, r.s)
         /\ O \cap DirtyNext(ref, dirty, x, t, O) = {} =>
               (IpTok(st, x, t, ip) >= 16 /\ (x.connR4 = 0 \/ ConnTok(st, x, t, k) >= 16))
<1> DEFINE r == AllowRequestStep(st, x, t, ip, k, fix)
           O == Own(x, "req", ip, k, "-")
           D1 == DirtyNext(ref, dirty, x, t, O)
           R1 == RefNext(ref, dirty, x, t, O)
<1>1. StateOK(r.s, x, t, cl) /\ r.ok \in BOOLEAN /\ RequestEffect(st, x, t, ip, k, fix, r)  BY RequestChar
<1>2. O = {LIp(ip)} \cup (IF x.connR4 > 0 THEN {LConn(k)} ELSE {})  BY DEF Own
<1>3. /\ x.ipR4 \in Nat /\ x.ipB \in Nat /\ x.connR4 \in Nat /\ x.connB \in Nat
      /\ \A o \in OpTypes : x.opR4[o] \in Nat /\ x.opB[o] \in Nat
  BY DEF CfgOK
<1>4. InRange(st, x, t) /\ InRange(r.s, x, t)  BY <1>1, RangeOf
<1>5. \A i \in IPs : \A o \in OpTypes : OpTok(st, x, t, i, o) \in Int  BY TokRange
<1> HIDE DEF r, O, D1, R1
\* per-IP limiters
<1>10. \A i \in IPs :
          /\ RefT(ref, x, t, LIp(i)) \in 0..(16 * x.ipB)
          /\ LIp(i) \in DOMAIN R1 => BucketOK(R1[LIp(i)], x.ipB, t)
          /\ LIp(i) \in O => /\ (LIp(i) \notin D1) <=> (LIp(i) \notin dirty /\ RefT(ref, x, t, LIp(i)) >= 16)
                             /\ LIp(i) \notin D1 => RefT(R1, x, t, LIp(i)) = RefT(ref, x, t, LIp(i)) - 16
          /\ LIp(i) \notin O => /\ (LIp(i) \in D1) <=> (LIp(i) \in dirty)
                                /\ LIp(i) \notin dirty => RefT(R1, x, t, LIp(i)) = RefT(ref, x, t, LIp(i))
  <2> TAKE i \in IPs
  <2>1. BOf(x, LIp(i)) = x.ipB /\ R4Of(x, LIp(i)) = x.ipR4  BY LimiterNames
  <2>2. LIp(i) \in DOMAIN ref => BucketOK(ref[LIp(i)], x.ipB, t)  BY DEF RefOK
  <2> QED BY <2>1, <2>2, <1>3, RefNextChar DEF D1, R1
<1>11. \A i \in IPs : LIp(i) \in O <=> i = ip  BY <1>2, LimiterNames
<1>12. \A i \in IPs : LIp(i) \notin D1 => RefT(R1, x, t, LIp(i)) <= IpTok(r.s, x, t, i)
  <2> TAKE i \in IPs
  <2> HAVE LIp(i) \notin D1
  <2>0. IpTok(st, x, t, i) \in Int /\ IpTok(r.s, x, t, i) \in Int  BY <1>4 DEF InRange
  <2>1. CASE i = ip
    <3>1. LIp(i) \notin dirty /\ RefT(ref, x, t, LIp(i)) >= 16 /\ RefT(R1, x, t, LIp(i)) = RefT(ref, x, t, LIp(i)) - 16
      BY <2>1, <1>10, <1>11
    <3>2. RefT(ref, x, t, LIp(i)) <= IpTok(st, x, t, i)  BY <3>1 DEF RefOK
    <3>3. IpTok(r.s, x, t, i) >= IpTok(st, x, t, i) - 16  BY <2>1, <1>1 DEF RequestEffect
    <3> QED BY <3>1, <3>2, <3>3, <2>0, <1>10, <1>3
  <2>2. CASE i # ip
    <3>1. LIp(i) \notin dirty /\ RefT(R1, x, t, LIp(i)) = RefT(ref, x, t, LIp(i))  BY <2>2, <1>10, <1>11
    <3>2. RefT(ref, x, t, LIp(i)) <= IpTok(st, x, t, i)  BY <3>1 DEF RefOK
    <3>3. IpTok(r.s, x, t, i) = IpTok(st, x, t, i)  BY <2>2, <1>1 DEF RequestEffect, Others
    <3> QED BY <3>1, <3>2, <3>3
  <2> QED BY <2>1, <2>2
\* per-connection limiters
<1>20. \A j \in Conns :
          /\ RefT(ref, x, t, LConn(j)) \in 0..(16 * x.connB)
          /\ LConn(j) \in DOMAIN R1 => BucketOK(R1[LConn(j)], x.connB, t)
          /\ LConn(j) \in O => /\ (LConn(j) \notin D1) <=> (LConn(j) \notin dirty /\ RefT(ref, x, t, LConn(j)) >= 16)
                               /\ LConn(j) \notin D1 => RefT(R1, x, t, LConn(j)) = RefT(ref, x, t, LConn(j)) - 16
          /\ LConn(j) \notin O => /\ (LConn(j) \in D1) <=> (LConn(j) \in dirty)
                                  /\ LConn(j) \notin dirty => RefT(R1, x, t, LConn(j)) = RefT(ref, x, t, LConn(j))
  <2> TAKE j \in Conns
  <2>1. BOf(x, LConn(j)) = x.connB /\ R4Of(x, LConn(j)) = x.connR4  BY LimiterNames
  <2>2. LConn(j) \in DOMAIN ref => BucketOK(ref[LConn(j)], x.connB, t)  BY DEF RefOK
  <2> QED BY <2>1, <2>2, <1>3, RefNextChar DEF D1, R1
<1>21. \A j \in Conns : LConn(j) \in O <=> (j = k /\ x.connR4 > 0)  BY <1>2, LimiterNames
<1>22. \A j \in Conns \ cl : LConn(j) \notin D1 => RefT(R1, x, t, LConn(j)) <= ConnTok(r.s, x, t, j)
  <2> TAKE j \in Conns \ cl
  <2> HAVE LConn(j) \notin D1
  <2>0. ConnTok(st, x, t, j) \in Int /\ ConnTok(r.s, x, t, j) \in Int  BY <1>4 DEF InRange
  <2>1. CASE j = k /\ x.connR4 > 0
    <3>1. LConn(j) \notin dirty /\ RefT(ref, x, t, LConn(j)) >= 16 /\ RefT(R1, x, t, LConn(j)) = RefT(ref, x, t, LConn(j)) - 16
      BY <2>1, <1>20, <1>21
    <3>2. RefT(ref, x, t, LConn(j)) <= ConnTok(st, x, t, j)  BY <3>1 DEF RefOK
    <3>3. ConnTok(r.s, x, t, j) >= ConnTok(st, x, t, j) - 16  BY <2>1, <1>1 DEF RequestEffect
    <3> QED BY <3>1, <3>2, <3>3, <2>0, <1>20, <1>3
  <2>2. CASE ~(j = k /\ x.connR4 > 0)
    <3>1. LConn(j) \notin dirty /\ RefT(R1, x, t, LConn(j)) = RefT(ref, x, t, LConn(j))  BY <2>2, <1>20, <1>21
    <3>2. RefT(ref, x, t, LConn(j)) <= ConnTok(st, x, t, j)  BY <3>1 DEF RefOK
    <3>3. ConnTok(r.s, x, t, j) = ConnTok(st, x, t, j)  BY <2>2, <1>1, <1>3 DEF RequestEffect, Others
    <3> QED BY <3>1, <3>2, <3>3
  <2> QED BY <2>1, <2>2
\* per-operation limiters: not touched by a request
<1>30. \A i \in IPs : \A o \in OpTypes :
          /\ LOp(i, o) \in DOMAIN R1 => BucketOK(R1[LOp(i, o)], x.opB[o], t)
          /\ (LOp(i, o) \in D1) <=> (LOp(i, o) \in dirty)
          /\ LOp(i, o) \notin dirty => RefT(R1, x, t, LOp(i, o)) = RefT(ref, x, t, LOp(i, o))
  <2> TAKE i \in IPs
  <2> TAKE o \in OpTypes
  <2>1. BOf(x, LOp(i, o)) = x.opB[o] /\ R4Of(x, LOp(i, o)) = x.opR4[o]  BY LimiterNames
  <2>2. LOp(i, o) \in DOMAIN ref => BucketOK(ref[LOp(i, o)], x.opB[o], t)  BY DEF RefOK
  <2>3. LOp(i, o) \notin O  BY <1>2, LimiterNames
  <2> QED BY <2>1, <2>2, <2>3, <1>3, RefNextChar DEF D1, R1
<1>32. \A i \in IPs : \A o \in OpTypes : LOp(i, o) \notin D1 => RefT(R1, x, t, LOp(i, o)) <= OpTok(r.s, x, t, i, o)
  <2> TAKE i \in IPs
  <2> TAKE o \in OpTypes
  <2> HAVE LOp(i, o) \notin D1
  <2>1. LOp(i, o) \notin dirty /\ RefT(R1, x, t, LOp(i, o)) = RefT(ref, x, t, LOp(i, o))  BY <1>30
  <2>2. RefT(ref, x, t, LOp(i, o)) <= OpTok(st, x, t, i, o)  BY <2>1 DEF RefOK
  <2>3. OpTok(r.s, x, t, i, o) = OpTok(st, x, t, i, o)  BY <1>1 DEF RequestEffect, Leq
  <2> QED BY <2>1, <2>2, <2>3
<1>40. RefOK(R1, D1, x, t, cl, r.s)
  BY <1>10, <1>12, <1>20, <1>22, <1>30, <1>32 DEF RefOK
<1>41. O \cap D1 = {} => (IpTok(st, x, t, ip) >= 16 /\ (x.connR4 = 0 \/ ConnTok(st, x, t, k) >= 16))
  <2> HAVE O \cap D1 = {}
  <2>1. LIp(ip) \notin D1  BY <1>2
  <2>2. LIp(ip) \notin dirty /\ RefT(ref, x, t, LIp(ip)) >= 16  BY <2>1, <1>10, <1>11
  <2>3. RefT(ref, x, t, LIp(ip)) <= IpTok(st, x, t, ip)  BY <2>2 DEF RefOK
  <2>4. IpTok(st, x, t, ip) >= 16  BY <2>2, <2>3, <1>4, <1>10 DEF InRange
  <2>5. CASE x.connR4 = 0  BY <2>4, <2>5
  <2>6. CASE x.connR4 # 0
    <3>1. x.connR4 > 0 /\ LConn(k) \in O  BY <2>6, <1>2, <1>3
    <3>2. LConn(k) \notin D1  BY <3>1
    <3>3. LConn(k) \notin dirty /\ RefT(ref, x, t, LConn(k)) >= 16  BY <3>1, <3>2, <1>20
    <3>4. RefT(ref, x, t, LConn(k)) <= ConnTok(st, x, t, k)  BY <3>3 DEF RefOK
    <3> QED BY <3>3, <3>4, <2>4, <1>4, <1>20 DEF InRange
  <2> QED BY <2>5, <2>6
<1> QED BY <1>40, <1>41 DEF r, O, D1, R1

LEMMA RefOperation ==
  ASSUME NEW x, CfgOK(x), NEW t \in Nat, NEW cl, NEW st, StateOK(st, x, t, cl),
         NEW ip \in IPs, NEW o \in OpTypes, NEW ref, NEW dirty, RefOK(ref, dirty, x, t, cl, st), NEW kk
  PROVE  LET r == AllowOperationStep(st, x, t, ip, o)
             O == Own(x, "op", ip, kk, o) IN
         /\ RefOK(RefNext(ref, dirty, x, t, O), DirtyNext(ref, dirty, x, t, O), x, t, cl, r.s)
         /\ O \cap DirtyNext(ref, dirty, x, t, O) = {} => OpTok(st, x, t, ip, o) >= 16
<1> DEFINE r == AllowOperationStep(st, x, t, ip, o)
           O == Own(x, "op", ip, kk, o)
           D1 == DirtyNext(ref, dirty, x, t, O)
           R1 == RefNext(ref, dirty, x, t, O)
<1>1. /\ StateOK(r.s, x, t, cl)
      /\ r.ok = (OpTok(st, x, t, ip, o) >= 16)
      /\ OpTok(r.s, x, t, ip, o) = Take(OpTok(st, x, t, ip, o))
      /\ \A j \in IPs : \A p \in OpTypes : (j # ip \/ p # o) => OpTok(r.s, x, t, j, p) = OpTok(st, x, t, j, p)
      /\ r.s.g = st.g /\ r.s.conn = st.conn /\ r.s.ip = st.ip /\ r.s.fh = st.fh
  BY OpStepChar
<1>2. O = {LOp(ip, o)}  BY DEF Own
<1>3. /\ x.ipR4 \in Nat /\ x.ipB \in Nat /\ x.connR4 \in Nat /\ x.connB \in Nat
      /\ \A p \in OpTypes : x.opR4[p] \in Nat /\ x.opB[p] \in Nat
  BY DEF CfgOK
<1>5. \A i \in IPs : \A p \in OpTypes : OpTok(st, x, t, i, p) \in 0..(16 * x.opB[p])  BY TokRange
<1> HIDE DEF r, O, D1, R1
<1>6. \A i : IpTok(r.s, x, t, i) = IpTok(st, x, t, i)  BY <1>1 DEF IpTok
<1>7. \A j : ConnTok(r.s, x, t, j) = ConnTok(st, x, t, j)  BY <1>1 DEF ConnTok
<1>10. \A i \in IPs :
          /\ LIp(i) \in DOMAIN R1 => BucketOK(R1[LIp(i)], x.ipB, t)
          /\ (LIp(i) \in D1) <=> (LIp(i) \in dirty)
          /\ LIp(i) \notin dirty => RefT(R1, x, t, LIp(i)) = RefT(ref, x, t, LIp(i))
  <2> TAKE i \in IPs
  <2>1. BOf(x, LIp(i)) = x.ipB /\ R4Of(x, LIp(i)) = x.ipR4  BY LimiterNames
  <2>2. LIp(i) \in DOMAIN ref => BucketOK(ref[LIp(i)], x.ipB, t)  BY DEF RefOK
  <2>3. LIp(i) \notin O  BY <1>2, LimiterNames
  <2> QED BY <2>1, <2>2, <2>3, <1>3, RefNextChar DEF D1, R1
<1>12. \A i \in IPs : LIp(i) \notin D1 => RefT(R1, x, t, LIp(i)) <= IpTok(r.s, x, t, i)
  BY <1>6, <1>10 DEF RefOK
<1>20. \A j \in Conns :
          /\ LConn(j) \in DOMAIN R1 => BucketOK(R1[LConn(j)], x.connB, t)
          /\ (LConn(j) \in D1) <=> (LConn(j) \in dirty)
          /\ LConn(j) \notin dirty => RefT(R1, x, t, LConn(j)) = RefT(ref, x, t, LConn(j))
  <2> TAKE j \in Conns
  <2>1. BOf(x, LConn(j)) = x.connB /\ R4Of(x, LConn(j)) = x.connR4  BY LimiterNames
  <2>2. LConn(j) \in DOMAIN ref => BucketOK(ref[LConn(j)], x.connB, t)  BY DEF RefOK
  <2>3. LConn(j) \notin O  BY <1>2, LimiterNames
  <2> QED BY <2>1, <2>2, <2>3, <1>3, RefNextChar DEF D1, R1
<1>22. \A j \in Conns \ cl : LConn(j) \notin D1 => RefT(R1, x, t, LConn(j)) <= ConnTok(r.s, x, t, j)
  BY <1>7, <1>20 DEF RefOK
<1>30. \A i \in IPs : \A p \in OpTypes :
          /\ RefT(ref, x, t, LOp(i, p)) \in 0..(16 * x.opB[p])
          /\ LOp(i, p) \in DOMAIN R1 => BucketOK(R1[LOp(i, p)], x.opB[p], t)
          /\ LOp(i, p) \in O => /\ (LOp(i, p) \notin D1) <=> (LOp(i, p) \notin dirty /\ RefT(ref, x, t, LOp(i, p)) >= 16)
                                /\ LOp(i, p) \notin D1 => RefT(R1, x, t, LOp(i, p)) = RefT(ref, x, t, LOp(i, p)) - 16
          /\ LOp(i, p) \notin O => /\ (LOp(i, p) \in D1) <=> (LOp(i, p) \in dirty)
                                   /\ LOp(i, p) \notin dirty => RefT(R1, x, t, LOp(i, p)) = RefT(ref, x, t, LOp(i, p))
  <2> TAKE i \in IPs
  <2> TAKE p \in OpTypes
  <2>1. BOf(x, LOp(i, p)) = x.opB[p] /\ R4Of(x, LOp(i, p)) = x.opR4[p]  BY LimiterNames
  <2>2. LOp(i, p) \in DOMAIN ref => BucketOK(ref[LOp(i, p)], x.opB[p], t)  BY DEF RefOK
  <2> QED BY <2>1, <2>2, <1>3, RefNextChar DEF D1, R1
<1>31. \A i \in IPs : \A p \in OpTypes : LOp(i, p) \in O <=> (i = ip /\ p = o)  BY <1>2, LimiterNames
<1>32. \A i \in IPs : \A p \in OpTypes : LOp(i, p) \notin D1 => RefT(R1, x, t, LOp(i, p)) <= OpTok(r.s, x, t, i, p)
  <2> TAKE i \in IPs
  <2> TAKE p \in OpTypes
  <2> HAVE LOp(i, p) \notin D1
  <2>1. CASE i = ip /\ p = o
    <3>1. LOp(i, p) \notin dirty /\ RefT(ref, x, t, LOp(i, p)) >= 16 /\ RefT(R1, x, t, LOp(i, p)) = RefT(ref, x, t, LOp(i, p)) - 16
      BY <2>1, <1>30, <1>31
    <3>2. RefT(ref, x, t, LOp(i, p)) <= OpTok(st, x, t, i, p)  BY <3>1 DEF RefOK
    <3>3. OpTok(r.s, x, t, i, p) = Take(OpTok(st, x, t, i, p))  BY <2>1, <1>1
    <3> QED BY <3>1, <3>2, <3>3, <1>5, <1>3, <1>30 DEF Take
  <2>2. CASE ~(i = ip /\ p = o)
    <3>1. LOp(i, p) \notin dirty /\ RefT(R1, x, t, LOp(i, p)) = RefT(ref, x, t, LOp(i, p))  BY <2>2, <1>30, <1>31
    <3>2. RefT(ref, x, t, LOp(i, p)) <= OpTok(st, x, t, i, p)  BY <3>1 DEF RefOK
    <3>3. OpTok(r.s, x, t, i, p) = OpTok(st, x, t, i, p)  BY <2>2, <1>1
    <3> QED BY <3>1, <3>2, <3>3
  <2> QED BY <2>1, <2>2
<1>40. RefOK(R1, D1, x, t, cl, r.s)
  BY <1>10, <1>12, <1>20, <1>22, <1>30, <1>32 DEF RefOK
<1>41. O \cap D1 = {} => OpTok(st, x, t, ip, o) >= 16
  <2> HAVE O \cap D1 = {}
  <2>1. LOp(ip, o) \notin D1  BY <1>2
  <2>2. LOp(ip, o) \notin dirty /\ RefT(ref, x, t, LOp(ip, o)) >= 16  BY <2>1, <1>30, <1>31
  <2>3. RefT(ref, x, t, LOp(ip, o)) <= OpTok(st, x, t, ip, o)  BY <2>2 DEF RefOK
  <2> QED BY <2>2, <2>3, <1>5, <1>3, <1>30
<1> QED BY <1>40, <1>41 DEF r, O, D1, R1

LEMMA RefTick ==
  ASSUME NEW x, CfgOK(x), NEW t \in Nat, NEW cl, NEW st, StateOK(st, x, t, cl), NEW ref, NEW dirty, RefOK(ref, dirty, x, t, cl, st)
  PROVE  RefOK(ref, dirty, x, t + 1, cl, st)
<1>0. /\ x.ipR4 \in Nat /\ x.ipB \in Nat /\ x.connR4 \in Nat /\ x.connB \in Nat
      /\ \A o \in OpTypes : x.opR4[o] \in Nat /\ x.opB[o] \in Nat
  BY DEF CfgOK
<1>1. /\ \A i \in IPs : IpTok(st, x, t + 1, i) = Min(IpTok(st, x, t, i) + x.ipR4, 16 * x.ipB)
      /\ \A k \in Conns : ConnTok(st, x, t + 1, k) = Min(ConnTok(st, x, t, k) + x.connR4, 16 * x.connB)
      /\ \A i \in IPs : \A o \in OpTypes : OpTok(st, x, t + 1, i, o) = Min(OpTok(st, x, t, i, o) + x.opR4[o], 16 * x.opB[o])
  BY TickOne
<1>2. /\ \A i \in IPs : IpTok(st, x, t, i) \in 0..(16 * x.ipB)
      /\ \A k \in Conns : ConnTok(st, x, t, k) \in 0..(16 * x.connB)
      /\ \A i \in IPs : \A o \in OpTypes : OpTok(st, x, t, i, o) \in 0..(16 * x.opB[o])
  BY TokRange
\* one limiter: typing is monotone in time, the reference view grows like a bucket's
<1>3. ASSUME NEW L, NEW r4 \in Nat, NEW B \in Nat, R4Of(x, L) = r4, BOf(x, L) = B, L \in DOMAIN ref => BucketOK(ref[L], B, t)
      PROVE  /\ L \in DOMAIN ref => BucketOK(ref[L], B, t + 1)
             /\ RefT(ref, x, t, L) \in 0..(16 * B)
             /\ RefT(ref, x, t + 1, L) = Min(RefT(ref, x, t, L) + r4, 16 * B)
  <2>1. CASE L \in DOMAIN ref
    <3>1. BucketOK(ref[L], B, t)  BY <2>1, <1>3
    <3>2. Peek(ref[L], t + 1, r4, B) = Min(Peek(ref[L], t, r4, B) + r4, 16 * B) /\ BucketOK(ref[L], B, t + 1)  BY <3>1, PeekTick
    <3>3. Peek(ref[L], t, r4, B) \in 0..(16 * B)  BY <3>1, AllowChar
    <3> QED BY <2>1, <3>2, <3>3, <1>3 DEF RefT, RefB
  <2>2. CASE L \notin DOMAIN ref
    <3>1. t + 1 \in Nat  OBVIOUS
    <3>2. Peek(Full(B, t), t, r4, B) = 16 * B /\ Peek(Full(B, t + 1), t + 1, r4, B) = 16 * B  BY <3>1, FullChar
    <3> QED BY <2>2, <3>2, <1>3 DEF RefT, RefB, Min
  <2> QED BY <2>1, <2>2
<1>4. \A i \in IPs : /\ LIp(i) \in DOMAIN ref => BucketOK(ref[LIp(i)], x.ipB, t + 1)
                     /\ LIp(i) \notin dirty => RefT(ref, x, t + 1, LIp(i)) <= IpTok(st, x, t + 1, i)
  <2> TAKE i \in IPs
  <2>1. R4Of(x, LIp(i)) = x.ipR4 /\ BOf(x, LIp(i)) = x.ipB  BY LimiterNames
  <2>2. LIp(i) \in DOMAIN ref => BucketOK(ref[LIp(i)], x.ipB, t)  BY DEF RefOK
  <2>3. /\ LIp(i) \in DOMAIN ref => BucketOK(ref[LIp(i)], x.ipB, t + 1)
        /\ RefT(ref, x, t, LIp(i)) \in 0..(16 * x.ipB)
        /\ RefT(ref, x, t + 1, LIp(i)) = Min(RefT(ref, x, t, LIp(i)) + x.ipR4, 16 * x.ipB)
    BY <2>1, <2>2, <1>0, <1>3
  <2>4. LIp(i) \notin dirty => RefT(ref, x, t, LIp(i)) <= IpTok(st, x, t, i)  BY DEF RefOK
  <2> QED BY <2>3, <2>4, <1>0, <1>1, <1>2 DEF Min
<1>5. \A k \in Conns : /\ LConn(k) \in DOMAIN ref => BucketOK(ref[LConn(k)], x.connB, t + 1)
                       /\ (k \notin cl /\ LConn(k) \notin dirty) => RefT(ref, x, t + 1, LConn(k)) <= ConnTok(st, x, t + 1, k)
  <2> TAKE k \in Conns
  <2>1. R4Of(x, LConn(k)) = x.connR4 /\ BOf(x, LConn(k)) = x.connB  BY LimiterNames
  <2>2. LConn(k) \in DOMAIN ref => BucketOK(ref[LConn(k)], x.connB, t)  BY DEF RefOK
  <2>3. /\ LConn(k) \in DOMAIN ref => BucketOK(ref[LConn(k)], x.connB, t + 1)
        /\ RefT(ref, x, t, LConn(k)) \in 0..(16 * x.connB)
        /\ RefT(ref, x, t + 1, LConn(k)) = Min(RefT(ref, x, t, LConn(k)) + x.connR4, 16 * x.connB)
    BY <2>1, <2>2, <1>0, <1>3
  <2>4. (k \notin cl /\ LConn(k) \notin dirty) => RefT(ref, x, t, LConn(k)) <= ConnTok(st, x, t, k)  BY DEF RefOK
  <2> QED BY <2>3, <2>4, <1>0, <1>1, <1>2 DEF Min
<1>6. \A i \in IPs : \A o \in OpTypes :
         /\ LOp(i, o) \in DOMAIN ref => BucketOK(ref[LOp(i, o)], x.opB[o], t + 1)
         /\ LOp(i, o) \notin dirty => RefT(ref, x, t + 1, LOp(i, o)) <= OpTok(st, x, t + 1, i, o)
  <2> TAKE i \in IPs
  <2> TAKE o \in OpTypes
  <2>1. R4Of(x, LOp(i, o)) = x.opR4[o] /\ BOf(x, LOp(i, o)) = x.opB[o]  BY LimiterNames
  <2>2. LOp(i, o) \in DOMAIN ref => BucketOK(ref[LOp(i, o)], x.opB[o], t)  BY DEF RefOK
  <2>3. /\ LOp(i, o) \in DOMAIN ref => BucketOK(ref[LOp(i, o)], x.opB[o], t + 1)
        /\ RefT(ref, x, t, LOp(i, o)) \in 0..(16 * x.opB[o])
        /\ RefT(ref, x, t + 1, LOp(i, o)) = Min(RefT(ref, x, t, LOp(i, o)) + x.opR4[o], 16 * x.opB[o])
    BY <2>1, <2>2, <1>0, <1>3
  <2>4. LOp(i, o) \notin dirty => RefT(ref, x, t, LOp(i, o)) <= OpTok(st, x, t, i, o)  BY DEF RefOK
  <2> QED BY <2>3, <2>4, <1>0, <1>1, <1>2 DEF Min
<1> QED BY <1>4, <1>5, <1>6 DEF RefOK

LEMMA RefSameViews ==
  ASSUME NEW x, NEW t, NEW cl, NEW cl2, NEW st, NEW st2, NEW ref, NEW dirty, RefOK(ref, dirty, x, t, cl, st), cl \subseteq cl2,
         \A i \in IPs : IpTok(st2, x, t, i) = IpTok(st, x, t, i),
         \A k \in Conns \ cl2 : ConnTok(st2, x, t, k) = ConnTok(st, x, t, k),
         \A i \in IPs : \A o \in OpTypes : OpTok(st2, x, t, i, o) = OpTok(st, x, t, i, o)
  PROVE  RefOK(ref, dirty, x, t, cl2, st2)
  BY DEF RefOK

-----------------------------------------------------------------------------
(* The fourth invariant: with the reference buckets related to the code's, a client within its own     *)
(* limits is refused only when the global budget is empty (NoCollateral: C18 b, C19 second sentence).   *)
(* Under the pinned order that needs the listed deviation F11 to be among the known ones, as in TLC's   *)
(* configurations of that order.                                                                       *)
IndInv4 ==
  /\ IndInv3
  /\ RefOK(gh.ref, gh.dirty, c, now, closed, s)
  /\ (c.fix \/ DevGlobal \in KnownDeviations) => NoCollateral

THEOREM InitInd4 == Init => IndInv4
<1> SUFFICES ASSUME Init PROVE IndInv4  OBVIOUS
<1>1. IndInv3  BY InitInd3
<1>2. viol = {} /\ now = 0 /\ closed = {} /\ gh.ref = EmptyFn /\ gh.dirty = {}  BY DEF Init, GhostInit
<1>3. NoCollateral  BY <1>2 DEF NoCollateral, Fails
<1>4. CfgOK(c) /\ StateOK(s, c, 0, {})  BY <1>1, <1>2 DEF IndInv3, IndInv2, IndInv
<1>5. /\ \A i \in IPs : IpTok(s, c, 0, i) \in 0..(16 * c.ipB)
      /\ \A k \in Conns : ConnTok(s, c, 0, k) \in 0..(16 * c.connB)
      /\ \A i \in IPs : \A o \in OpTypes : OpTok(s, c, 0, i, o) \in 0..(16 * c.opB[o])
  BY <1>4, TokRange
<1>6. DOMAIN EmptyFn = {}  BY DEF EmptyFn
<1>7. /\ c.ipR4 \in Nat /\ c.ipB \in Nat /\ c.connR4 \in Nat /\ c.connB \in Nat
      /\ \A o \in OpTypes : c.opR4[o] \in Nat /\ c.opB[o] \in Nat
  BY <1>4 DEF CfgOK
<1>8. \A L, r4, B : (R4Of(c, L) = r4 /\ BOf(c, L) = B /\ r4 \in Nat /\ B \in Nat) => RefT(EmptyFn, c, 0, L) = 16 * B
  BY <1>6, FullChar DEF RefT, RefB
<1>9. /\ \A i \in IPs : RefT(EmptyFn, c, 0, LIp(i)) = 16 * c.ipB
      /\ \A k \in Conns : RefT(EmptyFn, c, 0, LConn(k)) = 16 * c.connB
      /\ \A i \in IPs : \A o \in OpTypes : RefT(EmptyFn, c, 0, LOp(i, o)) = 16 * c.opB[o]
  BY <1>7, <1>8, LimiterNames
<1>9a. s.ip = EmptyFn /\ s.conn = EmptyFn /\ s.op = EmptyFn  BY DEF Init, InitState
<1>9b. /\ \A i \in IPs : IpTok(s, c, 0, i) = 16 * c.ipB
       /\ \A k \in Conns : ConnTok(s, c, 0, k) = 16 * c.connB
       /\ \A i \in IPs : \A o \in OpTypes : OpTok(s, c, 0, i, o) = 16 * c.opB[o]
  BY <1>6, <1>9a DEF IpTok, ConnTok, OpTok
<1>10. RefOK(EmptyFn, {}, c, 0, {}, s)  BY <1>6, <1>7, <1>9, <1>9b DEF RefOK
<1> QED BY <1>1, <1>2, <1>3, <1>10 DEF IndInv4

LEMMA NoViolB == ASSUME viol' = {} PROVE NoCollateral'
  BY DEF NoCollateral, Fails

THEOREM StepInd4 == IndInv4 /\ [Next]_vars => IndInv4'
<1> SUFFICES ASSUME IndInv4, [Next]_vars PROVE IndInv4'  OBVIOUS
<1>i. IndInv3 /\ IndInv3' /\ IndInv /\ IndInv'  BY StepInd3, StepInd DEF IndInv4, IndInv3, IndInv2
<1>0. Pair(c, CfgN, now, closed, s, n)  BY <1>i, PairOfInv
<1>a. /\ CfgOK(c) /\ closed \subseteq Conns /\ now \in Nat /\ StateOK(s, c, now, closed) /\ c.fix \in BOOLEAN
      /\ RefOK(gh.ref, gh.dirty, c, now, closed, s)
  BY <1>i DEF IndInv, IndInv4, CfgOK
<1>b. /\ (~c.fix => Peek(gh.gfaith, now, 4 * c.G, c.gB) = GTok(s, c, now))
      /\ (c.fix => Peek(gh.gref, now, 4 * c.G, c.gB) = GTok(s, c, now))
  BY DEF IndInv4, IndInv3, FaithIsGlobal, FixedGlobalIsRef, FixOrder, Cfg
<1>c. GTok(s, c, now) \in Int  BY <1>a, TokRange
<1>1. CASE Tick
  <2>1. c' = c /\ s' = s /\ closed' = closed /\ now' = now + 1 /\ gh' = gh /\ viol' = {}  BY <1>1 DEF Tick
  <2>2. RefOK(gh.ref, gh.dirty, c, now + 1, closed, s)  BY <1>a, RefTick
  <2> QED BY <1>i, <2>1, <2>2, NoViolB DEF IndInv4
<1>2. ASSUME NEW k \in Conns, Request(k) PROVE IndInv4'
  <2> DEFINE ip == ConnIP(k)
             r  == AllowRequestStep(s, c, now, ip, k, c.fix)
             rn == AllowRequestStep(n, CfgN, now, ip, k, c.fix)
             g  == GhostStep(gh, c, now, "req", ip, k, "-", r.ok, rn.ok, s.g, r.s.g, Known)
             O  == Own(c, "req", ip, k, "-")
  <2>1. k \in Conns \ closed /\ ip \in IPs  BY <1>2, <1>a DEF Request, ConnIP, IPs
  <2>2. s' = r.s /\ c' = c /\ now' = now /\ closed' = closed /\ gh' = g.gh /\ viol' = g.fails
    BY <1>2 DEF Request, Cfg, FixOrder
  <2>3. StateOK(r.s, c, now, closed) /\ r.ok \in BOOLEAN /\ RequestEffect(s, c, now, ip, k, c.fix, r)
    BY <1>a, <2>1, RequestChar
  <2>4. /\ RefOK(RefNext(gh.ref, gh.dirty, c, now, O), DirtyNext(gh.ref, gh.dirty, c, now, O), c, now, closed, r.s)
        /\ O \cap DirtyNext(gh.ref, gh.dirty, c, now, O) = {} =>
              (IpTok(s, c, now, ip) >= 16 /\ (c.connR4 = 0 \/ ConnTok(s, c, now, k) >= 16))
    BY <1>a, <2>1, RefRequest
  <2>5. /\ g.gh.dirty = DirtyNext(gh.ref, gh.dirty, c, now, O)
        /\ g.gh.ref = RefNext(gh.ref, gh.dirty, c, now, O)
        /\ (\E f \in g.fails : f.why = WhyB) =>
              /\ ~r.ok /\ O \cap DirtyNext(gh.ref, gh.dirty, c, now, O) = {}
              /\ Peek(gh.gref, now, 4 * c.G, c.gB) >= 16
              /\ ~(DevGlobal \in Known /\ Peek(gh.gfaith, now, 4 * c.G, c.gB) < 16)
        /\ (\E f \in g.fails : f.why = WhyBop) => "req" = "op"
    <3> HIDE DEF r, rn, ip
    <3> QED BY GhostRef
  <2> HIDE DEF r, rn, ip, g, O
  <2>6. RefOK(g.gh.ref, g.gh.dirty, c, now, closed, r.s)  BY <2>4, <2>5
  <2>7. (c.fix \/ DevGlobal \in KnownDeviations) => ~(\E f \in g.fails : f.why = WhyB)
    <3> SUFFICES ASSUME c.fix \/ DevGlobal \in KnownDeviations, \E f \in g.fails : f.why = WhyB PROVE FALSE  OBVIOUS
    <3>1. /\ ~r.ok /\ IpTok(s, c, now, ip) >= 16 /\ (c.connR4 = 0 \/ ConnTok(s, c, now, k) >= 16)
          /\ Peek(gh.gref, now, 4 * c.G, c.gB) >= 16
          /\ ~(DevGlobal \in Known /\ Peek(gh.gfaith, now, 4 * c.G, c.gB) < 16)
      BY <2>4, <2>5
    <3>2. ~(GTok(s, c, now) >= 16)  BY <3>1, <2>3 DEF RequestEffect
    <3>3. CASE c.fix  BY <3>3, <3>1, <3>2, <1>b
    <3>4. CASE ~c.fix
      <4>1. DevGlobal \in Known  BY <3>4, <1>a DEF Known
      <4>2. Peek(gh.gfaith, now, 4 * c.G, c.gB) < 16  BY <3>4, <3>2, <1>b, <1>c
      <4> QED BY <4>1, <4>2, <3>1
    <3> QED BY <3>3, <3>4
  <2>8. ~(\E f \in g.fails : f.why = WhyBop)  BY <2>5
  <2> QED BY <1>i, <2>2, <2>6, <2>7, <2>8 DEF IndInv4, NoCollateral, Fails
<1>3. ASSUME NEW i \in IPs, NEW o \in OpTypes, Operation(i, o) PROVE IndInv4'
  <2> DEFINE r  == AllowOperationStep(s, c, now, i, o)
             rn == AllowOperationStep(n, CfgN, now, i, o)
             g  == GhostStep(gh, c, now, "op", i, "-", o, r.ok, rn.ok, s.g, r.s.g, Known)
             O  == Own(c, "op", i, "-", o)
  <2>2. s' = r.s /\ c' = c /\ now' = now /\ closed' = closed /\ gh' = g.gh /\ viol' = g.fails
    BY <1>3 DEF Operation, Cfg
  <2>3. r.ok = (OpTok(s, c, now, i, o) >= 16)  BY <1>a, OpStepChar
  <2>4. /\ RefOK(RefNext(gh.ref, gh.dirty, c, now, O), DirtyNext(gh.ref, gh.dirty, c, now, O), c, now, closed, r.s)
        /\ O \cap DirtyNext(gh.ref, gh.dirty, c, now, O) = {} => OpTok(s, c, now, i, o) >= 16
    BY <1>a, RefOperation
  <2>5. /\ g.gh.dirty = DirtyNext(gh.ref, gh.dirty, c, now, O)
        /\ g.gh.ref = RefNext(gh.ref, gh.dirty, c, now, O)
        /\ (\E f \in g.fails : f.why = WhyB) => "op" = "req"
        /\ (\E f \in g.fails : f.why = WhyBop) => (~r.ok /\ O \cap DirtyNext(gh.ref, gh.dirty, c, now, O) = {})
    <3> HIDE DEF r, rn
    <3> QED BY GhostRef
  <2> HIDE DEF r, rn, g, O
  <2>6. RefOK(g.gh.ref, g.gh.dirty, c, now, closed, r.s)  BY <2>4, <2>5
  <2>7. ~(\E f \in g.fails : f.why = WhyB)  BY <2>5
  <2>8. ~(\E f \in g.fails : f.why = WhyBop)  BY <2>3, <2>4, <2>5
  <2> QED BY <1>i, <2>2, <2>6, <2>7, <2>8 DEF IndInv4, NoCollateral, Fails
<1>4. ASSUME NEW k \in Conns, CloseConn(k) PROVE IndInv4'
  <2> DEFINE s1 == [s EXCEPT !.conn = Without(@, {k})]
             cl == closed \cup {k}
  <2>1. s' = s1 /\ closed' = cl /\ c' = c /\ now' = now /\ gh' = gh /\ viol' = {}  BY <1>4 DEF CloseConn, CloseConnStep
  <2>2. s1.g = s.g /\ s1.ip = s.ip /\ s1.op = s.op /\ s1.conn = Without(s.conn, {k})  BY <1>a DEF StateOK
  <2> HIDE DEF s1
  <2>4. \A j \in IPs : IpTok(s1, c, now, j) = IpTok(s, c, now, j)  BY <2>2 DEF IpTok
  <2>5. \A j \in IPs : \A p \in OpTypes : OpTok(s1, c, now, j, p) = OpTok(s, c, now, j, p)  BY <2>2 DEF OpTok
  <2>6. \A j \in Conns \ cl : ConnTok(s1, c, now, j) = ConnTok(s, c, now, j)  BY <2>2 DEF ConnTok, Without
  <2>7. RefOK(gh.ref, gh.dirty, c, now, cl, s1)  BY <1>a, <2>4, <2>5, <2>6, RefSameViews
  <2> QED BY <1>i, <2>1, <2>7, NoViolB DEF IndInv4
<1>5. ASSUME NEW i \in IPs, AllocFH(i) PROVE IndInv4'
  <2> DEFINE r == AllocFHStep(s, c, i)
  <2>1. s' = r.s /\ c' = c /\ now' = now /\ closed' = closed /\ gh' = gh /\ viol' = {}  BY <1>5 DEF AllocFH, Cfg
  <2>2. r.s.g = s.g /\ r.s.ip = s.ip /\ r.s.conn = s.conn /\ r.s.op = s.op  BY <1>a, AllocFHChar
  <2> HIDE DEF r
  <2>3. RefOK(gh.ref, gh.dirty, c, now, closed, r.s)
    BY <1>a, <2>2, RefSameViews DEF IpTok, ConnTok, OpTok
  <2> QED BY <1>i, <2>1, <2>3, NoViolB DEF IndInv4
<1>6. ASSUME NEW i \in IPs, ReleaseFH(i) PROVE IndInv4'
  <2> DEFINE r == ReleaseFHStep(s, i)
  <2>1. s' = r /\ c' = c /\ now' = now /\ closed' = closed /\ gh' = gh /\ viol' = {}  BY <1>6 DEF ReleaseFH
  <2>2. r.g = s.g /\ r.ip = s.ip /\ r.conn = s.conn /\ r.op = s.op  BY <1>a, ReleaseFHChar
  <2> HIDE DEF r
  <2>3. RefOK(gh.ref, gh.dirty, c, now, closed, r)
    BY <1>a, <2>2, RefSameViews DEF IpTok, ConnTok, OpTok
  <2> QED BY <1>i, <2>1, <2>3, NoViolB DEF IndInv4
<1>7. ASSUME NEW S \in SUBSET IPs, CleanupIP(S) PROVE IndInv4'
  <2> DEFINE s1 == [s EXCEPT !.ip = Without(@, S)]
  <2>1. s' = s1 /\ c' = c /\ now' = now /\ closed' = closed /\ gh' = gh /\ viol' = {} /\ S \in SUBSET IpIdle(s, c, now)
    BY <1>7 DEF CleanupIP, Cfg
  <2>2. /\ \A j \in IPs : IpTok(s1, c, now, j) = IpTok(s, c, now, j)
        /\ s1.g = s.g /\ s1.conn = s.conn /\ s1.op = s.op
    BY <1>a, <2>1, DropIdleIp
  <2> HIDE DEF s1
  <2>3. RefOK(gh.ref, gh.dirty, c, now, closed, s1)
    BY <1>a, <2>2, RefSameViews DEF ConnTok, OpTok
  <2> QED BY <1>i, <2>1, <2>3, NoViolB DEF IndInv4
<1>8. ASSUME NEW S \in SUBSET IPs, CleanupOp(S) PROVE IndInv4'
  <2> DEFINE s1 == [s EXCEPT !.op = Without(@, S)]
  <2>1. s' = s1 /\ c' = c /\ now' = now /\ closed' = closed /\ gh' = gh /\ viol' = {} /\ S \in SUBSET OpIdle(s, c, now)
    BY <1>8 DEF CleanupOp, Cfg
  <2>2. /\ \A j \in IPs : \A o \in OpTypes : OpTok(s1, c, now, j, o) = OpTok(s, c, now, j, o)
        /\ s1.g = s.g /\ s1.conn = s.conn /\ s1.ip = s.ip
    BY <1>a, <2>1, DropIdleOp
  <2> HIDE DEF s1
  <2>3. RefOK(gh.ref, gh.dirty, c, now, closed, s1)
    BY <1>a, <2>2, RefSameViews DEF ConnTok, IpTok
  <2> QED BY <1>i, <2>1, <2>3, NoViolB DEF IndInv4
<1>9. CASE UNCHANGED vars
  BY <1>i, <1>9 DEF vars, IndInv4, NoCollateral, Fails
<1> QED BY <1>1, <1>2, <1>3, <1>4, <1>5, <1>6, <1>7, <1>8, <1>9 DEF Next

\* every invariant ALL_INV lists for TLC (checks/ratelimit_common.py)
THEOREM Ind4ImpliesListed ==
  IndInv4 => /\ TypeOK /\ FHBounded /\ AbsentIsFull
             /\ BurstPlusRate /\ CleanupInvisible /\ (FixOrder => RefusedIsFree)
             /\ FaithIsGlobal /\ FixedGlobalIsRef
             /\ ((FixOrder \/ DevGlobal \in KnownDeviations) => NoCollateral)
  BY Ind3ImpliesListed DEF IndInv4, FixOrder
=============================================================================

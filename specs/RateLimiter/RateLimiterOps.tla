--------------------------- MODULE RateLimiterOps ---------------------------
(***************************************************************************)
(* Pure transcription of rate_limiter.go (TokenBucket, PerIPLimiter,        *)
(* PerOperationLimiter, RateLimiter.AllowRequest / AllowOperation /         *)
(* CleanupConnection) as functions over state records, and the ideal-level  *)
(* ghost (what C18 / C19 state) as one more pure function.  Shared by the   *)
(* design spec (RateLimiter) and the trace spec (RateLimiterTrace), which   *)
(* applies the same operators to *logged* pre-states.                       *)
(*                                                                         *)
(* Units.  Time is counted in ticks of 250 ms.  Tokens are integers in      *)
(* units of 1/16 token.  A rate is given as r4 = rate in 1/4 token per      *)
(* second, so that one tick refills exactly r4 sixteenths; every float64    *)
(* the code computes on such inputs is a dyadic rational it represents      *)
(* exactly, so integer arithmetic here is the code's arithmetic.            *)
(*                                                                         *)
(*   bucket  b = [tok |-> sixteenths, last |-> tick of lastRefill]          *)
(*   config  c = [G : Nat (global tokens/s), gB : Nat (global burst; the    *)
(*                code uses G), ipR4, connR4 : Nat (1/4 token/s),           *)
(*                ipB, connB : Nat (tokens),                                *)
(*                opR4, opB : [optype -> Nat], ci : cleanup interval ticks] *)
(*                fhIP, fhG : file handle quota per IP / global (0 = none)  *)
(*   state   s = [g : bucket, ip : [ip -> bucket], conn : [connID -> bucket]*)
(*                op : [ip -> [optype -> bucket]], iplc, oplc : tick,       *)
(*                fh : [g |-> handles counted, ip |-> [ip -> count]]]       *)
(***************************************************************************)
EXTENDS Integers, FiniteSets, Sequences

Min(a, b) == IF a <= b THEN a ELSE b
EmptyFn == [x \in {} |-> 0]
With(f, k, v) == [x \in (DOMAIN f) \cup {k} |-> IF x = k THEN v ELSE f[x]]
Without(f, S) == [x \in (DOMAIN f) \ S |-> f[x]]

-----------------------------------------------------------------------------
(* TokenBucket *)

\* NewTokenBucket(rate, burst) at time now
Full(B, now) == [tok |-> 16 * B, last |-> now]

\* TokenBucket.Tokens(): refill and cap, no mutation
Peek(b, now, r4, B) == Min(b.tok + (now - b.last) * r4, 16 * B)

\* TokenBucket.Allow(): refill, cap, stamp lastRefill, take one token if there is one
Allow(b, now, r4, B) ==
  LET t == Peek(b, now, r4, B) IN
    IF t >= 16 THEN [ok |-> TRUE,  b |-> [tok |-> t - 16, last |-> now]]
               ELSE [ok |-> FALSE, b |-> [tok |-> t,      last |-> now]]

-----------------------------------------------------------------------------
(* RateLimiter: state and stages *)

InitState(c, now) == [g |-> Full(c.gB, now), ip |-> EmptyFn, conn |-> EmptyFn, op |-> EmptyFn,
                      iplc |-> now, oplc |-> now, fh |-> [g |-> 0, ip |-> EmptyFn]]

\* global stage: rl.globalLimiter.Allow()   (rate = burst = GlobalRequestsPerSecond)
GStage(s, c, now) ==
  LET r == Allow(s.g, now, 4 * c.G, c.gB) IN [ok |-> r.ok, s |-> [s EXCEPT !.g = r.b]]

\* PerIPLimiter.cleanup(): drop limiters whose Tokens() is at the burst (idle ones).
\* (The code stops after 100 deletions per pass; the design spec's free Cleanup action covers
\* every subset, the trace-level function assumes fewer than 100 idle limiters.)
IpIdle(s, c, now) == {i \in DOMAIN s.ip : Peek(s.ip[i], now, c.ipR4, c.ipB) >= 16 * c.ipB}
IpTimedCleanup(s, c, now) ==
  IF now - s.iplc > c.ci THEN [s EXCEPT !.ip = Without(@, IpIdle(s, c, now)), !.iplc = now] ELSE s

\* PerIPLimiter.Allow(ip): timed cleanup, get-or-create, TokenBucket.Allow
IpStage(s, c, now, ip) ==
  LET s1 == IpTimedCleanup(s, c, now)
      b  == IF ip \in DOMAIN s1.ip THEN s1.ip[ip] ELSE Full(c.ipB, now)
      r  == Allow(b, now, c.ipR4, c.ipB)
  IN [ok |-> r.ok, s |-> [s1 EXCEPT !.ip = With(@, ip, r.b)]]

\* per-connection stage: only when PerConnectionRequestsPerSecond > 0; sync.Map get-or-create
ConnStage(s, c, now, conn) ==
  IF c.connR4 <= 0 THEN [ok |-> TRUE, s |-> s]
  ELSE LET b == IF conn \in DOMAIN s.conn THEN s.conn[conn] ELSE Full(c.connB, now)
           r == Allow(b, now, c.connR4, c.connB)
       IN [ok |-> r.ok, s |-> [s EXCEPT !.conn = With(@, conn, r.b)]]

\* RateLimiter.AllowRequest(ip, connID).
\*   fix = FALSE: the pinned order (global, per IP, per connection): every stage that is reached
\*                charges its bucket even when a later stage refuses (finding F11).
\*   fix = TRUE : the repaired order (per connection, per IP, global last): a request refused by
\*                its own limits never reaches a bucket it shares with others.
AllowRequestStep(s, c, now, ip, conn, fix) ==
  IF ~fix THEN
    LET g == GStage(s, c, now) IN
    IF ~g.ok THEN [ok |-> FALSE, s |-> g.s, stage |-> "global"] ELSE
    LET i == IpStage(g.s, c, now, ip) IN
    IF ~i.ok THEN [ok |-> FALSE, s |-> i.s, stage |-> "ip"] ELSE
    LET k == ConnStage(i.s, c, now, conn) IN
    [ok |-> k.ok, s |-> k.s, stage |-> IF k.ok THEN "admit" ELSE "conn"]
  ELSE
    LET k == ConnStage(s, c, now, conn) IN
    IF ~k.ok THEN [ok |-> FALSE, s |-> k.s, stage |-> "conn"] ELSE
    LET i == IpStage(k.s, c, now, ip) IN
    IF ~i.ok THEN [ok |-> FALSE, s |-> i.s, stage |-> "ip"] ELSE
    LET g == GStage(i.s, c, now) IN
    [ok |-> g.ok, s |-> g.s, stage |-> IF g.ok THEN "admit" ELSE "global"]

\* PerOperationLimiter.cleanup(): drop an IP when every bucket it has is at its burst
OpIdle(s, c, now) ==
  {i \in DOMAIN s.op : \A o \in DOMAIN s.op[i] : Peek(s.op[i][o], now, c.opR4[o], c.opB[o]) >= 16 * c.opB[o]}
OpTimedCleanup(s, c, now) ==
  IF now - s.oplc > c.ci THEN [s EXCEPT !.op = Without(@, OpIdle(s, c, now)), !.oplc = now] ELSE s

\* RateLimiter.AllowOperation(ip, opType) = PerOperationLimiter.Allow
AllowOperationStep(s, c, now, ip, o) ==
  LET s1 == OpTimedCleanup(s, c, now)
      m  == IF ip \in DOMAIN s1.op THEN s1.op[ip] ELSE EmptyFn
      b  == IF o \in DOMAIN m THEN m[o] ELSE Full(c.opB[o], now)
      r  == Allow(b, now, c.opR4[o], c.opB[o])
  IN [ok |-> r.ok, s |-> [s1 EXCEPT !.op = With(@, ip, With(m, o, r.b))], stage |-> IF r.ok THEN "admit" ELSE "op"]

\* RateLimiter.CleanupConnection(connID)
CloseConnStep(s, conn) == [s EXCEPT !.conn = Without(@, {conn})]

\* RateLimiter.AllocateFileHandle(ip) / ReleaseFileHandle(ip): the file handle quota kept by the same
\* object (one critical section each, fileHandlesMu).  No property of the catalogue speaks about it and
\* no handler calls it in the pinned tree; it is transcribed so that the module covers the component.
\* (LoadOrStore leaves a zero entry behind when the per-IP check refuses.)
AllocFHStep(s, c, ip) ==
  IF c.fhG > 0 /\ s.fh.g >= c.fhG THEN [ok |-> FALSE, s |-> s]
  ELSE IF c.fhIP > 0 THEN
         LET cnt == IF ip \in DOMAIN s.fh.ip THEN s.fh.ip[ip] ELSE 0 IN
         IF cnt >= c.fhIP THEN [ok |-> FALSE, s |-> [s EXCEPT !.fh.ip = With(@, ip, cnt)]]
         ELSE [ok |-> TRUE, s |-> [s EXCEPT !.fh = [g |-> @.g + 1, ip |-> With(@.ip, ip, cnt + 1)]]]
  ELSE [ok |-> TRUE, s |-> [s EXCEPT !.fh.g = @ + 1]]
ReleaseFHStep(s, ip) ==
  [s EXCEPT !.fh = [g  |-> IF @.g > 0 THEN @.g - 1 ELSE 0,
                    ip |-> IF ip \in DOMAIN @.ip /\ @.ip[ip] > 0 THEN With(@.ip, ip, @.ip[ip] - 1) ELSE @.ip]]

-----------------------------------------------------------------------------
(* Cleanup is invisible: absent bucket == full bucket.                      *)
(* View(s) maps a state to what any future decision can depend on: the      *)
(* refilled content of every possible bucket at time now, an absent bucket  *)
(* counting as a full one.                                                  *)
IpTok(s, c, now, i) == IF i \in DOMAIN s.ip THEN Peek(s.ip[i], now, c.ipR4, c.ipB) ELSE 16 * c.ipB
ConnTok(s, c, now, k) == IF k \in DOMAIN s.conn THEN Peek(s.conn[k], now, c.connR4, c.connB) ELSE 16 * c.connB
OpTok(s, c, now, i, o) == IF i \in DOMAIN s.op /\ o \in DOMAIN s.op[i]
                          THEN Peek(s.op[i][o], now, c.opR4[o], c.opB[o]) ELSE 16 * c.opB[o]
GTok(s, c, now) == Peek(s.g, now, 4 * c.G, c.gB)
SameView(s1, s2, c, now, ips, conns, ops) ==
  /\ GTok(s1, c, now) = GTok(s2, c, now)
  /\ \A i \in ips : IpTok(s1, c, now, i) = IpTok(s2, c, now, i)
  /\ \A k \in conns : ConnTok(s1, c, now, k) = ConnTok(s2, c, now, k)
  /\ \A i \in ips : \A o \in ops : OpTok(s1, c, now, i, o) = OpTok(s2, c, now, i, o)

-----------------------------------------------------------------------------
(* Ideal level: what C18 and C19 state, as a ghost carried next to any run  *)
(* (of the model or of the real code).  It sees only: the configuration,    *)
(* the time, who asked for what, the decision, the decision of the twin     *)
(* instance that never cleans up, and the content of the global bucket      *)
(* before and after (for the first sentence of C19).                        *)
(*                                                                         *)
(*   limiter names  <<"g","-","-">>  <<"ip",ip,"-">>  <<"conn",id,"-">>     *)
(*                  <<"op",ip,optype>>                                      *)
(*   gh = [ref    : reference bucket per own limiter, charged with ALL the  *)
(*                  traffic sent under that key (admitted or not), kept     *)
(*                  while that traffic is within the limit,                 *)
(*         dirty  : own limiters whose sent traffic exceeded them once,     *)
(*         ub     : per limiter, burst + rate x (now - first use) - admits  *)
(*                  as an uncapped bucket (rule (a) is: never below zero),  *)
(*         gref   : global reference bucket charged with ADMITTED requests, *)
(*         gfaith : global bucket charged as the pinned order does (F11)]   *)
(***************************************************************************)
LG == <<"g", "-", "-">>
LIp(i) == <<"ip", i, "-">>
LConn(k) == <<"conn", k, "-">>
LOp(i, o) == <<"op", i, o>>

R4Of(c, L) == CASE L[1] = "g" -> 4 * c.G [] L[1] = "ip" -> c.ipR4
                [] L[1] = "conn" -> c.connR4 [] OTHER -> c.opR4[L[3]]
BOf(c, L)  == CASE L[1] = "g" -> c.gB [] L[1] = "ip" -> c.ipB
                [] L[1] = "conn" -> c.connB [] OTHER -> c.opB[L[3]]

\* uncapped refill: burst + rate x elapsed - admitted, in sixteenths
PeekU(b, now, r4) == b.tok + (now - b.last) * r4

DevGlobal == "Dev_RefusedTrafficChargesGlobal"

WhyA    == "admitted more than burst + rate x elapsed"
WhyB    == "client within all its limits refused while the global budget has room"
WhyBop  == "client within its per-operation limit refused"
WhyFree == "request subject to no rate limit refused"
WhyC    == "cleanup changed an admit/deny decision"
WhyD    == "refused request consumed global capacity"

GhostInit(c, now) == [ref |-> EmptyFn, dirty |-> {}, ub |-> With(EmptyFn, LG, Full(c.gB, now)),
                      gref |-> Full(c.gB, now), gfaith |-> Full(c.gB, now)]

\* kind: "req" (AllowRequest: global + per IP + per connection), "op" (AllowOperation: one
\* per-operation limiter), "free" (a request no limiter applies to, e.g. a small READ)
GhostStep(gh, c, now, kind, ip, conn, o, dec, decn, gPre, gPost, known) ==
  LET own  == CASE kind = "req" -> {LIp(ip)} \cup (IF c.connR4 > 0 THEN {LConn(conn)} ELSE {})
                [] kind = "op"  -> {LOp(ip, o)}
                [] OTHER        -> {}
      allL == own \cup (IF kind = "req" THEN {LG} ELSE {})
      \* reference buckets of the client's own limits, charged with everything it sends; a client
      \* is within a limit as long as every request it ever sent found a token there
      clean   == own \ gh.dirty
      refB(L) == IF L \in DOMAIN gh.ref THEN gh.ref[L] ELSE Full(BOf(c, L), now)
      refA(L) == Allow(refB(L), now, R4Of(c, L), BOf(c, L))
      dirty1  == gh.dirty \cup {L \in clean : ~refA(L).ok}
      ref1    == [L \in ((DOMAIN gh.ref) \cup clean) \ dirty1 |-> IF L \in clean THEN refA(L).b ELSE gh.ref[L]]
      within  == own \cap dirty1 = {}
      \* rule (a): admits per limiter since its first use never exceed burst + rate x elapsed
      ubB(L)  == IF L \in DOMAIN gh.ub THEN gh.ub[L] ELSE Full(BOf(c, L), now)
      ubT(L)  == PeekU(ubB(L), now, R4Of(c, L))
      over    == IF dec THEN {L \in allL : ubT(L) < 16} ELSE {}
      ub1     == [L \in (DOMAIN gh.ub) \cup allL |->
                    IF L \in allL THEN [tok |-> ubT(L) - (IF dec THEN 16 ELSE 0), last |-> now] ELSE gh.ub[L]]
      \* rule (b): the global budget as the property counts it (admitted requests only)
      grefT   == Peek(gh.gref, now, 4 * c.G, c.gB)
      room    == grefT >= 16
      gref1   == IF kind = "req" THEN [tok |-> grefT - (IF dec THEN 16 ELSE 0), last |-> now] ELSE gh.gref
      gfT     == Peek(gh.gfaith, now, 4 * c.G, c.gB)
      gfaith1 == IF kind = "req" THEN [tok |-> gfT - (IF gfT >= 16 THEN 16 ELSE 0), last |-> now] ELSE gh.gfaith
      failB   == kind = "req" /\ ~dec /\ within /\ room
      devB    == failB /\ DevGlobal \in known /\ gfT < 16
      failBo  == kind \in {"op", "free"} /\ ~dec /\ within
      \* C19, first sentence: a refused request leaves the global bucket as it was
      gPreT   == Peek(gPre, now, 4 * c.G, c.gB)
      gPostT  == Peek(gPost, now, 4 * c.G, c.gB)
      failD   == kind = "req" /\ ~dec /\ gPostT < gPreT
      devD    == failD /\ DevGlobal \in known /\ gPostT = gPreT - 16
      fails   == {[why |-> WhyA, lim |-> L] : L \in over}
                 \cup (IF failB /\ ~devB THEN {[why |-> WhyB, lim |-> LG]} ELSE {})
                 \cup (IF failBo THEN {[why |-> (IF kind = "op" THEN WhyBop ELSE WhyFree), lim |-> LOp(ip, o)]} ELSE {})
                 \cup (IF dec # decn THEN {[why |-> WhyC, lim |-> LG]} ELSE {})
                 \cup (IF failD /\ ~devD THEN {[why |-> WhyD, lim |-> LG]} ELSE {})
      devs    == (IF devB \/ devD THEN {DevGlobal} ELSE {})
  IN [gh |-> [ref |-> ref1, dirty |-> dirty1, ub |-> ub1, gref |-> gref1, gfaith |-> gfaith1],
      fails |-> fails, devs |-> devs, within |-> within, room |-> room]

-----------------------------------------------------------------------------
(* Normal forms for exhaustive exploration.  What a bucket will ever do     *)
(* depends only on its refilled content now (min(cap, min(cap, x) + y) =    *)
(* min(cap, x + y) for y >= 0), so two states that agree after refilling    *)
(* every bucket to `now` are bisimilar; the design spec uses these as VIEW. *)
NormB(b, now, r4, B) == [tok |-> Peek(b, now, r4, B), last |-> now]
NormState(s, c, now) ==
  [g    |-> NormB(s.g, now, 4 * c.G, c.gB),
   ip   |-> [i \in DOMAIN s.ip |-> NormB(s.ip[i], now, c.ipR4, c.ipB)],
   conn |-> [k \in DOMAIN s.conn |-> NormB(s.conn[k], now, c.connR4, c.connB)],
   op   |-> [i \in DOMAIN s.op |-> [o \in DOMAIN s.op[i] |-> NormB(s.op[i][o], now, c.opR4[o], c.opB[o])]],
   iplc |-> s.iplc, oplc |-> s.oplc, fh |-> s.fh]
NormGhost(gh, c, now) ==
  [ref    |-> [L \in DOMAIN gh.ref |-> NormB(gh.ref[L], now, R4Of(c, L), BOf(c, L))],
   dirty  |-> gh.dirty,
   ub     |-> [L \in DOMAIN gh.ub |-> [tok |-> PeekU(gh.ub[L], now, R4Of(c, L)), last |-> now]],
   gref   |-> NormB(gh.gref, now, 4 * c.G, c.gB),
   gfaith |-> NormB(gh.gfaith, now, 4 * c.G, c.gB)]

=============================================================================

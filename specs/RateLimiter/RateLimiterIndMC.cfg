\* TLC cross-check of RateLimiterInd: evaluates the two ASSUMEs (ConstAssm, ConfigsOK - the one fact TLAPS cannot
\* derive) on this model's constants and checks the strengthened invariant IndInv4 on every reachable state.
SPECIFICATION Spec
CONSTANTS
  Conns1 = {"c1"}
  Conns2 = {"c3"}
  OpTypes = {"read"}
  GSet = {1, 2}
  IpR4Set = {0, 4}
  IpBSet = {1}
  ConnR4Set = {0, 1}
  ConnBSet = {1}
  OpR4Set = {0, 4}
  OpBurstSet = {1}
  CISet = {0, 100}
  FhIPSet = {0, 1}
  FhGSet = {0, 2}
  Modes = {"req", "op", "fh"}
  Horizon = 2
  OpHorizon = 2
  FixSet = {FALSE, TRUE}
  KnownDeviations = {"Dev_RefusedTrafficChargesGlobal"}
VIEW View
INVARIANTS IndInv4

----------------------------- MODULE RateLimiter -----------------------------
(***************************************************************************)
(* Rate limiting of absnfs (rate_limiter.go; used by server.go             *)
(* handleConnectionLoop and by the READ / WRITE / READDIR(PLUS) / MNT       *)
(* handlers).                                                               *)
(*                                                                         *)
(* Abstract state: integer token buckets (global, per IP, per connection,   *)
(* per IP and operation type) in 1/16 token on a clock of 250 ms ticks.     *)
(*   s   the limiter as the code keeps it (buckets created at first use,    *)
(*       refilled lazily, periodic cleanup of idle buckets)                 *)
(*   n   a twin that receives the same calls and never cleans up            *)
(*   c   the configuration, chosen in the initial state                     *)
(*   gh  the ideal-level ghost (RateLimiterOps!GhostStep): reference        *)
(*       buckets, admit counters, the global budget charged with admitted   *)
(*       requests only                                                      *)
(*                                                                         *)
(* Impl level: one action per call of the limiter API, each one the exact   *)
(* transcription in RateLimiterOps (every stage of AllowRequest locks,      *)
(* refills, charges and unlocks one bucket; the stages of one call are      *)
(* atomic here because the properties quantify over sequential timing       *)
(* sequences).  Cleanup additionally exists as a free action that removes   *)
(* any set of idle buckets at any time (covers every CleanupInterval and    *)
(* the 100-deletions bound of PerIPLimiter.cleanup).                        *)
(*                                                                         *)
(* Ideal level: rules (a) (b) (c) of C18 and C19 as the ghost evaluates     *)
(* them on (time, key, decision); `viol` holds the failures of the last     *)
(* step.                                                                    *)
(***************************************************************************)
EXTENDS RateLimiterOps, TLC

CONSTANTS Conns1, Conns2,        \* connection ids of client address "ip1" / "ip2"
          OpTypes,               \* operation types exercised (subset of the four)
          GSet,                  \* GlobalRequestsPerSecond (rate and burst of the global bucket)
          IpR4Set, IpBSet,       \* per-IP rate in 1/4 token per second / burst
          ConnR4Set, ConnBSet,   \* per-connection rate / burst (rate 0: no per-connection limit)
          OpR4Set, OpBurstSet,   \* per-operation rate in 1/4 token per second / burst
          CISet,                 \* CleanupInterval in ticks (timed cleanup inside Allow)
          FhIPSet, FhGSet,       \* file handle quota per IP / global (0 = no quota)
          Modes,                 \* subset of {"req", "op", "fh"}: AllowRequest / AllowOperation / file handle quota histories
          Horizon, OpHorizon,    \* exploration bound on the clock (request histories / operation histories)
          FixSet,                \* AllowRequest orders explored: FALSE = pinned order, TRUE = repaired order (F11)
          KnownDeviations        \* deviations the ghost may use to explain a failure of the pinned order

IPs == {"ip1", "ip2"}
Conns == Conns1 \cup Conns2
ConnIP(k) == IF k \in Conns1 THEN "ip1" ELSE "ip2"
SetMin(S) == CHOOSE x \in S : \A y \in S : x <= y

\* "for all rate/burst configurations": the configuration (and which AllowRequest order is
\* modelled) is chosen in the initial state from the product of the constant sets (a burst that
\* no limiter uses is not varied)
\* AllowRequest and AllowOperation share no state (separate limiters, separate locks), so a history
\* exercises one of them ("mode"); the parameters the other one would use are not varied.
Configs ==
  LET all == {[G |-> g, gB |-> g, ipR4 |-> ir, ipB |-> ib, connR4 |-> cr, connB |-> cb,
               opR4 |-> [o \in OpTypes |-> orr], opB |-> [o \in OpTypes |-> ob], ci |-> ci, fhIP |-> fi, fhG |-> fg,
               fix |-> fx, mode |-> m] :
                g \in GSet, ir \in IpR4Set, ib \in IpBSet, cr \in ConnR4Set, cb \in ConnBSet,
                orr \in OpR4Set, ob \in OpBurstSet, ci \in CISet, fi \in FhIPSet, fg \in FhGSet, fx \in FixSet, m \in Modes}
      reqDefault(x) == /\ x.G = SetMin(GSet) /\ x.ipR4 = SetMin(IpR4Set) /\ x.ipB = SetMin(IpBSet)
                       /\ x.connR4 = SetMin(ConnR4Set) /\ x.connB = SetMin(ConnBSet)
                       /\ x.fix = (CHOOSE b \in FixSet : \A b2 \in FixSet : b => b2)
      opDefault(x)  == \A o \in OpTypes : x.opR4[o] = SetMin(OpR4Set) /\ x.opB[o] = SetMin(OpBurstSet)
      fhDefault(x)  == x.fhIP = SetMin(FhIPSet) /\ x.fhG = SetMin(FhGSet)
  IN {x \in all : /\ (x.connR4 > 0 \/ x.connB = SetMin(ConnBSet))
                   /\ (x.mode = "req" => opDefault(x) /\ fhDefault(x))
                   /\ (x.mode = "op" => reqDefault(x) /\ fhDefault(x))
                   /\ (x.mode = "fh" => /\ reqDefault(x) /\ opDefault(x) /\ x.ci = SetMin(CISet)
                                         /\ (x.fhIP > 0 \/ x.fhG > 0))}   \* (no quota at all: the counter is unbounded)

VARIABLES c, now, s, n, gh, closed, viol, last
vars == <<c, now, s, n, gh, closed, viol, last>>

Cfg  == c
FixOrder == c.fix
Known == IF c.fix THEN {} ELSE KnownDeviations
CfgN == [c EXCEPT !.ci = Horizon + OpHorizon + 1]    \* the twin never reaches its cleanup interval

Init == /\ c \in Configs
        /\ now = 0
        /\ s = InitState(c, 0) /\ n = InitState(c, 0)
        /\ gh = GhostInit(c, 0)
        /\ closed = {}
        /\ viol = {}
        /\ last = [kind |-> "init", ip |-> "-", conn |-> "-", op |-> "-", dec |-> TRUE, stage |-> "-"]

Tick == /\ now < (CASE c.mode = "op" -> OpHorizon [] c.mode = "fh" -> 0 [] OTHER -> Horizon)
        /\ now' = now + 1
        /\ UNCHANGED <<c, s, n, gh, closed>>
        /\ viol' = {} /\ last' = [last EXCEPT !.kind = "tick"]

\* one request arrives on connection k: server.go handleConnectionLoop -> AllowRequest(ip, connID)
Request(k) ==
  /\ k \notin closed
  /\ LET ip == ConnIP(k)
         r  == AllowRequestStep(s, Cfg, now, ip, k, FixOrder)
         rn == AllowRequestStep(n, CfgN, now, ip, k, FixOrder)
         g  == GhostStep(gh, Cfg, now, "req", ip, k, "-", r.ok, rn.ok, s.g, r.s.g, Known)
     IN /\ s' = r.s /\ n' = rn.s /\ gh' = g.gh /\ viol' = g.fails
        /\ last' = [kind |-> "req", ip |-> ip, conn |-> k, op |-> "-", dec |-> r.ok, stage |-> r.stage]
  /\ UNCHANGED <<c, now, closed>>

\* a handler asks for one operation token: AllowOperation(ip, opType)
Operation(ip, o) ==
  /\ LET r  == AllowOperationStep(s, Cfg, now, ip, o)
         rn == AllowOperationStep(n, CfgN, now, ip, o)
         g  == GhostStep(gh, Cfg, now, "op", ip, "-", o, r.ok, rn.ok, s.g, r.s.g, Known)
     IN /\ s' = r.s /\ n' = rn.s /\ gh' = g.gh /\ viol' = g.fails
        /\ last' = [kind |-> "op", ip |-> ip, conn |-> "-", op |-> o, dec |-> r.ok, stage |-> r.stage]
  /\ UNCHANGED <<c, now, closed>>

\* the connection loop ends: CleanupConnection(connID); ids are never reused (nextConnID)
CloseConn(k) ==
  /\ k \notin closed
  /\ closed' = closed \cup {k}
  /\ s' = CloseConnStep(s, k) /\ n' = CloseConnStep(n, k)
  /\ viol' = {} /\ last' = [last EXCEPT !.kind = "close", !.conn = k]
  /\ UNCHANGED <<c, now, gh>>

\* file handle quota: AllocateFileHandle(ip) / ReleaseFileHandle(ip)
AllocFH(ip) ==
  /\ LET r == AllocFHStep(s, Cfg, ip) IN
        /\ s' = r.s /\ n' = AllocFHStep(n, CfgN, ip).s
        /\ last' = [kind |-> "fhalloc", ip |-> ip, conn |-> "-", op |-> "-", dec |-> r.ok, stage |-> "-"]
  /\ viol' = {}
  /\ UNCHANGED <<c, now, gh, closed>>
ReleaseFH(ip) ==
  /\ s' = ReleaseFHStep(s, ip) /\ n' = ReleaseFHStep(n, ip)
  /\ viol' = {} /\ last' = [last EXCEPT !.kind = "fhrel", !.ip = ip]
  /\ UNCHANGED <<c, now, gh, closed>>

\* a cleanup pass at an arbitrary moment removing an arbitrary non-empty set of idle buckets
CleanupIP(S) ==
  /\ S # {} /\ S \subseteq IpIdle(s, Cfg, now)
  /\ s' = [s EXCEPT !.ip = Without(@, S)]
  /\ viol' = {} /\ last' = [last EXCEPT !.kind = "cleanup"]
  /\ UNCHANGED <<c, now, n, gh, closed>>
CleanupOp(S) ==
  /\ S # {} /\ S \subseteq OpIdle(s, Cfg, now)
  /\ s' = [s EXCEPT !.op = Without(@, S)]
  /\ viol' = {} /\ last' = [last EXCEPT !.kind = "cleanup"]
  /\ UNCHANGED <<c, now, n, gh, closed>>

Next == \/ Tick
        \/ c.mode = "req" /\ \E k \in Conns : Request(k) \/ CloseConn(k)
        \/ c.mode = "op" /\ \E i \in IPs : \E o \in OpTypes : Operation(i, o)
        \/ c.mode = "fh" /\ \E i \in IPs : AllocFH(i) \/ ReleaseFH(i)
        \/ \E S \in SUBSET IPs : CleanupIP(S) \/ CleanupOp(S)

Spec == Init /\ [][Next]_vars

-----------------------------------------------------------------------------
(* Ideal level *)
Fails(w) == \E f \in viol : f.why = w

\* C18 (a): no limiter has admitted more than burst + rate x elapsed since its first use
BurstPlusRate == ~Fails(WhyA)
\* C18 (b) / C19: a client within all its own limits is refused only when the global budget,
\* charged with the admitted requests, is empty
NoCollateral == ~Fails(WhyB) /\ ~Fails(WhyBop)
\* C19 first sentence: a refused request consumes no global capacity
RefusedIsFree == ~Fails(WhyD)
\* C18 (c): same decision as the twin that never cleans up ...
CleanupInvisible == ~Fails(WhyC)
\* ... which holds because an absent bucket is indistinguishable from a full one (inductive form)
AbsentIsFull == SameView(s, n, Cfg, now, IPs, Conns, OpTypes)

\* the ghost's global budget under the pinned order: `gfaith` is exactly the code's global bucket,
\* so the deviation's guard (gfaith empty) is the exact failing condition of F11
FaithIsGlobal == ~FixOrder => Peek(gh.gfaith, now, 4 * c.G, c.gB) = GTok(s, Cfg, now)
\* under the repaired order the code's global bucket is the property's global budget
FixedGlobalIsRef == FixOrder => Peek(gh.gref, now, 4 * c.G, c.gB) = GTok(s, Cfg, now)

TypeOK == /\ s.g.tok \in 0..(16 * c.gB) /\ s.g.last \in 0..now
          /\ \A i \in DOMAIN s.ip : s.ip[i].tok \in 0..(16 * c.ipB) /\ s.ip[i].last \in 0..now
          /\ \A k \in DOMAIN s.conn : s.conn[k].tok \in 0..(16 * c.connB) /\ k \notin closed
          /\ \A i \in DOMAIN s.op : DOMAIN s.op[i] # {} /\ \A o \in DOMAIN s.op[i] : s.op[i][o].tok \in 0..(16 * c.opB[o])
          /\ DOMAIN s.ip \subseteq IPs /\ DOMAIN s.conn \subseteq Conns /\ DOMAIN s.op \subseteq IPs
          /\ (c.connR4 = 0 => DOMAIN s.conn = {})

\* the file handle quota is never exceeded (not a property of the catalogue; checked because it is cheap)
FHBounded == /\ (c.fhG > 0 => s.fh.g <= c.fhG)
             /\ (c.fhIP > 0 => \A i \in DOMAIN s.fh.ip : s.fh.ip[i] <= c.fhIP)

\* exhaustive runs hide the observation variable and identify states that differ only in when
\* a bucket was last refilled (RateLimiterOps, normal forms)
View == <<c, now, NormState(s, Cfg, now), NormState(n, CfgN, now), NormGhost(gh, Cfg, now), closed, viol>>
=============================================================================

-------------------------- MODULE RateLimiterTrace --------------------------
(***************************************************************************)
(* Step validation (SV) of recorded behaviours of the real rate limiter     *)
(* (virtual clock) against RateLimiterOps.                                  *)
(*                                                                         *)
(* One ndjson line per call:                                                *)
(*   ev   "reset" (new limiter; carries cfg)  "req" (AllowRequest, directly *)
(*        or through server.go handleConnectionLoop)  "op" (AllowOperation, *)
(*        directly or through a READ/WRITE/READDIR/READDIRPLUS/MNT handler) *)
(*        "free" (a handler request no limiter applies to)  "close"         *)
(*        (CleanupConnection / end of the connection loop)  "fhalloc" /     *)
(*        "fhrel" (AllocateFileHandle / ReleaseFileHandle; impl level only) *)
(*   t    virtual time in ticks of 250 ms since the reset                   *)
(*   ip, conn, op   the key;  dec  the decision;  decn  the decision of the *)
(*        twin instance that got the same calls and never cleans up         *)
(*   st   the in-package bucket contents after the call (tokens x 16)       *)
(*   rlx  increment of the RateLimitExceeded metric during the call         *)
(* Line l-1 carries the pre-state of line l.                                *)
(*                                                                         *)
(*   ideal level - GhostStep: rules (a) (b) (c) of C18, C19  -> bad (verdict)*)
(*   impl level  - st = AllowRequestStep / AllowOperationStep / CloseConnStep*)
(*                 applied to the logged pre-state            -> drift       *)
(* A failing step only the listed deviation explains goes to `dev`.         *)
(* `drift` is capped the same way as `bad` and `dev`.                       *)
(***************************************************************************)
EXTENDS RateLimiterOps, TLC, Json, IOUtils

CONSTANTS KnownDeviations,   \* subset of {"Dev_RefusedTrafficChargesGlobal"}
          FixOrder           \* impl-level model switch (TRUE after fix F11)

TraceLog == ndJsonDeserialize(IOEnv.VF_TRACE)
N == Len(TraceLog)

VARIABLES l,      \* next line to consume
          cfg,    \* configuration of the current history
          gh,     \* ideal-level ghost of the current history
          lvl,    \* level of the current history ("api", "nfs", "conn"; "mut" = corrupted copies)
          bad,    \* set of [l, why, lim]: steps that violate C18 / C19
          dev,    \* set of [l, name]: steps explained only by a known deviation
          drift,  \* set of [l, why]: impl-level mismatches (not a verdict)
          stats
vars == <<l, cfg, gh, lvl, bad, dev, drift, stats>>

-----------------------------------------------------------------------------
Rng(seq) == {seq[i] : i \in DOMAIN seq}
BOfE(e) == [tok |-> e.tok, last |-> e.last]
KeyedOf(arr) == [k \in {e.k : e \in Rng(arr)} |-> BOfE(CHOOSE e \in Rng(arr) : e.k = k)]
OpOf(arr) == [i \in {e.ip : e \in Rng(arr)} |->
                [o \in {e.op : e \in {x \in Rng(arr) : x.ip = i}} |->
                   BOfE(CHOOSE e \in Rng(arr) : e.ip = i /\ e.op = o)]]
StateOf(st) == [g |-> BOfE(st.g), ip |-> KeyedOf(st.ip), conn |-> KeyedOf(st.conn), op |-> OpOf(st.op),
                iplc |-> st.iplc, oplc |-> st.oplc,
                fh |-> [g |-> st.fh.g, ip |-> [k \in {e.k : e \in Rng(st.fh.ip)} |-> (CHOOSE e \in Rng(st.fh.ip) : e.k = k).n]]]
CfgOf(c) == [G |-> c.G, gB |-> c.gB, ipR4 |-> c.ipR4, ipB |-> c.ipB, connR4 |-> c.connR4, connB |-> c.connB,
             opR4 |-> c.opR4, opB |-> c.opB, ci |-> c.ci, fhIP |-> c.fhIP, fhG |-> c.fhG]
NoCfg == [G |-> 0, gB |-> 0, ipR4 |-> 0, ipB |-> 0, connR4 |-> 0, connB |-> 0, opR4 |-> EmptyFn, opB |-> EmptyFn, ci |-> 0, fhIP |-> 0, fhG |-> 0]

Cur  == TraceLog[l]
Pre  == StateOf(TraceLog[l - 1].st)
Post == StateOf(Cur.st)

\* the result keeps at most Keep entries per reason / deviation (the totals are in stats), so
\* that a badly broken limiter costs no more to validate than a correct one
Keep == 24
Fewer(S, field, v) == Cardinality({x \in S : x[field] = v}) < Keep

DriftWhy(ev) == ev \o ": decision or post-state differs from the transcribed step"
Levels == {"mut", "api", "nfs", "conn"}
Counters == {"hist", "req", "op", "free", "close", "fhalloc", "fhrel", "admit", "refuse", "refused_global", "refused_ip", "refused_conn",
             "refused_op", "cleanup_ip", "cleanup_op", "within_admitted", "exceeding_refused", "explained_by_dev",
             "failing_steps", "drifting_steps"}
BumpAll(lv, S) == [stats EXCEPT ![lv] = [k \in Counters |-> @[k] + (IF k \in S THEN 1 ELSE 0)]]

-----------------------------------------------------------------------------
Init == /\ l = 1 /\ cfg = NoCfg /\ gh = GhostInit(NoCfg, 0) /\ lvl = "api"
        /\ bad = {} /\ dev = {} /\ drift = {}
        /\ stats = [lv \in Levels |-> [k \in Counters |-> 0]]

StepReset ==
  /\ Cur.ev = "reset"
  /\ cfg' = CfgOf(Cur.cfg)
  /\ gh' = GhostInit(CfgOf(Cur.cfg), Cur.t)
  /\ drift' = drift \cup (IF StateOf(Cur.st) = InitState(CfgOf(Cur.cfg), Cur.t) /\ Cur.st.inexact = 0 THEN {}
                          ELSE {[l |-> l, why |-> "reset: fresh limiter differs from InitState"]})
  /\ lvl' = IF Cur.level \in Levels THEN Cur.level ELSE "api"
  /\ stats' = BumpAll(lvl', {"hist"})
  /\ UNCHANGED <<bad, dev>>

StepCall ==
  /\ Cur.ev \in {"req", "op", "free"}
  /\ l > 1
  /\ LET cur  == Cur
         pre  == Pre      \* (bound once: every mention of Pre / Post converts the logged arrays again)
         post == Post
         r == CASE cur.ev = "req" -> AllowRequestStep(pre, cfg, cur.t, cur.ip, cur.conn, FixOrder)
                [] cur.ev = "op"  -> AllowOperationStep(pre, cfg, cur.t, cur.ip, cur.op)
                [] OTHER          -> [ok |-> TRUE, s |-> pre, stage |-> "admit"]
         g == GhostStep(gh, cfg, cur.t, cur.ev, cur.ip, cur.conn, cur.op, cur.dec, cur.decn, pre.g, post.g, KnownDeviations)
         agrees == /\ r.ok = cur.dec /\ r.s = post /\ cur.st.inexact = 0 /\ cur.t >= TraceLog[l - 1].t
                   /\ cur.rlx = (IF cur.dec THEN 0 ELSE 1)   \* RateLimitExceeded metric moves with refusals
     IN /\ gh' = g.gh
        /\ bad' = bad \cup {[l |-> l, why |-> f.why, lim |-> f.lim] : f \in {x \in g.fails : Fewer(bad, "why", x.why)}}
        /\ dev' = dev \cup {[l |-> l, name |-> d] : d \in {x \in g.devs : Fewer(dev, "name", x)}}
        /\ drift' = drift \cup (IF agrees \/ ~Fewer(drift, "why", DriftWhy(cur.ev)) THEN {} ELSE {[l |-> l, why |-> DriftWhy(cur.ev)]})
        /\ stats' = BumpAll(lvl, {cur.ev}
                       \cup (IF cur.dec THEN {"admit"} ELSE {"refuse"})
                       \cup (IF agrees /\ ~r.ok THEN {"refused_" \o r.stage} ELSE {})
                       \cup (IF (DOMAIN pre.ip) \ (DOMAIN post.ip) # {} THEN {"cleanup_ip"} ELSE {})
                       \cup (IF (DOMAIN pre.op) \ (DOMAIN post.op) # {} THEN {"cleanup_op"} ELSE {})
                       \cup (IF g.within /\ cur.dec THEN {"within_admitted"} ELSE {})
                       \cup (IF ~g.within /\ ~cur.dec THEN {"exceeding_refused"} ELSE {})
                       \cup (IF g.devs # {} THEN {"explained_by_dev"} ELSE {})
                       \cup (IF g.fails # {} THEN {"failing_steps"} ELSE {})
                       \cup (IF ~agrees THEN {"drifting_steps"} ELSE {}))
  /\ UNCHANGED <<cfg, lvl>>

StepClose ==
  /\ Cur.ev = "close"
  /\ l > 1
  /\ drift' = drift \cup (IF CloseConnStep(Pre, Cur.conn) = Post THEN {}
                          ELSE {[l |-> l, why |-> "close: post-state differs from CloseConnStep(pre)"]})
  /\ stats' = BumpAll(lvl, {"close"})
  /\ UNCHANGED <<cfg, gh, lvl, bad, dev>>

\* file handle quota calls: impl level only (no property speaks about them)
StepFH ==
  /\ Cur.ev \in {"fhalloc", "fhrel"}
  /\ l > 1
  /\ LET pre == Pre
         r == IF Cur.ev = "fhalloc" THEN AllocFHStep(pre, cfg, Cur.ip) ELSE [ok |-> TRUE, s |-> ReleaseFHStep(pre, Cur.ip)]
         why == Cur.ev \o ": post-state or result differs from the transcribed step"
     IN drift' = drift \cup (IF (r.s = Post /\ r.ok = Cur.dec) \/ ~Fewer(drift, "why", why) THEN {} ELSE {[l |-> l, why |-> why]})
  /\ stats' = BumpAll(lvl, {Cur.ev})
  /\ UNCHANGED <<cfg, gh, lvl, bad, dev>>

Consume == /\ l <= N
           /\ l' = l + 1
           /\ (StepReset \/ StepCall \/ StepClose \/ StepFH)

Finish == /\ l = N + 1
          /\ l' = N + 2
          /\ JsonSerialize(IOEnv.VF_RESULT,
                [n |-> N, consumed |-> l - 1, bad |-> bad, dev |-> dev, drift |-> drift,
                 stats |-> stats])
          /\ UNCHANGED <<cfg, gh, lvl, bad, dev, drift, stats>>

Next == Consume \/ Finish
Spec == Init /\ [][Next]_vars
=============================================================================

---------------------------- MODULE TLSPolicyOps ----------------------------
(***************************************************************************)
(* Pure operators of the TLSPolicy family (C30): which TLS settings the    *)
(* server accepts (tls_config.go Validate), which protocol versions the    *)
(* resulting listener speaks (crypto/tls with the MinVersion/MaxVersion    *)
(* BuildConfig passes on), which client certificates each ClientAuth mode  *)
(* lets through, and the outcome of a handshake.  crypto/tls itself is     *)
(* trusted; this is the policy around it.                                  *)
(*                                                                         *)
(* Versions are 10, 11, 12, 13 (TLS 1.0 .. 1.3); 0 = field left unset.      *)
(***************************************************************************)
EXTENDS Integers, FiniteSets, Sequences

Versions == {10, 11, 12, 13}
VerOrUnset == {0} \cup Versions
AuthModes == {"none", "request", "requireAny", "verifyIfGiven", "requireAndVerify"}
\* nothing / self-signed / signed by the configured CA / signed by another private CA /
\* signed by a CA of the host's system trust store that is not the configured CA
CertKinds == {"none", "self", "ca", "other", "public"}

\* cfg = [min, max, auth, ca, skip, suites]
\*   ca: a CAFile is configured; skip: InsecureSkipVerify (a client-side flag of crypto/tls: it has no
\*   meaning for a listener and must not change what the server admits); suites: CipherSuites left
\*   empty ("default") or set to the list of DefaultTLSConfig ("listed", AEAD suites of TLS 1.2)
CfgsOver(skips, suites) == [min : VerOrUnset, max : VerOrUnset, auth : AuthModes, ca : BOOLEAN, skip : skips, suites : suites]
Cfgs == CfgsOver(BOOLEAN, {"default", "listed"})
\* cl = [lo, hi, cert]
Clients == {c \in [lo : Versions, hi : Versions, cert : CertKinds] : c.lo <= c.hi}

SetMax(S) == CHOOSE x \in S : \A y \in S : y <= x

\* tls_config.go Validate (the file checks aside): min > max is refused (so is a set min with max
\* left 0), and so is a set min below TLS 1.2
Accepts(cfg) == ~(cfg.min > cfg.max) /\ (cfg.min = 0 \/ cfg.min >= 12)

\* crypto/tls (Config.supportedVersions): an unset MinVersion means TLS 1.2 for a server, an unset
\* MaxVersion means TLS 1.3
\* (the listed suites are TLS 1.2 AEAD suites; TLS 1.3 suites are not configurable: no version >= 1.2 is lost)
ServerVersions(cfg) == {v \in Versions : (IF cfg.min = 0 THEN v >= 12 ELSE v >= cfg.min) /\ (cfg.max = 0 \/ v <= cfg.max)}
ClientVersions(cl)  == {v \in Versions : cl.lo <= v /\ v <= cl.hi}

\* a client certificate verifies only against the configured CA: BuildConfig loads CAFile, and nothing
\* else, into ClientCAs for the verifying modes.  With no CAFile crypto/tls verifies against the host's
\* trust store (ClientCAs nil), which is then the only anchor there is.
Chains(cfg, cert) == IF cfg.ca THEN cert = "ca" ELSE cert = "public"
\* sysToo: a defect class in which the verifying pool is the host's trust store plus the configured CA
\* (the pattern used for RootCAs on the client side); FALSE is the code
AdmittedWith(cfg, cert, sysToo) ==
  LET chains == Chains(cfg, cert) \/ (sysToo /\ cert = "public") IN
  CASE cfg.auth \in {"none", "request"} -> TRUE
    [] cfg.auth = "requireAny"        -> cert # "none"
    [] cfg.auth = "verifyIfGiven"     -> cert = "none" \/ chains
    [] cfg.auth = "requireAndVerify"  -> cert # "none" /\ chains
CertAdmitted(cfg, cert) == AdmittedWith(cfg, cert, FALSE)

\* outcome of one handshake against a listener built from cfg: [ok, ver]
HandshakeWith(cfg, cl, sysToo) ==
  LET common == ServerVersions(cfg) \cap ClientVersions(cl) IN
  IF common = {} \/ ~AdmittedWith(cfg, cl.cert, sysToo) THEN [ok |-> FALSE, ver |-> 0]
  ELSE [ok |-> TRUE, ver |-> SetMax(common)]
Handshake(cfg, cl) == HandshakeWith(cfg, cl, FALSE)

-----------------------------------------------------------------------------
(* Ideal level: what C30 states about a completed handshake *)
FloorOK(out)        == out.ok => out.ver >= 12
\* required and verified: only clients of the configured CA get in (a certificate of some CA the host
\* happens to trust is not one); without a configured CA only the host's trust store can vouch
MutualOK(cfg, cl, out) == (cfg.auth = "requireAndVerify" /\ out.ok) => Chains(cfg, cl.cert)
=============================================================================

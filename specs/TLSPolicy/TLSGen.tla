------------------------------ MODULE TLSGen ------------------------------
(***************************************************************************)
(* Test-vector generation for C30 (MBT): every TLS configuration           *)
(* (Min/Max in {unset, 1.0 .. 1.3}^2 x five ClientAuth modes x CA file      *)
(* present/absent x InsecureSkipVerify x cipher-suite list) against every client (version range x certificate kind) *)
(* with the outcome TLSPolicyOps predicts, written to IOEnv.VF_VECTORS.     *)
(***************************************************************************)
EXTENDS TLSPolicyOps, TLC, Json, IOUtils, SequencesExt

CONSTANT Variants   \* the (InsecureSkipVerify, cipher-suite list) combinations to generate:
                    \* subset of {"plain", "skip", "listed", "skip+listed"}
VariantOf(c) == IF c.skip THEN (IF c.suites = "default" THEN "skip" ELSE "skip+listed")
                ELSE (IF c.suites = "default" THEN "plain" ELSE "listed")

Vectors == {[cfg |-> c, accepts |-> Accepts(c),
             clients |-> SetToSeq({[cl |-> cl, expect |-> Handshake(c, cl)] : cl \in Clients})] :
               c \in {x \in Cfgs : VariantOf(x) \in Variants}}

ASSUME ndJsonSerialize(IOEnv.VF_VECTORS, SetToSeq(Vectors))

VARIABLE x
Init == x = 0
Next == x' = x
Spec == Init /\ [][Next]_x
=============================================================================

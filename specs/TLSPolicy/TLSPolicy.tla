------------------------------ MODULE TLSPolicy ------------------------------
(***************************************************************************)
(* C30: the TLS listener enforces the configured floor.                    *)
(*                                                                         *)
(* Part 1 (policy function).  Start: the server is given any TLS settings; *)
(* it accepts or rejects them (Listen).  Hello: any client (version range, *)
(* certificate kind) handshakes with an accepted listener.                  *)
(* Part 2 (rotation).  The listener presents `live`; the files on disk     *)
(* hold `disk`; every TLSConfig object that exists holds its own copy of   *)
(* the certificate: the object the listener's GetCertificate callback      *)
(* reads ("listener"), the object the caller passed to New ("caller"), and *)
(* the clones GetExportOptions() returns ("snapshot": fetched after Listen, *)
(* "pre-snapshot": fetched before Listen and kept).                        *)
(* ReloadCertificates(obj) loads disk into obj.  Sharing = the repaired    *)
(* design in which clones share one certificate holder (F21).              *)
(***************************************************************************)
EXTENDS TLSPolicyOps, TLC

CONSTANTS Certs,     \* certificates that can be on disk, e.g. {"A", "B", "C"}
          Sharing,   \* which TLSConfig objects share the listener's certificate holder:
                     \*   "none" every clone has its own (F21); "lazy" only clones made after the listener was
                     \*   built (a defect class); "all" a TLSConfig and all its clones, whenever made (the repair)
          SkipSet, SuiteSet,  \* values of InsecureSkipVerify / CipherSuites explored
          SystemRootsToo      \* FALSE: ClientCAs holds the configured CA only (the code); TRUE: a defect class

VARIABLES cfg,       \* settings the server was started with
          started,   \* Listen has been called
          listening, \* Listen succeeded
          last,      \* last handshake: [seen, cl, out, served]
          live,      \* certificate the listener presents
          disk,      \* certificate in CertFile/KeyFile
          pending    \* a reload through GetExportOptions().TLS returned nil since the last rotation: must now be presented
vars == <<cfg, started, listening, last, live, disk, pending>>

NoCfg  == [min |-> 0, max |-> 0, auth |-> "none", ca |-> FALSE, skip |-> FALSE, suites |-> "default"]
NoLast == [seen |-> FALSE, cl |-> [lo |-> 10, hi |-> 10, cert |-> "none"], out |-> [ok |-> FALSE, ver |-> 0], served |-> "A"]

Init == /\ cfg = NoCfg /\ started = FALSE /\ listening = FALSE /\ last = NoLast
        /\ live = "A" /\ disk = "A" /\ pending = "none"

Start(c) == /\ ~started
            /\ cfg' = c /\ started' = TRUE /\ listening' = Accepts(c)
            /\ UNCHANGED <<last, live, disk, pending>>

Hello(cl) == /\ listening
             /\ last' = [seen |-> TRUE, cl |-> cl, out |-> HandshakeWith(cfg, cl, SystemRootsToo), served |-> live]
             /\ UNCHANGED <<cfg, started, listening, live, disk, pending>>

RotateOnDisk(c) == /\ listening /\ c # disk
                   /\ disk' = c /\ pending' = "none"
                   /\ UNCHANGED <<cfg, started, listening, last, live>>

\* ReloadCertificates on the TLS settings returned by GetExportOptions (the documented step),
\* fetched now (after Listen) ...
ReloadSnapshot == /\ listening
                  /\ live' = IF Sharing \in {"lazy", "all"} THEN disk ELSE live    \* "none": a fresh clone has its own holder
                  /\ pending' = disk
                  /\ UNCHANGED <<cfg, started, listening, last, disk>>
\* ... or fetched before the listener was built and kept by the application
ReloadPreSnapshot == /\ listening
                     /\ live' = IF Sharing = "all" THEN disk ELSE live
                     /\ pending' = disk
                     /\ UNCHANGED <<cfg, started, listening, last, disk>>
\* ReloadCertificates on the object the caller handed to New (cloned before the listener was built;
\* with the shared holder the caller's object and its clones hold the same certificate)
ReloadCaller == /\ listening
                /\ live' = IF Sharing = "all" THEN disk ELSE live
                /\ UNCHANGED <<cfg, started, listening, last, disk, pending>>

Next == \/ \E c \in CfgsOver(SkipSet, SuiteSet) : Start(c)
        \/ \E cl \in Clients : Hello(cl)
        \/ \E c \in Certs : RotateOnDisk(c)
        \/ ReloadSnapshot \/ ReloadPreSnapshot \/ ReloadCaller

Spec == Init /\ [][Next]_vars

-----------------------------------------------------------------------------
(* C30 *)
\* no accepted configuration completes a handshake below TLS 1.2
Floor == last.seen => FloorOK(last.out)
\* with required and verified client certificates only clients of the configured CA get in
Mutual == last.seen => MutualOK(cfg, last.cl, last.out)
\* after the documented rotation step new handshakes present the reloaded certificate
Rotation == (last.seen /\ pending # "none") => (pending = live)
\* what the listener negotiates is the highest common version (impl level, for the vectors)
Highest == (last.seen /\ last.out.ok) =>
             /\ last.out.ver \in ServerVersions(cfg) \cap ClientVersions(last.cl)
             /\ \A v \in ServerVersions(cfg) \cap ClientVersions(last.cl) : v <= last.out.ver
TypeOK == /\ listening => (started /\ Accepts(cfg))
          /\ live \in Certs /\ disk \in Certs
=============================================================================

------------------------------ MODULE TLSTrace ------------------------------
(***************************************************************************)
(* Validation of recorded TLS behaviour of the real listener               *)
(* (harness/vf_tls.go) against TLSPolicy.                                  *)
(*   cfg   Server.Listen with the given TLS settings: accepted or refused   *)
(*   hs    one real handshake (crypto/tls client with a version range and   *)
(*         a certificate kind) followed by a NULL call: completed or not,   *)
(*         negotiated version, which server certificate was presented       *)
(*   rot   rotation histories: rotate the files on disk, ReloadCertificates *)
(*         through GetExportOptions().TLS or through the caller's object,   *)
(*         handshakes in between                                           *)
(* ideal level (verdict): Floor, Mutual, Rotation as C30 states them;       *)
(* impl level (drift): accept/refuse = Accepts, outcome = Handshake.        *)
(***************************************************************************)
EXTENDS TLSPolicyOps, TLC, Json, IOUtils

CONSTANTS KnownDeviations,   \* subset of {"Dev_ReloadOnSnapshotNoEffect"}
          Sharing            \* impl-level model switch: "none" (F21 present) | "lazy" | "all" (after fix F21)

TraceLog == ndJsonDeserialize(IOEnv.VF_TRACE)
N == Len(TraceLog)

VARIABLES l, cfg, listening,
          allowed,  \* rotation ghost: certificates a new handshake may present
          livem,    \* rotation ghost: what the transcribed model says the listener presents
          diskm,    \* rotation ghost: certificate on disk
          bad, dev, drift, stats
vars == <<l, cfg, listening, allowed, livem, diskm, bad, dev, drift, stats>>

Cur == TraceLog[l]
Known(d) == d \in KnownDeviations
Tag(S) == {[l |-> l, why |-> w] : w \in S}
CfgOf(c) == [min |-> c.min, max |-> c.max, auth |-> c.auth, ca |-> c.ca, skip |-> c.skip, suites |-> c.suites]
ClOf(c)  == [lo |-> c.lo, hi |-> c.hi, cert |-> c.cert]

Init == /\ l = 1 /\ cfg = [min |-> 0, max |-> 0, auth |-> "none", ca |-> FALSE, skip |-> FALSE, suites |-> "default"] /\ listening = FALSE
        /\ allowed = {"A"} /\ livem = "A" /\ diskm = "A"
        /\ bad = {} /\ dev = {} /\ drift = {}
        /\ stats = [lines |-> 0, cfgs |-> 0, accepted |-> 0, hs |-> 0, completed |-> 0, below12 |-> 0, rot |-> 0]

\* a server was started with these settings
StepCfg ==
  /\ Cur.ev = "cfg"
  /\ cfg' = CfgOf(Cur.cfg) /\ listening' = Cur.listening
  /\ allowed' = {"A"} /\ livem' = "A" /\ diskm' = "A"
  /\ drift' = drift \cup Tag(IF Cur.listening # Accepts(CfgOf(Cur.cfg))
                             THEN {"Listen accepts/refuses the TLS settings differently from Validate as transcribed"} ELSE {})
  /\ UNCHANGED <<bad, dev>>
  /\ stats' = [stats EXCEPT !.cfgs = @ + 1, !.accepted = @ + (IF Cur.listening THEN 1 ELSE 0)]

StepHs ==
  /\ Cur.ev = "hs"
  /\ LET cl == ClOf(Cur.cl)
         out == [ok |-> Cur.ok, ver |-> Cur.ver]
         model == Handshake(cfg, cl) IN
     /\ bad' = bad \cup Tag((IF ~FloorOK(out) THEN {"handshake completed below TLS 1.2"} ELSE {})
                            \cup (IF ~MutualOK(cfg, cl, out)
                                  THEN {"handshake completed without a client certificate of the configured CA although client certificates are required and verified"}
                                  ELSE {}))
     /\ drift' = drift \cup Tag(IF out # model THEN {"handshake outcome differs from Handshake(cfg, client)"} ELSE {})
     /\ stats' = [stats EXCEPT !.hs = @ + 1, !.completed = @ + (IF Cur.ok THEN 1 ELSE 0),
                               !.below12 = @ + (IF Cur.ok /\ Cur.ver < 12 THEN 1 ELSE 0)]
  /\ UNCHANGED <<cfg, listening, allowed, livem, diskm, dev>>

\* rotation histories
StepRot ==
  /\ Cur.ev = "rot"
  /\ UNCHANGED <<cfg, listening>>
  /\ stats' = [stats EXCEPT !.rot = @ + 1]
  /\ CASE Cur.act = "rotate" ->
            \* new files on disk; the property does not say when (before the reload) they may show up
            /\ diskm' = Cur.arg /\ allowed' = allowed \cup {Cur.arg}
            /\ UNCHANGED <<livem, bad, dev, drift>>
       [] Cur.act \in {"reload_snapshot", "reload_held", "reload_presnapshot"} ->
            \* the documented step, on TLS settings returned by GetExportOptions just now ("snapshot"), earlier
            \* after Listen ("held"), or before Listen ("presnapshot"): from now on new handshakes present the
            \* certificate on disk
            /\ allowed' = IF Cur.ok THEN {diskm} ELSE allowed
            /\ livem' = IF Cur.ok /\ (Sharing = "all" \/ (Sharing = "lazy" /\ Cur.act # "reload_presnapshot")) THEN diskm ELSE livem
            /\ UNCHANGED <<diskm, bad, dev, drift>>
       [] Cur.act = "update_from_presnapshot" ->
            \* UpdateExportOptions with the options fetched before Listen: same settings, nothing to present differently
            /\ UNCHANGED <<allowed, livem, diskm, bad, dev, drift>>
       [] Cur.act = "reload_caller" ->
            \* not the documented step: either effect is acceptable
            /\ allowed' = allowed \cup {diskm}
            /\ livem' = IF Cur.ok /\ Sharing = "all" THEN diskm ELSE livem
            /\ UNCHANGED <<diskm, bad, dev, drift>>
       [] Cur.act = "hs" ->
            LET okp == Cur.ok /\ Cur.presented \in allowed
                \* F21: the reload went into a clone; the listener still presents what it presented before
                isDev == Cur.ok /\ ~okp /\ Cur.presented = livem /\ Sharing = "none" /\ Known("Dev_ReloadOnSnapshotNoEffect") IN
            /\ bad' = bad \cup Tag(IF ~Cur.ok THEN {"handshake after a rotation step failed"}
                                   ELSE IF ~okp /\ ~isDev THEN {"new handshake does not present the reloaded certificate"} ELSE {})
            /\ dev' = dev \cup (IF isDev THEN {[l |-> l, name |-> "Dev_ReloadOnSnapshotNoEffect"]} ELSE {})
            /\ drift' = drift \cup Tag(IF Cur.ok /\ Cur.presented # livem THEN {"presented certificate differs from the transcribed holder model"} ELSE {})
            /\ UNCHANGED <<allowed, livem, diskm>>

Consume == /\ l <= N
           /\ l' = l + 1
           /\ (StepCfg \/ StepHs \/ StepRot)

Finish == /\ l = N + 1
          /\ l' = N + 2
          /\ JsonSerialize(IOEnv.VF_RESULT,
                [n |-> N, consumed |-> l - 1, bad |-> bad, dev |-> dev, drift |-> drift,
                 stats |-> [stats EXCEPT !.lines = N]])
          /\ UNCHANGED <<cfg, listening, allowed, livem, diskm, bad, dev, drift, stats>>

Next == Consume \/ Finish
Spec == Init /\ [][Next]_vars
=============================================================================

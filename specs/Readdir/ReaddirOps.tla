----------------------------- MODULE ReaddirOps -----------------------------
(***************************************************************************)
(* Pure operators of the directory-listing model (C26): exact XDR sizes of *)
(* READDIR3resok / READDIRPLUS3resok (RFC 1813 3.3.16 / 3.3.17), the       *)
(* paging rule of nfs_proc_dir.go at the code's grain, the repaired rule,  *)
(* the rule the property asks for, and the verdict of one reply.  Used by  *)
(* the design spec Readdir and, on recorded replies, by ReaddirTrace.      *)
(*                                                                         *)
(* The status word is not part of resok:                                   *)
(*   READDIR3resok     = post_op_attr dir_attributes, cookieverf3 (8),     *)
(*                       dirlist3 { entry3 *entries; bool eof }            *)
(*   entry3            = value_follows (4), fileid3 (8), filename3 (4 +    *)
(*                       pad4(len)), cookie3 (8)                           *)
(*   entryplus3        = entry3 fields + post_op_attr name_attributes +    *)
(*                       post_op_fh3 name_handle                           *)
(*   the list ends with value_follows = FALSE (4), then eof (4)            *)
(***************************************************************************)
EXTENDS Integers, Sequences, FiniteSets

Max2(a, b) == IF a >= b THEN a ELSE b
Min2(a, b) == IF a <= b THEN a ELSE b
Pad4(n) == ((n + 3) \div 4) * 4

Fattr3 == 84                               \* 5 words + 2 hypers + specdata3 + 2 hypers + 3 nfstime3
PostOpAttr(has) == IF has THEN 4 + Fattr3 ELSE 4
PostOpFh(fhlen) == IF fhlen >= 0 THEN 4 + 4 + Pad4(fhlen) ELSE 4    \* fhlen < 0: handle_follows = FALSE

\* fixed part of a resok: dir_attributes + cookieverf + terminating value_follows + eof
Base(dirattrs) == PostOpAttr(dirattrs) + 8 + 4 + 4

\* one entry as it is on the wire (ha: name_attributes present, fhlen: handle length or -1)
EntryWire(proc, namelen, ha, fhlen) ==
  4 + 8 + 4 + Pad4(namelen) + 8
    + (IF proc = "READDIRPLUS" THEN PostOpAttr(ha) + PostOpFh(fhlen) ELSE 0)

\* one entry as this server encodes it: attributes always present, 8-byte handles
FhLen == 8
Entry(proc, namelen) == EntryWire(proc, namelen, TRUE, FhLen)
BaseFull == Base(TRUE)

RECURSIVE SumEntries(_, _)
SumEntries(proc, lens) ==
  IF lens = << >> THEN 0 ELSE Entry(proc, Head(lens)) + SumEntries(proc, Tail(lens))

\* size of the resok that lists exactly the entries with name lengths `lens`
Resok(proc, lens) == BaseFull + SumEntries(proc, lens)

Take(s, n) == SubSeq(s, 1, n)
Drop(s, n) == SubSeq(s, n + 1, Len(s))

-----------------------------------------------------------------------------
(* The code's rule (nfs_proc_dir.go).  buf holds status (4) + dir attributes *)
(* (88) + cookieverf (8) = 100 bytes when the loop starts; an entry is       *)
(* appended when buf.Len() < maxReplySize, where                             *)
(*   READDIR      maxReplySize = max(count - 100, 128)                       *)
(*   READDIRPLUS  maxReplySize = max(maxcount - 200, 256), "&& entryCount>0" *)
(* i.e. the test looks at the size BEFORE the entry is added, compares it    *)
(* with a limit that ignores the trailer, and a floor replaces small counts. *)
Margin(proc) == IF proc = "READDIR" THEN 100 ELSE 200
Floor(proc)  == IF proc = "READDIR" THEN 128 ELSE 256
Threshold(proc, count) == Max2(count - Margin(proc), Floor(proc))
Buf0 == 4 + PostOpAttr(TRUE) + 8          \* 100

\* number of entries the code returns for remaining name lengths `rem`
RECURSIVE CodeTake(_, _, _, _, _)
CodeTake(proc, rem, thr, buf, k) ==
  IF rem = << >> THEN k
  ELSE IF buf >= thr /\ (proc = "READDIR" \/ k > 0) THEN k
  ELSE CodeTake(proc, Tail(rem), thr, buf + Entry(proc, Head(rem)), k + 1)

\* the repaired rule (proposed/F18.patch): the entry is sized first and appended only if
\* the finished resok still fits; the first entry is returned even when it does not
\* (the repository's tests require NFS_OK for count 50)
RECURSIVE SizedTake(_, _, _, _, _)
SizedTake(proc, rem, count, size, k) ==
  IF rem = << >> THEN k
  ELSE IF size + Entry(proc, Head(rem)) > count /\ k > 0 THEN k
  ELSE SizedTake(proc, Tail(rem), count, size + Entry(proc, Head(rem)), k + 1)

\* A reply is [st |-> "OK" | "TOOSMALL" | ..., n |-> entries returned, eof |-> BOOLEAN, size |-> bytes]
Reply(proc, rem, n) == [st |-> "OK", n |-> n, eof |-> (n = Len(rem)), size |-> Resok(proc, Take(rem, n))]
TooSmall == [st |-> "TOOSMALL", n |-> 0, eof |-> FALSE, size |-> 0]

CodeReply(proc, rem, count)  == Reply(proc, rem, CodeTake(proc, rem, Threshold(proc, count), Buf0, 0))
SizedReply(proc, rem, count) == Reply(proc, rem, SizedTake(proc, rem, count, BaseFull, 0))

\* what the property asks for, as this server would encode it: TOOSMALL when not even the
\* next entry (or, at the end, the bare eof reply) fits, else as many entries as fit
NothingFits(proc, rem, count) ==
  IF rem = << >> THEN BaseFull > count ELSE BaseFull + Entry(proc, rem[1]) > count
IdealReply(proc, rem, count) ==
  IF NothingFits(proc, rem, count) THEN TooSmall ELSE SizedReply(proc, rem, count)

LevelReply(level, proc, rem, count) ==
  CASE level = "code"  -> CodeReply(proc, rem, count)
    [] level = "sized" -> SizedReply(proc, rem, count)
    [] level = "ideal" -> IdealReply(proc, rem, count)

-----------------------------------------------------------------------------
(* Verdict of one reply (ideal level = the property, nothing more):          *)
(*   an OK reply is no larger than count;                                    *)
(*   TOOSMALL only when not even one entry fits;                             *)
(*   a call that can fit an entry returns at least one (an OK reply without  *)
(*   entries and without eof makes no progress whatever the count).          *)
(* `r` is a reply record, `rem` the name lengths of the entries that follow  *)
(* the cookie.  Which entries, names, fileids and eof are judged per listing.*)
ReplyBad(proc, rem, count, r) ==
     (IF r.st = "OK" /\ r.size > count
      THEN {"encoded resok is larger than the count/maxcount the client gave"} ELSE {})
  \cup (IF r.st = "TOOSMALL" /\ ~NothingFits(proc, rem, count)
      THEN {"NFS3ERR_TOOSMALL although an entry (or the final eof reply) fits"} ELSE {})
  \cup (IF r.st = "OK" /\ r.n = 0 /\ ~r.eof /\ rem # << >>
      THEN {"OK reply without entries and without eof: the listing cannot make progress"} ELSE {})
  \cup (IF r.st = "OK" /\ r.n = 0 /\ r.eof /\ rem # << >>
      THEN {"eof reported although entries remain"} ELSE {})
  \cup (IF r.st \notin {"OK", "TOOSMALL"}
      THEN {"listing of a valid directory failed"} ELSE {})

(* The two confirmed ways in which the pinned code exceeds the count (finding *)
(* F18).  bufBefore = what buf.Len() was when the LAST returned entry was     *)
(* tested: the reply minus trailer (8) plus status (4) minus that entry.      *)
(*   Dev_ReaddirOverflowsByLastEntry: an entry would fit, but the code tests  *)
(*     the size before appending against count - margin (or the floor), so    *)
(*     the reply overshoots by its last entry/entries.                        *)
(*   Dev_ReaddirNeverTooSmall: not even one entry fits (or the bare eof reply *)
(*     does not); the code never answers TOOSMALL and returns what its floor  *)
(*     admits.                                                                *)
(* Any overflow whose last entry was appended at or above the code's own      *)
(* threshold matches neither and stays a violation.                           *)
BufBefore(r, lastsize) == r.size - 4 - lastsize
WithinCodeRule(proc, count, r, lastsize) ==
  r.n = 0 \/ BufBefore(r, lastsize) < Threshold(proc, count)
OverflowDev(proc, rem, count, r, lastsize) ==
  IF ~(r.st = "OK" /\ r.size > count /\ WithinCodeRule(proc, count, r, lastsize)) THEN {}
  ELSE IF NothingFits(proc, rem, count) THEN {"Dev_ReaddirNeverTooSmall"}
  ELSE IF r.n >= 1 THEN {"Dev_ReaddirOverflowsByLastEntry"}
  ELSE {}
=============================================================================

------------------------------- MODULE Readdir -------------------------------
(***************************************************************************)
(* Design spec of directory listing (C26).                                  *)
(*                                                                         *)
(* A directory is a sequence of name lengths (entry i is the i-th name the  *)
(* backend returns; '.' and '..' are not in it).  A client lists it with a  *)
(* sequence of READDIR / READDIRPLUS calls, each with any count from the    *)
(* grid of all k-entry reply sizes +-1 (and those sizes plus the code's     *)
(* margins), each continuing at the cookie of the last entry it received    *)
(* (the cookie of entry i is i, as in nfs_proc_dir.go).                     *)
(*                                                                         *)
(* Each behaviour fixes one level in Levels = the server's paging rule:     *)
(*   "code"   nfs_proc_dir.go as pinned (limit tested before the append,   *)
(*            count - 100 / maxcount - 200, floors 128 / 256),             *)
(*   "sized"  proposed/F18.patch (entry sized first; first entry always    *)
(*            returned),                                                   *)
(*   "ideal"  the property (TOOSMALL when nothing fits).                   *)
(* Invariants state C26: Complete (at eof the concatenation is the          *)
(* directory, each entry once), Fits, TooSmallOnlyWhenNothingFits,          *)
(* Progress; Classified says every overflow of the modelled server is one   *)
(* of the two named deviations of finding F18, so the trace spec's guards   *)
(* are exactly as wide as the code's rule.                                  *)
(***************************************************************************)
EXTENDS ReaddirOps, TLC

CONSTANTS Lens,        \* name lengths, e.g. {1, 4, 255}
          MaxEntries,  \* directories of 0..MaxEntries entries
          Levels,      \* subset of {"code", "sized", "ideal"}: one is chosen per behaviour
          Procs        \* subset of {"READDIR", "READDIRPLUS"}

VARIABLES lvl,     \* the server's paging rule in this behaviour
          dir,     \* sequence of name lengths
          cookie,  \* cookie the next call continues from (0 = start)
          acc,     \* indices received so far in this listing, in order
          last,    \* the last call and its reply
          phase    \* "listing" | "eof" | "toosmall"
vars == <<lvl, dir, cookie, acc, last, phase>>

Dirs == UNION {[1..n -> Lens] : n \in 0..MaxEntries}

\* counts worth trying in a state: every k-entry reply size from the current cookie, +-1,
\* the same plus the code's margin, 0, and the floors' neighbourhood
Grid(proc) ==
  LET rem == Drop(dir, cookie)
      sizes == {Resok(proc, Take(rem, k)) : k \in 0..Len(rem)}
  IN {0} \cup {s + d : s \in sizes, d \in {-1, 0, 1}}
         \cup {s + Margin(proc) + d : s \in sizes, d \in {-5, -4, -3, 0}}
         \cup {Floor(proc) + Margin(proc) - 1, Floor(proc) + Margin(proc)}

Init == /\ lvl \in Levels /\ dir \in Dirs /\ cookie = 0 /\ acc = << >>
        /\ last = [op |-> "init"] /\ phase = "listing"

Call(proc, count) ==
  /\ phase = "listing"
  /\ LET rem == Drop(dir, cookie)
         r   == LevelReply(lvl, proc, rem, count)
     IN /\ last' = [op |-> "call", proc |-> proc, count |-> count, cookie |-> cookie, rem |-> rem, r |-> r,
                    lastsize |-> IF r.n > 0 THEN Entry(proc, rem[r.n]) ELSE 0]
        /\ IF r.st = "OK"
           THEN /\ acc' = acc \o [j \in 1..r.n |-> cookie + j]
                /\ cookie' = cookie + r.n
                /\ phase' = IF r.eof THEN "eof" ELSE "listing"
           ELSE /\ UNCHANGED <<acc, cookie>>
                /\ phase' = "toosmall"
  /\ UNCHANGED <<lvl, dir>>

\* after TOOSMALL the client retries with another count
Retry == phase = "toosmall" /\ phase' = "listing" /\ UNCHANGED <<lvl, dir, cookie, acc, last>>

Next == (\E proc \in Procs : \E count \in Grid(proc) : Call(proc, count)) \/ Retry
Spec == Init /\ [][Next]_vars

-----------------------------------------------------------------------------
TypeOK == /\ dir \in Dirs /\ cookie \in 0..Len(dir) /\ phase \in {"listing", "eof", "toosmall"}

\* the concatenated entries are exactly the directory's entries, each once, ending with eof
Complete == phase = "eof" => acc = [i \in 1..Len(dir) |-> i]
NoDuplicates == \A i, j \in DOMAIN acc : i # j => acc[i] # acc[j]
EofOnlyAtEnd == (last.op = "call" /\ last.r.st = "OK" /\ last.r.eof) => cookie = Len(dir)

\* each encoded resok fits within count / maxcount ... (the property; FitsIdeal: of the ideal rule)
Fits == (last.op = "call" /\ last.r.st = "OK") => last.r.size <= last.count
FitsIdeal == lvl = "ideal" => Fits
\* ... or the call fails with TOOSMALL when (and only when) not even one entry fits
TooSmallOnlyWhenNothingFits ==
  (last.op = "call" /\ last.r.st = "TOOSMALL") => NothingFits(last.proc, last.rem, last.count)
\* every call that can fit an entry returns at least one
Progress ==
  (last.op = "call" /\ last.rem # << >> /\ ~NothingFits(last.proc, last.rem, last.count))
     => (last.r.st = "OK" /\ last.r.n >= 1)

\* the verdict operator used on recorded replies agrees with the invariants above
VerdictAgrees ==
  last.op = "call" =>
    ((ReplyBad(last.proc, last.rem, last.count, last.r) = {})
       <=> (/\ (last.r.st = "OK" => last.r.size <= last.count)
            /\ (last.r.st = "TOOSMALL" => NothingFits(last.proc, last.rem, last.count))
            /\ ~(last.r.st = "OK" /\ last.r.n = 0 /\ last.rem # << >>)))

\* every reply of the modelled server that the property rejects is one of the two named
\* deviations (and only for an over-long OK reply)
Classified ==
  last.op = "call" =>
    LET b == ReplyBad(last.proc, last.rem, last.count, last.r)
        d == OverflowDev(last.proc, last.rem, last.count, last.r, last.lastsize)
    IN (b # {}) => (d # {} /\ b = {"encoded resok is larger than the count/maxcount the client gave"})
\* the repaired rule leaves only the missing TOOSMALL
OnlyTooSmallMissing ==
  (last.op = "call" /\ lvl # "code") =>
    OverflowDev(last.proc, last.rem, last.count, last.r, last.lastsize) \subseteq {"Dev_ReaddirNeverTooSmall"}
=============================================================================
